(** Persist/LivePut.v — liveness of the put loop in bounded form: after any
    schedule following the acknowledgement of an upload there is a fair
    extension of bounded length after which a state write covering the upload
    has completed (or the upload's block has been released by PopFront).

    Ghost: [phase], computed by scanning the executed schedule after the
    finalizer ([ph_next]):
      Ph0  no data sync has started since the acknowledgement
      Ph1  a data sync started since then is in flight
      Ph2  such a sync has completed; no state write started since has completed
      Ph3 t  loop t is inside a state write started in Ph2
      PhDone  that write has completed (NotifyPersistentStateWritten ran). *)
From Coq Require Import List NArith ZArith Bool Arith Lia.
From BBS Require Import Persist.PBL Persist.PBLProofs Persist.Syncer Persist.SyncerProofs
  Persist.LiveActs Persist.LiveCover Persist.LiveRelease Persist.LiveFair.
Import ListNotations.

(** ---- program-counter successor tables ---- *)
Lemma pstep_pc cfg a s s' : pstep cfg a s = Some (Ok s') ->
  match s_p s with
  | PStart => exists ch, s_p s' = PSelect ch
  | PSelect ch => (exists dl, s_p s' = PTimer dl) \/ s_p s' = PIdle ch
  | PIdle _ => s_p s' = PNotify false \/ exists dl, s_p s' = PTimer dl
  | PTimer _ => s_p s' = PNotify false \/ s_p s' = PNotify true
  | PNotify k => s_p s' = PSyncing k false
  | PSyncing k f => (a_ok a = true /\ s_p s' = PSyncRet k f) \/ (a_ok a = false /\ exists dl, s_p s' = PSyncSleep k f dl)
  | PSyncSleep k f _ => s_p s' = PSyncing k f
  | PSyncRet k f => s_p s' = (if negb k && negb f then PSyncing false true else PW k WAcquire)
  | PW k w =>
      match w with
      | WAcquire => s_p s' = PW k WGetState
      | WGetState => exists st, s_p s' = PW k (WWriting st)
      | WWriting _ => (a_ok a = true /\ s_p s' = PW k WWritten) \/ (a_ok a = false /\ exists dl, s_p s' = PW k (WSleep dl))
      | WWritten => s_p s' = (if k then PStart else PExit)
      | WSleep _ => s_p s' = PW k WAcquire
      end
  | PExit => False
  end.
Proof.
  unfold pstep. destruct (s_p s) as [|ch|ch|dl|keep|keep final|keep final|keep final dl|keep w|].
  - intros H; inversion H; subst. cbn. eauto.
  - destruct (is_closed _ _); intros H; inversion H; subst; cbn; eauto.
  - destruct (s_cancel s && _); [|destruct (is_closed _ _); [|discriminate]];
      intros H; inversion H; subst; cbn; eauto.
  - destruct (s_cancel s && _); [|destruct (_ && _)%bool; [|discriminate]];
      intros H; inversion H; subst; cbn; eauto.
  - intros H; inversion H; subst. reflexivity.
  - destruct (a_ok a) eqn:Ea; intros H; inversion H; subst; cbn; eauto.
  - destruct (negb keep && negb final); intros H; inversion H; subst; reflexivity.
  - destruct (_ <=? _)%N; [|discriminate]. intros H; inversion H; subst. reflexivity.
  - unfold wstep. destruct w.
    + destruct (s_store s); [discriminate|]. intros H; inversion H; subst. reflexivity.
    + destruct (get_persistent_state _) as [[p' st]|]; [|discriminate]. intros H; inversion H; subst. cbn. eauto.
    + destruct (a_ok a) eqn:Ea; intros H; inversion H; subst; cbn; eauto.
    + destruct (notify_state_written _); [|discriminate]. intros H; inversion H; subst. reflexivity.
    + destruct (_ <=? _)%N; [|discriminate]. intros H; inversion H; subst. reflexivity.
  - discriminate.
Qed.

Lemma rstep_pc cfg a s s' : rstep cfg a s = Some (Ok s') ->
  match s_r s with
  | RStart => exists ch, s_r s' = RWait ch
  | RWait _ => s_r s' = RW WAcquire
  | RW w =>
      match w with
      | WAcquire => s_r s' = RW WGetState
      | WGetState => exists st, s_r s' = RW (WWriting st)
      | WWriting _ => (a_ok a = true /\ s_r s' = RW WWritten) \/ (a_ok a = false /\ exists dl, s_r s' = RW (WSleep dl))
      | WWritten => s_r s' = RStart
      | WSleep _ => s_r s' = RW WAcquire
      end
  end.
Proof.
  unfold rstep. destruct (s_r s) as [|ch|w].
  - intros H; inversion H; subst. cbn. eauto.
  - destruct (is_closed _ _); [|discriminate]. intros H; inversion H; subst. reflexivity.
  - unfold wstep. destruct w.
    + destruct (s_store s); [discriminate|]. intros H; inversion H; subst. reflexivity.
    + destruct (get_persistent_state _) as [[p' st]|]; [|discriminate]. intros H; inversion H; subst. cbn. eauto.
    + destruct (a_ok a) eqn:Ea; intros H; inversion H; subst; cbn; eauto.
    + destruct (notify_state_written _); [|discriminate]. intros H; inversion H; subst. reflexivity.
    + destruct (_ <=? _)%N; [|discriminate]. intros H; inversion H; subst. reflexivity.
Qed.

(** the put loop's pc is unchanged by every event that is not its own step *)
Lemma p_frame cfg s e s' : inv1 s -> step cfg s e = Some (Ok s') -> (forall a, e <> EStep TP a) -> s_p s' = s_p s.
Proof.
  intros II H Hne. destruct e as [alloc| |index size|k blk seed|d| |t a].
  1-6: (match type of H with step _ _ ?e = _ =>
          assert (forall t a, e <> EStep t a) as Hne' by (intros t1 a0 H0; discriminate H0) end;
        apply (env_frame cfg s _ s' Hne' H)).
  destruct t; [|exfalso; eapply Hne; reflexivity]. cbn [step] in H. eapply rstep_frame; eauto.
Qed.

Lemma r_frame cfg s e s' : inv1 s -> step cfg s e = Some (Ok s') -> (forall a, e <> EStep TR a) -> s_r s' = s_r s.
Proof.
  intros II H Hne. destruct e as [alloc| |index size|k blk seed|d| |t a].
  1-6: (match type of H with step _ _ ?e = _ =>
          assert (forall t a, e <> EStep t a) as Hne' by (intros t1 a0 H0; discriminate H0) end;
        apply (env_frame cfg s _ s' Hne' H)).
  destruct t; [exfalso; eapply Hne; reflexivity|]. cbn [step] in H. eapply pstep_frame; eauto.
Qed.

(** ---- closedForWriting: set exactly by the final NotifySyncStarting ---- *)
Lemma act_closed a p p' : apply_act a p = Ok p' ->
  closedForWriting p' = match a with ASyncDone true => true | _ => closedForWriting p end.
Proof.
  destruct a as [|al| |tok blk size seed| |b|t|t]; cbn [apply_act].
  - intros H; inversion H; subst. reflexivity.
  - intros H; inversion H; subst. unfold push_back. destruct (closedForWriting p) eqn:E; [exact E|].
    destruct al; cbn; auto.
  - intros H. destruct (blocks p) as [|fb rest] eqn:Eb; [unfold pop_front in H; rewrite Eb in H; discriminate|].
    destruct (pop_fields _ _ _ _ Eb H) as (_ & _ & _ & _ & _ & _ & _ & _ & _ & Fc & _). exact Fc.
  - destruct (put_finalize _ _ _ _ _) as [[p1 fr]|] eqn:Ef; [|discriminate]. cbn. intros H; inversion H; subst.
    destruct (fin_cases _ _ _ _ _ _ _ Ef) as [[-> _]|
      (abs & off & bumped & _ & _ & _ & _ & _ & _ & _ & _ & _ & _ & _ & _ & _ & _ & _ & _ & Fc & _)]; auto.
  - intros H; inversion H; subst. reflexivity.
  - intros H; inversion H; subst.
    destruct (nsc_fields p) as (_ & _ & _ & _ & _ & _ & _ & _ & _ & Fc & _). destruct b; cbn; auto.
  - destruct (get_persistent_state p) as [[p1 st]|] eqn:Eg; [|discriminate]. cbn. intros H; inversion H; subst.
    destruct (gps_fields _ _ _ Eg) as (_ & _ & _ & _ & Fc & _). exact Fc.
  - intros H. destruct (nsw_fields _ _ H) as (_ & _ & _ & _ & Fc & _). exact Fc.
Qed.

(** pcs of the put loop after the final NotifySyncStarting(true) *)
Definition p_final (s : sys) : bool :=
  match s_p s with
  | PSyncing _ true | PSyncSleep _ true _ | PSyncRet _ true | PW false _ | PExit => true
  | _ => false
  end.

Definition cinv (s : sys) : Prop := p_final s = true -> closedForWriting (s_pbl s) = true.

Lemma step_cinv cfg s e s' : inv1 s -> cinv s -> step cfg s e = Some (Ok s') -> cinv s'.
Proof.
  intros II C H Hf. pose proof (act_closed _ _ _ (step_act _ _ _ _ H)) as Hc.
  assert (closedForWriting (s_pbl s) = true -> closedForWriting (s_pbl s') = true) as Hmono.
  { intros E. rewrite Hc, E. destruct (act_of s e) as [| | | | |[]| |]; reflexivity. }
  destruct e as [alloc| |index size|k blk seed|d| |t a].
  1-6: (apply Hmono, C; unfold p_final in *;
        rewrite (p_frame cfg s _ s' II H ltac:(intros a0 H0; discriminate H0)) in Hf; exact Hf).
  destruct t.
  - apply Hmono, C. unfold p_final in *.
    rewrite (p_frame cfg s _ s' II H ltac:(intros a0 H0; discriminate H0)) in Hf. exact Hf.
  - cbn [step] in H. pose proof (pstep_pc _ _ _ _ H) as T. unfold cinv, p_final in *. cbn [act_of] in Hc.
    destruct (s_p s) as [|ch|ch|dl|keep|keep final|keep final|keep final dl|keep w|] eqn:Ep.
    + destruct T as [ch T]. rewrite T in Hf. cbn in Hf. discriminate.
    + destruct T as [[dl T]|T]; rewrite T in Hf; cbn in Hf; discriminate.
    + destruct T as [T|[dl T]]; rewrite T in Hf; cbn in Hf; discriminate.
    + destruct T as [T|T]; rewrite T in Hf; cbn in Hf; discriminate.
    + rewrite T in Hf. cbn in Hf. discriminate.
    + destruct T as [[_ T]|[_ [dl T]]]; rewrite T in Hf; destruct final; cbn in Hf; try discriminate; apply Hmono, C; reflexivity.
    + rewrite T in Hf. destruct keep, final; cbn in Hf, Hc; try discriminate;
        try (apply Hmono, C; reflexivity). exact Hc.
    + rewrite T in Hf. destruct final; [apply Hmono, C; reflexivity|cbn in Hf; discriminate].
    + destruct keep; [|apply Hmono, C; reflexivity].
      destruct w; [|destruct T as [st T]|destruct T as [[_ T]|[_ [dl T]]]| |]; rewrite T in Hf; cbn in Hf; discriminate.
    + destruct T.
Qed.

(** ---- the scanned phase ---- *)
Inductive phase := Ph0 | Ph1 | Ph2 | Ph3 (t : tid) | PhDone.

Definition tid_of (e : event) : option tid := match e with EStep t _ => Some t | _ => None end.

(** the step is the failure of loop t's WritePersistentState call *)
Definition is_wfail (t : tid) (s : sys) (e : event) : bool :=
  match e with
  | EStep t' a => tid_eqb t t' && negb (a_ok a) &&
                  match wpc_of t s with Some (WWriting _) => true | _ => false end
  | _ => false
  end.

Definition is_written (a : act) : bool := match a with AWritten _ => true | _ => false end.
Definition getstate_tid (a : act) : option tid := match a with AGetState t => Some t | _ => None end.

Definition ph_next (ph : phase) (s : sys) (e : event) : phase :=
  match ph with
  | Ph0 => if sync_starts s e then Ph1 else Ph0
  | Ph1 => if sync_completes s e then Ph2 else Ph1
  | Ph2 => match getstate_tid (act_of s e) with Some t => Ph3 t | None => Ph2 end
  | Ph3 t => if is_written (act_of s e) then PhDone
             else if is_wfail t s e then Ph2 else Ph3 t
  | PhDone => PhDone
  end.

Fixpoint scan (cfg : config) (ph : phase) (s : sys) (tr : list event) : phase :=
  match tr with
  | [] => ph
  | e :: tr' =>
      match step cfg s e with
      | Some (Ok s') => scan cfg (ph_next ph s e) s' tr'
      | _ => ph
      end
  end.

Lemma scan_app cfg tr1 : forall ph s tr2 s1, run cfg s tr1 = Some (Ok s1) ->
  scan cfg ph s (tr1 ++ tr2) = scan cfg (scan cfg ph s tr1) s1 tr2.
Proof.
  induction tr1 as [|e tr1 IH]; intros ph s tr2 s1 H; cbn in *.
  - inversion H; subst. reflexivity.
  - destruct (step cfg s e) as [[s'|]|]; try discriminate. apply IH. exact H.
Qed.

Definition p_syncing (s : sys) : bool :=
  match s_p s with PSyncing _ _ | PSyncSleep _ _ _ | PSyncRet _ _ => true | _ => false end.

(** between the completion of the covering sync and the start of the put
    loop's own state write *)
Definition p2ok (s : sys) : bool :=
  match s_p s with
  | PW _ WAcquire | PW _ (WSleep _) | PW _ WGetState
  | PSyncing false true | PSyncSleep false true _ | PSyncRet false true => true
  | _ => false
  end.

Definition pinv (ph : phase) (s : sys) : Prop :=
  match ph with
  | Ph0 => closedForWriting (s_pbl s) = false
  | Ph1 => p_syncing s = true
  | Ph2 => p2ok s = true
  | Ph3 t => in_write t s = true /\ (t = TR -> p2ok s = true)
  | PhDone => True
  end.

Lemma p2ok_step cfg a s s' : p2ok s = true -> pstep cfg a s = Some (Ok s') ->
  (forall k, s_p s <> PW k WGetState) -> p2ok s' = true.
Proof.
  intros H2 H Hng. pose proof (pstep_pc _ _ _ _ H) as T. unfold p2ok in *.
  destruct (s_p s) as [|ch|ch|dl|keep|keep final|keep final|keep final dl|keep w|]; try discriminate.
  - destruct keep, final; try discriminate. destruct T as [[_ ->]|[_ [dl ->]]]; reflexivity.
  - destruct keep, final; try discriminate. rewrite T. reflexivity.
  - destruct keep, final; try discriminate. rewrite T. reflexivity.
  - destruct w; try discriminate; try (rewrite T; reflexivity). exfalso. eapply Hng. reflexivity.
Qed.

Lemma in_write_holds_r s : in_write TR s = true -> r_holds s = true.
Proof. unfold in_write, wpc_of, r_holds. destruct (s_r s) as [| |[]]; cbn; congruence. Qed.
Lemma in_write_holds_p s : in_write TP s = true -> p_holds s = true.
Proof. unfold in_write, wpc_of, p_holds. destruct (s_p s) as [| | | | | | | |? []|]; cbn; congruence. Qed.


(** decoding [act_of] *)
Lemma act_syncstart s e : act_of s e = ASyncStart -> exists a k, e = EStep TP a /\ s_p s = PNotify k.
Proof.
  destruct e as [alloc| |index size|k blk seed|d| |[] a]; cbn [act_of]; try discriminate.
  - destruct (nth_error _ _) as [[[tok sz]|]|]; discriminate.
  - destruct (s_r s) as [| |[]]; discriminate.
  - destruct (s_p s) as [| | | |k| | | |? []|]; try discriminate. eauto.
Qed.

Lemma act_syncdone s e b : act_of s e = ASyncDone b ->
  exists a k f, e = EStep TP a /\ s_p s = PSyncRet k f /\ b = negb k && negb f.
Proof.
  destruct e as [alloc| |index size|k blk seed|d| |[] a]; cbn [act_of]; try discriminate.
  - destruct (nth_error _ _) as [[[tok sz]|]|]; discriminate.
  - destruct (s_r s) as [| |[]]; discriminate.
  - destruct (s_p s) as [| | | | | |k f| |? []|]; try discriminate. intros H; inversion H. eauto 6.
Qed.

Lemma act_wact s e t x : (x = AGetState t \/ x = AWritten t) -> act_of s e = x ->
  exists a, e = EStep t a /\ wpc_of t s = Some (match x with AGetState _ => WGetState | _ => WWritten end).
Proof.
  intros Hx. destruct e as [alloc| |index size|k blk seed|d| |[] a]; cbn [act_of];
    try (destruct Hx; subst x; discriminate).
  - destruct (nth_error _ _) as [[[tok sz]|]|]; destruct Hx; subst x; discriminate.
  - unfold wpc_of. destruct (s_r s) as [| |[]]; cbn [wact]; destruct Hx; subst x; try discriminate;
      intros H; inversion H; subst; eauto.
  - unfold wpc_of. destruct (s_p s) as [| | | | | | | |? []|]; cbn [wact]; destruct Hx; subst x; try discriminate;
      intros H; inversion H; subst; eauto.
Qed.

(** an own step of the put loop that is neither ... : act determined by the pc *)
Lemma act_tp s a : act_of s (EStep TP a) =
  match s_p s with
  | PNotify _ => ASyncStart
  | PSyncRet k f => ASyncDone (negb k && negb f)
  | PW _ w => wact TP w
  | _ => ANone
  end.
Proof. reflexivity. Qed.

Lemma act_tr s a : act_of s (EStep TR a) = match s_r s with RW w => wact TR w | _ => ANone end.
Proof. reflexivity. Qed.

(** is the event a step of the put loop? *)
Lemma tp_or_not e : (exists a, e = EStep TP a) \/ (forall a, e <> EStep TP a).
Proof. destruct e as [| | | | | |[] a]; try (right; intros a0 H0; discriminate H0). left. eauto. Qed.
Lemma tr_or_not e : (exists a, e = EStep TR a) \/ (forall a, e <> EStep TR a).
Proof. destruct e as [| | | | | |[] a]; try (right; intros a0 H0; discriminate H0). left. eauto. Qed.

Lemma step_pinv cfg ph s e s' : ainv s -> pinv ph s -> step cfg s e = Some (Ok s') -> pinv (ph_next ph s e) s'.
Proof.
  intros [[II _] [_ [_ I3x]]] P H.
  destruct ph as [| | |t|]; cbn [pinv ph_next] in *.
  - (* Ph0 *)
    unfold sync_starts. pose proof (act_closed _ _ _ (step_act _ _ _ _ H)) as Hc.
    destruct (act_of s e) as [| | | | |[]| |] eqn:Ea; cbn [pinv]; try (rewrite Hc; exact P).
    + destruct (act_syncstart _ _ Ea) as [a [k [-> Ep]]]. cbn [step] in H.
      pose proof (pstep_pc _ _ _ _ H) as T. rewrite Ep in T. unfold p_syncing. rewrite T. reflexivity.
    + destruct (act_syncdone _ _ _ Ea) as [a [k [f [-> [Ep Hb]]]]]. cbn [step] in H.
      pose proof (pstep_pc _ _ _ _ H) as T. rewrite Ep, <- Hb in T. unfold p_syncing. rewrite T. reflexivity.
  - (* Ph1 *)
    unfold sync_completes. destruct (tp_or_not e) as [[a ->]|Hne].
    + cbn [step] in H. pose proof (pstep_pc _ _ _ _ H) as T. rewrite act_tp. unfold p_syncing in P.
      destruct (s_p s) as [| | | | |k f|k f|k f dl|k w|]; try discriminate; cbn [pinv].
      * unfold p_syncing. destruct T as [[_ ->]|[_ [dl ->]]]; reflexivity.
      * unfold p2ok. rewrite T. destruct k, f; reflexivity.
      * unfold p_syncing. rewrite T. reflexivity.
    + assert (s_p s' = s_p s) as Ef by (eapply p_frame; eauto).
      destruct (act_of s e) eqn:Ea; cbn [pinv]; try (unfold p_syncing in *; rewrite Ef; exact P).
      destruct (act_syncdone _ _ _ Ea) as [a [k [f [-> _]]]]. exfalso. eapply Hne. reflexivity.
  - (* Ph2 *)
    destruct (getstate_tid (act_of s e)) as [t|] eqn:Eg.
    + destruct (act_of s e) eqn:Ea; try discriminate. inversion Eg; subst t0.
      destruct (act_wact s e t _ (or_introl eq_refl) Ea) as [a [-> Hw]]. cbn [pinv]. unfold wpc_of in Hw.
      cbn [step] in H. destruct t.
      * pose proof (rstep_pc _ _ _ _ H) as T. destruct (s_r s) as [| |w]; try discriminate.
        inversion Hw; subst w. destruct T as [st T]. split; [unfold in_write, wpc_of; rewrite T; reflexivity|].
        intros _. unfold p2ok in *. rewrite (rstep_frame _ _ _ _ II H). exact P.
      * pose proof (pstep_pc _ _ _ _ H) as T. destruct (s_p s) as [| | | | | | | |k w|]; try discriminate.
        inversion Hw; subst w. destruct T as [st T]. split; [unfold in_write, wpc_of; rewrite T; reflexivity|discriminate].
    + cbn [pinv]. destruct (tp_or_not e) as [[a ->]|Hne].
      * cbn [step] in H. eapply p2ok_step; eauto. intros k Ek. rewrite act_tp, Ek in Eg. discriminate.
      * unfold p2ok in *. rewrite (p_frame _ _ _ _ II H Hne). exact P.
  - (* Ph3 t *)
    destruct P as [Hin Hp2].
    destruct (is_written (act_of s e)) eqn:Ew; [exact I|].
    assert (forall k, s_p s <> PW k WGetState \/ t = TP) as Hnog.
    { intros k. destruct t; [left|right; reflexivity]. intros Ek.
      apply in_write_holds_r in Hin. rewrite Hin in I3x. unfold p_holds in I3x. rewrite Ek in I3x. discriminate. }
    assert (t = TR -> p2ok s' = true) as Hp2'.
    { intros ->. specialize (Hp2 eq_refl). destruct (tp_or_not e) as [[a ->]|Hne].
      - cbn [step] in H. eapply p2ok_step; eauto. intros k. destruct (Hnog k); [assumption|discriminate].
      - unfold p2ok in *. rewrite (p_frame _ _ _ _ II H Hne). exact Hp2. }
    destruct (is_wfail t s e) eqn:Ewf; cbn [pinv].
    + unfold is_wfail in Ewf. destruct e as [alloc| |index size|k blk seed|d| |t' a]; try discriminate.
      apply andb_true_iff in Ewf. destruct Ewf as [Ewf Hww]. apply andb_true_iff in Ewf. destruct Ewf as [Et Hok].
      apply negb_true_iff in Hok. destruct t, t'; try discriminate.
      * apply Hp2'. reflexivity.
      * cbn [step] in H. pose proof (pstep_pc _ _ _ _ H) as T. unfold wpc_of in Hww. unfold p2ok.
        destruct (s_p s) as [| | | | | | | |k []|]; try discriminate.
        destruct T as [[Hok' _]|[_ [dl T]]]; [congruence|]. rewrite T. reflexivity.
    + split; [|exact Hp2'].
      destruct t.
      * destruct (tr_or_not e) as [[a ->]|Hne].
        -- cbn [step] in H. pose proof (rstep_pc _ _ _ _ H) as T. rewrite act_tr in Ew.
           unfold is_wfail in Ewf. cbn [tid_eqb andb] in Ewf. unfold in_write, wpc_of in *.
           destruct (s_r s) as [| |[]]; try discriminate; cbn in Ew; try discriminate.
           destruct T as [[_ T]|[Hok _]]; [rewrite T; reflexivity|]. rewrite Hok in Ewf. discriminate.
        -- unfold in_write, wpc_of in *. rewrite (r_frame _ _ _ _ II H Hne). exact Hin.
      * destruct (tp_or_not e) as [[a ->]|Hne].
        -- cbn [step] in H. pose proof (pstep_pc _ _ _ _ H) as T. rewrite act_tp in Ew.
           unfold is_wfail in Ewf. cbn [tid_eqb andb] in Ewf. unfold in_write, wpc_of in *.
           destruct (s_p s) as [| | | | | | | |k []|]; try discriminate; cbn in Ew; try discriminate.
           destruct T as [[_ T]|[Hok _]]; [rewrite T; reflexivity|]. rewrite Hok in Ewf. discriminate.
        -- unfold in_write, wpc_of in *. rewrite (p_frame _ _ _ _ II H Hne). exact Hin.
  - exact I.
Qed.

(** ---- enabledness of loop steps ---- *)
Lemma step_some_ok cfg s e : inv1 s -> step cfg s e <> None -> exists s', step cfg s e = Some (Ok s').
Proof.
  intros II Hn. destruct (step cfg s e) as [r|] eqn:E; [|congruence].
  destruct (step_inv1 _ _ _ _ II E) as [s' [-> _]]. eauto.
Qed.

Lemma tp_enabled cfg s a : inv1 s ->
  match s_p s with
  | PIdle ch => is_closed (heap (s_pbl s)) ch = true
  | PTimer dl => a_ok a = true /\ (dl <= a_time a)%N /\ (a_time a <= s_now s)%N
  | PSyncSleep _ _ dl => (dl <= s_now s)%N
  | PW _ WAcquire => s_store s = None
  | PW _ (WSleep dl) => (dl <= s_now s)%N
  | PExit => False
  | _ => True
  end -> exists s', step cfg s (EStep TP a) = Some (Ok s').
Proof.
  intros II Hc. apply step_some_ok; [exact II|]. cbn [step]. unfold pstep.
  destruct (s_p s) as [|ch|ch|dl|keep|keep final|keep final|keep final dl|keep w|].
  - discriminate.
  - destruct (is_closed _ _); discriminate.
  - rewrite Hc. destruct (s_cancel s && _); discriminate.
  - destruct Hc as [Ha [H1 H2]]. apply N.leb_le in H1. apply N.leb_le in H2. rewrite H1, H2, Ha. cbn.
    destruct (s_cancel s); discriminate.
  - discriminate.
  - destruct (a_ok a); discriminate.
  - destruct (negb keep && negb final); discriminate.
  - apply N.leb_le in Hc. rewrite Hc. discriminate.
  - unfold wstep. destruct w.
    + rewrite Hc. discriminate.
    + destruct (get_persistent_state _) as [[? ?]|]; discriminate.
    + destruct (a_ok a); discriminate.
    + destruct (notify_state_written _); discriminate.
    + apply N.leb_le in Hc. rewrite Hc. discriminate.
  - destruct Hc.
Qed.

Lemma tr_holder_enabled cfg s a : inv1 s -> r_holds s = true -> exists s', step cfg s (EStep TR a) = Some (Ok s').
Proof.
  intros II Hh. apply step_some_ok; [exact II|]. cbn [step]. unfold rstep, r_holds in *.
  destruct (s_r s) as [| |w]; try discriminate. unfold wstep. destruct w; try discriminate.
  - destruct (get_persistent_state _) as [[? ?]|]; discriminate.
  - destruct (a_ok a); discriminate.
  - destruct (notify_state_written _); discriminate.
Qed.

(** ---- rank ---- *)
Definition lockdist (s : sys) : nat :=
  match s_r s with RW WGetState => 3 | RW (WWriting _) => 2 | RW WWritten => 1 | _ => 0 end.

Definition d2 (s : sys) : nat :=
  match s_p s with
  | PW _ WGetState => 1
  | PW _ WAcquire => 2 + lockdist s
  | PW _ (WSleep _) => 4 + lockdist s
  | PSyncRet _ _ => 3 + lockdist s
  | PSyncing _ _ => 4 + lockdist s
  | PSyncSleep _ _ _ => 6 + lockdist s
  | _ => 0
  end.

Definition d1 (s : sys) : nat :=
  match s_p s with PSyncRet _ _ => 1 | PSyncing _ _ => 2 | PSyncSleep _ _ _ => 4 | _ => 0 end.

Definition d0 (s : sys) : nat :=
  match s_p s with
  | PNotify _ => 1
  | PTimer _ => 3
  | PIdle _ => 4
  | PSelect _ => 5
  | PStart => 6
  | PW _ WWritten => 7
  | PW _ (WWriting _) => 8
  | PW _ WGetState => 9
  | PW _ WAcquire => 10 + lockdist s
  | PW _ (WSleep _) => 12 + lockdist s
  | PSyncRet _ _ => 11 + lockdist s
  | PSyncing _ _ => 12 + lockdist s
  | PSyncSleep _ _ _ => 14 + lockdist s
  | PExit => 0
  end.

Definition wd (t : tid) (s : sys) : nat := match wpc_of t s with Some w => w_dist w | None => 0 end.

Definition rank (ph : phase) (s : sys) : nat :=
  match ph with
  | Ph0 => 18 + d0 s
  | Ph1 => 13 + d1 s
  | Ph2 => 3 + d2 s
  | Ph3 t => wd t s
  | PhDone => 0
  end.

Lemma lockdist_le s : lockdist s <= 3.
Proof. unfold lockdist. destruct (s_r s) as [| |[]]; lia. Qed.

Lemma rank_le ph s : rank ph s <= 35.
Proof.
  pose proof (lockdist_le s). destruct ph as [| | |t|]; unfold rank, d0, d1, d2, wd, wpc_of.
  - destruct (s_p s) as [| | | | | | | |? []|]; lia.
  - destruct (s_p s) as [| | | | | | | |? []|]; lia.
  - destruct (s_p s) as [| | | | | | | |? []|]; lia.
  - destruct t; [destruct (s_r s) as [| |[]]|destruct (s_p s) as [| | | | | | | |? []|]]; cbn; lia.
  - lia.
Qed.

(** ---- the scheduling policy of the extension ---- *)
Definition choose (ph : phase) (s : sys) : list event :=
  match ph with
  | Ph3 TR => [EStep TR ok0]
  | _ =>
      match s_p s with
      | PTimer dl => [ETick dl; EStep TP (mkAns true dl)]
      | PSyncSleep _ _ dl => [ETick dl; EStep TP ok0]
      | PW _ (WSleep dl) => [ETick dl; EStep TP ok0]
      | PW _ WAcquire => match lockdist s with 0 => [EStep TP ok0] | _ => [EStep TR ok0] end
      | _ => [EStep TP ok0]
      end
  end.

Lemma choose_fair ph s : fair (choose ph s) = true.
Proof.
  unfold choose. destruct ph as [| | |[]|]; try reflexivity;
    destruct (s_p s) as [| | | | | | | |? []|]; try reflexivity; destruct (lockdist s); reflexivity.
Qed.

Lemma lockdist_holds s : r_holds s = match lockdist s with 0 => false | _ => true end.
Proof. unfold r_holds, lockdist. destruct (s_r s) as [| |[]]; reflexivity. Qed.

(** one step of the put loop: successor state, its pcs, the next phase *)
Lemma tick_step cfg s d : step cfg s (ETick d) = Some (Ok (with_now s (s_now s + d))).
Proof. reflexivity. Qed.

Lemma ph_next_tick ph s d : ph_next ph s (ETick d) = ph.
Proof. destruct ph; reflexivity. Qed.

Lemma run1 cfg s e s' : step cfg s e = Some (Ok s') -> run cfg s [e] = Some (Ok s').
Proof. intros H. cbn. rewrite H. reflexivity. Qed.

Lemma scan1 cfg ph s e s' : step cfg s e = Some (Ok s') -> scan cfg ph s [e] = ph_next ph s e.
Proof. intros H. cbn. rewrite H. reflexivity. Qed.

Lemma run_tick cfg s d e s' : step cfg (with_now s (s_now s + d)) e = Some (Ok s') ->
  run cfg s [ETick d; e] = Some (Ok s').
Proof. intros H. cbn [run]. rewrite tick_step, H. reflexivity. Qed.

Lemma scan_tick cfg ph s d e s' : step cfg (with_now s (s_now s + d)) e = Some (Ok s') ->
  scan cfg ph s [ETick d; e] = ph_next ph (with_now s (s_now s + d)) e.
Proof. intros H. cbn [scan]. rewrite tick_step, ph_next_tick, H. reflexivity. Qed.

Lemma inv1_tick s d : inv1 s -> inv1 (with_now s (s_now s + d)).
Proof. intros I. exact I. Qed.

(** the successor-pc table as a predicate *)
Definition p_succ (a : ans) (pc : ppc) (pc' : ppc) : Prop :=
  match pc with
  | PStart => exists ch, pc' = PSelect ch
  | PSelect ch => (exists dl, pc' = PTimer dl) \/ pc' = PIdle ch
  | PIdle _ => pc' = PNotify false \/ exists dl, pc' = PTimer dl
  | PTimer _ => pc' = PNotify false \/ pc' = PNotify true
  | PNotify k => pc' = PSyncing k false
  | PSyncing k f => (a_ok a = true /\ pc' = PSyncRet k f) \/ (a_ok a = false /\ exists dl, pc' = PSyncSleep k f dl)
  | PSyncSleep k f _ => pc' = PSyncing k f
  | PSyncRet k f => pc' = (if negb k && negb f then PSyncing false true else PW k WAcquire)
  | PW k w =>
      match w with
      | WAcquire => pc' = PW k WGetState
      | WGetState => exists st, pc' = PW k (WWriting st)
      | WWriting _ => (a_ok a = true /\ pc' = PW k WWritten) \/ (a_ok a = false /\ exists dl, pc' = PW k (WSleep dl))
      | WWritten => pc' = (if k then PStart else PExit)
      | WSleep _ => pc' = PW k WAcquire
      end
  | PExit => False
  end.

Lemma pstep_succ cfg a s s' : pstep cfg a s = Some (Ok s') -> p_succ a (s_p s) (s_p s').
Proof. intros H. pose proof (pstep_pc _ _ _ _ H) as T. unfold p_succ. destruct (s_p s) as [| | | | | | | |? []|]; exact T. Qed.

Definition tp_cond (s : sys) (a : ans) : Prop :=
  match s_p s with
  | PIdle ch => is_closed (heap (s_pbl s)) ch = true
  | PTimer dl => a_ok a = true /\ (dl <= a_time a)%N /\ (a_time a <= s_now s)%N
  | PSyncSleep _ _ dl => (dl <= s_now s)%N
  | PW _ WAcquire => s_store s = None
  | PW _ (WSleep dl) => (dl <= s_now s)%N
  | PExit => False
  | _ => True
  end.

Lemma tp_go cfg ph s a : inv1 s -> tp_cond s a ->
  exists s', run cfg s [EStep TP a] = Some (Ok s') /\ scan cfg ph s [EStep TP a] = ph_next ph s (EStep TP a)
    /\ s_r s' = s_r s /\ p_succ a (s_p s) (s_p s').
Proof.
  intros II Hc. destruct (tp_enabled cfg s a II Hc) as [s' Hs]. exists s'.
  split; [apply run1; exact Hs|]. split; [eapply scan1; exact Hs|]. cbn [step] in Hs.
  split; [eapply pstep_frame; eauto|eapply pstep_succ; eauto].
Qed.

Lemma ph_next_now ph s n e : ph_next ph (with_now s n) e = ph_next ph s e.
Proof. destruct ph; reflexivity. Qed.

Lemma tp_go_tick cfg ph s a d : inv1 s -> tp_cond (with_now s (s_now s + d)) a ->
  exists s', run cfg s [ETick d; EStep TP a] = Some (Ok s')
    /\ scan cfg ph s [ETick d; EStep TP a] = ph_next ph s (EStep TP a)
    /\ s_r s' = s_r s /\ p_succ a (s_p s) (s_p s').
Proof.
  intros II Hc. destruct (tp_enabled cfg (with_now s (s_now s + d)) a II Hc) as [s' Hs]. exists s'.
  split; [apply run_tick; exact Hs|]. split; [rewrite (scan_tick _ _ _ _ _ _ Hs); apply ph_next_now|].
  cbn [step] in Hs.
  pose proof (pstep_frame cfg a (with_now s (s_now s + d)) s' II Hs) as E.
  pose proof (pstep_succ _ _ _ _ Hs) as T. split; [exact E|exact T].
Qed.

Definition r_succ (a : ans) (pc pc' : rpc) : Prop :=
  match pc with
  | RStart => exists ch, pc' = RWait ch
  | RWait _ => pc' = RW WAcquire
  | RW w =>
      match w with
      | WAcquire => pc' = RW WGetState
      | WGetState => exists st, pc' = RW (WWriting st)
      | WWriting _ => (a_ok a = true /\ pc' = RW WWritten) \/ (a_ok a = false /\ exists dl, pc' = RW (WSleep dl))
      | WWritten => pc' = RStart
      | WSleep _ => pc' = RW WAcquire
      end
  end.

Lemma tr_go cfg ph s a : inv1 s -> r_holds s = true ->
  exists s', run cfg s [EStep TR a] = Some (Ok s') /\ scan cfg ph s [EStep TR a] = ph_next ph s (EStep TR a)
    /\ s_p s' = s_p s /\ r_succ a (s_r s) (s_r s').
Proof.
  intros II Hh. destruct (tr_holder_enabled cfg s a II Hh) as [s' Hs]. exists s'.
  split; [apply run1; exact Hs|]. split; [eapply scan1; exact Hs|]. cbn [step] in Hs.
  split; [eapply rstep_frame; eauto|].
  pose proof (rstep_pc _ _ _ _ Hs) as T. unfold r_succ. destruct (s_r s) as [| |[]]; exact T.
Qed.

Ltac larith :=
  repeat match goal with
         | |- context [lockdist ?s] =>
             let Hle := fresh "Hle" in let l := fresh "l" in
             pose proof (lockdist_le s) as Hle; revert Hle; generalize (lockdist s); intros l Hle
         end; cbn; lia.

(** ---- progress: one chunk of the policy lowers the rank by its length ---- *)
Definition progresses (cfg : config) (ph : phase) (s : sys) : Prop :=
  exists s', run cfg s (choose ph s) = Some (Ok s')
    /\ length (choose ph s) + rank (scan cfg ph s (choose ph s)) s' <= rank ph s.

Lemma progress_ph3 cfg t s : ainv s -> pinv (Ph3 t) s -> progresses cfg (Ph3 t) s.
Proof.
  intros A [Hin _]. pose proof A as [[II _] _]. unfold progresses, choose. destruct t.
  - pose proof (in_write_holds_r _ Hin) as Hh. unfold in_write, wpc_of in Hin.
    destruct (tr_go cfg (Ph3 TR) s ok0 II Hh) as [s' [Hr [Hsc [_ T]]]].
    exists s'. split; [exact Hr|]. rewrite Hsc. unfold ph_next. rewrite act_tr.
    unfold is_wfail, rank, wd, wpc_of, r_succ in *. cbn [tid_eqb ok0 a_ok negb andb].
    destruct (s_r s) as [| |[]] eqn:Er; try discriminate; cbn [wact is_written].
    + destruct T as [[_ T]|[Hok _]]; [|discriminate]. cbn. rewrite T. cbn. lia.
    + cbn. lia.
  - unfold in_write, wpc_of in Hin.
    assert (exists k w, s_p s = PW k w /\ (w = WWritten \/ exists st, w = WWriting st)) as [k [w [Ep Hw]]].
    { destruct (s_p s) as [| | | | | | | |k []|]; try discriminate; eauto 6. }
    rewrite Ep. assert (match w with WAcquire | WSleep _ => False | _ => True end) as Hw'.
    { destruct Hw as [->|[st ->]]; exact I. }
    destruct (tp_go cfg (Ph3 TP) s ok0 II) as [s' [Hr [Hsc [_ T]]]].
    { unfold tp_cond. rewrite Ep. destruct w; try exact I; destruct Hw'. }
    assert ([EStep TP ok0] = match w with WAcquire => match lockdist s with 0 => [EStep TP ok0] | _ => [EStep TR ok0] end
                             | WSleep dl => [ETick dl; EStep TP ok0] | _ => [EStep TP ok0] end) as <-.
    { destruct w; try reflexivity; destruct Hw'. }
    exists s'. split; [exact Hr|]. rewrite Hsc. unfold ph_next. rewrite act_tp, Ep.
    unfold is_wfail, rank, wd, wpc_of. cbn [tid_eqb ok0 a_ok negb andb]. rewrite Ep in *. unfold p_succ in T.
    destruct Hw as [->|[st ->]]; cbn [wact is_written].
    + cbn. lia.
    + destruct T as [[_ T]|[Hok _]]; [|discriminate]. cbn. rewrite T. cbn. lia.
Qed.

Lemma progress_ph1 cfg s : ainv s -> pinv Ph1 s -> progresses cfg Ph1 s.
Proof.
  intros A P. pose proof A as [[II _] _]. cbn [pinv] in P. unfold p_syncing in P. unfold progresses, choose.
  destruct (s_p s) as [| | | | |k f|k f|k f dl|? ?|] eqn:Ep; try discriminate.
  - destruct (tp_go cfg Ph1 s ok0 II) as [s' [Hr [Hsc [Er T]]]]; [unfold tp_cond; rewrite Ep; exact I|].
    exists s'. split; [exact Hr|]. rewrite Hsc. unfold ph_next, sync_completes. rewrite act_tp, Ep.
    rewrite Ep in T. destruct T as [[_ T]|[Hok _]]; [|discriminate]. unfold rank, d1. rewrite T, Ep. cbn. lia.
  - destruct (tp_go cfg Ph1 s ok0 II) as [s' [Hr [Hsc [Er T]]]]; [unfold tp_cond; rewrite Ep; exact I|].
    exists s'. split; [exact Hr|]. rewrite Hsc. unfold ph_next, sync_completes. rewrite act_tp, Ep.
    rewrite Ep in T. cbn in T. unfold rank, d1, d2. rewrite T, Ep.
    assert (lockdist s' = lockdist s) as -> by (unfold lockdist; rewrite Er; reflexivity).
    destruct (negb k && negb f); larith.
  - destruct (tp_go_tick cfg Ph1 s ok0 dl II) as [s' [Hr [Hsc [Er T]]]].
    { unfold tp_cond. cbn. rewrite Ep. lia. }
    exists s'. split; [exact Hr|]. rewrite Hsc. unfold ph_next, sync_completes. rewrite act_tp, Ep.
    rewrite Ep in T. cbn in T. unfold rank, d1. rewrite T, Ep. cbn. lia.
Qed.

(** the put loop waits for storeLock: it is free, or the release loop holds it
    and advances *)
Lemma lock_cases s k : ainv s -> s_p s = PW k WAcquire ->
  (lockdist s = 0 /\ s_store s = None) \/ (0 < lockdist s /\ r_holds s = true).
Proof.
  intros [_ [_ [I3a _]]] Ep. pose proof (lockdist_holds s) as Hh.
  destruct (lockdist s) as [|n]; [left|right; split; [lia|exact Hh]].
  split; [reflexivity|]. rewrite Hh in I3a. unfold p_holds in I3a. rewrite Ep in I3a. exact I3a.
Qed.

Lemma lockdist_r_succ s s' : r_holds s = true -> r_succ ok0 (s_r s) (s_r s') -> S (lockdist s') = lockdist s.
Proof.
  unfold r_holds, r_succ, lockdist. destruct (s_r s) as [| |[]]; try discriminate; intros _ T.
  - destruct T as [st ->]. reflexivity.
  - destruct T as [[_ ->]|[Hok _]]; [reflexivity|discriminate].
  - rewrite T. reflexivity.
Qed.

Lemma progress_ph2 cfg s : ainv s -> pinv Ph2 s -> progresses cfg Ph2 s.
Proof.
  intros A P. pose proof A as [[II _] _]. cbn [pinv] in P. unfold p2ok in P. unfold progresses, choose.
  destruct (s_p s) as [| | | | |k f|k f|k f dl|k w|] eqn:Ep; try discriminate.
  - (* PSyncing *)
    destruct (tp_go cfg Ph2 s ok0 II) as [s' [Hr [Hsc [Er T]]]]; [unfold tp_cond; rewrite Ep; exact I|].
    exists s'. split; [exact Hr|]. rewrite Hsc. unfold ph_next. rewrite act_tp, Ep. cbn [getstate_tid].
    rewrite Ep in T. destruct T as [[_ T]|[Hok _]]; [|discriminate]. unfold rank, d2. rewrite T, Ep.
    assert (lockdist s' = lockdist s) as -> by (unfold lockdist; rewrite Er; reflexivity). larith.
  - (* PSyncRet *)
    destruct k, f; try discriminate.
    destruct (tp_go cfg Ph2 s ok0 II) as [s' [Hr [Hsc [Er T]]]]; [unfold tp_cond; rewrite Ep; exact I|].
    exists s'. split; [exact Hr|]. rewrite Hsc. unfold ph_next. rewrite act_tp, Ep. cbn [getstate_tid].
    rewrite Ep in T. cbn in T. unfold rank, d2. rewrite T, Ep.
    assert (lockdist s' = lockdist s) as -> by (unfold lockdist; rewrite Er; reflexivity). larith.
  - (* PSyncSleep *)
    destruct (tp_go_tick cfg Ph2 s ok0 dl II) as [s' [Hr [Hsc [Er T]]]].
    { unfold tp_cond. cbn. rewrite Ep. lia. }
    exists s'. split; [exact Hr|]. rewrite Hsc. unfold ph_next. rewrite act_tp, Ep. cbn [getstate_tid].
    rewrite Ep in T. cbn in T. unfold rank, d2. rewrite T, Ep.
    assert (lockdist s' = lockdist s) as -> by (unfold lockdist; rewrite Er; reflexivity). larith.
  - destruct w; try discriminate.
    + (* WAcquire *)
      destruct (lock_cases s k A Ep) as [[Hl Hst]|[Hl Hh]].
      * rewrite Hl.
        destruct (tp_go cfg Ph2 s ok0 II) as [s' [Hr [Hsc [Er T]]]]; [unfold tp_cond; rewrite Ep; exact Hst|].
        exists s'. split; [exact Hr|]. rewrite Hsc. unfold ph_next. rewrite act_tp, Ep. cbn [wact getstate_tid].
        rewrite Ep in T. cbn in T. unfold rank, d2. rewrite T, Ep. cbn. lia.
      * destruct (lockdist s) as [|n] eqn:El; [lia|].
        destruct (tr_go cfg Ph2 s ok0 II Hh) as [s' [Hr [Hsc [Ep' T]]]].
        exists s'. split; [exact Hr|]. rewrite Hsc. pose proof (lockdist_r_succ _ _ Hh T) as Hld.
        unfold ph_next. rewrite act_tr. unfold r_holds, r_succ in *.
        destruct (s_r s) as [| |[]] eqn:Er; try discriminate; cbn [wact getstate_tid].
        -- destruct T as [st T]. unfold rank, wd, wpc_of, d2. rewrite T, Ep. cbn. lia.
        -- unfold rank, d2. rewrite Ep', Ep. cbn [length]. lia.
        -- unfold rank, d2. rewrite Ep', Ep. cbn [length]. lia.
    + (* WGetState *)
      destruct (tp_go cfg Ph2 s ok0 II) as [s' [Hr [Hsc [Er T]]]]; [unfold tp_cond; rewrite Ep; exact I|].
      exists s'. split; [exact Hr|]. rewrite Hsc. unfold ph_next. rewrite act_tp, Ep. cbn [wact getstate_tid].
      rewrite Ep in T. cbn in T. destruct T as [st T]. unfold rank, wd, wpc_of, d2. rewrite T, Ep. cbn. lia.
    + (* WSleep *)
      destruct (tp_go_tick cfg Ph2 s ok0 deadline II) as [s' [Hr [Hsc [Er T]]]].
      { unfold tp_cond. cbn. rewrite Ep. lia. }
      exists s'. split; [exact Hr|]. rewrite Hsc. unfold ph_next. rewrite act_tp, Ep. cbn [wact getstate_tid].
      rewrite Ep in T. cbn in T. unfold rank, d2. rewrite T, Ep.
      assert (lockdist s' = lockdist s) as -> by (unfold lockdist; rewrite Er; reflexivity). larith.
Qed.

Lemma progress_ph0 cfg s : ainv s -> cinv s -> pinv Ph0 s ->
  synchronizedEpochs (s_pbl s) < length (epochSeeds (s_pbl s)) -> progresses cfg Ph0 s.
Proof.
  intros A C P Hpend. pose proof A as [[II _] [[_ Hheld] _]]. cbn [pinv] in P.
  assert (p_final s = false) as Hnf.
  { destruct (p_final s) eqn:E; [|reflexivity]. rewrite (C E) in P. discriminate. }
  unfold p_final in Hnf. unfold progresses, choose.
  assert (forall s' : sys, s_r s' = s_r s -> lockdist s' = lockdist s) as Hld.
  { intros s' Er. unfold lockdist. rewrite Er. reflexivity. }
  destruct (s_p s) as [|ch|ch|dl|k|k f|k f|k f dl|k w|] eqn:Ep.
  - (* PStart *)
    destruct (tp_go cfg Ph0 s ok0 II) as [s' [Hr [Hsc [Er T]]]]; [unfold tp_cond; rewrite Ep; exact I|].
    exists s'. split; [exact Hr|]. rewrite Hsc. unfold ph_next, sync_starts. rewrite act_tp, Ep.
    rewrite Ep in T. destruct T as [ch T]. unfold rank, d0. rewrite T, Ep. cbn. lia.
  - (* PSelect *)
    destruct (tp_go cfg Ph0 s ok0 II) as [s' [Hr [Hsc [Er T]]]]; [unfold tp_cond; rewrite Ep; exact I|].
    exists s'. split; [exact Hr|]. rewrite Hsc. unfold ph_next, sync_starts. rewrite act_tp, Ep.
    rewrite Ep in T. unfold rank, d0. destruct T as [[dl T]|T]; rewrite T, Ep; cbn; lia.
  - (* PIdle *)
    assert (is_closed (heap (s_pbl s)) ch = true) as Hc.
    { destruct (Hheld ch (or_intror Ep)) as [->|Hc]; [|exact Hc].
      apply (inv_wakeup_put _ (proj1 II) Hpend). }
    destruct (tp_go cfg Ph0 s ok0 II) as [s' [Hr [Hsc [Er T]]]]; [unfold tp_cond; rewrite Ep; exact Hc|].
    exists s'. split; [exact Hr|]. rewrite Hsc. unfold ph_next, sync_starts. rewrite act_tp, Ep.
    rewrite Ep in T. unfold rank, d0. destruct T as [T|[dl T]]; rewrite T, Ep; cbn; lia.
  - (* PTimer *)
    destruct (tp_go_tick cfg Ph0 s (mkAns true dl) dl II) as [s' [Hr [Hsc [Er T]]]].
    { unfold tp_cond. cbn. rewrite Ep. cbn. split; [reflexivity|lia]. }
    exists s'. split; [exact Hr|]. rewrite Hsc. unfold ph_next, sync_starts. rewrite act_tp, Ep.
    rewrite Ep in T. unfold rank, d0. destruct T as [T|T]; rewrite T, Ep; cbn; lia.
  - (* PNotify *)
    destruct (tp_go cfg Ph0 s ok0 II) as [s' [Hr [Hsc [Er T]]]]; [unfold tp_cond; rewrite Ep; exact I|].
    exists s'. split; [exact Hr|]. rewrite Hsc. unfold ph_next, sync_starts. rewrite act_tp, Ep.
    rewrite Ep in T. cbn in T. unfold rank, d0, d1. rewrite T, Ep. cbn. lia.
  - (* PSyncing *)
    destruct (tp_go cfg Ph0 s ok0 II) as [s' [Hr [Hsc [Er T]]]]; [unfold tp_cond; rewrite Ep; exact I|].
    exists s'. split; [exact Hr|]. rewrite Hsc. unfold ph_next, sync_starts. rewrite act_tp, Ep.
    rewrite Ep in T. destruct T as [[_ T]|[Hok _]]; [|discriminate]. unfold rank, d0. rewrite T, Ep, (Hld _ Er). larith.
  - (* PSyncRet *)
    destruct (tp_go cfg Ph0 s ok0 II) as [s' [Hr [Hsc [Er T]]]]; [unfold tp_cond; rewrite Ep; exact I|].
    exists s'. split; [exact Hr|]. rewrite Hsc. unfold ph_next, sync_starts. rewrite act_tp, Ep.
    rewrite Ep in T. cbn in T. unfold rank, d0, d1. rewrite T, Ep, ?(Hld _ Er).
    destruct (negb k && negb f); rewrite ?(Hld _ Er); larith.
  - (* PSyncSleep *)
    destruct (tp_go_tick cfg Ph0 s ok0 dl II) as [s' [Hr [Hsc [Er T]]]].
    { unfold tp_cond. cbn. rewrite Ep. lia. }
    exists s'. split; [exact Hr|]. rewrite Hsc. unfold ph_next, sync_starts. rewrite act_tp, Ep.
    rewrite Ep in T. cbn in T. unfold rank, d0. rewrite T, Ep, (Hld _ Er). larith.
  - destruct w.
    + (* WAcquire *)
      destruct (lock_cases s k A Ep) as [[Hl Hst]|[Hl Hh]].
      * rewrite Hl.
        destruct (tp_go cfg Ph0 s ok0 II) as [s' [Hr [Hsc [Er T]]]]; [unfold tp_cond; rewrite Ep; exact Hst|].
        exists s'. split; [exact Hr|]. rewrite Hsc. unfold ph_next, sync_starts. rewrite act_tp, Ep. cbn [wact].
        rewrite Ep in T. cbn in T. unfold rank, d0. rewrite T, Ep. cbn. lia.
      * destruct (lockdist s) as [|n] eqn:El; [lia|].
        destruct (tr_go cfg Ph0 s ok0 II Hh) as [s' [Hr [Hsc [Ep' T]]]].
        exists s'. split; [exact Hr|]. rewrite Hsc. pose proof (lockdist_r_succ _ _ Hh T) as Hld'.
        assert (sync_starts s (EStep TR ok0) = false) as Hss.
        { unfold sync_starts. rewrite act_tr. destruct (s_r s) as [| |[]]; reflexivity. }
        unfold ph_next. rewrite Hss. unfold rank, d0. rewrite Ep', Ep, El. cbn [length]. lia.
    + (* WGetState *)
      destruct (tp_go cfg Ph0 s ok0 II) as [s' [Hr [Hsc [Er T]]]]; [unfold tp_cond; rewrite Ep; exact I|].
      exists s'. split; [exact Hr|]. rewrite Hsc. unfold ph_next, sync_starts. rewrite act_tp, Ep. cbn [wact].
      rewrite Ep in T. cbn in T. destruct T as [st T]. unfold rank, d0. rewrite T, Ep. cbn. lia.
    + (* WWriting *)
      destruct (tp_go cfg Ph0 s ok0 II) as [s' [Hr [Hsc [Er T]]]]; [unfold tp_cond; rewrite Ep; exact I|].
      exists s'. split; [exact Hr|]. rewrite Hsc. unfold ph_next, sync_starts. rewrite act_tp, Ep. cbn [wact].
      rewrite Ep in T. cbn in T. destruct T as [[_ T]|[Hok _]]; [|discriminate].
      unfold rank, d0. rewrite T, Ep. cbn. lia.
    + (* WWritten *)
      destruct (tp_go cfg Ph0 s ok0 II) as [s' [Hr [Hsc [Er T]]]]; [unfold tp_cond; rewrite Ep; exact I|].
      exists s'. split; [exact Hr|]. rewrite Hsc. unfold ph_next, sync_starts. rewrite act_tp, Ep. cbn [wact].
      rewrite Ep in T. cbn in T. unfold rank, d0. rewrite T, Ep. destruct k; cbn; lia.
    + (* WSleep *)
      destruct (tp_go_tick cfg Ph0 s ok0 deadline II) as [s' [Hr [Hsc [Er T]]]].
      { unfold tp_cond. cbn. rewrite Ep. lia. }
      exists s'. split; [exact Hr|]. rewrite Hsc. unfold ph_next, sync_starts. rewrite act_tp, Ep. cbn [wact].
      rewrite Ep in T. cbn in T. unfold rank, d0. rewrite T, Ep, (Hld _ Er). larith.
  - discriminate.
Qed.

(** ---- the tracked upload along the phases ---- *)
Definition lvl (ph : phase) : nat := match ph with Ph0 => 0 | Ph1 => 1 | _ => 2 end.

Lemma lvl_next ph s e : lvl (ph_next ph s e) <= lv_next (lvl ph) (act_of s e).
Proof.
  destruct ph as [| | |t|]; cbn [ph_next lvl].
  - unfold sync_starts. destruct (act_of s e) as [| | | | |[]| |]; cbn; lia.
  - unfold sync_completes. destruct (act_of s e) as [| | | | |[]| |]; cbn; lia.
  - transitivity 2; [destruct (getstate_tid _); cbn; lia|apply (lv_next_ge 2); lia].
  - transitivity 2; [destruct (is_written _); [|destruct (is_wfail _ _ _)]; cbn; lia|apply (lv_next_ge 2); lia].
  - apply (lv_next_ge 2). lia.
Qed.

(** before the covering sync starts the object's epoch is not yet synchronizing *)
Definition unsynced (o : obj) (d : nat) (p : pbl) : Prop :=
  o_block o < totalReleased p \/ synchronizingEpochs p <= o_epoch o - d.

Lemma unsynced_act o d a p p' : apply_act a p = Ok p' ->
  match a with ASyncStart | ASyncDone true => False | _ => True end ->
  unsynced o d p -> unsynced o (d + popc a p) p'.
Proof.
  intros Ha Hns U. unfold unsynced in *.
  assert (totalReleased p' = totalReleased p -> synchronizingEpochs p' = synchronizingEpochs p -> popc a p = 0 ->
          o_block o < totalReleased p' \/ synchronizingEpochs p' <= o_epoch o - (d + popc a p)) as Hsame.
  { intros -> -> ->. rewrite Nat.add_0_r. exact U. }
  destruct a as [|al| |tok blk size seed| |[]|t|t]; cbn [apply_act popc] in *; try destruct Hns.
  - inversion Ha; subst. apply Hsame; reflexivity.
  - inversion Ha; subst. apply Hsame; try reflexivity; unfold push_back;
      destruct (closedForWriting p); try reflexivity; destruct al; reflexivity.
  - destruct (blocks p) as [|fb rest] eqn:Eb; [unfold pop_front in Ha; rewrite Eb in Ha; discriminate|].
    destruct (pop_fields _ _ _ _ Eb Ha) as (_ & _ & _ & Ft & Fsy & _). rewrite Ft, Fsy.
    destruct U as [U|U]; [left|right]; lia.
  - destruct (put_finalize _ _ _ _ _) as [[p1 fr]|] eqn:Ef; [|discriminate]. cbn in Ha. inversion Ha; subst.
    destruct (fin_cases _ _ _ _ _ _ _ Ef) as [[-> _]|
      (abs & off & bumped & _ & _ & _ & _ & _ & _ & _ & _ & _ & _ & Ft & Fsy & _)]; apply Hsame; auto.
  - inversion Ha; subst. destruct (nsc_fields p) as (_ & _ & _ & Ft & Fsy & _). apply Hsame; auto.
  - destruct (get_persistent_state p) as [[p1 st]|] eqn:Eg; [|discriminate]. cbn in Ha. inversion Ha; subst.
    destruct (gps_fields _ _ _ Eg) as [Hc _]. inversion Hc. apply Hsame; auto.
  - destruct (nsw_fields _ _ Ha) as [Hc _]. inversion Hc. apply Hsame; auto.
Qed.

(** completed state writes: only a successful WritePersistentState adds one *)
Lemma writes_step cfg s e s' : step cfg s e = Some (Ok s') ->
  s_writes s' =
  match e with
  | EStep t a =>
      match wpc_of t s with
      | Some (WWriting st) =>
          if a_ok a then mkWrec t st (length (releasedLog (s_pbl s)) + releasing (s_pbl s)) :: s_writes s
          else s_writes s
      | _ => s_writes s
      end
  | _ => s_writes s
  end.
Proof.
  assert (forall me w a s1 w', wstep cfg me w a s = Some (Ok (s1, w')) ->
            s_writes s1 = match w with
                          | WWriting st => if a_ok a then mkWrec me st (length (releasedLog (s_pbl s)) + releasing (s_pbl s)) :: s_writes s
                                           else s_writes s
                          | _ => s_writes s end) as Hw.
  { intros me w a s1 w'. unfold wstep. destruct w.
    - destruct (s_store s); [discriminate|]. intros H; inversion H; subst. reflexivity.
    - destruct (get_persistent_state _) as [[p' st]|]; [|discriminate]. intros H; inversion H; subst. reflexivity.
    - destruct (a_ok a); intros H; inversion H; subst; reflexivity.
    - destruct (notify_state_written _); [|discriminate]. intros H; inversion H; subst. reflexivity.
    - destruct (_ <=? _)%N; [|discriminate]. intros H; inversion H; subst. reflexivity. }
  destruct e as [alloc| |index size|k blk seed|d| |t a]; cbn [step].
  - intros H; inversion H; subst. reflexivity.
  - destruct (blocks (s_pbl s)); [discriminate|]. destruct (pop_front _); [|discriminate].
    intros H; inversion H; subst. reflexivity.
  - destruct (_ || _); [|discriminate]. destruct (put_start _ _); [|discriminate].
    intros H; inversion H; subst. reflexivity.
  - destruct (nth_error _ _) as [[[tok sz]|]|]; try discriminate.
    destruct (put_finalize _ _ _ _ _) as [[p' fr]|]; [|discriminate]. intros H; inversion H; subst. reflexivity.
  - intros H; inversion H; subst. reflexivity.
  - intros H; inversion H; subst. reflexivity.
  - destruct t; unfold wpc_of.
    + unfold rstep. destruct (s_r s) as [|ch|w].
      * intros H; inversion H; subst. reflexivity.
      * destruct (is_closed _ _); [|discriminate]. intros H; inversion H; subst. reflexivity.
      * destruct (wstep cfg TR w a s) as [[[s1 w']|]|] eqn:Ew; try discriminate.
        pose proof (Hw _ _ _ _ _ Ew) as E. destruct w'; intros H; inversion H; subst; exact E.
    + unfold pstep. destruct (s_p s) as [|ch|ch|dl|keep|keep final|keep final|keep final dl|keep w|].
      * intros H; inversion H; subst. reflexivity.
      * destruct (is_closed _ _); intros H; inversion H; subst; reflexivity.
      * destruct (s_cancel s && _); [|destruct (is_closed _ _); [|discriminate]];
          intros H; inversion H; subst; reflexivity.
      * destruct (s_cancel s && _); [|destruct (_ && _)%bool; [|discriminate]];
          intros H; inversion H; subst; reflexivity.
      * intros H; inversion H; subst. reflexivity.
      * destruct (a_ok a); intros H; inversion H; subst; reflexivity.
      * destruct (negb keep && negb final); intros H; inversion H; subst; reflexivity.
      * destruct (_ <=? _)%N; [|discriminate]. intros H; inversion H; subst. reflexivity.
      * destruct (wstep cfg TP w a s) as [[[s1 w']|]|] eqn:Ew; try discriminate.
        pose proof (Hw _ _ _ _ _ Ew) as E. destruct w'; intros H; inversion H; subst; exact E.
      * discriminate.
Qed.

Lemma writes_incl cfg s e s' w : step cfg s e = Some (Ok s') -> In w (s_writes s) -> In w (s_writes s').
Proof.
  intros H Hi. rewrite (writes_step _ _ _ _ H). destruct e as [| | | | | |t a]; auto.
  destruct (wpc_of t s) as [[]|]; auto. destruct (a_ok a); [right|]; exact Hi.
Qed.

Lemma step_released_mono cfg s e s' : step cfg s e = Some (Ok s') ->
  totalReleased (s_pbl s) <= totalReleased (s_pbl s').
Proof.
  intros H. pose proof (act_rel _ _ _ (step_act _ _ _ _ H)) as R. unfold rel_same in R.
  destruct (act_of s e); try (destruct R as (_ & _ & _ & ->); lia).
  destruct R as (fb & rest & _ & _ & _ & _ & ->). lia.
Qed.

(** the state of the covering write, once it has started *)
Definition cov (o : obj) (ph : phase) (s : sys) : Prop :=
  match ph with
  | Ph3 t => o_block o < totalReleased (s_pbl s)
             \/ (exists st bi ei, wpc_of t s = Some (WWriting st) /\ covers st bi o ei)
             \/ (wpc_of t s = Some WWritten /\
                 exists w bi ei, hd_error (s_writes s) = Some w /\ covers (w_state w) bi o ei)
  | PhDone => o_block o < totalReleased (s_pbl s)
              \/ exists w bi ei, In w (s_writes s) /\ covers (w_state w) bi o ei
  | _ => True
  end.

Definition uinv (o : obj) (ph : phase) (d : nat) (s : sys) : Prop :=
  ainv s /\ cinv s /\ pinv ph s /\ tracked o (lvl ph) d (s_pbl s)
  /\ (ph = Ph0 -> unsynced o d (s_pbl s)) /\ cov o ph s.

Lemma wpc_of_frame cfg s e s' t : inv1 s -> step cfg s e = Some (Ok s') -> (forall a, e <> EStep t a) ->
  wpc_of t s' = wpc_of t s.
Proof.
  intros II H Hne. unfold wpc_of. destruct t.
  - rewrite (r_frame _ _ _ _ II H Hne). reflexivity.
  - rewrite (p_frame _ _ _ _ II H Hne). reflexivity.
Qed.

Lemma t_or_not t e : (exists a, e = EStep t a) \/ (forall a, e <> EStep t a).
Proof. destruct t; [apply tr_or_not|apply tp_or_not]. Qed.

Lemma step_cov cfg o ph d s e s' : uinv o ph d s -> step cfg s e = Some (Ok s') -> cov o (ph_next ph s e) s'.
Proof.
  intros (A & C & P & T & U & V) H. pose proof A as [[II L] [_ I3]].
  pose proof (step_released_mono _ _ _ _ H) as Hmono.
  destruct ph as [| | |t|]; cbn [ph_next].
  - destruct (sync_starts s e); exact I.
  - destruct (sync_completes s e); exact I.
  - destruct (getstate_tid (act_of s e)) as [t|] eqn:Eg; [|exact I].
    destruct (act_of s e) eqn:Ea; try discriminate. inversion Eg; subst t0.
    destruct (getstate_step _ _ _ _ _ H Ea) as [p1 [st [Hgs [Hw _]]]].
    cbn [cov]. cbn [lvl] in T.
    destruct (gps_covers _ _ _ _ _ (proj1 II) L T Hgs) as [Hr|Hc]; [left; lia|right; left].
    exists st, (o_block o - totalReleased (s_pbl s)), (o_epoch o - d). split; [|exact Hc].
    unfold written_state in Hw. unfold wpc_of. destruct t.
    + destruct (s_r s') as [| |[]]; try discriminate. congruence.
    + destruct (s_p s') as [| | | | | | | |? []|]; try discriminate. congruence.
  - cbn [pinv] in P. destruct P as [Hin Hp2]. cbn [cov] in V.
    destruct (is_written (act_of s e)) eqn:Ew.
    + (* the write completes *)
      cbn [cov]. destruct (act_of s e) eqn:Ea; try discriminate.
      pose proof (act_written_in_write _ _ _ Ea) as Hin'.
      assert (t0 = t) as ->.
      { destruct (other_cases t t0) as [->| ->]; [reflexivity|].
        rewrite (in_write_excl _ _ I3 Hin) in Hin'. discriminate. }
      destruct (act_wact s e t _ (or_intror eq_refl) Ea) as [a [-> Hwp]].
      destruct V as [V|[(st & bi & ei & Hwr & _)|(_ & w & bi & ei & Hhd & Hc)]]; [left; lia|congruence|right].
      exists w, bi, ei. split; [|exact Hc]. eapply writes_incl; eauto.
      destruct (s_writes s); [discriminate|]. inversion Hhd; subst. left. reflexivity.
    + destruct (is_wfail t s e) eqn:Ewf; [exact I|]. cbn [cov].
      destruct V as [V|V]; [left; lia|right].
      destruct (t_or_not t e) as [[a ->]|Hne].
      * (* own step of the writer: WWriting st -> WWritten, the write is logged *)
        unfold in_write in Hin. unfold is_wfail in Ewf.
        destruct (wpc_of t s) as [[| |st| |]|] eqn:Ewp; try discriminate.
        -- right. assert (a_ok a = true) as Hok.
           { destruct (a_ok a); [reflexivity|]. destruct t; discriminate. }
           pose proof (writes_step _ _ _ _ H) as Hws. cbn in Hws. rewrite Ewp, Hok in Hws.
           destruct V as [(st' & bi & ei & Hwr & Hc)|(Hwr & _)]; [|discriminate].
           inversion Hwr; subst st'. split.
           ++ cbn [step] in H. unfold wpc_of in *. destruct t.
              ** pose proof (rstep_pc _ _ _ _ H) as Tt. destruct (s_r s) as [| |w]; try discriminate.
                 inversion Ewp; subst w. destruct Tt as [[_ ->]|[Hf _]]; [reflexivity|congruence].
              ** pose proof (pstep_pc _ _ _ _ H) as Tt. destruct (s_p s) as [| | | | | | | |k w|]; try discriminate.
                 inversion Ewp; subst w. destruct Tt as [[_ ->]|[Hf _]]; [reflexivity|congruence].
           ++ eexists _, bi, ei. rewrite Hws. split; [reflexivity|exact Hc].
        -- exfalso. assert (act_of s (EStep t a) = AWritten t) as Ea.
           { unfold wpc_of in Ewp. destruct t.
             - rewrite act_tr. destruct (s_r s) as [| |w]; try discriminate. inversion Ewp; subst. reflexivity.
             - rewrite act_tp. destruct (s_p s) as [| | | | | | | |k w|]; try discriminate. inversion Ewp; subst. reflexivity. }
           rewrite Ea in Ew. discriminate.
      * rewrite (wpc_of_frame _ _ _ _ t II H Hne).
        assert (s_writes s' = s_writes s) as Hws.
        { rewrite (writes_step _ _ _ _ H). destruct e as [| | | | | |t' a]; try reflexivity.
          assert (t' = other t) as ->.
          { destruct (other_cases t t') as [->| ->]; [exfalso; eapply Hne; reflexivity|reflexivity]. }
          pose proof (in_write_excl _ _ I3 Hin) as Hx. unfold in_write in Hx.
          destruct (wpc_of (other t) s) as [[]|]; try reflexivity. discriminate. }
        rewrite Hws. exact V.
  - cbn [cov] in *. destruct V as [V|(w & bi & ei & Hi & Hc)]; [left; lia|right].
    exists w, bi, ei. split; [eapply writes_incl; eauto|exact Hc].
Qed.

Lemma step_uinv cfg o ph d s e s' : uinv o ph d s -> step cfg s e = Some (Ok s') ->
  uinv o (ph_next ph s e) (d + popc (act_of s e) (s_pbl s)) s'.
Proof.
  intros UI H. pose proof (step_cov _ _ _ _ _ _ _ UI H) as V'.
  destruct UI as (A & C & P & T & U & V). pose proof A as [[II L] _].
  split; [eapply step_ainv; eauto|]. split; [eapply step_cinv; eauto|].
  split; [eapply step_pinv; eauto|].
  split; [eapply tracked_weaken; [apply lvl_next|]; eapply tracked_act; eauto; eapply step_act; eauto|].
  split; [|exact V'].
  intros Eph. destruct ph as [| | |t|]; cbn [ph_next] in Eph.
  - unfold sync_starts in Eph. eapply unsynced_act; [eapply step_act; eauto| |apply U; reflexivity].
    destruct (act_of s e) as [| | | | |[]| |]; try discriminate; exact I.
  - destruct (sync_completes s e); discriminate.
  - destruct (getstate_tid _); discriminate.
  - destruct (is_written _); [|destruct (is_wfail _ _ _)]; discriminate.
  - discriminate.
Qed.

Lemma run_uinv cfg o tr : forall ph d s s', uinv o ph d s -> run cfg s tr = Some (Ok s') ->
  uinv o (scan cfg ph s tr) (d + popsum cfg s tr) s'.
Proof.
  induction tr as [|e tr IH]; intros ph d s s' UI H; cbn in *.
  - inversion H; subst. rewrite Nat.add_0_r. exact UI.
  - destruct (step cfg s e) as [[s1|]|] eqn:Es; try discriminate.
    rewrite Nat.add_assoc. eapply IH; [|exact H]. eapply step_uinv; eauto.
Qed.

(** ---- the drive: a fair extension of length <= rank reaches PhDone (or the
    object's block is released) ---- *)
Lemma uinv_pending o d s : uinv o Ph0 d s -> ~ o_block o < totalReleased (s_pbl s) ->
  synchronizedEpochs (s_pbl s) < length (epochSeeds (s_pbl s)).
Proof.
  intros (A & _ & _ & T & U & _) Hnr. pose proof (ainv_pbl _ A) as I.
  destruct (U eq_refl) as [U1|U1]; [contradiction|].
  destruct T as [T|(_ & _ & b & la & _ & _ & _ & Hs & _)]; [contradiction|].
  assert (o_epoch o - d < length (epochSeeds (s_pbl s))) by (apply nth_error_Some; congruence).
  pose proof (i_sync1 _ I). lia.
Qed.

Lemma drive cfg o : forall n ph d s, rank ph s <= n -> uinv o ph d s ->
  exists ext s' d', fair ext = true /\ length ext <= n /\ run cfg s ext = Some (Ok s')
    /\ uinv o (scan cfg ph s ext) d' s'
    /\ (scan cfg ph s ext = PhDone \/ o_block o < totalReleased (s_pbl s')).
Proof.
  induction n as [n IH] using lt_wf_ind. intros ph d s Hr UI.
  destruct (lt_dec (o_block o) (totalReleased (s_pbl s))) as [Hrel|Hnr].
  { exists [], s, d. splits; auto; try (cbn; lia). }
  assert (ph = PhDone \/ progresses cfg ph s) as [->|(s1 & Hrun & Hdec)].
  { pose proof UI as (A & C & P & _). destruct ph as [| | |t|]; [right|right|right|right|left; reflexivity].
    - apply progress_ph0; auto. eapply uinv_pending; eauto.
    - apply progress_ph1; auto.
    - apply progress_ph2; auto.
    - apply progress_ph3; auto. }
  { exists [], s, d. splits; auto; try (cbn; lia). }
  pose proof (run_uinv _ _ _ _ _ _ _ UI Hrun) as UI1.
  assert (0 < length (choose ph s)) as Hpos.
  { unfold choose. destruct ph as [| | |[]|]; cbn; try lia;
      destruct (s_p s) as [| | | | | | | |? []|]; cbn; try lia; destruct (lockdist s); cbn; lia. }
  assert (n - length (choose ph s) < n) as Hlt by lia.
  assert (rank (scan cfg ph s (choose ph s)) s1 <= n - length (choose ph s)) as Hrk by lia.
  destruct (IH _ Hlt _ _ _ Hrk UI1) as (ext & s' & d' & Hf & Hl & Hr' & UI' & Hg).
  exists (choose ph s ++ ext), s', d'.
  split; [apply fair_app; [apply choose_fair|exact Hf]|]. split; [rewrite app_length; lia|].
  split; [rewrite (run_app _ _ _ _ _ Hrun); exact Hr'|].
  rewrite (scan_app _ _ _ _ _ _ Hrun). split; [exact UI'|exact Hg].
Qed.

(** cinv holds in every reachable state *)
Lemma run_cinv cfg tr : forall s s', inv1 s -> cinv s -> run cfg s tr = Some (Ok s') -> cinv s'.
Proof.
  induction tr as [|e tr IH]; intros s s' II C H; cbn in H.
  - inversion H; subst. exact C.
  - destruct (step cfg s e) as [[s1|]|] eqn:Es; try discriminate.
    destruct (step_inv1 _ _ _ _ II Es) as [s2 [E [II' _]]]. inversion E; subst s2.
    eapply IH; [exact II'| |exact H]. exact (step_cinv _ _ _ _ II C Es).
Qed.

Lemma reachable_cinv cfg alloc oldest init t0 s : reachable cfg alloc oldest init t0 s -> cinv s.
Proof.
  intros [tr H]. eapply run_cinv; [apply init_inv1| |exact H]. intros Hf. discriminate.
Qed.

(** every_upload_eventually_committed *)
Theorem upload_eventually cfg alloc oldest init t0 s1 k blk seed s1' abs size off p' trp s :
  reachable cfg alloc oldest init t0 s1 ->
  step cfg s1 (EFinalize k blk seed) = Some (Ok s1') ->
  nth_error (s_uploads s1) k = Some (Some (PutAt abs, size)) ->
  put_finalize (PutAt abs) blk size seed (s_pbl s1) = Ok (p', FinOk off) ->
  run cfg s1' trp = Some (Ok s) ->
  exists ext s', fair ext = true /\ length ext <= 35 /\ run cfg s ext = Some (Ok s')
    /\ (abs < totalReleased (s_pbl s')
        \/ (scan cfg Ph0 s1' (trp ++ ext) = PhDone /\
            exists w bi ei, In w (s_writes s') /\
              covers (w_state w) bi (obj_of (s_pbl s1) p' abs (off + size)) ei)).
Proof.
  intros R Hs1 Hu Hf Hrun. set (o := obj_of (s_pbl s1) p' abs (off + size)).
  destruct (fin_step _ _ _ _ _ _ _ _ Hs1 Hu) as [fr Hf']. rewrite Hf in Hf'. inversion Hf'; subst p'. clear Hf'.
  pose proof (reachable_ainv _ _ _ _ _ _ R) as A1. pose proof (reachable_cinv _ _ _ _ _ _ R) as C1.
  pose proof (ainv_pbl _ A1) as I1.
  assert (uinv o Ph0 0 s1') as UI.
  { split; [eapply step_ainv; eauto|]. split; [eapply step_cinv; eauto; exact (proj1 (proj1 A1))|].
    destruct (fin_cases _ _ _ _ _ _ _ Hf) as [[_ Hn]|
      (abs0 & off0 & bumped & Ht & _ & _ & Hcl & _ & _ & _ & Fs & _ & Hnb & Ft & Fsy & _ & _ & _ & _ & Fc & _)];
      [exfalso; eapply Hn; reflexivity|].
    split; [cbn; rewrite Fc; exact Hcl|]. split; [exact (fin_tracked _ _ _ _ _ _ _ I1 Hf)|]. split; [|exact I].
    intros _. right. unfold o, obj_of. cbn [o_epoch]. rewrite Fsy, Fs, Nat.sub_0_r.
    pose proof (i_sync2 _ I1) as H2. pose proof (i_len _ I1) as Hl. destruct bumped.
    - rewrite app_length. cbn. lia.
    - destruct (Hnb eq_refl) as [Hne _]. lia. }
  pose proof (run_uinv _ _ _ _ _ _ _ UI Hrun) as UIs.
  destruct (drive cfg o 35 _ _ _ (rank_le _ _) UIs) as (ext & s' & d' & Hfair & Hlen & Hr & UI' & Hg).
  exists ext, s'. split; [exact Hfair|]. split; [exact Hlen|]. split; [exact Hr|].
  rewrite (scan_app _ _ _ _ _ _ Hrun).
  destruct Hg as [Hd|Hrel]; [|left; exact Hrel].
  destruct UI' as (_ & _ & _ & _ & _ & V). rewrite Hd in V. cbn [cov] in V.
  destruct V as [V|V]; [left; exact V|right]. split; [exact Hd|exact V].
Qed.
