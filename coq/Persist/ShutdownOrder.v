(** The completed state writes are ordered: a newer one covers at least the
    acks an older one covers (snapshots are taken and completed under
    storeLock; the cohort of completed syncs only grows).  Hence the state on
    the medium after a process crash — the newest completed write — covers
    every ack as soon as some completed commit does. *)
From Coq Require Import List NArith ZArith Bool Arith Lia.
From BBS Require Import Persist.PBL Persist.PBLProofs Persist.Syncer Persist.SyncerProofs Persist.Shutdown
  Persist.ShutdownProofs.
Import ListNotations.

Definition suffix {A} (l1 l2 : list A) : Prop := exists pre, l2 = pre ++ l1.

Lemma suffix_refl {A} (l : list A) : suffix l l.
Proof. exists []. reflexivity. Qed.
Lemma suffix_trans {A} (a b c : list A) : suffix a b -> suffix b c -> suffix a c.
Proof. intros [p ->] [q ->]. exists (q ++ p). rewrite app_assoc. reflexivity. Qed.
Lemma suffix_cons {A} (x : A) a b : suffix a b -> suffix a (x :: b).
Proof. intros [p ->]. exists (x :: p). reflexivity. Qed.
Lemma suffix_full {A} (a b : list A) : suffix a b -> length b <= length a -> a = b.
Proof.
  intros [p ->] H. rewrite app_length in H. destruct p; [reflexivity|]. cbn in H. lia.
Qed.
Lemma suffix_length {A} (a b : list A) : suffix a b -> length a <= length b.
Proof. intros [p ->]. rewrite app_length. lia. Qed.

Fixpoint chain (top : list ack) (ws : list gwrite) : Prop :=
  match ws with
  | [] => True
  | w :: r => suffix (gw_cohort w) top /\ chain (gw_cohort w) r
  end.

Lemma chain_mono top top' ws : suffix top top' -> chain top ws -> chain top' ws.
Proof. destruct ws as [|w r]; [auto|]. intros S [H1 H2]. split; [eapply suffix_trans; eauto|exact H2]. Qed.

Lemma chain_in top ws w : chain top ws -> In w ws -> suffix (gw_cohort w) top.
Proof.
  revert top. induction ws as [|w0 r IH]; intros top C Hin; [destruct Hin|].
  destruct C as [C1 C2]. destruct Hin as [->|Hin]; [exact C1|].
  eapply suffix_trans; [apply IH; eauto|exact C1].
Qed.

Definition pend_ok (s : sys) (x : gsys) (t : tid) : Prop :=
  match get_pend x t with
  | Some w => (exists st, wpc_of t s = Some (WWriting st))
              /\ suffix (gw_cohort w) (g_synced (gs_g x)) /\ chain (gw_cohort w) (gs_writes x)
  | None => True
  end.

Definition ch (s : sys) (x : gsys) : Prop :=
  suffix (g_synced (gs_g x)) (g_syncing (gs_g x)) /\ suffix (g_syncing (gs_g x)) (g_acks (gs_g x))
  /\ chain (g_synced (gs_g x)) (gs_writes x) /\ pend_ok s x TR /\ pend_ok s x TP.

Lemma ch_frame s x s' x' :
  wpc_of TR s' = wpc_of TR s -> wpc_of TP s' = wpc_of TP s ->
  g_syncing (gs_g x') = g_syncing (gs_g x) -> g_synced (gs_g x') = g_synced (gs_g x) ->
  suffix (g_acks (gs_g x)) (g_acks (gs_g x')) -> same_writes x x' -> ch s x -> ch s' x'.
Proof.
  intros Hr Hp Hy Hd Ha [W1 [W2 W3]] [C1 [C2 [C3 [C4 C5]]]].
  unfold ch, pend_ok in *. cbn [get_pend] in *. rewrite Hy, Hd, W1, W2, W3, Hr, Hp. splits; auto.
  eapply suffix_trans; eauto.
Qed.

Lemma wpc_of_r_frame s s' : s_r s' = s_r s -> wpc_of TR s' = wpc_of TR s.
Proof. intros H. unfold wpc_of. rewrite H. reflexivity. Qed.
Lemma wpc_of_p_frame s s' : s_p s' = s_p s -> wpc_of TP s' = wpc_of TP s.
Proof. intros H. unfold wpc_of. rewrite H. reflexivity. Qed.

(** a loop that is not inside WritePersistentState has no pending snapshot *)
Lemma pend_none s x t : pend_ok s x t -> (forall st, wpc_of t s <> Some (WWriting st)) -> get_pend x t = None.
Proof.
  unfold pend_ok. destruct (get_pend x t); [|reflexivity]. intros [[st H] _] Hn. exfalso. eapply Hn; eauto.
Qed.

Lemma pend_ok_none s x t : get_pend x t = None -> pend_ok s x t.
Proof. unfold pend_ok. intros ->. exact I. Qed.

Lemma both_writing s st st' : inv3 s -> wpc_of TR s = Some (WWriting st) -> wpc_of TP s = Some (WWriting st') -> False.
Proof.
  unfold inv3, r_holds, p_holds, wpc_of.
  destruct (s_r s) as [| |w1]; destruct (s_p s) as [| | | | | | | |k w2|]; intros [_ H] H1 H2; try discriminate.
  inversion H1; inversion H2; subst. cbn in H. discriminate H.
Qed.

(** one step of writePersistentStateRetrying by loop [t] ([o] is the other loop) *)
Lemma gw_step_ch cfg t w a s s1 w' (s' : sys) x :
  inv3 s -> ch s x -> wpc_of t s = Some w ->
  wstep cfg t w a s = Some (Ok (s1, w')) ->
  wpc_of t s' = w' ->
  (forall o, o <> t -> wpc_of o s' = wpc_of o s) ->
  ch s' (gw_step t w a s s' x).
Proof.
  intros I3 [C1 [C2 [C3 [C4 C5]]]] Hw Hs Hw' Hoth.
  assert (Pt : pend_ok s x t) by (destruct t; assumption).
  assert (Hother : forall o, o <> t -> (forall st, w = WWriting st -> get_pend x o = None)).
  { intros o Ho st ->. apply (pend_none s); [destruct o; assumption|]. intros st' Hc.
    destruct t, o; try congruence; eapply both_writing; eauto. }
  assert (Hstore := wstep_store _ _ _ _ _ _ _ Hs). destruct Hstore as [_ [_ Hcase]].
  assert (Po : forall o, o <> t -> get_pend (gw_step t w a s s' x) o = get_pend x o).
  { intros o Ho. unfold gw_step. destruct w; try reflexivity.
    - destruct t, o; try congruence; reflexivity.
    - destruct (a_ok a); [destruct (get_pend x t)|]; destruct t, o; try congruence; reflexivity. }
  destruct w as [| |st| |dl]; cbn [gw_step].
  - (* WAcquire *) destruct Hcase as [_ [_ ->]].
    assert (get_pend x t = None) by (apply (pend_none s); [exact Pt|intros st' Hc; congruence]).
    unfold ch. splits; auto.
    + destruct t; [apply pend_ok_none; exact H|].
      unfold pend_ok in *. rewrite (Hoth TR); [exact C4|discriminate].
    + destruct t; [|apply pend_ok_none; exact H].
      unfold pend_ok in *. rewrite (Hoth TP); [exact C5|discriminate].
  - (* WGetState *) destruct Hcase as [_ [st ->]].
    destruct t; unfold ch; cbn [set_pend gs_g gs_writes]; splits; auto; unfold pend_ok in *;
      cbn [get_pend set_pend gs_pend_r gs_pend_p gs_g gs_writes gw_cohort] in *.
    + splits; [eexists; exact Hw'|apply suffix_refl|exact C3].
    + rewrite (Hoth TP); [exact C5|discriminate].
    + rewrite (Hoth TR); [exact C4|discriminate].
    + splits; [eexists; exact Hw'|apply suffix_refl|exact C3].
  - (* WWriting *)
    assert (HoR : t = TP -> get_pend x TR = None) by (intros ->; apply (Hother TR ltac:(discriminate) st eq_refl)).
    assert (HoP : t = TR -> get_pend x TP = None) by (intros ->; apply (Hother TP ltac:(discriminate) st eq_refl)).
    unfold wstep in Hs. destruct (a_ok a) eqn:Ea; inversion Hs; subst s1 w'.
    + destruct (get_pend x t) as [w0|] eqn:Ep.
      * unfold pend_ok in Pt. rewrite Ep in Pt. destruct Pt as [_ [P2 P3]].
        unfold ch. destruct t; cbn in *; splits; auto; unfold pend_ok; cbn; auto.
        -- rewrite (HoP eq_refl). exact I.
        -- rewrite (HoR eq_refl). exact I.
      * unfold ch. splits; auto.
        -- destruct t; [apply pend_ok_none; exact Ep|apply pend_ok_none; apply HoR; reflexivity].
        -- destruct t; [apply pend_ok_none; apply HoP; reflexivity|apply pend_ok_none; exact Ep].
    + unfold ch. destruct t; cbn in *; splits; auto; unfold pend_ok; cbn; auto.
      * rewrite (HoP eq_refl). exact I.
      * rewrite (HoR eq_refl). exact I.
  - (* WWritten *) destruct Hcase as [_ ->].
    assert (get_pend x t = None) by (apply (pend_none s); [exact Pt|intros st' Hc; congruence]).
    unfold ch. splits; auto.
    + destruct t; [apply pend_ok_none; exact H|].
      unfold pend_ok in *. rewrite (Hoth TR); [exact C4|discriminate].
    + destruct t; [|apply pend_ok_none; exact H].
      unfold pend_ok in *. rewrite (Hoth TP); [exact C5|discriminate].
  - (* WSleep *) destruct Hcase as [_ ->].
    assert (get_pend x t = None) by (apply (pend_none s); [exact Pt|intros st' Hc; congruence]).
    unfold ch. splits; auto.
    + destruct t; [apply pend_ok_none; exact H|].
      unfold pend_ok in *. rewrite (Hoth TR); [exact C4|discriminate].
    + destruct t; [|apply pend_ok_none; exact H].
      unfold pend_ok in *. rewrite (Hoth TP); [exact C5|discriminate].
Qed.

Ltac fin_ch :=
  unfold ch; cbn [gstep gs_with_g gs_g gs_writes g_start g_done g_acks g_syncing g_synced]; splits; auto;
  try apply suffix_refl;
  try (eapply suffix_trans; eauto; fail);
  try (eapply chain_mono; eauto; fail);
  try (match goal with C : forall x', _ -> _ -> _ -> pend_ok _ x' TR |- _ => apply C; auto; try apply suffix_refl end);
  try (match goal with H : gs_pend_p _ = None |- _ => apply pend_ok_none; exact H end).

Lemma step_ch cfg s e s' x : inv1 s -> inv3 s -> ch s x -> step cfg s e = Some (Ok s') -> ch s' (gstep s e s' x).
Proof.
  intros I1 I3 C Hs.
  destruct e as [alloc| |index size|k blk seed|d| |t a]; cbn [step] in Hs.
  - inversion Hs; subst. apply (ch_frame s x); auto. apply suffix_refl. apply same_writes_refl.
  - destruct (blocks (s_pbl s)) as [|b rest] eqn:Eb; [discriminate|].
    destruct (pop_front (s_pbl s)) as [p'|]; [|discriminate]. inversion Hs; subst.
    cbn [gstep]. rewrite Eb. apply (ch_frame s x); auto. apply suffix_refl. apply same_writes_with_g.
  - destruct (_ || _); [|discriminate]. destruct (put_start _ _); [|discriminate]. inversion Hs; subst.
    apply (ch_frame s x); auto. apply suffix_refl. apply same_writes_refl.
  - destruct (nth_error (s_uploads s) k) as [[[tok sz]|]|] eqn:En; try discriminate.
    destruct (put_finalize tok blk sz seed (s_pbl s)) as [[p' fr]|] eqn:Ef; [|discriminate]. inversion Hs; subst.
    cbn [gstep]. rewrite En. destruct tok as [|abs].
    + apply (ch_frame s x); auto. apply suffix_refl. apply same_writes_refl.
    + rewrite Ef. destruct fr as [off| | |]; try (apply (ch_frame s x); auto; [apply suffix_refl|apply same_writes_refl]).
      destruct (mk_ack _ _ _ _) as [a|]; [|apply (ch_frame s x); auto; [apply suffix_refl|apply same_writes_refl]].
      apply (ch_frame s x); auto; [|apply same_writes_with_g]. cbn. apply suffix_cons, suffix_refl.
  - inversion Hs; subst. apply (ch_frame s x); auto. apply suffix_refl. apply same_writes_refl.
  - inversion Hs; subst. apply (ch_frame s x); auto. apply suffix_refl. apply same_writes_refl.
  - destruct t.
    + (* release loop *)
      assert (Hp : s_p s' = s_p s) by (eapply rstep_frame; eauto).
      unfold rstep in Hs. cbn [gstep]. destruct (s_r s) as [|ch0|w] eqn:Er.
      * inversion Hs; subst. destruct C as [C1 [C2 [C3 [C4 C5]]]].
        assert (gs_pend_r x = None) by (apply (pend_none s x TR C4); unfold wpc_of; rewrite Er; discriminate).
        unfold ch. splits; auto. all: try (apply pend_ok_none; exact H). all: try exact C5.
      * destruct (is_closed _ _); [|discriminate]. inversion Hs; subst. destruct C as [C1 [C2 [C3 [C4 C5]]]].
        assert (gs_pend_r x = None) by (apply (pend_none s x TR C4); unfold wpc_of; rewrite Er; discriminate).
        unfold ch. splits; auto. all: try (apply pend_ok_none; exact H). all: try exact C5.
      * destruct (wstep cfg TR w a s) as [[[s1 w']|]|] eqn:Ew; try discriminate.
        eapply gw_step_ch; eauto.
        -- unfold wpc_of. rewrite Er. reflexivity.
        -- destruct w'; inversion Hs; subst; reflexivity.
        -- intros o Ho. destruct o; [congruence|]. apply wpc_of_p_frame. exact Hp.
    + (* put loop *)
      assert (Hr : s_r s' = s_r s) by (eapply pstep_frame; eauto).
      destruct C as [C1 [C2 [C3 [C4 C5]]]].
      assert (Hnone : (forall st, wpc_of TP s <> Some (WWriting st)) -> gs_pend_p x = None)
        by (intros Hn; apply (pend_none s x TP C5 Hn)).
      assert (C4' : forall x', gs_pend_r x' = gs_pend_r x -> gs_writes x' = gs_writes x ->
                      suffix (g_synced (gs_g x)) (g_synced (gs_g x')) -> pend_ok s' x' TR).
      { intros x' E1 E2 E3. unfold pend_ok in *. cbn [get_pend] in *. rewrite E1, E2, (wpc_of_r_frame _ _ Hr).
        destruct (gs_pend_r x); [|exact I]. destruct C4 as [A [B D]]. splits; auto. eapply suffix_trans; eauto. }
      unfold pstep in Hs. cbn [gstep].
      destruct (s_p s) as [|ch0|ch0|dl|keep|keep final|keep final|keep final dl|keep w|] eqn:Ep.
      * assert (gs_pend_p x = None) by (apply Hnone; unfold wpc_of; rewrite Ep; discriminate).
        inversion Hs; subst. fin_ch.
      * assert (gs_pend_p x = None) by (apply Hnone; unfold wpc_of; rewrite Ep; discriminate).
        destruct (is_closed _ _); inversion Hs; subst; fin_ch.
      * assert (gs_pend_p x = None) by (apply Hnone; unfold wpc_of; rewrite Ep; discriminate).
        destruct (s_cancel s && _); [|destruct (is_closed _ _); [|discriminate]]; inversion Hs; subst; fin_ch.
      * assert (gs_pend_p x = None) by (apply Hnone; unfold wpc_of; rewrite Ep; discriminate).
        destruct (s_cancel s && _); [|destruct (_ && _)%bool; [|discriminate]]; inversion Hs; subst; fin_ch.
      * assert (gs_pend_p x = None) by (apply Hnone; unfold wpc_of; rewrite Ep; discriminate).
        inversion Hs; subst. fin_ch.
      * assert (gs_pend_p x = None) by (apply Hnone; unfold wpc_of; rewrite Ep; discriminate).
        destruct (a_ok a); inversion Hs; subst; fin_ch.
      * assert (gs_pend_p x = None) by (apply Hnone; unfold wpc_of; rewrite Ep; discriminate).
        destruct (negb keep && negb final); inversion Hs; subst; fin_ch.
      * assert (gs_pend_p x = None) by (apply Hnone; unfold wpc_of; rewrite Ep; discriminate).
        destruct (_ <=? _)%N; [|discriminate]. inversion Hs; subst. fin_ch.
      * destruct (wstep cfg TP w a s) as [[[s1 w']|]|] eqn:Ew; try discriminate.
        eapply (gw_step_ch cfg TP); eauto.
        -- unfold ch. auto.
        -- unfold wpc_of. rewrite Ep. reflexivity.
        -- destruct w'; inversion Hs; subst; cbn; try reflexivity.
           (* the function returned: the loop is no longer inside it *)
           destruct keep; reflexivity.
        -- intros o Ho. destruct o; [|congruence]. apply wpc_of_r_frame. exact Hr.
      * discriminate.
Qed.

Definition sinv3 (o : N) (s : sys) (x : gsys) : Prop := sinv2 o s x /\ ch s x.

Lemma grun_sinv3 o cfg tr : forall s x s' x', sinv3 o s x -> grun cfg s x tr = Some (Ok (s', x')) -> sinv3 o s' x'.
Proof.
  induction tr as [|e tr IH]; intros s x s' x' S H; cbn in H.
  - inversion H; subst. exact S.
  - destruct (step cfg s e) as [[s1|]|] eqn:Es; try discriminate.
    eapply IH; [|exact H]. destruct S as [S2 C]. split.
    + eapply (grun_sinv2 o cfg [e]); [exact S2|]. cbn. rewrite Es. reflexivity.
    + destruct S2 as [[I1 _] [I3 _]]. eapply step_ch; eauto.
Qed.

Lemma init_sinv3 alloc oldest init t0 : sinv3 oldest (init_sys (fst (pbl_new alloc oldest init)) t0) g0.
Proof.
  split; [apply init_sinv2|]. unfold ch, pend_ok, g0. cbn. splits; auto; apply suffix_refl.
Qed.

(** newer completed writes cover at least what older ones cover *)
Theorem writes_monotone_all cfg alloc oldest init t0 s x : greachable cfg alloc oldest init t0 s x ->
  forall w0 rest w, gs_writes x = w0 :: rest -> In w rest -> suffix (gw_cohort w) (gw_cohort w0).
Proof.
  intros [tr H] w0 rest w Hw Hin.
  destruct (grun_sinv3 _ _ _ _ _ _ _ (init_sinv3 alloc oldest init t0) H) as [_ [_ [_ [C _]]]].
  rewrite Hw in C. destruct C as [_ C]. eapply chain_in; eauto.
Qed.

(** process crash after a completed commit: if some completed state write has
    every ack in its cohort (no finalizer returned OK since the start of its
    commit), then so does the newest completed write — the state on the
    medium — and it covers every ack *)
Theorem crash_commit_covers_all cfg alloc oldest init t0 s x : greachable cfg alloc oldest init t0 s x ->
  forall w, In w (gs_writes x) -> gw_cohort w = g_acks (gs_g x) ->
  exists w0 rest, gs_writes x = w0 :: rest /\ gw_cohort w0 = g_acks (gs_g x) /\
                  forall a, In a (g_acks (gs_g x)) -> covers w0 a.
Proof.
  intros R w Hin Hall. pose proof R as [tr H].
  destruct (grun_sinv3 _ _ _ _ _ _ _ (init_sinv3 alloc oldest init t0) H) as [_ [C1 [C2 [C3 _]]]].
  destruct (gs_writes x) as [|w0 rest] eqn:Ew; [destruct Hin|]. exists w0, rest. split; [reflexivity|].
  assert (Htop : suffix (gw_cohort w0) (g_acks (gs_g x))).
  { destruct C3 as [C3 _]. eapply suffix_trans; [exact C3|]. eapply suffix_trans; eauto. }
  assert (Hfull : gw_cohort w0 = g_acks (gs_g x)).
  { apply suffix_full; [exact Htop|]. destruct Hin as [->|Hin]; [rewrite Hall; lia|].
    destruct C3 as [_ C3]. pose proof (chain_in _ _ _ C3 Hin) as Hs. apply suffix_length in Hs.
    rewrite Hall in Hs. exact Hs. }
  split; [exact Hfull|]. intros a Ha. eapply commit_covers_all; eauto.
  - rewrite Ew. left. reflexivity.
  - rewrite Hfull. exact Ha.
Qed.
