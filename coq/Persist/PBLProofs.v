(** Invariants of the persistent block list, preserved by every method for
    every caller (no assumption about the syncer loops). *)
From Coq Require Import List NArith ZArith Bool Arith Lia.
From BBS Require Import Persist.PBL.
Import ListNotations.

Ltac splits := repeat match goal with |- _ /\ _ => split end.

(** ---- channel heap ---- *)
Record chan_wf (h : chans) (a b : nchan) : Prop := mkChanWf {
  cw_a_lt : nc_chan a < ch_next h;
  cw_b_lt : nc_chan b < ch_next h;
  cw_ne : nc_chan a <> nc_chan b;
  cw_closed_lt : forall c, In c (ch_closed h) -> c < ch_next h;
  cw_nodup : NoDup (ch_closed h);
  cw_a_blk : nc_blocking a = negb (is_closed h (nc_chan a));
  cw_b_blk : nc_blocking b = negb (is_closed h (nc_chan b));
  cw_stale : forall c, c < ch_next h -> c <> nc_chan a -> c <> nc_chan b -> is_closed h c = true
}.

Lemma is_closed_in h c : is_closed h c = true <-> In c (ch_closed h).
Proof.
  unfold is_closed. rewrite existsb_exists. split.
  - intros [x [Hi He]]. apply Nat.eqb_eq in He. subst. exact Hi.
  - intros Hi. exists c. split; [exact Hi|apply Nat.eqb_refl].
Qed.

Lemma is_closed_false h c : is_closed h c = false <-> ~ In c (ch_closed h).
Proof.
  rewrite <- is_closed_in. destruct (is_closed h c); split; congruence.
Qed.

Lemma chan_wf_sym h a b : chan_wf h a b -> chan_wf h b a.
Proof.
  intros [H1 H2 H3 H4 H5 H6 H7 H8]. constructor; auto.
Qed.

Lemma wf_block_a h a b :
  chan_wf h a b ->
  chan_wf (snd (nc_block a h)) (fst (nc_block a h)) b
  /\ nc_blocking (fst (nc_block a h)) = true
  /\ ch_next h <= ch_next (snd (nc_block a h))
  /\ ch_closed (snd (nc_block a h)) = ch_closed h.
Proof.
  intros W. destruct W as [H1 H2 H3 H4 H5 H6 H7 H8].
  unfold nc_block. destruct (nc_blocking a) eqn:Hb; cbn.
  - splits; auto. constructor; auto; congruence.
  - splits; auto; try lia.
    constructor; cbn; auto; try lia.
    + intros c Hc. specialize (H4 c Hc). lia.
    + unfold is_closed. cbn. fold (is_closed h (ch_next h)).
      destruct (is_closed h (ch_next h)) eqn:E; [|reflexivity].
      apply is_closed_in in E. apply H4 in E. lia.
    + intros c Hc Hn1 Hn2. unfold is_closed. cbn. fold (is_closed h c).
      destruct (Nat.eq_dec c (nc_chan a)) as [->|Hne].
      * destruct (is_closed h (nc_chan a)); [reflexivity|discriminate].
      * apply H8; [lia|exact Hne|exact Hn2].
Qed.

Lemma wf_unblock_a h a b :
  chan_wf h a b ->
  exists a' h', nc_unblock a h = Ok (a', h')
    /\ chan_wf h' a' b /\ nc_blocking a' = false /\ nc_chan a' = nc_chan a
    /\ ch_next h' = ch_next h
    /\ (forall c, is_closed h c = true -> is_closed h' c = true).
Proof.
  intros W. destruct W as [H1 H2 H3 H4 H5 H6 H7 H8].
  unfold nc_unblock. destruct (nc_blocking a) eqn:Hb.
  - destruct (is_closed h (nc_chan a)) eqn:Hc; [discriminate|].
    eexists _, _. split; [reflexivity|]. cbn. splits; auto.
    + constructor; cbn; auto.
      * intros c [<-|Hc']; auto.
      * constructor; [apply is_closed_false; exact Hc|exact H5].
      * unfold is_closed. cbn. rewrite Nat.eqb_refl. reflexivity.
      * unfold is_closed. cbn. fold (is_closed h (nc_chan b)).
        destruct (Nat.eqb (nc_chan b) (nc_chan a)) eqn:E.
        -- apply Nat.eqb_eq in E. congruence.
        -- exact H7.
      * intros c Hc1 Hc2 Hc3. unfold is_closed. cbn. fold (is_closed h c).
        rewrite (H8 c Hc1 Hc2 Hc3). apply orb_true_r.
    + intros c Hcc. unfold is_closed. cbn. fold (is_closed h c). rewrite Hcc. apply orb_true_r.
  - eexists _, _. split; [reflexivity|]. splits; auto. constructor; auto; congruence.

Qed.

(** ---- the block list invariant ---- *)
Record pbl_inv (s : pbl) : Prop := mkPblInv {
  i_len : length (epochLast s) = length (epochSeeds s);
  i_sum : total_epoch_count (blocks s) = length (epochSeeds s);
  i_sync1 : synchronizedEpochs s <= synchronizingEpochs s;
  i_sync2 : synchronizingEpochs s <= length (epochSeeds s);
  i_rel : releasing s <= length (toRelease s);
  i_chan : chan_wf (heap s) (putWakeup s) (releaseWakeup s);
  (** blocking (channel open) exactly when all work has been absorbed *)
  i_put_iff : nc_blocking (putWakeup s) = (synchronizedEpochs s =? length (epochSeeds s));
  i_rel_iff : nc_blocking (releaseWakeup s) = match toRelease s with [] => true | _ => false end
}.

(** wakeup_put / wakeup_release on a single block list state *)
Lemma inv_wakeup_put s : pbl_inv s ->
  synchronizedEpochs s < length (epochSeeds s) -> put_chan_closed s = true.
Proof.
  intros I Hlt. unfold put_chan_closed, get_put_wakeup.
  pose proof (cw_a_blk _ _ _ (i_chan s I)) as Hb. rewrite (i_put_iff s I) in Hb.
  destruct (Nat.eqb_spec (synchronizedEpochs s) (length (epochSeeds s))); [lia|].
  destruct (is_closed (heap s) (nc_chan (putWakeup s))); [reflexivity|discriminate].
Qed.

Lemma inv_put_open s : pbl_inv s ->
  synchronizedEpochs s = length (epochSeeds s) -> put_chan_closed s = false.
Proof.
  intros I He. unfold put_chan_closed, get_put_wakeup.
  pose proof (cw_a_blk _ _ _ (i_chan s I)) as Hb. rewrite (i_put_iff s I) in Hb.
  rewrite He, Nat.eqb_refl in Hb.
  destruct (is_closed (heap s) (nc_chan (putWakeup s))); [discriminate|reflexivity].
Qed.

Lemma inv_wakeup_release s : pbl_inv s ->
  toRelease s <> [] -> release_chan_closed s = true.
Proof.
  intros I Hne. unfold release_chan_closed, get_release_wakeup.
  pose proof (cw_b_blk _ _ _ (i_chan s I)) as Hb. rewrite (i_rel_iff s I) in Hb.
  destruct (toRelease s); [congruence|].
  destruct (is_closed (heap s) (nc_chan (releaseWakeup s))); [reflexivity|discriminate].
Qed.

Lemma inv_release_open s : pbl_inv s ->
  toRelease s = [] -> release_chan_closed s = false.
Proof.
  intros I He. unfold release_chan_closed, get_release_wakeup.
  pose proof (cw_b_blk _ _ _ (i_chan s I)) as Hb. rewrite (i_rel_iff s I), He in Hb.
  destruct (is_closed (heap s) (nc_chan (releaseWakeup s))); [discriminate|reflexivity].
Qed.

(** ---- construction ---- *)
Lemma restore_lengths alloc init n bl seeds lasts :
  restore_blocks alloc init n = (bl, seeds, lasts) ->
  length lasts = length seeds /\ total_epoch_count bl = length seeds.
Proof.
  revert n bl seeds lasts. induction init as [|bs rest IH]; intros n bl seeds lasts H; cbn in H.
  - inversion H. auto.
  - destruct (alloc (bs_loc bs) (bs_off bs)).
    + destruct (restore_blocks alloc rest (S n)) as [[bl' seeds'] lasts'] eqn:E.
      inversion H; subst. destruct (IH _ _ _ _ E) as [H1 H2].
      rewrite !app_length, repeat_length. split; [lia|].
      unfold total_epoch_count in *. cbn. lia.
    + inversion H. auto.
Qed.

Lemma pbl_new_inv alloc oldest init : pbl_inv (fst (pbl_new alloc oldest init)).
Proof.
  unfold pbl_new. destruct (restore_blocks alloc init 0) as [[bl seeds] lasts] eqn:E.
  destruct (restore_lengths _ _ _ _ _ _ E) as [H1 H2]. cbn.
  constructor; cbn; auto; try lia.
  - constructor; cbn; auto; try lia.
    all: try (intros; lia). all: try constructor. all: try (intros c []).
  - symmetry. apply Nat.eqb_refl.
Qed.

(** ---- helpers on lists ---- *)
Lemma total_app a b : total_epoch_count (a ++ b) = total_epoch_count a + total_epoch_count b.
Proof. induction a; cbn; [reflexivity|]. unfold total_epoch_count in *. cbn. lia. Qed.

Lemma set_written_epochs bs i w : total_epoch_count (set_written bs i w) = total_epoch_count bs.
Proof.
  revert i. induction bs as [|b r IH]; intros [|i]; cbn; auto.
  all: unfold total_epoch_count in *; cbn.
  all: try (destruct (b_written b <? w)%Z; reflexivity).
  all: try (rewrite IH; reflexivity).
Qed.

Lemma set_written_length bs i w : length (set_written bs i w) = length bs.
Proof. revert i. induction bs as [|b r IH]; intros [|i]; cbn; auto. Qed.

Lemma bump_epochs bs : bs <> [] ->
  total_epoch_count (bump_last_epoch_count bs) = S (total_epoch_count bs).
Proof.
  induction bs as [|b r IH]; [congruence|]. intros _.
  destruct r as [|b' r'].
  - cbn. unfold total_epoch_count. cbn. lia.
  - change (bump_last_epoch_count (b :: b' :: r')) with (b :: bump_last_epoch_count (b' :: r')).
    unfold total_epoch_count in *. cbn [fold_right]. rewrite IH by congruence. cbn. lia.
Qed.

Lemma map_epochs f bs : (forall b, b_epochs (f b) = b_epochs b) ->
  total_epoch_count (map f bs) = total_epoch_count bs.
Proof.
  intros Hf. induction bs as [|b r IH]; cbn; [reflexivity|].
  unfold total_epoch_count in *. cbn. rewrite Hf, IH. reflexivity.
Qed.

(** ---- preservation, method by method ---- *)
Lemma push_back_inv alloc s : pbl_inv s -> pbl_inv (fst (push_back alloc s)).
Proof.
  intros I. unfold push_back. destruct (closedForWriting s); [exact I|].
  destruct alloc; [|exact I]. cbn. destruct I. constructor; cbn; auto.
  rewrite total_app. unfold total_epoch_count at 2. cbn. lia.
Qed.

Lemma notify_sync_starting_inv f s : pbl_inv s -> pbl_inv (notify_sync_starting f s).
Proof.
  intros I. destruct I. constructor; cbn; auto; try lia.
  rewrite map_epochs; auto.
Qed.

Lemma notify_sync_completed_inv s : pbl_inv s -> pbl_inv (notify_sync_completed s).
Proof.
  intros I. pose proof I as I0. destruct I. unfold notify_sync_completed.
  destruct (Nat.eqb_spec (synchronizingEpochs s) (length (epochSeeds s))) as [He|Hne].
  - pose proof (wf_block_a _ _ _ i_chan0) as [W [Hb _]].
    destruct (nc_block (putWakeup s) (heap s)) as [pw h1]. cbn in *.
    constructor; cbn; auto; try lia.
    + rewrite map_epochs; auto.
    + rewrite Hb, He. symmetry. apply Nat.eqb_refl.
  - constructor; cbn; auto; try lia.
    all: try (rewrite map_epochs; auto).
    all: try (rewrite i_put_iff0;
      destruct (Nat.eqb_spec (synchronizingEpochs s) (length (epochSeeds s))); [lia|];
      destruct (Nat.eqb_spec (synchronizedEpochs s) (length (epochSeeds s))); [lia|reflexivity]).
Qed.

Lemma gps_loop_ok bs lastE synced seeds :
  synced <= length seeds -> synced <= lastE + total_epoch_count bs ->
  exists r, gps_loop bs lastE synced seeds = Ok r.
Proof.
  revert lastE. induction bs as [|b r IH]; intros lastE H1 H2.
  - cbn [gps_loop]. unfold total_epoch_count in H2. cbn in H2.
    destruct (Nat.ltb_spec lastE synced); [lia|]. eexists; reflexivity.
  - cbn [gps_loop]. destruct (Nat.ltb_spec lastE synced); [|eexists; reflexivity].
    destruct (Nat.ltb_spec (length seeds) (Nat.min (lastE + b_epochs b) synced)); [lia|].
    destruct (IH (Nat.min (lastE + b_epochs b) synced) H1) as [r' Hr'].
    + unfold total_epoch_count in *. cbn in H2. lia.
    + rewrite Hr'. cbn [obind]. eexists; reflexivity.
Qed.

Lemma get_persistent_state_inv s : pbl_inv s ->
  exists s' st, get_persistent_state s = Ok (s', st) /\ pbl_inv s'
    /\ releasing s' = length (toRelease s) /\ heap s' = heap s
    /\ toRelease s' = toRelease s /\ releasedLog s' = releasedLog s
    /\ putWakeup s' = putWakeup s /\ releaseWakeup s' = releaseWakeup s.
Proof.
  intros I. destruct I. unfold get_persistent_state.
  destruct (gps_loop_ok (blocks s) 0 (synchronizedEpochs s) (epochSeeds s)) as [r Hr]; [lia|lia|].
  rewrite Hr. cbn. eexists _, _. split; [reflexivity|].
  splits; auto. constructor; cbn; auto.
Qed.

Lemma skipn_nil_length {A} n (l : list A) : skipn n l = [] -> length l <= n.
Proof.
  revert l. induction n; intros [|x l] H; cbn in *; try lia; try discriminate.
  apply IHn in H. lia.
Qed.

Lemma notify_state_written_inv s : pbl_inv s ->
  exists s', notify_state_written s = Ok s' /\ pbl_inv s'
    /\ releasedLog s' = releasedLog s ++ firstn (releasing s) (toRelease s)
    /\ toRelease s' = skipn (releasing s) (toRelease s)
    /\ ch_next (heap s) <= ch_next (heap s')
    /\ ch_closed (heap s') = ch_closed (heap s).
Proof.
  intros I. destruct I. unfold notify_state_written.
  destruct (Nat.ltb_spec (length (toRelease s)) (releasing s)); [lia|].
  destruct (skipn (releasing s) (toRelease s)) as [|x rest] eqn:E.
  - pose proof (wf_block_a _ _ _ (chan_wf_sym _ _ _ i_chan0)) as [W [Hb [Hn Hc]]].
    destruct (nc_block (releaseWakeup s) (heap s)) as [rw h1]. cbn in *.
    eexists. split; [reflexivity|]. cbn. splits; auto.
    constructor; cbn; auto; try lia. apply chan_wf_sym. exact W.
  - eexists. split; [reflexivity|]. cbn. splits; auto.
    constructor; cbn; auto; try lia.
    rewrite i_rel_iff0. destruct (toRelease s); [|reflexivity].
    destruct (releasing s); discriminate.
Qed.

Lemma hd_epochs_le b rest : b_epochs b <= total_epoch_count (b :: rest).
Proof. unfold total_epoch_count. cbn. lia. Qed.

Lemma pop_front_inv s : pbl_inv s -> blocks s <> [] ->
  exists s', pop_front s = Ok s' /\ pbl_inv s'
    /\ ch_next (heap s) <= ch_next (heap s')
    /\ (forall c, is_closed (heap s) c = true -> is_closed (heap s') c = true)
    /\ releasedLog s' = releasedLog s
    /\ (exists l, toRelease s' = toRelease s ++ [l]).
Proof.
  intros I Hne. destruct I. unfold pop_front.
  destruct (blocks s) as [|b rest] eqn:Eb; [congruence|].
  destruct (wf_unblock_a _ _ _ (chan_wf_sym _ _ _ i_chan0)) as [rw [h1 [Hu [W [Hb [Hid [Hn Hmono]]]]]]].
  rewrite Hu. cbn [obind].
  pose proof (hd_epochs_le b rest) as Hle. rewrite i_sum0 in Hle.
  destruct (Nat.ltb_spec (length (epochSeeds s)) (b_epochs b)); [lia|].
  destruct (Nat.ltb_spec (length (epochLast s)) (b_epochs b)); [lia|]. cbn [orb].
  set (ec := b_epochs b) in *.
  set (syncing' := if synchronizingEpochs s <=? ec then 0 else synchronizingEpochs s - ec).
  set (synced' := if synchronizedEpochs s <=? ec then 0 else synchronizedEpochs s - ec).
  assert (Hs1 : syncing' = synchronizingEpochs s - ec).
  { unfold syncing'. destruct (Nat.leb_spec (synchronizingEpochs s) ec); lia. }
  assert (Hs2 : synced' = synchronizedEpochs s - ec).
  { unfold synced'. destruct (Nat.leb_spec (synchronizedEpochs s) ec); lia. }
  assert (Hlen : length (skipn ec (epochSeeds s)) = length (epochSeeds s) - ec) by apply skipn_length.
  assert (Hsum : total_epoch_count rest = length (epochSeeds s) - ec).
  { unfold total_epoch_count in *. cbn in i_sum0. fold ec in i_sum0. lia. }
  apply chan_wf_sym in W.
  destruct (Nat.eqb_spec synced' (length (skipn ec (epochSeeds s)))) as [He|Hn'].
  - pose proof (wf_block_a _ _ _ W) as [W2 [Hb2 [Hn2 Hc2]]].
    destruct (nc_block (putWakeup s) h1) as [pw h2]. cbn in *.
    eexists. split; [reflexivity|]. cbn. splits; auto; try lia.
    + constructor; cbn; auto; try lia.
      all: try (rewrite !skipn_length; lia).
      all: try (rewrite app_length; cbn; lia).
      all: try (rewrite Hb2; symmetry; apply Nat.eqb_eq; exact He).
      all: try (rewrite Hb; destruct (toRelease s); reflexivity).
    + intros c Hc. apply Hmono in Hc. unfold is_closed in *. rewrite Hc2. exact Hc.
    + eauto.
  - eexists. split; [reflexivity|]. cbn. splits; auto; try lia.
    + constructor; cbn; auto; try lia.
      all: try (rewrite !skipn_length; lia).
      all: try (rewrite app_length; cbn; lia).
      all: try (rewrite i_put_iff0;
        destruct (Nat.eqb_spec synced' (length (skipn ec (epochSeeds s)))); [lia|];
        destruct (Nat.eqb_spec (synchronizedEpochs s) (length (epochSeeds s))); [lia|reflexivity]).
      all: try (rewrite Hb; destruct (toRelease s); reflexivity).
      all: try (unfold total_epoch_count in *; rewrite Hlen; lia).
    + eauto.
Qed.

(** A Put token is valid when its absolute index is below the end of the list. *)
Definition tok_ok (s : pbl) (tok : put_token) : Prop :=
  match tok with PutClosed => True | PutAt abs => abs < totalReleased s + length (blocks s) end.

Lemma put_start_ok index s : closedForWriting s = true \/ index < length (blocks s) ->
  exists tok, put_start index s = Ok tok /\ tok_ok s tok.
Proof.
  intros H. unfold put_start. destruct (closedForWriting s) eqn:E.
  - eexists. split; [reflexivity|exact I].
  - destruct H as [H|H]; [discriminate|].
    destruct (Nat.ltb_spec index (length (blocks s))); [|lia].
    eexists. split; [reflexivity|]. cbn. lia.
Qed.

Lemma put_finalize_inv tok blk size seed s : pbl_inv s -> tok_ok s tok ->
  exists s' fr, put_finalize tok blk size seed s = Ok (s', fr) /\ pbl_inv s'
    /\ ch_next (heap s') = ch_next (heap s)
    /\ (forall c, is_closed (heap s) c = true -> is_closed (heap s') c = true)
    /\ releasedLog s' = releasedLog s /\ toRelease s' = toRelease s
    /\ totalReleased s' = totalReleased s /\ length (blocks s') = length (blocks s).
Proof.
  intros I T. pose proof I as I0. destruct I. unfold put_finalize.
  destruct tok as [|abs]; [eexists _, _; split; [reflexivity|]; splits; auto|].
  destruct blk as [off|]; [|eexists _, _; split; [reflexivity|]; splits; auto].
  destruct (closedForWriting s) eqn:Ec; [eexists _, _; split; [reflexivity|]; splits; auto|].
  destruct (Nat.ltb_spec abs (totalReleased s)); [eexists _, _; split; [reflexivity|]; splits; auto|].
  cbn in T.
  destruct (Nat.leb_spec (length (blocks s)) (abs - totalReleased s)); [lia|].
  set (bl1 := set_written (blocks s) (abs - totalReleased s) (off + size)%Z).
  assert (Hl1 : length bl1 = length (blocks s)) by apply set_written_length.
  assert (He1 : total_epoch_count bl1 = total_epoch_count (blocks s)) by apply set_written_epochs.
  assert (Hbump : forall (k : pbl * fin_result -> Prop),
     (forall pw h1, nc_unblock (putWakeup s) (heap s) = Ok (pw, h1) ->
        k (mkPbl (closedForWriting s) (bump_last_epoch_count bl1) (epochSeeds s ++ [seed])
             (epochLast s ++ [totalReleased s + length bl1 - 1]) (totalReleased s) (oldestEpochID s)
             (synchronizingEpochs s) (synchronizedEpochs s) pw (toRelease s) (releasing s)
             (releaseWakeup s) h1 (releasedLog s), FinOk off)) ->
     k (set_blocks s bl1, FinOk off) ->
     exists r, match (if length (epochLast s) =? synchronizingEpochs s then Ok true
                      else match length (epochLast s) with
                           | 0 => Panic
                           | S n' => match nth_error (epochLast s) n' with
                                     | Some lastAbs => Ok (lastAbs <? abs)
                                     | None => Panic
                                     end
                           end) with
               | Ok b0 => if b0 then obind (nc_unblock (putWakeup s) (heap s)) (fun '(pw, h1) =>
                   Ok (mkPbl (closedForWriting s) (bump_last_epoch_count bl1) (epochSeeds s ++ [seed])
                     (epochLast s ++ [totalReleased s + length bl1 - 1]) (totalReleased s) (oldestEpochID s)
                     (synchronizingEpochs s) (synchronizedEpochs s) pw (toRelease s) (releasing s)
                     (releaseWakeup s) h1 (releasedLog s), FinOk off))
                   else Ok (set_blocks s bl1, FinOk off)
               | Panic => Panic
               end = Ok r /\ k r).
  { intros k K1 K2.
    destruct (wf_unblock_a _ _ _ i_chan0) as [pw [h1 [Hu _]]].
    destruct (Nat.eqb_spec (length (epochLast s)) (synchronizingEpochs s)).
    - rewrite Hu. cbn. eexists. split; [reflexivity|]. apply K1. exact Hu.
    - destruct (length (epochLast s)) as [|n'] eqn:El; [lia|].
      destruct (nth_error (epochLast s) n') as [la|] eqn:En.
      + destruct (la <? abs).
        * rewrite Hu. cbn. eexists. split; [reflexivity|]. apply K1. exact Hu.
        * eexists. split; [reflexivity|]. exact K2.
      + apply nth_error_None in En. lia. }
  unfold obind at 1.
  match goal with |- exists s' fr, ?X = _ /\ _ =>
    destruct (Hbump (fun r => pbl_inv (fst r)
       /\ ch_next (heap (fst r)) = ch_next (heap s)
       /\ (forall c, is_closed (heap s) c = true -> is_closed (heap (fst r)) c = true)
       /\ releasedLog (fst r) = releasedLog s /\ toRelease (fst r) = toRelease s
       /\ totalReleased (fst r) = totalReleased s /\ length (blocks (fst r)) = length (blocks s)))
      as [r [Hr Hk]] end.
  - intros pw h1 Hu.
    destruct (wf_unblock_a _ _ _ i_chan0) as [pw' [h1' [Hu' [W [Hb [Hid [Hn Hmono]]]]]]].
    rewrite Hu in Hu'. inversion Hu'; subst pw' h1'. cbn.
    splits; auto.
    + constructor; cbn; auto; try lia.
      * rewrite !app_length. cbn. lia.
      * rewrite bump_epochs, He1, app_length; [cbn; lia|].
        intros E. rewrite E in Hl1. cbn in Hl1. lia.
      * rewrite app_length. cbn. lia.
      * rewrite Hb, app_length. cbn.
        destruct (Nat.eqb_spec (synchronizedEpochs s) (length (epochSeeds s) + 1)); [lia|reflexivity].
    + clear - Hl1.
      assert (forall l, length (bump_last_epoch_count l) = length l) as Hbl.
      { induction l as [|b [|b' r] IH]; cbn in *; auto. }
      rewrite Hbl. exact Hl1.
  - cbn. splits; auto. constructor; cbn; auto; try lia.
    all: try (unfold total_epoch_count in *; rewrite He1; assumption).
  - destruct r as [s' fr]. exists s', fr. split; [|exact Hk].
    rewrite Ec in Hr. exact Hr.
Qed.

(** ---- how the channels evolve: closed stays closed, identities only grow,
    a wake-up channel is replaced only after it was closed ---- *)
Definition chan_mono (s s' : pbl) : Prop :=
  ch_next (heap s) <= ch_next (heap s') /\
  (forall c, is_closed (heap s) c = true -> is_closed (heap s') c = true) /\
  (get_put_wakeup s' = get_put_wakeup s \/ is_closed (heap s') (get_put_wakeup s) = true) /\
  (get_release_wakeup s' = get_release_wakeup s \/ is_closed (heap s') (get_release_wakeup s) = true).

Lemma chan_mono_same s s' :
  heap s' = heap s -> putWakeup s' = putWakeup s -> releaseWakeup s' = releaseWakeup s -> chan_mono s s'.
Proof.
  intros H1 H2 H3. unfold chan_mono, get_put_wakeup, get_release_wakeup.
  rewrite H1, H2, H3. splits; auto.
Qed.

Lemma nc_block_cases a h b : chan_wf h a b ->
  ch_next h <= ch_next (snd (nc_block a h)) /\
  (forall c, is_closed h c = true -> is_closed (snd (nc_block a h)) c = true) /\
  (nc_chan (fst (nc_block a h)) = nc_chan a \/ is_closed (snd (nc_block a h)) (nc_chan a) = true).
Proof.
  intros W. unfold nc_block. destruct (nc_blocking a) eqn:E; cbn.
  - splits; auto.
  - splits; auto. right. unfold is_closed. cbn. fold (is_closed h (nc_chan a)).
    pose proof (cw_a_blk _ _ _ W) as Hb. rewrite E in Hb.
    destruct (is_closed h (nc_chan a)); [reflexivity|discriminate].
Qed.

Lemma notify_sync_completed_mono s : pbl_inv s -> chan_mono s (notify_sync_completed s).
Proof.
  intros I. unfold notify_sync_completed.
  destruct (synchronizingEpochs s =? length (epochSeeds s)).
  - pose proof (nc_block_cases _ _ _ (i_chan s I)) as [H1 [H2 H3]].
    destruct (nc_block (putWakeup s) (heap s)) as [pw h1]. cbn in *.
    unfold chan_mono, get_put_wakeup, get_release_wakeup. cbn. splits; auto.
  - apply chan_mono_same; reflexivity.
Qed.

Lemma notify_state_written_mono s s' : pbl_inv s -> notify_state_written s = Ok s' -> chan_mono s s'.
Proof.
  intros I. unfold notify_state_written.
  destruct (length (toRelease s) <? releasing s); [discriminate|].
  destruct (skipn (releasing s) (toRelease s)).
  - pose proof (nc_block_cases _ _ _ (chan_wf_sym _ _ _ (i_chan s I))) as [H1 [H2 H3]].
    destruct (nc_block (releaseWakeup s) (heap s)) as [rw h1]. cbn in *.
    intros H; inversion H; subst; clear H.
    unfold chan_mono, get_put_wakeup, get_release_wakeup. cbn. splits; auto.
  - intros H; inversion H; subst; clear H. apply chan_mono_same; reflexivity.
Qed.

Lemma pop_front_mono s s' : pbl_inv s -> pop_front s = Ok s' ->
  chan_mono s s' /\ totalReleased s' + length (blocks s') = totalReleased s + length (blocks s)
  /\ closedForWriting s' = closedForWriting s.
Proof.
  intros I. unfold pop_front. destruct (blocks s) as [|b rest]; [discriminate|].
  destruct (wf_unblock_a _ _ _ (chan_wf_sym _ _ _ (i_chan s I))) as [rw [h1 [Hu [W [Hb [Hid [Hn Hmono]]]]]]].
  rewrite Hu. cbn [obind].
  destruct ((length (epochSeeds s) <? b_epochs b) || (length (epochLast s) <? b_epochs b)); [discriminate|].
  match goal with |- context [if ?c then nc_block _ _ else _] => destruct c end.
  - pose proof (nc_block_cases _ _ _ (chan_wf_sym _ _ _ W)) as [H1 [H2 H3]].
    destruct (nc_block (putWakeup s) h1) as [pw h2]. cbn in *.
    intros H; inversion H; subst; clear H. cbn. splits; auto; try lia.
    unfold chan_mono, get_put_wakeup, get_release_wakeup. cbn. splits; auto; try lia.
  - intros H; inversion H; subst; clear H. cbn. splits; auto; try lia.
    unfold chan_mono, get_put_wakeup, get_release_wakeup. cbn. splits; auto; try lia.
Qed.

Lemma put_finalize_mono tok blk size seed s s' fr : pbl_inv s ->
  put_finalize tok blk size seed s = Ok (s', fr) ->
  chan_mono s s' /\ closedForWriting s' = closedForWriting s.
Proof.
  intros I. unfold put_finalize.
  destruct tok as [|abs]; [intros H; inversion H; subst; split; [apply chan_mono_same|]; reflexivity|].
  destruct blk as [off|]; [|intros H; inversion H; subst; split; [apply chan_mono_same|]; reflexivity].
  destruct (closedForWriting s) eqn:Ec; [intros H; inversion H; subst; split; [apply chan_mono_same|]; auto|].
  destruct (abs <? totalReleased s); [intros H; inversion H; subst; split; [apply chan_mono_same|]; auto|].
  destruct (length (blocks s) <=? abs - totalReleased s); [discriminate|].
  destruct (wf_unblock_a _ _ _ (i_chan s I)) as [pw [h1 [Hu [W [Hb [Hid [Hn Hmono]]]]]]].
  match goal with |- obind ?b _ = _ -> _ => destruct b as [[|]|] end; cbn [obind].
  - rewrite Hu. cbn [obind]. intros H; inversion H; subst; clear H. cbn. split; auto.
    unfold chan_mono, get_put_wakeup, get_release_wakeup. cbn. splits; auto; try lia.
  - intros H; inversion H; subst; clear H. cbn. split; auto. apply chan_mono_same; reflexivity.
  - discriminate.
Qed.
