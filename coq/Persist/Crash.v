(** Persist/Crash.v — the three storage media of the persistent local store as
    ONE global I/O log, the post-crash media as a function of a log prefix and a
    loss choice ([crash_medium]), and the restart ([restart] = [pbl_new] on the
    surviving state file, [resolve] = BlockReferenceToBlockIndex + the seed
    check of the record checksum).  Definitions only.

    Fault model (the property's):
      - data device: a write is durable once a Sync that was CALLED after the
        write was issued has RETURNED nil; all other writes ("pending") survive
        a crash in any combination; the log has one [IoData] entry per sector
        written, so a multi-sector write tears at sector boundaries;
      - index device: never synced; every record write of the prefix survives
        or not, in any combination; a record write is atomic (observation O1
        of DESIGN.md is outside the fault model);
      - state directory: name-space operations (create / rename / remove of
        state.new) become durable at the directory fsync and are otherwise
        lost from some point on (any PREFIX of the operations since the last
        directory fsync took effect — ordered metadata journalling); the
        content of a file is durable once the file was fsynced, otherwise it
        is whatever the loss choice says: the bytes written, nothing (empty
        file), or the bytes of an older state file (stale blocks).

    The record payload type [R] is a parameter: the judge instantiates it with
    the 66 raw bytes read back through Index/RecordCodec, the theorems with the
    abstract record [irec] of Persist/CrashLts.v. *)
From Coq Require Import List NArith ZArith Bool Arith Lia.
From BBS Require Import Persist.PBL.
Import ListNotations.

(** what the state file holds: ((oldest_epoch_id, blocks), key_location_map_hash_initialization) *)
Definition sfile : Type := (pstate * N)%type.
(** proto.Unmarshal of an empty file: the zero PersistentState *)
Definition sfile_empty : sfile := ((0%N, []), 0%N).

Section Medium.
  Variable R : Type.

  Inductive io :=
  | IoData (u : nat) (l : loc) (lo hi : Z)   (* bytes [lo,hi) (block relative) of the block at device location l; content: upload u's *)
  | IoSyncBegin                              (* DataSyncer called *)
  | IoSyncEnd (ok : bool)                    (* DataSyncer returned (nil iff ok) *)
  | IoIndex (slot : nat) (r : R)             (* one record write *)
  | IoRemoveNew                              (* directory.Remove("state.new") succeeded *)
  | IoCreateNew                              (* OpenAppend("state.new", CreateExcl) succeeded *)
  | IoWriteNew (st : sfile)                  (* f.Write(marshalled state) *)
  | IoFsyncNew                               (* f.Sync() returned nil *)
  | IoRenameNew                              (* Rename("state.new", "state") *)
  | IoDirSync.                               (* directory.Sync() returned nil *)

  (** ---- data device ---- *)
  Definition dwrite : Type := (nat * loc * Z * Z)%type.

  (** scan state: (position, begin of the sync in flight, durable frontier) *)
  Definition dur_step (st : nat * option nat * nat) (e : io) : nat * option nat * nat :=
    let '(pos, beg, dur) := st in
    match e with
    | IoSyncBegin => (S pos, Some pos, dur)
    | IoSyncEnd true => (S pos, None, match beg with Some b => b | None => dur end)
    | IoSyncEnd false => (S pos, None, dur)
    | _ => (S pos, beg, dur)
    end.
  Definition dur_scan (l : list io) : nat * option nat * nat := fold_left dur_step l (0, None, 0).
  (** every data write at a log position below [durable_upto l] is durable *)
  Definition durable_upto (l : list io) : nat := snd (dur_scan l).
  Definition pending_begin (l : list io) : option nat := snd (fst (dur_scan l)).

  Fixpoint data_from (pos : nat) (l : list io) : list (nat * dwrite) :=
    match l with
    | [] => []
    | IoData u lc lo hi :: t => (pos, (u, lc, lo, hi)) :: data_from (S pos) t
    | _ :: t => data_from (S pos) t
    end.
  Definition data_durable (l : list io) : list dwrite :=
    map snd (filter (fun e => fst e <? durable_upto l) (data_from 0 l)).
  Definition data_pending (l : list io) : list dwrite :=
    map snd (filter (fun e => negb (fst e <? durable_upto l)) (data_from 0 l)).

  (** [select bs xs]: the elements of xs whose flag is true (missing flags = lost) *)
  Fixpoint select {T} (bs : list bool) (xs : list T) : list T :=
    match xs, bs with
    | x :: xs', true :: bs' => x :: select bs' xs'
    | _ :: xs', false :: bs' => select bs' xs'
    | _, _ => []
    end.

  (** ---- index device ---- *)
  Fixpoint index_writes (l : list io) : list (nat * R) :=
    match l with
    | [] => []
    | IoIndex s r :: t => (s, r) :: index_writes t
    | _ :: t => index_writes t
    end.

  (** the record a slot holds: the LAST surviving write to it *)
  Fixpoint slot_get (ws : list (nat * R)) (s : nat) (acc : option R) : option R :=
    match ws with
    | [] => acc
    | (s', r) :: t => slot_get t s (if Nat.eqb s' s then Some r else acc)
    end.

  (** ---- state directory ---- *)
  Inductive nsop := NsRemove | NsCreate (f : nat) | NsRename.

  Record dirst := mkDir {
    d_files : list (option sfile * bool);   (* per file id: bytes written (None: nothing), fsynced *)
    d_vnew : option nat;  d_vstate : option nat;   (* volatile name space *)
    d_dnew : option nat;  d_dstate : option nat;   (* durable name space (last directory fsync) *)
    d_pend : list nsop                              (* name-space operations since *)
  }.

  Definition ns_apply (ns : option nat * option nat) (o : nsop) : option nat * option nat :=
    match o with
    | NsRemove => (None, snd ns)
    | NsCreate f => (Some f, snd ns)
    | NsRename => match fst ns with Some f => (None, Some f) | None => ns end
    end.

  Fixpoint set_nth {T} (l : list T) (i : nat) (x : T) : list T :=
    match l, i with
    | [], _ => []
    | _ :: t, O => x :: t
    | h :: t, S j => h :: set_nth t j x
    end.

  (** the directory a life starts from: the files that survived the previous crash (durable) *)
  Definition dir_init (st new : option sfile) : dirst :=
    let fs := match st with Some c => [(Some c, true)] | None => [] end in
    let fn := match new with Some c => [(Some c, true)] | None => [] end in
    let si := match st with Some _ => Some 0 | None => None end in
    let ni := match new with Some _ => Some (length fs) | None => None end in
    mkDir (fs ++ fn) ni si ni si [].

  Definition dir_step (d : dirst) (e : io) : dirst :=
    match e with
    | IoRemoveNew => mkDir (d_files d) None (d_vstate d) (d_dnew d) (d_dstate d) (d_pend d ++ [NsRemove])
    | IoCreateNew =>
        let f := length (d_files d) in
        mkDir (d_files d ++ [(None, false)]) (Some f) (d_vstate d) (d_dnew d) (d_dstate d) (d_pend d ++ [NsCreate f])
    | IoWriteNew st =>
        match d_vnew d with
        | Some f => mkDir (set_nth (d_files d) f (Some st, false)) (d_vnew d) (d_vstate d) (d_dnew d) (d_dstate d) (d_pend d)
        | None => d
        end
    | IoFsyncNew =>
        match d_vnew d with
        | Some f => mkDir (set_nth (d_files d) f (fst (nth f (d_files d) (None, false)), true))
                          (d_vnew d) (d_vstate d) (d_dnew d) (d_dstate d) (d_pend d)
        | None => d
        end
    | IoRenameNew =>
        match d_vnew d with
        | Some f => mkDir (d_files d) None (Some f) (d_dnew d) (d_dstate d) (d_pend d ++ [NsRename])
        | None => d
        end
    | IoDirSync => mkDir (d_files d) (d_vnew d) (d_vstate d) (d_vnew d) (d_vstate d) []
    | _ => d
    end.
  Definition dir_run (d : dirst) (l : list io) : dirst := fold_left dir_step l d.

  (** content of file [f] after a crash; [g] = 0: the bytes written, 1: nothing,
      S (S j): the bytes of the older file j (when there is one), for a file
      that was not fsynced *)
  Definition file_content (d : dirst) (g : nat) (f : nat) : sfile :=
    let written (c : option sfile) := match c with Some s => s | None => sfile_empty end in
    match nth_error (d_files d) f with
    | None => sfile_empty
    | Some (c, true) => written c
    | Some (c, false) =>
        match g with
        | O => written c
        | S O => sfile_empty
        | S (S j) => if j <? f then match nth_error (d_files d) j with
                                    | Some (c', _) => written c'
                                    | None => written c
                                    end
                     else written c
        end
    end.

  (** (state, state.new) after a crash: the first [k] pending name-space operations took effect *)
  Definition dir_crash (d : dirst) (k g : nat) : option sfile * option sfile :=
    let ns := fold_left ns_apply (firstn k (d_pend d)) (d_dnew d, d_dstate d) in
    (match snd ns with Some f => Some (file_content d g f) | None => None end,
     match fst ns with Some f => Some (file_content d g f) | None => None end).

  (** ---- the media and the crash ---- *)
  Record medium := mkMedium {
    m_data : list dwrite;          (* surviving data writes, oldest first *)
    m_index : list (nat * R);      (* surviving record writes, oldest first *)
    m_state : option sfile;        (* "state" *)
    m_new : option sfile           (* "state.new" (left over) *)
  }.
  Definition medium_empty : medium := mkMedium [] [] None None.

  Record choice := mkChoice {
    c_data : list bool;     (* one flag per PENDING data write of the prefix, in log order *)
    c_index : list bool;    (* one flag per record write of the prefix, in log order *)
    c_dirk : nat;           (* how many pending name-space operations took effect *)
    c_garb : nat            (* content of a file that was not fsynced *)
  }.

  (** the media after a crash at log prefix [l] (of a life that started on [base]) *)
  Definition crash_medium (base : medium) (l : list io) (c : choice) : medium :=
    let d := dir_run (dir_init (m_state base) (m_new base)) l in
    let '(st, nw) := dir_crash d (c_dirk c) (c_garb c) in
    mkMedium (m_data base ++ data_durable l ++ select (c_data c) (data_pending l))
             (m_index base ++ select (c_index c) (index_writes l))
             st nw.

  (** the upload whose bytes byte [z] of the block at [l] holds: the last surviving write covering it *)
  Fixpoint byte_owner (ws : list dwrite) (l : loc) (z : Z) (acc : option nat) : option nat :=
    match ws with
    | [] => acc
    | (u, l', lo, hi) :: t =>
        byte_owner t l z (if loc_eqb l' l && (lo <=? z)%Z && (z <? hi)%Z then Some u else acc)
    end.
End Medium.

Arguments IoData {R}. Arguments IoSyncBegin {R}. Arguments IoSyncEnd {R}. Arguments IoIndex {R}.
Arguments IoRemoveNew {R}. Arguments IoCreateNew {R}. Arguments IoWriteNew {R}. Arguments IoFsyncNew {R}.
Arguments IoRenameNew {R}. Arguments IoDirSync {R}.
Arguments mkMedium {R}. Arguments m_data {R}. Arguments m_index {R}. Arguments m_state {R}. Arguments m_new {R}.
Arguments medium_empty {R}.
Arguments crash_medium {R}. Arguments durable_upto {R}. Arguments pending_begin {R}. Arguments dur_scan {R}.
Arguments dur_step {R}.
Arguments data_durable {R}. Arguments data_pending {R}. Arguments data_from {R}. Arguments index_writes {R}.
Arguments slot_get {R}. Arguments dir_run {R}. Arguments dir_step {R}.
Arguments byte_owner : clear implicits.

(** ---- restart ---- *)
(** The geometry is the same across restarts: [geom l] says that [l] is one of
    the allocator's block regions.  NewPersistentBlockList on the surviving
    state file; no state file = newPersistentState() (oldest epoch id 1). *)
Definition restart (geom : loc -> bool) (st : option sfile) : pbl * nat :=
  match st with
  | None => pbl_new (fun l _ => geom l) 1 []
  | Some ((oldest, bl), _) => pbl_new (fun l _ => geom l) oldest bl
  end.

(** NewOldCurrentNewLocationBlobMap: how many of the restored blocks are cut
    off immediately (totalBlocksToBeReleased); immutable growth policy:
    blocks are promoted to "new"/"current" while current+new < desired. *)
Definition ocn_cut (old cur new restored : nat) : nat := restored - (cur + new) - old.

(** BlockDeviceBackedLocationRecordArray.Get on a restarted list, for a record
    whose reference is (epoch, bfl) and whose checksum verifies under exactly
    the seed [rseed]: block index, or invalid. *)
Definition resolve_ref (p : pbl) (cut : nat) (epoch bfl rseed : N) : option nat :=
  match ref_to_index epoch bfl p with
  | Ok (Some (i, seed)) => if (i <? cut) then None else if N.eqb seed rseed then Some i else None
  | _ => None
  end.

Definition block_loc (p : pbl) (i : nat) : option loc :=
  match nth_error (blocks p) i with Some b => Some (b_loc b) | None => None end.

(** NewBlockAtLocation: the restored allocation cursor, write offset rounded UP to a sector *)
Definition round_up (sector w : Z) : Z := ((w + sector - 1) / sector * sector)%Z.
