(** Persist/LiveTop.v — the coverage and liveness theorems for states reachable
    from NewPersistentBlockList + NewPeriodicSyncer by any schedule. *)
From Coq Require Import List NArith ZArith Bool Arith Lia.
From BBS Require Import Persist.PBL Persist.PBLProofs Persist.Syncer Persist.SyncerProofs
  Persist.LiveActs Persist.LiveCover Persist.LiveRelease Persist.LiveFair Persist.LiveEpoch.
Import ListNotations.

Theorem upload_covered_reach cfg alloc oldest init t0
    s1 k blk seed s1' abs size off p' trA s2 e2 s2' trB s3 e3 s3' trC s4 e4 s4' t :
  reachable cfg alloc oldest init t0 s1 ->
  step cfg s1 (EFinalize k blk seed) = Some (Ok s1') ->
  nth_error (s_uploads s1) k = Some (Some (PutAt abs, size)) ->
  put_finalize (PutAt abs) blk size seed (s_pbl s1) = Ok (p', FinOk off) ->
  run cfg s1' trA = Some (Ok s2) -> step cfg s2 e2 = Some (Ok s2') -> sync_starts s2 e2 = true ->
  run cfg s2' trB = Some (Ok s3) -> step cfg s3 e3 = Some (Ok s3') -> sync_completes s3 e3 = true ->
  run cfg s3' trC = Some (Ok s4) -> step cfg s4 e4 = Some (Ok s4') -> act_of s4 e4 = AGetState t ->
  let o := obj_of (s_pbl s1) p' abs (off + size) in
  let d := popsum cfg s1' trA + popsum cfg s2' trB + popsum cfg s3' trC in
  abs < totalReleased (s_pbl s4) \/
  exists st, written_state s4' t = Some st /\ covers st (abs - totalReleased (s_pbl s4)) o (o_epoch o - d).
Proof. intros R. apply upload_covered_seg. eapply reachable_linv; eauto. Qed.

Theorem release_covered_reach cfg alloc oldest init t0 s1 fb rest s1' trA s4 e4 s4' t :
  reachable cfg alloc oldest init t0 s1 ->
  blocks (s_pbl s1) = fb :: rest -> step cfg s1 EPopFront = Some (Ok s1') ->
  run cfg s1' trA = Some (Ok s4) -> no_getstate cfg s1' trA = true ->
  step cfg s4 e4 = Some (Ok s4') -> act_of s4 e4 = AGetState t ->
  In (b_loc fb) (toRelease (s_pbl s4))
  /\ totalReleased (s_pbl s1) < totalReleased (s_pbl s4)
  /\ (exists st, written_state s4' t = Some st /\
        forall j e, nth_error (snd st) j = Some e ->
          exists b, nth_error (blocks (s_pbl s4)) j = Some b /\ bs_loc e = b_loc b)
  /\ forall trB s5 e5 s5' t',
       run cfg s4' trB = Some (Ok s5) -> no_getstate cfg s4' trB = true ->
       step cfg s5 e5 = Some (Ok s5') -> act_of s5 e5 = AWritten t' ->
       t' = t /\ releasedLog (s_pbl s5') = releasedLog (s_pbl s5) ++ toRelease (s_pbl s4).
Proof.
  intros R. destruct (reachable_ainv _ _ _ _ _ _ R) as [L [_ I3]]. apply release_covered_seg; assumption.
Qed.

Theorem release_eventually_reach cfg alloc oldest init t0 s :
  reachable cfg alloc oldest init t0 s -> toRelease (s_pbl s) <> [] ->
  exists ext s', fair ext = true /\ length ext <= 10 /\ run cfg s ext = Some (Ok s')
    /\ toRelease (s_pbl s') = [] /\ releasedLog (s_pbl s') = releasedLog (s_pbl s) ++ toRelease (s_pbl s).
Proof. intros R. apply release_eventually. eapply reachable_ainv; eauto. Qed.

Theorem upload_covered_epoch_id_reach cfg alloc oldest init t0
    s1 k blk seed s1' abs size off p' trA s2 e2 s2' trB s3 e3 s3' trC s4 e4 s4' t :
  reachable cfg alloc oldest init t0 s1 ->
  step cfg s1 (EFinalize k blk seed) = Some (Ok s1') ->
  nth_error (s_uploads s1) k = Some (Some (PutAt abs, size)) ->
  put_finalize (PutAt abs) blk size seed (s_pbl s1) = Ok (p', FinOk off) ->
  run cfg s1' trA = Some (Ok s2) -> step cfg s2 e2 = Some (Ok s2') -> sync_starts s2 e2 = true ->
  run cfg s2' trB = Some (Ok s3) -> step cfg s3 e3 = Some (Ok s3') -> sync_completes s3 e3 = true ->
  run cfg s3' trC = Some (Ok s4) -> step cfg s4 e4 = Some (Ok s4') -> act_of s4 e4 = AGetState t ->
  let o := obj_of (s_pbl s1) p' abs (off + size) in
  let d := popsum cfg s1' trA + popsum cfg s2' trB + popsum cfg s3' trC in
  abs < totalReleased (s_pbl s4) \/
  exists st ref, written_state s4' t = Some st
    /\ index_to_ref (abs - totalReleased p') p' = Ok (ref, o_seed o)
    /\ d <= o_epoch o
    /\ fst ref = u32 (fst st + N.of_nat (o_epoch o - d)).
Proof. intros R. apply upload_covered_epoch_id. eapply reachable_linv; eauto. Qed.
