(** Persist/CrashAllocProofs.v — a record that resolves after a crash + restart
    (first life) resolves to the device region its upload was allocated in;
    allocation facts of the instrumented transition system of CrashLts.v.

    Proofs only; no axioms. *)
From Coq Require Import List NArith ZArith Bool Arith Lia.
From BBS Require Import Persist.PBL Persist.PBLProofs Persist.Syncer Persist.Crash Persist.CrashLts.
Import ListNotations.

Set Warnings "-abstract-large-number".

Ltac splits := repeat match goal with |- _ /\ _ => split end.
Ltac inv H := inversion H; subst; clear H.

(** ------------------------------------------------------------------ *)
(** * list helpers *)

Lemma skipn_skipn' {A} a b (l : list A) : skipn a (skipn b l) = skipn (b + a) l.
Proof.
  revert l. induction b; intros l; cbn; [reflexivity|].
  destruct l; [apply skipn_nil|]. apply IHb.
Qed.

Lemma nth_error_skipn' {A} a (l : list A) e : nth_error (skipn a l) e = nth_error l (a + e).
Proof.
  revert l. induction a; intros l; cbn; [reflexivity|].
  destruct l; [destruct e; reflexivity|]. apply IHa.
Qed.

Lemma nth_error_app_some {A} (l t : list A) j x :
  nth_error l j = Some x -> nth_error (l ++ t) j = Some x.
Proof.
  intros H. rewrite nth_error_app1; [exact H|]. apply nth_error_Some. congruence.
Qed.

Lemma nth_error_snoc {A} (l : list A) x : nth_error (l ++ [x]) (length l) = Some x.
Proof. rewrite nth_error_app2 by lia. rewrite Nat.sub_diag. reflexivity. Qed.

Lemma nth_error_nil' {A} j : nth_error (@nil A) j = None.
Proof. destruct j; reflexivity. Qed.

Lemma in_firstn_nth {A} k (l : list A) x :
  In x (firstn k l) -> exists e, e < k /\ nth_error l e = Some x.
Proof.
  revert l. induction k; intros l H; cbn in H; [contradiction|].
  destruct l as [|y l]; [contradiction|]. destruct H as [->|H].
  - exists 0. split; [lia|reflexivity].
  - destruct (IHk _ H) as [e [He Hn]]. exists (S e). split; [lia|exact Hn].
Qed.

Lemma nth_error_repeat_inv {A} (a : A) m j x : nth_error (repeat a m) j = Some x -> x = a /\ j < m.
Proof.
  intros H. split.
  - apply nth_error_In in H. eapply repeat_spec; eauto.
  - assert (j < length (repeat a m)) by (apply nth_error_Some; congruence).
    rewrite repeat_length in H0. exact H0.
Qed.

Lemma NoDup_snoc {A} (l : list A) x : NoDup l -> ~ In x l -> NoDup (l ++ [x]).
Proof.
  induction l as [|y l IH]; intros Hn Hi; cbn.
  - constructor; [intros []|constructor].
  - inv Hn. constructor.
    + rewrite in_app_iff. intros [H|[H|[]]]; [auto|]. subst. apply Hi. left; reflexivity.
    + apply IH; [assumption|]. intros H. apply Hi. right; exact H.
Qed.

Lemma NoDup_nth_eq {A} (l : list A) i j x :
  NoDup l -> nth_error l i = Some x -> nth_error l j = Some x -> i = j.
Proof.
  intros Hn Hi Hj. rewrite NoDup_nth_error in Hn. apply Hn.
  - apply nth_error_Some. congruence.
  - congruence.
Qed.

Lemma map_upd_nth {A B} (f : A -> B) (g : A -> A) l k :
  (forall x, f (g x) = f x) -> map f (upd_nth l k g) = map f l.
Proof.
  intros H. revert k. induction l as [|x l IH]; intros [|k]; cbn; auto.
  - rewrite H. reflexivity.
  - rewrite IH. reflexivity.
Qed.

Lemma upd_nth_length {A} (g : A -> A) l k : length (upd_nth l k g) = length l.
Proof. revert k. induction l as [|x l IH]; intros [|k]; cbn; auto. Qed.

Lemma nth_error_upd_nth {A} (g : A -> A) l k j :
  nth_error (upd_nth l k g) j = if Nat.eqb j k then option_map g (nth_error l j) else nth_error l j.
Proof.
  revert k j. induction l as [|x l IH]; intros k j.
  - destruct k; cbn; rewrite nth_error_nil'; destruct (Nat.eqb j _); reflexivity.
  - destruct k as [|k], j as [|j]; cbn; auto.
Qed.

Lemma slot_get_in {R} (ws : list (nat * R)) s acc r :
  slot_get ws s acc = Some r -> acc = Some r \/ exists s', In (s', r) ws.
Proof.
  revert acc. induction ws as [|[s' r'] t IH]; intros acc H; cbn in H; [left; exact H|].
  destruct (IH _ H) as [E|[s2 Hi]].
  - destruct (Nat.eqb s' s).
    + inv E. right. exists s'. left; reflexivity.
    + left; exact E.
  - right. exists s2. right; exact Hi.
Qed.

Lemma select_in {T} bs (xs : list T) x : In x (select bs xs) -> In x xs.
Proof.
  revert bs. induction xs as [|y xs IH]; intros bs H; cbn in H.
  - destruct bs; contradiction.
  - destruct bs as [|[|] bs]; [contradiction| |].
    + destruct H as [->|H]; [left; reflexivity|right; eapply IH; eauto].
    + right; eapply IH; eauto.
Qed.

Lemma index_writes_in {R} (l : list (io R)) s r : In (s, r) (index_writes l) -> In (IoIndex s r) l.
Proof.
  induction l as [|e l IH]; cbn; [auto|].
  destruct e; cbn; intros H; try (right; apply IH; exact H).
  destruct H as [E|H]; [inv E; left; reflexivity|right; apply IH; exact H].
Qed.

Lemma in_firstn {A} n (l : list A) x : In x (firstn n l) -> In x l.
Proof. intros H. rewrite <- (firstn_skipn n l). apply in_or_app. left; exact H. Qed.

(** ------------------------------------------------------------------ *)
(** * the epoch -> last block table as a function of the per-block epoch counts *)

Fixpoint elast_of (n : nat) (es : list nat) : list nat :=
  match es with
  | [] => []
  | e :: r => repeat n e ++ elast_of (S n) r
  end.

Lemma elast_bound es : forall n j x, nth_error (elast_of n es) j = Some x -> n <= x < n + length es.
Proof.
  induction es as [|e r IH]; intros n j x H; cbn in H.
  - rewrite nth_error_nil' in H. discriminate.
  - destruct (Nat.lt_ge_cases j e) as [Hlt|Hge].
    + rewrite nth_error_app1 in H by (rewrite repeat_length; exact Hlt).
      apply nth_error_repeat_inv in H. cbn. lia.
    + rewrite nth_error_app2 in H by (rewrite repeat_length; exact Hge).
      apply IH in H. cbn. lia.
Qed.

Lemma elast_sorted es : forall n j1 j2 x1 x2, j1 <= j2 ->
  nth_error (elast_of n es) j1 = Some x1 -> nth_error (elast_of n es) j2 = Some x2 -> x1 <= x2.
Proof.
  induction es as [|e r IH]; intros n j1 j2 x1 x2 Hle H1 H2; cbn in H1, H2.
  - rewrite nth_error_nil' in H1. discriminate.
  - destruct (Nat.lt_ge_cases j1 e) as [Hlt|Hge].
    + rewrite nth_error_app1 in H1 by (rewrite repeat_length; exact Hlt).
      apply nth_error_repeat_inv in H1. destruct H1 as [-> _].
      change (nth_error (elast_of n (e :: r)) j2 = Some x2) in H2. apply elast_bound in H2. lia.
    + rewrite nth_error_app2 in H1 by (rewrite repeat_length; exact Hge).
      rewrite nth_error_app2 in H2 by (rewrite repeat_length; lia).
      rewrite repeat_length in H1, H2. eapply (IH (S n) (j1 - e) (j2 - e)); eauto. lia.
Qed.

Lemma elast_app es1 es2 n : elast_of n (es1 ++ es2) = elast_of n es1 ++ elast_of (n + length es1) es2.
Proof.
  revert n. induction es1 as [|e r IH]; intros n; cbn.
  - rewrite Nat.add_0_r. reflexivity.
  - rewrite IH, <- app_assoc. replace (n + S (length r)) with (S n + length r) by lia. reflexivity.
Qed.

Fixpoint bumpl (es : list nat) : list nat :=
  match es with
  | [] => []
  | [e] => [S e]
  | e :: r => e :: bumpl r
  end.

Lemma elast_bumpl es : es <> [] -> forall n, elast_of n (bumpl es) = elast_of n es ++ [n + length es - 1].
Proof.
  induction es as [|e r IH]; [congruence|]. intros _ n. destruct r as [|e' r'].
  - cbn. rewrite !app_nil_r. replace (n + 1 - 1) with n by lia.
    change (n :: repeat n e) with (repeat n (S e)).
    replace (S e) with (e + 1) by lia. rewrite repeat_app. reflexivity.
  - change (bumpl (e :: e' :: r')) with (e :: bumpl (e' :: r')).
    cbn [elast_of]. rewrite IH by congruence. cbn [elast_of length].
    rewrite <- !app_assoc. replace (S n + S (length r') - 1) with (n + S (S (length r')) - 1) by lia.
    reflexivity.
Qed.

Lemma map_epochs_bump bs : map b_epochs (bump_last_epoch_count bs) = bumpl (map b_epochs bs).
Proof.
  induction bs as [|b r IH]; [reflexivity|]. destruct r as [|b' r']; [reflexivity|].
  change (bump_last_epoch_count (b :: b' :: r')) with (b :: bump_last_epoch_count (b' :: r')).
  cbn [map]. rewrite IH. reflexivity.
Qed.

Lemma map_loc_bump bs : map b_loc (bump_last_epoch_count bs) = map b_loc bs.
Proof.
  induction bs as [|b r IH]; [reflexivity|]. destruct r as [|b' r']; [reflexivity|].
  change (bump_last_epoch_count (b :: b' :: r')) with (b :: bump_last_epoch_count (b' :: r')).
  cbn [map]. rewrite IH. reflexivity.
Qed.

Lemma map_epochs_setw bs i w : map b_epochs (set_written bs i w) = map b_epochs bs.
Proof.
  revert i. induction bs as [|b r IH]; intros [|i]; cbn; auto.
  - destruct (b_written b <? w)%Z; reflexivity.
  - rewrite IH. reflexivity.
Qed.

Lemma map_loc_setw bs i w : map b_loc (set_written bs i w) = map b_loc bs.
Proof.
  revert i. induction bs as [|b r IH]; intros [|i]; cbn; auto.
  - destruct (b_written b <? w)%Z; reflexivity.
  - rewrite IH. reflexivity.
Qed.

(** ------------------------------------------------------------------ *)
(** * what each block-list method does to the fields the theorems talk about *)

Lemma pop_front_spec p p' : pop_front p = Ok p' ->
  exists b rest, blocks p = b :: rest /\ blocks p' = rest
    /\ b_epochs b <= length (epochSeeds p) /\ b_epochs b <= length (epochLast p)
    /\ epochSeeds p' = skipn (b_epochs b) (epochSeeds p)
    /\ epochLast p' = skipn (b_epochs b) (epochLast p)
    /\ totalReleased p' = S (totalReleased p)
    /\ toRelease p' = toRelease p ++ [b_loc b]
    /\ releasedLog p' = releasedLog p
    /\ closedForWriting p' = closedForWriting p.
Proof.
  unfold pop_front. destruct (blocks p) as [|b rest]; [discriminate|].
  destruct (nc_unblock (releaseWakeup p) (heap p)) as [[rw h1]|]; [|discriminate]. cbn [obind].
  destruct (Nat.ltb_spec (length (epochSeeds p)) (b_epochs b)); [discriminate|].
  destruct (Nat.ltb_spec (length (epochLast p)) (b_epochs b)); [discriminate|]. cbn [orb].
  match goal with |- context [if ?c then nc_block _ _ else _] => destruct c end.
  - destruct (nc_block (putWakeup p) h1) as [pw h2]. intros HH; inv HH. cbn.
    exists b, rest. splits; auto.
  - intros HH; inv HH. cbn. exists b, rest. splits; auto.
Qed.

Inductive fin_shape (p p' : pbl) (tok : put_token) (seed : N) (fr : fin_result) : Prop :=
| fs_none : p' = p -> (forall o, fr <> FinOk o) -> fin_shape p p' tok seed fr
| fs_ok abs off :
    tok = PutAt abs -> fr = FinOk off ->
    totalReleased p <= abs -> abs - totalReleased p < length (blocks p) ->
    totalReleased p' = totalReleased p -> toRelease p' = toRelease p ->
    releasedLog p' = releasedLog p ->
    map b_loc (blocks p') = map b_loc (blocks p) ->
    ( (epochSeeds p' = epochSeeds p /\ epochLast p' = epochLast p
       /\ map b_epochs (blocks p') = map b_epochs (blocks p)
       /\ exists n' la, length (epochLast p) = S n' /\ nth_error (epochLast p) n' = Some la /\ abs <= la)
      \/
      (epochSeeds p' = epochSeeds p ++ [seed]
       /\ epochLast p' = epochLast p ++ [totalReleased p + length (blocks p) - 1]
       /\ map b_epochs (blocks p') = bumpl (map b_epochs (blocks p))) ) ->
    closedForWriting p' = closedForWriting p ->
    fin_shape p p' tok seed fr.

Lemma put_finalize_spec tok blk size seed p p' fr :
  put_finalize tok blk size seed p = Ok (p', fr) -> fin_shape p p' tok seed fr.
Proof.
  unfold put_finalize.
  destruct tok as [|abs]; [intros HH; inv HH; apply fs_none; [reflexivity|discriminate]|].
  destruct blk as [off|]; [|intros HH; inv HH; apply fs_none; [reflexivity|discriminate]].
  destruct (closedForWriting p) eqn:Ec; [intros HH; inv HH; apply fs_none; [reflexivity|discriminate]|].
  destruct (Nat.ltb_spec abs (totalReleased p)); [intros HH; inv HH; apply fs_none; [reflexivity|discriminate]|].
  destruct (Nat.leb_spec (length (blocks p)) (abs - totalReleased p)); [discriminate|].
  set (bl1 := set_written (blocks p) (abs - totalReleased p) (off + size)%Z).
  assert (Hl1 : length bl1 = length (blocks p)) by apply set_written_length.
  intros HH.
  assert (Hbump : forall pw h1, 
     fin_shape p (mkPbl (closedForWriting p) (bump_last_epoch_count bl1) (epochSeeds p ++ [seed])
             (epochLast p ++ [totalReleased p + length bl1 - 1]) (totalReleased p) (oldestEpochID p)
             (synchronizingEpochs p) (synchronizedEpochs p) pw (toRelease p) (releasing p)
             (releaseWakeup p) h1 (releasedLog p)) (PutAt abs) seed (FinOk off)).
  { intros pw h1. eapply fs_ok; try reflexivity; cbn; auto.
    - rewrite map_loc_bump. apply map_loc_setw.
    - right. splits; auto.
      + rewrite Hl1. reflexivity.
      + rewrite map_epochs_bump. unfold bl1. rewrite map_epochs_setw. reflexivity. }
  rewrite Ec in Hbump.
  destruct (Nat.eqb_spec (length (epochLast p)) (synchronizingEpochs p)).
  - cbn [obind] in HH. destruct (nc_unblock (putWakeup p) (heap p)) as [[pw h1]|]; [|discriminate].
    cbn [obind] in HH. inv HH. apply Hbump.
  - destruct (length (epochLast p)) as [|n'] eqn:El; [discriminate|].
    destruct (nth_error (epochLast p) n') as [la|] eqn:En; [|discriminate].
    cbn [obind] in HH. destruct (Nat.ltb_spec la abs).
    + destruct (nc_unblock (putWakeup p) (heap p)) as [[pw h1]|]; [|discriminate].
      cbn [obind] in HH. inv HH. apply Hbump.
    + inv HH. eapply fs_ok; try reflexivity; cbn; auto.
      * apply map_loc_setw.
      * left. splits; auto. { apply map_epochs_setw. } exists n', la. splits; auto.
Qed.

(** the steps of the two syncer threads change nothing the theorems look at,
    except handing a prefix of [toRelease] to [releasedLog] *)
Definition pbl_same (p p' : pbl) : Prop :=
  map b_loc (blocks p') = map b_loc (blocks p) /\
  map b_epochs (blocks p') = map b_epochs (blocks p) /\
  epochSeeds p' = epochSeeds p /\ epochLast p' = epochLast p /\
  totalReleased p' = totalReleased p /\
  (closedForWriting p = true -> closedForWriting p' = true) /\
  exists rel, releasedLog p' = releasedLog p ++ rel /\ toRelease p = rel ++ toRelease p'.

Lemma pbl_same_refl p : pbl_same p p.
Proof. unfold pbl_same. splits; auto. exists []. rewrite app_nil_r. auto. Qed.

Lemma pbl_same_trans p1 p2 p3 : pbl_same p1 p2 -> pbl_same p2 p3 -> pbl_same p1 p3.
Proof.
  intros (A1 & A2 & A3 & A4 & A5 & Ac & r1 & A6 & A7) (B1 & B2 & B3 & B4 & B5 & Bc & r2 & B6 & B7).
  unfold pbl_same. splits; try congruence; auto.
  exists (r1 ++ r2). rewrite B6, A6, A7, B7, !app_assoc. auto.
Qed.

Lemma pbl_same_fields p p' :
  blocks p' = blocks p -> epochSeeds p' = epochSeeds p -> epochLast p' = epochLast p ->
  totalReleased p' = totalReleased p -> releasedLog p' = releasedLog p -> toRelease p' = toRelease p ->
  closedForWriting p' = closedForWriting p ->
  pbl_same p p'.
Proof.
  intros H1 H2 H3 H4 H5 H6 H7. unfold pbl_same. rewrite H1, H2, H3, H4, H5, H6, H7. splits; auto.
  exists []. rewrite app_nil_r. auto.
Qed.

Lemma nss_same f p : pbl_same p (notify_sync_starting f p).
Proof.
  unfold pbl_same. cbn. rewrite !map_map. cbn. splits; auto.
  - intros ->. destruct f; reflexivity.
  - exists []. rewrite app_nil_r. auto.
Qed.

Lemma nsc_same p : pbl_same p (notify_sync_completed p).
Proof.
  unfold notify_sync_completed.
  destruct (if synchronizingEpochs p =? length (epochSeeds p) then nc_block (putWakeup p) (heap p)
            else (putWakeup p, heap p)) as [pw h1].
  unfold pbl_same. cbn. rewrite !map_map. cbn. splits; auto.
  exists []. rewrite app_nil_r. auto.
Qed.

Lemma gps_same p p' st : get_persistent_state p = Ok (p', st) -> pbl_same p p'.
Proof.
  unfold get_persistent_state. destruct (gps_loop _ _ _ _); [|discriminate]. cbn.
  intros H; inv H. apply pbl_same_fields; reflexivity.
Qed.

Lemma nsw_same p p' : notify_state_written p = Ok p' -> pbl_same p p'.
Proof.
  unfold notify_state_written. destruct (_ <? _); [discriminate|].
  assert (E := firstn_skipn (releasing p) (toRelease p)).
  destruct (skipn (releasing p) (toRelease p)) as [|x rest];
    [destruct (nc_block _ _) as [rw h1]|]; intros H; inv H;
    unfold pbl_same; cbn; splits; auto; eexists; split; [reflexivity|symmetry; exact E|reflexivity|symmetry; exact E].
Qed.

Lemma wstep_effect cfg me w a s s' w' : wstep cfg me w a s = Some (Ok (s', w')) ->
  s_uploads s' = s_uploads s /\ s_r s' = s_r s /\ s_p s' = s_p s /\ pbl_same (s_pbl s) (s_pbl s') /\
  (forall st, w' = Some (WWriting st) -> exists p1, get_persistent_state (s_pbl s) = Ok (p1, st)).
Proof.
  unfold wstep. destruct w.
  - destruct (s_store s); [discriminate|]. intros H; inv H. cbn. splits; auto.
    + apply pbl_same_refl. + discriminate.
  - destruct (get_persistent_state (s_pbl s)) as [[p1 st1]|] eqn:Eg; [|discriminate].
    intros H; inv H. cbn. splits; auto.
    + eapply gps_same; eauto.
    + intros st E. inv E. eauto.
  - destruct (a_ok a); intros H; inv H; cbn; splits; auto; try apply pbl_same_refl; discriminate.
  - destruct (notify_state_written (s_pbl s)) as [p1|] eqn:En; [|discriminate].
    intros H; inv H. cbn. splits; auto.
    + eapply nsw_same; eauto. + discriminate.
  - destruct (_ <=? _)%N; [|discriminate]. intros H; inv H. splits; auto.
    + apply pbl_same_refl. + discriminate.
Qed.

Lemma estep_effect cfg s t a s' : step cfg s (EStep t a) = Some (Ok s') ->
  s_uploads s' = s_uploads s /\ pbl_same (s_pbl s) (s_pbl s') /\
  (forall st, s_r s' = RW (WWriting st) ->
     s_r s = RW (WWriting st) \/ exists p1, get_persistent_state (s_pbl s) = Ok (p1, st)) /\
  (forall keep st, s_p s' = PW keep (WWriting st) ->
     s_p s = PW keep (WWriting st) \/ exists p1, get_persistent_state (s_pbl s) = Ok (p1, st)).
Proof.
  destruct t; cbn [step].
  - unfold rstep. destruct (s_r s) as [|ch|w] eqn:Er.
    + intros H; inv H. cbn. splits; auto; [apply pbl_same_refl|discriminate].
    + destruct (is_closed _ _); [|discriminate]. intros H; inv H. cbn.
      splits; auto; [apply pbl_same_refl|discriminate].
    + destruct (wstep cfg TR w a s) as [[[s1 [w1|]]|]|] eqn:Ew; try discriminate.
      * destruct (wstep_effect _ _ _ _ _ _ _ Ew) as (U & R & P & S & G).
        intros H; inv H. cbn. splits; auto.
        -- intros st E. inv E. right. apply G. reflexivity.
        -- intros keep st E. left. congruence.
      * destruct (wstep_effect _ _ _ _ _ _ _ Ew) as (U & R & P & S & G).
        intros H; inv H. cbn. splits; auto.
        -- discriminate.
        -- intros keep st E. left. congruence.
  - unfold pstep. destruct (s_p s) as [|ch|ch|dl|keep|keep final|keep final|keep final dl|keep w|] eqn:Ep.
    + intros H; inv H. cbn. splits; auto; [apply pbl_same_refl|discriminate].
    + destruct (is_closed _ _); intros H; inv H; cbn; splits; auto; try apply pbl_same_refl; discriminate.
    + destruct (s_cancel s && _); [|destruct (is_closed _ _); [|discriminate]];
        intros H; inv H; cbn; splits; auto; try apply pbl_same_refl; discriminate.
    + destruct (s_cancel s && _); [|destruct (_ && _)%bool; [|discriminate]];
        intros H; inv H; cbn; splits; auto; try apply pbl_same_refl; discriminate.
    + intros H; inv H. cbn. splits; auto; [apply nss_same|discriminate].
    + destruct (a_ok a); intros H; inv H; cbn; splits; auto; try apply pbl_same_refl; discriminate.
    + destruct (negb keep && negb final); intros H; inv H; cbn; splits; auto; try discriminate.
      * eapply pbl_same_trans; [apply nsc_same|apply nss_same].
      * apply nsc_same.
    + destruct (_ <=? _)%N; [|discriminate]. intros H; inv H. cbn.
      splits; auto; [apply pbl_same_refl|discriminate].
    + destruct (wstep cfg TP w a s) as [[[s1 [w1|]]|]|] eqn:Ew; try discriminate.
      * destruct (wstep_effect _ _ _ _ _ _ _ Ew) as (U & R & P & S & G).
        intros H; inv H. cbn. splits; auto.
        -- intros st E. left. congruence.
        -- intros keep' st E. inv E. right. apply G. reflexivity.
      * destruct (wstep_effect _ _ _ _ _ _ _ Ew) as (U & R & P & S & G).
        intros H; inv H. cbn. splits; auto.
        -- intros st E. left. congruence.
        -- destruct keep; discriminate.
    + discriminate.
Qed.

(** ------------------------------------------------------------------ *)
(** * GetPersistentState, NewPersistentBlockList, the reference codec *)

Lemma gps_loop_spec bs : forall lastE synced seeds r n (pre : list nat),
  gps_loop bs lastE synced seeds = Ok r -> length pre = lastE ->
  forall q b, nth_error r q = Some b ->
    exists b0, nth_error bs q = Some b0 /\ bs_loc b = b_loc b0 /\
      forall sd, In sd (bs_seeds b) ->
        exists e, nth_error seeds e = Some sd /\
                  nth_error (pre ++ elast_of n (map b_epochs bs)) e = Some (n + q).
Proof.
  induction bs as [|b0 bs IH]; intros lastE synced seeds r n pre H Hpre q b Hq; cbn [gps_loop] in H.
  - destruct (lastE <? synced); [discriminate|]. inv H. rewrite nth_error_nil' in Hq. discriminate.
  - destruct (Nat.ltb_spec lastE synced) as [Hlt|Hge]; [|inv H; rewrite nth_error_nil' in Hq; discriminate].
    destruct (length seeds <? Nat.min (lastE + b_epochs b0) synced); [discriminate|].
    destruct (gps_loop bs (Nat.min (lastE + b_epochs b0) synced) synced seeds) as [r'|] eqn:Er; [|discriminate].
    cbn [obind] in H. inv H. destruct q as [|q].
    + cbn in Hq. inv Hq. exists b0. cbn. splits; auto.
      intros sd Hin. apply in_firstn_nth in Hin. destruct Hin as [e [He Hn]].
      rewrite nth_error_skipn' in Hn. exists (length pre + e). split; [exact Hn|].
      rewrite nth_error_app2 by lia. replace (length pre + e - length pre) with e by lia.
      rewrite nth_error_app1 by (rewrite repeat_length; lia).
      rewrite nth_error_repeat by lia. f_equal. lia.
    + cbn in Hq. destruct (Nat.le_gt_cases (length pre + b_epochs b0) synced) as [Hle|Hgt].
      * rewrite Nat.min_l in Er by exact Hle.
        destruct (IH _ _ _ _ (S n) (pre ++ repeat n (b_epochs b0)) Er) with (q := q) (b := b) as [b1 [Hb1 [Hl Hs]]].
        { rewrite app_length, repeat_length. reflexivity. }
        { exact Hq. }
        exists b1. cbn. splits; auto. intros sd Hin. destruct (Hs sd Hin) as [e [He1 He2]].
        exists e. split; [exact He1|]. rewrite <- app_assoc in He2. rewrite He2. f_equal. lia.
      * rewrite Nat.min_r in Er by lia. destruct bs; cbn [gps_loop] in Er;
          rewrite Nat.ltb_irrefl in Er; inv Er; rewrite nth_error_nil' in Hq; discriminate.
Qed.

Lemma gps_spec p p1 st : get_persistent_state p = Ok (p1, st) ->
  forall q b, nth_error (snd st) q = Some b ->
    nth_error (map b_loc (blocks p)) q = Some (bs_loc b) /\
    forall sd, In sd (bs_seeds b) ->
      exists e, nth_error (epochSeeds p) e = Some sd /\
                nth_error (elast_of (totalReleased p) (map b_epochs (blocks p))) e = Some (totalReleased p + q).
Proof.
  unfold get_persistent_state.
  destruct (gps_loop (blocks p) 0 (synchronizedEpochs p) (epochSeeds p)) as [bl|] eqn:E; [|discriminate].
  cbn [obind]. intros H; inv H. cbn [snd]. intros q b Hq.
  destruct (gps_loop_spec _ _ _ _ _ (totalReleased p) [] E eq_refl q b Hq) as [b0 [Hb0 [Hl Hs]]].
  split; [|exact Hs]. rewrite nth_error_map, Hb0. cbn. congruence.
Qed.

Lemma restore_spec alloc init : forall n bl seeds lasts,
  restore_blocks alloc init n = (bl, seeds, lasts) ->
  forall e sd, nth_error seeds e = Some sd ->
    exists q b, nth_error lasts e = Some (n + q) /\ nth_error init q = Some b /\ In sd (bs_seeds b)
      /\ option_map b_loc (nth_error bl q) = Some (bs_loc b).
Proof.
  induction init as [|bs rest IH]; intros n bl seeds lasts H e sd He; cbn in H.
  - inv H. rewrite nth_error_nil' in He. discriminate.
  - destruct (alloc (bs_loc bs) (bs_off bs)); [|inv H; rewrite nth_error_nil' in He; discriminate].
    destruct (restore_blocks alloc rest (S n)) as [[bl' seeds'] lasts'] eqn:E. inv H.
    destruct (Nat.lt_ge_cases e (length (bs_seeds bs))) as [Hlt|Hge].
    + rewrite nth_error_app1 in He by exact Hlt. exists 0, bs. splits; auto.
      * rewrite nth_error_app1 by (rewrite repeat_length; exact Hlt).
        rewrite nth_error_repeat by exact Hlt. f_equal. lia.
      * eapply nth_error_In; eauto.
    + rewrite nth_error_app2 in He by exact Hge.
      destruct (IH _ _ _ _ E _ _ He) as [q [b [H1 [H2 [H3 H4]]]]].
      exists (S q), b. splits; auto.
      rewrite nth_error_app2 by (rewrite repeat_length; exact Hge).
      rewrite repeat_length, H1. f_equal. lia.
Qed.

(** the fields of a freshly restored list *)
Lemma pbl_new_fields alloc oldest init :
  let p := fst (pbl_new alloc oldest init) in
  totalReleased p = 0 /\
  forall bl seeds lasts, restore_blocks alloc init 0 = (bl, seeds, lasts) ->
    blocks p = bl /\ epochSeeds p = seeds /\ epochLast p = lasts.
Proof.
  unfold pbl_new. destruct (restore_blocks alloc init 0) as [[bl seeds] lasts]. cbn.
  split; [reflexivity|]. intros ? ? ? H; inv H. auto.
Qed.

Lemma ref_to_index_spec ep bfl p i seed : ref_to_index ep bfl p = Ok (Some (i, seed)) ->
  exists e la, nth_error (epochLast p) e = Some la /\ nth_error (epochSeeds p) e = Some seed /\
    (Z.of_N bfl <= Z.of_nat la - Z.of_nat (totalReleased p))%Z /\
    i = Z.to_nat (Z.of_nat la - Z.of_nat (totalReleased p) - Z.of_N bfl).
Proof.
  unfold ref_to_index. destruct (_ <=? _)%N; [discriminate|].
  set (e := N.to_nat _).
  destruct (nth_error (epochLast p) e) as [la|] eqn:E1; [|discriminate].
  destruct (nth_error (epochSeeds p) e) as [sd|] eqn:E2; [|discriminate].
  destruct (Z.ltb_spec (Z.of_nat la - Z.of_nat (totalReleased p)) (Z.of_N bfl)); [discriminate|].
  intros H0; inv H0. exists e, la. splits; auto.
Qed.

Lemma index_to_ref_spec i p ep bfl seed : index_to_ref i p = Ok ((ep, bfl), seed) ->
  exists le la, length (epochSeeds p) = S le /\ nth_error (epochLast p) le = Some la /\
    nth_error (epochSeeds p) le = Some seed /\
    bfl = u16z (Z.of_nat la - Z.of_nat (totalReleased p) - Z.of_nat i).
Proof.
  unfold index_to_ref. destruct (length (epochSeeds p)) as [|le] eqn:El; [discriminate|].
  destruct (nth_error (epochLast p) le) as [la|] eqn:E1; [|discriminate].
  destruct (nth_error (epochSeeds p) le) as [sd|] eqn:E2; [|discriminate].
  intros H; inv H. exists le, la. splits; auto.
Qed.

Lemma small_nat_Z n : n < 65536 -> (Z.of_nat n < 65536)%Z.
Proof.
  intros H. apply Nat2Z.inj_lt in H.
  replace (Z.of_nat 65536) with 65536%Z in H by (vm_compute; reflexivity). exact H.
Qed.

Lemma u16z_small z : (0 <= z < 65536)%Z -> Z.of_N (u16z z) = z.
Proof.
  intros H. unfold u16z. change (2 ^ 16)%Z with 65536%Z.
  rewrite Z.mod_small by exact H. apply Z2N.id. lia.
Qed.

(** ------------------------------------------------------------------ *)
(** * what the log entries mean in terms of the (append-only) ghost tables *)

(** seeds [sd], per-seed last absolute block [el], per-upload absolute block [ab],
    absolute block -> region [lc] *)
Definition rec_ok (sd : list N) (el ab : list nat) (r : irec) : Prop :=
  exists j e a, nth_error sd j = Some (r_seed r) /\ nth_error el j = Some e /\
    nth_error ab (r_up r) = Some a /\ (Z.of_nat e - Z.of_N (r_bfl r) = Z.of_nat a)%Z.

Definition st_ok (sd : list N) (el : list nat) (lc : list loc) (st : pstate) : Prop :=
  exists kst, forall q b, nth_error (snd st) q = Some b ->
    nth_error lc (kst + q) = Some (bs_loc b) /\
    forall s0, In s0 (bs_seeds b) -> exists j, nth_error sd j = Some s0 /\ nth_error el j = Some (kst + q).

Definition io_ok sd el ab lc (e : io irec) : Prop :=
  match e with
  | IoIndex _ r => rec_ok sd el ab r
  | IoWriteNew (st, _) => st_ok sd el lc st
  | _ => True
  end.

Lemma rec_ok_mono sd el ab sd' el' ab' r :
  rec_ok sd el ab r -> rec_ok (sd ++ sd') (el ++ el') (ab ++ ab') r.
Proof.
  intros (j & e & a & H1 & H2 & H3 & H4). exists j, e, a.
  splits; auto using nth_error_app_some.
Qed.

Lemma st_ok_mono sd el lc sd' el' lc' st :
  st_ok sd el lc st -> st_ok (sd ++ sd') (el ++ el') (lc ++ lc') st.
Proof.
  intros [kst H]. exists kst. intros q b Hq. destruct (H q b Hq) as [H1 H2].
  split; [apply nth_error_app_some; exact H1|].
  intros s0 Hs. destruct (H2 s0 Hs) as [j [A B]]. exists j. split; apply nth_error_app_some; assumption.
Qed.

Lemma io_ok_mono sd el ab lc sd' el' ab' lc' e :
  io_ok sd el ab lc e -> io_ok (sd ++ sd') (el ++ el') (ab ++ ab') (lc ++ lc') e.
Proof.
  destruct e; cbn; auto.
  - apply rec_ok_mono.
  - destruct st. apply st_ok_mono.
Qed.

Lemma Forall_io_mono sd el ab lc sd' el' ab' lc' l :
  Forall (io_ok sd el ab lc) l -> Forall (io_ok (sd ++ sd') (el ++ el') (ab ++ ab') (lc ++ lc')) l.
Proof. intros H. eapply Forall_impl; [|exact H]. intros e. apply io_ok_mono. Qed.

Definition tbl_ok sd el ab (t : list (nat * irec)) : Prop := Forall (fun e => rec_ok sd el ab (snd e)) t.

Lemma tbl_ok_mono sd el ab sd' el' ab' t :
  tbl_ok sd el ab t -> tbl_ok (sd ++ sd') (el ++ el') (ab ++ ab') t.
Proof. intros H. eapply Forall_impl; [|exact H]. intros e. apply rec_ok_mono. Qed.

(** ---- the relation between the block list and the ghost tables ---- *)
Record ginv (p : pbl) (sd : list N) (el : list nat) : Prop := mkGinv {
  gi_si : epochLast p = elast_of (totalReleased p) (map b_epochs (blocks p));
  gi_k : exists k, k <= length sd /\ epochSeeds p = skipn k sd /\ epochLast p = skipn k el;
  gi_len : length el = length sd;
  gi_nodup : NoDup sd
}.

Lemma ginv_same p p' sd el : pbl_same p p' -> ginv p sd el -> ginv p' sd el.
Proof.
  intros (A1 & A2 & A3 & A4 & A5 & _) [G1 G2 G3 G4]. constructor; auto.
  - rewrite A4, A5, A2. exact G1.
  - rewrite A3, A4. exact G2.
Qed.

(** a record made by [mk_rec] for relative block [i] designates absolute block [totalReleased + i] *)
Lemma mk_rec_ok p sd el ab i key off size up r a :
  ginv p sd el -> (Z.of_nat (length (blocks p)) < 65536)%Z ->
  mk_rec p i key off size up = Some r ->
  nth_error ab up = Some a -> a = totalReleased p + i ->
  (forall n' la, length (epochLast p) = S n' -> nth_error (epochLast p) n' = Some la -> a <= la) ->
  rec_ok sd el ab r.
Proof.
  intros [G1 [k [Gk [G2 G3]]] G4 G5] Hsmall Hm Ha Hai Hlast. unfold mk_rec in Hm.
  destruct (index_to_ref i p) as [[[ep bfl] seed]|] eqn:Ei; [|discriminate]. inv Hm.
  apply index_to_ref_spec in Ei. destruct Ei as (le & la & E1 & E2 & E3 & E4).
  assert (Hll : length (epochLast p) = S le).
  { rewrite G3, skipn_length, G4, <- (skipn_length k sd), <- G2. exact E1. }
  pose proof (Hlast _ _ Hll E2) as Hle.
  assert (Hb : totalReleased p <= la < totalReleased p + length (blocks p)).
  { rewrite G1 in E2. apply elast_bound in E2. rewrite map_length in E2. exact E2. }
  exists (k + le), la, (totalReleased p + i). cbn. splits.
  - rewrite <- nth_error_skipn', <- G2. exact E3.
  - rewrite <- nth_error_skipn', <- G3. exact E2.
  - exact Ha.
  - rewrite E4, u16z_small; lia.
Qed.

(** a record that is live in [p] designates the block it resolves to *)
Lemma live_index_abs p sd el ab r0 i :
  ginv p sd el -> rec_ok sd el ab r0 -> live_index p r0 = Some i ->
  exists a0, nth_error ab (r_up r0) = Some a0 /\ a0 = totalReleased p + i /\
    (forall n' la, length (epochLast p) = S n' -> nth_error (epochLast p) n' = Some la -> a0 <= la).
Proof.
  intros [G1 [k [Gk [G2 G3]]] G4 G5] (j & e & a & R1 & R2 & R3 & R4) Hl.
  unfold live_index, resolve_ref in Hl.
  destruct (ref_to_index (r_epoch r0) (r_bfl r0) p) as [[[i' seed]|]|] eqn:Er; try discriminate.
  cbn in Hl. destruct (N.eqb_spec seed (r_seed r0)) as [Es|]; [|discriminate]. inv Hl.
  apply ref_to_index_spec in Er. destruct Er as (ei & la & E1 & E2 & E3 & E4).
  assert (j = k + ei).
  { eapply NoDup_nth_eq; eauto. rewrite <- nth_error_skipn', <- G2. exact E2. }
  subst j. assert (e = la).
  { rewrite <- nth_error_skipn', <- G3, E1 in R2. congruence. }
  subst e. exists a. splits; auto.
  - lia.
  - intros n' la' Hlen Hla. assert (la <= la'); [|lia].
    assert (ei < length (epochLast p)) by (apply nth_error_Some; congruence).
    rewrite G1 in E1, Hla. eapply elast_sorted; [|exact E1|exact Hla]. lia.
Qed.

Lemma do_writes_ok p sd el ab lc k u ws :
  ginv p sd el -> (Z.of_nat (length (blocks p)) < 65536)%Z ->
  nth_error ab k = Some (up_abs u) ->
  (forall n' la, length (epochLast p) = S n' -> nth_error (epochLast p) n' = Some la -> up_abs u <= la) ->
  forall log tbl log' tbl', do_writes p k u ws log tbl = Some (log', tbl') ->
    Forall (io_ok sd el ab lc) log -> tbl_ok sd el ab tbl ->
    Forall (io_ok sd el ab lc) log' /\ tbl_ok sd el ab tbl'.
Proof.
  intros G Hsmall Hk Hlast. induction ws as [|w ws IH]; intros log tbl log' tbl' H Hlog Htbl; cbn [do_writes] in H.
  - inv H. auto.
  - destruct w as [slot|from to].
    + destruct (Nat.ltb_spec (up_abs u) (totalReleased p)); [discriminate|].
      destruct (mk_rec p (up_abs u - totalReleased p) (up_key u) (up_off u) (up_size u) k) as [r|] eqn:Em;
        [|discriminate].
      assert (rec_ok sd el ab r) as Hr.
      { eapply mk_rec_ok; eauto. lia. }
      eapply IH; eauto.
      * apply Forall_app. split; [exact Hlog|]. constructor; [exact Hr|constructor].
      * apply Forall_app. split; [exact Htbl|]. constructor; [exact Hr|constructor].
    + destruct (slot_get tbl from None) as [r0|] eqn:Es; [|discriminate].
      destruct (live_index p r0) as [i|] eqn:El; [|discriminate].
      destruct (mk_rec p i (r_key r0) (r_off r0) (r_size r0) (r_up r0)) as [r|] eqn:Em; [|discriminate].
      assert (rec_ok sd el ab r0) as Hr0.
      { apply slot_get_in in Es. destruct Es as [Es|[s' Hin]]; [discriminate|].
        unfold tbl_ok in Htbl. rewrite Forall_forall in Htbl. apply (Htbl _ Hin). }
      destruct (live_index_abs _ _ _ _ _ _ G Hr0 El) as (a0 & A1 & A2 & A3).
      assert (rec_ok sd el ab r) as Hr.
      { eapply mk_rec_ok; eauto. }
      eapply IH; eauto.
      * apply Forall_app. split; [exact Hlog|]. constructor; [exact Hr|constructor].
      * apply Forall_app. split; [exact Htbl|]. constructor; [exact Hr|constructor].
Qed.

(** ------------------------------------------------------------------ *)
(** * the invariant of the instrumented transition system *)

Definition abss (c : cst) : list nat := map up_abs (cs_ups c).

Definition tok_rel (a : nat) (u : option (put_token * Z)) : Prop :=
  match u with Some (PutAt abs, _) => abs = a | _ => True end.

Record cinv (g : geo) (c : cst) : Prop := mkCinv {
  ci_g : ginv (s_pbl (cs_sys c)) (cs_seeds c) (cs_elast c);
  ci_locs : map b_loc (blocks (s_pbl (cs_sys c))) = skipn (totalReleased (s_pbl (cs_sys c))) (cs_locs c);
  ci_ext : totalReleased (s_pbl (cs_sys c)) + length (blocks (s_pbl (cs_sys c))) = length (cs_locs c);
  ci_count : length (blocks (s_pbl (cs_sys c))) + length (toRelease (s_pbl (cs_sys c)))
             + length (cs_free c) + length (cs_held c) = length (g_locs g);
  ci_tok : Forall2 tok_rel (abss c) (s_uploads (cs_sys c));
  ci_log : Forall (io_ok (cs_seeds c) (cs_elast c) (abss c) (cs_locs c)) (cs_log c);
  ci_tbl : tbl_ok (cs_seeds c) (cs_elast c) (abss c) (cs_tbl c);
  ci_wr : forall st, s_r (cs_sys c) = RW (WWriting st) -> st_ok (cs_seeds c) (cs_elast c) (cs_locs c) st;
  ci_wp : forall keep st, s_p (cs_sys c) = PW keep (WWriting st) -> st_ok (cs_seeds c) (cs_elast c) (cs_locs c) st
}.

Lemma sys_step_inv cfg c e c' : sys_step cfg c e = Some c' ->
  exists s', step cfg (cs_sys c) e = Some (Ok s') /\ c' = with_sys c s'.
Proof.
  unfold sys_step. destruct (step cfg (cs_sys c) e) as [[s'|]|]; try discriminate.
  intros H; inv H. eauto.
Qed.

Lemma Forall2_nth {A B} (R : A -> B -> Prop) l1 l2 k a b :
  Forall2 R l1 l2 -> nth_error l1 k = Some a -> nth_error l2 k = Some b -> R a b.
Proof.
  intros F. revert k. induction F as [|x y l1 l2 Hxy F IH]; intros [|k] H1 H2; cbn in *; try discriminate.
  - inv H1. inv H2. exact Hxy.
  - eapply IH; eauto.
Qed.

Lemma Forall2_clear_nth l1 l2 k : Forall2 tok_rel l1 l2 -> Forall2 tok_rel l1 (clear_nth l2 k).
Proof.
  intros F. revert k. induction F as [|x y l1 l2 Hxy F IH]; intros [|k]; cbn; constructor; auto.
  exact I.
Qed.

Lemma io_mono_lc sd el ab lc lc' l :
  Forall (io_ok sd el ab lc) l -> Forall (io_ok sd el ab (lc ++ lc')) l.
Proof.
  intros H. pose proof (Forall_io_mono sd el ab lc [] [] [] lc' l H) as H'.
  rewrite !app_nil_r in H'. exact H'.
Qed.

Lemma io_mono_ab sd el ab lc ab' l :
  Forall (io_ok sd el ab lc) l -> Forall (io_ok sd el (ab ++ ab') lc) l.
Proof.
  intros H. pose proof (Forall_io_mono sd el ab lc [] [] ab' [] l H) as H'.
  rewrite !app_nil_r in H'. exact H'.
Qed.

Lemma io_mono_sd sd el ab lc sd' el' l :
  Forall (io_ok sd el ab lc) l -> Forall (io_ok (sd ++ sd') (el ++ el') ab lc) l.
Proof.
  intros H. pose proof (Forall_io_mono sd el ab lc sd' el' [] [] l H) as H'.
  rewrite !app_nil_r in H'. exact H'.
Qed.

Lemma tbl_mono_ab sd el ab ab' t : tbl_ok sd el ab t -> tbl_ok sd el (ab ++ ab') t.
Proof.
  intros H. pose proof (tbl_ok_mono sd el ab [] [] ab' t H) as H'. rewrite !app_nil_r in H'. exact H'.
Qed.

Lemma tbl_mono_sd sd el ab sd' el' t : tbl_ok sd el ab t -> tbl_ok (sd ++ sd') (el ++ el') ab t.
Proof.
  intros H. pose proof (tbl_ok_mono sd el ab sd' el' [] t H) as H'. rewrite !app_nil_r in H'. exact H'.
Qed.

Lemma st_mono_lc sd el lc lc' st : st_ok sd el lc st -> st_ok sd el (lc ++ lc') st.
Proof.
  intros H. pose proof (st_ok_mono sd el lc [] [] lc' st H) as H'. rewrite !app_nil_r in H'. exact H'.
Qed.

Lemma st_mono_sd sd el lc sd' el' st : st_ok sd el lc st -> st_ok (sd ++ sd') (el ++ el') lc st.
Proof.
  intros H. pose proof (st_ok_mono sd el lc sd' el' [] st H) as H'. rewrite !app_nil_r in H'. exact H'.
Qed.

Lemma loc_eqb_sym a b : loc_eqb a b = loc_eqb b a.
Proof. unfold loc_eqb. rewrite (Z.eqb_sym (fst a)), (Z.eqb_sym (snd a)). reflexivity. Qed.

Lemma remove_loc_length held l : existsb (loc_eqb l) held = true -> S (length (remove_loc held l)) = length held.
Proof.
  induction held as [|y t IH]; cbn; [discriminate|].
  rewrite (loc_eqb_sym y l). destruct (loc_eqb l y); cbn; [reflexivity|]. intros H. rewrite IH; auto.
Qed.

Lemma release_regions_length locs ups rel : forall free held fr hd,
  release_regions locs ups rel free held = (fr, hd) ->
  length fr + length hd = length free + length held + length rel.
Proof.
  induction rel as [|l t IH]; intros free held fr hd H; cbn in H.
  - inv H. cbn. lia.
  - destruct (writer_open_on locs ups l); apply IH in H; rewrite app_length in H; cbn in *; lia.
Qed.

Lemma gps_st_ok p sd el lc p1 st :
  ginv p sd el -> map b_loc (blocks p) = skipn (totalReleased p) lc ->
  get_persistent_state p = Ok (p1, st) -> st_ok sd el lc st.
Proof.
  intros [G1 [k [Gk [G2 G3]]] G4 G5] Hl Hg. exists (totalReleased p). intros q b Hq.
  destruct (gps_spec _ _ _ Hg q b Hq) as [H1 H2]. split.
  - rewrite Hl, nth_error_skipn' in H1. exact H1.
  - intros s0 Hs. destruct (H2 s0 Hs) as [e [E1 E2]]. exists (k + e). split.
    + rewrite <- nth_error_skipn', <- G2. exact E1.
    + rewrite <- nth_error_skipn', <- G3, G1. exact E2.
Qed.

Lemma ginv_push p sd el l : ginv p sd el -> ginv (set_blocks p (blocks p ++ [mkBinfo l 0 0 0 0])) sd el.
Proof.
  intros [G1 G2 G3 G4]. constructor; cbn; auto.
  rewrite map_app, elast_app. cbn. rewrite app_nil_r. exact G1.
Qed.

Lemma ginv_pop p p' sd el : ginv p sd el -> pop_front p = Ok p' -> ginv p' sd el.
Proof.
  intros [G1 [k [Gk [G2 G3]]] G4 G5] Hp.
  destruct (pop_front_spec _ _ Hp) as (b & rest & E1 & E2 & E3 & E4 & E5 & E6 & E7 & _).
  constructor; auto.
  - rewrite E6, E7, E2, G1, E1. cbn [map elast_of].
    rewrite skipn_app, repeat_length, Nat.sub_diag, skipn_all2 by (rewrite repeat_length; lia).
    reflexivity.
  - exists (k + b_epochs b). splits.
    + rewrite G2, skipn_length in E3. lia.
    + rewrite E5, G2. apply skipn_skipn'.
    + rewrite E6, G3. apply skipn_skipn'.
Qed.

(** ---- preservation, event by event ---- *)
Lemma cinv_push g cfg c c' : cinv g c -> cstep g cfg c CPush = Some c' -> cinv g c'.
Proof.
  intros I H. cbn [cstep] in H.
  assert (Hnone : forall c0, sys_step cfg c (EPushBack None) = Some c0 -> cinv g c0).
  { intros c0 H0. apply sys_step_inv in H0. destruct H0 as [s' [Hs ->]]. cbn [step] in Hs. inv Hs.
    unfold push_back. destruct I. destruct (closedForWriting (s_pbl (cs_sys c))); constructor; cbn; auto. }
  destruct (closedForWriting (s_pbl (cs_sys c))) eqn:Ec; [auto|].
  destruct (cs_free c) as [|l fr] eqn:Ef; [auto|].
  destruct (sys_step cfg c (EPushBack (Some l))) as [c1|] eqn:Ess; [|discriminate]. inv H.
  apply sys_step_inv in Ess. destruct Ess as [s' [Hs ->]]. cbn [step] in Hs. inv Hs.
  unfold push_back. rewrite Ec. destruct I as [I1 I2 I3 I4 I5 I6 I7 I8 I9]. constructor; cbn.
  - apply ginv_push. exact I1.
  - rewrite map_app, skipn_app, I2. cbn. replace (_ - _) with 0 by lia. reflexivity.
  - rewrite !app_length. cbn. lia.
  - rewrite app_length. rewrite Ef in I4. cbn in *. lia.
  - exact I5.
  - apply io_mono_lc. exact I6.
  - exact I7.
  - intros st E. apply st_mono_lc. eauto.
  - intros keep st E. apply st_mono_lc. eauto.
Qed.

Lemma cinv_pop g cfg c c' : cinv g c -> cstep g cfg c CPop = Some c' -> cinv g c'.
Proof.
  intros I H. cbn [cstep] in H. apply sys_step_inv in H. destruct H as [s' [Hs ->]]. cbn [step] in Hs.
  destruct (blocks (s_pbl (cs_sys c))) as [|b0 rest0] eqn:Eb; [discriminate|].
  destruct (pop_front (s_pbl (cs_sys c))) as [p'|] eqn:Ep; [|discriminate]. inv Hs.
  destruct I as [I1 I2 I3 I4 I5 I6 I7 I8 I9].
  pose proof (ginv_pop _ _ _ _ I1 Ep) as G'.
  destruct (pop_front_spec _ _ Ep) as (b & rest & E1 & E2 & E3 & E4 & E5 & E6 & E7 & E8 & E9).
  rewrite Eb in E1. injection E1 as Eb0 Erest. constructor; cbn; auto.
  - rewrite E2, E7, <- Erest. rewrite Eb in I2. cbn [map] in I2.
    replace (S (totalReleased (s_pbl (cs_sys c)))) with (totalReleased (s_pbl (cs_sys c)) + 1) by lia.
    rewrite <- skipn_skipn', <- I2. reflexivity.
  - rewrite E2, E7, <- Erest. rewrite Eb in I3. cbn in I3. lia.
  - rewrite E2, E8, app_length, <- Erest. rewrite Eb in I4. cbn in *. lia.
Qed.

Lemma cinv_putstart g cfg c c' index key size :
  cinv g c -> cstep g cfg c (CPutStart index key size) = Some c' -> cinv g c'.
Proof.
  intros I H. cbn [cstep] in H. destruct (size <? 0)%Z; [discriminate|].
  destruct (sys_step cfg c (EPutStart index size)) as [c1|] eqn:Ess; [|discriminate].
  apply sys_step_inv in Ess. destruct Ess as [s' [Hs ->]]. cbn [step] in Hs.
  destruct (closedForWriting (s_pbl (cs_sys c)) || (index <? length (blocks (s_pbl (cs_sys c))))) eqn:Eg;
    [|discriminate].
  unfold put_start in Hs. destruct I as [I1 I2 I3 I4 I5 I6 I7 I8 I9].
  destruct (closedForWriting (s_pbl (cs_sys c))) eqn:Ec.
  - inv Hs. inv H. constructor; cbn; auto; unfold abss; cbn; rewrite map_app.
    + apply Forall2_app; [exact I5|]. constructor; [exact I|constructor].
    + apply io_mono_ab. exact I6.
    + apply tbl_mono_ab. exact I7.
  - cbn [orb] in Eg. rewrite Eg in Hs. inv Hs.
    destruct (nth_error (cs_cur c) (totalReleased (s_pbl (cs_sys c)) + index)) as [off|]; [|discriminate].
    destruct (nth_error (cs_locs c) (totalReleased (s_pbl (cs_sys c)) + index)) as [l|]; [|discriminate].
    destruct (off + size <=? block_size l)%Z; [|discriminate]. inv H.
    constructor; cbn; auto; unfold abss; cbn; rewrite map_app.
    + apply Forall2_app; [exact I5|]. constructor; [reflexivity|constructor].
    + apply io_mono_ab. exact I6.
    + apply tbl_mono_ab. exact I7.
Qed.

Lemma abss_upd c k f : (forall u, up_abs (f u) = up_abs u) -> map up_abs (upd_nth (cs_ups c) k f) = abss c.
Proof. intros H. unfold abss. apply map_upd_nth. exact H. Qed.

Lemma cinv_data g cfg c c' k n : cinv g c -> cstep g cfg c (CData k n) = Some c' -> cinv g c'.
Proof.
  intros I H. cbn [cstep] in H.
  destruct (nth_error (cs_ups c) k) as [u|]; [|discriminate].
  destruct (up_state u); try discriminate.
  destruct (up_loc (cs_locs c) u) as [l|]; [|discriminate].
  destruct (_ && _)%bool; [|discriminate]. inv H.
  destruct I as [I1 I2 I3 I4 I5 I6 I7 I8 I9].
  constructor; cbn; auto; unfold abss; cbn; rewrite abss_upd by reflexivity; auto.
  apply Forall_app. split; [exact I6|]. constructor; [exact I|constructor].
Qed.

Lemma cinv_writerdone g cfg c c' k ok : cinv g c -> cstep g cfg c (CWriterDone k ok) = Some c' -> cinv g c'.
Proof.
  intros I H. cbn [cstep] in H.
  destruct (nth_error (cs_ups c) k) as [u|]; [|discriminate].
  destruct (up_state u); try discriminate.
  destruct (ok && _)%bool; [discriminate|].
  destruct I as [I1 I2 I3 I4 I5 I6 I7 I8 I9].
  assert (Hsame : cinv g (with_ups c (upd_nth (cs_ups c) k (fun u => mkUp (up_key u) (up_abs u) (up_off u) (up_size u)
                                                             (up_issued u) (UpDone ok))))).
  { constructor; cbn; auto; unfold abss; cbn; rewrite abss_upd by reflexivity; auto. }
  destruct (up_loc (cs_locs c) u) as [l|]; [|inv H; exact Hsame].
  destruct (existsb (loc_eqb l) (cs_held c)) eqn:Eh; [|cbn [andb] in H; inv H; exact Hsame].
  cbn [andb] in H. destruct (negb _); [|inv H; exact Hsame]. inv H.
  constructor; cbn; auto; unfold abss; cbn; try (rewrite abss_upd by reflexivity; auto).
  apply remove_loc_length in Eh. rewrite app_length. cbn. lia.
Qed.

Lemma cinv_tick g cfg c c' d : cinv g c -> cstep g cfg c (CTick d) = Some c' -> cinv g c'.
Proof.
  intros I H. cbn [cstep] in H. apply sys_step_inv in H. destruct H as [s' [Hs ->]]. cbn [step] in Hs. inv Hs.
  destruct I. constructor; cbn; auto.
Qed.

Lemma cinv_cancel g cfg c c' : cinv g c -> cstep g cfg c CCancel = Some c' -> cinv g c'.
Proof.
  intros I H. cbn [cstep] in H. apply sys_step_inv in H. destruct H as [s' [Hs ->]]. cbn [step] in Hs. inv Hs.
  destruct I. constructor; cbn; auto.
Qed.

Lemma cinv_dir g cfg c c' : cinv g c -> cstep g cfg c CDir = Some c' -> cinv g c'.
Proof.
  intros I H. cbn [cstep] in H.
  destruct (writing (cs_sys c)) as [st|] eqn:Ew; [|discriminate].
  destruct (cs_dirpc c <? dir_ops_total); [|discriminate]. inv H.
  destruct I as [I1 I2 I3 I4 I5 I6 I7 I8 I9].
  assert (st_ok (cs_seeds c) (cs_elast c) (cs_locs c) st) as Hst.
  { unfold writing in Ew. destruct (s_r (cs_sys c)) as [| |[]] eqn:Er;
      try (inv Ew; eapply I8; reflexivity);
      destruct (s_p (cs_sys c)) as [| | | | | | | |? []|] eqn:Epp; try discriminate;
      inv Ew; eapply I9; reflexivity. }
  constructor; cbn; auto.
  apply Forall_app. split; [exact I6|]. constructor; [|constructor].
  destruct (cs_dirpc c) as [|[|[|[|[|?]]]]]; cbn; auto.
Qed.

(** [cinv] looks only at these components *)
Lemma cinv_ext g c c' :
  cs_sys c' = cs_sys c -> cs_log c' = cs_log c -> cs_ups c' = cs_ups c -> cs_tbl c' = cs_tbl c ->
  cs_locs c' = cs_locs c -> cs_free c' = cs_free c -> cs_held c' = cs_held c ->
  cs_seeds c' = cs_seeds c -> cs_elast c' = cs_elast c -> cinv g c -> cinv g c'.
Proof.
  intros E1 E2 E3 E4 E5 E6 E7 E8 E9 [I1 I2 I3 I4 I5 I6 I7 I8 I9].
  constructor; unfold abss in *; rewrite ?E1, ?E2, ?E3, ?E4, ?E5, ?E6, ?E7, ?E8, ?E9; auto.
Qed.

Lemma cinv_thread g c s' log' fr hd rel :
  cinv g c -> s_uploads s' = s_uploads (cs_sys c) -> pbl_same (s_pbl (cs_sys c)) (s_pbl s') ->
  (forall st, s_r s' = RW (WWriting st) ->
     s_r (cs_sys c) = RW (WWriting st) \/ exists p1, get_persistent_state (s_pbl (cs_sys c)) = Ok (p1, st)) ->
  (forall keep st, s_p s' = PW keep (WWriting st) ->
     s_p (cs_sys c) = PW keep (WWriting st) \/ exists p1, get_persistent_state (s_pbl (cs_sys c)) = Ok (p1, st)) ->
  toRelease (s_pbl (cs_sys c)) = rel ++ toRelease (s_pbl s') ->
  length fr + length hd = length (cs_free c) + length (cs_held c) + length rel ->
  Forall (io_ok (cs_seeds c) (cs_elast c) (abss c) (cs_locs c)) log' ->
  cinv g (with_alloc (with_log (with_sys c s') log') (cs_locs c) (cs_cur c) fr hd).
Proof.
  intros [I1 I2 I3 I4 I5 I6 I7 I8 I9] U S R P HT HL Hlog.
  pose proof S as (S1 & S2 & S3 & S4 & S5 & _).
  assert (Hlen : length (blocks (s_pbl s')) = length (blocks (s_pbl (cs_sys c)))).
  { rewrite <- (map_length b_loc), S1, map_length. reflexivity. }
  constructor; cbn; auto.
  - eapply ginv_same; eauto.
  - rewrite S1, S5. exact I2.
  - rewrite S5, Hlen. exact I3.
  - rewrite Hlen. rewrite HT, app_length in I4. lia.
  - rewrite U. exact I5.
  - intros st E. destruct (R st E) as [E'|[p1 Hg]]; [eauto|]. eapply gps_st_ok; eauto.
  - intros keep st E. destruct (P keep st E) as [E'|[p1 Hg]]; [eauto|]. eapply gps_st_ok; eauto.
Qed.

Lemma cinv_cstep g cfg c c' t a : cinv g c -> cstep g cfg c (CStep t a) = Some c' -> cinv g c'.
Proof.
  intros I H. cbn [cstep] in H.
  destruct (thread_writing _ t && a_ok a && negb _); [discriminate|].
  destruct (sys_step cfg c (EStep t a)) as [c1|] eqn:Ess; [|discriminate].
  apply sys_step_inv in Ess. destruct Ess as [s' [Hs ->]].
  destruct (estep_effect _ _ _ _ _ Hs) as (U & S & R & P).
  pose proof S as (_ & _ & _ & _ & _ & _ & rel & S6 & S7).
  assert (Hrel : skipn (length (releasedLog (s_pbl (cs_sys c)))) (releasedLog (s_pbl s')) = rel).
  { rewrite S6, skipn_app, skipn_all, Nat.sub_diag. reflexivity. }
  cbn [cs_sys with_sys] in H. cbv zeta in H. rewrite Hrel in H. clear Hrel.
  cbn [cs_locs cs_ups cs_free cs_held cs_cur cs_log cs_seeds with_sys] in H.
  destruct (release_regions (cs_locs c) (cs_ups c) rel (cs_free c) (cs_held c)) as [fr hd] eqn:Err.
  apply release_regions_length in Err.
  destruct t.
  - inv H.
    assert (cinv g (with_alloc (with_log (with_sys c s') (cs_log c)) (cs_locs c) (cs_cur c) fr hd)) as Hc.
    { eapply (cinv_thread g c s' (cs_log c) fr hd rel); eauto. destruct I; auto. }
    eapply cinv_ext; [..|exact Hc];
      match goal with |- context [with_dirpc _ 0] => match goal with |- context [if ?b then _ else _] => destruct b end end; reflexivity.
  - destruct (if p_notifies (cs_sys c) then _ else _) as [ncl cat]. inv H.
    set (log' := if p_syncing (cs_sys c) then cs_log c ++ [IoSyncEnd (a_ok a)]
                 else if p_syncing s' then cs_log c ++ [IoSyncBegin] else cs_log c).
    assert (cinv g (with_alloc (with_log (with_sys c s') log') (cs_locs c) (cs_cur c) fr hd)) as Hc.
    { eapply (cinv_thread g c s' log' fr hd rel); eauto.
      destruct I as [I1 I2 I3 I4 I5 I6 I7 I8 I9]. unfold log'.
      destruct (p_syncing (cs_sys c)); [|destruct (p_syncing s')]; auto;
        (apply Forall_app; split; [exact I6|]; constructor; [exact I|constructor]). }
    eapply cinv_ext; [..|exact Hc];
      match goal with |- context [with_dirpc _ 0] => match goal with |- context [if ?b then _ else _] => destruct b end end; reflexivity.
Qed.

Lemma fresh_not_in c seed : fresh c seed = true -> ~ In seed (cs_seeds c).
Proof.
  unfold fresh. intros H. apply andb_true_iff in H. destruct H as [H _].
  apply negb_true_iff in H. intros Hin.
  assert (existsb (N.eqb seed) (cs_seeds c) = true); [|congruence].
  apply existsb_exists. exists seed. split; [exact Hin|apply N.eqb_refl].
Qed.

Definition fin_ups (c : cst) (k : nat) (b : bool) : list upinfo :=
  upd_nth (cs_ups c) k (fun u => mkUp (up_key u) (up_abs u) (up_off u) (up_size u) (up_issued u) (UpFin b)).

Lemma cinv_fin_core g c k u tok size seed blk p' fr b :
  cinv g c -> nth_error (cs_ups c) k = Some u ->
  nth_error (s_uploads (cs_sys c)) k = Some (Some (tok, size)) ->
  fresh c seed = true ->
  put_finalize tok blk size seed (s_pbl (cs_sys c)) = Ok (p', fr) ->
  let c1 := with_sys c (with_uploads (with_pbl (cs_sys c) p') (clear_nth (s_uploads (cs_sys c)) k)) in
  let c2 := if length (epochSeeds (s_pbl (cs_sys c))) <? length (epochSeeds p')
            then with_seeds c1 (cs_seeds c ++ [seed]) (cs_elast c ++ [totalReleased p' + length (blocks p') - 1])
            else c1 in
  cinv g (with_ups c2 (fin_ups c k b)) /\
  (forall off, fr = FinOk off -> forall n' la, length (epochLast p') = S n' ->
     nth_error (epochLast p') n' = Some la -> up_abs u <= la).
Proof.
  intros I Eu Et Efr Epf c1 c2.
  pose proof (put_finalize_spec _ _ _ _ _ _ _ Epf) as Sh.
  destruct I as [I1 I2 I3 I4 I5 I6 I7 I8 I9].
  assert (Habs : forall abs, tok = PutAt abs -> abs = up_abs u).
  { intros abs ->. eapply (Forall2_nth _ _ _ k (up_abs u)) in I5; [| |exact Et].
    - exact I5.
    - unfold abss. apply map_nth_error. exact Eu. }
  assert (Hab : map up_abs (fin_ups c k b) = abss c).
  { unfold fin_ups. apply abss_upd. reflexivity. }
  destruct Sh as [Hsame Hnok | abs off Htok Hfr Hle Hlt T1 T2 T3 T4 Hcase T5].
  - subst p'. split; [|intros off E; exfalso; eapply Hnok; eauto].
    unfold c2. rewrite Nat.ltb_irrefl. unfold c1.
    constructor; cbn; auto; unfold abss; cbn; rewrite ?Hab; auto.
    apply Forall2_clear_nth. exact I5.
  - pose proof (Habs _ Htok) as ->.
    assert (Hlen : length (blocks p') = length (blocks (s_pbl (cs_sys c)))).
    { rewrite <- (map_length b_loc), T4, map_length. reflexivity. }
    destruct Hcase as [(C1 & C2 & C3 & n' & la & C4 & C5 & C6) | (C1 & C2 & C3)].
    + split.
      * unfold c2. rewrite C1, Nat.ltb_irrefl. unfold c1.
        constructor; cbn; auto; unfold abss; cbn; rewrite ?Hab; auto.
        -- destruct I1 as [G1 G2 G3 G4]. constructor; auto.
           ++ rewrite C2, T1, C3. exact G1.
           ++ rewrite C1, C2. exact G2.
        -- rewrite T4, T1. exact I2.
        -- rewrite T1, Hlen. exact I3.
        -- rewrite T2, Hlen. exact I4.
        -- apply Forall2_clear_nth. exact I5.
      * intros off' _ n'' la' L1 L2. rewrite C2 in L1, L2. rewrite C4 in L1. inv L1.
        rewrite C5 in L2. inv L2. exact C6.
    + assert (Hne : map b_epochs (blocks (s_pbl (cs_sys c))) <> []).
      { intros E. apply (f_equal (@length _)) in E. rewrite map_length in E. cbn in E. lia. }
      split.
      * unfold c2. rewrite C1, app_length. cbn [length].
        replace (_ <? _) with true by (symmetry; apply Nat.ltb_lt; lia). unfold c1.
        constructor; cbn; auto; unfold abss; cbn; rewrite ?Hab; auto.
        -- destruct I1 as [G1 [k0 [Gk [G2 G3]]] G4 G5]. constructor.
           ++ rewrite C2, T1, C3, elast_bumpl by exact Hne. rewrite map_length, <- G1. reflexivity.
           ++ exists k0. rewrite app_length. splits; [lia| |].
              ** rewrite C1, G2, skipn_app. replace (k0 - _) with 0 by lia. reflexivity.
              ** rewrite C2, G3, skipn_app, T1, Hlen. replace (k0 - _) with 0 by lia. reflexivity.
           ++ rewrite !app_length. cbn. lia.
           ++ apply NoDup_snoc; [exact G5|]. apply fresh_not_in. exact Efr.
        -- rewrite T4, T1. exact I2.
        -- rewrite T1, Hlen. exact I3.
        -- rewrite T2, Hlen. exact I4.
        -- apply Forall2_clear_nth. exact I5.
        -- apply io_mono_sd. exact I6.
        -- apply tbl_mono_sd. exact I7.
        -- intros st E. apply st_mono_sd. eauto.
        -- intros keep st E. apply st_mono_sd. eauto.
      * intros off' _ n'' la' L1 L2. rewrite C2 in L1, L2. rewrite app_length in L1. cbn in L1.
        assert (n'' = length (epochLast (s_pbl (cs_sys c)))) by lia. subst n''.
        rewrite nth_error_snoc in L2. inv L2. lia.
Qed.

Lemma cinv_with_index g c log' tbl' :
  cinv g c -> Forall (io_ok (cs_seeds c) (cs_elast c) (abss c) (cs_locs c)) log' ->
  tbl_ok (cs_seeds c) (cs_elast c) (abss c) tbl' -> cinv g (with_index c log' tbl').
Proof. intros [I1 I2 I3 I4 I5 I6 I7 I8 I9] L T. constructor; cbn; auto. Qed.

Lemma cinv_finalize g cfg c c' k seed ws :
  length (g_locs g) < 65536 -> cinv g c -> cstep g cfg c (CFinalize k seed ws) = Some c' -> cinv g c'.
Proof.
  intros Hg I H. cbn [cstep] in H.
  destruct (nth_error (cs_ups c) k) as [u|] eqn:Eu; [|discriminate].
  destruct (nth_error (s_uploads (cs_sys c)) k) as [[[tok size]|]|] eqn:Et; try discriminate.
  destruct (up_state u) as [|ok|] eqn:Eus; try discriminate.
  destruct (fresh c seed) eqn:Efr; [|discriminate]. cbn [negb] in H.
  destruct (put_finalize tok (if ok then Some (up_off u) else None) size seed (s_pbl (cs_sys c)))
    as [[p' fr]|] eqn:Epf; [|discriminate].
  destruct (sys_step cfg c (EFinalize k (if ok then Some (up_off u) else None) seed)) as [c1|] eqn:Ess;
    [|discriminate].
  apply sys_step_inv in Ess. destruct Ess as [s1 [Hs ->]]. cbn [step] in Hs. rewrite Et, Epf in Hs. inv Hs.
  fold (fin_ups c k true) in H. fold (fin_ups c k false) in H.
  pose proof (cinv_fin_core g c k u tok size seed (if ok then Some (up_off u) else None) p' fr) as Core.
  cbv zeta in Core.
  destruct fr as [off| | |].
  2-4: destruct ws; [|discriminate]; inv H; apply (Core false I Eu Et Efr Epf).
  destruct (do_writes p' k u ws (cs_log c) (cs_tbl c)) as [[log' tbl']|] eqn:Edw; [|discriminate]. inv H.
  destruct (Core true I Eu Et Efr Epf) as [Ic Hlast]. specialize (Hlast off eq_refl).
  clear Core.
  set (c2 := if length (epochSeeds (s_pbl (cs_sys c))) <? length (epochSeeds p') then _ else _) in *.
  assert (Ep' : s_pbl (cs_sys (with_ups c2 (fin_ups c k true))) = p').
  { unfold c2. destruct (_ <? _); reflexivity. }
  assert (Eab : abss (with_ups c2 (fin_ups c k true)) = abss c).
  { unfold abss, c2. destruct (_ <? _); cbn; apply abss_upd; reflexivity. }
  assert (Elog : cs_log (with_ups c2 (fin_ups c k true)) = cs_log c).
  { unfold c2. destruct (_ <? _); reflexivity. }
  assert (Etbl : cs_tbl (with_ups c2 (fin_ups c k true)) = cs_tbl c).
  { unfold c2. destruct (_ <? _); reflexivity. }
  pose proof Ic as [J1 J2 J3 J4 J5 J6 J7 J8 J9].
  rewrite Ep' in J1, J4. rewrite Eab in J6, J7. rewrite Elog in J6. rewrite Etbl in J7.
  assert (Hsmall : (Z.of_nat (length (blocks p')) < 65536)%Z).
  { apply small_nat_Z. lia. }
  assert (Hk : nth_error (abss c) k = Some (up_abs u)).
  { unfold abss. apply map_nth_error. exact Eu. }
  destruct (do_writes_ok _ _ _ _ _ _ _ _ J1 Hsmall Hk Hlast _ _ _ _ Edw J6 J7) as [L T].
  change (cinv g (with_index (with_ups c2 (fin_ups c k true)) log' tbl')).
  apply cinv_with_index; [exact Ic|rewrite Eab; exact L|rewrite Eab; exact T].
Qed.

Lemma cstep_cinv g cfg c e c' :
  length (g_locs g) < 65536 -> cinv g c -> cstep g cfg c e = Some c' -> cinv g c'.
Proof.
  intros Hg I H. destruct e.
  - eapply cinv_push; eauto.
  - eapply cinv_pop; eauto.
  - eapply cinv_putstart; eauto.
  - eapply cinv_data; eauto.
  - eapply cinv_writerdone; eauto.
  - eapply cinv_finalize; eauto.
  - eapply cinv_tick; eauto.
  - eapply cinv_cancel; eauto.
  - eapply cinv_cstep; eauto.
  - eapply cinv_dir; eauto.
Qed.

Lemma crun_cinv g cfg tr : length (g_locs g) < 65536 ->
  forall c c', cinv g c -> crun g cfg c tr = Some c' -> cinv g c'.
Proof.
  intros Hg. induction tr as [|e tr IH]; intros c c' I H; cbn in H.
  - inv H. exact I.
  - destruct (cstep g cfg c e) as [c1|] eqn:Es; [|discriminate].
    eapply IH; [|exact H]. eapply cstep_cinv; eauto.
Qed.

Lemma st_ok_nil sd el lc o : st_ok sd el lc (o, []).
Proof. exists 0. intros q b H. cbn in H. rewrite nth_error_nil' in H. discriminate. Qed.

Lemma cinit_cinv g t0 : cinv g (cinit g medium_empty t0).
Proof.
  unfold cinit. cbn. constructor; cbn; auto.
  - constructor; cbn; auto.
    + exists 0. cbn. auto.
    + constructor.
  - constructor.
  - discriminate.
  - discriminate.
Qed.

Theorem creach_cinv g cfg t0 c :
  length (g_locs g) < 65536 -> creach g cfg medium_empty t0 c -> cinv g c.
Proof. intros Hg [tr H]. eapply crun_cinv; eauto. apply cinit_cinv. Qed.

(** ------------------------------------------------------------------ *)
(** * what a crash can leave in the state file *)

Section DirContent.
  Variable P : sfile -> Prop.
  Hypothesis Pempty : P sfile_empty.

  Definition files_ok (fs : list (option sfile * bool)) : Prop :=
    forall f c b, nth_error fs f = Some (Some c, b) -> P c.

  Lemma set_nth_nth {T} (l : list T) i x j y :
    nth_error (set_nth l i x) j = Some y -> y = x \/ nth_error l j = Some y.
  Proof.
    revert i j. induction l as [|h t IH]; intros i j H.
    - destruct i; cbn in H; rewrite nth_error_nil' in H; discriminate.
    - destruct i as [|i], j as [|j]; cbn in *; auto.
      + inv H. auto.
      + eapply IH; eauto.
  Qed.

  Lemma dir_step_ok d e : (forall st, e = IoWriteNew st -> P st) ->
    files_ok (d_files d) -> files_ok (d_files (dir_step d (e : io irec))).
  Proof.
    intros He Hd. destruct e; cbn; auto.
    - (* create *)
      intros f c b H. destruct (Nat.lt_ge_cases f (length (d_files d))).
      + rewrite nth_error_app1 in H by assumption. eapply Hd; eauto.
      + rewrite nth_error_app2 in H by assumption.
        destruct (f - length (d_files d)) as [|x]; cbn in H; [discriminate|].
        rewrite nth_error_nil' in H. discriminate.
    - (* write *)
      destruct (d_vnew d) as [fn|]; cbn; auto.
      intros f c b H. apply set_nth_nth in H. destruct H as [H|H].
      + inv H. apply He. reflexivity.
      + eapply Hd; eauto.
    - (* fsync *)
      destruct (d_vnew d) as [fn|]; cbn; auto.
      intros f c b H. apply set_nth_nth in H. destruct H as [H|H]; [|eapply Hd; eauto].
      inv H. destruct (nth_error (d_files d) fn) as [[c' b']|] eqn:En.
      * rewrite (nth_error_nth _ _ _ En) in H1. cbn in H1. subst c'. eapply Hd; eauto.
      * apply nth_error_None in En. rewrite nth_overflow in H1 by exact En. discriminate.
    - (* rename *)
      destruct (d_vnew d); cbn; auto.
  Qed.

  Lemma dir_run_ok (l : list (io irec)) : forall d, Forall (fun e => forall st, e = IoWriteNew st -> P st) l ->
    files_ok (d_files d) -> files_ok (d_files (dir_run d l)).
  Proof.
    induction l as [|e l IH]; intros d Hl Hd; cbn; [exact Hd|].
    inv Hl. apply IH; [assumption|]. apply dir_step_ok; assumption.
  Qed.

  Lemma file_content_ok d gb f : files_ok (d_files d) -> P (file_content d gb f).
  Proof.
    intros Hd. unfold file_content.
    assert (Hw : forall c b j, nth_error (d_files d) j = Some (c, b) ->
                   P (match c with Some s => s | None => sfile_empty end)).
    { intros [c|] b j Hj; [eapply Hd; eauto|exact Pempty]. }
    destruct (nth_error (d_files d) f) as [[c [|]]|] eqn:En; [eapply Hw; eauto| |exact Pempty].
    destruct gb as [|[|j]]; [eapply Hw; eauto|exact Pempty|].
    destruct (j <? f); [|eapply Hw; eauto].
    destruct (nth_error (d_files d) j) as [[c' b']|] eqn:Ej; eapply Hw; eauto.
  Qed.

  Lemma crash_state_P (l : list (io irec)) ch x :
    Forall (fun e => forall st, e = IoWriteNew st -> P st) l ->
    m_state (crash_medium medium_empty l ch) = Some x -> P x.
  Proof.
    intros Hl. unfold crash_medium.
    set (d := dir_run (dir_init (m_state (@medium_empty irec)) (m_new (@medium_empty irec))) l).
    assert (Hd : files_ok (d_files d)).
    { apply dir_run_ok; [exact Hl|]. cbn. intros f c b H. rewrite nth_error_nil' in H. discriminate. }
    unfold dir_crash.
    destruct (snd (fold_left _ _ _)) as [f|]; cbn; [|discriminate].
    intros H; inv H. apply file_content_ok. exact Hd.
  Qed.
End DirContent.

Lemma crash_index_in l ch slot (r : irec) :
  slot_get (m_index (crash_medium medium_empty l ch)) slot None = Some r ->
  exists s', In (IoIndex s' r) l.
Proof.
  unfold crash_medium. destruct (dir_crash _ _ _) as [st nw]. cbn.
  intros H. apply slot_get_in in H. destruct H as [H|[s' H]]; [discriminate|].
  exists s'. apply index_writes_in. eapply select_in; eauto.
Qed.

Lemma restore_blocks_loc alloc init : forall n bl seeds lasts,
  restore_blocks alloc init n = (bl, seeds, lasts) ->
  forall i x, nth_error bl i = Some x -> exists b, nth_error init i = Some b /\ b_loc x = bs_loc b.
Proof.
  induction init as [|bs rest IH]; intros n bl seeds lasts H i x Hi; cbn in H.
  - inv H. rewrite nth_error_nil' in Hi. discriminate.
  - destruct (alloc (bs_loc bs) (bs_off bs)); [|inv H; rewrite nth_error_nil' in Hi; discriminate].
    destruct (restore_blocks alloc rest (S n)) as [[bl' seeds'] lasts'] eqn:E. inv H.
    destruct i as [|i]; cbn in Hi.
    + inv Hi. exists bs. auto.
    + eapply IH; eauto.
Qed.

(** ------------------------------------------------------------------ *)
(** * Goal 1: a record that resolves after the restart resolves to the region
      its upload was allocated in *)

Lemma resolve_location sd el ab lc r oldest bl alloc i :
  NoDup sd -> rec_ok sd el ab r -> st_ok sd el lc (oldest, bl) ->
  resolve_ref (fst (pbl_new alloc oldest bl)) 0 (r_epoch r) (r_bfl r) (r_seed r) = Some i ->
  exists a l, nth_error ab (r_up r) = Some a /\
    block_loc (fst (pbl_new alloc oldest bl)) i = Some l /\ nth_error lc a = Some l.
Proof.
  intros Hnd (j & e0 & a & R1 & R2 & R3 & R4) [kst Hst] Hres.
  destruct (pbl_new_fields alloc oldest bl) as [Htr Hf].
  destruct (restore_blocks alloc bl 0) as [[bl' seeds'] lasts'] eqn:Er.
  destruct (Hf _ _ _ eq_refl) as (F1 & F2 & F3). clear Hf.
  set (p' := fst (pbl_new alloc oldest bl)) in *.
  unfold resolve_ref in Hres.
  destruct (ref_to_index (r_epoch r) (r_bfl r) p') as [[[i' seed]|]|] eqn:Eri; try discriminate.
  cbn in Hres. destruct (N.eqb_spec seed (r_seed r)) as [Es|]; [|discriminate]. injection Hres as Hii. subst i'.
  apply ref_to_index_spec in Eri. destruct Eri as (e & la & E1 & E2 & E3 & E4).
  rewrite Htr in E3, E4. rewrite F3 in E1. rewrite F2 in E2.
  destruct (restore_spec _ _ _ _ _ _ Er _ _ E2) as (q & b & Q1 & Q2 & Q3 & Q4).
  rewrite E1 in Q1. injection Q1 as Hla. cbn [plus] in Hla. subst la.
  destruct (Hst q b Q2) as [L1 L2]. destruct (L2 _ Q3) as (j' & S1 & S2).
  assert (j = j') by (eapply NoDup_nth_eq; [exact Hnd|exact R1|rewrite <- Es; exact S1]). subst j'.
  rewrite R2 in S2. injection S2 as He0. subst e0.
  assert (Hi : i <= q) by lia.
  assert (Ha : a = kst + i) by lia.
  destruct (nth_error bl' q) as [xq|] eqn:Eq; [|discriminate].
  assert (i < length bl').
  { assert (q < length bl') by (apply nth_error_Some; congruence). lia. }
  destruct (nth_error bl' i) as [xi|] eqn:Exi; [|apply nth_error_None in Exi; lia].
  destruct (restore_blocks_loc _ _ _ _ _ _ Er _ _ Exi) as (bi & B1 & B2).
  destruct (Hst i bi B1) as [L3 _].
  exists a, (bs_loc bi). splits; auto.
  - unfold block_loc. rewrite F1, Exi, B2. reflexivity.
  - rewrite Ha. exact L3.
Qed.

Theorem crash_safe_location_strong g cfg t0 c :
  length (g_locs g) < 65536 ->
  creach g cfg medium_empty t0 c ->
  forall n ch slot r i, resolves g (crash_of medium_empty c n ch) slot r i ->
  exists up l, nth_error (cs_ups c) (r_up r) = Some up /\
    block_loc (fst (restart (geom g) (m_state (crash_of medium_empty c n ch)))) i = Some l /\
    nth_error (cs_locs c) (up_abs up) = Some l.
Proof.
  intros Hg Hreach n ch slot r i [Hslot Hres].
  pose proof (creach_cinv _ _ _ _ Hg Hreach) as [I1 I2 I3 I4 I5 I6 I7 I8 I9].
  unfold crash_of in *.
  assert (Hpre : Forall (io_ok (cs_seeds c) (cs_elast c) (abss c) (cs_locs c)) (firstn n (cs_log c))).
  { rewrite Forall_forall in *. intros e He. apply I6. eapply in_firstn; eauto. }
  (* the record *)
  destruct (crash_index_in _ _ _ _ Hslot) as [s' Hin].
  assert (Hrec : rec_ok (cs_seeds c) (cs_elast c) (abss c) r).
  { rewrite Forall_forall in Hpre. apply (Hpre _ Hin). }
  (* the state file *)
  assert (Hst : forall x, m_state (crash_medium medium_empty (firstn n (cs_log c)) ch) = Some x ->
                  st_ok (cs_seeds c) (cs_elast c) (cs_locs c) (fst x)).
  { intros x. apply (crash_state_P (fun x => st_ok (cs_seeds c) (cs_elast c) (cs_locs c) (fst x))).
    - apply st_ok_nil.
    - eapply Forall_impl; [|exact Hpre]. intros e He st ->. cbn in He. destruct st. exact He. }
  assert (Hloc : exists a l, nth_error (abss c) (r_up r) = Some a /\
     block_loc (fst (restart (geom g) (m_state (crash_medium medium_empty (firstn n (cs_log c)) ch)))) i = Some l /\
     nth_error (cs_locs c) a = Some l).
  { destruct (m_state (crash_medium medium_empty (firstn n (cs_log c)) ch)) as [[[oldest bl] h]|] eqn:Em.
    - specialize (Hst _ eq_refl). cbn [fst] in Hst. unfold restart in *.
      eapply resolve_location; eauto. destruct I1; assumption.
    - unfold restart in *. eapply resolve_location; eauto.
      + destruct I1; assumption.
      + apply st_ok_nil. }
  destruct Hloc as (a & l & A1 & A2 & A3).
  unfold abss in A1. rewrite nth_error_map in A1.
  destruct (nth_error (cs_ups c) (r_up r)) as [up|] eqn:Eup; [|discriminate]. cbn in A1. inv A1.
  exists up, l. auto.
Qed.

(** the statement as asked for (the [NoDup] hypothesis is not needed) *)
Theorem crash_safe_location : forall g cfg t0 c, length (g_locs g) < 65536 -> NoDup (g_locs g) ->
  creach g cfg medium_empty t0 c ->
  forall n ch slot r i, resolves g (crash_of medium_empty c n ch) slot r i ->
  exists up l, nth_error (cs_ups c) (r_up r) = Some up /\
    block_loc (fst (restart (geom g) (m_state (crash_of medium_empty c n ch)))) i = Some l /\
    nth_error (cs_locs c) (up_abs up) = Some l.
Proof. intros g cfg t0 c Hg _. apply crash_safe_location_strong. exact Hg. Qed.


(** ------------------------------------------------------------------ *)
(** * Goal 2: allocation facts (any base medium) *)

Lemma step_closed cfg s e s' : step cfg s e = Some (Ok s') ->
  closedForWriting (s_pbl s) = true -> closedForWriting (s_pbl s') = true.
Proof.
  intros H Hc. destruct e; cbn [step] in H.
  - inv H. cbn. unfold push_back. rewrite Hc. exact Hc.
  - destruct (blocks (s_pbl s)) as [|b0 r0]; [discriminate|].
    destruct (pop_front (s_pbl s)) as [p'|] eqn:Ep; [|discriminate]. inv H. cbn.
    destruct (pop_front_spec _ _ Ep) as (b & rest & _ & _ & _ & _ & _ & _ & _ & _ & _ & E). congruence.
  - destruct (_ || _); [|discriminate]. destruct (put_start _ _); [|discriminate]. inv H. exact Hc.
  - destruct (nth_error (s_uploads s) k) as [[[tok sz]|]|]; try discriminate.
    destruct (put_finalize tok blk sz seed (s_pbl s)) as [[p' fr]|] eqn:Ep; [|discriminate]. inv H. cbn.
    destruct (put_finalize_spec _ _ _ _ _ _ _ Ep) as [-> _|]; congruence.
  - inv H. exact Hc.
  - inv H. exact Hc.
  - destruct (estep_effect _ _ _ _ _ H) as (_ & (_ & _ & _ & _ & _ & C & _) & _). auto.
Qed.

Lemma round_up_ge s w : (0 < s)%Z -> (w <= round_up s w)%Z.
Proof.
  intros Hs. unfold round_up.
  pose proof (Z.div_mod (w + s - 1) s ltac:(lia)) as E.
  pose proof (Z.mod_pos_bound (w + s - 1) s Hs) as B. nia.
Qed.

(** [cur0]: the allocation cursors the life started with *)
Record ainv (cur0 : list Z) (c : cst) : Prop := mkAinv {
  ai_len : length (cs_cur c) = length (cs_locs c);
  ai_closed : forall k u, nth_error (cs_ups c) k = Some u ->
     up_abs u < length (cs_locs c) \/
     (closedForWriting (s_pbl (cs_sys c)) = true /\ up_abs u = length (cs_locs c));
  ai_issued : forall k u, nth_error (cs_ups c) k = Some u -> (0 <= up_issued u)%Z;
  ai_up : forall k u, nth_error (cs_ups c) k = Some u -> up_abs u < length (cs_locs c) ->
     exists cur, nth_error (cs_cur c) (up_abs u) = Some cur /\ (up_off u + up_size u <= cur)%Z;
  ai_disj : forall k1 k2 u1 u2, k1 < k2 -> nth_error (cs_ups c) k1 = Some u1 -> nth_error (cs_ups c) k2 = Some u2 ->
     up_abs u1 = up_abs u2 -> up_abs u1 < length (cs_locs c) -> (up_off u1 + up_size u1 <= up_off u2)%Z;
  ai_data : forall k l lo hi, In (IoData k l lo hi) (cs_log c) ->
     exists u, nth_error (cs_ups c) k = Some u /\ nth_error (cs_locs c) (up_abs u) = Some l /\
       (up_off u <= lo /\ lo < hi /\ hi <= up_off u + up_size u)%Z;
  ai_cur0 : forall j x, nth_error cur0 j = Some x ->
     exists x', nth_error (cs_cur c) j = Some x' /\ (x <= x')%Z;
  ai_off0 : forall k u x, nth_error (cs_ups c) k = Some u -> nth_error cur0 (up_abs u) = Some x -> (x <= up_off u)%Z
}.

(** an update of one upload that keeps its allocation *)
Definition same_alloc (f : upinfo -> upinfo) : Prop :=
  forall u, up_abs (f u) = up_abs u /\ up_off (f u) = up_off u /\ up_size (f u) = up_size u.

Lemma upd_nth_inv {A} (f : A -> A) l k j y :
  nth_error (upd_nth l k f) j = Some y ->
  exists x, nth_error l j = Some x /\ (y = x \/ (j = k /\ y = f x)).
Proof.
  rewrite nth_error_upd_nth. destruct (Nat.eqb_spec j k).
  - destruct (nth_error l j) as [x|]; cbn; [|discriminate]. intros H; inv H. eauto.
  - intros H. eauto.
Qed.

Lemma in_snoc {A} (l : list A) x y : In y (l ++ [x]) -> In y l \/ y = x.
Proof. rewrite in_app_iff. cbn. intros [H|[H|[]]]; auto. Qed.

(** a step that changes no allocation: uploads only updated in place *)
Lemma ainv_frame cur0 c c' f k :
  ainv cur0 c -> same_alloc f ->
  (forall u, (0 <= up_issued u)%Z -> (0 <= up_issued (f u))%Z \/ nth_error (cs_ups c) k <> Some u) ->
  cs_ups c' = upd_nth (cs_ups c) k f -> cs_locs c' = cs_locs c -> cs_cur c' = cs_cur c ->
  (closedForWriting (s_pbl (cs_sys c)) = true -> closedForWriting (s_pbl (cs_sys c')) = true) ->
  (forall k0 l lo hi, In (IoData k0 l lo hi) (cs_log c') -> In (IoData k0 l lo hi) (cs_log c) \/
     exists u, nth_error (cs_ups c) k0 = Some u /\ nth_error (cs_locs c) (up_abs u) = Some l /\
       (up_off u <= lo /\ lo < hi /\ hi <= up_off u + up_size u)%Z) ->
  ainv cur0 c'.
Proof.
  intros [A1 A2 A3 A4 A5 A6 A7 A8] Hf Hiss Eu El Ec Hcl Hlog.
  assert (Hget : forall j y, nth_error (cs_ups c') j = Some y ->
            exists x, nth_error (cs_ups c) j = Some x /\ up_abs y = up_abs x /\ up_off y = up_off x
                      /\ up_size y = up_size x /\ (y = x \/ (j = k /\ y = f x))).
  { intros j y H. rewrite Eu in H. apply upd_nth_inv in H. destruct H as [x [Hx Hy]].
    exists x. destruct (Hf x) as (F1 & F2 & F3).
    destruct Hy as [->|[-> ->]]; splits; auto. }
  assert (Hput : forall j x, nth_error (cs_ups c) j = Some x ->
            exists y, nth_error (cs_ups c') j = Some y /\ up_abs y = up_abs x /\ up_off y = up_off x
                      /\ up_size y = up_size x).
  { intros j x H. rewrite Eu, nth_error_upd_nth, H. destruct (Hf x) as (F1 & F2 & F3).
    destruct (Nat.eqb j k); cbn; eauto. }
  constructor; rewrite ?El, ?Ec; auto.
  - intros j y H. destruct (Hget _ _ H) as (x & Hx & E1 & _). rewrite E1.
    destruct (A2 _ _ Hx) as [L|[C L]]; auto.
  - intros j y H. destruct (Hget _ _ H) as (x & Hx & _ & _ & _ & [->|[-> ->]]); [eauto|].
    destruct (Hiss x (A3 _ _ Hx)) as [G|G]; [exact G|contradiction].
  - intros j y H. destruct (Hget _ _ H) as (x & Hx & E1 & E2 & E3 & _). rewrite E1, E2, E3. eauto.
  - intros k1 k2 y1 y2 Hlt H1 H2.
    destruct (Hget _ _ H1) as (x1 & Hx1 & E1 & E2 & E3 & _).
    destruct (Hget _ _ H2) as (x2 & Hx2 & E1' & E2' & E3' & _).
    rewrite E1, E2, E3, E1', E2'. eauto.
  - intros k0 l lo hi Hin.
    assert (exists u, nth_error (cs_ups c) k0 = Some u /\ nth_error (cs_locs c) (up_abs u) = Some l /\
       (up_off u <= lo /\ lo < hi /\ hi <= up_off u + up_size u)%Z) as (x & Hx & X1 & X2).
    { destruct (Hlog _ _ _ _ Hin) as [H|H]; eauto. }
    destruct (Hput _ _ Hx) as (y & Hy & E1 & E2 & E3). exists y. rewrite E1, E2, E3. auto.
  - intros j y x0 H H0. destruct (Hget _ _ H) as (x & Hx & E1 & E2 & _). rewrite E1 in H0. rewrite E2. eauto.
Qed.

Lemma ainv_same cur0 c c' :
  ainv cur0 c -> cs_ups c' = cs_ups c -> cs_locs c' = cs_locs c -> cs_cur c' = cs_cur c ->
  (closedForWriting (s_pbl (cs_sys c)) = true -> closedForWriting (s_pbl (cs_sys c')) = true) ->
  (forall k l lo hi, In (IoData k l lo hi) (cs_log c') -> In (IoData k l lo hi) (cs_log c)) ->
  ainv cur0 c'.
Proof.
  intros [A1 A2 A3 A4 A5 A6 A7 A8] Eu El Ec Hcl Hlog.
  constructor; rewrite ?Eu, ?El, ?Ec; auto.
  intros k u H. destruct (A2 _ _ H) as [L|[C L]]; auto.
Qed.

Lemma sys_step_closed cfg c e c' : sys_step cfg c e = Some c' ->
  c' = with_sys c (cs_sys c') /\
  (closedForWriting (s_pbl (cs_sys c)) = true -> closedForWriting (s_pbl (cs_sys c')) = true).
Proof.
  intros H. apply sys_step_inv in H. destruct H as [s' [Hs ->]]. split; [reflexivity|].
  cbn. eapply step_closed; eauto.
Qed.

Lemma do_writes_log p k u ws : forall log tbl log' tbl',
  do_writes p k u ws log tbl = Some (log', tbl') ->
  forall e, In e log' -> In e log \/ exists s r, e = IoIndex s r.
Proof.
  induction ws as [|w ws IH]; intros log tbl log' tbl' H e He; cbn [do_writes] in H.
  - inv H. auto.
  - destruct w as [slot|from to].
    + destruct (_ <? _); [discriminate|]. destruct (mk_rec _ _ _ _ _ _) as [r|]; [|discriminate].
      destruct (IH _ _ _ _ H e He) as [Hi|Hi]; [|auto].
      apply in_snoc in Hi. destruct Hi as [Hi| ->]; eauto.
    + destruct (slot_get tbl from None) as [r0|]; [|discriminate].
      destruct (live_index p r0) as [i|]; [|discriminate].
      destruct (mk_rec _ _ _ _ _ _) as [r|]; [|discriminate].
      destruct (IH _ _ _ _ H e He) as [Hi|Hi]; [|auto].
      apply in_snoc in Hi. destruct Hi as [Hi| ->]; eauto.
Qed.

Lemma upd_nth_id {A} (l : list A) k : upd_nth l k (fun x => x) = l.
Proof. revert k. induction l as [|x l IH]; intros [|k]; cbn; auto. rewrite IH. reflexivity. Qed.

Lemma nth_error_snoc_inv {A} (l : list A) x j y :
  nth_error (l ++ [x]) j = Some y -> nth_error l j = Some y \/ (j = length l /\ y = x).
Proof.
  intros H. destruct (Nat.lt_ge_cases j (length l)).
  - rewrite nth_error_app1 in H by assumption. auto.
  - rewrite nth_error_app2 in H by assumption.
    destruct (j - length l) as [|d] eqn:E; cbn in H; [inv H; right; split; [lia|reflexivity]|].
    rewrite nth_error_nil' in H. discriminate.
Qed.

Lemma ainv_push cur0 g cfg c c' : ainv cur0 c -> cstep g cfg c CPush = Some c' -> ainv cur0 c'.
Proof.
  intros A H. cbn [cstep] in H.
  assert (Hnone : forall c0, sys_step cfg c (EPushBack None) = Some c0 -> ainv cur0 c0).
  { intros c0 H0. destruct (sys_step_closed _ _ _ _ H0) as [E C]. rewrite E in *.
    eapply ainv_same; eauto. }
  destruct (closedForWriting (s_pbl (cs_sys c))) eqn:Ec; [auto|].
  destruct (cs_free c) as [|l fr] eqn:Ef; [auto|].
  destruct (sys_step cfg c (EPushBack (Some l))) as [c1|] eqn:Ess; [|discriminate]. inv H.
  destruct (sys_step_closed _ _ _ _ Ess) as [E C]. rewrite E. clear E.
  destruct A as [A1 A2 A3 A4 A5 A6 A7 A8].
  assert (Hlt : forall k u, nth_error (cs_ups c) k = Some u -> up_abs u < length (cs_locs c)).
  { intros k u H. destruct (A2 _ _ H) as [L|[C' _]]; [exact L|congruence]. }
  constructor; cbn.
  - rewrite !app_length, A1. reflexivity.
  - intros k u H. left. rewrite app_length. cbn. specialize (Hlt _ _ H). lia.
  - exact A3.
  - intros k u H _. destruct (A4 _ _ H (Hlt _ _ H)) as (cur & C1 & C2).
    exists cur. split; [apply nth_error_app_some; exact C1|exact C2].
  - intros k1 k2 u1 u2 Hk H1 H2 Ea _. eapply A5; eauto.
  - intros k l0 lo hi Hin. destruct (A6 _ _ _ _ Hin) as (u & U1 & U2 & U3).
    exists u. split; [exact U1|]. split; [apply nth_error_app_some; exact U2|exact U3].
  - intros j x H. destruct (A7 _ _ H) as (x' & X1 & X2). exists x'. split; [apply nth_error_app_some|]; assumption.
  - exact A8.
Qed.

Lemma ainv_putstart cur0 g cfg c c' index key size :
  ainv cur0 c -> cstep g cfg c (CPutStart index key size) = Some c' -> ainv cur0 c'.
Proof.
  intros A H. cbn [cstep] in H. destruct (Z.ltb_spec size 0) as [|Hsz]; [discriminate|].
  destruct (sys_step cfg c (EPutStart index size)) as [c1|] eqn:Ess; [|discriminate].
  destruct (sys_step_closed _ _ _ _ Ess) as [E C]. rewrite E in H. clear E.
  destruct A as [A1 A2 A3 A4 A5 A6 A7 A8].
  destruct (closedForWriting (s_pbl (cs_sys c))) eqn:Ec.
  - inv H. constructor; cbn; auto.
    + intros k u H. apply nth_error_snoc_inv in H. destruct H as [H|[_ ->]]; cbn.
      * destruct (A2 _ _ H) as [L|[C' L]]; auto.
      * right. auto.
    + intros k u H. apply nth_error_snoc_inv in H. destruct H as [H|[_ ->]]; cbn; [eauto|lia].
    + intros k u H. apply nth_error_snoc_inv in H. destruct H as [H|[_ ->]]; cbn; [eauto|lia].
    + intros k1 k2 u1 u2 Hk H1 H2. apply nth_error_snoc_inv in H1, H2.
      destruct H1 as [H1|[-> ->]], H2 as [H2|[-> ->]]; cbn; try lia; eauto.
      all: try (assert (k2 < length (cs_ups c)) by (apply nth_error_Some; congruence); lia).
    + intros k l lo hi Hin. destruct (A6 _ _ _ _ Hin) as (u & U1 & U2 & U3).
      exists u. split; [apply nth_error_app_some; exact U1|]. split; [exact U2|exact U3].
    + intros k u x H. apply nth_error_snoc_inv in H. destruct H as [H|[_ ->]]; cbn; [eauto|].
      intros H0. destruct (A7 _ _ H0) as (x' & X1 & _).
      assert (length (cs_locs c) < length (cs_cur c)) by (apply nth_error_Some; congruence). lia.
  - set (abs := totalReleased (s_pbl (cs_sys c)) + index) in *.
    destruct (nth_error (cs_cur c) abs) as [off|] eqn:Eo; [|discriminate].
    destruct (nth_error (cs_locs c) abs) as [l|] eqn:El; [|discriminate].
    destruct (off + size <=? block_size l)%Z; [|discriminate]. inv H.
    assert (Habs : abs < length (cs_locs c)) by (apply nth_error_Some; congruence).
    assert (Hcur : forall j, nth_error (upd_nth (cs_cur c) abs (fun o => (o + size)%Z)) j =
                     if Nat.eqb j abs then option_map (fun o => (o + size)%Z) (nth_error (cs_cur c) j)
                     else nth_error (cs_cur c) j) by (intros; apply nth_error_upd_nth).
    constructor; cbn.
    + rewrite upd_nth_length. exact A1.
    + intros k u H. apply nth_error_snoc_inv in H. destruct H as [H|[_ ->]]; cbn; [|auto].
      destruct (A2 _ _ H) as [L|[C' L]]; auto; discriminate.
    + intros k u H. apply nth_error_snoc_inv in H. destruct H as [H|[_ ->]]; cbn; [eauto|lia].
    + intros k u H. apply nth_error_snoc_inv in H. destruct H as [H|[_ ->]]; cbn.
      * intros L. destruct (A4 _ _ H L) as (cur & C1 & C2). rewrite Hcur, C1.
        destruct (Nat.eqb _ abs); cbn; eexists; split; try reflexivity; lia.
      * intros _. rewrite Hcur, Nat.eqb_refl, Eo. cbn. eexists; split; [reflexivity|lia].
    + intros k1 k2 u1 u2 Hk H1 H2. apply nth_error_snoc_inv in H1, H2.
      destruct H1 as [H1|[-> ->]], H2 as [H2|[-> ->]]; cbn; try lia; eauto.
      * intros Ea L. destruct (A4 _ _ H1 L) as (cur & C1 & C2). rewrite Ea, Eo in C1. inv C1. exact C2.
      * assert (k2 < length (cs_ups c)) by (apply nth_error_Some; congruence). lia.
    + intros k l0 lo hi Hin. destruct (A6 _ _ _ _ Hin) as (u & U1 & U2 & U3).
      exists u. split; [apply nth_error_app_some; exact U1|]. split; [exact U2|exact U3].
    + intros j x H. destruct (A7 _ _ H) as (x' & X1 & X2). rewrite Hcur, X1.
      destruct (Nat.eqb j abs); cbn; eexists; split; try reflexivity; lia.
    + intros k u x H. apply nth_error_snoc_inv in H. destruct H as [H|[_ ->]]; cbn; [eauto|].
      intros H0. destruct (A7 _ _ H0) as (x' & X1 & X2). rewrite Eo in X1. inv X1. exact X2.
Qed.

Lemma ainv_sys cur0 cfg c e c' : ainv cur0 c -> sys_step cfg c e = Some c' -> ainv cur0 c'.
Proof.
  intros A H. destruct (sys_step_closed _ _ _ _ H) as [E C]. rewrite E in *.
  eapply ainv_same; eauto.
Qed.

Lemma ainv_data cur0 g cfg c c' k n : ainv cur0 c -> cstep g cfg c (CData k n) = Some c' -> ainv cur0 c'.
Proof.
  intros A H. cbn [cstep] in H.
  destruct (nth_error (cs_ups c) k) as [u|] eqn:Eu; [|discriminate].
  destruct (up_state u); try discriminate.
  destruct (up_loc (cs_locs c) u) as [l|] eqn:El; [|discriminate].
  destruct (Z.ltb_spec 0 n) as [Hn|]; [|discriminate].
  destruct (Z.leb_spec (up_issued u + n) (up_size u)) as [Hle|]; [|discriminate]. cbn [andb] in H. inv H.
  pose proof (ai_issued _ _ A _ _ Eu) as Hi.
  eapply ainv_frame; [exact A| | |reflexivity|reflexivity|reflexivity|auto|].
  - intros u0. cbn. auto.
  - intros u0 H0. cbn. left. lia.
  - intros k0 l0 lo hi Hin. cbn in Hin. apply in_snoc in Hin. destruct Hin as [Hin|Hin]; [auto|].
    inv Hin. right. exists u. splits; auto; lia.
Qed.

Lemma ainv_writerdone cur0 g cfg c c' k ok :
  ainv cur0 c -> cstep g cfg c (CWriterDone k ok) = Some c' -> ainv cur0 c'.
Proof.
  intros A H. cbn [cstep] in H.
  destruct (nth_error (cs_ups c) k) as [u|]; [|discriminate].
  destruct (up_state u); try discriminate.
  destruct (ok && _)%bool; [discriminate|].
  assert (Hf : forall c0, cs_ups c0 = upd_nth (cs_ups c) k (fun u => mkUp (up_key u) (up_abs u) (up_off u) (up_size u)
                                                             (up_issued u) (UpDone ok)) ->
                cs_locs c0 = cs_locs c -> cs_cur c0 = cs_cur c -> cs_sys c0 = cs_sys c -> cs_log c0 = cs_log c ->
                ainv cur0 c0).
  { intros c0 E1 E2 E3 E4 E5. eapply ainv_frame; [exact A| | |exact E1|exact E2|exact E3|rewrite E4; auto|rewrite E5; auto].
    - intros u0. cbn. auto.
    - intros u0 H0. cbn. left. exact H0. }
  destruct (up_loc (cs_locs c) u) as [l|]; [|inv H; apply Hf; reflexivity].
  destruct (_ && _)%bool; inv H; apply Hf; reflexivity.
Qed.

Lemma ainv_finalize cur0 g cfg c c' k seed ws :
  ainv cur0 c -> cstep g cfg c (CFinalize k seed ws) = Some c' -> ainv cur0 c'.
Proof.
  intros A H. cbn [cstep] in H.
  destruct (nth_error (cs_ups c) k) as [u|] eqn:Eu; [|discriminate].
  destruct (nth_error (s_uploads (cs_sys c)) k) as [[[tok size]|]|] eqn:Et; try discriminate.
  destruct (up_state u) as [|ok|] eqn:Eus; try discriminate.
  destruct (fresh c seed) eqn:Efr; [|discriminate]. cbn [negb] in H.
  destruct (put_finalize tok (if ok then Some (up_off u) else None) size seed (s_pbl (cs_sys c)))
    as [[p' fr]|] eqn:Epf; [|discriminate].
  destruct (sys_step cfg c (EFinalize k (if ok then Some (up_off u) else None) seed)) as [c1|] eqn:Ess;
    [|discriminate].
  destruct (sys_step_closed _ _ _ _ Ess) as [E C]. rewrite E in H.
  assert (Hf : forall b c0, cs_ups c0 = fin_ups c k b ->
                cs_locs c0 = cs_locs c -> cs_cur c0 = cs_cur c -> cs_sys c0 = cs_sys c1 ->
                (forall e, In e (cs_log c0) -> In e (cs_log c) \/ exists s r, e = IoIndex s r) ->
                ainv cur0 c0).
  { intros b c0 E1 E2 E3 E4 E5.
    eapply ainv_frame; [exact A| | |exact E1|exact E2|exact E3|rewrite E4; auto|].
    - intros u0. cbn. auto.
    - intros u0 H0. cbn. left. exact H0.
    - intros k0 l lo hi Hin. destruct (E5 _ Hin) as [Hi|(s & r & Hi)]; [auto|discriminate]. }
  fold (fin_ups c k true) in H. fold (fin_ups c k false) in H.
  destruct fr as [off| | |].
  2-4: destruct ws; [|discriminate]; inv H; apply (Hf false); try (destruct (_ <? _); reflexivity);
       intros e He; left; destruct (_ <? _); exact He.
  destruct (do_writes p' k u ws (cs_log c) (cs_tbl c)) as [[log' tbl']|] eqn:Edw; [|discriminate]. inv H.
  apply (Hf true); try (destruct (_ <? _); reflexivity).
  intros e He. eapply do_writes_log; [exact Edw|]. destruct (_ <? _); exact He.
Qed.

Lemma ainv_cstep cur0 g cfg c c' t a : ainv cur0 c -> cstep g cfg c (CStep t a) = Some c' -> ainv cur0 c'.
Proof.
  intros A H. cbn [cstep] in H.
  destruct (thread_writing _ t && a_ok a && negb _); [discriminate|].
  destruct (sys_step cfg c (EStep t a)) as [c1|] eqn:Ess; [|discriminate].
  destruct (sys_step_closed _ _ _ _ Ess) as [E C].
  cbv zeta in H.
  destruct (release_regions _ _ _ _ _) as [fr hd].
  rewrite E in H.
  destruct t.
  - destruct (thread_at_getstate _ _); inv H; (eapply ainv_same; [exact A|..]; try reflexivity; auto).
  - destruct (if p_notifies (cs_sys c) then _ else _) as [ncl cat].
    destruct (thread_at_getstate _ _); inv H; (eapply ainv_same; [exact A|..]; try reflexivity; auto);
      intros k l lo hi Hin; cbn in Hin;
      (destruct (p_syncing (cs_sys c)); [|destruct (p_syncing (cs_sys c1))]; auto;
        apply in_snoc in Hin; destruct Hin as [Hin|Hin]; auto; discriminate).
Qed.

Lemma ainv_dir cur0 g cfg c c' : ainv cur0 c -> cstep g cfg c CDir = Some c' -> ainv cur0 c'.
Proof.
  intros A H. cbn [cstep] in H.
  destruct (writing (cs_sys c)) as [st|]; [|discriminate].
  destruct (cs_dirpc c <? dir_ops_total); [|discriminate]. inv H.
  eapply ainv_same; [exact A|..]; try reflexivity; auto.
  intros k l lo hi Hin. cbn in Hin. apply in_snoc in Hin. destruct Hin as [Hin|Hin]; auto.
  destruct (cs_dirpc c) as [|[|[|[|[|?]]]]]; discriminate.
Qed.

Lemma cstep_ainv cur0 g cfg c e c' : ainv cur0 c -> cstep g cfg c e = Some c' -> ainv cur0 c'.
Proof.
  intros A H. destruct e.
  - eapply ainv_push; eauto.
  - eapply ainv_sys; eauto.
  - eapply ainv_putstart; eauto.
  - eapply ainv_data; eauto.
  - eapply ainv_writerdone; eauto.
  - eapply ainv_finalize; eauto.
  - eapply ainv_sys; eauto.
  - eapply ainv_sys; eauto.
  - eapply ainv_cstep; eauto.
  - eapply ainv_dir; eauto.
Qed.

Lemma crun_ainv cur0 g cfg tr : forall c c', ainv cur0 c -> crun g cfg c tr = Some c' -> ainv cur0 c'.
Proof.
  induction tr as [|e tr IH]; intros c c' A H; cbn in H.
  - inv H. exact A.
  - destruct (cstep g cfg c e) as [c1|] eqn:Es; [|discriminate].
    eapply IH; [|exact H]. eapply cstep_ainv; eauto.
Qed.

Lemma cinit_ainv g base t0 : ainv (cs_cur (cinit g base t0)) (cinit g base t0).
Proof.
  constructor; cbn.
  - unfold restored_cursors. rewrite !map_length. reflexivity.
  - intros k u H. rewrite nth_error_nil' in H. discriminate.
  - intros k u H. rewrite nth_error_nil' in H. discriminate.
  - intros k u H. rewrite nth_error_nil' in H. discriminate.
  - intros k1 k2 u1 u2 _ H. rewrite nth_error_nil' in H. discriminate.
  - intros k l lo hi [].
  - intros j x H. exists x. split; [exact H|lia].
  - intros k u x H. rewrite nth_error_nil' in H. discriminate.
Qed.

Theorem creach_ainv g cfg base t0 c :
  creach g cfg base t0 c -> ainv (cs_cur (cinit g base t0)) c.
Proof. intros [tr H]. eapply crun_ainv; eauto. apply cinit_ainv. Qed.

(** ---- exported allocation facts ---- *)

(** Two different uploads allocated in the same (real) block have disjoint byte
    ranges, both below the block's cursor; every data write of the log lies
    inside the allocation of the upload it belongs to, in that upload's block. *)
Theorem alloc_disjoint g cfg base t0 c : creach g cfg base t0 c ->
  (forall k1 k2 u1 u2, k1 <> k2 ->
     nth_error (cs_ups c) k1 = Some u1 -> nth_error (cs_ups c) k2 = Some u2 ->
     up_abs u1 = up_abs u2 -> up_abs u1 < length (cs_locs c) ->
     (up_off u1 + up_size u1 <= up_off u2 \/ up_off u2 + up_size u2 <= up_off u1)%Z) /\
  (forall k u, nth_error (cs_ups c) k = Some u -> up_abs u < length (cs_locs c) ->
     exists cur, nth_error (cs_cur c) (up_abs u) = Some cur /\ (up_off u + up_size u <= cur)%Z) /\
  (forall k l lo hi, In (IoData k l lo hi) (cs_log c) ->
     exists u, nth_error (cs_ups c) k = Some u /\ nth_error (cs_locs c) (up_abs u) = Some l /\
       (up_off u <= lo /\ lo < hi /\ hi <= up_off u + up_size u)%Z).
Proof.
  intros R. pose proof (creach_ainv _ _ _ _ _ R) as [A1 A2 A3 A4 A5 A6 A7 A8]. splits; auto.
  intros k1 k2 u1 u2 Hne H1 H2 Ea Hl.
  destruct (Nat.lt_ge_cases k1 k2).
  - left. eapply A5; eauto.
  - right. eapply (A5 k2 k1); eauto; try lia; try congruence.
Qed.

(** an upload whose token was [PutClosed] is recognisable: its block index is out of range *)
Theorem closed_upload_out_of_range g cfg base t0 c k u : creach g cfg base t0 c ->
  nth_error (cs_ups c) k = Some u ->
  up_abs u < length (cs_locs c) \/
  (closedForWriting (s_pbl (cs_sys c)) = true /\ up_abs u = length (cs_locs c)).
Proof. intros R H. eapply (ai_closed _ _ (creach_ainv _ _ _ _ _ R)); eauto. Qed.

Lemma restore_blocks_written alloc init : forall n bl seeds lasts,
  restore_blocks alloc init n = (bl, seeds, lasts) ->
  forall i x, nth_error bl i = Some x ->
    exists b, nth_error init i = Some b /\ b_written x = bs_off b /\ b_loc x = bs_loc b.
Proof.
  induction init as [|bs rest IH]; intros n bl seeds lasts H i x Hi; cbn in H.
  - inv H. rewrite nth_error_nil' in Hi. discriminate.
  - destruct (alloc (bs_loc bs) (bs_off bs)); [|inv H; rewrite nth_error_nil' in Hi; discriminate].
    destruct (restore_blocks alloc rest (S n)) as [[bl' seeds'] lasts'] eqn:E. inv H.
    destruct i as [|i]; cbn in Hi.
    + inv Hi. exists bs. auto.
    + eapply IH; eauto.
Qed.

(** the restored blocks are the entries of the state file, in order *)
Lemma restart_written gm st i b :
  nth_error (blocks (fst (restart gm st))) i = Some b ->
  exists oldest bl h bs, st = Some ((oldest, bl), h) /\ nth_error bl i = Some bs /\
    b_written b = bs_off bs /\ b_loc b = bs_loc bs.
Proof.
  unfold restart. destruct st as [[[oldest bl] h]|].
  - intros H. destruct (pbl_new_fields (fun l _ => gm l) oldest bl) as [_ Hf].
    destruct (restore_blocks (fun l _ => gm l) bl 0) as [[bl' seeds'] lasts'] eqn:Er.
    destruct (Hf _ _ _ eq_refl) as (F1 & _). rewrite F1 in H.
    destruct (restore_blocks_written _ _ _ _ _ _ Er _ _ H) as (bs & B1 & B2 & B3).
    exists oldest, bl, h, bs. auto.
  - cbn. intros H. rewrite nth_error_nil' in H. discriminate.
Qed.

(** NewBlockAtLocation: the cursor of restored block [i] is its restored write
    offset rounded up to a sector, hence at or above it *)
Theorem restored_cursor_rounds_up g base t0 i b : (0 < g_sector g)%Z ->
  nth_error (blocks (fst (restart (geom g) (m_state base)))) i = Some b ->
  nth_error (cs_cur (cinit g base t0)) i = Some (round_up (g_sector g) (b_written b)) /\
  (b_written b <= round_up (g_sector g) (b_written b))%Z /\
  exists oldest bl h bs, m_state base = Some ((oldest, bl), h) /\ nth_error bl i = Some bs /\
    b_written b = bs_off bs /\ b_loc b = bs_loc bs.
Proof.
  intros Hs H. splits.
  - cbn. unfold restored_cursors. rewrite nth_error_map, H. reflexivity.
  - apply round_up_ge. exact Hs.
  - eapply restart_written; eauto.
Qed.

(** cursors never decrease, and every allocation made in a restored block
    starts at or above that block's restored write offset *)
Theorem alloc_above_restored_offset g cfg base t0 c : (0 < g_sector g)%Z ->
  creach g cfg base t0 c ->
  (forall i b, nth_error (blocks (fst (restart (geom g) (m_state base)))) i = Some b ->
     exists cur, nth_error (cs_cur c) i = Some cur /\ (round_up (g_sector g) (b_written b) <= cur)%Z) /\
  (forall k u b, nth_error (cs_ups c) k = Some u ->
     nth_error (blocks (fst (restart (geom g) (m_state base)))) (up_abs u) = Some b ->
     (b_written b <= round_up (g_sector g) (b_written b) /\ round_up (g_sector g) (b_written b) <= up_off u)%Z).
Proof.
  intros Hs R. pose proof (creach_ainv _ _ _ _ _ R) as [A1 A2 A3 A4 A5 A6 A7 A8]. split.
  - intros i b H. destruct (restored_cursor_rounds_up g base t0 i b Hs H) as (C & _). eauto.
  - intros k u b Hu H. destruct (restored_cursor_rounds_up g base t0 _ b Hs H) as (C & G & _).
    split; [exact G|]. eapply A8; eauto.
Qed.

(** how one step changes the cursors *)
Lemma cstep_cur g cfg c e c' : cstep g cfg c e = Some c' ->
  cs_cur c' = cs_cur c \/ cs_cur c' = cs_cur c ++ [0%Z] \/
  exists abs size, (0 <= size)%Z /\ cs_cur c' = upd_nth (cs_cur c) abs (fun o => (o + size)%Z).
Proof.
  intros H. destruct e; cbn [cstep] in H.
  - destruct (closedForWriting _); [apply sys_step_inv in H; destruct H as [s' [_ ->]]; auto|].
    destruct (cs_free c); [apply sys_step_inv in H; destruct H as [s' [_ ->]]; auto|].
    destruct (sys_step _ _ _); [|discriminate]. inv H. auto.
  - apply sys_step_inv in H; destruct H as [s' [_ ->]]; auto.
  - destruct (Z.ltb_spec size 0); [discriminate|].
    destruct (sys_step _ _ _) as [c1|] eqn:Ess; [|discriminate].
    apply sys_step_inv in Ess; destruct Ess as [s' [_ ->]].
    destruct (closedForWriting _); [inv H; auto|].
    destruct (nth_error (cs_cur c) _); [|discriminate]. destruct (nth_error (cs_locs c) _); [|discriminate].
    destruct (_ <=? _)%Z; [|discriminate]. inv H. right. right.
    eexists _, size. split; [lia|reflexivity].
  - destruct (nth_error (cs_ups c) k) as [u|]; [|discriminate].
    destruct (up_state u); try discriminate. destruct (up_loc _ _); [|discriminate].
    destruct (_ && _)%bool; [|discriminate]. inv H. auto.
  - destruct (nth_error (cs_ups c) k) as [u|]; [|discriminate].
    destruct (up_state u); try discriminate. destruct (ok && _)%bool; [discriminate|].
    destruct (up_loc _ _); [|inv H; auto]. destruct (_ && _)%bool; inv H; auto.
  - destruct (nth_error (cs_ups c) k) as [u|]; [|discriminate].
    destruct (nth_error (s_uploads (cs_sys c)) k) as [[[tok sz]|]|]; try discriminate.
    destruct (up_state u); try discriminate. destruct (negb _); [discriminate|].
    destruct (put_finalize _ _ _ _ _) as [[p' fr]|]; [|discriminate].
    destruct (sys_step _ _ _) as [c1|] eqn:Ess; [|discriminate].
    apply sys_step_inv in Ess; destruct Ess as [s' [_ ->]].
    destruct fr.
    2-4: destruct ws; [|discriminate]; inv H; left; destruct (_ <? _); reflexivity.
    destruct (do_writes _ _ _ _ _ _) as [[log' tbl']|]; [|discriminate]. inv H.
    left; destruct (_ <? _); reflexivity.
  - apply sys_step_inv in H; destruct H as [s' [_ ->]]; auto.
  - apply sys_step_inv in H; destruct H as [s' [_ ->]]; auto.
  - destruct (_ && _ && _)%bool; [discriminate|].
    destruct (sys_step _ _ _) as [c1|] eqn:Ess; [|discriminate].
    cbv zeta in H. destruct (release_regions _ _ _ _ _) as [fr hd].
    destruct t; [inv H; auto|].
    destruct (if p_notifies (cs_sys c) then _ else _) as [ncl cat]. inv H. auto.
  - destruct (writing _); [|discriminate]. destruct (_ <? _); [|discriminate]. inv H. auto.
Qed.

(** cursors never decrease *)
Theorem cursor_monotone g cfg tr : forall c c', crun g cfg c tr = Some c' ->
  forall j x, nth_error (cs_cur c) j = Some x -> exists x', nth_error (cs_cur c') j = Some x' /\ (x <= x')%Z.
Proof.
  induction tr as [|e tr IH]; intros c c' H j x Hj; cbn in H.
  - inv H. exists x. split; [exact Hj|lia].
  - destruct (cstep g cfg c e) as [c1|] eqn:Es; [|discriminate].
    assert (exists x1, nth_error (cs_cur c1) j = Some x1 /\ (x <= x1)%Z) as (x1 & H1 & H2).
    { destruct (cstep_cur _ _ _ _ _ Es) as [E|[E|(abs & size & Hs & E)]]; rewrite E.
      - exists x. split; [exact Hj|lia].
      - exists x. split; [apply nth_error_app_some; exact Hj|lia].
      - rewrite nth_error_upd_nth, Hj. destruct (Nat.eqb j abs); cbn; eexists; split; try reflexivity; lia. }
    destruct (IH _ _ H _ _ H1) as (x' & X1 & X2). exists x'. split; [exact X1|lia].
Qed.

Print Assumptions crash_safe_location_strong.
Print Assumptions crash_safe_location.
Print Assumptions creach_cinv.
Print Assumptions alloc_disjoint.
Print Assumptions closed_upload_out_of_range.
Print Assumptions restored_cursor_rounds_up.
Print Assumptions alloc_above_restored_offset.
Print Assumptions cursor_monotone.
