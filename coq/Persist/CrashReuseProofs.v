(** Persist/CrashReuseProofs.v — the "bytes" half of crash safety for the FIRST
    life (base medium = [medium_empty]) of the instrumented transition system
    of Persist/CrashLts.v: the bytes a resolving record designates are, on the
    post-crash data device, the bytes its upload wrote — no surviving write of
    another upload covers them later (region reuse is safe).
    Stdlib only; no axioms. *)
From Coq Require Import List NArith ZArith Bool Arith Lia Permutation.
From BBS Require Import Persist.PBL Persist.PBLProofs Persist.Syncer Persist.SyncerProofs
                        Persist.Crash Persist.CrashLts.
From BBS Require Persist.CrashEpochProofs Persist.CrashAllocProofs.
Import ListNotations.

Module E := BBS.Persist.CrashEpochProofs.
Module A := BBS.Persist.CrashAllocProofs.

Local Notation log := (list (io irec)).

Ltac splits := repeat match goal with |- _ /\ _ => split end.
Ltac inv H := inversion H; subst; clear H.

(** ------------------------------------------------------------------ *)
(** * small facts *)

Lemma loc_eqb_eq a b : loc_eqb a b = true -> a = b.
Proof.
  unfold loc_eqb. destruct a as [a1 a2], b as [b1 b2]. cbn. intros H.
  apply andb_true_iff in H. destruct H as [H1 H2]. apply Z.eqb_eq in H1, H2. congruence.
Qed.

Lemma loc_eqb_refl a : loc_eqb a a = true.
Proof. unfold loc_eqb. rewrite !Z.eqb_refl. reflexivity. Qed.

Lemma nth_error_nil' {T} j : nth_error (@nil T) j = None.
Proof. destruct j; reflexivity. Qed.

(** ------------------------------------------------------------------ *)
(** * [byte_owner]: the last covering write wins *)

Definition covers (w : dwrite) (l : loc) (z : Z) : bool :=
  let '(u, l', lo, hi) := w in loc_eqb l' l && (lo <=? z)%Z && (z <? hi)%Z.
Definition owner (w : dwrite) : nat := fst (fst (fst w)).

Lemma byte_owner_step w ws l z acc :
  byte_owner ws l z (if covers w l z then Some (owner w) else acc) = byte_owner (w :: ws) l z acc.
Proof. destruct w as [[[u l'] lo] hi]. reflexivity. Qed.

Lemma bo_all ws l z k :
  (forall w, In w ws -> covers w l z = true -> owner w = k) -> byte_owner ws l z (Some k) = Some k.
Proof.
  induction ws as [|a ws IH]; intros H; [reflexivity|].
  rewrite <- byte_owner_step. destruct (covers a l z) eqn:Ec.
  - rewrite (H a (or_introl eq_refl) Ec). apply IH. intros w Hw. apply H. right. exact Hw.
  - apply IH. intros w Hw. apply H. right. exact Hw.
Qed.

(** strictly increasing positions, all at or above [lb] *)
Fixpoint inc (lb : nat) (T : list (nat * dwrite)) : Prop :=
  match T with [] => True | x :: t => lb <= fst x /\ inc (S (fst x)) t end.

Lemma inc_weaken T : forall lb lb', lb' <= lb -> inc lb T -> inc lb' T.
Proof. destruct T as [|x t]; cbn; auto. intros lb lb' H [H1 H2]. split; [lia|exact H2]. Qed.

Lemma inc_lb T : forall lb x, inc lb T -> In x T -> lb <= fst x.
Proof.
  induction T as [|y t IH]; intros lb x H Hin; [contradiction|]. cbn in H. destruct H as [H1 H2].
  destruct Hin as [->|Hin]; [exact H1|]. specialize (IH _ _ H2 Hin). lia.
Qed.

Lemma inc_filter f T : forall lb, inc lb T -> inc lb (filter f T).
Proof.
  induction T as [|x t IH]; intros lb H; [exact I|]. cbn in H. destruct H as [H1 H2]. cbn.
  destruct (f x); cbn.
  - split; [exact H1|apply IH; exact H2].
  - eapply inc_weaken; [|apply IH; exact H2]. lia.
Qed.

Lemma inc_select T : forall bs lb, inc lb T -> inc lb (select bs T).
Proof.
  induction T as [|x t IH]; intros bs lb H; [destruct bs; exact I|]. cbn in H. destruct H as [H1 H2].
  destruct bs as [|[|] bs]; cbn; [exact I| |].
  - split; [exact H1|apply IH; exact H2].
  - eapply inc_weaken; [|apply IH; exact H2]. lia.
Qed.

Lemma inc_app T1 : forall lb D T2, lb <= D -> inc lb T1 -> (forall x, In x T1 -> fst x < D) -> inc D T2 ->
  inc lb (T1 ++ T2).
Proof.
  induction T1 as [|x t IH]; intros lb D T2 Hle H1 Hb H2; cbn.
  - eapply inc_weaken; eauto.
  - cbn in H1. destruct H1 as [H1 H1']. split; [exact H1|].
    apply (IH _ D); auto.
    + specialize (Hb x (or_introl eq_refl)). lia.
    + intros y Hy. apply Hb. right. exact Hy.
Qed.

Lemma bo_last (T : list (nat * dwrite)) l z k p w0 : forall lb,
  inc lb T -> In (p, w0) T -> covers w0 l z = true -> owner w0 = k ->
  (forall p' w, In (p', w) T -> p < p' -> covers w l z = true -> owner w = k) ->
  forall acc, byte_owner (map snd T) l z acc = Some k.
Proof.
  induction T as [|x t IH]; intros lb Hi Hin Hc Ho Hafter acc; [contradiction|].
  cbn in Hi. destruct Hi as [Hi1 Hi2]. cbn [map]. rewrite <- byte_owner_step.
  destruct Hin as [->|Hin].
  - cbn [snd]. rewrite Hc, Ho. apply bo_all. intros w Hw Hcw.
    apply in_map_iff in Hw. destruct Hw as [[p' w'] [E Hw]]. cbn in E. subst w'.
    apply (Hafter p' w); auto. right. exact Hw.
    pose proof (inc_lb _ _ _ Hi2 Hw) as Hl. cbn in Hl. lia.
  - eapply (IH _ Hi2 Hin Hc Ho). intros p' w Hw. apply Hafter. right. exact Hw.
Qed.

(** [data_from]: tagged with the log positions *)
Lemma data_from_in (L : log) : forall s p w, In (p, w) (data_from s L) <->
  s <= p /\ exists u lc lo hi, w = (u, lc, lo, hi) /\ nth_error L (p - s) = Some (IoData u lc lo hi).
Proof.
  induction L as [|e L IH]; intros s p w.
  - cbn. split; [contradiction|]. intros [_ (u & lc & lo & hi & _ & H)]. rewrite nth_error_nil' in H. discriminate.
  - assert (Hrec : In (p, w) (data_from (S s) L) <->
       s <= p /\ p <> s /\ exists u lc lo hi, w = (u, lc, lo, hi) /\ nth_error (e :: L) (p - s) = Some (IoData u lc lo hi)).
    { rewrite IH. split.
      - intros [H1 (u & lc & lo & hi & E & H)]. splits; [lia|lia|]. exists u, lc, lo, hi. split; [exact E|].
        replace (p - s) with (S (p - S s)) by lia. exact H.
      - intros [H1 [H2 (u & lc & lo & hi & E & H)]]. split; [lia|]. exists u, lc, lo, hi. split; [exact E|].
        replace (p - s) with (S (p - S s)) in H by lia. exact H. }
    destruct e; cbn [data_from]; try (rewrite Hrec; split;
      [intros [H1 [H2 H3]]; auto
      |intros [H1 (u0 & lc & lo0 & hi0 & E & H)]; splits; auto;
       [intros ->; rewrite Nat.sub_diag in H; cbn in H; discriminate|eauto 10]]).
    cbn [In]. rewrite Hrec. split.
    + intros [H|[H1 [H2 H3]]]; [|auto]. inv H. split; [lia|]. rewrite Nat.sub_diag. cbn. eauto 10.
    + intros [H1 (u0 & lc & lo0 & hi0 & E & H)]. destruct (Nat.eq_dec p s) as [->|Hne].
      * left. rewrite Nat.sub_diag in H. cbn in H. inv H. reflexivity.
      * right. splits; auto. eauto 10.
Qed.

Lemma data_from_inc (L : log) : forall s, inc s (data_from s L).
Proof.
  induction L as [|e L IH]; intros s; [exact I|].
  destruct e; cbn [data_from]; try (eapply inc_weaken; [|apply IH]; lia).
  cbn. split; [lia|apply IH].
Qed.

Lemma select_map {X Y} (f : X -> Y) : forall bs xs, select bs (map f xs) = map f (select bs xs).
Proof.
  induction bs as [|b bs IH]; intros [|x xs]; cbn; auto. destruct b; cbn; rewrite IH; reflexivity.
Qed.

Lemma select_in {T} bs : forall (xs : list T) x, In x (select bs xs) -> In x xs.
Proof.
  induction bs as [|b bs IH]; intros [|y xs] x H; cbn in H; try contradiction.
  destruct b; cbn in *; [destruct H as [H|H]; auto|auto].
Qed.

(** the surviving data writes, as one position-tagged increasing list *)
Definition surv (L : log) (bs : list bool) : list (nat * dwrite) :=
  filter (fun e => fst e <? durable_upto L) (data_from 0 L) ++
  select bs (filter (fun e => negb (fst e <? durable_upto L)) (data_from 0 L)).

Lemma surv_data L bs : data_durable L ++ select bs (data_pending L) = map snd (surv L bs).
Proof. unfold surv, data_durable, data_pending. rewrite map_app, select_map. reflexivity. Qed.

Lemma surv_inc L bs : inc 0 (surv L bs).
Proof.
  unfold surv. apply (inc_app _ 0 (durable_upto L)); [lia| | |].
  - apply inc_filter. apply data_from_inc.
  - intros x Hx. apply filter_In in Hx. destruct Hx as [_ Hx]. apply Nat.ltb_lt in Hx. exact Hx.
  - assert (H : forall T lb, inc lb T -> (forall x, In x T -> durable_upto L <= fst x) -> inc (durable_upto L) T).
    { induction T as [|x t IHt]; intros lb Hi Hb; [exact I|]. cbn in Hi. destruct Hi as [H1 H2]. cbn.
      split; [apply Hb; left; reflexivity|exact H2]. }
    apply (H _ 0).
    + apply inc_select. apply inc_filter. apply data_from_inc.
    + intros x Hx. apply select_in in Hx. apply filter_In in Hx. destruct Hx as [_ Hx].
      apply negb_true_iff in Hx. apply Nat.ltb_ge in Hx. exact Hx.
Qed.

Lemma surv_in L bs p w : In (p, w) (surv L bs) ->
  exists u lc lo hi, w = (u, lc, lo, hi) /\ nth_error L p = Some (IoData u lc lo hi).
Proof.
  unfold surv. intros H. apply in_app_iff in H.
  assert (Hd : In (p, w) (data_from 0 L)).
  { destruct H as [H|H]; [|apply select_in in H]; apply filter_In in H; tauto. }
  apply data_from_in in Hd. destruct Hd as [_ Hd]. rewrite Nat.sub_0_r in Hd. exact Hd.
Qed.

Lemma surv_durable L bs p u lc lo hi : nth_error L p = Some (IoData u lc lo hi) -> p < durable_upto L ->
  In (p, (u, lc, lo, hi)) (surv L bs).
Proof.
  intros H Hd. unfold surv. apply in_app_iff. left. apply filter_In. split.
  - apply data_from_in. split; [lia|]. rewrite Nat.sub_0_r. eauto 10.
  - cbn. apply Nat.ltb_lt. exact Hd.
Qed.

(** the owner of a byte after a crash at log [L]: a durable covering write of
    [k] after which no other upload's covering write occurs in [L] *)
Theorem owner_of_last_write (L : log) ch l z k p lc lo hi :
  nth_error L p = Some (IoData k lc lo hi) -> p < durable_upto L ->
  covers (k, lc, lo, hi) l z = true ->
  (forall p' k' l' lo' hi', p < p' -> nth_error L p' = Some (IoData k' l' lo' hi') ->
     covers (k', l', lo', hi') l z = true -> k' = k) ->
  byte_owner (m_data (crash_medium medium_empty L ch)) l z None = Some k.
Proof.
  intros Hp Hd Hc Hafter. unfold crash_medium. destruct (dir_crash _ _ _) as [st nw]. cbn [m_data medium_empty app].
  rewrite surv_data. eapply (bo_last _ l z k p (k, lc, lo, hi) 0).
  - apply surv_inc.
  - apply surv_durable; assumption.
  - exact Hc.
  - reflexivity.
  - intros p' w Hin Hlt Hcw. apply surv_in in Hin. destruct Hin as (u & lc' & lo' & hi' & -> & Hn).
    cbn. eapply Hafter; eauto.
Qed.


(** ------------------------------------------------------------------ *)
(** * the underlying Syncer step; [inv1] and [inv3] along a run *)

Lemma cstep_sys g cfg c e c' : cstep g cfg c e = Some c' ->
  cs_sys c' = cs_sys c \/ exists ev, step cfg (cs_sys c) ev = Some (Ok (cs_sys c')).
Proof.
  intros H. destruct e; cbn [cstep] in H.
  - destruct (closedForWriting _);
      [apply A.sys_step_inv in H; destruct H as [s' [Hs ->]]; right; eexists; exact Hs|].
    destruct (cs_free c);
      [apply A.sys_step_inv in H; destruct H as [s' [Hs ->]]; right; eexists; exact Hs|].
    destruct (sys_step _ _ _) as [c1|] eqn:Ess; [|discriminate]. inv H.
    apply A.sys_step_inv in Ess. destruct Ess as [s' [Hs ->]]. right; eexists; exact Hs.
  - apply A.sys_step_inv in H; destruct H as [s' [Hs ->]]; right; eexists; exact Hs.
  - destruct (size <? 0)%Z; [discriminate|].
    destruct (sys_step _ _ _) as [c1|] eqn:Ess; [|discriminate].
    apply A.sys_step_inv in Ess; destruct Ess as [s' [Hs ->]].
    destruct (closedForWriting _); [inv H; right; eexists; exact Hs|].
    destruct (nth_error (cs_cur c) _); [|discriminate]. destruct (nth_error (cs_locs c) _); [|discriminate].
    destruct (_ <=? _)%Z; [|discriminate]. inv H. right; eexists; exact Hs.
  - destruct (nth_error (cs_ups c) k) as [u|]; [|discriminate].
    destruct (up_state u); try discriminate. destruct (up_loc _ _); [|discriminate].
    destruct (_ && _)%bool; [|discriminate]. inv H. left; reflexivity.
  - destruct (nth_error (cs_ups c) k) as [u|]; [|discriminate].
    destruct (up_state u); try discriminate. destruct (ok && _)%bool; [discriminate|].
    destruct (up_loc _ _); [|inv H; left; reflexivity]. destruct (_ && _)%bool; inv H; left; reflexivity.
  - destruct (nth_error (cs_ups c) k) as [u|]; [|discriminate].
    destruct (nth_error (s_uploads (cs_sys c)) k) as [[[tok sz]|]|]; try discriminate.
    destruct (up_state u); try discriminate. destruct (negb _); [discriminate|].
    destruct (put_finalize _ _ _ _ _) as [[p' fr]|]; [|discriminate].
    destruct (sys_step _ _ _) as [c1|] eqn:Ess; [|discriminate].
    apply A.sys_step_inv in Ess; destruct Ess as [s' [Hs ->]].
    destruct fr.
    2-4: destruct ws; [|discriminate]; inv H; destruct (_ <? _); right; eexists; exact Hs.
    destruct (do_writes _ _ _ _ _ _) as [[log' tbl']|]; [|discriminate]. inv H.
    destruct (_ <? _); right; eexists; exact Hs.
  - apply A.sys_step_inv in H; destruct H as [s' [Hs ->]]; right; eexists; exact Hs.
  - apply A.sys_step_inv in H; destruct H as [s' [Hs ->]]; right; eexists; exact Hs.
  - destruct (_ && _ && _)%bool; [discriminate|].
    destruct (sys_step _ _ _) as [c1|] eqn:Ess; [|discriminate].
    apply A.sys_step_inv in Ess; destruct Ess as [s' [Hs ->]].
    cbv zeta in H. destruct (release_regions _ _ _ _ _) as [fr hd].
    destruct t.
    + inv H. match goal with |- context [if ?b then with_dirpc _ 0 else _] => destruct b end; right; eexists; exact Hs.
    + destruct (if p_notifies (cs_sys c) then _ else _) as [ncl cat]. inv H.
      match goal with |- context [if ?b then with_dirpc _ 0 else _] => destruct b end; right; eexists; exact Hs.
  - destruct (writing _); [|discriminate]. destruct (_ <? _); [|discriminate]. inv H. left; reflexivity.
Qed.

Lemma cstep_sysinv g cfg c e c' : inv1 (cs_sys c) -> inv3 (cs_sys c) -> cstep g cfg c e = Some c' ->
  inv1 (cs_sys c') /\ inv3 (cs_sys c').
Proof.
  intros I1 I3 H. destruct (cstep_sys _ _ _ _ _ H) as [E|[ev Hs]].
  - rewrite E. auto.
  - destruct (step_inv1 _ _ _ _ I1 Hs) as [s2 [E [I1' _]]]. inv E. split; [exact I1'|].
    eapply step_inv3; eauto.
Qed.

Lemma crun_sysinv g cfg tr : forall c c', inv1 (cs_sys c) -> inv3 (cs_sys c) -> crun g cfg c tr = Some c' ->
  inv1 (cs_sys c') /\ inv3 (cs_sys c').
Proof.
  induction tr as [|e tr IH]; intros c c' I1 I3 H; cbn in H.
  - inv H. auto.
  - destruct (cstep g cfg c e) as [c1|] eqn:Es; [|discriminate].
    destruct (cstep_sysinv _ _ _ _ _ I1 I3 Es) as [J1 J3]. eapply IH; eauto.
Qed.

Lemma creach_sysinv g cfg t0 c : creach g cfg medium_empty t0 c -> inv1 (cs_sys c) /\ inv3 (cs_sys c).
Proof.
  intros [tr H]. eapply crun_sysinv; [| |exact H].
  - cbn. apply (init_inv1 (fun l _ => geom g l) 1%N [] t0).
  - apply init_inv3.
Qed.

(** ------------------------------------------------------------------ *)
(** * one summary of what each event does to the fields the invariants look at *)

Definition obs (c : cst) :=
  (s_pbl (cs_sys c), s_r (cs_sys c), s_p (cs_sys c), cs_log c, cs_ups c, cs_locs c, cs_free c, cs_held c,
   cs_dirpc c, cs_seeds c, cs_elast c).

Definition same_pcs (c c' : cst) : Prop :=
  s_r (cs_sys c') = s_r (cs_sys c) /\ s_p (cs_sys c') = s_p (cs_sys c).
Definition same_alloc3 (c c' : cst) : Prop :=
  cs_locs c' = cs_locs c /\ cs_free c' = cs_free c /\ cs_held c' = cs_held c.
Definition same_ghost (c c' : cst) : Prop :=
  cs_seeds c' = cs_seeds c /\ cs_elast c' = cs_elast c.

Definition isindex (e : io irec) : Prop := match e with IoIndex _ _ => True | _ => False end.
Definition issync (e : io irec) : Prop := match e with IoSyncBegin | IoSyncEnd _ => True | _ => False end.

Definition set_issued (n : Z) (u : upinfo) : upinfo :=
  mkUp (up_key u) (up_abs u) (up_off u) (up_size u) (up_issued u + n)%Z (up_state u).
Definition set_state (st : upstate) (u : upinfo) : upinfo :=
  mkUp (up_key u) (up_abs u) (up_off u) (up_size u) (up_issued u) st.

Inductive eff (g : geo) (cfg : config) (c c' : cst) : cev -> Prop :=
| eff_triv e : obs c' = obs c -> eff g cfg c c' e
| eff_push l fr :
    closedForWriting (s_pbl (cs_sys c)) = false -> cs_free c = l :: fr ->
    s_pbl (cs_sys c') = set_blocks (s_pbl (cs_sys c)) (blocks (s_pbl (cs_sys c)) ++ [mkBinfo l 0 0 0 0]) ->
    same_pcs c c' -> cs_log c' = cs_log c -> cs_ups c' = cs_ups c -> cs_dirpc c' = cs_dirpc c -> same_ghost c c' ->
    cs_locs c' = cs_locs c ++ [l] -> cs_free c' = fr -> cs_held c' = cs_held c ->
    eff g cfg c c' CPush
| eff_pop p' :
    pop_front (s_pbl (cs_sys c)) = Ok p' -> s_pbl (cs_sys c') = p' ->
    same_pcs c c' -> cs_log c' = cs_log c -> cs_ups c' = cs_ups c -> cs_dirpc c' = cs_dirpc c -> same_ghost c c' ->
    same_alloc3 c c' -> eff g cfg c c' CPop
| eff_putstart index key size u :
    s_pbl (cs_sys c') = s_pbl (cs_sys c) ->
    same_pcs c c' -> cs_log c' = cs_log c -> cs_ups c' = cs_ups c ++ [u] -> cs_dirpc c' = cs_dirpc c -> same_ghost c c' ->
    same_alloc3 c c' -> up_issued u = 0%Z ->
    (up_open u = true -> exists l, up_abs u = totalReleased (s_pbl (cs_sys c)) + index /\
        nth_error (cs_locs c) (up_abs u) = Some l) ->
    eff g cfg c c' (CPutStart index key size)
| eff_data k n u l :
    nth_error (cs_ups c) k = Some u -> up_state u = UpWriting -> nth_error (cs_locs c) (up_abs u) = Some l ->
    (0 < n)%Z -> (up_issued u + n <= up_size u)%Z ->
    cs_sys c' = cs_sys c ->
    cs_log c' = cs_log c ++ [IoData k l (up_off u + up_issued u) (up_off u + up_issued u + n)%Z] ->
    cs_ups c' = upd_nth (cs_ups c) k (set_issued n) -> cs_dirpc c' = cs_dirpc c -> same_ghost c c' -> same_alloc3 c c' ->
    eff g cfg c c' (CData k n)
| eff_wdone k ok u :
    nth_error (cs_ups c) k = Some u -> up_state u = UpWriting ->
    cs_sys c' = cs_sys c -> cs_log c' = cs_log c ->
    cs_ups c' = upd_nth (cs_ups c) k (set_state (UpDone ok)) -> cs_dirpc c' = cs_dirpc c -> same_ghost c c' ->
    cs_locs c' = cs_locs c ->
    ((cs_free c' = cs_free c /\ cs_held c' = cs_held c) \/
     (exists l, existsb (loc_eqb l) (cs_held c) = true /\ writer_open_on (cs_locs c') (cs_ups c') l = false /\
        cs_free c' = cs_free c ++ [l] /\ cs_held c' = remove_loc (cs_held c) l)) ->
    eff g cfg c c' (CWriterDone k ok)
| eff_fin k seed ws u ok tok size p' fr b extra sd' el' :
    nth_error (cs_ups c) k = Some u -> up_state u = UpDone ok ->
    put_finalize tok (if ok then Some (up_off u) else None) size seed (s_pbl (cs_sys c)) = Ok (p', fr) ->
    s_pbl (cs_sys c') = p' -> same_pcs c c' ->
    cs_log c' = cs_log c ++ extra -> Forall isindex extra ->
    cs_ups c' = upd_nth (cs_ups c) k (set_state (UpFin b)) -> cs_dirpc c' = cs_dirpc c ->
    cs_seeds c' = cs_seeds c ++ sd' -> cs_elast c' = cs_elast c ++ el' -> same_alloc3 c c' ->
    eff g cfg c c' (CFinalize k seed ws)
| eff_thread t a s' rel fr hd extra :
    step cfg (cs_sys c) (EStep t a) = Some (Ok s') ->
    thread_writing (cs_sys c) t && a_ok a && negb (cs_dirpc c =? dir_ops_total) = false ->
    releasedLog (s_pbl s') = releasedLog (s_pbl (cs_sys c)) ++ rel ->
    toRelease (s_pbl (cs_sys c)) = rel ++ toRelease (s_pbl s') ->
    release_regions (cs_locs c) (cs_ups c) rel (cs_free c) (cs_held c) = (fr, hd) ->
    cs_sys c' = s' -> cs_log c' = cs_log c ++ extra -> Forall issync extra ->
    cs_ups c' = cs_ups c -> cs_locs c' = cs_locs c -> cs_free c' = fr -> cs_held c' = hd -> same_ghost c c' ->
    cs_dirpc c' = (if thread_at_getstate (cs_sys c) t then 0 else cs_dirpc c) ->
    eff g cfg c c' (CStep t a)
| eff_dir st :
    writing (cs_sys c) = Some st -> cs_dirpc c < dir_ops_total ->
    cs_sys c' = cs_sys c -> cs_log c' = cs_log c ++ [dir_op (cs_dirpc c) (st, g_hinit g)] ->
    cs_ups c' = cs_ups c -> cs_dirpc c' = S (cs_dirpc c) -> same_ghost c c' -> same_alloc3 c c' ->
    eff g cfg c c' CDir.

Lemma do_writes_app p k u ws : forall lg tbl lg' tbl',
  do_writes p k u ws lg tbl = Some (lg', tbl') -> exists extra, lg' = lg ++ extra /\ Forall isindex extra.
Proof.
  induction ws as [|w ws IH]; intros lg tbl lg' tbl' H; cbn [do_writes] in H.
  - inv H. exists []. rewrite app_nil_r. auto.
  - destruct w as [slot|from to].
    + destruct (_ <? _); [discriminate|]. destruct (mk_rec _ _ _ _ _ _) as [r|]; [|discriminate].
      destruct (IH _ _ _ _ H) as [ex [E F]]. exists (IoIndex slot r :: ex). rewrite E, <- app_assoc. split; [reflexivity|].
      constructor; [exact I|exact F].
    + destruct (slot_get tbl from None) as [r0|]; [|discriminate].
      destruct (live_index p r0) as [i|]; [|discriminate].
      destruct (mk_rec _ _ _ _ _ _) as [r|]; [|discriminate].
      destruct (IH _ _ _ _ H) as [ex [E F]]. exists (IoIndex to r :: ex). rewrite E, <- app_assoc. split; [reflexivity|].
      constructor; [exact I|exact F].
Qed.

Lemma cstep_eff g cfg c e c' : cstep g cfg c e = Some c' -> eff g cfg c c' e.
Proof.
  intros H. destruct e; cbn [cstep] in H.
  - (* push *)
    assert (Hnone : forall c0, sys_step cfg c (EPushBack None) = Some c0 -> eff g cfg c c0 CPush).
    { intros c0 H0. apply A.sys_step_inv in H0. destruct H0 as [s' [Hs ->]]. cbn [step] in Hs. inv Hs.
      apply eff_triv. unfold obs, push_back. cbn. destruct (closedForWriting (s_pbl (cs_sys c))); reflexivity. }
    destruct (closedForWriting (s_pbl (cs_sys c))) eqn:Ec; [auto|].
    destruct (cs_free c) as [|l fr] eqn:Ef; [auto|].
    destruct (sys_step cfg c (EPushBack (Some l))) as [c1|] eqn:Ess; [|discriminate]. inv H.
    apply A.sys_step_inv in Ess. destruct Ess as [s' [Hs ->]]. cbn [step] in Hs. inv Hs.
    eapply (eff_push _ _ _ _ l fr); unfold same_pcs, same_ghost; cbn; auto.
    unfold push_back. rewrite Ec. reflexivity.
  - (* pop *)
    apply A.sys_step_inv in H. destruct H as [s' [Hs ->]]. cbn [step] in Hs.
    destruct (blocks (s_pbl (cs_sys c))); [discriminate|].
    destruct (pop_front (s_pbl (cs_sys c))) as [p'|] eqn:Ep; [|discriminate]. inv Hs.
    eapply eff_pop; unfold same_pcs, same_ghost, same_alloc3; cbn; eauto.
  - (* putstart *)
    destruct (size <? 0)%Z; [discriminate|].
    destruct (sys_step cfg c (EPutStart index size)) as [c1|] eqn:Ess; [|discriminate].
    apply A.sys_step_inv in Ess. destruct Ess as [s' [Hs ->]]. cbn [step] in Hs.
    destruct (closedForWriting (s_pbl (cs_sys c)) || (index <? length (blocks (s_pbl (cs_sys c))))); [|discriminate].
    destruct (put_start index (s_pbl (cs_sys c))); [|discriminate]. inv Hs.
    destruct (closedForWriting (s_pbl (cs_sys c))) eqn:Ec.
    + inv H. eapply eff_putstart; unfold same_pcs, same_ghost, same_alloc3; cbn; eauto. discriminate.
    + destruct (nth_error (cs_cur c) _) as [off|]; [|discriminate].
      destruct (nth_error (cs_locs c) _) as [l|] eqn:El; [|discriminate].
      destruct (_ <=? _)%Z; [|discriminate]. inv H.
      eapply eff_putstart; unfold same_pcs, same_ghost, same_alloc3; cbn; eauto.
  - (* data *)
    destruct (nth_error (cs_ups c) k) as [u|] eqn:Eu; [|discriminate].
    destruct (up_state u) eqn:Es; try discriminate.
    unfold up_loc in H. destruct (nth_error (cs_locs c) (up_abs u)) as [l|] eqn:El; [|discriminate].
    destruct (Z.ltb_spec 0 n); [|discriminate]. destruct (Z.leb_spec (up_issued u + n) (up_size u)); [|discriminate].
    cbn [andb] in H. inv H.
    eapply eff_data; unfold same_pcs, same_ghost, same_alloc3; cbn; eauto.
  - (* writer done *)
    destruct (nth_error (cs_ups c) k) as [u|] eqn:Eu; [|discriminate].
    destruct (up_state u) eqn:Es; try discriminate.
    destruct (ok && _)%bool; [discriminate|].
    unfold up_loc in H. destruct (nth_error (cs_locs c) (up_abs u)) as [l|] eqn:El.
    2:{ inv H. eapply eff_wdone; unfold same_ghost; cbn; eauto. }
    destruct (existsb (loc_eqb l) (cs_held c)) eqn:Eh.
    2:{ cbn [andb] in H. inv H. eapply eff_wdone; unfold same_ghost; cbn; eauto. }
    cbn [andb] in H. destruct (writer_open_on _ _ l) eqn:Ew; cbn [negb] in H; inv H.
    + eapply eff_wdone; unfold same_ghost; cbn; eauto.
    + eapply eff_wdone; unfold same_ghost; cbn; eauto. right. exists l. auto.
  - (* finalize *)
    destruct (nth_error (cs_ups c) k) as [u|] eqn:Eu; [|discriminate].
    destruct (nth_error (s_uploads (cs_sys c)) k) as [[[tok size]|]|] eqn:Et; try discriminate.
    destruct (up_state u) as [|ok|] eqn:Eus; try discriminate.
    destruct (negb (fresh c seed)); [discriminate|].
    destruct (put_finalize tok (if ok then Some (up_off u) else None) size seed (s_pbl (cs_sys c)))
      as [[p' fr]|] eqn:Epf; [|discriminate].
    destruct (sys_step cfg c (EFinalize k (if ok then Some (up_off u) else None) seed)) as [c1|] eqn:Ess;
      [|discriminate].
    apply A.sys_step_inv in Ess. destruct Ess as [s1 [Hs ->]]. cbn [step] in Hs. rewrite Et, Epf in Hs. inv Hs.
    destruct fr as [off| | |].
    2-4: destruct ws; [|discriminate]; inv H;
      destruct (length (epochSeeds (s_pbl (cs_sys c))) <? length (epochSeeds p'));
      [eapply (eff_fin _ _ _ _ _ _ _ _ _ _ _ _ _ false [] [_] [_])
      |eapply (eff_fin _ _ _ _ _ _ _ _ _ _ _ _ _ false [] [] [])];
      unfold same_pcs, same_alloc3; cbn; rewrite ?app_nil_r; eauto.
    destruct (do_writes p' k u ws (cs_log c) (cs_tbl c)) as [[log' tbl']|] eqn:Edw; [|discriminate]. inv H.
    destruct (do_writes_app _ _ _ _ _ _ _ _ Edw) as [extra [-> Hex]].
    destruct (length (epochSeeds (s_pbl (cs_sys c))) <? length (epochSeeds p'));
      [eapply (eff_fin _ _ _ _ _ _ _ _ _ _ _ _ _ true extra [_] [_])
      |eapply (eff_fin _ _ _ _ _ _ _ _ _ _ _ _ _ true extra [] [])];
      unfold same_pcs, same_alloc3; cbn; rewrite ?app_nil_r; eauto.
  - (* tick *)
    apply A.sys_step_inv in H. destruct H as [s' [Hs ->]]. cbn [step] in Hs. inv Hs. apply eff_triv. reflexivity.
  - (* cancel *)
    apply A.sys_step_inv in H. destruct H as [s' [Hs ->]]. cbn [step] in Hs. inv Hs. apply eff_triv. reflexivity.
  - (* thread *)
    destruct (thread_writing _ t && a_ok a && negb _) eqn:Eg; [discriminate|].
    destruct (sys_step cfg c (EStep t a)) as [c1|] eqn:Ess; [|discriminate].
    apply A.sys_step_inv in Ess. destruct Ess as [s' [Hs ->]].
    destruct (A.estep_effect _ _ _ _ _ Hs) as (U & S & R & P).
    pose proof S as (S1 & S2 & S3 & S4 & S5 & S6' & rel & S6 & S7).
    assert (Hrel : skipn (length (releasedLog (s_pbl (cs_sys c)))) (releasedLog (s_pbl s')) = rel).
    { rewrite S6, skipn_app, skipn_all, Nat.sub_diag. reflexivity. }
    cbn [cs_sys with_sys] in H. cbv zeta in H. rewrite Hrel in H. clear Hrel.
    cbn [cs_locs cs_ups cs_free cs_held cs_cur cs_log cs_seeds with_sys] in H.
    destruct (release_regions (cs_locs c) (cs_ups c) rel (cs_free c) (cs_held c)) as [fr hd] eqn:Err.
    destruct t.
    + inv H. eapply (eff_thread _ _ _ _ TR a s' rel fr hd []); unfold same_ghost; eauto;
        try (unfold thread_at_getstate; match goal with |- context [if ?b then with_dirpc _ 0 else _] => destruct b end; cbn; rewrite ?app_nil_r; auto).
    + destruct (if p_notifies (cs_sys c) then _ else _) as [ncl cat]. inv H.
      eapply (eff_thread _ _ _ _ TP a s' rel fr hd
                (if p_syncing (cs_sys c) then [IoSyncEnd (a_ok a)] else if p_syncing s' then [IoSyncBegin] else []));
        unfold same_ghost; eauto;
        try (unfold thread_at_getstate; match goal with |- context [if ?b then with_dirpc _ 0 else _] => destruct b end; cbn; auto).
      * destruct (p_syncing (cs_sys c)); [|destruct (p_syncing s')]; rewrite ?app_nil_r; reflexivity.
      * destruct (p_syncing (cs_sys c)); [|destruct (p_syncing s')]; rewrite ?app_nil_r; reflexivity.
      * destruct (p_syncing (cs_sys c)); [|destruct (p_syncing s')]; repeat constructor.
  - (* dir *)
    destruct (writing (cs_sys c)) as [st|] eqn:Ew; [|discriminate].
    destruct (Nat.ltb_spec (cs_dirpc c) dir_ops_total); [|discriminate]. inv H.
    eapply eff_dir; unfold same_ghost, same_alloc3; cbn; eauto.
Qed.

Lemma obs_fields c c' : obs c' = obs c ->
  s_pbl (cs_sys c') = s_pbl (cs_sys c) /\ s_r (cs_sys c') = s_r (cs_sys c) /\ s_p (cs_sys c') = s_p (cs_sys c) /\
  cs_log c' = cs_log c /\ cs_ups c' = cs_ups c /\ cs_locs c' = cs_locs c /\ cs_free c' = cs_free c /\
  cs_held c' = cs_held c /\ cs_dirpc c' = cs_dirpc c /\ cs_seeds c' = cs_seeds c /\ cs_elast c' = cs_elast c.
Proof. unfold obs. intros H. inversion H. splits; reflexivity. Qed.

(** ------------------------------------------------------------------ *)
(** * list helpers *)

Lemma F2_nth_r {X Y} (R : X -> Y -> Prop) l1 l2 : Forall2 R l1 l2 ->
  forall k b, nth_error l2 k = Some b -> exists a, nth_error l1 k = Some a /\ R a b.
Proof.
  induction 1 as [|x y l1 l2 Hxy F IH]; intros [|k] b Hk; cbn in *; try discriminate.
  - inv Hk. eauto.
  - eauto.
Qed.

Lemma F2_refl {X} (R : X -> X -> Prop) l : (forall x, R x x) -> Forall2 R l l.
Proof. intros H. induction l; constructor; auto. Qed.

Lemma F2_upd {X} (R : X -> X -> Prop) f l : (forall x, R x x) -> (forall x, R x (f x)) ->
  forall k, Forall2 R l (upd_nth l k f).
Proof.
  intros H1 H2. induction l as [|x l IH]; intros [|k]; cbn; constructor; auto. apply F2_refl. exact H1.
Qed.

Definition nodata (e : io irec) : Prop := match e with IoData _ _ _ _ => False | _ => True end.

Lemma nth_app_nodata (L extra : log) p k l lo hi : Forall nodata extra ->
  nth_error (L ++ extra) p = Some (IoData k l lo hi) -> nth_error L p = Some (IoData k l lo hi).
Proof.
  intros Hn H. destruct (Nat.lt_ge_cases p (length L)) as [Hl|Hl].
  - rewrite nth_error_app1 in H by exact Hl. exact H.
  - rewrite nth_error_app2 in H by exact Hl. apply nth_error_In in H.
    rewrite Forall_forall in Hn. destruct (Hn _ H).
Qed.

Lemma isindex_nodata extra : Forall isindex extra -> Forall nodata extra.
Proof. intros H. eapply Forall_impl; [|exact H]. intros [] Hx; cbn in *; auto. Qed.
Lemma issync_nodata extra : Forall issync extra -> Forall nodata extra.
Proof. intros H. eapply Forall_impl; [|exact H]. intros [] Hx; cbn in *; auto. Qed.

Lemma nodup_app_disj {X} (l1 l2 : list X) x : NoDup (l1 ++ l2) -> In x l1 -> In x l2 -> False.
Proof.
  induction l1 as [|y l1 IH]; cbn; [tauto|]. intros H [->|H1] H2.
  - inv H. apply H3. apply in_app_iff. auto.
  - inv H. eauto.
Qed.

Lemma nodup_app_l {X} (l1 l2 : list X) : NoDup (l1 ++ l2) -> NoDup l1.
Proof.
  induction l1 as [|y l1 IH]; cbn; intros H; [constructor|]. inv H. constructor; auto.
  intros Hin. apply H2. apply in_app_iff. auto.
Qed.

Lemma nodup_app_r {X} (l1 l2 : list X) : NoDup (l1 ++ l2) -> NoDup l2.
Proof. induction l1 as [|y l1 IH]; cbn; intros H; [exact H|]. inv H. auto. Qed.

Lemma remove_loc_perm held l : existsb (loc_eqb l) held = true -> Permutation held (l :: remove_loc held l).
Proof.
  induction held as [|y t IH]; cbn; [discriminate|].
  rewrite (A.loc_eqb_sym y l). destruct (loc_eqb l y) eqn:E; cbn.
  - intros _. apply loc_eqb_eq in E. subst y. reflexivity.
  - intros H. eapply Permutation_trans; [apply perm_skip; apply IH; exact H|]. apply perm_swap.
Qed.

Lemma woo_false locs ups l : writer_open_on locs ups l = false <->
  (forall k u, nth_error ups k = Some u -> up_open u = true -> nth_error locs (up_abs u) = Some l -> False).
Proof.
  unfold writer_open_on. split.
  - intros H k u Hk Ho Hl.
    assert (existsb (fun u => up_open u && loc_opt_eqb (up_loc locs u) l) ups = true); [|congruence].
    apply existsb_exists. exists u. split; [eapply nth_error_In; eauto|].
    rewrite Ho. unfold up_loc, loc_opt_eqb. rewrite Hl. apply loc_eqb_refl.
  - intros H. destruct (existsb _ ups) eqn:E; [|reflexivity]. exfalso.
    apply existsb_exists in E. destruct E as [u [Hin Hb]]. apply andb_true_iff in Hb. destruct Hb as [Ho Hl].
    apply In_nth_error in Hin. destruct Hin as [k Hk].
    unfold up_loc, loc_opt_eqb in Hl. destruct (nth_error locs (up_abs u)) as [x|] eqn:Ex; [|discriminate].
    apply loc_eqb_eq in Hl. subst x. eapply H; eauto.
Qed.

Lemma release_regions_spec locs ups rel : forall free held fr hd,
  release_regions locs ups rel free held = (fr, hd) ->
  Permutation (fr ++ hd) (rel ++ free ++ held) /\
  (forall l, In l fr -> In l free \/ writer_open_on locs ups l = false) /\
  (forall l, In l (fr ++ hd) -> In l (free ++ held) \/ In l rel).
Proof.
  induction rel as [|l t IH]; intros free held fr hd H; cbn in H.
  - inv H. cbn. splits; auto.
  - destruct (writer_open_on locs ups l) eqn:Ew; apply IH in H; destruct H as (P & F & M); splits.
    + eapply Permutation_trans; [exact P|]. cbn. rewrite !app_assoc. symmetry. apply Permutation_cons_append.
    + exact F.
    + intros l0 Hl. destruct (M l0 Hl) as [Hm|Hm]; [|right; right; exact Hm].
      rewrite !in_app_iff in Hm. rewrite in_app_iff. cbn in Hm. cbn. intuition.
    + eapply Permutation_trans; [exact P|]. cbn.
      replace (t ++ (free ++ [l]) ++ held) with ((t ++ free) ++ l :: held) by (rewrite <- !app_assoc; reflexivity).
      symmetry. apply Permutation_cons_app. rewrite app_assoc. reflexivity.
    + intros l0 Hl. destruct (F l0 Hl) as [Hf|Hf]; [|auto]. apply in_app_iff in Hf. cbn in Hf.
      destruct Hf as [Hf|[<-|[]]]; auto.
    + intros l0 Hl. destruct (M l0 Hl) as [Hm|Hm]; [|right; right; exact Hm].
      rewrite !in_app_iff in Hm. rewrite in_app_iff. cbn in Hm. cbn. intuition.
Qed.

(** ------------------------------------------------------------------ *)
(** * the reuse invariant, part 1 (no ghost): regions, open writers, write order, tiling *)

Definition regions (c : cst) : list loc :=
  map b_loc (blocks (s_pbl (cs_sys c))) ++ toRelease (s_pbl (cs_sys c)) ++ cs_free c ++ cs_held c.

Definition urel (u u' : upinfo) : Prop :=
  up_abs u' = up_abs u /\ up_off u' = up_off u /\ up_size u' = up_size u /\ up_issued u' = up_issued u /\
  (up_open u' = true -> up_open u = true).

Record rinv (g : geo) (c : cst) : Prop := mkRinv {
  r_perm : Permutation (regions c) (g_locs g);
  r_free : forall l, In l (cs_free c) -> writer_open_on (cs_locs c) (cs_ups c) l = false;
  r_open : forall k u a2 l, nth_error (cs_ups c) k = Some u -> up_open u = true -> up_abs u < a2 ->
     nth_error (cs_locs c) (up_abs u) = Some l -> nth_error (cs_locs c) a2 = Some l -> False;
  r_order : forall p1 p2 k1 k2 l lo1 hi1 lo2 hi2 u1 u2, p1 < p2 ->
     nth_error (cs_log c) p1 = Some (IoData k1 l lo1 hi1) -> nth_error (cs_log c) p2 = Some (IoData k2 l lo2 hi2) ->
     nth_error (cs_ups c) k1 = Some u1 -> nth_error (cs_ups c) k2 = Some u2 -> up_abs u1 <= up_abs u2;
  r_tile : forall k u z, nth_error (cs_ups c) k = Some u -> (up_off u <= z < up_off u + up_issued u)%Z ->
     exists p l lo hi, nth_error (cs_log c) p = Some (IoData k l lo hi) /\ (lo <= z < hi)%Z /\
       nth_error (cs_locs c) (up_abs u) = Some l;
  r_lt : forall k u, nth_error (cs_ups c) k = Some u -> up_open u = true -> up_abs u < length (cs_locs c)
}.

Lemma rinv_frame g c c' extra :
  rinv g c -> Permutation (regions c') (regions c) -> cs_locs c' = cs_locs c ->
  Forall2 urel (cs_ups c) (cs_ups c') -> cs_log c' = cs_log c ++ extra -> Forall nodata extra ->
  (forall l, In l (cs_free c') -> In l (cs_free c) \/ writer_open_on (cs_locs c') (cs_ups c') l = false) ->
  rinv g c'.
Proof.
  intros [R1 R2 R3 R4 R5 R6] Hp Hl Hu Hlog Hnd Hf.
  assert (Hold : forall p k l lo hi, nth_error (cs_log c') p = Some (IoData k l lo hi) ->
                   nth_error (cs_log c) p = Some (IoData k l lo hi)).
  { rewrite Hlog. intros. eapply nth_app_nodata; eauto. }
  constructor.
  - eapply Permutation_trans; eauto.
  - intros l Hin. destruct (Hf l Hin) as [H|H]; [|exact H]. apply woo_false. intros k u' Hk Ho Hloc.
    destruct (F2_nth_r _ _ _ Hu _ _ Hk) as [u [Hku (E1 & E2 & E3 & E4 & E5)]].
    rewrite Hl, E1 in Hloc. eapply (proj1 (woo_false _ _ _) (R2 l H)); eauto.
  - intros k u' a2 l Hk Ho Hlt H1 H2.
    destruct (F2_nth_r _ _ _ Hu _ _ Hk) as [u [Hku (E1 & E2 & E3 & E4 & E5)]].
    rewrite Hl in H1, H2. rewrite E1 in H1, Hlt. eapply R3; eauto.
  - intros p1 p2 k1 k2 l lo1 hi1 lo2 hi2 u1' u2' Hlt H1 H2 K1 K2.
    apply Hold in H1, H2.
    destruct (F2_nth_r _ _ _ Hu _ _ K1) as [u1 [Hk1 (E1 & _)]].
    destruct (F2_nth_r _ _ _ Hu _ _ K2) as [u2 [Hk2 (E2 & _)]].
    rewrite E1, E2. eapply R4; eauto.
  - intros k u' z Hk Hz.
    destruct (F2_nth_r _ _ _ Hu _ _ Hk) as [u [Hku (E1 & E2 & E3 & E4 & E5)]].
    rewrite E2, E4 in Hz. destruct (R5 k u z Hku Hz) as (p & l & lo & hi & P1 & P2 & P3).
    exists p, l, lo, hi. split; [|split; [exact P2|]].
    + rewrite Hlog. apply A.nth_error_app_some. exact P1.
    + rewrite Hl, E1. exact P3.
  - intros k u' Hk Ho.
    destruct (F2_nth_r _ _ _ Hu _ _ Hk) as [u [Hku (E1 & E2 & E3 & E4 & E5)]].
    rewrite Hl, E1. eauto.
Qed.

Lemma urel_refl u : urel u u.
Proof. unfold urel. auto. Qed.

Lemma urel_state st u : st <> UpWriting -> urel u (set_state st u).
Proof. unfold urel, set_state, up_open. cbn. intros H. splits; auto. destruct st; congruence. Qed.

(** what the other invariants give *)
Definition wf_ups (c : cst) : Prop :=
  (forall k l lo hi, In (IoData k l lo hi) (cs_log c) ->
     exists u, nth_error (cs_ups c) k = Some u /\ nth_error (cs_locs c) (up_abs u) = Some l).

Lemma rinv_window g c : NoDup (g_locs g) -> rinv g c -> A.cinv g c ->
  NoDup (regions c) /\
  (forall a l, totalReleased (s_pbl (cs_sys c)) <= a -> nth_error (cs_locs c) a = Some l ->
     In l (map b_loc (blocks (s_pbl (cs_sys c))))) /\
  (forall a1 a2 l, totalReleased (s_pbl (cs_sys c)) <= a1 -> a1 < a2 ->
     nth_error (cs_locs c) a1 = Some l -> nth_error (cs_locs c) a2 = Some l -> False).
Proof.
  intros Hnd R I.
  assert (Hn : NoDup (regions c)).
  { eapply Permutation_NoDup; [apply Permutation_sym; apply (r_perm _ _ R)|exact Hnd]. }
  pose proof (A.ci_locs _ _ I) as Hl. splits; auto.
  - intros a l Ha Hn1. rewrite Hl. eapply nth_error_In.
    rewrite A.nth_error_skipn'. replace (_ + (a - totalReleased (s_pbl (cs_sys c)))) with a by lia. exact Hn1.
  - intros a1 a2 l H1 H2 N1 N2. unfold regions in Hn. apply nodup_app_l in Hn. rewrite Hl in Hn.
    set (tr := totalReleased (s_pbl (cs_sys c))) in *.
    assert (a1 - tr = a2 - tr); [|lia].
    eapply (proj1 (NoDup_nth_error _) Hn).
    + apply nth_error_Some. rewrite A.nth_error_skipn'. replace (tr + (a1 - tr)) with a1 by lia. congruence.
    + rewrite !A.nth_error_skipn'. replace (tr + (a1 - tr)) with a1 by lia.
      replace (tr + (a2 - tr)) with a2 by lia. congruence.
Qed.

Ltac eff_cases H :=
  destruct H as
    [ e Hobs
    | l fr Hc Hf Hp Hpc Hlg Hu Hd Hgh Hlc Hfr Hhd
    | p' Hpop Hp Hpc Hlg Hu Hd Hgh Hal
    | index key size u Hp Hpc Hlg Hu Hd Hgh Hal Hiss Hop
    | k n u l Hk Hst Hl Hn0 Hn1 Hsys Hlg Hu Hd Hgh Hal
    | k ok u Hk Hst Hsys Hlg Hu Hd Hgh Hlc Hfh
    | k seed ws u ok tok size p' fr b extra sd' el' Hk Hst Hpf Hp Hpc Hlg Hex Hu Hd Hsd Hel Hal
    | t a s' rel fr hd extra Hs Hg Hrl Htr Hrr Hsys Hlg Hex Hu Hlc Hfr Hhd Hgh Hd
    | st Hw Hlt Hsys Hlg Hu Hd Hgh Hal ].

Lemma rinv_step g cfg c e c' : NoDup (g_locs g) -> rinv g c -> A.cinv g c -> wf_ups c ->
  cstep g cfg c e = Some c' -> rinv g c'.
Proof.
  intros Hnd R I Wdata H. apply cstep_eff in H. pose proof (r_lt _ _ R) as Wopen.
  destruct (rinv_window _ _ Hnd R I) as (Hn & Hwin & Hwnd).
  eff_cases H.
  - (* trivial *)
    apply obs_fields in Hobs. destruct Hobs as (E1 & E2 & E3 & E4 & E5 & E6 & E7 & E8 & _).
    eapply (rinv_frame g c c' []); eauto.
    + unfold regions. rewrite E1, E7, E8. reflexivity.
    + rewrite E5. apply F2_refl. apply urel_refl.
    + rewrite E4, app_nil_r. reflexivity.
    + rewrite E7. auto.
  - (* push *)
    destruct R as [R1 R2 R3 R4 R5 R6].
    assert (Hlin : In l (cs_free c)) by (rewrite Hf; left; reflexivity).
    constructor.
    + eapply Permutation_trans; [|exact R1]. unfold regions. rewrite Hp, Hfr, Hhd, Hf. cbn.
      rewrite map_app. cbn. rewrite <- app_assoc. apply Permutation_app_head. cbn.
      apply Permutation_middle.
    + intros l0 Hin. apply woo_false. intros k u Hk Ho Hloc. rewrite Hu in Hk. rewrite Hlc in Hloc.
      pose proof (Wopen _ _ Hk Ho) as Hlt. rewrite nth_error_app1 in Hloc by exact Hlt.
      assert (Hin0 : In l0 (cs_free c)) by (rewrite Hf; right; rewrite <- Hfr; exact Hin).
      eapply (proj1 (woo_false _ _ _) (R2 l0 Hin0)); eauto.
    + intros k u a2 l0 Hk Ho Hlt N1 N2. rewrite Hu in Hk. rewrite Hlc in N1, N2.
      pose proof (Wopen _ _ Hk Ho) as Hlt'. rewrite nth_error_app1 in N1 by exact Hlt'.
      apply A.nth_error_snoc_inv in N2. destruct N2 as [N2|[_ ->]].
      * eapply (R3 k u a2 l0); eauto.
      * eapply (proj1 (woo_false _ _ _) (R2 l Hlin) k u); eauto.
    + rewrite Hlg, Hu. exact R4.
    + intros k u z Hk Hz. rewrite Hu in Hk. destruct (R5 k u z Hk Hz) as (p & l0 & lo & hi & P1 & P2 & P3).
      exists p, l0, lo, hi. rewrite Hlg, Hlc. split; [exact P1|split; [exact P2|]]. apply A.nth_error_app_some. exact P3.
    + intros k u Hk Ho. rewrite Hu in Hk. rewrite Hlc, app_length. specialize (R6 _ _ Hk Ho). lia.
  - (* pop *)
    destruct Hal as (L1 & L2 & L3).
    destruct (A.pop_front_spec _ _ Hpop) as (b & rest & E1 & E2 & _ & _ & _ & _ & _ & E8 & _).
    eapply (rinv_frame g c c' []); eauto.
    + unfold regions. rewrite Hp, E2, E8, L2, L3, E1. cbn.
      replace (map b_loc rest ++ (toRelease (s_pbl (cs_sys c)) ++ [b_loc b]) ++ cs_free c ++ cs_held c)
        with ((map b_loc rest ++ toRelease (s_pbl (cs_sys c))) ++ b_loc b :: cs_free c ++ cs_held c)
        by (rewrite <- !app_assoc; reflexivity).
      symmetry. apply Permutation_cons_app. rewrite app_assoc. reflexivity.
    + rewrite Hu. apply F2_refl. apply urel_refl.
    + rewrite Hlg, app_nil_r. reflexivity.
    + rewrite L2. auto.
  - (* putstart *)
    destruct Hal as (L1 & L2 & L3). destruct R as [R1 R2 R3 R4 R5 R6].
    assert (Hk_old : forall p k l lo hi, nth_error (cs_log c) p = Some (IoData k l lo hi) -> k < length (cs_ups c)).
    { intros p k l lo hi Hp0. apply nth_error_In in Hp0. destruct (Wdata _ _ _ _ Hp0) as (u0 & U & _).
      apply nth_error_Some. congruence. }
    constructor.
    + unfold regions. rewrite Hp, L2, L3. exact R1.
    + intros l0 Hin. rewrite L2 in Hin. apply woo_false. intros k u0 Hk Ho Hloc. rewrite L1 in Hloc. rewrite Hu in Hk.
      apply A.nth_error_snoc_inv in Hk. destruct Hk as [Hk|[_ ->]].
      * eapply (proj1 (woo_false _ _ _) (R2 l0 Hin)); eauto.
      * destruct (Hop Ho) as (l1 & Ha & Hl1). rewrite Hloc in Hl1. inv Hl1.
        eapply (nodup_app_disj _ _ l1 Hn).
        -- eapply Hwin; [|exact Hloc]. lia.
        -- rewrite !in_app_iff. auto.
    + intros k u0 a2 l0 Hk Ho Hlt N1 N2. rewrite L1 in N1, N2. rewrite Hu in Hk.
      apply A.nth_error_snoc_inv in Hk. destruct Hk as [Hk|[_ ->]].
      * eapply (R3 k u0 a2 l0); eauto.
      * destruct (Hop Ho) as (l1 & Ha & Hl1). eapply (Hwnd (up_abs u) a2 l0); eauto. lia.
    + intros p1 p2 k1 k2 l lo1 hi1 lo2 hi2 u1 u2 Hlt P1 P2 K1 K2. rewrite Hlg in P1, P2. rewrite Hu in K1, K2.
      pose proof (Hk_old _ _ _ _ _ P1). pose proof (Hk_old _ _ _ _ _ P2).
      apply A.nth_error_snoc_inv in K1, K2. destruct K1 as [K1|[? _]]; [|lia]. destruct K2 as [K2|[? _]]; [|lia].
      eapply (R4 p1 p2 k1 k2 l lo1 hi1 lo2 hi2 u1 u2); eauto.
    + intros k u0 z Hk Hz. rewrite Hu in Hk. apply A.nth_error_snoc_inv in Hk. destruct Hk as [Hk|[_ ->]]; [|lia].
      rewrite Hlg, L1. eauto.
    + intros k u0 Hk Ho. rewrite L1. rewrite Hu in Hk. apply A.nth_error_snoc_inv in Hk. destruct Hk as [Hk|[_ ->]]; [eauto|].
      destruct (Hop Ho) as (l1 & Ha & Hl1). apply nth_error_Some. congruence.
  - (* data *)
    destruct Hal as (L1 & L2 & L3). destruct R as [R1 R2 R3 R4 R5 R6].
    assert (Hopen : up_open u = true) by (unfold up_open; rewrite Hst; reflexivity).
    assert (Hget : forall j y, nth_error (cs_ups c') j = Some y ->
              exists x, nth_error (cs_ups c) j = Some x /\ up_abs y = up_abs x /\ up_off y = up_off x /\
                        up_open y = up_open x /\ (y = x \/ (j = k /\ y = set_issued n x))).
    { intros j y Hy. rewrite Hu in Hy. apply A.upd_nth_inv in Hy. destruct Hy as [x [Hx Hy]].
      exists x. destruct Hy as [->|[-> ->]]; splits; auto. }
    constructor.
    + unfold regions. rewrite Hsys, L2, L3. exact R1.
    + intros l0 Hin. rewrite L2 in Hin. apply woo_false. intros j y Hy Ho Hloc. rewrite L1 in Hloc.
      destruct (Hget _ _ Hy) as (x & Hx & E1 & E2 & E3 & _). rewrite E1 in Hloc. rewrite E3 in Ho.
      eapply (proj1 (woo_false _ _ _) (R2 l0 Hin)); eauto.
    + intros j y a2 l0 Hy Ho Hlt N1 N2. rewrite L1 in N1, N2.
      destruct (Hget _ _ Hy) as (x & Hx & E1 & E2 & E3 & _). rewrite E1 in N1, Hlt. rewrite E3 in Ho.
      eapply R3; eauto.
    + intros p1 p2 k1 k2 l0 lo1 hi1 lo2 hi2 u1 u2 Hlt P1 P2 K1 K2. rewrite Hlg in P1, P2.
      destruct (Hget _ _ K1) as (x1 & Hx1 & E1 & _). destruct (Hget _ _ K2) as (x2 & Hx2 & E2 & _). rewrite E1, E2.
      apply E.nth_snoc in P2. destruct P2 as [[Hp2 P2]|[Hp2 P2]].
      * rewrite nth_error_app1 in P1 by lia. eapply (R4 p1 p2 k1 k2 l0 lo1 hi1 lo2 hi2 x1 x2); eauto.
      * injection P2 as -> -> -> ->. rewrite nth_error_app1 in P1 by lia. rewrite Hk in Hx2. inv Hx2.
        destruct (Nat.le_gt_cases (up_abs x1) (up_abs x2)) as [Hle|Hgt]; [exact Hle|exfalso].
        apply nth_error_In in P1. destruct (Wdata _ _ _ _ P1) as (u1' & U1 & U2). rewrite Hx1 in U1. inv U1.
        eapply (R3 k x2 (up_abs u1') l); eauto.
    + intros j y z Hy Hz. rewrite Hlg, L1.
      destruct (Hget _ _ Hy) as (x & Hx & E1 & E2 & E3 & [->|[-> ->]]).
      * destruct (R5 j x z Hx Hz) as (p & l0 & lo & hi & P1 & P2 & P3).
        exists p, l0, lo, hi. split; [|split; [exact P2|exact P3]]. apply A.nth_error_app_some. exact P1.
      * rewrite Hk in Hx. inv Hx. cbn in Hz. cbn [set_issued up_abs].
        destruct (Z.lt_ge_cases z (up_off x + up_issued x)) as [Hlt|Hge].
        -- destruct (R5 k x z Hk ltac:(lia)) as (p & l0 & lo & hi & P1 & P2 & P3).
           exists p, l0, lo, hi. split; [|split; [exact P2|exact P3]]. apply A.nth_error_app_some. exact P1.
        -- exists (length (cs_log c)), l, (up_off x + up_issued x)%Z, (up_off x + up_issued x + n)%Z.
           split; [apply E.nth_snoc_new|split; [lia|exact Hl]].
    + intros j y Hy Ho. rewrite L1. destruct (Hget _ _ Hy) as (x & Hx & E1 & E2 & E3 & _). rewrite E1. rewrite E3 in Ho. eauto.
  - (* writer done *)
    assert (Hur : Forall2 urel (cs_ups c) (cs_ups c')).
    { rewrite Hu. apply F2_upd; [apply urel_refl|]. intros x. apply urel_state. discriminate. }
    destruct Hfh as [[F1 F2]|(l & Hh & Hwo & F1 & F2)].
    + eapply (rinv_frame g c c' []); eauto.
      * unfold regions. rewrite Hsys, F1, F2. reflexivity.
      * rewrite Hlg, app_nil_r. reflexivity.
      * rewrite F1. auto.
    + eapply (rinv_frame g c c' []); eauto.
      * unfold regions. rewrite Hsys, F1, F2. apply Permutation_app_head. apply Permutation_app_head.
        rewrite <- app_assoc. apply Permutation_app_head. cbn. symmetry. apply remove_loc_perm. exact Hh.
      * rewrite Hlg, app_nil_r. reflexivity.
      * intros l0 Hin. rewrite F1 in Hin. apply in_app_iff in Hin. destruct Hin as [Hin|[<-|[]]]; auto.
  - (* finalize *)
    destruct Hal as (L1 & L2 & L3).
    eapply (rinv_frame g c c' extra); eauto.
    + unfold regions. rewrite Hp, L2, L3.
      destruct (A.put_finalize_spec _ _ _ _ _ _ _ Hpf) as [-> _|abs off _ _ _ _ _ Q1 _ Q2 _ _]; [reflexivity|].
      rewrite Q1, Q2. reflexivity.
    + rewrite Hu. apply F2_upd; [apply urel_refl|]. intros x. apply urel_state. discriminate.
    + apply isindex_nodata. exact Hex.
    + rewrite L2. auto.
  - (* thread *)
    destruct (A.estep_effect _ _ _ _ _ Hs) as (_ & (S1 & _) & _).
    destruct (release_regions_spec _ _ _ _ _ _ _ Hrr) as (P & F & _).
    eapply (rinv_frame g c c' extra); eauto.
    + unfold regions. rewrite Hsys, Hfr, Hhd, S1, Htr. apply Permutation_app_head.
      eapply Permutation_trans; [apply Permutation_app_head; exact P|].
      rewrite !app_assoc. apply Permutation_app_tail. apply Permutation_app_tail. apply Permutation_app_comm.
    + rewrite Hu. apply F2_refl. apply urel_refl.
    + apply issync_nodata. exact Hex.
    + intros l0 Hin. rewrite Hfr in Hin. rewrite Hlc, Hu. auto.
  - (* dir *)
    destruct Hal as (L1 & L2 & L3).
    eapply (rinv_frame g c c' [_]); eauto.
    + unfold regions. rewrite Hsys, L2, L3. reflexivity.
    + rewrite Hu. apply F2_refl. apply urel_refl.
    + constructor; [|constructor]. destruct (cs_dirpc c) as [|[|[|[|[|?]]]]]; exact Logic.I.
    + rewrite L2. auto.
Qed.

(** ---- the invariant holds in every reachable state ---- *)
Lemma crun_app g cfg t1 : forall c t2,
  crun g cfg c (t1 ++ t2) = match crun g cfg c t1 with Some c' => crun g cfg c' t2 | None => None end.
Proof.
  induction t1 as [|e t1 IH]; intros c t2; cbn; [reflexivity|].
  destruct (cstep g cfg c e); [apply IH|reflexivity].
Qed.

Lemma creach_step g cfg base t0 c e c' : creach g cfg base t0 c -> cstep g cfg c e = Some c' -> creach g cfg base t0 c'.
Proof. intros [tr H] Hs. exists (tr ++ [e]). rewrite crun_app, H. cbn. rewrite Hs. reflexivity. Qed.

Lemma creach_wf_ups g cfg base t0 c : creach g cfg base t0 c -> wf_ups c.
Proof.
  intros R k l lo hi Hin. destruct (A.alloc_disjoint _ _ _ _ _ R) as (_ & _ & D).
  destruct (D _ _ _ _ Hin) as (u & U1 & U2 & _). eauto.
Qed.

Lemma cinit_rinv g t0 : rinv g (cinit g medium_empty t0).
Proof.
  constructor; cbn.
  - unfold regions. cbn. rewrite app_nil_r. reflexivity.
  - intros l _. reflexivity.
  - intros k u a2 l H. rewrite nth_error_nil' in H. discriminate.
  - intros p1 p2 k1 k2 l lo1 hi1 lo2 hi2 u1 u2 _ H. rewrite nth_error_nil' in H. discriminate.
  - intros k u z H. rewrite nth_error_nil' in H. discriminate.
  - intros k u H. rewrite nth_error_nil' in H. discriminate.
Qed.

(** a property of reachable states proved step by step, with the colleagues' invariants at hand *)
Lemma creach_ind g cfg t0 (P : cst -> Prop) :
  P (cinit g medium_empty t0) ->
  (forall c e c', creach g cfg medium_empty t0 c -> P c -> cstep g cfg c e = Some c' -> P c') ->
  forall c, creach g cfg medium_empty t0 c -> P c.
Proof.
  intros H0 Hstep c [tr H].
  assert (G : forall tr c0 c, creach g cfg medium_empty t0 c0 -> P c0 -> crun g cfg c0 tr = Some c -> P c).
  { clear H tr c. intros tr0; induction tr0 as [|e tr IH]; intros c0 c R0 P0 H; cbn in H.
    - inv H. exact P0.
    - destruct (cstep g cfg c0 e) as [c1|] eqn:Es; [|discriminate].
      eapply (IH c1); eauto using creach_step. }
  eapply (G tr); eauto. exists []. reflexivity.
Qed.

Theorem creach_rinv g cfg t0 c : length (g_locs g) < 65536 -> NoDup (g_locs g) ->
  creach g cfg medium_empty t0 c -> rinv g c.
Proof.
  intros Hg Hnd. apply creach_ind; [apply cinit_rinv|].
  intros c0 e c' R P Hs. eapply rinv_step; eauto.
  - eapply A.creach_cinv; eauto.
  - eapply creach_wf_ups; eauto.
Qed.

(** ------------------------------------------------------------------ *)
(** * exported ingredients (1)-(3) *)

(** (1) the data writes of an upload tile its allocation up to [up_issued] *)
Theorem upload_writes_tile g cfg t0 c : length (g_locs g) < 65536 -> NoDup (g_locs g) ->
  creach g cfg medium_empty t0 c ->
  forall k u z, nth_error (cs_ups c) k = Some u -> (up_off u <= z < up_off u + up_issued u)%Z ->
    exists p l lo hi, nth_error (cs_log c) p = Some (IoData k l lo hi) /\ (lo <= z < hi)%Z /\
      nth_error (cs_locs c) (up_abs u) = Some l.
Proof. intros Hg Hnd R. apply (r_tile _ _ (creach_rinv _ _ _ _ Hg Hnd R)). Qed.

(** (2) a data write of another upload allocated in the SAME block does not touch the allocation *)
Theorem same_block_disjoint g cfg base t0 c : creach g cfg base t0 c ->
  forall k u k' u' l lo hi z, k' <> k ->
    nth_error (cs_ups c) k = Some u -> nth_error (cs_ups c) k' = Some u' -> up_abs u' = up_abs u ->
    In (IoData k' l lo hi) (cs_log c) -> (lo <= z < hi)%Z -> (up_off u <= z < up_off u + up_size u)%Z -> False.
Proof.
  intros R k u k' u' l lo hi z Hne Hk Hk' Ha Hin Hz Hz'.
  destruct (A.alloc_disjoint _ _ _ _ _ R) as (D1 & _ & D3).
  destruct (D3 _ _ _ _ Hin) as (u0 & U1 & U2 & U3). rewrite Hk' in U1. inv U1.
  assert (Hlt : up_abs u0 < length (cs_locs c)) by (apply nth_error_Some; congruence).
  destruct (D1 k' k u0 u Hne Hk' Hk Ha Hlt); lia.
Qed.

(** (3) window, to-be-released, free and held regions are pairwise distinct *)
Theorem regions_distinct g cfg t0 c : length (g_locs g) < 65536 -> NoDup (g_locs g) ->
  creach g cfg medium_empty t0 c ->
  NoDup (skipn (totalReleased (s_pbl (cs_sys c))) (cs_locs c) ++ toRelease (s_pbl (cs_sys c)) ++ cs_free c ++ cs_held c)
  /\ Permutation (skipn (totalReleased (s_pbl (cs_sys c))) (cs_locs c) ++ toRelease (s_pbl (cs_sys c)) ++ cs_free c ++ cs_held c)
                 (g_locs g).
Proof.
  intros Hg Hnd R. pose proof (creach_rinv _ _ _ _ Hg Hnd R) as RI.
  pose proof (A.creach_cinv _ _ _ _ Hg R) as I. rewrite <- (A.ci_locs _ _ I).
  split; [apply (rinv_window _ _ Hnd RI I)|apply (r_perm _ _ RI)].
Qed.

(** writes into an earlier block with the same region all precede writes into a later one *)
Theorem reuse_writes_ordered g cfg t0 c : length (g_locs g) < 65536 -> NoDup (g_locs g) ->
  creach g cfg medium_empty t0 c ->
  forall p1 p2 k1 k2 l lo1 hi1 lo2 hi2 u1 u2, p1 < p2 ->
     nth_error (cs_log c) p1 = Some (IoData k1 l lo1 hi1) -> nth_error (cs_log c) p2 = Some (IoData k2 l lo2 hi2) ->
     nth_error (cs_ups c) k1 = Some u1 -> nth_error (cs_ups c) k2 = Some u2 -> up_abs u1 <= up_abs u2.
Proof. intros Hg Hnd R. apply (r_order _ _ (creach_rinv _ _ _ _ Hg Hnd R)). Qed.

(** ------------------------------------------------------------------ *)
(** * composition, relative to the "later block" case *)

(** no write into a LATER block on the same region is in the crashed prefix *)
Definition no_later_reuse (c : cst) (n : nat) (k : nat) : Prop :=
  forall up p' k' l' lo' hi' u', nth_error (cs_ups c) k = Some up ->
    p' < n -> nth_error (cs_log c) p' = Some (IoData k' l' lo' hi') -> nth_error (cs_ups c) k' = Some u' ->
    up_abs up < up_abs u' -> nth_error (cs_locs c) (up_abs up) = Some l' -> False.

Theorem crash_safe_bytes_partial : forall g cfg t0 c, length (g_locs g) < 65536 -> NoDup (g_locs g) ->
  creach g cfg medium_empty t0 c ->
  forall n ch slot r i, resolves g (crash_of medium_empty c n ch) slot r i ->
  no_later_reuse c n (r_up r) ->
  exists up l, nth_error (cs_ups c) (r_up r) = Some up /\
    block_loc (fst (restart (geom g) (m_state (crash_of medium_empty c n ch)))) i = Some l /\
    nth_error (cs_locs c) (up_abs up) = Some l /\
    forall z, (r_off r <= z < r_off r + r_size r)%Z ->
      byte_owner (m_data (crash_of medium_empty c n ch)) l z None = Some (r_up r).
Proof.
  intros g cfg t0 c Hg Hnd R n ch slot r i Hres Hlater.
  destruct (A.crash_safe_location _ _ _ _ Hg Hnd R _ _ _ _ _ Hres) as (up & l & U1 & U2 & U3).
  destruct (E.crash_safe_durable _ _ _ _ R _ _ _ _ _ Hres) as (up' & V1 & _ & V3 & V4 & _ & V6 & V7).
  rewrite U1 in V1. inv V1.
  pose proof (creach_rinv _ _ _ _ Hg Hnd R) as RI.
  exists up', l. splits; auto. intros z Hz.
  destruct (r_tile _ _ RI _ _ z U1 ltac:(lia)) as (p & l0 & lo & hi & P1 & P2 & P3).
  rewrite U3 in P3. inv P3.
  pose proof (V7 _ _ _ _ P1) as Hpd.
  pose proof (E.durable_le_length (firstn n (cs_log c))) as Hdl. rewrite firstn_length in Hdl.
  unfold crash_of. eapply (owner_of_last_write _ ch l0 z (r_up r) p l0 lo hi).
  - rewrite E.nth_firstn_lt by lia. exact P1.
  - exact Hpd.
  - cbn. rewrite loc_eqb_refl. cbn. apply andb_true_iff. split; [apply Z.leb_le|apply Z.ltb_lt]; lia.
  - intros p' k' l' lo' hi' Hpp Hp' Hc. destruct (Nat.eq_dec k' (r_up r)) as [|Hne]; [assumption|exfalso].
    apply E.nth_firstn in Hp'. destruct Hp' as [Hpn Hp'].
    cbn in Hc. apply andb_true_iff in Hc. destruct Hc as [Hc Hc3]. apply andb_true_iff in Hc. destruct Hc as [Hc1 Hc2].
    apply loc_eqb_eq in Hc1. subst l'. apply Z.leb_le in Hc2. apply Z.ltb_lt in Hc3.
    destruct (A.alloc_disjoint _ _ _ _ _ R) as (_ & _ & D3).
    destruct (D3 _ _ _ _ (nth_error_In _ _ Hp')) as (u' & W1 & W2 & W3).
    destruct (lt_eq_lt_dec (up_abs u') (up_abs up')) as [[Hlt|Heq]|Hgt].
    + pose proof (r_order _ _ RI p p' (r_up r) k' l0 lo hi lo' hi' up' u' Hpp P1 Hp' U1 W1). lia.
    + eapply (same_block_disjoint _ _ _ _ _ R (r_up r) up' k' u'); eauto using nth_error_In; lia.
    + eapply (Hlater up' p' k' l0 lo' hi' u'); eauto.
Qed.


(** ------------------------------------------------------------------ *)
(** * (5) the state directory: which state file can survive *)

(** scan: (position, directory operations of the current attempt done, position of the
    current attempt's write, position of the write of the last attempt whose directory
    fsync is in the log) *)
Definition dstep (st : nat * nat * nat * option nat) (e : io irec) : nat * nat * nat * option nat :=
  let '(pos, pc, wc, lw) := st in
  match e with
  | IoRemoveNew => (S pos, 1, wc, lw)
  | IoCreateNew => (S pos, 2, wc, lw)
  | IoWriteNew _ => (S pos, 3, pos, lw)
  | IoFsyncNew => (S pos, 4, wc, lw)
  | IoRenameNew => (S pos, 5, wc, lw)
  | IoDirSync => (S pos, 6, wc, Some wc)
  | _ => (S pos, pc, wc, lw)
  end.
Definition dscan (L : log) := fold_left dstep L (0, 0, 0, None).
Definition dpc (L : log) : nat := snd (fst (fst (dscan L))).
Definition dwc (L : log) : nat := snd (fst (dscan L)).
Definition dlw (L : log) : option nat := snd (dscan L).

(** every directory operation but the first continues the attempt in progress *)
Definition dok (pc : nat) (e : io irec) : Prop :=
  match e with
  | IoCreateNew => pc = 1 | IoWriteNew _ => pc = 2 | IoFsyncNew => pc = 3 | IoRenameNew => pc = 4
  | IoDirSync => pc = 5 | _ => True
  end.
Definition shaped (L : log) : Prop := forall q e, nth_error L q = Some e -> dok (dpc (firstn q L)) e.

Lemma dscan_snoc L e : dscan (L ++ [e]) = dstep (dscan L) e.
Proof. unfold dscan. rewrite fold_left_app. reflexivity. Qed.

Lemma dscan_facts L : fst (fst (fst (dscan L))) = length L /\ dwc L <= length L /\
  (forall lw, dlw L = Some lw -> lw <= dwc L).
Proof.
  induction L as [|e L IH] using rev_ind; [cbn; splits; auto; discriminate|].
  unfold dwc, dlw in *. rewrite dscan_snoc, app_length. cbn [length].
  destruct (dscan L) as [[[pos pc] wc] lw]. cbn in IH. destruct IH as (I1 & I2 & I3). subst pos.
  destruct e; cbn; splits; try lia; auto; try (intros lw0 H0; specialize (I3 _ H0); lia).
  intros lw0 H0. inv H0. lia.
Qed.

Lemma shaped_snoc L e : shaped (L ++ [e]) -> shaped L /\ dok (dpc L) e.
Proof.
  intros H. split.
  - intros q x Hq. pose proof (H q x (E.nth_snoc_old _ _ _ _ Hq)) as H1.
    rewrite E.firstn_app_le in H1; [exact H1|]. apply Nat.lt_le_incl. eapply E.nth_lt; eauto.
  - pose proof (H (length L) e (E.nth_snoc_new _ _)) as H1.
    rewrite firstn_app, firstn_all, Nat.sub_diag in H1. cbn in H1. rewrite app_nil_r in H1. exact H1.
Qed.

Lemma shaped_snoc_intro L e : shaped L -> dok (dpc L) e -> shaped (L ++ [e]).
Proof.
  intros H He q x Hq. apply E.nth_snoc in Hq. destruct Hq as [[Hl Hq]|[-> ->]].
  - rewrite E.firstn_app_le by lia. eauto.
  - rewrite firstn_app, firstn_all, Nat.sub_diag. cbn. rewrite app_nil_r. exact He.
Qed.

Lemma shaped_firstn L n : shaped L -> shaped (firstn n L).
Proof.
  intros H q e Hq. apply E.nth_firstn in Hq. destruct Hq as [Hl Hq].
  rewrite firstn_firstn. replace (Nat.min q n) with q by lia. eauto.
Qed.

Lemma set_nth_same {T} (l : list T) : forall i x, i < length l -> nth_error (set_nth l i x) i = Some x.
Proof. induction l as [|h t IH]; intros [|i] x H; cbn in *; try lia; auto. apply IH. lia. Qed.

Lemma set_nth_other {T} (l : list T) : forall i j x, j <> i -> nth_error (set_nth l i x) j = nth_error l j.
Proof. induction l as [|h t IH]; intros [|i] [|j] x H; cbn; auto; try congruence. Qed.

Lemma set_nth_length {T} (l : list T) : forall i x, length (set_nth l i x) = length l.
Proof. induction l as [|h t IH]; intros [|i] x; cbn; auto. Qed.

Definition candp (ns0 : option nat * option nat) (pend : list nsop) (f : nat) : Prop :=
  exists k, snd (fold_left ns_apply (firstn k pend) ns0) = Some f.
Definition cand (d : dirst) (f : nat) : Prop := candp (d_dnew d, d_dstate d) (d_pend d) f.

Lemma candp_snoc ns0 pend o f : candp ns0 (pend ++ [o]) f ->
  candp ns0 pend f \/ snd (ns_apply (fold_left ns_apply pend ns0) o) = Some f.
Proof.
  intros [k Hk]. destruct (Nat.le_gt_cases k (length pend)) as [Hle|Hgt].
  - left. exists k. rewrite E.firstn_app_le in Hk by exact Hle. exact Hk.
  - right. rewrite firstn_all2 in Hk by (rewrite app_length; cbn; lia).
    rewrite fold_left_app in Hk. exact Hk.
Qed.

Lemma candp_all ns0 pend f : snd (fold_left ns_apply pend ns0) = Some f -> candp ns0 pend f.
Proof. intros H. exists (length pend). rewrite firstn_all. exact H. Qed.

Definition good (L : log) (d : dirst) (f : nat) : Prop :=
  exists st pos, nth_error (d_files d) f = Some (Some st, true) /\ nth_error L pos = Some (IoWriteNew st) /\
    forall lw, dlw L = Some lw -> lw <= pos.

Record DI (L : log) (d : dirst) : Prop := mkDI {
  di_vol : fold_left ns_apply (d_pend d) (d_dnew d, d_dstate d) = (d_vnew d, d_vstate d);
  di_good : forall f, cand d f -> good L d f;
  di_new : forall f, d_vnew d = Some f -> f < length (d_files d) /\ ~ cand d f;
  di_pc : match dpc L with
          | 2 => exists f, d_vnew d = Some f
          | 3 => exists f st b, d_vnew d = Some f /\ nth_error (d_files d) f = Some (Some st, b) /\
                   nth_error L (dwc L) = Some (IoWriteNew st)
          | 4 => exists f st, d_vnew d = Some f /\ nth_error (d_files d) f = Some (Some st, true) /\
                   nth_error L (dwc L) = Some (IoWriteNew st)
          | 5 => d_vnew d = None /\ exists f st, d_vstate d = Some f /\
                   nth_error (d_files d) f = Some (Some st, true) /\ nth_error L (dwc L) = Some (IoWriteNew st)
          | _ => True
          end
}.

Lemma good_ext L d e d' f : good L d f ->
  (forall x, nth_error (d_files d) f = Some x -> nth_error (d_files d') f = Some x) ->
  dlw (L ++ [e]) = dlw L -> good (L ++ [e]) d' f.
Proof.
  intros (st & pos & G1 & G2 & G3) Hf Hl. exists st, pos. splits; auto.
  - apply E.nth_snoc_old. exact G2.
  - rewrite Hl. exact G3.
Qed.

Lemma DI_step L d e : DI L d -> dok (dpc L) e -> DI (L ++ [e]) (dir_step d e).
Proof.
  intros [V G N P] Hok.
  pose proof (dscan_facts L) as (F1 & F2 & F3).
  assert (Hsc : dscan (L ++ [e]) = dstep (dscan L) e) by apply dscan_snoc.
  unfold dpc, dwc, dlw in *. 
  destruct (dscan L) as [[[pos pc] wc] lw] eqn:Eds. cbn [fst snd] in *. subst pos.
  assert (Hsame : forall d', d_files d' = d_files d -> d_vnew d' = d_vnew d -> d_vstate d' = d_vstate d ->
            d_dnew d' = d_dnew d -> d_dstate d' = d_dstate d -> d_pend d' = d_pend d ->
            dstep (length L, pc, wc, lw) e = (S (length L), pc, wc, lw) -> DI (L ++ [e]) d').
  { intros d' E1 E2 E3 E4 E5 E6 E7. unfold cand in *.
    constructor; unfold cand, dpc, dwc, dlw; rewrite ?Hsc, ?E7, ?E1, ?E2, ?E3, ?E4, ?E5, ?E6; cbn [fst snd]; auto.
    - intros f Hc. eapply good_ext; [apply G; exact Hc|rewrite E1; auto|unfold dlw; rewrite Hsc, Eds, E7; reflexivity].
    - destruct pc as [|[|[|[|[|[|?]]]]]]; auto.
      + destruct P as (f & st & b & P1 & P2 & P3). exists f, st, b. splits; auto. apply E.nth_snoc_old. exact P3.
      + destruct P as (f & st & P1 & P2 & P3). exists f, st. splits; auto. apply E.nth_snoc_old. exact P3.
      + destruct P as (P0 & f & st & P1 & P2 & P3). split; auto. exists f, st. splits; auto. apply E.nth_snoc_old. exact P3. }
  destruct e; try (apply Hsame; reflexivity).
  - (* remove *)
    constructor; unfold cand, dpc, dwc, dlw; rewrite ?Hsc; cbn [dir_step dstep fst snd d_files d_vnew d_vstate d_dnew d_dstate d_pend].
    + rewrite fold_left_app, V. reflexivity.
    + intros f Hc. apply candp_snoc in Hc. rewrite V in Hc. cbn in Hc.
      assert (Hc' : cand d f) by (destruct Hc as [Hc|Hc]; [exact Hc|apply candp_all; rewrite V; exact Hc]).
      eapply good_ext; [apply G; exact Hc'|auto|]. unfold dlw. rewrite Hsc, Eds. reflexivity.
    + discriminate.
    + exact Logic.I.
  - (* create *)
    cbn in Hok. subst pc.
    constructor; unfold cand, dpc, dwc, dlw; rewrite ?Hsc; cbn [dir_step dstep fst snd d_files d_vnew d_vstate d_dnew d_dstate d_pend].
    + rewrite fold_left_app, V. reflexivity.
    + intros f Hc. apply candp_snoc in Hc. rewrite V in Hc. cbn in Hc.
      assert (Hc' : cand d f) by (destruct Hc as [Hc|Hc]; [exact Hc|apply candp_all; rewrite V; exact Hc]).
      eapply good_ext; [apply G; exact Hc'| |].
      * intros x Hx. cbn. apply A.nth_error_app_some. exact Hx.
      * unfold dlw. rewrite Hsc, Eds. reflexivity.
    + intros f Hf. inv Hf. rewrite app_length. cbn. split; [lia|]. intros Hc.
      apply candp_snoc in Hc. rewrite V in Hc. cbn in Hc.
      assert (Hc' : cand d (length (d_files d))) by (destruct Hc as [Hc|Hc]; [exact Hc|apply candp_all; rewrite V; exact Hc]).
      destruct (G _ Hc') as (st & p0 & G1 & _). apply E.nth_lt in G1. lia.
    + eauto.
  - (* write *)
    cbn in Hok. subst pc. destruct P as [f Pf]. destruct (N f Pf) as [Nl Nc].
    cbn [dir_step]. rewrite Pf.
    constructor; unfold cand, dpc, dwc, dlw; rewrite ?Hsc; cbn [dstep fst snd d_files d_vnew d_vstate d_dnew d_dstate d_pend].
    + rewrite V, Pf. reflexivity.
    + intros f0 Hc. eapply good_ext; [apply G; exact Hc| |].
      * intros x Hx. cbn. rewrite set_nth_other; [exact Hx|]. intros ->. apply Nc. exact Hc.
      * unfold dlw. rewrite Hsc, Eds. reflexivity.
    + intros f0 Hf0. inv Hf0. rewrite set_nth_length. split; [exact Nl|exact Nc].
    + exists f, st, false. splits; auto.
      * apply set_nth_same. exact Nl.
      * apply E.nth_snoc_new.
  - (* fsync *)
    cbn in Hok. subst pc. destruct P as (f & st & b & Pf & P2 & P3). destruct (N f Pf) as [Nl Nc].
    cbn [dir_step]. rewrite Pf.
    constructor; unfold cand, dpc, dwc, dlw; rewrite ?Hsc; cbn [dstep fst snd d_files d_vnew d_vstate d_dnew d_dstate d_pend].
    + rewrite V, Pf. reflexivity.
    + intros f0 Hc. eapply good_ext; [apply G; exact Hc| |].
      * intros x Hx. cbn. rewrite set_nth_other; [exact Hx|]. intros ->. apply Nc. exact Hc.
      * unfold dlw. rewrite Hsc, Eds. reflexivity.
    + intros f0 Hf0. inv Hf0. rewrite set_nth_length. split; [exact Nl|exact Nc].
    + exists f, st. splits; auto.
      * rewrite set_nth_same by exact Nl. rewrite (nth_error_nth _ _ _ P2). reflexivity.
      * apply E.nth_snoc_old. exact P3.
  - (* rename *)
    cbn in Hok. subst pc. destruct P as (f & st & Pf & P2 & P3). destruct (N f Pf) as [Nl Nc].
    cbn [dir_step]. rewrite Pf.
    constructor; unfold cand, dpc, dwc, dlw; rewrite ?Hsc; cbn [dstep fst snd d_files d_vnew d_vstate d_dnew d_dstate d_pend].
    + rewrite fold_left_app, V. cbn. rewrite Pf. reflexivity.
    + intros f0 Hc. apply candp_snoc in Hc. rewrite V in Hc. cbn in Hc. rewrite Pf in Hc. cbn in Hc.
      destruct Hc as [Hc|Hc].
      * eapply good_ext; [apply G; exact Hc|auto|]. unfold dlw. rewrite Hsc, Eds. reflexivity.
      * inv Hc. exists st, wc. splits; auto.
        -- apply E.nth_snoc_old. exact P3.
        -- unfold dlw. rewrite Hsc. cbn. exact F3.
    + discriminate.
    + split; [reflexivity|]. exists f, st. splits; auto. apply E.nth_snoc_old. exact P3.
  - (* dirsync *)
    cbn in Hok. subst pc. destruct P as (P0 & f & st & Pf & P2 & P3).
    constructor; unfold cand, dpc, dwc, dlw; rewrite ?Hsc; cbn [dir_step dstep fst snd d_files d_vnew d_vstate d_dnew d_dstate d_pend].
    + reflexivity.
    + intros f0 [k Hk]. rewrite firstn_nil in Hk. cbn in Hk. rewrite Pf in Hk. inv Hk.
      exists st, wc. splits; auto.
      * apply E.nth_snoc_old. exact P3.
      * unfold dlw. rewrite Hsc. cbn. intros lw0 H0. inv H0. lia.
    + rewrite P0. discriminate.
    + exact Logic.I.
Qed.

Lemma DI_init : DI [] (dir_init None None).
Proof.
  constructor; cbn; auto.
  - intros f [k Hk]. rewrite firstn_nil in Hk. discriminate.
  - discriminate.
Qed.

Lemma DI_run L : shaped L -> DI L (dir_run (dir_init None None) L).
Proof.
  induction L as [|e L IH] using rev_ind; intros H; [exact DI_init|].
  apply shaped_snoc in H. destruct H as [H1 H2]. rewrite E.dir_run_snoc. apply DI_step; auto.
Qed.

(** whatever part of the pending name-space operations took effect and whatever the
    loss choice for unsynced file contents: the surviving state file is the payload of a
    state write at or after the write of the last attempt whose directory fsync completed *)
Theorem dir_survivor (L : log) ch x : shaped L ->
  m_state (crash_medium medium_empty L ch) = Some x ->
  exists pos, nth_error L pos = Some (IoWriteNew x) /\ forall lw, dlw L = Some lw -> lw <= pos.
Proof.
  intros Hs. pose proof (DI_run L Hs) as D. unfold crash_medium. cbn [m_state m_new medium_empty].
  set (d := dir_run (dir_init None None) L) in *. unfold dir_crash.
  destruct (snd (fold_left ns_apply (firstn (c_dirk ch) (d_pend d)) (d_dnew d, d_dstate d))) as [f|] eqn:Ef;
    cbn [m_state]; [|discriminate].
  intros H. inv H.
  destruct (di_good _ _ D f) as (st & pos & G1 & G2 & G3); [exists (c_dirk ch); exact Ef|].
  exists pos. unfold file_content. rewrite G1. auto.
Qed.

(** ------------------------------------------------------------------ *)
(** * scan facts used by the composition *)

Lemma dlw_snoc L e w : dlw L = Some w -> exists w', dlw (L ++ [e]) = Some w' /\ w <= w'.
Proof.
  intros H. pose proof (dscan_facts L) as (_ & _ & F3). specialize (F3 _ H).
  unfold dlw, dwc in *. rewrite dscan_snoc. destruct (dscan L) as [[[pos pc] wc] lw]. cbn in *. subst lw.
  destruct e; cbn; eauto.
Qed.

Lemma dlw_app L L' : forall w, dlw L = Some w -> exists w', dlw (L ++ L') = Some w' /\ w <= w'.
Proof.
  induction L' as [|e L' IH] using rev_ind; intros w H.
  - rewrite app_nil_r. eauto.
  - destruct (IH _ H) as (w1 & H1 & Hle). rewrite app_assoc.
    destruct (dlw_snoc _ e _ H1) as (w2 & H2 & Hle2). exists w2. split; [exact H2|lia].
Qed.

Lemma dlw_firstn L q n w : q <= n -> dlw (firstn q L) = Some w -> exists w', dlw (firstn n L) = Some w' /\ w <= w'.
Proof.
  intros Hle H. destruct (E.firstn_prefix L q n Hle) as [L' EL]. rewrite EL. apply dlw_app. exact H.
Qed.

Lemma shaped_scan L : shaped L ->
  (3 <= dpc L -> exists st, nth_error L (dwc L) = Some (IoWriteNew st)) /\
  (forall w, dlw L = Some w -> exists st, nth_error L w = Some (IoWriteNew st)).
Proof.
  induction L as [|e L IH] using rev_ind; intros H.
  - cbn. split; [lia|discriminate].
  - apply shaped_snoc in H. destruct H as [H1 H2]. destruct (IH H1) as [I1 I2].
    pose proof (dscan_facts L) as (F1 & _ & _).
    unfold dpc, dwc, dlw in *. rewrite dscan_snoc. destruct (dscan L) as [[[pos pc] wc] lw]. cbn [fst snd] in *. subst pos.
    assert (Hold : forall q st, nth_error L q = Some (IoWriteNew st) -> nth_error (L ++ [e]) q = Some (IoWriteNew st))
      by (intros; apply E.nth_snoc_old; assumption).
    destruct e; cbn [dstep fst snd]; cbn in H2;
      try (split; [intros Hp; destruct (I1 Hp) as [st Hst]; eauto|intros w Hw; destruct (I2 w Hw) as [st Hst]; eauto]).
    + split; [lia|]. intros w Hw; destruct (I2 w Hw) as [st Hst]; eauto.
    + split; [lia|]. intros w Hw; destruct (I2 w Hw) as [st Hst]; eauto.
    + split; [intros _; exists st; apply E.nth_snoc_new|]. intros w Hw; destruct (I2 w Hw) as [st' Hst]; eauto.
    + subst pc. destruct (I1 ltac:(lia)) as [st Hst]. split; [eauto|]. intros w Hw; destruct (I2 w Hw) as [st' Hst']; eauto.
    + subst pc. destruct (I1 ltac:(lia)) as [st Hst]. split; [eauto|]. intros w Hw; destruct (I2 w Hw) as [st' Hst']; eauto.
    + subst pc. destruct (I1 ltac:(lia)) as [st Hst]. split; [eauto|]. intros w Hw. inv Hw. eauto.
Qed.

(** ------------------------------------------------------------------ *)
(** * (4) as a statement about the log, and (6) the composition *)

(** state [st] is the list's window starting at absolute index [kst] *)
Definition st_at (sd : list N) (el : list nat) (lc : list loc) (kst : nat) (st : pstate) : Prop :=
  forall q b, nth_error (snd st) q = Some b ->
    nth_error lc (kst + q) = Some (bs_loc b) /\
    forall s0, In s0 (bs_seeds b) -> exists j, nth_error sd j = Some s0 /\ nth_error el j = Some (kst + q).

(** window start of the last state write whose directory fsync is in [L] *)
Definition kd (K : nat -> nat) (L : log) : nat := match dlw L with Some w => K w | None => 0 end.

(** [K p]: the window start of the state written at log position [p].
    - the log is a sequence of attempts, each a prefix of remove/create/write/fsync/rename/dirsync;
    - window starts are non-decreasing along the log and describe the payloads;
    - when data is written into block [a'], every earlier block [a] on the same region is
      below the window start of the last durably completed state write. *)
Record reuse_witness (c : cst) (K : nat -> nat) : Prop := mkRW {
  w_shape : shaped (cs_log c);
  w_mono : forall p1 p2 st1 st2, p1 <= p2 -> nth_error (cs_log c) p1 = Some (IoWriteNew st1) ->
     nth_error (cs_log c) p2 = Some (IoWriteNew st2) -> K p1 <= K p2;
  w_st : forall p st h, nth_error (cs_log c) p = Some (IoWriteNew (st, h)) ->
     st_at (cs_seeds c) (cs_elast c) (cs_locs c) (K p) st;
  w_data : forall p' k' l lo hi u' a, nth_error (cs_log c) p' = Some (IoData k' l lo hi) ->
     nth_error (cs_ups c) k' = Some u' -> a < up_abs u' -> nth_error (cs_locs c) a = Some l ->
     a < kd K (firstn p' (cs_log c))
}.

Lemma resolve_location_k sd el ab lc r oldest bl alloc i kst :
  NoDup sd -> A.rec_ok sd el ab r -> st_at sd el lc kst (oldest, bl) ->
  resolve_ref (fst (pbl_new alloc oldest bl)) 0 (r_epoch r) (r_bfl r) (r_seed r) = Some i ->
  exists a, nth_error ab (r_up r) = Some a /\ kst <= a.
Proof.
  intros Hnd (j & e0 & a & R1 & R2 & R3 & R4) Hst Hres.
  destruct (A.pbl_new_fields alloc oldest bl) as [Htr Hf].
  destruct (restore_blocks alloc bl 0) as [[bl' seeds'] lasts'] eqn:Er.
  destruct (Hf _ _ _ eq_refl) as (F1 & F2 & F3). clear Hf.
  set (p' := fst (pbl_new alloc oldest bl)) in *.
  unfold resolve_ref in Hres.
  destruct (ref_to_index (r_epoch r) (r_bfl r) p') as [[[i' seed]|]|] eqn:Eri; try discriminate.
  cbn in Hres. destruct (N.eqb_spec seed (r_seed r)) as [Es|]; [|discriminate]. injection Hres as Hii. subst i'.
  apply A.ref_to_index_spec in Eri. destruct Eri as (e & la & E1 & E2 & E3 & E4).
  rewrite Htr in E3, E4. rewrite F3 in E1. rewrite F2 in E2.
  destruct (A.restore_spec _ _ _ _ _ _ Er _ _ E2) as (q & b & Q1 & Q2 & Q3 & Q4).
  rewrite E1 in Q1. injection Q1 as Hla. cbn [plus] in Hla. subst la.
  destruct (Hst q b Q2) as [L1 L2]. destruct (L2 _ Q3) as (j' & S1 & S2).
  assert (j = j') by (eapply A.NoDup_nth_eq; [exact Hnd|exact R1|rewrite <- Es; exact S1]). subst j'.
  rewrite R2 in S2. injection S2 as He0. subst e0.
  exists a. split; [exact R3|lia].
Qed.

Lemma resolve_none_fails alloc e bfl rs i :
  resolve_ref (fst (pbl_new alloc 1 [])) 0 e bfl rs = Some i -> False.
Proof. intros H. apply E.resolve_ref_seed in H. cbn in H. exact H. Qed.

Theorem witness_no_later_reuse g cfg t0 c K : length (g_locs g) < 65536 ->
  creach g cfg medium_empty t0 c -> reuse_witness c K ->
  forall n ch slot r i, resolves g (crash_of medium_empty c n ch) slot r i -> no_later_reuse c n (r_up r).
Proof.
  intros Hg R [W1 W2 W3 W4] n ch slot r i [Hslot Hres] up p' k' l' lo' hi' u' Hup Hpn Hp' Hu' Hlt Hloc.
  pose proof (A.creach_cinv _ _ _ _ Hg R) as [I1 I2 I3 I4 I5 I6 I7 I8 I9].
  unfold crash_of in *. set (L := firstn n (cs_log c)) in *.
  assert (HsL : shaped L) by (apply shaped_firstn; exact W1).
  (* a durably completed state write with a larger window start precedes the data write *)
  pose proof (W4 _ _ _ _ _ _ _ Hp' Hu' Hlt Hloc) as Hkd. unfold kd in Hkd.
  destruct (dlw (firstn p' (cs_log c))) as [w|] eqn:Ew; [|lia].
  destruct (dlw_firstn (cs_log c) p' n w ltac:(lia) Ew) as (w' & Ew' & Hww). fold L in Ew'.
  destruct (proj2 (shaped_scan _ (shaped_firstn _ p' W1)) _ Ew) as [stw Hstw].
  apply E.nth_firstn in Hstw. destruct Hstw as [_ Hstw].
  destruct (proj2 (shaped_scan _ HsL) _ Ew') as [stw' Hstw'].
  apply E.nth_firstn in Hstw'. destruct Hstw' as [_ Hstw'].
  pose proof (W2 _ _ _ _ Hww Hstw Hstw') as HK1.
  (* the record *)
  destruct (A.crash_index_in _ _ _ _ Hslot) as [s' Hin].
  assert (Hrec : A.rec_ok (cs_seeds c) (cs_elast c) (A.abss c) r).
  { rewrite Forall_forall in I6. apply (I6 (IoIndex s' r)). eapply A.in_firstn; eauto. }
  (* the surviving state file *)
  destruct (m_state (crash_medium medium_empty L ch)) as [[[oldest bl] h]|] eqn:Em.
  2:{ unfold restart in Hres. eapply (resolve_none_fails (fun l _ => geom g l)); exact Hres. }
  destruct (dir_survivor L ch _ HsL Em) as (pos & Hpos & Hlw). specialize (Hlw _ Ew').
  apply E.nth_firstn in Hpos. destruct Hpos as [_ Hpos].
  pose proof (W2 _ _ _ _ Hlw Hstw' Hpos) as HK2.
  pose proof (W3 _ _ _ Hpos) as Hst.
  unfold restart in Hres.
  destruct (resolve_location_k _ _ (A.abss c) _ r oldest bl (fun l _ => geom g l) i _ (A.gi_nodup _ _ _ I1) Hrec Hst Hres)
    as (a & Ha & Hka).
  unfold A.abss in Ha. rewrite nth_error_map, Hup in Ha. cbn in Ha. inv Ha. lia.
Qed.

(** the final statement, relative to a witness for (4) *)
Theorem crash_safe_bytes_from_witness : forall g cfg t0 c, length (g_locs g) < 65536 -> NoDup (g_locs g) ->
  creach g cfg medium_empty t0 c -> (exists K, reuse_witness c K) ->
  forall n ch slot r i, resolves g (crash_of medium_empty c n ch) slot r i ->
  exists up l, nth_error (cs_ups c) (r_up r) = Some up /\
    block_loc (fst (restart (geom g) (m_state (crash_of medium_empty c n ch)))) i = Some l /\
    nth_error (cs_locs c) (up_abs up) = Some l /\
    forall z, (r_off r <= z < r_off r + r_size r)%Z ->
      byte_owner (m_data (crash_of medium_empty c n ch)) l z None = Some (r_up r).
Proof.
  intros g cfg t0 c Hg Hnd R [K W] n ch slot r i Hres.
  eapply crash_safe_bytes_partial; eauto. eapply witness_no_later_reuse; eauto.
Qed.

(** ------------------------------------------------------------------ *)
(** * part of (4): the log of a reachable state is a sequence of attempts
      (remove, create, write, fsync, rename, dirsync in this order, state writes
      do not interleave) *)

Definition nodir (e : io irec) : Prop :=
  match e with
  | IoRemoveNew | IoCreateNew | IoWriteNew _ | IoFsyncNew | IoRenameNew | IoDirSync => False
  | _ => True
  end.

Lemma shaped_app_nodir L extra : shaped L -> Forall nodir extra ->
  shaped (L ++ extra) /\ dpc (L ++ extra) = dpc L.
Proof.
  induction extra as [|e extra IH] using rev_ind; intros H F.
  - rewrite app_nil_r. auto.
  - apply Forall_app in F. destruct F as [F1 F2]. inv F2. destruct (IH H F1) as [I1 I2].
    rewrite app_assoc. split.
    + apply shaped_snoc_intro; [exact I1|]. destruct e; cbn in *; tauto.
    + rewrite <- I2. unfold dpc. rewrite dscan_snoc. destruct (dscan (L ++ extra)) as [[[pos pc] wc] lw].
      destruct e; cbn in *; tauto.
Qed.

Lemma writing_pcs s s' : s_r s' = s_r s -> s_p s' = s_p s -> writing s' = writing s.
Proof. unfold writing. intros -> ->. reflexivity. Qed.

Lemma writing_step cfg s t a s' : inv3 s -> step cfg s (EStep t a) = Some (Ok s') ->
  thread_at_getstate s t = false -> forall st, writing s' = Some st -> writing s = Some st.
Proof.
  intros I3 H G st W.
  destruct s as [p now last cancel store r pp ups sched writes].
  unfold inv3, r_holds, p_holds, holds in I3. cbn in I3. destruct I3 as [_ I3].
  destruct t; cbn [step] in H.
  - unfold rstep in H. cbn [s_r] in H.
    destruct r as [|ch|w]; cbn in *.
    + inv H. cbn in *. exact W.
    + destruct (is_closed _ _); [|discriminate]. inv H. cbn in *. exact W.
    + destruct w; cbn in *; try discriminate.
      * destruct store; [discriminate|]. inv H. cbn in *. exact W.
      * destruct (a_ok a); inv H; cbn in *; destruct pp as [| | | | | | | |? []|]; cbn in *; congruence.
      * destruct (notify_state_written p); [|discriminate]. inv H. cbn in *. exact W.
      * destruct (_ <=? _)%N; [|discriminate]. inv H. cbn in *. exact W.
  - unfold pstep in H. cbn [s_p] in H.
    assert (Hr : forall s2, s_r s2 = r -> (forall k0 st0, s_p s2 <> PW k0 (WWriting st0)) ->
               writing s2 = Some st ->
               writing (mkSys p now last cancel store r pp ups sched writes) = Some st).
    { intros s2 Er Hn Hw. unfold writing in *. cbn. rewrite Er in Hw. destruct r as [| |[]]; auto;
        destruct (s_p s2) as [| | | | | | | |? []|]; try discriminate; exfalso; eapply Hn; reflexivity. }
    assert (Hfin : forall s2, Some (Ok s2) = Some (Ok s') -> s_r s2 = r ->
               (forall k0 st0, s_p s2 <> PW k0 (WWriting st0)) ->
               writing (mkSys p now last cancel store r pp ups sched writes) = Some st).
    { intros s2 E2 Er Hn. inv E2. eapply Hr; eauto. }
    clear Hr.
    destruct pp as [|ch|ch|dl|keep|keep final|keep final|keep final dl|keep w|]; cbn in H.
    + eapply Hfin; [exact H|reflexivity|discriminate].
    + destruct (is_closed _ _); (eapply Hfin; [exact H|reflexivity|discriminate]).
    + match type of H with (if ?b then _ else _) = _ => destruct b end;
        [|match type of H with (if ?b then _ else _) = _ => destruct b; [|discriminate] end];
        (eapply Hfin; [exact H|reflexivity|discriminate]).
    + match type of H with (if ?b then _ else _) = _ => destruct b end;
        [|match type of H with (if ?b then _ else _) = _ => destruct b; [|discriminate] end];
        (eapply Hfin; [exact H|reflexivity|discriminate]).
    + eapply Hfin; [exact H|reflexivity|discriminate].
    + destruct (a_ok a); (eapply Hfin; [exact H|reflexivity|discriminate]).
    + destruct keep, final; cbn in H; (eapply Hfin; [exact H|reflexivity|discriminate]).
    + match type of H with (if ?b then _ else _) = _ => destruct b; [|discriminate] end.
      eapply Hfin; [exact H|reflexivity|discriminate].
    + destruct w; cbn in H, G; try discriminate.
      * destruct store; [discriminate|]. eapply Hfin; [exact H|reflexivity|discriminate].
      * destruct (a_ok a); (eapply Hfin; [exact H|reflexivity|discriminate]).
      * destruct (notify_state_written p); [|discriminate].
        eapply Hfin; [exact H|reflexivity|destruct keep; discriminate].
      * match type of H with context [if ?b then _ else _] => destruct b end; cbn in H; [|discriminate].
        eapply Hfin; [exact H|reflexivity|discriminate].
    + discriminate.
Qed.

Definition shinv (c : cst) : Prop :=
  shaped (cs_log c) /\
  forall st, writing (cs_sys c) = Some st -> cs_dirpc c = 0 \/ cs_dirpc c = dpc (cs_log c).

Lemma shinv_step g cfg c e c' : inv3 (cs_sys c) -> shinv c -> cstep g cfg c e = Some c' -> shinv c'.
Proof.
  intros I3 [S1 S2] H. apply cstep_eff in H.
  assert (Hframe : forall extra, cs_log c' = cs_log c ++ extra -> Forall nodir extra ->
            (forall st, writing (cs_sys c') = Some st -> writing (cs_sys c) = Some st) ->
            cs_dirpc c' = cs_dirpc c -> shinv c').
  { intros extra E1 F E2 E3. destruct (shaped_app_nodir _ _ S1 F) as [A1 A2].
    split; rewrite E1; [exact A1|]. intros st W. rewrite E3, A2. eauto. }
  eff_cases H.
  - apply obs_fields in Hobs. destruct Hobs as (_ & E2 & E3 & E4 & _ & _ & _ & _ & E9 & _).
    apply (Hframe []); auto. + rewrite E4, app_nil_r; reflexivity.
    + intros st. rewrite (writing_pcs _ _ E2 E3). auto.
  - destruct Hpc as [P1 P2]. apply (Hframe []); auto. + rewrite Hlg, app_nil_r; reflexivity.
    + intros st. rewrite (writing_pcs _ _ P1 P2). auto.
  - destruct Hpc as [P1 P2]. apply (Hframe []); auto. + rewrite Hlg, app_nil_r; reflexivity.
    + intros st. rewrite (writing_pcs _ _ P1 P2). auto.
  - destruct Hpc as [P1 P2]. apply (Hframe []); auto. + rewrite Hlg, app_nil_r; reflexivity.
    + intros st. rewrite (writing_pcs _ _ P1 P2). auto.
  - apply (Hframe [IoData k l (up_off u + up_issued u) (up_off u + up_issued u + n)%Z]); auto.
    + constructor; [exact Logic.I|constructor].
    + rewrite Hsys. auto.
  - apply (Hframe []); auto. + rewrite Hlg, app_nil_r; reflexivity. + rewrite Hsys. auto.
  - destruct Hpc as [P1 P2]. apply (Hframe extra); auto.
    + eapply Forall_impl; [|exact Hex]. intros [] Hx; cbn in *; tauto.
    + intros st. rewrite (writing_pcs _ _ P1 P2). auto.
  - destruct (shaped_app_nodir _ extra S1) as [A1 A2].
    { eapply Forall_impl; [|exact Hex]. intros [] Hx; cbn in *; tauto. }
    split; rewrite Hlg; [exact A1|]. intros st W. rewrite Hd, A2.
    destruct (thread_at_getstate (cs_sys c) t) eqn:Eg; [auto|].
    rewrite Hsys in W. eapply S2. eapply writing_step; eauto.
  - split.
    + rewrite Hlg. apply shaped_snoc_intro; [exact S1|].
      destruct (S2 _ Hw) as [E0|E0]; [rewrite E0; exact Logic.I|].
      unfold dir_ops_total in Hlt. rewrite <- E0.
      destruct (cs_dirpc c) as [|[|[|[|[|[|?]]]]]]; cbn; auto; lia.
    + intros st' _. right. rewrite Hd, Hlg. unfold dpc. rewrite dscan_snoc.
      destruct (dscan (cs_log c)) as [[[pos pc] wc] lw]. unfold dir_ops_total in Hlt.
      destruct (cs_dirpc c) as [|[|[|[|[|[|?]]]]]]; cbn; auto; lia.
Qed.

Theorem creach_shaped g cfg t0 c : creach g cfg medium_empty t0 c -> shinv c.
Proof.
  apply creach_ind.
  - split; [intros q e H; cbn in H; destruct q; discriminate|]. cbn. discriminate.
  - intros c0 e c' R P Hs. eapply shinv_step; eauto. apply (creach_sysinv _ _ _ _ R).
Qed.

(** every state file that can survive a crash of a reachable state is the payload of a state
    write at or after the write of the last attempt whose directory fsync is in the prefix *)
Theorem crash_state_survivor g cfg t0 c n ch x : creach g cfg medium_empty t0 c ->
  m_state (crash_of medium_empty c n ch) = Some x ->
  exists pos, pos < n /\ nth_error (cs_log c) pos = Some (IoWriteNew x) /\
    forall lw, dlw (firstn n (cs_log c)) = Some lw -> lw <= pos.
Proof.
  intros R H. destruct (creach_shaped _ _ _ _ R) as [S _].
  destruct (dir_survivor _ ch x (shaped_firstn _ n S) H) as (pos & P1 & P2).
  apply E.nth_firstn in P1. destruct P1 as [P0 P1]. eauto.
Qed.

(** the final statement with exactly the three facts of (4) that are NOT proved in this file
    as hypotheses (the shape of the log is [creach_shaped]) *)
Theorem crash_safe_bytes_partial4 : forall g cfg t0 c, length (g_locs g) < 65536 -> NoDup (g_locs g) ->
  creach g cfg medium_empty t0 c ->
  (exists K : nat -> nat,
     (forall p1 p2 st1 st2, p1 <= p2 -> nth_error (cs_log c) p1 = Some (IoWriteNew st1) ->
        nth_error (cs_log c) p2 = Some (IoWriteNew st2) -> K p1 <= K p2) /\
     (forall p st h, nth_error (cs_log c) p = Some (IoWriteNew (st, h)) ->
        st_at (cs_seeds c) (cs_elast c) (cs_locs c) (K p) st) /\
     (forall p' k' l lo hi u' a, nth_error (cs_log c) p' = Some (IoData k' l lo hi) ->
        nth_error (cs_ups c) k' = Some u' -> a < up_abs u' -> nth_error (cs_locs c) a = Some l ->
        a < kd K (firstn p' (cs_log c)))) ->
  forall n ch slot r i, resolves g (crash_of medium_empty c n ch) slot r i ->
  exists up l, nth_error (cs_ups c) (r_up r) = Some up /\
    block_loc (fst (restart (geom g) (m_state (crash_of medium_empty c n ch)))) i = Some l /\
    nth_error (cs_locs c) (up_abs up) = Some l /\
    forall z, (r_off r <= z < r_off r + r_size r)%Z ->
      byte_owner (m_data (crash_of medium_empty c n ch)) l z None = Some (r_up r).
Proof.
  intros g cfg t0 c Hg Hnd R [K (M & S & D)]. eapply crash_safe_bytes_from_witness; eauto.
  exists K. constructor; auto. apply (creach_shaped _ _ _ _ R).
Qed.

(** The three hypotheses above are discharged further below: [kinv] (ghosts [K], [kin] =
    totalReleased when the in-flight state was taken by GetPersistentState) is preserved by
    every [cstep] ([kinv_step]), holds in every reachable state ([creach_kinv]) and yields
    [reuse_witness] ([region_reused_only_after_durable_state]); [crash_safe_bytes] is the
    unconditional statement. *)

(** ------------------------------------------------------------------ *)
(** * (4): the ghost invariant — what one thread step does to the write phases *)

Definition written (s : sys) : bool :=
  match s_r s with
  | RW WWritten => true
  | _ => match s_p s with PW _ WWritten => true | _ => false end
  end.
Definition holding (s : sys) : Prop := writing s <> None \/ written s = true.

Lemma written_pcs s s' : s_r s' = s_r s -> s_p s' = s_p s -> written s' = written s.
Proof. unfold written. intros -> ->. reflexivity. Qed.

Ltac dpp I3 pp := destruct pp as [| | | | | | | |? []|]; cbn in I3; try discriminate.
Ltac drr I3 r := destruct r as [| |[]]; cbn in I3; try discriminate.

Lemma thread_cases cfg s t a s' : inv3 s -> step cfg s (EStep t a) = Some (Ok s') ->
  (writing s' = writing s /\ written s' = written s /\ toRelease (s_pbl s') = toRelease (s_pbl s) /\
   releasing (s_pbl s') = releasing (s_pbl s) /\ thread_at_getstate s t = false)
  \/ (thread_at_getstate s t = true /\ writing s = None /\ written s = false /\
      exists p' st, get_persistent_state (s_pbl s) = Ok (p', st) /\ s_pbl s' = p' /\
                    writing s' = Some st /\ written s' = false)
  \/ (thread_writing s t = true /\ a_ok a = true /\ thread_at_getstate s t = false /\
      (exists st, writing s = Some st) /\ writing s' = None /\ written s' = true /\ s_pbl s' = s_pbl s)
  \/ (thread_at_getstate s t = false /\ writing s' = None /\ written s' = false /\ s_pbl s' = s_pbl s)
  \/ (written s = true /\ writing s = None /\ thread_at_getstate s t = false /\
      notify_state_written (s_pbl s) = Ok (s_pbl s') /\ writing s' = None /\ written s' = false).
Proof.
  intros I3 H.
  destruct s as [p now last cancel store r pp ups sched writes].
  unfold inv3, r_holds, p_holds, holds in I3. cbn [s_r s_p s_store] in I3. destruct I3 as [_ I3].
  unfold writing, written, thread_at_getstate, thread_writing.
  destruct t; cbn [step] in H.
  - unfold rstep in H. cbn [s_r] in H.
    destruct r as [|ch|w].
    + inv H. left. cbn. auto.
    + destruct (is_closed _ _); [|discriminate]. inv H. left. cbn. auto.
    + destruct w; cbn in H.
      * destruct store; [discriminate|]. inv H. left. cbn. auto.
      * destruct (get_persistent_state p) as [[p' st]|] eqn:Eg; [|discriminate]. inv H.
        right; left. dpp I3 pp; cbn; splits; auto; exists p', st; auto.
      * destruct (a_ok a) eqn:Ea; inv H.
        -- right; right; left. dpp I3 pp; cbn; splits; eauto.
        -- right; right; right; left. dpp I3 pp; cbn; splits; auto.
      * destruct (notify_state_written p) as [p'|] eqn:En; [|discriminate]. inv H.
        right; right; right; right. dpp I3 pp; cbn; splits; auto.
      * destruct (_ <=? _)%N; [|discriminate]. inv H. left. cbn. auto.
  - unfold pstep in H. cbn [s_p] in H.
    destruct pp as [|ch|ch|dl|keep|keep final|keep final|keep final dl|keep w|].
    + inv H. left. cbn. splits; auto.
    + destruct (is_closed _ _); inv H; left; cbn; splits; auto.
    + cbn in H. match type of H with (if ?b then _ else _) = _ => destruct b end;
        [|match type of H with (if ?b then _ else _) = _ => destruct b; [|discriminate] end];
        inv H; left; cbn; splits; auto.
    + cbn in H. match type of H with (if ?b then _ else _) = _ => destruct b end;
        [|match type of H with (if ?b then _ else _) = _ => destruct b; [|discriminate] end];
        inv H; left; cbn; splits; auto.
    + inv H. left. cbn. splits; auto.
    + destruct (a_ok a); inv H; left; cbn; splits; auto.
    + destruct keep, final; cbn in H; inv H; left; cbn; splits; auto;
        unfold notify_sync_completed;
        match goal with |- context [if ?b then nc_block _ _ else _] => destruct b end;
        try (destruct (nc_block _ _)); reflexivity.
    + cbn in H. match type of H with (if ?b then _ else _) = _ => destruct b; [|discriminate] end.
      inv H. left. cbn. splits; auto.
    + destruct w; cbn in H.
      * destruct store; [discriminate|]. inv H. left. drr I3 r; cbn; splits; auto.
      * destruct (get_persistent_state p) as [[p' st]|] eqn:Eg; [|discriminate]. inv H.
        right; left. drr I3 r; cbn; splits; auto; exists p', st; auto.
      * destruct (a_ok a) eqn:Ea; inv H.
        -- right; right; left. drr I3 r; cbn; splits; eauto.
        -- right; right; right; left. drr I3 r; cbn; splits; auto.
      * destruct (notify_state_written p) as [p'|] eqn:En; [|discriminate]. inv H.
        right; right; right; right. drr I3 r; destruct keep; cbn; splits; auto.
      * match type of H with context [if ?b then _ else _] => destruct b end; cbn in H; [|discriminate].
        inv H. left. drr I3 r; cbn; splits; auto.
    + discriminate.
Qed.

(** ---- more scan facts ---- *)
Definition noWS (e : io irec) : Prop := match e with IoWriteNew _ | IoDirSync => False | _ => True end.

Lemma scan_noWS L extra : Forall noWS extra -> dlw (L ++ extra) = dlw L /\ dwc (L ++ extra) = dwc L.
Proof.
  induction extra as [|e extra IH] using rev_ind; intros F.
  - rewrite app_nil_r. auto.
  - apply Forall_app in F. destruct F as [F1 F2]. inv F2. destruct (IH F1) as [I1 I2].
    rewrite app_assoc. rewrite <- I1, <- I2. unfold dlw, dwc. rewrite dscan_snoc.
    destruct (dscan (L ++ extra)) as [[[pos pc] wc] lw]. destruct e; cbn in *; tauto.
Qed.

Lemma nth_app_noW (L extra : log) q st : Forall noWS extra ->
  nth_error (L ++ extra) q = Some (IoWriteNew st) -> nth_error L q = Some (IoWriteNew st).
Proof.
  intros Hn H. destruct (Nat.lt_ge_cases q (length L)) as [Hl|Hl].
  - rewrite nth_error_app1 in H by exact Hl. exact H.
  - rewrite nth_error_app2 in H by exact Hl. apply nth_error_In in H.
    rewrite Forall_forall in Hn. destruct (Hn _ H).
Qed.

Lemma dlw_lt L : forall w, dlw L = Some w -> w < length L.
Proof.
  induction L as [|e L IH] using rev_ind; intros w H; [discriminate|].
  pose proof (dscan_facts L) as (F1 & F2 & _).
  unfold dlw, dwc in *. rewrite dscan_snoc in H. rewrite app_length. cbn [length].
  destruct (dscan L) as [[[pos pc] wc] lw]. cbn [fst snd] in *.
  destruct e; cbn in H; try (specialize (IH _ H); lia). inv H. lia.
Qed.

Lemma dpc6 L : dpc L = 6 -> dlw L = Some (dwc L).
Proof.
  induction L as [|e L IH] using rev_ind; intros H; [discriminate|].
  unfold dpc, dlw, dwc in *. rewrite dscan_snoc in *.
  destruct (dscan L) as [[[pos pc] wc] lw]. cbn [fst snd] in *.
  destruct e; cbn in *; try discriminate; auto.
Qed.

Lemma kd_agree K K' m (L0 : log) : (forall q, q < m -> K' q = K q) -> length L0 <= m -> kd K' L0 = kd K L0.
Proof.
  intros H Hl. unfold kd. destruct (dlw L0) as [w|] eqn:E; [|reflexivity]. apply H. apply dlw_lt in E. lia.
Qed.

Lemma st_at_mono sd el lc sd' el' lc' k st :
  st_at sd el lc k st -> st_at (sd ++ sd') (el ++ el') (lc ++ lc') k st.
Proof.
  intros H q b Hq. destruct (H q b Hq) as [H1 H2]. split; [apply A.nth_error_app_some; exact H1|].
  intros s0 Hs. destruct (H2 s0 Hs) as [j [J1 J2]]. exists j. split; apply A.nth_error_app_some; assumption.
Qed.

Lemma gps_st_at p sd el lc p1 st :
  A.ginv p sd el -> map b_loc (blocks p) = skipn (totalReleased p) lc ->
  get_persistent_state p = Ok (p1, st) -> st_at sd el lc (totalReleased p) st.
Proof.
  intros [G1 [k [Gk [G2 G3]]] G4 G5] Hl Hg. intros q b Hq.
  destruct (A.gps_spec _ _ _ Hg q b Hq) as [H1 H2]. split.
  - rewrite Hl, A.nth_error_skipn' in H1. exact H1.
  - intros s0 Hs. destruct (H2 s0 Hs) as [e [E1 E2]]. exists (k + e). split.
    + rewrite <- A.nth_error_skipn', <- G2. exact E1.
    + rewrite <- A.nth_error_skipn', <- G3, G1. exact E2.
Qed.

Lemma gps_fields p p' st : get_persistent_state p = Ok (p', st) ->
  toRelease p' = toRelease p /\ releasing p' = length (toRelease p) /\ totalReleased p' = totalReleased p.
Proof.
  unfold get_persistent_state. destruct (gps_loop _ _ _ _); [|discriminate]. cbn. intros H; inv H. cbn. auto.
Qed.

Lemma nsw_fields p p' : notify_state_written p = Ok p' ->
  toRelease p' = skipn (releasing p) (toRelease p) /\ releasing p <= length (toRelease p) /\
  totalReleased p' = totalReleased p.
Proof.
  unfold notify_state_written. destruct (Nat.ltb_spec (length (toRelease p)) (releasing p)); [discriminate|].
  destruct (skipn (releasing p) (toRelease p)) as [|x rest] eqn:E;
    [destruct (nc_block _ _) as [rw h1]|]; intros H0; inv H0; cbn; auto.
Qed.

Lemma put_finalize_rel tok blk size seed p p' fr : put_finalize tok blk size seed p = Ok (p', fr) ->
  toRelease p' = toRelease p /\ releasing p' = releasing p /\ totalReleased p' = totalReleased p.
Proof.
  unfold put_finalize.
  destruct tok as [|abs]; [intros HH; inv HH; auto|].
  destruct blk as [off|]; [|intros HH; inv HH; auto].
  destruct (closedForWriting p); [intros HH; inv HH; auto|].
  destruct (abs <? totalReleased p); [intros HH; inv HH; auto|].
  destruct (length (blocks p) <=? abs - totalReleased p); [discriminate|].
  destruct (length (epochLast p) =? synchronizingEpochs p).
  - cbn [obind]. destruct (nc_unblock (putWakeup p) (heap p)) as [[pw h1]|]; [|discriminate].
    cbn [obind]. intros HH; inv HH. cbn. auto.
  - destruct (length (epochLast p)) as [|n']; [discriminate|].
    destruct (nth_error (epochLast p) n') as [la|]; [|discriminate].
    cbn [obind]. destruct (la <? abs).
    + destruct (nc_unblock (putWakeup p) (heap p)) as [[pw h1]|]; [|discriminate].
      cbn [obind]. intros HH; inv HH. cbn. auto.
    + intros HH; inv HH. cbn. auto.
Qed.

(** ---- the ghost invariant ---- *)
Definition in_ok (g : geo) (K : nat -> nat) (kin : nat) (c : cst) : Prop :=
  forall st, writing (cs_sys c) = Some st ->
    st_at (cs_seeds c) (cs_elast c) (cs_locs c) kin st /\ kin <= totalReleased (s_pbl (cs_sys c)) /\
    (forall q st', nth_error (cs_log c) q = Some (IoWriteNew st') -> K q <= kin) /\
    (3 <= cs_dirpc c -> nth_error (cs_log c) (dwc (cs_log c)) = Some (IoWriteNew (st, g_hinit g)) /\
                        K (dwc (cs_log c)) = kin).
Definition rel_ok (kin : nat) (c : cst) : Prop :=
  holding (cs_sys c) -> forall i l a, i < releasing (s_pbl (cs_sys c)) ->
    nth_error (toRelease (s_pbl (cs_sys c))) i = Some l -> nth_error (cs_locs c) a = Some l -> a < kin.
Definition wr_ok (K : nat -> nat) (kin : nat) (c : cst) : Prop :=
  written (cs_sys c) = true -> exists w, dlw (cs_log c) = Some w /\ K w = kin.

Record kinv (g : geo) (K : nat -> nat) (kin : nat) (c : cst) : Prop := mkKinv {
  k_mono : forall p1 p2 st1 st2, p1 <= p2 -> nth_error (cs_log c) p1 = Some (IoWriteNew st1) ->
     nth_error (cs_log c) p2 = Some (IoWriteNew st2) -> K p1 <= K p2;
  k_bound : forall q st, nth_error (cs_log c) q = Some (IoWriteNew st) -> K q <= totalReleased (s_pbl (cs_sys c));
  k_st : forall q st h, nth_error (cs_log c) q = Some (IoWriteNew (st, h)) ->
     st_at (cs_seeds c) (cs_elast c) (cs_locs c) (K q) st;
  k_in : in_ok g K kin c;
  k_rel : rel_ok kin c;
  k_wr : wr_ok K kin c;
  k_free : forall l a, In l (cs_free c ++ cs_held c) -> nth_error (cs_locs c) a = Some l -> a < kd K (cs_log c);
  k_dup : forall a a' l, a < a' -> nth_error (cs_locs c) a = Some l -> nth_error (cs_locs c) a' = Some l ->
     a < kd K (cs_log c);
  k_data : forall p' k' l lo hi u' a, nth_error (cs_log c) p' = Some (IoData k' l lo hi) ->
     nth_error (cs_ups c) k' = Some u' -> a < up_abs u' -> nth_error (cs_locs c) a = Some l ->
     a < kd K (firstn p' (cs_log c))
}.

Lemma kinv_frame g K kin kin' c c' extra sd' el' :
  kinv g K kin c -> wf_ups c ->
  cs_log c' = cs_log c ++ extra -> Forall noWS extra ->
  totalReleased (s_pbl (cs_sys c)) <= totalReleased (s_pbl (cs_sys c')) ->
  cs_locs c' = cs_locs c -> cs_seeds c' = cs_seeds c ++ sd' -> cs_elast c' = cs_elast c ++ el' ->
  (forall l, In l (cs_free c' ++ cs_held c') -> In l (cs_free c ++ cs_held c) \/
     (forall a, nth_error (cs_locs c) a = Some l -> a < kd K (cs_log c))) ->
  (forall k' u', k' < length (cs_ups c) -> nth_error (cs_ups c') k' = Some u' ->
     exists u, nth_error (cs_ups c) k' = Some u /\ up_abs u' = up_abs u) ->
  (forall p' k' l lo hi u' a, length (cs_log c) <= p' -> nth_error (cs_log c') p' = Some (IoData k' l lo hi) ->
     nth_error (cs_ups c') k' = Some u' -> a < up_abs u' -> nth_error (cs_locs c) a = Some l ->
     a < kd K (firstn p' (cs_log c'))) ->
  in_ok g K kin' c' -> rel_ok kin' c' -> wr_ok K kin' c' ->
  kinv g K kin' c'.
Proof.
  intros [M B S I0 R0 W0 F D T] Wf Hlog Hex Htr Hl Hsd Hel Hfree Hups Hnew Hin Hrel Hwr.
  destruct (scan_noWS (cs_log c) extra Hex) as [Elw Ewc].
  assert (HW : forall q st, nth_error (cs_log c') q = Some (IoWriteNew st) -> nth_error (cs_log c) q = Some (IoWriteNew st)).
  { intros q st. rewrite Hlog. apply nth_app_noW. exact Hex. }
  assert (Hkd : kd K (cs_log c') = kd K (cs_log c)) by (unfold kd; rewrite Hlog, Elw; reflexivity).
  constructor; auto.
  - intros p1 p2 st1 st2 Hle H1 H2. eapply M; eauto.
  - intros q st Hq. specialize (B _ _ (HW _ _ Hq)). lia.
  - intros q st h Hq. rewrite Hsd, Hel, Hl. rewrite <- (app_nil_r (cs_locs c)). apply st_at_mono. eapply S; eauto.
  - intros l a Hin0 Ha. rewrite Hkd. rewrite Hl in Ha. destruct (Hfree l Hin0) as [Hf|Hf]; eauto.
  - intros a a' l Hlt H1 H2. rewrite Hkd. rewrite Hl in H1, H2. eauto.
  - intros p' k' l lo hi u' a Hp' Hu' Hlt Ha. rewrite Hl in Ha.
    destruct (Nat.lt_ge_cases p' (length (cs_log c))) as [Hlt'|Hge].
    + rewrite Hlog in Hp' |- *. rewrite nth_error_app1 in Hp' by exact Hlt'.
      rewrite E.firstn_app_le by lia.
      destruct (Wf _ _ _ _ (nth_error_In _ _ Hp')) as (u0 & U0 & _).
      destruct (Hups k' u' ltac:(apply nth_error_Some; congruence) Hu') as (u & U1 & U2).
      rewrite U2 in Hlt. eapply T; eauto.
    + eapply Hnew; eauto.
Qed.

Lemma phase_quiet g K kin c c' extra sd' el' :
  in_ok g K kin c -> rel_ok kin c -> wr_ok K kin c ->
  writing (cs_sys c') = writing (cs_sys c) -> written (cs_sys c') = written (cs_sys c) ->
  cs_log c' = cs_log c ++ extra -> Forall noWS extra ->
  (3 <= cs_dirpc c' -> 3 <= cs_dirpc c) ->
  totalReleased (s_pbl (cs_sys c)) <= totalReleased (s_pbl (cs_sys c')) ->
  releasing (s_pbl (cs_sys c')) = releasing (s_pbl (cs_sys c)) ->
  (forall i l, i < releasing (s_pbl (cs_sys c)) -> nth_error (toRelease (s_pbl (cs_sys c'))) i = Some l ->
     nth_error (toRelease (s_pbl (cs_sys c))) i = Some l) ->
  cs_locs c' = cs_locs c -> cs_seeds c' = cs_seeds c ++ sd' -> cs_elast c' = cs_elast c ++ el' ->
  in_ok g K kin c' /\ rel_ok kin c' /\ wr_ok K kin c'.
Proof.
  intros I0 R0 W0 Ew Ewr Hlog Hex Hpc Htr Hrl Htl Hl Hsd Hel.
  destruct (scan_noWS (cs_log c) extra Hex) as [Elw Ewc].
  splits.
  - intros st Hst. rewrite Ew in Hst. destruct (I0 st Hst) as (I1 & I2 & I3 & I4). splits.
    + rewrite Hsd, Hel, Hl. rewrite <- (app_nil_r (cs_locs c)). apply st_at_mono. exact I1.
    + lia.
    + intros q st' Hq. rewrite Hlog in Hq. apply nth_app_noW in Hq; eauto.
    + intros H3. destruct (I4 (Hpc H3)) as [J1 J2]. rewrite Hlog, Ewc. split; [|exact J2].
      apply A.nth_error_app_some. exact J1.
  - intros Hh i l a Hi Hn Ha. unfold holding in Hh. rewrite Ew, Ewr in Hh. rewrite Hrl in Hi. rewrite Hl in Ha.
    eapply R0; eauto.
  - intros Hw. rewrite Ewr in Hw. destruct (W0 Hw) as (w & W1 & W2). exists w. rewrite Hlog, Elw. auto.
Qed.

Lemma kinv_quiet g K kin c c' extra sd' el' :
  kinv g K kin c -> wf_ups c ->
  writing (cs_sys c') = writing (cs_sys c) -> written (cs_sys c') = written (cs_sys c) ->
  cs_log c' = cs_log c ++ extra -> Forall noWS extra ->
  (3 <= cs_dirpc c' -> 3 <= cs_dirpc c) ->
  totalReleased (s_pbl (cs_sys c)) <= totalReleased (s_pbl (cs_sys c')) ->
  releasing (s_pbl (cs_sys c')) = releasing (s_pbl (cs_sys c)) ->
  (forall i l, i < releasing (s_pbl (cs_sys c)) -> nth_error (toRelease (s_pbl (cs_sys c'))) i = Some l ->
     nth_error (toRelease (s_pbl (cs_sys c))) i = Some l) ->
  cs_locs c' = cs_locs c -> cs_seeds c' = cs_seeds c ++ sd' -> cs_elast c' = cs_elast c ++ el' ->
  (forall l, In l (cs_free c' ++ cs_held c') -> In l (cs_free c ++ cs_held c)) ->
  (forall k' u', k' < length (cs_ups c) -> nth_error (cs_ups c') k' = Some u' ->
     exists u, nth_error (cs_ups c) k' = Some u /\ up_abs u' = up_abs u) ->
  (forall p' k' l lo hi u' a, length (cs_log c) <= p' -> nth_error (cs_log c') p' = Some (IoData k' l lo hi) ->
     nth_error (cs_ups c') k' = Some u' -> a < up_abs u' -> nth_error (cs_locs c) a = Some l ->
     a < kd K (firstn p' (cs_log c'))) ->
  kinv g K kin c'.
Proof.
  intros KI Wf Ew Ewr Hlog Hex Hpc Htr Hrl Htl Hl Hsd Hel Hfree Hups Hnew.
  destruct (phase_quiet g K kin c c' extra sd' el' (k_in _ _ _ _ KI) (k_rel _ _ _ _ KI) (k_wr _ _ _ _ KI)
              Ew Ewr Hlog Hex Hpc Htr Hrl Htl Hl Hsd Hel) as (P1 & P2 & P3).
  eapply kinv_frame; eauto.
Qed.

Lemma hnew_nodata (L extra : log) p' k l lo hi : Forall nodata extra -> length L <= p' ->
  nth_error (L ++ extra) p' = Some (IoData k l lo hi) -> False.
Proof. intros F Hl H. apply nth_app_nodata in H; [|exact F]. apply E.nth_lt in H. lia. Qed.

Lemma st_at_lc sd el lc lc' k st : st_at sd el lc k st -> st_at sd el (lc ++ lc') k st.
Proof. intros H. pose proof (st_at_mono sd el lc [] [] lc' k st H) as H'. rewrite !app_nil_r in H'. exact H'. Qed.

Lemma pop_front_releasing p p' : pop_front p = Ok p' -> releasing p' = releasing p.
Proof.
  unfold pop_front. destruct (blocks p) as [|b rest]; [discriminate|].
  destruct (nc_unblock (releaseWakeup p) (heap p)) as [[rw h1]|]; [|discriminate]. cbn [obind].
  destruct (_ || _); [discriminate|].
  match goal with |- context [if ?c then nc_block _ _ else _] => destruct c end.
  - destruct (nc_block (putWakeup p) h1) as [pw h2]. intros HH; inv HH. reflexivity.
  - intros HH; inv HH. reflexivity.
Qed.

Lemma in_remove_loc held l x : In x (remove_loc held l) -> In x held.
Proof.
  induction held as [|y t IH]; cbn; [auto|]. destruct (loc_eqb y l); cbn; [auto|]. intros [H|H]; auto.
Qed.

Lemma existsb_loc_in l held : existsb (loc_eqb l) held = true -> In l held.
Proof. intros H. apply existsb_exists in H. destruct H as [x [Hx E0]]. apply loc_eqb_eq in E0. subst. exact Hx. Qed.

Lemma app_self_nil {X} (rel T : list X) : T = rel ++ T -> rel = [].
Proof.
  intros H. apply (f_equal (@length _)) in H. rewrite app_length in H. destruct rel; [reflexivity|cbn in H; lia].
Qed.

(** ---- preservation ---- *)
Lemma kinv_step g cfg c e c' K kin :
  NoDup (g_locs g) -> kinv g K kin c -> A.cinv g c -> rinv g c -> wf_ups c ->
  inv1 (cs_sys c) -> inv3 (cs_sys c) -> shinv c ->
  cstep g cfg c e = Some c' -> exists K' kin', kinv g K' kin' c'.
Proof.
  intros Hnd KI I RI Wf I1 I3 [Sh1 Sh2] H. apply cstep_eff in H.
  destruct (rinv_window _ _ Hnd RI I) as (Hn & Hwin & Hwnd).
  pose proof KI as [M B S I0 R0 W0 F D T].
  eff_cases H.
  - (* trivial *)
    apply obs_fields in Hobs. destruct Hobs as (E1 & E2 & E3 & E4 & E5 & E6 & E7 & E8 & E9 & E10 & E11).
    exists K, kin. eapply (kinv_quiet g K kin c c' [] [] []); eauto; rewrite ?app_nil_r; auto.
    + apply writing_pcs; auto.
    + apply written_pcs; auto.
    + rewrite E9. auto.
    + rewrite E1. lia.
    + rewrite E1. reflexivity.
    + rewrite E1. auto.
    + rewrite E7, E8. auto.
    + rewrite E5. eauto.
    + intros q' k' l0 lo hi u' a Hl Hp'. rewrite E4 in Hp'. apply E.nth_lt in Hp'. lia.
  - (* push *)
    destruct Hpc as [P1 P2]. destruct Hgh as [G1 G2].
    assert (Ew : writing (cs_sys c') = writing (cs_sys c)) by (apply writing_pcs; auto).
    assert (Ewr : written (cs_sys c') = written (cs_sys c)) by (apply written_pcs; auto).
    assert (Hlin : In l (cs_free c)) by (rewrite Hf; left; reflexivity).
    exists K, kin. constructor.
    + rewrite Hlg. exact M.
    + rewrite Hlg, Hp. exact B.
    + rewrite Hlg, G1, G2, Hlc. intros q st h Hq. apply st_at_lc. eauto.
    + intros st Hst. rewrite Ew in Hst. destruct (I0 st Hst) as (J1 & J2 & J3 & J4).
      rewrite G1, G2, Hlc, Hp, Hlg, Hd. splits; auto. apply st_at_lc. exact J1.
    + intros Hh i l0 a Hi Hn0 Ha. unfold holding in Hh. rewrite Ew, Ewr in Hh. rewrite Hp in Hi, Hn0. cbn in Hi, Hn0.
      rewrite Hlc in Ha. apply A.nth_error_snoc_inv in Ha. destruct Ha as [Ha|[_ ->]]; [eapply R0; eauto|].
      exfalso. unfold regions in Hn. apply nodup_app_r in Hn. eapply (nodup_app_disj _ _ l Hn).
      * eapply nth_error_In; eauto.
      * apply in_app_iff. left. exact Hlin.
    + intros Hw. rewrite Ewr in Hw. rewrite Hlg. auto.
    + intros l0 a Hin Ha. rewrite Hlg. rewrite Hfr, Hhd in Hin. rewrite Hlc in Ha.
      apply A.nth_error_snoc_inv in Ha. destruct Ha as [Ha|[_ ->]].
      * eapply F; eauto. rewrite Hf. right. exact Hin.
      * exfalso. unfold regions in Hn. apply nodup_app_r in Hn. apply nodup_app_r in Hn. rewrite Hf in Hn.
        cbn in Hn. inv Hn. auto.
    + intros a a' l0 Hlt H1 H2. rewrite Hlg. rewrite Hlc in H1, H2.
      apply A.nth_error_snoc_inv in H2. destruct H2 as [H2|[-> ->]].
      * pose proof (E.nth_lt _ _ _ H2). rewrite nth_error_app1 in H1 by lia. eauto.
      * rewrite nth_error_app1 in H1 by lia. eapply F; eauto. apply in_app_iff. left. exact Hlin.
    + intros p' k' l0 lo hi u' a Hp' Hu' Hlt Ha. rewrite Hlg in Hp' |- *. rewrite Hu in Hu'. rewrite Hlc in Ha.
      destruct (Wf _ _ _ _ (nth_error_In _ _ Hp')) as (u0 & U0 & U1). rewrite Hu' in U0. inv U0.
      pose proof (E.nth_lt _ _ _ U1). rewrite nth_error_app1 in Ha by lia. eauto.
  - (* pop *)
    destruct Hpc as [P1 P2]. destruct Hgh as [G1 G2]. destruct Hal as (L1 & L2 & L3).
    destruct (A.pop_front_spec _ _ Hpop) as (b & rest & E1 & E2 & _ & _ & _ & _ & E7 & E8 & _).
    pose proof (pop_front_releasing _ _ Hpop) as Er.
    exists K, kin. eapply (kinv_quiet g K kin c c' [] [] []); eauto; rewrite ?app_nil_r; auto.
    + apply writing_pcs; auto.
    + apply written_pcs; auto.
    + rewrite Hd. auto.
    + rewrite Hp, E7. lia.
    + rewrite Hp. exact Er.
    + intros i l Hi Hn0. rewrite Hp, E8 in Hn0.
      pose proof (i_rel _ (proj1 I1)). rewrite nth_error_app1 in Hn0 by lia. exact Hn0.
    + rewrite L2, L3. auto.
    + rewrite Hu. eauto.
    + intros q' k' l0 lo hi u' a Hl Hp'. rewrite Hlg in Hp'. apply E.nth_lt in Hp'. lia.
  - (* putstart *)
    destruct Hpc as [P1 P2]. destruct Hgh as [G1 G2]. destruct Hal as (L1 & L2 & L3).
    exists K, kin. eapply (kinv_quiet g K kin c c' [] [] []); eauto; rewrite ?app_nil_r; auto.
    + apply writing_pcs; auto.
    + apply written_pcs; auto.
    + rewrite Hd. auto.
    + rewrite Hp. lia.
    + rewrite Hp. reflexivity.
    + rewrite Hp. auto.
    + rewrite L2, L3. auto.
    + intros k' u' Hk' Hu'. rewrite Hu, nth_error_app1 in Hu' by exact Hk'. eauto.
    + intros q' k' l0 lo hi u' a Hl Hp'. rewrite Hlg in Hp'. apply E.nth_lt in Hp'. lia.
  - (* data *)
    destruct Hgh as [G1 G2]. destruct Hal as (L1 & L2 & L3).
    exists K, kin. eapply (kinv_quiet g K kin c c' [_] [] []); eauto; rewrite ?app_nil_r; auto.
    + rewrite Hsys. reflexivity.
    + rewrite Hsys. reflexivity.
    + constructor; [exact Logic.I|constructor].
    + rewrite Hd. auto.
    + rewrite Hsys. lia.
    + rewrite Hsys. reflexivity.
    + rewrite Hsys. auto.
    + rewrite L2, L3. auto.
    + intros k' u' Hk' Hu'. rewrite Hu in Hu'. apply A.upd_nth_inv in Hu'. destruct Hu' as [x [Hx [->|[-> ->]]]]; eauto.
    + intros p' k' l0 lo hi u' a Hl0 Hp' Hu' Hlt Ha. rewrite Hlg in Hp' |- *.
      apply E.nth_snoc in Hp'. destruct Hp' as [[Hp1 _]|[-> Hp']]; [lia|].
      injection Hp' as -> -> -> ->. rewrite firstn_app, firstn_all, Nat.sub_diag. cbn. rewrite app_nil_r.
      rewrite Hu in Hu'. apply A.upd_nth_inv in Hu'. destruct Hu' as [x [Hx Hy]]. rewrite Hk in Hx. inv Hx.
      assert (Ea : up_abs u' = up_abs x) by (destruct Hy as [->|[_ ->]]; reflexivity).
      rewrite Ea in Hlt. eapply D; eauto.
  - (* writer done *)
    destruct Hgh as [G1 G2].
    exists K, kin. eapply (kinv_quiet g K kin c c' [] [] []); eauto; rewrite ?app_nil_r; auto.
    + rewrite Hsys. reflexivity.
    + rewrite Hsys. reflexivity.
    + rewrite Hd. auto.
    + rewrite Hsys. lia.
    + rewrite Hsys. reflexivity.
    + rewrite Hsys. auto.
    + intros l0 Hin. destruct Hfh as [[F1 F2]|(l & Hh & _ & F1 & F2)].
      * rewrite F1, F2 in Hin. exact Hin.
      * rewrite F1, F2 in Hin. rewrite !in_app_iff in Hin. rewrite in_app_iff. cbn in Hin.
        destruct Hin as [[Hi|[<-|[]]]|Hi]; auto.
        -- right. apply existsb_loc_in. exact Hh.
        -- right. eapply in_remove_loc; eauto.
    + intros k' u' Hk' Hu'. rewrite Hu in Hu'. apply A.upd_nth_inv in Hu'. destruct Hu' as [x [Hx [->|[-> ->]]]]; eauto.
    + intros q' k' l0 lo hi u' a Hl Hp'. rewrite Hlg in Hp'. apply E.nth_lt in Hp'. lia.
  - (* finalize *)
    destruct Hpc as [P1 P2]. destruct Hal as (L1 & L2 & L3).
    destruct (put_finalize_rel _ _ _ _ _ _ _ Hpf) as (Q1 & Q2 & Q3).
    exists K, kin. eapply (kinv_quiet g K kin c c' extra sd' el'); eauto.
    + apply writing_pcs; auto.
    + apply written_pcs; auto.
    + eapply Forall_impl; [|exact Hex]. intros [] Hx; cbn in *; tauto.
    + rewrite Hd. auto.
    + rewrite Hp, Q3. lia.
    + rewrite Hp. exact Q2.
    + rewrite Hp, Q1. auto.
    + rewrite L2, L3. auto.
    + intros k' u' Hk' Hu'. rewrite Hu in Hu'. apply A.upd_nth_inv in Hu'. destruct Hu' as [x [Hx [->|[-> ->]]]]; eauto.
    + intros q' k' l0 lo hi u' a Hl Hp'. exfalso. rewrite Hlg in Hp'.
      eapply hnew_nodata; [apply isindex_nodata; exact Hex|exact Hl|exact Hp'].
  - (* thread *)
    destruct Hgh as [G1 G2].
    destruct (A.estep_effect _ _ _ _ _ Hs) as (_ & (_ & _ & _ & _ & S5 & _) & _).
    assert (HnoWS : Forall noWS extra) by (eapply Forall_impl; [|exact Hex]; intros [] Hx; cbn in *; tauto).
    assert (Hnew : forall p' k' l lo hi u' a0, length (cs_log c) <= p' ->
              nth_error (cs_log c') p' = Some (IoData k' l lo hi) ->
              nth_error (cs_ups c') k' = Some u' -> a0 < up_abs u' -> nth_error (cs_locs c) a0 = Some l ->
              a0 < kd K (firstn p' (cs_log c'))).
    { intros p' k' l lo hi u' a0 Hl Hp'. exfalso. rewrite Hlg in Hp'.
      eapply hnew_nodata; [apply issync_nodata; exact Hex|exact Hl|exact Hp']. }
    assert (Hupsame : forall k' u', k' < length (cs_ups c) -> nth_error (cs_ups c') k' = Some u' ->
              exists u, nth_error (cs_ups c) k' = Some u /\ up_abs u' = up_abs u)
      by (intros k' u' _ Hu'; rewrite Hu in Hu'; eauto).
    destruct (scan_noWS (cs_log c) extra HnoWS) as [Elw Ewc].
    assert (Hrel0 : toRelease (s_pbl s') = toRelease (s_pbl (cs_sys c)) ->
              cs_free c' = cs_free c /\ cs_held c' = cs_held c).
    { intros E0. rewrite E0 in Htr. apply app_self_nil in Htr. subst rel. cbn in Hrr. inv Hrr. auto. }
    destruct (thread_cases _ _ _ _ _ I3 Hs) as
      [(Q1 & Q2 & Q3 & Q4 & Q5)|[(G0 & Gw & Gwr & p1 & st & Gg & Gp & Gw' & Gwr')
      |[(O1 & O2 & O3 & (st & O4) & O5 & O6 & O7)|[(F1 & F2 & F3 & F4)|(N1 & N2 & N3 & N4 & N5 & N6)]]]].
    + (* quiet *)
      destruct (Hrel0 Q3) as [Ef Eh].
      exists K, kin. eapply (kinv_quiet g K kin c c' extra [] []); eauto; rewrite ?app_nil_r; auto.
      * rewrite Hsys. exact Q1.
      * rewrite Hsys. exact Q2.
      * rewrite Hd, Q5. auto.
      * rewrite Hsys, S5. lia.
      * rewrite Hsys. exact Q4.
      * rewrite Hsys, Q3. auto.
      * rewrite Ef, Eh. auto.
    + (* GetPersistentState *)
      destruct (gps_fields _ _ _ Gg) as (T1 & T2 & T3). rewrite <- Gp in T1, T2, T3.
      destruct (Hrel0 T1) as [Ef Eh].
      exists K, (totalReleased (s_pbl (cs_sys c))).
      eapply (kinv_frame g K kin _ c c' extra [] []); eauto; rewrite ?app_nil_r; auto.
      * rewrite Hsys, S5. lia.
      * rewrite Ef, Eh. auto.
      * intros st0 Hst0. rewrite Hsys, Gw' in Hst0. injection Hst0 as <-. rewrite G1, G2, Hlc, Hsys, T3. splits; auto.
        -- eapply gps_st_at; eauto. apply (A.ci_g _ _ I). apply (A.ci_locs _ _ I).
        -- intros q st' Hq. rewrite Hlg in Hq. apply nth_app_noW in Hq; eauto.
        -- rewrite Hd, G0. lia.
      * intros _ i l a0 Hi Hn0 Ha. rewrite Hsys in Hi, Hn0. rewrite T2 in Hi. rewrite T1 in Hn0. rewrite Hlc in Ha.
        destruct (Nat.lt_ge_cases a0 (totalReleased (s_pbl (cs_sys c)))) as [Hlt0|Hge]; [exact Hlt0|exfalso].
        unfold regions in Hn. eapply (nodup_app_disj _ _ l Hn).
        -- eapply Hwin; eauto.
        -- apply in_app_iff. left. eapply nth_error_In; eauto.
      * intros Hw. rewrite Hsys, Gwr' in Hw. discriminate.
    + (* the write returned nil *)
      rewrite <- O7 in Hrel0. destruct (Hrel0 eq_refl) as [Ef Eh].
      assert (Hpc6 : cs_dirpc c = 6).
      { rewrite O1, O2 in Hg. cbn in Hg. apply negb_false_iff in Hg. apply Nat.eqb_eq in Hg. exact Hg. }
      exists K, kin. eapply (kinv_frame g K kin kin c c' extra [] []); eauto; rewrite ?app_nil_r; auto.
      * rewrite Hsys, O7. lia.
      * rewrite Ef, Eh. auto.
      * intros st0 Hst0. rewrite Hsys, O5 in Hst0. discriminate.
      * intros _ i l a0 Hi Hn0 Ha. rewrite Hsys, O7 in Hi, Hn0. rewrite Hlc in Ha.
        eapply R0; eauto. left. rewrite O4. discriminate.
      * intros _. destruct (I0 st O4) as (_ & _ & _ & J4). destruct (J4 ltac:(lia)) as [J5 J6].
        destruct (Sh2 st O4) as [E0|E0]; [lia|]. rewrite Hpc6 in E0. symmetry in E0. apply dpc6 in E0.
        exists (dwc (cs_log c)). rewrite Hlg, Elw. auto.
    + (* the write failed *)
      rewrite <- F4 in Hrel0. destruct (Hrel0 eq_refl) as [Ef Eh].
      exists K, kin. eapply (kinv_frame g K kin kin c c' extra [] []); eauto; rewrite ?app_nil_r; auto.
      * rewrite Hsys, F4. lia.
      * rewrite Ef, Eh. auto.
      * intros st0 Hst0. rewrite Hsys, F2 in Hst0. discriminate.
      * intros [Hh|Hh]; rewrite Hsys in Hh; [rewrite F2 in Hh; congruence|rewrite F3 in Hh; discriminate].
      * intros Hw. rewrite Hsys, F3 in Hw. discriminate.
    + (* NotifyPersistentStateWritten *)
      destruct (nsw_fields _ _ N4) as (T1 & T2 & T3).
      destruct (release_regions_spec _ _ _ _ _ _ _ Hrr) as (_ & _ & Mem).
      assert (Erel : rel = firstn (releasing (s_pbl (cs_sys c))) (toRelease (s_pbl (cs_sys c)))).
      { rewrite T1 in Htr. rewrite <- (firstn_skipn (releasing (s_pbl (cs_sys c))) (toRelease (s_pbl (cs_sys c)))) in Htr at 1.
        apply app_inv_tail in Htr. symmetry. exact Htr. }
      destruct (W0 N1) as (w & Ww1 & Ww2).
      exists K, kin. eapply (kinv_frame g K kin kin c c' extra [] []); eauto; rewrite ?app_nil_r; auto.
      * rewrite Hsys, T3. lia.
      * intros l Hin. rewrite Hfr, Hhd in Hin. destruct (Mem l Hin) as [Hm|Hm]; [auto|right].
        intros a0 Ha. rewrite Erel in Hm. apply In_nth_error in Hm. destruct Hm as [i Hi].
        apply E.nth_firstn in Hi. destruct Hi as [Hi1 Hi2].
        unfold kd. rewrite Ww1, Ww2. eapply R0; eauto. right. exact N1.
      * intros st0 Hst0. rewrite Hsys, N5 in Hst0. discriminate.
      * intros [Hh|Hh]; rewrite Hsys in Hh; [rewrite N5 in Hh; congruence|rewrite N6 in Hh; discriminate].
      * intros Hw. rewrite Hsys, N6 in Hw. discriminate.
  - (* dir *)
    destruct Hgh as [G1 G2]. destruct Hal as (L1 & L2 & L3).
    destruct (I0 st Hw) as (J1 & J2 & J3 & J4).
    pose proof (dscan_facts (cs_log c)) as (F1 & F2 & F3).
    destruct (Nat.eq_dec (cs_dirpc c) 2) as [E2|N2]; [|destruct (Nat.eq_dec (cs_dirpc c) 5) as [E5|N5]].
    + (* the write *)
      rewrite E2 in Hlg, Hd. cbn [dir_op] in Hlg.
      set (K' := fun q => if Nat.eqb q (length (cs_log c)) then kin else K q).
      assert (HK : forall q, q < (length (cs_log c)) -> K' q = K q).
      { intros q Hq. unfold K'. destruct (Nat.eqb_spec q (length (cs_log c))); [lia|reflexivity]. }
      assert (HKn : K' (length (cs_log c)) = kin) by (unfold K'; rewrite Nat.eqb_refl; reflexivity).
      clearbody K'.
      assert (Hsc : dlw (cs_log c') = dlw (cs_log c) /\ dwc (cs_log c') = (length (cs_log c))).
      { unfold dlw, dwc. rewrite Hlg, dscan_snoc. destruct (dscan (cs_log c)) as [[[pos pc] wc] lw]. cbn in *. subst pos. auto. }
      destruct Hsc as [Elw Ewc].
      assert (HWpos : forall q st', nth_error (cs_log c') q = Some (IoWriteNew st') ->
                (q < (length (cs_log c)) /\ nth_error (cs_log c) q = Some (IoWriteNew st')) \/ (q = (length (cs_log c)) /\ st' = (st, g_hinit g))).
      { intros q st' Hq. rewrite Hlg in Hq. apply E.nth_snoc in Hq. destruct Hq as [[Q1 Q2]|[Q1 Q2]]; [auto|].
        right. injection Q2 as Q2. auto. }
      assert (Hkd : kd K' (cs_log c') = kd K (cs_log c)).
      { unfold kd. rewrite Elw. destruct (dlw (cs_log c)) as [w|] eqn:Ew0; [|reflexivity]. apply HK. apply dlw_lt in Ew0. exact Ew0. }
      exists K', kin. constructor.
      * intros p1 p2 st1 st2 Hle H1 H2. destruct (HWpos _ _ H1) as [[A1 A2]|[A1 A2]], (HWpos _ _ H2) as [[B1 B2]|[B1 B2]].
        -- rewrite !HK by lia. eauto.
        -- subst p2. rewrite HKn, HK by lia. eauto.
        -- lia.
        -- rewrite A1, B1. lia.
      * intros q st' Hq. rewrite Hsys. destruct (HWpos _ _ Hq) as [[A1 A2]|[A1 A2]].
        -- rewrite HK by lia. eauto.
        -- subst q. rewrite HKn. exact J2.
      * intros q st' h Hq. rewrite G1, G2, L1. destruct (HWpos _ _ Hq) as [[A1 A2]|[A1 A2]].
        -- rewrite HK by lia. eauto.
        -- subst q. injection A2 as -> _. rewrite HKn. exact J1.
      * intros st0 Hst0. rewrite Hsys, Hw in Hst0. injection Hst0 as <-. rewrite G1, G2, L1, Hsys. splits; auto.
        -- intros q st' Hq. destruct (HWpos _ _ Hq) as [[A1 A2]|[A1 A2]].
           ++ rewrite HK by lia. eauto.
           ++ subst q. rewrite HKn. lia.
        -- intros _. rewrite Ewc. split; [|exact HKn]. rewrite Hlg. apply E.nth_snoc_new.
      * intros Hh i l a. rewrite Hsys, L1. rewrite Hsys in Hh. eauto.
      * intros Hwr. rewrite Hsys in Hwr. destruct (W0 Hwr) as (w & W1 & W2). exists w. rewrite Elw. split; [exact W1|].
        rewrite HK; [exact W2|]. apply dlw_lt in W1. exact W1.
      * intros l a. rewrite Hkd, L1, L2, L3. eauto.
      * intros a a' l. rewrite Hkd, L1. eauto.
      * intros p' k' l lo hi u' a Hp' Hu' Hlt0 Ha. rewrite Hlg in Hp' |- *. rewrite Hu in Hu'. rewrite L1 in Ha.
        apply E.nth_snoc in Hp'. destruct Hp' as [[Hp1 Hp2]|[_ Hp2]]; [|discriminate].
        rewrite E.firstn_app_le by lia.
        rewrite (kd_agree K K' (length (cs_log c))); [eauto|exact HK|]. rewrite firstn_length. lia.
    + (* the directory fsync *)
      rewrite E5 in Hlg, Hd. cbn [dir_op] in Hlg.
      destruct (J4 ltac:(lia)) as [J5 J6].
      destruct (Sh2 st Hw) as [E0|E0]; [lia|]. rewrite E5 in E0.
      assert (Hsc : dlw (cs_log c') = Some (dwc (cs_log c)) /\ dwc (cs_log c') = dwc (cs_log c)).
      { unfold dlw, dwc. rewrite Hlg, dscan_snoc. destruct (dscan (cs_log c)) as [[[pos pc] wc] lw]. cbn. auto. }
      destruct Hsc as [Elw Ewc].
      assert (HW : forall q st', nth_error (cs_log c') q = Some (IoWriteNew st') ->
                nth_error (cs_log c) q = Some (IoWriteNew st')).
      { intros q st' Hq. rewrite Hlg in Hq. apply E.nth_snoc in Hq. destruct Hq as [[Q1 Q2]|[Q1 Q2]]; [auto|discriminate]. }
      assert (Hkd' : kd K (cs_log c') = kin) by (unfold kd; rewrite Elw; exact J6).
      assert (Hkd : kd K (cs_log c) <= kin).
      { unfold kd. destruct (dlw (cs_log c)) as [w|] eqn:Ew0; [|lia].
        destruct (proj2 (shaped_scan _ Sh1) _ Ew0) as [stw Hstw]. eauto. }
      exists K, kin. constructor.
      * intros p1 p2 st1 st2 Hle H1 H2. eauto.
      * intros q st' Hq. rewrite Hsys. eauto.
      * intros q st' h Hq. rewrite G1, G2, L1. eauto.
      * intros st0 Hst0. rewrite Hsys, Hw in Hst0. injection Hst0 as <-. rewrite G1, G2, L1, Hsys. splits; auto.
        -- intros q st' Hq. eauto.
        -- intros _. rewrite Ewc. split; [|exact J6]. rewrite Hlg. apply E.nth_snoc_old. exact J5.
      * intros Hh i l a. rewrite Hsys, L1. rewrite Hsys in Hh. eauto.
      * intros _. exists (dwc (cs_log c)). auto.
      * intros l a Hin Ha. rewrite Hkd'. rewrite L1 in Ha. rewrite L2, L3 in Hin. specialize (F _ _ Hin Ha). lia.
      * intros a a' l Hlt0 H1 H2. rewrite Hkd'. rewrite L1 in H1, H2. specialize (D _ _ _ Hlt0 H1 H2). lia.
      * intros p' k' l lo hi u' a Hp' Hu' Hlt0 Ha. rewrite Hlg in Hp' |- *. rewrite Hu in Hu'. rewrite L1 in Ha.
        apply E.nth_snoc in Hp'. destruct Hp' as [[Hp1 Hp2]|[_ Hp2]]; [|discriminate].
        rewrite E.firstn_app_le by lia. eauto.
    + (* remove, create, fsync, rename *)
      exists K, kin. eapply (kinv_quiet g K kin c c' [_] [] []); eauto; rewrite ?app_nil_r; auto.
      * rewrite Hsys. reflexivity.
      * rewrite Hsys. reflexivity.
      * constructor; [|constructor]. unfold dir_ops_total in Hlt.
        destruct (cs_dirpc c) as [|[|[|[|[|[|?]]]]]]; cbn; auto; lia.
      * rewrite Hd. lia.
      * rewrite Hsys. lia.
      * rewrite Hsys. reflexivity.
      * rewrite Hsys. auto.
      * rewrite L2, L3. auto.
      * rewrite Hu. eauto.
      * intros p' k' l lo hi u' a Hl Hp'. exfalso. rewrite Hlg in Hp'.
        eapply hnew_nodata; [|exact Hl|exact Hp']. constructor; [|constructor].
        destruct (cs_dirpc c) as [|[|[|[|[|?]]]]]; exact Logic.I.
Qed.

Lemma cinit_kinv g t0 : kinv g (fun _ => 0) 0 (cinit g medium_empty t0).
Proof.
  constructor; cbn.
  - intros p1 p2 st1 st2 _ H. destruct p1; discriminate.
  - intros q st H. destruct q; discriminate.
  - intros q st h H. destruct q; discriminate.
  - intros st H. cbn in H. discriminate.
  - intros [H|H]; cbn in H; [congruence|discriminate].
  - intros H. cbn in H. discriminate.
  - intros l a _ H. destruct a; discriminate.
  - intros a a' l _ H. destruct a; discriminate.
  - intros p' k' l lo hi u' a H. destruct p'; discriminate.
Qed.

(** (4): in every reachable state of the first life there are window starts [K] for the state
    writes of the log that are non-decreasing, describe the payloads, and exceed every earlier
    block index on the same region at each data write *)
Theorem creach_kinv g cfg t0 c : length (g_locs g) < 65536 -> NoDup (g_locs g) ->
  creach g cfg medium_empty t0 c -> exists K kin, kinv g K kin c.
Proof.
  intros Hg Hnd. apply (creach_ind g cfg t0 (fun c => exists K kin, kinv g K kin c)).
  - exists (fun _ => 0), 0. apply cinit_kinv.
  - intros c0 e c' R [K [kin KI]] Hs. destruct (creach_sysinv _ _ _ _ R) as [I1 I3].
    eapply kinv_step; eauto.
    + eapply A.creach_cinv; eauto.
    + eapply creach_rinv; eauto.
    + eapply creach_wf_ups; eauto.
    + eapply creach_shaped; eauto.
Qed.

Theorem region_reused_only_after_durable_state g cfg t0 c : length (g_locs g) < 65536 -> NoDup (g_locs g) ->
  creach g cfg medium_empty t0 c -> exists K, reuse_witness c K.
Proof.
  intros Hg Hnd R. destruct (creach_kinv _ _ _ _ Hg Hnd R) as (K & kin & [M B S I0 R0 W0 F D T]).
  exists K. constructor; auto. apply (creach_shaped _ _ _ _ R).
Qed.

(** ------------------------------------------------------------------ *)
(** * the bytes half of crash safety, first life *)
Theorem crash_safe_bytes : forall g cfg t0 c, length (g_locs g) < 65536 -> NoDup (g_locs g) ->
  creach g cfg medium_empty t0 c ->
  forall n ch slot r i, resolves g (crash_of medium_empty c n ch) slot r i ->
  exists up l, nth_error (cs_ups c) (r_up r) = Some up /\
    block_loc (fst (restart (geom g) (m_state (crash_of medium_empty c n ch)))) i = Some l /\
    nth_error (cs_locs c) (up_abs up) = Some l /\
    forall z, (r_off r <= z < r_off r + r_size r)%Z ->
      byte_owner (m_data (crash_of medium_empty c n ch)) l z None = Some (r_up r).
Proof.
  intros g cfg t0 c Hg Hnd R. apply (crash_safe_bytes_from_witness g cfg t0 c Hg Hnd R).
  eapply region_reused_only_after_durable_state; eauto.
Qed.


Print Assumptions owner_of_last_write.
Print Assumptions upload_writes_tile.
Print Assumptions same_block_disjoint.
Print Assumptions regions_distinct.
Print Assumptions reuse_writes_ordered.
Print Assumptions dir_survivor.
Print Assumptions creach_shaped.
Print Assumptions crash_state_survivor.
Print Assumptions crash_safe_bytes_partial.
Print Assumptions witness_no_later_reuse.
Print Assumptions crash_safe_bytes_from_witness.
Print Assumptions crash_safe_bytes_partial4.
Print Assumptions creach_kinv.
Print Assumptions region_reused_only_after_durable_state.
Print Assumptions crash_safe_bytes.
