(** Model of pkg/blobstore/local/directory_backed_persistent_state_store.go over
    a directory with a volatile and a durable name space (the fault model of
    C02 for the state directory: a name-space operation is durable once the
    directory was fsynced after it; a file's content is durable once the file
    was fsynced; a power cut keeps exactly what is durable, an un-synced file
    then holds garbage).  Definitions only.

    WritePersistentState performs, in this order:
      1 Remove(state.new)         (a missing file is not an error)
      2 OpenAppend(state.new, O_EXCL)
      3 Write(data)               (one call)
      4 Sync()  of the file
      5 Close() of the file
      6 Rename(state.new -> state)
      7 Sync()  of the directory
    and returns the first error (after closing the file when 3 or 4 failed). *)
From Coq Require Import List ZArith Bool Arith.
Import ListNotations.

Inductive content := Empty | Full (d : Z) | Garbage.
Record file := { f_c : content; f_synced : bool }.
Record dir := { v_state : option file; v_new : option file; d_state : option file; d_new : option file }.

Definition dir_empty : dir := {| v_state := None; v_new := None; d_state := None; d_new := None |}.

Definition set_new (s : dir) (f : option file) : dir :=
  {| v_state := v_state s; v_new := f; d_state := d_state s; d_new := d_new s |}.

Definition op_remove (s : dir) : option dir := Some (set_new s None).
Definition op_create (s : dir) : option dir :=
  match v_new s with
  | Some _ => None
  | None => Some (set_new s (Some {| f_c := Empty; f_synced := false |}))
  end.
Definition op_write (d : Z) (s : dir) : option dir :=
  match v_new s with
  | None => None
  | Some _ => Some (set_new s (Some {| f_c := Full d; f_synced := false |}))
  end.
Definition op_fsync (s : dir) : option dir :=
  match v_new s with
  | None => None
  | Some f => Some (set_new s (Some {| f_c := f_c f; f_synced := true |}))
  end.
Definition op_close (s : dir) : option dir := Some s.
Definition op_rename (s : dir) : option dir :=
  match v_new s with
  | None => None
  | Some f => Some {| v_state := Some f; v_new := None; d_state := d_state s; d_new := d_new s |}
  end.
Definition op_dsync (s : dir) : option dir :=
  Some {| v_state := v_state s; v_new := v_new s; d_state := v_state s; d_new := v_new s |}.

(** one numbered directory operation of a call: [fault] = the number of the
    operation that fails by injection (0 = none); [killed] = the process dies
    at that operation instead (no clean-up runs, nothing is returned) *)
Definition call_step (k : nat) (fault : nat) (killed : bool) (f : dir -> option dir) (cleanup : list Z)
    (cont : dir -> list Z -> dir * bool * list Z) (s : dir) (log : list Z) : dir * bool * list Z :=
  let log' := log ++ [Z.of_nat k] in
  if Nat.eqb fault k then (s, false, if killed then log' else log' ++ cleanup)
  else match f s with
       | None => (s, false, log' ++ cleanup)
       | Some s' => cont s' log'
       end.

(** (state after, returned OK?, directory operations attempted) *)
Definition write_call (s : dir) (d : Z) (fault : nat) (killed : bool) : dir * bool * list Z :=
  call_step 1 fault killed op_remove []
   (call_step 2 fault killed op_create []
     (call_step 3 fault killed (op_write d) [5%Z]
       (call_step 4 fault killed op_fsync [5%Z]
         (call_step 5 fault killed op_close []
           (call_step 6 fault killed op_rename []
             (call_step 7 fault killed op_dsync []
               (fun s log => (s, true, log)))))))) s [].

(** power cut: only what is durable remains; un-synced content is garbage *)
Definition settle (f : file) : file := if f_synced f then f else {| f_c := Garbage; f_synced := true |}.
Definition power (s : dir) : dir :=
  let ds := option_map settle (d_state s) in
  let dn := option_map settle (d_new s) in
  {| v_state := ds; v_new := dn; d_state := ds; d_new := dn |}.

(** ReadPersistentState: the state id, [None] = a fresh state (no file, or a
    file that does not parse) *)
Definition rd (f : option file) : option Z :=
  match f with
  | Some {| f_c := Full d |} => Some d
  | _ => None
  end.
Definition read_state (s : dir) : option Z := rd (v_state s).

Inductive event :=
| EWrite (d : Z) (fault : nat)     (* a call with an injected failure at operation [fault] (0 = none) *)
| EKill (d : Z) (k : nat)          (* the process is killed at operation [k] of a call; a new process starts *)
| EPower                           (* power cut and restart *)
| ERead.

Inductive eobs :=
| OWrite (ok : bool) (log : list Z)
| OKill (log : list Z)
| OPower
| ORead (r : option Z).

Definition dstep (s : dir) (e : event) : dir * eobs :=
  match e with
  | EWrite d fault => let '(s', ok, log) := write_call s d fault false in (s', OWrite ok log)
  | EKill d k => let '(s', _, log) := write_call s d k true in (s', OKill log)
  | EPower => (power s, OPower)
  | ERead => (s, ORead (read_state s))
  end.

Fixpoint drun (s : dir) (es : list event) : list eobs :=
  match es with
  | [] => []
  | e :: t => let '(s', o) := dstep s e in o :: drun s' t
  end.

Fixpoint dfinal (s : dir) (es : list event) : dir :=
  match es with
  | [] => s
  | e :: t => dfinal (fst (dstep s e)) t
  end.

(** ---- the property as a check on observations ----
    [committed]: the state of the last call that returned OK ([None] = none
    yet: a fresh state); [cands]: the states of calls that failed or were
    killed since then (each may or may not have replaced the state file).
    clause 1: a call without injected failure returns OK;
    clause 2: a read returns the committed state or one of the candidates. *)
Record mstate := { m_committed : option Z; m_cands : list Z; m_viol : list Z }.
Definition m_init : mstate := {| m_committed := None; m_cands := []; m_viol := [] |}.

Definition oz_eqb (a b : option Z) : bool :=
  match a, b with
  | None, None => true
  | Some x, Some y => Z.eqb x y
  | _, _ => false
  end.

Definition allowed_read (m : mstate) (r : option Z) : bool :=
  oz_eqb r (m_committed m) || existsb (fun c => oz_eqb r (Some c)) (m_cands m).

Definition mstep (m : mstate) (e : event) (o : eobs) : mstate :=
  match e, o with
  | EWrite d fault, OWrite ok _ =>
      let v := if Nat.eqb fault 0 && negb ok then [1%Z] else [] in
      if ok then {| m_committed := Some d; m_cands := []; m_viol := m_viol m ++ v |}
      else {| m_committed := m_committed m; m_cands := d :: m_cands m; m_viol := m_viol m ++ v |}
  | EKill d _, _ => {| m_committed := m_committed m; m_cands := d :: m_cands m; m_viol := m_viol m |}
  | ERead, ORead r =>
      {| m_committed := m_committed m; m_cands := m_cands m;
         m_viol := m_viol m ++ (if allowed_read m r then [] else [2%Z]) |}
  | _, _ => m
  end.

Fixpoint mrun (m : mstate) (es : list event) (os : list eobs) : mstate :=
  match es, os with
  | e :: es', o :: os' => mrun (mstep m e o) es' os'
  | _, _ => m
  end.

(** PeriodicSyncer.writePersistentStateRetrying: the same state is written again
    until a call returns OK; [faults] = the operation at which each successive
    attempt fails (0 = that attempt suffers no fault), a fault-free attempt
    follows when the list is exhausted.  Returns the directory and the number
    of attempts made. *)
Fixpoint retry_write (s : dir) (d : Z) (faults : list nat) : dir * nat :=
  match faults with
  | [] => (fst (fst (write_call s d 0 false)), 1%nat)
  | f :: fs =>
      let '(s', ok, _) := write_call s d f false in
      if ok then (s', 1%nat) else let '(s'', n) := retry_write s' d fs in (s'', S n)
  end.
