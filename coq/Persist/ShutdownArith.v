(** Two facts about the fixed-width arithmetic of BlockReference. *)
From Coq Require Import NArith ZArith Lia ZifyN ZifyNat.
From BBS Require Import Persist.PBL.
Ltac Zify.zify_post_hook ::= Z.div_mod_to_equations.

(** EpochID - oldestEpochID in uint32 arithmetic recovers the distance
    between two epoch numbers that are less than 2^32 apart. *)
Lemma u32_diff o x y : y <= x -> (N.of_nat (x - y) < 2 ^ 32)%N ->
  u32 (u32 (o + N.of_nat x) + 2 ^ 32 - u32 (u32 (o + N.of_nat y))) = N.of_nat (x - y).
Proof.
  intros H1 H2. unfold u32 in *. change (2 ^ 32)%N with 4294967296%N in *. lia.
Qed.

Lemma u16_small z : (0 <= z < 2 ^ 16)%Z -> u16z z = Z.to_N z.
Proof. intros H. unfold u16z. rewrite Z.mod_small by exact H. reflexivity. Qed.
