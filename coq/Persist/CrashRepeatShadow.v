(** Persist/CrashRepeatShadow.v — the first-life invariants hold along the
    shadow run (Persist/CrashRepeatSim.v) of a life that starts on ANY medium
    whose state file restores duplicate-free seeds and duplicate-free regions
    ([base_ok]); their record-independent consequences are transferred to the
    real run:
      [region_reuse_any_base]   a region is handed out again only after a state
                                file without the block is durable ([reuse_witness]);
      [regions_partition_any_base], [ginv_any_base], [state_writes_ok_any_base].
    Stdlib only; no axioms. *)
From Coq Require Import List NArith ZArith Bool Arith Lia Permutation.
From BBS Require Import Persist.PBL Persist.PBLProofs Persist.Syncer Persist.SyncerProofs
                        Persist.Crash Persist.CrashLts.
From BBS Require Import Persist.CrashReuseProofs Persist.CrashRepeatEpoch Persist.CrashRepeatSim.
Import ListNotations.

Local Notation log := (list (io irec)).

(** ------------------------------------------------------------------ *)
(** * NewPersistentBlockList *)

Lemma restore_shape alloc init : forall n bl seeds lasts,
  restore_blocks alloc init n = (bl, seeds, lasts) ->
  lasts = A.elast_of n (map b_epochs bl) /\ length lasts = length seeds /\
  (forall l, In l (map b_loc bl) -> exists w, alloc l w = true).
Proof.
  induction init as [|bs rest IH]; intros n bl seeds lasts H; cbn in H.
  - inv H. cbn. splits; auto. intros l [].
  - destruct (alloc (bs_loc bs) (bs_off bs)) eqn:Ea.
    + destruct (restore_blocks alloc rest (S n)) as [[bl' seeds'] lasts'] eqn:E. inv H.
      destruct (IH _ _ _ _ E) as (I1 & I2 & I3). cbn. splits.
      * rewrite I1. reflexivity.
      * rewrite !app_length, repeat_length, I2. reflexivity.
      * intros l [<-|Hl]; eauto.
    + inv H. cbn. splits; auto. intros l [].
Qed.

Lemma restart_shape g st : let p := fst (restart (geom g) st) in
  epochLast p = A.elast_of 0 (map b_epochs (blocks p)) /\ length (epochLast p) = length (epochSeeds p) /\
  totalReleased p = 0 /\ toRelease p = [] /\ closedForWriting p = false /\
  (forall l, In l (map b_loc (blocks p)) -> In l (g_locs g)).
Proof.
  assert (G : forall oldest bl, let p := fst (pbl_new (fun l _ => geom g l) oldest bl) in
     epochLast p = A.elast_of 0 (map b_epochs (blocks p)) /\ length (epochLast p) = length (epochSeeds p) /\
     totalReleased p = 0 /\ toRelease p = [] /\ closedForWriting p = false /\
     (forall l, In l (map b_loc (blocks p)) -> In l (g_locs g))).
  { intros oldest bl. unfold pbl_new.
    destruct (restore_blocks _ bl 0) as [[bl' seeds] lasts] eqn:E. cbn.
    destruct (restore_shape _ _ _ _ _ _ E) as (I1 & I2 & I3). splits; auto.
    intros l Hl. destruct (I3 l Hl) as [_ Hg]. unfold geom in Hg. apply existsb_exists in Hg.
    destruct Hg as (x & Hx & Hex). apply loc_eqb_eq in Hex. subst. exact Hx. }
  unfold restart. destruct st as [[[oldest bl] h]|]; apply G.
Qed.

(** ---- the allocator's free list after the restoration ---- *)
Lemma rev_cons_perm {X} (t : list X) z r : rev t = z :: r -> Permutation (z :: rev r) t.
Proof.
  intros H. apply (f_equal (@rev X)) in H. rewrite rev_involutive in H. cbn in H. subst t.
  apply Permutation_cons_append.
Qed.

Lemma swap_remove_perm l x : In x l -> Permutation (x :: swap_remove l x) l.
Proof.
  induction l as [|y t IH]; cbn; [intros []|]. intros Hin.
  destruct (loc_eqb y x) eqn:E.
  - apply loc_eqb_eq in E. subst y. constructor.
    destruct (rev t) as [|z r] eqn:Er.
    + destruct t; [constructor|]. cbn in Er. destruct (rev t); discriminate.
    + apply rev_cons_perm. exact Er.
  - destruct Hin as [->|Hin]; [rewrite loc_eqb_refl in E; discriminate|].
    eapply Permutation_trans; [apply perm_swap|]. constructor. apply IH. exact Hin.
Qed.

Lemma fold_swap_perm locs : forall G, NoDup locs -> (forall x, In x locs -> In x G) ->
  Permutation (locs ++ fold_left swap_remove locs G) G.
Proof.
  induction locs as [|x r IH]; intros G Hnd Hin; cbn; [reflexivity|].
  inv Hnd. pose proof (swap_remove_perm G x (Hin x (or_introl eq_refl))) as P.
  eapply Permutation_trans; [|exact P]. constructor. apply IH; [assumption|].
  intros y Hy. assert (In y (x :: swap_remove G x)) as [->|H].
  { eapply Permutation_in; [apply Permutation_sym; exact P|]. apply Hin. right. exact Hy. }
  - contradiction.
  - exact H.
Qed.

(** ------------------------------------------------------------------ *)
(** * the shadow run *)

(** what the restart needs of the medium *)
Definition base_ok (g : geo) (base : medium irec) : Prop :=
  NoDup (epochSeeds (fst (restart (geom g) (m_state base)))) /\
  NoDup (map b_loc (blocks (fst (restart (geom g) (m_state base))))).

Definition shinit (g : geo) (base : medium irec) (t0 : N) : cst := with_index (cinit g base t0) [] [].

Lemma sim_init g base t0 : sim (cinit g base t0) (shinit g base t0).
Proof. split; [reflexivity|constructor]. Qed.

(** the invariants of the first-life development, together *)
Record SH (g : geo) (cur0 : list Z) (c : cst) : Prop := mkSH {
  sh_a : A.cinv g c;
  sh_e : E.cinv c;
  sh_r : rinv g c;
  sh_k : exists K kin, kinv g K kin c;
  sh_al : A.ainv cur0 c;
  sh_1 : inv1 (cs_sys c);
  sh_3 : inv3 (cs_sys c);
  sh_s : shinv c
}.

Lemma ainv_wf_ups cur0 c : A.ainv cur0 c -> wf_ups c.
Proof.
  intros AI k l lo hi Hin. destruct (A.ai_data _ _ AI _ _ _ _ Hin) as (u & U1 & U2 & _). eauto.
Qed.

Lemma SH_step g cfg cur0 c e c' : length (g_locs g) < 65536 -> NoDup (g_locs g) ->
  SH g cur0 c -> cstep g cfg c e = Some c' -> SH g cur0 c'.
Proof.
  intros Hg Hnd [HA HE HR [K [kin HK]] HAl H1 H3 HS] H.
  pose proof (ainv_wf_ups _ _ HAl) as Wf.
  destruct (cstep_sysinv _ _ _ _ _ H1 H3 H) as [J1 J3].
  constructor.
  - exact (A.cstep_cinv _ _ _ _ _ Hg HA H).
  - exact (E.cstep_inv _ _ _ _ _ HE H).
  - exact (rinv_step _ _ _ _ _ Hnd HR HA Wf H).
  - exact (kinv_step _ _ _ _ _ _ _ Hnd HK HA HR Wf H1 H3 HS H).
  - exact (A.cstep_ainv _ _ _ _ _ _ HAl H).
  - exact J1.
  - exact J3.
  - exact (shinv_step _ _ _ _ _ H3 HS H).
Qed.

Lemma SH_init g base t0 : NoDup (g_locs g) -> base_ok g base ->
  SH g (cs_cur (cinit g base t0)) (shinit g base t0).
Proof.
  intros Hnd [Hs Hl]. set (p := fst (restart (geom g) (m_state base))) in *.
  destruct (restart_shape g (m_state base)) as (R1 & R2 & R3 & R4 & R5 & R6). fold p in R1, R2, R3, R4, R5, R6.
  assert (HP : Permutation (map b_loc (blocks p) ++ fold_left swap_remove (map b_loc (blocks p)) (g_locs g)) (g_locs g))
    by (apply fold_swap_perm; auto).
  assert (Hrc : rcinv (fun _ => True) (map (fun e : nat * irec => r_seed (snd e)) (m_index base)) (epochSeeds p)
                      (cinit g base t0)) by (apply cinit_rcinv; auto).
  destruct Hrc as [[HSI _] _].
  unfold shinit, cinit. fold p.
  constructor.
  - (* A.cinv *)
    constructor; cbn [cs_sys cs_log cs_ups cs_tbl cs_locs cs_cur cs_free cs_held cs_seeds cs_elast with_index s_pbl init_sys
                      s_uploads s_r s_p A.abss map].
    + constructor.
      * rewrite R3. exact R1.
      * exists 0. cbn. repeat split; auto. lia.
      * exact R2.
      * exact Hs.
    + rewrite R3. reflexivity.
    + rewrite R3, map_length. reflexivity.
    + rewrite R4. cbn. apply Permutation_length in HP. rewrite app_length, map_length in HP. lia.
    + constructor.
    + constructor.
    + constructor.
    + discriminate.
    + discriminate.
  - (* E.cinv *)
    split; [exact HSI|]. split.
    + intros k u Hk. destruct k; discriminate.
    + constructor.
      * intros pos slot r H. destruct pos; discriminate.
      * intros slot r [].
      * split; [cbn; lia|]. intros pos slot r H. destruct pos; discriminate.
      * intros pos slot r H. destruct pos; discriminate.
      * intros q st h s H. destruct q; discriminate.
  - (* rinv *)
    constructor; cbn [cs_sys cs_log cs_ups cs_locs cs_free cs_held with_index].
    + unfold regions. cbn [cs_sys cs_free cs_held with_index s_pbl init_sys]. rewrite R4. cbn [app].
      rewrite app_nil_r. exact HP.
    + intros l _. reflexivity.
    + intros k u a2 l H. destruct k; discriminate.
    + intros p1 p2 k1 k2 l lo1 hi1 lo2 hi2 u1 u2 _ H. destruct p1; discriminate.
    + intros k u z H. destruct k; discriminate.
    + intros k u H. destruct k; discriminate.
  - (* kinv *)
    exists (fun _ => 0), 0.
    assert (HndR : NoDup (map b_loc (blocks p) ++ fold_left swap_remove (map b_loc (blocks p)) (g_locs g))).
    { eapply Permutation_NoDup; [apply Permutation_sym; exact HP|exact Hnd]. }
    constructor; cbn [cs_sys cs_log cs_ups cs_locs cs_free cs_held with_index].
    + intros p1 p2 st1 st2 _ H. destruct p1; discriminate.
    + intros q st H. destruct q; discriminate.
    + intros q st h H. destruct q; discriminate.
    + intros st H. cbn in H. discriminate.
    + intros [H|H]; cbn in H; [congruence|discriminate].
    + intros H. cbn in H. discriminate.
    + intros l a Hin Hn. exfalso. rewrite app_nil_r in Hin.
      eapply (nodup_app_disj _ _ l HndR); [eapply nth_error_In; eauto|exact Hin].
    + intros a a' l Hlt N1 N2. exfalso.
      assert (a = a'); [|lia].
      eapply (proj1 (NoDup_nth_error _) Hl); [apply nth_error_Some; congruence|congruence].
    + intros p' k' l lo hi u' a H. destruct p'; discriminate.
  - (* ainv *)
    constructor; cbn [cs_sys cs_log cs_ups cs_locs cs_cur with_index].
    + unfold restored_cursors. rewrite !map_length. reflexivity.
    + intros k u H. destruct k; discriminate.
    + intros k u H. destruct k; discriminate.
    + intros k u H. destruct k; discriminate.
    + intros k1 k2 u1 u2 _ H. destruct k1; discriminate.
    + intros k l lo hi [].
    + intros j x H. exists x. split; [exact H|lia].
    + intros k u x H. destruct k; discriminate.
  - cbn. apply restart_inv1.
  - apply init_inv3.
  - split; [intros q e Hq; destruct q; discriminate|]. cbn. discriminate.
Qed.

(** every real run from [cinit g base t0] is shadowed *)
Lemma shadow_crun g cfg cur0 tr : length (g_locs g) < 65536 -> NoDup (g_locs g) ->
  forall c ch c', sim c ch -> SH g cur0 ch -> crun g cfg c tr = Some c' ->
  exists ch', sim c' ch' /\ SH g cur0 ch'.
Proof.
  intros Hg Hnd. induction tr as [|e tr IH]; intros c ch c' S HSH H; cbn in H.
  - inv H. eauto.
  - destruct (cstep g cfg c e) as [c1|] eqn:Es; [|discriminate].
    assert (Htok : Forall2 A.tok_rel (A.abss c) (s_uploads (cs_sys c))).
    { pose proof (A.ci_tok _ _ (sh_a _ _ _ HSH)) as T. destruct (sim_fields _ _ S) as (F1 & F2 & _).
      unfold A.abss in *. rewrite F1, F2 in T. exact T. }
    destruct (sim_step _ _ _ _ _ _ Htok S Es) as (ch1 & Hs1 & S1).
    eapply IH; [exact S1| |exact H]. eapply SH_step; eauto.
Qed.

Theorem shadow_exists g cfg base t0 c : length (g_locs g) < 65536 -> NoDup (g_locs g) -> base_ok g base ->
  creach g cfg base t0 c -> exists ch, sim c ch /\ SH g (cs_cur (cinit g base t0)) ch.
Proof.
  intros Hg Hnd Hb [tr H]. eapply shadow_crun; eauto; [apply sim_init|apply SH_init; auto].
Qed.

(** ------------------------------------------------------------------ *)
(** * transfer to the real run *)

Lemma sim_kd c ch K n : sim c ch -> kd K (firstn n (cs_log c)) = kd K (firstn n (cs_log ch)).
Proof. intros S. unfold kd, dlw. rewrite (erel_dscan _ _ (sim_firstn _ _ n S)). reflexivity. Qed.

(** a block's region is handed out again only after a state file without it is durable — for a
    life that starts on any medium *)
Theorem region_reuse_any_base g cfg base t0 c : length (g_locs g) < 65536 -> NoDup (g_locs g) ->
  base_ok g base -> creach g cfg base t0 c -> exists K, reuse_witness c K.
Proof.
  intros Hg Hnd Hb R. destruct (shadow_exists _ _ _ _ _ Hg Hnd Hb R) as (ch & S & HSH).
  destruct (sh_k _ _ _ HSH) as (K & kin & [M B St I0 R0 W0 F D T]).
  destruct (sim_fields _ _ S) as (F1 & F2 & F3 & F4 & F5 & F6 & F7 & F8 & F9 & F10).
  assert (NW : forall q st, nth_error (cs_log c) q = Some (IoWriteNew st) -> nth_error (cs_log ch) q = Some (IoWriteNew st)).
  { intros q st. apply (sim_nth_noindex _ _ _ _ S). intros; discriminate. }
  exists K. constructor.
  - eapply erel_shaped; [exact (proj2 S)|]. apply (proj1 (sh_s _ _ _ HSH)).
  - intros p1 p2 st1 st2 Hle H1 H2. eapply M; eauto.
  - intros p st h H. rewrite <- F8, <- F9, <- F3. eapply St; eauto.
  - intros p' k' l lo hi u' a H Hu Hlt Hl. rewrite (sim_kd _ _ K p' S).
    rewrite <- F2 in Hu. rewrite <- F3 in Hl. eapply T; eauto.
    apply (sim_nth_noindex _ _ _ _ S); [intros; discriminate|exact H].
Qed.

(** the regions of the list, of the blocks awaiting release, of the free list and of the regions
    held for open writers partition the device *)
Theorem regions_partition_any_base g cfg base t0 c : length (g_locs g) < 65536 -> NoDup (g_locs g) ->
  base_ok g base -> creach g cfg base t0 c ->
  NoDup (skipn (totalReleased (s_pbl (cs_sys c))) (cs_locs c) ++ toRelease (s_pbl (cs_sys c)) ++ cs_free c ++ cs_held c)
  /\ map b_loc (blocks (s_pbl (cs_sys c))) = skipn (totalReleased (s_pbl (cs_sys c))) (cs_locs c).
Proof.
  intros Hg Hnd Hb R. destruct (shadow_exists _ _ _ _ _ Hg Hnd Hb R) as (ch & S & HSH).
  destruct (sim_fields _ _ S) as (F1 & F2 & F3 & F4 & F5 & F6 & F7 & F8 & F9 & F10).
  pose proof (A.ci_locs _ _ (sh_a _ _ _ HSH)) as HL.
  pose proof (proj1 (rinv_window _ _ Hnd (sh_r _ _ _ HSH) (sh_a _ _ _ HSH))) as HN.
  unfold regions in HN. rewrite HL in HN. rewrite F1, F3 in HL. rewrite F1, F3, F5, F6 in HN. auto.
Qed.

(** the ghost seed tables describe the block list *)
Theorem ginv_any_base g cfg base t0 c : length (g_locs g) < 65536 -> NoDup (g_locs g) ->
  base_ok g base -> creach g cfg base t0 c ->
  A.ginv (s_pbl (cs_sys c)) (cs_seeds c) (cs_elast c).
Proof.
  intros Hg Hnd Hb R. destruct (shadow_exists _ _ _ _ _ Hg Hnd Hb R) as (ch & S & HSH).
  destruct (sim_fields _ _ S) as (F1 & F2 & F3 & F4 & F5 & F6 & F7 & F8 & F9 & F10).
  pose proof (A.ci_g _ _ (sh_a _ _ _ HSH)) as G. rewrite F1, F8, F9 in G. exact G.
Qed.

(** every state write of the log lists a window of the block list *)
Theorem state_writes_ok_any_base g cfg base t0 c : length (g_locs g) < 65536 -> NoDup (g_locs g) ->
  base_ok g base -> creach g cfg base t0 c ->
  forall q st h, nth_error (cs_log c) q = Some (IoWriteNew (st, h)) ->
    A.st_ok (cs_seeds c) (cs_elast c) (cs_locs c) st.
Proof.
  intros Hg Hnd Hb R q st h Hq. destruct (shadow_exists _ _ _ _ _ Hg Hnd Hb R) as (ch & S & HSH).
  destruct (sim_fields _ _ S) as (F1 & F2 & F3 & F4 & F5 & F6 & F7 & F8 & F9 & F10).
  pose proof (A.ci_log _ _ (sh_a _ _ _ HSH)) as L. rewrite Forall_forall in L.
  assert (Hq' : nth_error (cs_log ch) q = Some (IoWriteNew (st, h))).
  { apply (sim_nth_noindex _ _ _ _ S); [intros; discriminate|exact Hq]. }
  specialize (L _ (nth_error_In _ _ Hq')). cbn in L. rewrite F8, F9, F3 in L. exact L.
Qed.

Print Assumptions region_reuse_any_base.
