(** Theorems about the directory-backed persistent state store model
    (Persist/DirStore.v): a call without a fault succeeds from ANY directory
    state, a successful call is durable at once, a failed or killed call
    leaves the old or the new state (never a partial one), and the property
    monitor is silent on every history of calls, faults, kills and power cuts. *)
From Coq Require Import List ZArith Bool Arith Lia.
From BBS Require Import Persist.DirStore.
Import ListNotations.

Definition done_file (d : Z) : file := {| f_c := Full d; f_synced := true |}.
Definition done_dir (d : Z) : dir :=
  {| v_state := Some (done_file d); v_new := None; d_state := Some (done_file d); d_new := None |}.

Lemma write_call_no_fault s d killed :
  write_call s d 0 killed = (done_dir d, true, [1; 2; 3; 4; 5; 6; 7]%Z).
Proof. destruct s as [vs vn ds dn]. reflexivity. Qed.

(** what a call does, by the position of the fault (8 and above: no operation has that number) *)
Lemma write_call_cases s d f killed :
  let '(s', ok, log) := write_call s d f killed in
  (ok = true /\ s' = done_dir d /\ (f = 0 \/ 8 <= f)) \/
  (ok = false /\ 1 <= f <= 6 /\ v_state s' = v_state s /\ d_state s' = d_state s) \/
  (ok = false /\ f = 7 /\ v_state s' = Some (done_file d) /\ d_state s' = d_state s).
Proof.
  destruct s as [vs vn ds dn].
  destruct f as [|[|[|[|[|[|[|[|f]]]]]]]]; cbn.
  - left. repeat split. left. reflexivity.
  - right. left. repeat split; lia.
  - right. left. repeat split; lia.
  - right. left. repeat split; lia.
  - right. left. repeat split; lia.
  - right. left. repeat split; lia.
  - right. left. repeat split; lia.
  - right. right. repeat split.
  - left. repeat split. right. lia.
Qed.

Theorem fault_free_call_succeeds s d : snd (fst (write_call s d 0 false)) = true.
Proof. rewrite write_call_no_fault. reflexivity. Qed.

Theorem successful_call_is_durable s d f s' log :
  write_call s d f false = (s', true, log) ->
  read_state s' = Some d /\ read_state (power s') = Some d /\ v_new s' = None /\ d_new s' = None.
Proof.
  intros H. pose proof (write_call_cases s d f false) as C. rewrite H in C.
  destruct C as [(_ & -> & _)|[(E & _)|(E & _)]]; try discriminate.
  repeat split.
Qed.

Theorem failed_or_killed_call_is_atomic s d f killed s' log :
  write_call s d f killed = (s', false, log) ->
  (read_state s' = read_state s \/ read_state s' = Some d) /\
  (read_state (power s') = read_state (power s)).
Proof.
  intros H. pose proof (write_call_cases s d f killed) as C. rewrite H in C.
  destruct C as [(E & _)|[(_ & _ & V & D)|(_ & _ & V & D)]]; try discriminate.
  - unfold read_state, power. cbn. rewrite V, D. split; [left|]; reflexivity.
  - unfold read_state, power. cbn. rewrite V, D. split; [right|]; reflexivity.
Qed.

(** the order of operations of a complete call, and of a call cut short *)
Theorem call_operation_order s d : snd (write_call s d 0 false) = [1; 2; 3; 4; 5; 6; 7]%Z.
Proof. rewrite write_call_no_fault. reflexivity. Qed.

(** ---- the monitor is silent on the model ---- *)
Definition Inv (s : dir) (m : mstate) : Prop :=
  allowed_read m (rd (v_state s)) = true /\ allowed_read m (rd (option_map settle (d_state s))) = true.

Lemma oz_eqb_refl r : oz_eqb r r = true.
Proof. destruct r as [z|]; cbn; [apply Z.eqb_refl|reflexivity]. Qed.

Lemma allowed_mono m d r :
  allowed_read m r = true ->
  allowed_read {| m_committed := m_committed m; m_cands := d :: m_cands m; m_viol := m_viol m |} r = true.
Proof.
  unfold allowed_read. cbn. intros H. apply orb_true_iff in H. destruct H as [H|H].
  - rewrite H. reflexivity.
  - rewrite H. rewrite !orb_true_r. reflexivity.
Qed.

Lemma allowed_cand m d v :
  allowed_read {| m_committed := m_committed m; m_cands := d :: m_cands m; m_viol := v |} (Some d) = true.
Proof. unfold allowed_read. cbn. rewrite Z.eqb_refl. rewrite orb_true_r. reflexivity. Qed.

Lemma allowed_viol_irrelevant m v r :
  allowed_read {| m_committed := m_committed m; m_cands := m_cands m; m_viol := v |} r = allowed_read m r.
Proof. reflexivity. Qed.

Lemma settle_idem f : settle (settle f) = settle f.
Proof. unfold settle. destruct (f_synced f) eqn:E; cbn; [rewrite E|]; reflexivity. Qed.

Lemma settle_done d : settle (done_file d) = done_file d.
Proof. reflexivity. Qed.

Lemma step_preserves s m e :
  Inv s m ->
  let '(s', o) := dstep s e in
  Inv s' (mstep m e o) /\ m_viol (mstep m e o) = m_viol m.
Proof.
  intros (A & B). destruct e as [d f|d k| |]; cbn [dstep].
  - pose proof (write_call_cases s d f false) as C.
    destruct (write_call s d f false) as [[s' ok] log]. cbn [mstep].
    destruct C as [(-> & -> & F)|[(-> & F & V & D)|(-> & F & V & D)]].
    + split.
      * unfold Inv, allowed_read. cbn. rewrite Z.eqb_refl. split; reflexivity.
      * cbn. rewrite andb_false_r. apply app_nil_r.
    + assert (N : Nat.eqb f 0 = false) by (apply Nat.eqb_neq; lia). rewrite N. cbn [andb negb].
      split; [|cbn; apply app_nil_r]. unfold Inv. rewrite V, D. rewrite app_nil_r.
      split; apply allowed_mono; assumption.
    + assert (N : Nat.eqb f 0 = false) by (apply Nat.eqb_neq; lia). rewrite N. cbn [andb negb].
      split; [|cbn; apply app_nil_r]. unfold Inv. rewrite V, D. rewrite app_nil_r.
      split; [apply allowed_cand|apply allowed_mono; assumption].
  - pose proof (write_call_cases s d k true) as C.
    destruct (write_call s d k true) as [[s' ok] log]. cbn [mstep].
    split; [|reflexivity].
    destruct C as [(_ & -> & F)|[(_ & F & V & D)|(_ & F & V & D)]].
    + unfold Inv. cbn [v_state d_state done_dir option_map rd]. rewrite settle_done. cbn [done_file rd].
      split; apply allowed_cand.
    + unfold Inv. rewrite V, D. split; apply allowed_mono; assumption.
    + unfold Inv. rewrite V, D. split; [apply allowed_cand|apply allowed_mono; assumption].
  - cbn [mstep]. split; [|reflexivity]. unfold Inv, power. cbn [v_state d_state].
    split; [exact B|].
    destruct (d_state s) as [f|]; cbn [option_map]; [|exact B]. rewrite settle_idem. exact B.
  - cbn [mstep]. unfold read_state. rewrite A. split; [|cbn; apply app_nil_r].
    unfold Inv. rewrite !allowed_viol_irrelevant. split; assumption.
Qed.

Lemma run_silent : forall es s m, Inv s m -> m_viol m = [] -> m_viol (mrun m es (drun s es)) = [].
Proof.
  induction es as [|e t IH]; intros s m HI HV; cbn [drun mrun]; [exact HV|].
  pose proof (step_preserves s m e HI) as P.
  destruct (dstep s e) as [s' o]. destruct P as (HI' & HV'). cbn [mrun].
  apply (IH s' _ HI'). rewrite HV'. exact HV.
Qed.

Theorem monitor_silent_on_every_history es : m_viol (mrun m_init es (drun dir_empty es)) = [].
Proof. apply run_silent; [|reflexivity]. split; reflexivity. Qed.

(** the last successful call is what every later read returns as long as no
    further call is attempted - across any number of power cuts and reads *)
Definition quiet (e : event) : bool := match e with EPower | ERead => true | _ => false end.

Lemma quiet_keeps_done d : forall es, forallb quiet es = true ->
  dfinal (done_dir d) es = done_dir d /\
  Forall (fun o => match o with ORead r => r = Some d | _ => True end) (drun (done_dir d) es).
Proof.
  induction es as [|e t IH]; intros Q; cbn [dfinal drun]; [split; [reflexivity|constructor]|].
  cbn [forallb] in Q. apply andb_true_iff in Q. destruct Q as (Qe & Qt).
  destruct e; try discriminate; cbn [dstep fst].
  - change (power (done_dir d)) with (done_dir d). destruct (IH Qt) as (F & R). split; [exact F|]. constructor; [exact I|exact R].
  - destruct (IH Qt) as (F & R). split; [exact F|]. constructor; [reflexivity|exact R].
Qed.

Theorem committed_state_survives s d f log es :
  write_call s d f false = (done_dir d, true, log) -> forallb quiet es = true ->
  Forall (fun o => match o with ORead r => r = Some d | _ => True end) (drun (done_dir d) es).
Proof. intros _ Q. exact (proj2 (quiet_keeps_done d es Q)). Qed.

(** the retry loop of the syncer over the real store's directory protocol:
    whatever finite sequence of transient failures the attempts suffer - each
    at any operation, each leaving whatever it leaves behind - the loop ends
    after at most one attempt more than there were failures, with the state
    committed and durable *)
Theorem retry_commits : forall faults s d,
  fst (retry_write s d faults) = done_dir d /\ (snd (retry_write s d faults) <= S (length faults))%nat.
Proof.
  induction faults as [|f fs IH]; intros s d; cbn [retry_write].
  - rewrite write_call_no_fault. cbn. split; [reflexivity|lia].
  - pose proof (write_call_cases s d f false) as C.
    destruct (write_call s d f false) as [[s' ok] log].
    destruct C as [(-> & -> & _)|[(-> & _)|(-> & _)]].
    + cbn. split; [reflexivity|lia].
    + specialize (IH s' d). destruct (retry_write s' d fs) as [s'' n]. cbn in *. destruct IH as (E & L). split; [exact E|lia].
    + specialize (IH s' d). destruct (retry_write s' d fs) as [s'' n]. cbn in *. destruct IH as (E & L). split; [exact E|lia].
Qed.
