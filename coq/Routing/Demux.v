(** C19 — model of pkg/blobstore/demultiplexing_blob_access.go with the getter
    wired as in pkg/blobstore/configuration/new_blob_access.go
    (case BlobAccessConfiguration_Demultiplexing).  Definitions only.

    Backends are oracles.  [D] is whatever a successful Get yields. *)
From Coq Require Import List ZArith NArith Bool Arith.
From BBS Require Import Routing.Names Routing.Trie Routing.Patcher.
Import ListNotations.
Open Scope Z_scope.

Record backend (D : Type) : Type := {
  b_get : digest -> outcome D;
  b_gfc : digest -> digest -> outcome D;
  b_put : digest -> Z;                                  (* 0 = nil error *)
  b_fm : list digest -> outcome (list digest);
}.
Arguments b_get {D} _ _.
Arguments b_gfc {D} _ _ _.
Arguments b_put {D} _ _.
Arguments b_fm {D} _ _.

(** What the backends saw. *)
Inductive call : Type :=
| CGet (idx : nat) (d : digest)
| CGfc (idx : nat) (p c : digest)
| CPut (idx : nat) (d : digest)
| CFm (idx : nat) (ds : list digest).

(** Configuration entry: (instance name prefix to match, prefix to put in its place). *)
Definition centry := (str * str)%type.

(** backendsTrie.Set(matchInstanceNamePrefix, len(backends)) for every entry. *)
Fixpoint build_from (i : nat) (cfg : list centry) (t : trie) : trie :=
  match cfg with
  | [] => t
  | e :: r => build_from (S i) r (set t (split (fst e)) (Z.of_nat i))
  end.
Definition build_trie (cfg : list centry) : trie := build_from 0 cfg empty_trie.

Definition entry_patcher (e : centry) : patcher := new_patcher (fst e) (snd e).

(** The DemultiplexedBlobAccessGetter: backend index, backend name (= the
    matched prefix), patcher — or InvalidArgument.  [backends[idx]] beyond the
    slice would panic. *)
Definition get_backend (cfg : list centry) (inst : str) : outcome (nat * str * patcher) :=
  let idx := get_longest_prefix (build_trie cfg) (split inst) in
  if idx <? 0 then Err INVALID_ARGUMENT
  else match nth_error cfg (Z.to_nat idx) with
       | Some e => Ok (Z.to_nat idx, fst e, entry_patcher e)
       | None => Panic
       end.

Section Ops.
  Context {D : Type}.
  Variable cfg : list centry.
  Variable backends : list (backend D).

  (** a backend index always comes from [get_backend], hence is in range. *)
  Definition with_backend {R} (idx : nat) (k : backend D -> R) (dflt : R) : R :=
    match nth_error backends idx with Some b => k b | None => dflt end.

  Definition demux_get (d : digest) : outcome D * list call :=
    match get_backend cfg (fst d) with
    | Err e => (Err e, [])
    | Panic => (Panic, [])
    | Ok (idx, _, p) =>
        let d' := patch_digest p d in
        with_backend idx (fun b => (b_get b d', [CGet idx d'])) (Panic, [])
    end.

  (** the backend is chosen by the parent's instance name; the same patcher is
      applied to both digests. *)
  Definition demux_gfc (pd cd : digest) : outcome D * list call :=
    match get_backend cfg (fst pd) with
    | Err e => (Err e, [])
    | Panic => (Panic, [])
    | Ok (idx, _, p) =>
        let pd' := patch_digest p pd in
        let cd' := patch_digest p cd in
        with_backend idx (fun b => (b_gfc b pd' cd', [CGfc idx pd' cd'])) (Panic, [])
    end.

  (** result: (code, buffer discarded by the demultiplexer itself, calls) *)
  Definition demux_put (d : digest) : outcome (Z * bool) * list call :=
    match get_backend cfg (fst d) with
    | Err e => (Ok (e, true), [])
    | Panic => (Panic, [])
    | Ok (idx, _, p) =>
        let d' := patch_digest p d in
        with_backend idx (fun b => (Ok (b_put b d', false), [CPut idx d'])) (Panic, [])
    end.

  (** FindMissing, first loop: partition.  [cache] is perInstanceNamePartitions
      (instance name -> key of its partition), [parts] is perBackendPartitions
      (backend name -> partition) in insertion order. *)
  Record partition : Type := {
    p_key : str; p_idx : nat; p_patcher : patcher; p_digs : list digest }.

  Fixpoint cache_find (cache : list (str * str)) (inst : str) : option str :=
    match cache with
    | [] => None
    | (k, v) :: r => if str_eqb k inst then Some v else cache_find r inst
    end.
  Definition has_part (parts : list partition) (key : str) : bool :=
    existsb (fun p => str_eqb (p_key p) key) parts.
  (** partition.digests.Add(partition.patcher.PatchDigest(blobDigest)) *)
  Fixpoint add_to (parts : list partition) (key : str) (d : digest) : list partition :=
    match parts with
    | [] => []
    | p :: r =>
        if str_eqb (p_key p) key
        then {| p_key := p_key p; p_idx := p_idx p; p_patcher := p_patcher p;
                p_digs := p_digs p ++ [patch_digest (p_patcher p) d] |} :: r
        else p :: add_to r key d
    end.

  Fixpoint fm_partition (ds : list digest) (cache : list (str * str)) (parts : list partition)
    : outcome (list partition) :=
    match ds with
    | [] => Ok parts
    | d :: r =>
        match cache_find cache (fst d) with
        | Some key => fm_partition r cache (add_to parts key d)
        | None =>
            match get_backend cfg (fst d) with
            | Err e => Err e
            | Panic => Panic
            | Ok (idx, key, p) =>
                let parts' := if has_part parts key then parts
                              else parts ++ [{| p_key := key; p_idx := idx; p_patcher := p; p_digs := [] |}] in
                fm_partition r ((fst d, key) :: cache) (add_to parts' key d)
            end
        end
    end.

  (** second loop: one FindMissing per partition (the code ranges over a Go
      map: any order; the model takes insertion order), results unpatched. *)
  Fixpoint fm_calls (parts : list partition) (acc : list digest) (calls : list call)
    : outcome (list digest) * list call :=
    match parts with
    | [] => (Ok (canon acc), calls)
    | p :: r =>
        let q := canon (p_digs p) in
        let calls' := calls ++ [CFm (p_idx p) q] in
        match with_backend (p_idx p) (fun b => b_fm b q) Panic with
        | Ok missing => fm_calls r (acc ++ map (unpatch_digest (p_patcher p)) missing) calls'
        | Err e => (Err e, calls')
        | Panic => (Panic, calls')
        end
    end.

  Definition demux_fm (ds : list digest) : outcome (list digest) * list call :=
    match fm_partition (canon ds) [] [] with
    | Err e => (Err e, [])
    | Panic => (Panic, [])
    | Ok parts => fm_calls parts [] []
    end.
End Ops.

(** ---- specification-level routing (no trie): owner of an instance name ---- *)

(** index of the LAST entry whose prefix equals [p] (a later Set overrides) *)
Fixpoint last_index_of (i : nat) (cfg : list centry) (p : name) (cur : Z) : Z :=
  match cfg with
  | [] => cur
  | e :: r => last_index_of (S i) r p (if name_eqb (split (fst e)) p then Z.of_nat i else cur)
  end.
(** owner = entry registered for the longest component-wise prefix of the name, else -1 *)
Definition owner (cfg : list centry) (inst : str) : Z :=
  lpv_f (fun p => last_index_of 0 cfg p (-1)) (split inst).
