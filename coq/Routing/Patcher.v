(** C19 — model of pkg/digest/instance_name_patcher.go on strings, so that the
    slash handling is modelled.  Definitions only. *)
From Coq Require Import List ZArith NArith Bool Arith.
From BBS Require Import Routing.Names.
Import ListNotations.

Inductive patcher : Type :=
| Noop
| Actual (oldWithSlash oldWithoutSlash newWithSlash newWithoutSlash : str).

Definition with_slash (s : str) : str :=
  match s with [] => [] | _ => s ++ [slash] end.

(** NewInstanceNamePatcher(oldPrefix, newPrefix) *)
Definition new_patcher (old new : str) : patcher :=
  if str_eqb old new then Noop
  else Actual (with_slash old) old (with_slash new) new.

(** patchInstanceName(i, len(oldPrefixWithSlash), newPrefixWithSlash, newPrefixWithoutSlash);
    i[k:] with len(i) > k never panics. *)
Definition patch_str (i : str) (oldWithSlashLen : nat) (newWithSlash newWithoutSlash : str) : str :=
  if Nat.ltb oldWithSlashLen (length i) then newWithSlash ++ skipn oldWithSlashLen i
  else newWithoutSlash.

Definition patch_name (p : patcher) (i : str) : str :=
  match p with
  | Noop => i
  | Actual ows _ nws nwos => patch_str i (length ows) nws nwos
  end.
Definition unpatch_name (p : patcher) (i : str) : str :=
  match p with
  | Noop => i
  | Actual ows owos nws _ => patch_str i (length nws) ows owos
  end.

(** PatchDigest / UnpatchDigest touch only the instance-name part. *)
Definition patch_digest (p : patcher) (d : digest) : digest := (patch_name p (fst d), snd d).
Definition unpatch_digest (p : patcher) (d : digest) : digest := (unpatch_name p (fst d), snd d).
