(** C19 — model of pkg/digest/instance_name_trie.go.  Definitions only.

    A node is its value (-1 = none) and its children; the Go map
    [children map[string]*node] is an association list with first-match lookup
    (keys are unique in every reachable trie, [wf]).  Names are component
    lists: [Set] splits with strings.FieldsFunc, the lookups with repeated
    IndexByte; on well-formed names both give [split] (NamesProofs.split_join). *)
From Coq Require Import List ZArith NArith Bool Arith.
From BBS Require Import Routing.Names.
Import ListNotations.
Open Scope Z_scope.

Inductive trie : Type := Node (v : Z) (ch : list (comp * trie)).

Definition tval (t : trie) : Z := match t with Node v _ => v end.
Definition tch (t : trie) : list (comp * trie) := match t with Node _ ch => ch end.

Definition empty_trie : trie := Node (-1) [].

Fixpoint lookup (ch : list (comp * trie)) (c : comp) : option trie :=
  match ch with
  | [] => None
  | (k, t) :: r => if str_eqb k c then Some t else lookup r c
  end.
(** n.children[c] = t *)
Fixpoint upd (ch : list (comp * trie)) (c : comp) (t : trie) : list (comp * trie) :=
  match ch with
  | [] => [(c, t)]
  | (k, t0) :: r => if str_eqb k c then (k, t) :: r else (k, t0) :: upd r c t
  end.
(** delete(n.children, c) *)
Fixpoint del (ch : list (comp * trie)) (c : comp) : list (comp * trie) :=
  match ch with
  | [] => []
  | (k, t0) :: r => if str_eqb k c then del r c else (k, t0) :: del r c
  end.

(** Set: walk down creating missing nodes, then overwrite the value. *)
Fixpoint set (t : trie) (n : name) (v : Z) : trie :=
  match n with
  | [] => Node v (tch t)
  | c :: n' =>
      let sub := match lookup (tch t) c with Some s => s | None => empty_trie end in
      Node (tval t) (upd (tch t) c (set sub n' v))
  end.

(** GetExact.  The empty name returns the root's value as it is; any other
    name returns the final node's value only if it is >= 0. *)
Fixpoint get_exact_ne (t : trie) (c : comp) (n : name) : Z :=
  match lookup (tch t) c with
  | None => -1
  | Some s =>
      match n with
      | [] => if 0 <=? tval s then tval s else -1
      | c' :: n' => get_exact_ne s c' n'
      end
  end.
Definition get_exact (t : trie) (n : name) : Z :=
  match n with [] => tval t | c :: n' => get_exact_ne t c n' end.
Definition contains_exact (t : trie) (n : name) : bool := 0 <=? get_exact t n.

(** GetLongestPrefix: [last] is [lastValue]. *)
Fixpoint glp_ne (t : trie) (last : Z) (c : comp) (n : name) : Z :=
  match lookup (tch t) c with
  | None => last
  | Some s =>
      match n with
      | [] => if 0 <=? tval s then tval s else last
      | c' :: n' => glp_ne s (if 0 <=? tval s then tval s else last) c' n'
      end
  end.
Definition get_longest_prefix (t : trie) (n : name) : Z :=
  match n with [] => tval t | c :: n' => glp_ne t (tval t) c n' end.

(** ContainsPrefix. *)
Fixpoint contains_prefix_ne (t : trie) (c : comp) (n : name) : bool :=
  match lookup (tch t) c with
  | None => false
  | Some s =>
      match n with
      | [] => 0 <=? tval s
      | c' :: n' => if 0 <=? tval s then true else contains_prefix_ne s c' n'
      end
  end.
Definition contains_prefix (t : trie) (n : name) : bool :=
  if 0 <=? tval t then true
  else match n with [] => false | c :: n' => contains_prefix_ne t c n' end.

(** Remove.  The Go loop walks down remembering in (mapDelete, componentDelete)
    the last edge leaving a node that has a value, more than one child, or is
    the first node visited; at the end it either deletes that edge (final node
    has no children) or resets the final node's value.  The recursion below
    performs the same bookkeeping on the way back: [Ok None] means "the final
    node is childless and no node from here down captured the edge — cut
    further up".  [first] is [mapDelete == nil].  A missing node on the path is
    the nil dereference: [Panic]. *)
Definition captures (t : trie) (first : bool) : bool :=
  (0 <=? tval t) || (1 <? Z.of_nat (length (tch t))) || first.

Fixpoint remove_ne (t : trie) (first : bool) (c : comp) (n : name) : outcome (option trie) :=
  match lookup (tch t) c with
  | None => Panic
  | Some s =>
      match n with
      | [] =>
          match tch s with
          | [] => if captures t first then Ok (Some (Node (tval t) (del (tch t) c))) else Ok None
          | _ :: _ => Ok (Some (Node (tval t) (upd (tch t) c (Node (-1) (tch s)))))
          end
      | c' :: n' =>
          match remove_ne s false c' n' with
          | Panic => Panic
          | Err e => Err e
          | Ok (Some s') => Ok (Some (Node (tval t) (upd (tch t) c s')))
          | Ok None => if captures t first then Ok (Some (Node (tval t) (del (tch t) c))) else Ok None
          end
      end
  end.

Definition is_empty_root (t : trie) : bool :=
  (tval t <? 0) && match tch t with [] => true | _ => false end.

(** Returns the new trie and the "became empty" result. *)
Definition remove (t : trie) (n : name) : outcome (trie * bool) :=
  match n with
  | [] => let t' := Node (-1) (tch t) in
          Ok (t', match tch t with [] => true | _ => false end)
  | c :: n' =>
      match remove_ne t true c n' with
      | Ok (Some t') => Ok (t', is_empty_root t')
      | Ok None => Panic   (* unreachable: the first node always captures *)
      | Err e => Err e
      | Panic => Panic
      end
  end.

(** Abstraction: the association list name -> value the trie stands for. *)
Fixpoint to_map (t : trie) : list (name * Z) :=
  match t with
  | Node v ch =>
      (if 0 <=? v then [([], v)] else []) ++
      (fix go (ch : list (comp * trie)) : list (name * Z) :=
         match ch with
         | [] => []
         | (c, s) :: r => map (fun e => (c :: fst e, snd e)) (to_map s) ++ go r
         end) ch
  end.

(** Specification-level functions on association lists (used by theorems and
    by the monitor; they know nothing about tries). *)
Fixpoint assoc_get (m : list (name * Z)) (n : name) : Z :=
  match m with
  | [] => -1
  | (k, v) :: r => if name_eqb k n then v else assoc_get r n
  end.
Definition assoc_set (m : list (name * Z)) (n : name) (v : Z) : list (name * Z) :=
  (n, v) :: filter (fun e => negb (name_eqb (fst e) n)) m.
Definition assoc_remove (m : list (name * Z)) (n : name) : list (name * Z) :=
  filter (fun e => negb (name_eqb (fst e) n)) m.
(** value of the longest registered component-wise prefix of [n], else -1:
    try the prefixes of [n] from the longest to the shortest ([f] = the map as a function). *)
Definition lpv_f (f : name -> Z) (n : name) : Z :=
  match filter (fun p => 0 <=? f p) (rev (prefixes n)) with
  | [] => -1
  | p :: _ => f p
  end.
Definition hasp_f (f : name -> Z) (n : name) : bool := existsb (fun p => 0 <=? f p) (prefixes n).
Definition longest_prefix_value (m : list (name * Z)) (n : name) : Z := lpv_f (assoc_get m) n.
Definition has_prefix (m : list (name * Z)) (n : name) : bool := hasp_f (assoc_get m) n.

(** Well-formedness of reachable tries: keys unique at every node, values >= -1. *)
Inductive wf : trie -> Prop :=
| wf_node v ch : -1 <= v -> NoDup (map fst ch) ->
                 (forall c s, In (c, s) ch -> wf s) -> wf (Node v ch).
