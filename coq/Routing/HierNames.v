(** C19 — model of pkg/blobstore/hierarchical_instance_names_blob_access.go.
    Definitions only.  The backend is an oracle. *)
From Coq Require Import List ZArith NArith Bool Arith.
From BBS Require Import Routing.Names.
Import ListNotations.
Open Scope Z_scope.

(** Digest.GetDigestsWithParentInstanceNames(): the digest under every prefix
    of its instance name, the empty name first, the digest itself last.
    (The string-level loop that computes this is C20's [parents_spec].) *)
Definition parents_of (d : digest) : list digest :=
  map (fun p => (join p, snd d)) (prefixes (split (fst d))).

Section Get.
  Context {D : Type}.
  Variable get : digest -> outcome D.

  (** Get + hierarchicalInstanceNamesGetErrorHandler: [chain] is [eh.digests]
      reversed (most specific first).  Returns the result and the digests the
      backend was asked for, in order. *)
  Fixpoint hier_get_chain (chain : list digest) (asked : list digest) : outcome D * list digest :=
    match chain with
    | [] => (Panic, asked)                 (* digests[len(digests)-1] on an empty slice *)
    | d :: r =>
        match get d with
        | Ok x => (Ok x, asked ++ [d])
        | Panic => (Panic, asked ++ [d])
        | Err e =>
            if negb (e =? NOT_FOUND) then (Err e, asked ++ [d])
            else match r with
                 | [] => (Err e, asked ++ [d])
                 | _ :: _ => hier_get_chain r (asked ++ [d])
                 end
        end
    end.
  Definition hier_get (d : digest) : outcome D * list digest :=
    hier_get_chain (rev (parents_of d)) [].

  (** Specification: going from the most specific name upwards, the first
      answer that is not NOT_FOUND decides; NOT_FOUND if there is none. *)
  Fixpoint first_answer (chain : list digest) : outcome D :=
    match chain with
    | [] => Err NOT_FOUND
    | a :: r => match get a with
                | Err e => if e =? NOT_FOUND then first_answer r else Err e
                | x => x
                end
    end.
End Get.

Section GetFromComposite.
  Context {D : Type}.
  Variable gfc : digest -> digest -> outcome D.

  (** Both lists are truncated in step; the child list running out before the
      parent list is an index out of range. *)
  Fixpoint hier_gfc_chain (pc cc : list digest) (asked : list (digest * digest))
    : outcome D * list (digest * digest) :=
    match pc, cc with
    | p :: rp, c :: rc =>
        match gfc p c with
        | Ok x => (Ok x, asked ++ [(p, c)])
        | Panic => (Panic, asked ++ [(p, c)])
        | Err e =>
            if negb (e =? NOT_FOUND) then (Err e, asked ++ [(p, c)])
            else match rp with
                 | [] => (Err e, asked ++ [(p, c)])
                 | _ :: _ => hier_gfc_chain rp rc (asked ++ [(p, c)])
                 end
        end
    | _, _ => (Panic, asked)
    end.
  Definition hier_gfc (p c : digest) : outcome D * list (digest * digest) :=
    hier_gfc_chain (rev (parents_of p)) (rev (parents_of c)) [].
End GetFromComposite.

(** FindMissing.  An entry of the work list: the original digest and the
    parent digests still to be tried (shortest name first, as in the code: the
    one asked next is the LAST). *)
Definition wentry := (digest * list digest)%type.

Definition last_parent (e : wentry) : digest := last (snd e) (fst e).

(** digestsWithParents[i] = digestsWithParents[len-1]; truncate — seen from
    position i on: the tail after i loses its last element, which takes the
    place of element i. *)
Definition swap_in (rest : list wentry) : list wentry :=
  match rest with
  | [] => []
  | _ :: _ => last rest (([], 0%N), []) :: removelast rest
  end.

(** The pruning scan: [done] = entries at indices < i (kept, already trimmed),
    [todo] = entries at indices >= i.  Fuel = length todo. *)
Fixpoint scan (fuel : nat) (missing : list digest) (done todo : list wentry) (final : list digest)
  : list wentry * list digest :=
  match fuel with
  | O => (done ++ todo, final)
  | S f =>
      match todo with
      | [] => (done, final)
      | e :: rest =>
          if negb (dg_mem (last_parent e) missing) then
            scan f missing done (swap_in rest) final            (* found: drop *)
          else if Nat.ltb 1 (length (snd e)) then
            scan f missing (done ++ [(fst e, removelast (snd e))]) rest final   (* next parent, i++ *)
          else
            scan f missing done (swap_in rest) (final ++ [fst e])   (* truly missing *)
      end
  end.

Section FindMissing.
  (** [fm k ds]: the backend's answer to its k-th FindMissing call of this operation. *)
  Variable fm : nat -> list digest -> outcome (list digest).

  Fixpoint levels (fuel : nat) (k : nat) (work : list wentry) (final : list digest)
                  (asked : list (list digest))
    : outcome (list digest) * list (list digest) :=
    match work with
    | [] => (Ok (canon final), asked)
    | _ :: _ =>
        match fuel with
        | O => (Panic, asked)      (* out of fuel: excluded by hier_fm_terminates *)
        | S f =>
            let q := canon (map last_parent work) in
            match fm k q with
            | Err e => (Err e, asked ++ [q])
            | Panic => (Panic, asked ++ [q])
            | Ok missing =>
                let '(work', final') := scan (length work) missing [] work final in
                levels f (S k) work' final' (asked ++ [q])
            end
        end
    end.

  (** initial classification of the initially missing digests *)
  Fixpoint classify (ms : list digest) (work : list wentry) (final : list digest)
    : list wentry * list digest :=
    match ms with
    | [] => (work, final)
    | d :: r =>
        let ps := parents_of d in
        if Nat.ltb 1 (length ps) then classify r (work ++ [(d, removelast ps)]) final
        else classify r work (final ++ [d])
    end.

  Definition hier_fm (ds : list digest) : outcome (list digest) * list (list digest) :=
    let q0 := canon ds in
    match fm O q0 with
    | Err e => (Err e, [q0])
    | Panic => (Panic, [q0])
    | Ok missing0 =>
        let '(work, final) := classify (canon missing0) [] [] in
        (* every level shortens every surviving parent list: fuel = longest list + 1 *)
        levels (S (fold_right Nat.max O (map (fun e => length (snd e)) work))) 1%nat work final [q0]
    end.
End FindMissing.
