(** C19 — the no-dead-branch invariant of the instance-name trie and the full
    specification of Remove.

    [nodead t]: every node of [t] other than the root carries a value or has
    children ([live]).  Consequently every such node lies on the path to a
    registered name ([live_has_name]), every leaf carries a value, and a trie
    without registered names is the empty root.  The invariant holds in every
    trie reachable from the empty one by Set (values >= 0) and successful
    Remove ([reach_nodead]); with it Remove's result is "the trie became empty"
    in both directions ([remove_to_map_full]). *)
From Coq Require Import List ZArith NArith Bool Arith Lia.
From BBS Require Import Routing.Names Routing.NamesProofs Routing.Trie Routing.TrieProofs.
Import ListNotations.
Open Scope Z_scope.

Definition live (s : trie) : Prop := 0 <= tval s \/ tch s <> [].

Inductive nodead : trie -> Prop :=
| nodead_node v ch :
    (forall c s, In (c, s) ch -> live s) ->
    (forall c s, In (c, s) ch -> nodead s) ->
    nodead (Node v ch).

Lemma nodead_inv t : nodead t ->
  (forall c s, In (c, s) (tch t) -> live s) /\ (forall c s, In (c, s) (tch t) -> nodead s).
Proof. destruct 1. cbn [tch]. split; assumption. Qed.

Lemma nodead_empty : nodead empty_trie.
Proof. constructor; intros ? ? []. Qed.

Lemma nodead_lookup t c s : nodead t -> lookup (tch t) c = Some s -> live s /\ nodead s.
Proof.
  intros H El. apply nodead_inv in H as [H1 H2]. apply lookup_In in El as [k Hk].
  split; [eapply H1|eapply H2]; exact Hk.
Qed.

(** a live node of a trie without dead branches has a registered name below it *)
Lemma live_has_name t : nodead t -> live t -> exists m, 0 <= gval t m.
Proof.
  induction 1 as [v ch Hl Hn IH]. intros [Hv|Hc].
  - exists []. cbn [gval tval] in *. rewrite norm_nonneg by exact Hv. exact Hv.
  - cbn [tch] in Hc. destruct ch as [|[c s] r]; [congruence|].
    destruct (IH c s (or_introl eq_refl) (Hl c s (or_introl eq_refl))) as [m Hm].
    exists (c :: m). cbn [gval tch lookup]. rewrite str_eqb_refl. exact Hm.
Qed.

(** ... so a trie without registered names is the empty root *)
Lemma nodead_no_names_empty t : nodead t -> (forall m, gval t m = -1) -> is_empty_root t = true.
Proof.
  intros Hn Hall. unfold is_empty_root. apply andb_true_iff. split.
  - specialize (Hall []). cbn [gval] in Hall. unfold norm in Hall.
    destruct (0 <=? tval t) eqn:E; [apply Z.leb_le in E; lia|]. apply Z.leb_gt in E. apply Z.ltb_lt. exact E.
  - destruct (tch t) as [|[c s] r] eqn:Ec; [reflexivity|]. exfalso.
    assert (Hlive : live t) by (right; rewrite Ec; discriminate).
    destruct (live_has_name t Hn Hlive) as [m Hm]. rewrite Hall in Hm. lia.
Qed.

(** ---- Set preserves the invariant ---- *)
Lemma upd_nonnil ch c x : upd ch c x <> [].
Proof. destruct ch as [|[k s] r]; cbn; [discriminate|]. destruct (str_eqb k c); discriminate. Qed.

Lemma live_set t n v : 0 <= v -> live (set t n v).
Proof.
  intros Hv. destruct n as [|c n]; cbn [set].
  - left. exact Hv.
  - right. cbn [tch]. apply upd_nonnil.
Qed.

Lemma nodead_set n : forall t v, nodead t -> 0 <= v -> nodead (set t n v).
Proof.
  induction n as [|c n IH]; intros t v Hn Hv; cbn [set].
  - destruct Hn as [v0 ch Hl Hd]. cbn [tch]. constructor; assumption.
  - pose proof (nodead_inv _ Hn) as [Hl Hd]. constructor.
    + intros k s Hin. apply upd_In in Hin as [Hin| ->]; [eapply Hl; exact Hin|]. apply live_set. exact Hv.
    + intros k s Hin. apply upd_In in Hin as [Hin| ->]; [eapply Hd; exact Hin|]. apply IH; [|exact Hv].
      destruct (lookup (tch t) c) as [s0|] eqn:El; [|apply nodead_empty].
      eapply nodead_lookup; eauto.
Qed.

(** ---- Remove preserves the invariant ---- *)
Lemma del_nonnil ch c : NoDup (map fst ch) -> (1 < length ch)%nat -> del ch c <> [].
Proof.
  destruct ch as [|[k1 s1] [|[k2 s2] r]]; cbn [length]; try lia. intros Hnd _.
  cbn [del]. destruct (str_eqb k1 c) eqn:E1; [|discriminate].
  destruct (str_eqb k2 c) eqn:E2; [|discriminate].
  apply str_eqb_eq in E1, E2. subst. cbn in Hnd. inversion Hnd; subst. cbn in *. tauto.
Qed.

Lemma nodead_del t c : nodead t -> nodead (Node (tval t) (del (tch t) c)).
Proof.
  intros Hn. apply nodead_inv in Hn as [Hl Hd].
  constructor; intros k s Hin; apply del_In in Hin; eauto.
Qed.

Lemma live_del t first c : wf t -> captures t first = true -> first = false ->
  live (Node (tval t) (del (tch t) c)).
Proof.
  intros Hwf Hc ->. unfold captures in Hc. rewrite orb_false_r in Hc. apply orb_true_iff in Hc as [Hc|Hc].
  - left. cbn [tval]. apply Z.leb_le. exact Hc.
  - right. cbn [tch]. inversion Hwf; subst. cbn [tch] in *. apply del_nonnil; [assumption|].
    apply Z.ltb_lt in Hc. lia.
Qed.

Lemma nodead_remove_ne n : forall t first c t', wf t -> nodead t -> remove_ne t first c n = Ok (Some t') ->
  nodead t' /\ (first = false -> live t').
Proof.
  induction n as [|c' n IH]; intros t first c t' Hwf Hn; cbn [remove_ne];
    destruct (lookup (tch t) c) as [s|] eqn:El; try discriminate;
    pose proof (nodead_inv _ Hn) as [Hl Hd];
    pose proof (nodead_lookup _ _ _ Hn El) as [Hls Hds].
  - destruct (tch s) as [|p l] eqn:Es.
    + destruct (captures t first) eqn:Ec; [|discriminate]. intros [= <-].
      split; [apply nodead_del; exact Hn|]. intros Hf. eapply live_del; eauto.
    + intros [= <-]. split.
      * constructor; intros k x Hin; apply upd_In in Hin as [Hin| ->]; eauto.
        -- right. cbn [tch]. discriminate.
        -- apply nodead_inv in Hds as [Hl' Hd']. rewrite Es in *. constructor; assumption.
      * intros _. right. cbn [tch]. apply upd_nonnil.
  - assert (Hws : wf s).
    { inversion Hwf; subst. cbn [tch] in El. apply lookup_In in El as [k Hk]. eauto. }
    destruct (remove_ne s false c' n) as [[s'|]|e|] eqn:Er; try discriminate.
    + intros [= <-]. destruct (IH _ _ _ _ Hws Hds Er) as [Hd' Hl'].
      split.
      * constructor; intros k x Hin; apply upd_In in Hin as [Hin| ->]; eauto.
      * intros _. right. cbn [tch]. apply upd_nonnil.
    + destruct (captures t first) eqn:Ec; [|discriminate]. intros [= <-].
      split; [apply nodead_del; exact Hn|]. intros Hf. eapply live_del; eauto.
Qed.

Lemma nodead_remove t n t' b : wf t -> nodead t -> remove t n = Ok (t', b) -> nodead t'.
Proof.
  intros Hwf Hn. destruct n as [|c n]; cbn [remove].
  - intros [= <- _]. apply nodead_inv in Hn as [Hl Hd]. constructor; assumption.
  - destruct (remove_ne t true c n) as [[t0|]|e|] eqn:Er; try discriminate. intros [= <- _].
    eapply nodead_remove_ne; eauto.
Qed.

(** every reachable trie is free of dead branches *)
Lemma reach_nodead t : reach t -> nodead t.
Proof.
  induction 1 as [|t n v Hr IH Hv|t n t' b Hr IH Hrm].
  - apply nodead_empty.
  - apply nodead_set; assumption.
  - eapply nodead_remove; eauto. apply reach_wf. exact Hr.
Qed.

(** ---- the invariant in terms of paths and the association list ---- *)
Fixpoint subtrie (t : trie) (p : name) : option trie :=
  match p with
  | [] => Some t
  | c :: p' => match lookup (tch t) c with Some s => subtrie s p' | None => None end
  end.

Lemma gval_subtrie p : forall t s m, subtrie t p = Some s -> gval t (p ++ m) = gval s m.
Proof.
  induction p as [|c p IH]; intros t s m; cbn [subtrie app].
  - intros [= ->]. reflexivity.
  - cbn [gval]. destruct (lookup (tch t) c) as [s0|]; [|discriminate]. apply IH.
Qed.

Lemma nodead_subtrie p : forall t s, nodead t -> subtrie t p = Some s -> p <> [] -> live s /\ nodead s.
Proof.
  induction p as [|c p IH]; intros t s Hn; cbn [subtrie]; [congruence|].
  destruct (lookup (tch t) c) as [s0|] eqn:El; [|discriminate]. intros Hs _.
  destruct (nodead_lookup _ _ _ Hn El) as [Hl0 Hn0].
  destruct p as [|d p]; [cbn in Hs; injection Hs as <-; auto|].
  eapply IH; eauto. discriminate.
Qed.

(** every node other than the root is on the path to a registered name;
    every leaf other than the root is itself a registered name *)
Lemma reach_no_dead_branch t p s : reach t -> subtrie t p = Some s -> p <> [] ->
  (exists m, 0 <= assoc_get (to_map t) (p ++ m)) /\ (tch s = [] -> 0 <= assoc_get (to_map t) p).
Proof.
  intros Hr Hs Hp. pose proof (reach_wf _ Hr) as Hwf.
  destruct (nodead_subtrie p t s (reach_nodead _ Hr) Hs Hp) as [Hl Hn]. split.
  - destruct (live_has_name s Hn Hl) as [m Hm]. exists m.
    rewrite (to_map_gval _ _ Hwf), (gval_subtrie p t s m Hs). exact Hm.
  - intros Hc. destruct Hl as [Hv|Hne]; [|contradiction].
    rewrite (to_map_gval _ _ Hwf). rewrite <- (app_nil_r p), (gval_subtrie p t s [] Hs).
    cbn [gval]. rewrite norm_nonneg by exact Hv. exact Hv.
Qed.

(** a reachable trie standing for the empty map is the empty trie *)
Lemma reach_no_names_empty t : reach t -> (forall m, assoc_get (to_map t) m = -1) -> t = empty_trie.
Proof.
  intros Hr Hall. pose proof (reach_wf _ Hr) as Hwf.
  assert (He : is_empty_root t = true).
  { apply nodead_no_names_empty; [apply reach_nodead; exact Hr|].
    intros m. rewrite <- (to_map_gval _ _ Hwf). apply Hall. }
  unfold is_empty_root in He. apply andb_true_iff in He as [Hv Hc]. apply Z.ltb_lt in Hv.
  destruct t as [v ch]. cbn [tval tch] in *. inversion Hwf; subst.
  destruct ch; [|discriminate]. unfold empty_trie. f_equal. lia.
Qed.

(** ---- Remove, full specification ---- *)
Lemma remove_to_map_full t n : reach t -> 0 <= assoc_get (to_map t) n ->
  exists t' b, remove t n = Ok (t', b) /\
    (forall m, assoc_get (to_map t') m = assoc_get (assoc_remove (to_map t) n) m) /\
    (b = true <-> forall m, assoc_get (to_map t') m = -1).
Proof.
  intros H Hreg. rewrite (to_map_gval n _ (reach_wf _ H)) in Hreg.
  destruct (remove_gval t n (or_intror Hreg)) as [t' [b [Hr [_ [Hg Hb]]]]].
  exists t', b. split; [exact Hr|].
  assert (Hr' : reach t') by (econstructor; eauto).
  pose proof (reach_wf _ Hr') as Hwf'.
  split; [|split].
  - intros m. rewrite (to_map_gval m _ Hwf'), Hg, assoc_get_remove, (to_map_gval m _ (reach_wf _ H)). reflexivity.
  - intros -> m. rewrite (to_map_gval m _ Hwf'). apply is_empty_root_gval. symmetry. exact Hb.
  - intros Hall. rewrite Hb. apply nodead_no_names_empty; [apply reach_nodead; exact Hr'|].
    intros m. rewrite <- (to_map_gval m _ Hwf'). apply Hall.
Qed.

(** Remove of any name on which the Go code does not dereference nil (the
    node of the name exists, whether or not it carries a value): same
    specification.  Covers Remove of an inner node without a value (a no-op). *)
Lemma remove_ok_full t n t' b : reach t -> remove t n = Ok (t', b) ->
  (b = true <-> forall m, assoc_get (to_map t') m = -1).
Proof.
  intros H Hr.
  assert (Hr' : reach t') by (econstructor; eauto).
  pose proof (reach_wf _ Hr') as Hwf'.
  assert (Hb : b = is_empty_root t').
  { destruct n as [|c n]; cbn [remove] in Hr.
    - injection Hr as <- <-. unfold is_empty_root. cbn. reflexivity.
    - destruct (remove_ne t true c n) as [[t0|]|e|]; try discriminate. injection Hr as <- <-. reflexivity. }
  split.
  - intros -> m. rewrite (to_map_gval m _ Hwf'). apply is_empty_root_gval. symmetry. exact Hb.
  - intros Hall. rewrite Hb. apply nodead_no_names_empty; [apply reach_nodead; exact Hr'|].
    intros m. rewrite <- (to_map_gval m _ Hwf'). apply Hall.
Qed.
