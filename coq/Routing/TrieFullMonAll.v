(** C19 — the monitor [mon19] is silent on the model's own output [run19], all
    four input kinds together.  Hypotheses, per kind:
    - kind 0 (trie history): the model does not panic (it panics only on a Remove
      of a name whose node does not exist — a nil dereference in the Go code);
    - kind 1 (patcher), kind 3 and any other kind (hierarchical decorator): none;
    - kind 2 (demultiplexer): every owner index has a backend description and the
      instance names of the operations' digests are well-formed ([op_wf]); both
      are needed ([name_wf_needed], [backend_needed] in TrieFullMonDemux.v). *)
From Coq Require Import List ZArith NArith Bool Arith Lia.
From BBS Require Import Common.Sx Routing.Trie Run.R19
  Routing.TrieFullMon Routing.TrieFullMonPatcher Routing.TrieFullMonHier Routing.TrieFullMonDemux.
Import ListNotations.
Open Scope Z_scope.

Definition model_input_ok (inp : sx) : Prop :=
  (sx_Z (sx_nth inp 0) = 0 -> run_trie (sx_list (sx_nth inp 1)) empty_trie <> None) /\
  (sx_Z (sx_nth inp 0) = 2 ->
     (length (dec_cfg (sx_nth inp 1)) <= length (sx_list (sx_nth inp 2)))%nat /\
     forallb op_wf (sx_list (sx_nth inp 3)) = true).

Theorem mon19_silent_on_model : forall inp, model_input_ok inp -> mon19 inp (run19 inp) = [].
Proof.
  intros inp [H0 H2].
  destruct (Z.eq_dec (sx_Z (sx_nth inp 0)) 0) as [E0|N0].
  { apply mon19_silent_on_trie_model; auto. }
  destruct (Z.eq_dec (sx_Z (sx_nth inp 0)) 1) as [E1|N1].
  { apply mon19_silent_on_patcher_model; auto. }
  destruct (Z.eq_dec (sx_Z (sx_nth inp 0)) 2) as [E2|N2].
  { destruct (H2 E2). apply mon19_silent_on_demux_model; auto. }
  apply mon19_silent_on_hier_model; assumption.
Qed.
