(** C19 — proofs about the instance-name trie model. *)
From Coq Require Import List ZArith NArith Bool Arith Lia.
From BBS Require Import Routing.Names Routing.NamesProofs Routing.Trie.
Import ListNotations.
Open Scope Z_scope.

(** ---- children as association list ---- *)
Lemma lookup_upd ch c t d : lookup (upd ch c t) d = if str_eqb c d then Some t else lookup ch d.
Proof.
  induction ch as [|[k s] r IH]; cbn.
  - destruct (str_eqb c d); reflexivity.
  - destruct (str_eqb k c) eqn:E.
    + apply str_eqb_eq in E. subst k. cbn. destruct (str_eqb c d); reflexivity.
    + cbn. rewrite IH. destruct (str_eqb k d) eqn:E2; [|reflexivity].
      apply str_eqb_eq in E2. subst k. rewrite str_eqb_sym, E. reflexivity.
Qed.
Lemma lookup_del ch c d : lookup (del ch c) d = if str_eqb c d then None else lookup ch d.
Proof.
  induction ch as [|[k s] r IH]; cbn.
  - destruct (str_eqb c d); reflexivity.
  - destruct (str_eqb k c) eqn:E.
    + apply str_eqb_eq in E. subst k. rewrite IH. destruct (str_eqb c d); reflexivity.
    + cbn. rewrite IH. destruct (str_eqb k d) eqn:E2; [|reflexivity].
      apply str_eqb_eq in E2. subst k. rewrite str_eqb_sym, E. reflexivity.
Qed.

(** ---- the map a trie stands for, as a function: value >= 0 or -1 ---- *)
Definition norm (v : Z) : Z := if 0 <=? v then v else -1.
Fixpoint gval (t : trie) (n : name) : Z :=
  match n with
  | [] => norm (tval t)
  | c :: n' => match lookup (tch t) c with None => -1 | Some s => gval s n' end
  end.

Lemma norm_range v : 0 <= norm v \/ norm v = -1.
Proof. unfold norm. destruct (0 <=? v) eqn:E; [left; lia|right; reflexivity]. Qed.
Lemma norm_idem v : norm (norm v) = norm v.
Proof. unfold norm. destruct (0 <=? v) eqn:E; [rewrite E|]; reflexivity. Qed.
Lemma norm_nonneg v : 0 <= v -> norm v = v.
Proof. unfold norm. intros H. destruct (0 <=? v) eqn:E; [reflexivity|lia]. Qed.
Lemma norm_ge v : -1 <= v -> norm v = v.
Proof. unfold norm. intros H. destruct (0 <=? v) eqn:E; [reflexivity|lia]. Qed.
Lemma norm_test v : (0 <=? norm v) = (0 <=? v).
Proof. unfold norm. destruct (0 <=? v) eqn:E; [exact E|reflexivity]. Qed.
Lemma gval_range t n : 0 <= gval t n \/ gval t n = -1.
Proof.
  revert t; induction n as [|c n IH]; intros t; cbn; [apply norm_range|].
  destruct (lookup (tch t) c); [apply IH|right; reflexivity].
Qed.
Lemma norm_gval t n : norm (gval t n) = gval t n.
Proof. destruct (gval_range t n) as [H|H]; [apply norm_nonneg; exact H|rewrite H; reflexivity]. Qed.

Lemma get_exact_ne_gval t c n : get_exact_ne t c n = gval t (c :: n).
Proof.
  revert t c; induction n as [|d n IH]; intros t c; cbn.
  - destruct (lookup (tch t) c); reflexivity.
  - destruct (lookup (tch t) c) as [s|]; [|reflexivity]. rewrite IH. reflexivity.
Qed.
(** GetExact: on the empty name the root value as it is, otherwise the registered value or -1 *)
Lemma get_exact_gval t n : get_exact t n = match n with [] => tval t | _ => gval t n end.
Proof. destruct n; [reflexivity|apply get_exact_ne_gval]. Qed.
Lemma get_exact_gval_wf t n : -1 <= tval t -> get_exact t n = gval t n.
Proof. intros H. rewrite get_exact_gval. destruct n; [cbn; rewrite norm_ge; auto|reflexivity]. Qed.

(** ---- Set ---- *)
Lemma gval_set t n v m :
  gval (set t n v) m = if name_eqb n m then norm v else gval t m.
Proof.
  revert t m; induction n as [|c n IH]; intros t m.
  - destruct m as [|d m]; cbn; reflexivity.
  - destruct m as [|d m]; [reflexivity|].
    cbn [set gval tch name_eqb]. rewrite lookup_upd.
    destruct (str_eqb c d) eqn:E.
    + apply str_eqb_eq in E. subst d. rewrite IH. cbn [andb].
      destruct (name_eqb n m); [reflexivity|].
      destruct (lookup (tch t) c); [reflexivity|]. destruct m; reflexivity.
    + reflexivity.
Qed.
Lemma tval_set t n v : tval (set t n v) = match n with [] => v | _ => tval t end.
Proof. destruct n; reflexivity. Qed.

(** ---- GetLongestPrefix ---- *)
Fixpoint glpv (t : trie) (last : Z) (n : name) : Z :=
  let last' := if 0 <=? tval t then tval t else last in
  match n with
  | [] => last'
  | c :: n' => match lookup (tch t) c with None => last' | Some s => glpv s last' n' end
  end.

Lemma glp_ne_glpv t last c n :
  glp_ne t last c n = match lookup (tch t) c with None => last | Some s => glpv s last n end.
Proof.
  revert t last c; induction n as [|d n IH]; intros t last c; cbn.
  - reflexivity.
  - destruct (lookup (tch t) c) as [s|]; [|reflexivity]. rewrite IH. reflexivity.
Qed.

Lemma filter_map_comm {X Y} (f : X -> Y) (p : Y -> bool) l :
  filter p (map f l) = map f (filter (fun x => p (f x)) l).
Proof. induction l; cbn; [reflexivity|]. destruct (p (f a)); cbn; rewrite IHl; reflexivity. Qed.

Lemma filter_none {X} (p : X -> bool) l : (forall x, In x l -> p x = false) -> filter p l = [].
Proof.
  induction l; cbn; intros H; [reflexivity|]. rewrite (H a) by auto. apply IHl. auto.
Qed.

Lemma filter_gval_some t c s (L : list name) : lookup (tch t) c = Some s ->
  filter (fun p : name => 0 <=? gval t p) (map (cons c) L) = map (cons c) (filter (fun p : name => 0 <=? gval s p) L).
Proof.
  intros El. induction L as [|x L IH]; [reflexivity|]. cbn [map filter]. rewrite IH.
  cbn [gval]. rewrite El. destruct (0 <=? gval s x); reflexivity.
Qed.
Lemma filter_gval_none t c (L : list name) : lookup (tch t) c = None ->
  filter (fun p : name => 0 <=? gval t p) (map (cons c) L) = [].
Proof.
  intros El. induction L as [|x L IH]; [reflexivity|]. cbn [map filter]. rewrite IH.
  cbn [gval]. rewrite El. reflexivity.
Qed.

Lemma last_step t last :
  (if 0 <=? tval t then tval t else last)
  = match filter (fun p => 0 <=? gval t p) [[]] with [] => last | p :: _ => gval t p end.
Proof.
  cbn [filter gval]. rewrite norm_test.
  destruct (0 <=? tval t) eqn:E; [symmetry; apply norm_nonneg, Z.leb_le, E|reflexivity].
Qed.

Lemma glpv_spec t last n :
  glpv t last n = match filter (fun p => 0 <=? gval t p) (rev (prefixes n)) with
                  | [] => last
                  | p :: _ => gval t p
                  end.
Proof.
  revert t last; induction n as [|c n IH]; intros t last.
  - cbn [glpv prefixes rev app]. apply last_step.
  - cbn [glpv prefixes rev]. rewrite filter_app, <- map_rev.
    destruct (lookup (tch t) c) as [s|] eqn:El.
    + rewrite IH. rewrite (filter_gval_some _ _ _ _ El).
      destruct (filter (fun p : list comp => 0 <=? gval s p) (rev (prefixes n))) as [|p l].
      * cbn [map app]. apply last_step.
      * cbn [map app gval]. rewrite El. reflexivity.
    + rewrite (filter_gval_none _ _ _ El). cbn [app]. apply last_step.
Qed.

(** GetLongestPrefix returns the value of the longest registered component-wise prefix, else -1 *)
Lemma glp_gval t n : -1 <= tval t -> get_longest_prefix t n = lpv_f (gval t) n.
Proof.
  intros Hv. unfold lpv_f. rewrite <- (glpv_spec t (-1) n).
  destruct n as [|c n].
  - cbn [get_longest_prefix glpv]. destruct (0 <=? tval t) eqn:E; [reflexivity|]. apply Z.leb_gt in E. lia.
  - cbn [get_longest_prefix glpv]. rewrite glp_ne_glpv.
    destruct (lookup (tch t) c) as [s|]; destruct (0 <=? tval t) eqn:E; try reflexivity;
      apply Z.leb_gt in E; assert (H : tval t = -1) by lia.
    + rewrite H; reflexivity.
    + exact H.
Qed.

(** declarative reading of [lpv_f]: the LONGEST registered prefix *)
Lemma rev_prefixes_sorted n :
  forall l1 p l2, rev (prefixes n) = l1 ++ p :: l2 ->
  forall q, In q l2 -> (length q < length p)%nat.
Proof.
  induction n as [|c n IH]; intros l1 p l2 H q Hq.
  - cbn in H. destruct l1 as [|x l1]; [injection H as <- <-; destruct Hq|].
    destruct l1; cbn in H; discriminate.
  - cbn [prefixes rev] in H. rewrite <- map_rev in H.
    assert (Hcase : (exists l2', l2 = map (cons c) l2' ++ [[]] /\ exists p', p = c :: p' /\ rev (prefixes n) = (map (fun x => tl x) l1) ++ p' :: l2' /\ True) \/ (l2 = [] /\ p = [])).
    { clear IH Hq. revert l1 H. generalize (rev (prefixes n)) as L. intros L; revert l2 p.
      induction L as [|x L IHL]; intros l2 p l1 H.
      - cbn in H. right. destruct l1 as [|y l1]; [injection H as <- <-; auto|].
        destruct l1; cbn in H; discriminate.
      - cbn in H. destruct l1 as [|y l1].
        + cbn in H. injection H as <- <-. left. exists L. split; [reflexivity|]. exists x. auto.
        + cbn in H. injection H as <- H. destruct (IHL _ _ _ H) as [[l2' [-> [p' [-> [E _]]]]]|[-> ->]].
          * left. exists l2'. split; [reflexivity|]. exists p'. split; [reflexivity|]. cbn. rewrite E. auto.
          * right. auto. }
    destruct Hcase as [[l2' [-> [p' [-> [E _]]]]]|[-> ->]]; [|destruct Hq].
    apply in_app_iff in Hq as [Hq|[<-|[]]]; [|cbn; lia].
    apply in_map_iff in Hq as [q' [<- Hq']]. cbn. apply -> Nat.succ_lt_mono. eapply IH; eauto.
Qed.

Lemma lpv_f_spec f n :
  (exists p, is_prefix p n = true /\ 0 <= f p /\ lpv_f f n = f p /\
             forall q, is_prefix q n = true -> 0 <= f q -> (length q <= length p)%nat)
  \/ (lpv_f f n = -1 /\ forall q, is_prefix q n = true -> f q < 0).
Proof.
  unfold lpv_f.
  destruct (filter (fun p => 0 <=? f p) (rev (prefixes n))) as [|p l] eqn:E.
  - right. split; [reflexivity|]. intros q Hq.
    assert (Hin : In q (rev (prefixes n))) by (apply in_rev; rewrite rev_involutive; apply prefixes_In; exact Hq).
    destruct (0 <=? f q) eqn:Ef; [|lia].
    assert (In q (filter (fun p => 0 <=? f p) (rev (prefixes n)))) by (apply filter_In; auto).
    rewrite E in H. destruct H.
  - left. exists p.
    assert (Hp : In p (filter (fun p => 0 <=? f p) (rev (prefixes n)))) by (rewrite E; left; reflexivity).
    apply filter_In in Hp as [Hp1 Hp2].
    split; [apply prefixes_In, in_rev; exact Hp1|]. split; [lia|]. split; [reflexivity|].
    intros q Hq Hfq.
    (* split rev (prefixes n) at the first element satisfying the filter *)
    assert (Hs : exists l1 l2, rev (prefixes n) = l1 ++ p :: l2 /\ forall x, In x l1 -> (0 <=? f x) = false).
    { revert E. generalize (rev (prefixes n)) as L. induction L as [|x L IHL]; cbn; [discriminate|].
      destruct (0 <=? f x) eqn:Ex.
      - intros [= -> _]. exists [], L. split; [reflexivity|]. intros ? [].
      - intros E. destruct (IHL E) as [l1 [l2 [-> Hl1]]]. exists (x :: l1), l2. split; [reflexivity|].
        intros y [<-|Hy]; auto. }
    destruct Hs as [l1 [l2 [Hs Hl1]]].
    assert (Hin : In q (rev (prefixes n))) by (apply in_rev; rewrite rev_involutive; apply prefixes_In; exact Hq).
    rewrite Hs in Hin. apply in_app_iff in Hin as [Hin|[<-|Hin]].
    + apply Hl1 in Hin. lia.
    + lia.
    + pose proof (rev_prefixes_sorted n l1 p l2 Hs q Hin). lia.
Qed.

(** ---- ContainsPrefix ---- *)
Lemma existsb_gval_some t c s (L : list (list comp)) : lookup (tch t) c = Some s ->
  existsb (fun p => 0 <=? gval t p) (map (cons c) L) = existsb (fun p => 0 <=? gval s p) L.
Proof.
  intros El. induction L as [|x L IH]; [reflexivity|]. cbn [map existsb]. rewrite IH.
  cbn [gval]. rewrite El. reflexivity.
Qed.
Lemma existsb_gval_none t c (L : list (list comp)) : lookup (tch t) c = None ->
  existsb (fun p => 0 <=? gval t p) (map (cons c) L) = false.
Proof.
  intros El. induction L as [|x L IH]; [reflexivity|]. cbn [map existsb]. rewrite IH.
  cbn [gval]. rewrite El. reflexivity.
Qed.

Lemma contains_prefix_ne_spec t c n :
  contains_prefix_ne t c n = existsb (fun p => 0 <=? gval t p) (map (cons c) (prefixes n)).
Proof.
  revert t c; induction n as [|d n IH]; intros t c.
  - cbn [contains_prefix_ne prefixes map existsb gval].
    destruct (lookup (tch t) c) as [s|]; [rewrite norm_test, orb_false_r|]; reflexivity.
  - cbn [contains_prefix_ne].
    destruct (lookup (tch t) c) as [s|] eqn:El.
    + rewrite (existsb_gval_some _ _ _ _ El). cbn [prefixes existsb gval]. rewrite norm_test.
      destruct (0 <=? tval s); [reflexivity|]. cbn [orb]. apply IH.
    + rewrite (existsb_gval_none _ _ _ El). reflexivity.
Qed.

(** ContainsPrefix: some registered name is a component-wise prefix *)
Lemma contains_prefix_gval t n : contains_prefix t n = hasp_f (gval t) n.
Proof.
  unfold contains_prefix, hasp_f. destruct n as [|c n].
  - cbn [prefixes existsb gval]. rewrite norm_test, orb_false_r. destruct (0 <=? tval t); reflexivity.
  - cbn [prefixes existsb gval]. rewrite norm_test, contains_prefix_ne_spec.
    destruct (0 <=? tval t); reflexivity.
Qed.

(** ---- Remove ---- *)
Lemma captures_false t first :
  captures t first = false -> first = false /\ tval t < 0 /\ (length (tch t) <= 1)%nat.
Proof.
  unfold captures. intros H. apply orb_false_iff in H as [H ->]. apply orb_false_iff in H as [H1 H2].
  apply Z.leb_gt in H1. apply Z.ltb_ge in H2. repeat split; lia.
Qed.

Lemma lookup_single ch c s :
  (length ch <= 1)%nat -> lookup ch c = Some s -> forall d, lookup ch d = if str_eqb c d then Some s else None.
Proof.
  destruct ch as [|[k s0] [|x r]]; cbn; intros Hl H d; try discriminate; [|lia].
  destruct (str_eqb k c) eqn:E; [|discriminate]. injection H as ->. apply str_eqb_eq in E. subst k. reflexivity.
Qed.

Lemma not_captured_only t first c s n :
  captures t first = false -> lookup (tch t) c = Some s ->
  (forall m, 0 <= gval s m -> m = n) ->
  forall m, 0 <= gval t m -> m = c :: n.
Proof.
  intros Hc El Hs m Hm. apply captures_false in Hc as [_ [Hv Hl]].
  destruct m as [|d m].
  - cbn in Hm. unfold norm in Hm. destruct (0 <=? tval t) eqn:E; [apply Z.leb_le in E|]; lia.
  - cbn [gval] in Hm. rewrite (lookup_single _ _ _ Hl El) in Hm.
    destruct (str_eqb c d) eqn:E; [|lia]. apply str_eqb_eq in E. subst d. f_equal. apply Hs. exact Hm.
Qed.

Lemma name_eqb_cons c n d m : name_eqb (c :: n) (d :: m) = str_eqb c d && name_eqb n m.
Proof. reflexivity. Qed.

Lemma remove_ne_spec n : forall t first c r, remove_ne t first c n = Ok r ->
  match r with
  | Some t' => tval t' = tval t /\ forall m, gval t' m = if name_eqb (c :: n) m then -1 else gval t m
  | None => first = false /\ forall m, 0 <= gval t m -> m = c :: n
  end.
Proof.
  induction n as [|c' n IH]; intros t first c r.
  - cbn [remove_ne]. destruct (lookup (tch t) c) as [s|] eqn:El; [|discriminate].
    assert (Hleaf : tch s = [] -> forall m, 0 <= gval s m -> m = []).
    { intros Es m Hm. destruct m as [|d m]; [reflexivity|]. cbn [gval] in Hm. rewrite Es in Hm. cbn in Hm. lia. }
    destruct (tch s) as [|p l] eqn:Es.
    + destruct (captures t first) eqn:Ec; intros [= <-].
      * split; [reflexivity|]. intros [|d m]; [reflexivity|]. cbn [gval tch]; rewrite name_eqb_cons. rewrite lookup_del.
        destruct (str_eqb c d) eqn:E; [|reflexivity]. apply str_eqb_eq in E. subst d. rewrite El.
        destruct m as [|d' m]; [reflexivity|]. cbn [andb gval]. rewrite Es. change (name_eqb [] (d' :: m)) with false. reflexivity.
      * split; [apply captures_false in Ec; tauto|].
        eapply not_captured_only; eauto.
    + intros [= <-]. split; [reflexivity|]. intros [|d m]; [reflexivity|]. cbn [gval tch]; rewrite name_eqb_cons. rewrite lookup_upd.
      destruct (str_eqb c d) eqn:E; [|reflexivity]. apply str_eqb_eq in E. subst d. rewrite El.
      destruct m as [|d' m]; [reflexivity|]. cbn [andb gval tch]. rewrite Es. change (name_eqb [] (d' :: m)) with false. reflexivity.
  - cbn [remove_ne]. destruct (lookup (tch t) c) as [s|] eqn:El; [|discriminate].
    destruct (remove_ne s false c' n) as [[s'|]|e|] eqn:Er; try discriminate.
    + specialize (IH _ _ _ _ Er). cbn in IH. destruct IH as [Hv Hg]. intros [= <-].
      split; [reflexivity|]. intros [|d m]; [reflexivity|]. cbn [gval tch]; rewrite name_eqb_cons. rewrite lookup_upd.
      destruct (str_eqb c d) eqn:E; [|reflexivity]. apply str_eqb_eq in E. subst d. rewrite El, Hg. reflexivity.
    + specialize (IH _ _ _ _ Er). cbn in IH. destruct IH as [_ Hs].
      destruct (captures t first) eqn:Ec; intros [= <-].
      * split; [reflexivity|]. intros [|d m]; [reflexivity|]. cbn [gval tch]; rewrite name_eqb_cons. rewrite lookup_del.
        destruct (str_eqb c d) eqn:E; [|reflexivity]. apply str_eqb_eq in E. subst d. rewrite El.
        cbn [andb]. destruct (name_eqb (c' :: n) m) eqn:En; [reflexivity|].
        destruct (gval_range s m) as [H|H]; [|symmetry; exact H].
        apply Hs in H. subst m. rewrite name_eqb_refl in En. discriminate.
      * split; [apply captures_false in Ec; tauto|].
        eapply not_captured_only; eauto.
Qed.

(** Remove does not dereference nil when the node of the name exists, in
    particular when the name is registered. *)
Lemma remove_ne_no_panic n : forall t first c, 0 <= gval t (c :: n) -> remove_ne t first c n <> Panic.
Proof.
  induction n as [|c' n IH]; intros t first c H; cbn [gval] in H; cbn [remove_ne];
    destruct (lookup (tch t) c) as [s|] eqn:El; try lia.
  - destruct (tch s); [destruct (captures t first)|]; discriminate.
  - specialize (IH s false c' H). destruct (remove_ne s false c' n) as [[s'|]|e|]; try congruence; try discriminate.
    destruct (captures t first); discriminate.
Qed.
Lemma remove_ne_no_err n : forall t first c e, remove_ne t first c n <> Err e.
Proof.
  induction n as [|c' n IH]; intros t first c e; cbn [remove_ne];
    destruct (lookup (tch t) c) as [s|] eqn:El; try discriminate.
  - destruct (tch s); [destruct (captures t first)|]; discriminate.
  - specialize (IH s false c'). destruct (remove_ne s false c' n) as [[s'|]|e'|]; try discriminate.
    + destruct (captures t first); discriminate.
    + exfalso. eapply IH. reflexivity.
Qed.

(** Remove of a registered name (or of any name whose node exists): the name
    is gone, every other name keeps its value, no panic. *)
Lemma remove_gval t n :
  (n = [] \/ 0 <= gval t n) ->
  exists t' b, remove t n = Ok (t', b) /\
               tval t' = (match n with [] => -1 | _ => tval t end) /\
               (forall m, gval t' m = if name_eqb n m then -1 else gval t m) /\
               b = is_empty_root t'.
Proof.
  intros H. destruct n as [|c n].
  - eexists _, _. cbn [remove]. split; [reflexivity|]. cbn [tval]. split; [reflexivity|]. split.
    + intros [|d m]; reflexivity.
    + unfold is_empty_root. cbn. reflexivity.
  - destruct H as [H|H]; [discriminate|]. cbn [remove].
    pose proof (remove_ne_no_panic n t true c H) as Hp.
    pose proof (remove_ne_no_err n t true c) as He.
    destruct (remove_ne t true c n) as [[t'|]|e|] eqn:Er; try congruence.
    + pose proof (remove_ne_spec _ _ _ _ _ Er) as [Hv Hg].
      eexists _, _. split; [reflexivity|]. split; [exact Hv|]. split; [exact Hg|reflexivity].
    + pose proof (remove_ne_spec _ _ _ _ _ Er) as [Hf _]. discriminate.
Qed.

(** ---- the abstraction [to_map] ---- *)
Definition assoc_mem (m : list (list comp * Z)) (n : list comp) : bool :=
  existsb (fun e => name_eqb (fst e) n) m.
Lemma assoc_get_nomem m n : assoc_mem m n = false -> assoc_get m n = -1.
Proof.
  induction m as [|[k v] m IH]; cbn; [reflexivity|]. intros H. apply orb_false_iff in H as [H1 H2].
  rewrite H1. apply IH. exact H2.
Qed.
Lemma assoc_get_app m1 m2 n :
  assoc_get (m1 ++ m2) n = if assoc_mem m1 n then assoc_get m1 n else assoc_get m2 n.
Proof.
  induction m1 as [|[k v] m1 IH]; cbn; [reflexivity|]. destruct (name_eqb k n); cbn; [reflexivity|apply IH].
Qed.
Definition pre (c : comp) (e : list comp * Z) : list comp * Z := (c :: fst e, snd e).
Lemma assoc_mem_pre c m d n : assoc_mem (map (pre c) m) (d :: n) = str_eqb c d && assoc_mem m n.
Proof.
  unfold assoc_mem. induction m as [|[k v] m IH]; [cbn; rewrite andb_false_r; reflexivity|].
  cbn [map existsb pre fst]. rewrite IH, name_eqb_cons. destruct (str_eqb c d); reflexivity.
Qed.
Lemma assoc_get_pre c m n : assoc_get (map (pre c) m) (c :: n) = assoc_get m n.
Proof.
  induction m as [|[k v] m IH]; cbn; [reflexivity|]. rewrite str_eqb_refl. cbn. destruct (name_eqb k n); [reflexivity|apply IH].
Qed.

Fixpoint go_map (ch : list (comp * trie)) : list (list comp * Z) :=
  match ch with
  | [] => []
  | (c, s) :: r => map (pre c) (to_map s) ++ go_map r
  end.
Lemma to_map_unfold v ch : to_map (Node v ch) = (if 0 <=? v then [([], v)] else []) ++ go_map ch.
Proof.
  cbn [to_map]. f_equal. all: induction ch as [|[c s] r IH]; [reflexivity|]; cbn [go_map]; rewrite <- IH; reflexivity.
Qed.

Lemma go_map_nil_key ch : assoc_mem (go_map ch) [] = false.
Proof.
  induction ch as [|[c s] r IH]; [reflexivity|]. cbn [go_map]. unfold assoc_mem in *. rewrite existsb_app, IH, orb_false_r.
  induction (to_map s) as [|[k v] m IHm]; [reflexivity|]. cbn. exact IHm.
Qed.
Lemma go_map_absent ch c n : lookup ch c = None -> assoc_mem (go_map ch) (c :: n) = false.
Proof.
  induction ch as [|[k s] r IH]; [reflexivity|]. cbn [lookup go_map].
  destruct (str_eqb k c) eqn:E; [discriminate|]. intros H. unfold assoc_mem in *. rewrite existsb_app, (IH H), orb_false_r.
  fold (assoc_mem (map (pre k) (to_map s)) (c :: n)). rewrite assoc_mem_pre, E. reflexivity.
Qed.

Lemma lookup_none_notin ch c : ~ In c (map fst ch) -> lookup ch c = None.
Proof.
  induction ch as [|[k s] r IH]; [reflexivity|]. cbn. intros H.
  destruct (str_eqb k c) eqn:E; [apply str_eqb_eq in E; subst; tauto|]. apply IH. tauto.
Qed.

Lemma go_map_get ch c n : NoDup (map fst ch) ->
  assoc_get (go_map ch) (c :: n) = match lookup ch c with Some s => assoc_get (to_map s) n | None => -1 end.
Proof.
  induction ch as [|[k s] r IH]; [reflexivity|]. cbn [map fst]. intros Hnd. inversion Hnd as [|? ? Hk Hr]; subst.
  cbn [go_map lookup]. rewrite assoc_get_app, assoc_mem_pre.
  destruct (str_eqb k c) eqn:E.
  - apply str_eqb_eq in E. subst k. cbn [andb]. destruct (assoc_mem (to_map s) n) eqn:Em.
    + apply assoc_get_pre.
    + rewrite (assoc_get_nomem _ _ Em). apply assoc_get_nomem, go_map_absent, lookup_none_notin. exact Hk.
  - cbn [andb]. apply IH. exact Hr.
Qed.

(** the association list and the trie agree on every name *)
Lemma to_map_gval n : forall t, wf t -> assoc_get (to_map t) n = gval t n.
Proof.
  induction n as [|c n IH]; intros t Hwf; inversion Hwf as [v ch Hv Hnd Hch]; subst; rewrite to_map_unfold, assoc_get_app.
  - cbn [gval tval]. unfold norm. destruct (0 <=? v); cbn; [reflexivity|].
    apply assoc_get_nomem, go_map_nil_key.
  - replace (assoc_mem (if 0 <=? v then [([], v)] else []) (c :: n)) with false by (destruct (0 <=? v); reflexivity).
    rewrite go_map_get by exact Hnd. cbn [gval tch].
    destruct (lookup ch c) as [s|] eqn:El; [|reflexivity]. apply IH.
    assert (Hin : exists k, In (k, s) ch).
    { clear -El. induction ch as [|[k s0] r IHr]; [discriminate|]. cbn in El.
      destruct (str_eqb k c); [injection El as ->; exists k; left; reflexivity|].
      destruct (IHr El) as [k' Hk']. exists k'. right. exact Hk'. }
    destruct Hin as [k Hk]. eapply Hch. exact Hk.
Qed.

(** ---- well-formedness is preserved ---- *)
Lemma upd_keys ch c x : map fst (upd ch c x) = if existsb (fun k => str_eqb k c) (map fst ch) then map fst ch else map fst ch ++ [c].
Proof.
  induction ch as [|[k s] r IH]; [reflexivity|]. cbn. destruct (str_eqb k c) eqn:E; cbn; [reflexivity|].
  rewrite IH. destruct (existsb (fun k0 : str => str_eqb k0 c) (map fst r)); reflexivity.
Qed.
Lemma upd_NoDup ch c x : NoDup (map fst ch) -> NoDup (map fst (upd ch c x)).
Proof.
  intros H. rewrite upd_keys. destruct (existsb (fun k : str => str_eqb k c) (map fst ch)) eqn:E; [exact H|].
  assert (Hn : ~ In c (map fst ch)).
  { intros Hin. assert (existsb (fun k : str => str_eqb k c) (map fst ch) = true); [|congruence].
    apply existsb_exists. exists c. split; [exact Hin|apply str_eqb_refl]. }
  clear E. induction (map fst ch) as [|a l IH]; cbn.
  - constructor; [tauto|constructor].
  - inversion H; subst. constructor.
    + rewrite in_app_iff. cbn. cbn in Hn. intuition congruence.
    + apply IH; [assumption|]. cbn in Hn. tauto.
Qed.
Lemma upd_In ch c x k s : In (k, s) (upd ch c x) -> In (k, s) ch \/ s = x.
Proof.
  induction ch as [|[k0 s0] r IH]; cbn.
  - intros [[= <- <-]|[]]. right. reflexivity.
  - destruct (str_eqb k0 c); cbn; intros [[= <- <-]|H]; auto. destruct (IH H); auto.
Qed.
Lemma del_keys_incl ch c : forall k, In k (map fst (del ch c)) -> In k (map fst ch).
Proof.
  induction ch as [|[k0 s0] r IH]; cbn; [tauto|]. intros k. destruct (str_eqb k0 c); cbn; intros H; [right; apply IH; exact H|].
  destruct H; [left; exact H|right; apply IH; exact H].
Qed.
Lemma del_NoDup ch c : NoDup (map fst ch) -> NoDup (map fst (del ch c)).
Proof.
  induction ch as [|[k0 s0] r IH]; cbn; [auto|]. intros H. inversion H; subst.
  destruct (str_eqb k0 c); cbn; [apply IH; assumption|]. constructor; [|apply IH; assumption].
  intros Hin. apply del_keys_incl in Hin. contradiction.
Qed.
Lemma del_In ch c k s : In (k, s) (del ch c) -> In (k, s) ch.
Proof.
  induction ch as [|[k0 s0] r IH]; cbn; [tauto|]. destruct (str_eqb k0 c); cbn; intros H; [right; apply IH; exact H|].
  destruct H; [left; exact H|right; apply IH; exact H].
Qed.
Lemma lookup_In ch c s : lookup ch c = Some s -> exists k, In (k, s) ch.
Proof.
  induction ch as [|[k s0] r IHr]; [discriminate|]. cbn. 
  destruct (str_eqb k c); [intros [= ->]; exists k; left; reflexivity|].
  intros H. destruct (IHr H) as [k' Hk']. exists k'. right. exact Hk'.
Qed.

Lemma wf_empty : wf empty_trie.
Proof. constructor; [lia|constructor|intros ? ? []]. Qed.

Lemma wf_set n : forall t v, wf t -> -1 <= v -> wf (set t n v).
Proof.
  induction n as [|c n IH]; intros t v Hwf Hv; inversion Hwf as [v0 ch Hv0 Hnd Hch]; subst; cbn [set tch tval].
  - constructor; assumption.
  - constructor; [assumption|apply upd_NoDup; assumption|].
    intros k s Hin. apply upd_In in Hin as [Hin| ->]; [eapply Hch; exact Hin|].
    apply IH; [|assumption]. destruct (lookup ch c) as [s0|] eqn:El; [|apply wf_empty].
    apply lookup_In in El as [k' Hk']. eapply Hch. exact Hk'.
Qed.

Lemma wf_remove_ne n : forall t first c t', wf t -> remove_ne t first c n = Ok (Some t') -> wf t'.
Proof.
  induction n as [|c' n IH]; intros t first c t' Hwf; inversion Hwf as [v0 ch Hv0 Hnd Hch]; subst; cbn [remove_ne tch tval];
    destruct (lookup ch c) as [s|] eqn:El; try discriminate.
  - assert (Hs : wf s) by (apply lookup_In in El as [k Hk]; eapply Hch; exact Hk).
    destruct (tch s) eqn:Es.
    + destruct (captures (Node v0 ch) first); intros [= <-].
      constructor; [assumption|apply del_NoDup; assumption|]. intros k x Hin. apply del_In in Hin. eapply Hch; exact Hin.
    + intros [= <-]. constructor; [assumption|apply upd_NoDup; assumption|].
      intros k x Hin. apply upd_In in Hin as [Hin| ->]; [eapply Hch; exact Hin|].
      inversion Hs; subst. cbn [tch] in *. rewrite <- Es. constructor; [lia|assumption|assumption].
  - assert (Hs : wf s) by (apply lookup_In in El as [k Hk]; eapply Hch; exact Hk).
    destruct (remove_ne s false c' n) as [[s'|]|e|] eqn:Er; try discriminate.
    + intros [= <-]. constructor; [assumption|apply upd_NoDup; assumption|].
      intros k x Hin. apply upd_In in Hin as [Hin| ->]; [eapply Hch; exact Hin|]. eapply IH; eauto.
    + destruct (captures (Node v0 ch) first); intros [= <-].
      constructor; [assumption|apply del_NoDup; assumption|]. intros k x Hin. apply del_In in Hin. eapply Hch; exact Hin.
Qed.

Lemma wf_remove t n t' b : wf t -> remove t n = Ok (t', b) -> wf t'.
Proof.
  intros Hwf. destruct n as [|c n]; cbn [remove].
  - intros [= <- _]. inversion Hwf; subst. cbn [tch]. constructor; [lia|assumption|assumption].
  - destruct (remove_ne t true c n) as [[t0|]|e|] eqn:Er; try discriminate. intros [= <- _].
    eapply wf_remove_ne; eauto.
Qed.

(** tries reachable from the empty one by Set (values >= 0) and successful Remove *)
Inductive reach : trie -> Prop :=
| reach_empty : reach empty_trie
| reach_set t n v : reach t -> 0 <= v -> reach (set t n v)
| reach_remove t n t' b : reach t -> remove t n = Ok (t', b) -> reach t'.

Lemma reach_wf t : reach t -> wf t.
Proof.
  induction 1; [apply wf_empty|apply wf_set; [assumption|lia]|eapply wf_remove; eauto].
Qed.
Lemma wf_tval t : wf t -> -1 <= tval t.
Proof. inversion 1; assumption. Qed.

(** ---- statements against the abstraction ---- *)
Lemma lpv_f_ext f g n : (forall p, f p = g p) -> lpv_f f n = lpv_f g n.
Proof.
  intros H. unfold lpv_f. rewrite (filter_ext _ (fun p => 0 <=? g p)) by (intros; rewrite H; reflexivity).
  destruct (filter _ _); [reflexivity|apply H].
Qed.
Lemma hasp_f_ext f g n : (forall p, f p = g p) -> hasp_f f n = hasp_f g n.
Proof.
  intros H. unfold hasp_f. induction (prefixes n) as [|p l IH]; [reflexivity|]. cbn. rewrite H, IH. reflexivity.
Qed.

Lemma assoc_get_filter_ne m n k : name_eqb n k = false ->
  assoc_get (filter (fun e => negb (name_eqb (fst e) n)) m) k = assoc_get m k.
Proof.
  intros Hne. induction m as [|[a v] m IH]; [reflexivity|]. cbn [filter fst].
  destruct (name_eqb a n) eqn:E; cbn [negb].
  - apply name_eqb_eq in E. subst a. cbn [assoc_get]. rewrite Hne. exact IH.
  - cbn [assoc_get]. rewrite IH. reflexivity.
Qed.
Lemma assoc_get_filter_eq m n :
  assoc_get (filter (fun e => negb (name_eqb (fst e) n)) m) n = -1.
Proof.
  induction m as [|[a v] m IH]; [reflexivity|]. cbn [filter fst].
  destruct (name_eqb a n) eqn:E; cbn [negb]; [exact IH|]. cbn [assoc_get]. rewrite E. exact IH.
Qed.
Lemma assoc_get_set m n v k : assoc_get (assoc_set m n v) k = if name_eqb n k then v else assoc_get m k.
Proof.
  unfold assoc_set. cbn [assoc_get]. destruct (name_eqb n k) eqn:E; [reflexivity|]. apply assoc_get_filter_ne. exact E.
Qed.
Lemma assoc_get_remove m n k : assoc_get (assoc_remove m n) k = if name_eqb n k then -1 else assoc_get m k.
Proof.
  unfold assoc_remove. destruct (name_eqb n k) eqn:E.
  - apply name_eqb_eq in E. subst k. apply assoc_get_filter_eq.
  - apply assoc_get_filter_ne. exact E.
Qed.

Lemma get_exact_to_map t n : reach t -> get_exact t n = assoc_get (to_map t) n.
Proof.
  intros H. apply reach_wf in H. rewrite to_map_gval by exact H. apply get_exact_gval_wf, wf_tval, H.
Qed.
Lemma glp_to_map t n : reach t -> get_longest_prefix t n = longest_prefix_value (to_map t) n.
Proof.
  intros H. apply reach_wf in H. rewrite glp_gval by (apply wf_tval, H).
  unfold longest_prefix_value. apply lpv_f_ext. intros p. symmetry. apply to_map_gval, H.
Qed.
Lemma contains_prefix_to_map t n : reach t -> contains_prefix t n = has_prefix (to_map t) n.
Proof.
  intros H. apply reach_wf in H. rewrite contains_prefix_gval.
  unfold has_prefix. apply hasp_f_ext. intros p. symmetry. apply to_map_gval, H.
Qed.
Lemma contains_exact_to_map t n : reach t -> contains_exact t n = (0 <=? assoc_get (to_map t) n).
Proof. intros H. unfold contains_exact. rewrite get_exact_to_map by exact H. reflexivity. Qed.

Lemma set_to_map t n v : reach t -> 0 <= v ->
  forall m, assoc_get (to_map (set t n v)) m = assoc_get (assoc_set (to_map t) n v) m.
Proof.
  intros H Hv m. assert (Hr : reach (set t n v)) by (constructor; assumption).
  rewrite (to_map_gval m _ (reach_wf _ Hr)), gval_set, assoc_get_set, (to_map_gval m _ (reach_wf _ H)), norm_nonneg by exact Hv.
  reflexivity.
Qed.

Lemma is_empty_root_gval t : is_empty_root t = true -> forall m, gval t m = -1.
Proof.
  unfold is_empty_root. intros H. apply andb_true_iff in H as [Hv Hc]. apply Z.ltb_lt in Hv.
  intros [|c m]; cbn.
  - unfold norm. destruct (0 <=? tval t) eqn:E; [apply Z.leb_le in E; lia|reflexivity].
  - destruct (tch t); [reflexivity|discriminate].
Qed.

(** Remove of a registered name: succeeds (no nil dereference), deletes
    exactly that name; a [true] result means the trie is empty. *)
Lemma remove_to_map t n : reach t -> 0 <= assoc_get (to_map t) n ->
  exists t' b, remove t n = Ok (t', b) /\
    (forall m, assoc_get (to_map t') m = assoc_get (assoc_remove (to_map t) n) m) /\
    (b = true -> forall m, assoc_get (to_map t') m = -1).
Proof.
  intros H Hreg. rewrite (to_map_gval n _ (reach_wf _ H)) in Hreg.
  destruct (remove_gval t n (or_intror Hreg)) as [t' [b [Hr [_ [Hg Hb]]]]].
  exists t', b. split; [exact Hr|].
  assert (Hr' : reach t') by (econstructor; eauto).
  split.
  - intros m. rewrite (to_map_gval m _ (reach_wf _ Hr')), Hg, assoc_get_remove, (to_map_gval m _ (reach_wf _ H)). reflexivity.
  - intros -> m. rewrite (to_map_gval m _ (reach_wf _ Hr')). apply is_empty_root_gval. symmetry. exact Hb.
Qed.

Lemma lpv_assoc_longest (m : list (list comp * Z)) n :
  (exists p, is_prefix p n = true /\ 0 <= assoc_get m p /\ longest_prefix_value m n = assoc_get m p /\
             forall q, is_prefix q n = true -> 0 <= assoc_get m q -> (length q <= length p)%nat)
  \/ (longest_prefix_value m n = -1 /\ forall q, is_prefix q n = true -> assoc_get m q < 0).
Proof. apply lpv_f_spec. Qed.
