(** C19 — proofs about the hierarchical-instance-names decorator model. *)
From Coq Require Import List ZArith NArith Bool Arith Lia.
From BBS Require Import Routing.Names Routing.NamesProofs Routing.HierNames.
Import ListNotations.
Open Scope Z_scope.

(** ---- join (split s) = s for every string ---- *)
Lemma split_aux_nonempty cur s : split_aux cur s <> [].
Proof. revert cur; induction s as [|b s IH]; intros cur; cbn; [discriminate|]. destruct (N.eqb b slash); [discriminate|apply IH]. Qed.

Lemma join_cons_ne c n : n <> [] -> join (c :: n) = c ++ slash :: join n.
Proof. destruct n; [congruence|reflexivity]. Qed.

Lemma join_split_aux cur s : join (split_aux cur s) = rev cur ++ s.
Proof.
  revert cur; induction s as [|b s IH]; intros cur; cbn [split_aux].
  - cbn. rewrite app_nil_r. reflexivity.
  - destruct (N.eqb b slash) eqn:E.
    + apply N.eqb_eq in E. subst b. rewrite join_cons_ne by apply split_aux_nonempty.
      rewrite IH. reflexivity.
    + rewrite IH. cbn [rev]. rewrite <- app_assoc. reflexivity.
Qed.
Lemma join_split s : join (split s) = s.
Proof. destruct s; [reflexivity|]. unfold split. apply join_split_aux. Qed.

(** ---- ancestors ---- *)
Lemma prefixes_last n : exists l, prefixes n = l ++ [n].
Proof.
  induction n as [|c n [l IH]]; [exists []; reflexivity|].
  cbn. rewrite IH, map_app. exists ([] :: map (cons c) l). reflexivity.
Qed.
Lemma parents_of_last d : exists l, parents_of d = l ++ [d].
Proof.
  unfold parents_of. destruct (prefixes_last (split (fst d))) as [l ->].
  rewrite map_app. cbn. rewrite join_split. destruct d; eexists; reflexivity.
Qed.
Lemma parents_of_self d : In d (parents_of d).
Proof. destruct (parents_of_last d) as [l ->]. apply in_or_app. right. left. reflexivity. Qed.
Lemma parents_of_nonempty d : parents_of d <> [].
Proof. destruct (parents_of_last d) as [l ->]. destruct l; discriminate. Qed.

(** ---- Get ---- *)
Section GetProofs.
  Context {D : Type}.
  Variable get : digest -> outcome D.

  Lemma hier_get_chain_spec chain asked :
    chain <> [] -> (forall a, In a chain -> get a <> Panic) ->
    fst (hier_get_chain get chain asked) = first_answer get chain.
  Proof.
    revert asked; induction chain as [|a r IH]; intros asked Hne Hnp; [congruence|].
    cbn [hier_get_chain first_answer].
    destruct (get a) as [x|e|] eqn:Eg; [reflexivity| |exfalso; eapply Hnp; [left; reflexivity|exact Eg]].
    destruct (e =? NOT_FOUND) eqn:Ee; cbn [negb]; [|reflexivity].
    destruct r as [|b r]; [cbn; apply Z.eqb_eq in Ee; subst; reflexivity|].
    apply IH; [discriminate|]. intros x Hx. apply Hnp. right. exact Hx.
  Qed.

  (** the digests asked are a prefix of the chain, most specific first *)
  Lemma hier_get_chain_asked chain asked :
    exists k, snd (hier_get_chain get chain asked) = asked ++ firstn k chain.
  Proof.
    revert asked; induction chain as [|a r IH]; intros asked; cbn [hier_get_chain].
    - exists O. cbn. rewrite app_nil_r. reflexivity.
    - destruct (get a) as [x|e|]; try (exists 1%nat; reflexivity).
      destruct (negb (e =? NOT_FOUND)); [exists 1%nat; reflexivity|].
      destruct r as [|b r]; [exists 1%nat; reflexivity|].
      destruct (IH (asked ++ [a])) as [k Hk]. exists (S k). rewrite Hk, <- app_assoc. reflexivity.
  Qed.

  Lemma first_answer_found pre a post x :
    (forall b, In b pre -> get b = Err NOT_FOUND) -> get a = Ok x ->
    first_answer get (pre ++ a :: post) = Ok x.
  Proof.
    induction pre as [|b pre IH]; intros Hpre Ha; cbn.
    - rewrite Ha. reflexivity.
    - rewrite (Hpre b) by (left; reflexivity). cbn. apply IH; auto. intros; apply Hpre; right; auto.
  Qed.
  Lemma first_answer_error pre a post e :
    (forall b, In b pre -> get b = Err NOT_FOUND) -> get a = Err e -> e <> NOT_FOUND ->
    first_answer get (pre ++ a :: post) = Err e.
  Proof.
    induction pre as [|b pre IH]; intros Hpre Ha He; cbn.
    - rewrite Ha. destruct (e =? NOT_FOUND) eqn:E; [apply Z.eqb_eq in E; contradiction|reflexivity].
    - rewrite (Hpre b) by (left; reflexivity). cbn. apply IH; auto. intros; apply Hpre; right; auto.
  Qed.
  Lemma first_answer_not_found chain :
    (forall b, In b chain -> get b <> Panic) ->
    (first_answer get chain = Err NOT_FOUND <-> forall b, In b chain -> get b = Err NOT_FOUND).
  Proof.
    induction chain as [|a r IH]; intros Hnp; cbn.
    - split; [intros _ b []|reflexivity].
    - assert (Hr : forall b, In b r -> get b <> Panic) by (intros; apply Hnp; right; auto).
      destruct (get a) as [x|e|] eqn:Ea.
      + split; [discriminate|]. intros H. specialize (H a (or_introl eq_refl)). congruence.
      + destruct (e =? NOT_FOUND) eqn:E.
        * apply Z.eqb_eq in E. subst e. rewrite (IH Hr). split.
          -- intros H b [<-|Hb]; auto.
          -- intros H b Hb. apply H. right. exact Hb.
        * apply Z.eqb_neq in E. split; [intros [= ->]; contradiction|].
          intros H. specialize (H a (or_introl eq_refl)). congruence.
      + exfalso. eapply Hnp; [left; reflexivity|exact Ea].
  Qed.
End GetProofs.

Lemma hier_get_first_answer (D : Type) (get : digest -> outcome D) d :
  (forall a, get a <> Panic) ->
  fst (hier_get get d) = first_answer get (rev (parents_of d)).
Proof.
  intros H. apply hier_get_chain_spec.
  - intros E. apply (f_equal (@rev _)) in E. rewrite rev_involutive in E. exact (parents_of_nonempty d E).
  - intros a _. apply H.
Qed.

(** ---- FindMissing ---- *)
Lemma swap_in_In x rest : In x (swap_in rest) <-> In x rest.
Proof.
  destruct rest as [|e r]; [reflexivity|]. unfold swap_in.
  assert (Hne : e :: r <> []) by discriminate.
  rewrite (app_removelast_last (([], 0%N), []) Hne) at 3.
  cbn [In]. rewrite in_app_iff. cbn [In]. tauto.
Qed.
Lemma removelast_len {X} (l : list X) : l <> [] -> S (length (removelast l)) = length l.
Proof.
  induction l as [|a l IH]; [congruence|]. intros _. destruct l as [|b l]; [reflexivity|].
  change (removelast (a :: b :: l)) with (a :: removelast (b :: l)). cbn [length]. f_equal. apply IH. discriminate.
Qed.
Lemma swap_in_length rest : length (swap_in rest) = length rest.
Proof.
  destruct rest as [|e r]; [reflexivity|]. unfold swap_in. cbn [length].
  apply (removelast_len (e :: r)). discriminate.
Qed.

Definition miss (missing : list digest) (e : wentry) : bool := dg_mem (last_parent e) missing.
Definition more (e : wentry) : bool := Nat.ltb 1 (length (snd e)).
Definition trim (e : wentry) : wentry := (fst e, removelast (snd e)).

Definition Pw (missing : list digest) (todo : list wentry) (x : wentry) : Prop :=
  exists e, In e todo /\ miss missing e = true /\ more e = true /\ x = trim e.
Definition Pf (missing : list digest) (todo : list wentry) (d : digest) : Prop :=
  exists e, In e todo /\ miss missing e = true /\ more e = false /\ d = fst e.

Lemma Pw_nil ms x : Pw ms [] x <-> False.
Proof. split; [intros [e [[] _]]|tauto]. Qed.
Lemma Pf_nil ms x : Pf ms [] x <-> False.
Proof. split; [intros [e [[] _]]|tauto]. Qed.
Lemma Pw_cons ms e rest x :
  Pw ms (e :: rest) x <-> (miss ms e = true /\ more e = true /\ x = trim e) \/ Pw ms rest x.
Proof.
  split.
  - intros [e' [[<-|H] Hr]]; [left; exact Hr|right; exists e'; auto].
  - intros [H|[e' [H Hr]]]; [exists e; split; [left; reflexivity|exact H]|exists e'; split; [right; exact H|exact Hr]].
Qed.
Lemma Pf_cons ms e rest x :
  Pf ms (e :: rest) x <-> (miss ms e = true /\ more e = false /\ x = fst e) \/ Pf ms rest x.
Proof.
  split.
  - intros [e' [[<-|H] Hr]]; [left; exact Hr|right; exists e'; auto].
  - intros [H|[e' [H Hr]]]; [exists e; split; [left; reflexivity|exact H]|exists e'; split; [right; exact H|exact Hr]].
Qed.
Lemma Pw_swap ms rest x : Pw ms (swap_in rest) x <-> Pw ms rest x.
Proof. split; intros [e [H Hr]]; exists e; (split; [apply swap_in_In; exact H|exact Hr]) || (split; [apply swap_in_In in H; exact H|exact Hr]). Qed.
Lemma Pf_swap ms rest x : Pf ms (swap_in rest) x <-> Pf ms rest x.
Proof. split; intros [e [H Hr]]; exists e; (split; [apply swap_in_In; exact H|exact Hr]) || (split; [apply swap_in_In in H; exact H|exact Hr]). Qed.

Lemma scan_spec missing : forall fuel done todo final w f,
  (length todo <= fuel)%nat ->
  scan fuel missing done todo final = (w, f) ->
  (forall x, In x w <-> In x done \/ Pw missing todo x)
  /\ (forall d, In d f <-> In d final \/ Pf missing todo d).
Proof.
  induction fuel as [|fuel IH]; intros done todo final w f Hl H.
  - destruct todo; [|cbn in Hl; lia]. cbn in H. injection H as <- <-. rewrite app_nil_r.
    split; intros x; rewrite ?Pw_nil, ?Pf_nil; tauto.
  - cbn [scan] in H. destruct todo as [|e rest].
    + injection H as <- <-. split; intros x; rewrite ?Pw_nil, ?Pf_nil; tauto.
    + cbn [length] in Hl. fold (miss missing e) in H. fold (more e) in H.
      destruct (miss missing e) eqn:Em; cbn [negb] in H.
      * destruct (more e) eqn:Eo.
        -- apply IH in H; [|lia]. destruct H as [H1 H2]. fold (trim e) in H1. split.
           ++ intros x. rewrite H1, in_app_iff, Pw_cons. cbn [In]. intuition congruence.
           ++ intros d. rewrite H2, Pf_cons. intuition congruence.
        -- apply IH in H; [|rewrite swap_in_length; lia]. destruct H as [H1 H2]. split.
           ++ intros x. rewrite H1, Pw_swap, Pw_cons. intuition congruence.
           ++ intros d. rewrite H2, in_app_iff, Pf_swap, Pf_cons. cbn [In]. intuition congruence.
      * apply IH in H; [|rewrite swap_in_length; lia]. destruct H as [H1 H2]. split.
        -- intros x. rewrite H1, Pw_swap, Pw_cons. intuition congruence.
        -- intros d. rewrite H2, Pf_swap, Pf_cons. intuition congruence.
Qed.

Definition maxlen (work : list wentry) : nat := fold_right Nat.max O (map (fun e => length (snd e)) work).
Lemma maxlen_ge work e : In e work -> (length (snd e) <= maxlen work)%nat.
Proof.
  unfold maxlen. induction work as [|x work IH]; [intros []|]. intros [<-|H]; cbn; [lia|]. specialize (IH H). lia.
Qed.
Lemma maxlen_le work b : (forall e, In e work -> (length (snd e) <= b)%nat) -> (maxlen work <= b)%nat.
Proof.
  unfold maxlen. induction work as [|x work IH]; intros H; cbn; [lia|].
  pose proof (H x (or_introl eq_refl)). specialize (IH (fun e He => H e (or_intror He))). lia.
Qed.

Section Honest.
  (** a backend whose contents do not change during the operation *)
  Variable present : digest -> bool.
  Definition honest_fm (k : nat) (q : list digest) : outcome (list digest) :=
    Ok (filter (fun d => negb (present d)) q).

  Definition resolve (e : wentry) : bool := forallb (fun a => negb (present a)) (snd e).

  Lemma resolve_split e : snd e <> [] ->
    resolve e = negb (present (last_parent e)) && resolve (trim e).
  Proof.
    intros Hne. unfold resolve, last_parent, trim. cbn [snd].
    rewrite (app_removelast_last (fst e) Hne) at 1. rewrite forallb_app. cbn. rewrite andb_true_r. apply andb_comm.
  Qed.
  Lemma resolve_trim_nomore e : snd e <> [] -> more e = false -> resolve (trim e) = true.
  Proof.
    unfold more, resolve, trim. intros Hne Hm. apply Nat.ltb_ge in Hm. cbn [snd].
    destruct (snd e) as [|a [|b l]]; [congruence|reflexivity|cbn in Hm; lia].
  Qed.

  Lemma levels_spec : forall fuel k work final asked,
    (forall e, In e work -> snd e <> []) ->
    (maxlen work < fuel)%nat ->
    exists res asked', levels honest_fm fuel k work final asked = (Ok res, asked') /\
      forall d, In d res <-> In d final \/ exists e, In e work /\ resolve e = true /\ d = fst e.
  Proof.
    induction fuel as [|fuel IH]; intros k work final asked Hne Hlen; [lia|].
    destruct work as [|e0 work0].
    - cbn. eexists _, _. split; [reflexivity|]. intros d. rewrite canon_In.
      split; [auto|]. intros [H|[e [[] _]]]; exact H.
    - remember (e0 :: work0) as work eqn:Ew.
      assert (Hlv : levels honest_fm (S fuel) k work final asked =
              let q := canon (map last_parent work) in
              let '(work', final') := scan (length work) (filter (fun d => negb (present d)) q) [] work final in
              levels honest_fm fuel (S k) work' final' (asked ++ [q])).
      { subst work. reflexivity. }
      rewrite Hlv. clear Hlv. cbv zeta.
      set (missing := filter (fun d => negb (present d)) (canon (map last_parent work))).
      destruct (scan (length work) missing [] work final) as [w' f'] eqn:Es.
      apply scan_spec in Es; [|apply Nat.le_refl]. destruct Es as [H1 H2].
      assert (Hmiss : forall e, In e work -> miss missing e = negb (present (last_parent e))).
      { intros e He. unfold miss, missing.
        destruct (present (last_parent e)) eqn:Ep; cbn [negb].
        - destruct (dg_mem _ _) eqn:Em; [|reflexivity]. apply dg_mem_In, filter_In in Em as [_ Em].
          rewrite Ep in Em. discriminate.
        - apply dg_mem_In, filter_In. split; [|rewrite Ep; reflexivity].
          apply canon_In, in_map. exact He. }
      assert (Hw' : forall x, In x w' -> exists e, In e work /\ miss missing e = true /\ more e = true /\ x = trim e).
      { intros x Hx. apply H1 in Hx as [[]|Hx]. exact Hx. }
      destruct (IH (S k) w' f' (asked ++ [canon (map last_parent work)])) as [res [asked' [Hr Hres]]].
      + intros x Hx. destruct (Hw' x Hx) as [e [He [_ [Hm ->]]]]. unfold trim, more in *. cbn [snd].
        apply Nat.ltb_lt in Hm. destruct (snd e) as [|a [|b l]]; cbn in Hm; try lia. discriminate.
      + assert (Hge : (1 <= maxlen work)%nat).
        { assert (Hin : In e0 work) by (subst work; left; reflexivity).
          pose proof (maxlen_ge work e0 Hin) as G. pose proof (Hne e0 Hin) as G2.
          destruct (snd e0); [congruence|]. cbn [length] in G. lia. }
        assert (maxlen w' <= pred (maxlen work))%nat; [|lia].
        apply maxlen_le. intros x Hx. destruct (Hw' x Hx) as [e [He [_ [Hm ->]]]].
        pose proof (maxlen_ge _ _ He). unfold trim, more in *. cbn [snd]. apply Nat.ltb_lt in Hm.
        assert (Hn : snd e <> []) by (destruct (snd e); [cbn in Hm; lia|discriminate]).
        pose proof (removelast_len (snd e) Hn). lia.
      + exists res, asked'. split; [exact Hr|]. intros d. rewrite Hres, H2. split.
        * intros [[Hd|[e [He [Hm [Ho ->]]]]]|[x [Hx [Hrx ->]]]]; [left; exact Hd| |].
          -- right. exists e. split; [exact He|]. split; [|reflexivity].
             rewrite resolve_split by auto. rewrite <- (Hmiss e He), Hm. cbn. apply resolve_trim_nomore; auto.
          -- destruct (Hw' x Hx) as [e [He [Hm [Ho ->]]]]. right. exists e. split; [exact He|]. split; [|reflexivity].
             rewrite resolve_split by auto. rewrite <- (Hmiss e He), Hm. cbn. exact Hrx.
        * intros [Hd|[e [He [Hre ->]]]]; [left; left; exact Hd|].
          rewrite resolve_split in Hre by auto. apply andb_true_iff in Hre as [Hp Ht].
          rewrite <- (Hmiss e He) in Hp.
          destruct (more e) eqn:Eo.
          -- right. exists (trim e). split; [|split; [exact Ht|reflexivity]].
             apply H1. right. exists e. auto.
          -- left. right. exists e. auto.
  Qed.

  Lemma classify_spec : forall ms work final w f,
    classify ms work final = (w, f) ->
    (forall e, In e w <-> In e work \/ exists d, In d ms /\ (1 < length (parents_of d))%nat /\ e = (d, removelast (parents_of d)))
    /\ (forall d, In d f <-> In d final \/ (In d ms /\ (length (parents_of d) <= 1)%nat)).
  Proof.
    induction ms as [|d ms IH]; intros work final w f H; cbn [classify] in H.
    - injection H as <- <-. split; intros x; split; auto; intros [H|H]; auto; [destruct H as [d [[] _]]|destruct H as [[] _]].
    - destruct (Nat.ltb 1 (length (parents_of d))) eqn:E; apply IH in H as [H1 H2]; split; intros x.
      + apply Nat.ltb_lt in E. rewrite H1, in_app_iff. cbn [In]. split.
        * intros [[H|[<-|[]]]|[d' [Hd' Hr]]]; auto.
          -- right. exists d. auto.
          -- right. exists d'. split; [right; exact Hd'|exact Hr].
        * intros [H|[d' [[<-|Hd'] [Hl ->]]]]; auto. right. exists d'. auto.
      + apply Nat.ltb_lt in E. rewrite H2. cbn [In]. split.
        * intros [H|[H Hl]]; auto.
        * intros [H|[[<-|H] Hl]]; auto. lia.
      + rewrite H1. cbn [In]. split.
        * intros [H|[d' [Hd' Hr]]]; auto. right. exists d'. split; [right; exact Hd'|exact Hr].
        * apply Nat.ltb_ge in E. intros [H|[d' [[<-|Hd'] [Hl ->]]]]; auto; [lia|]. right. exists d'. auto.
      + apply Nat.ltb_ge in E. rewrite H2, in_app_iff. cbn [In]. split.
        * intros [[H|[<-|[]]]|[H Hl]]; auto.
        * intros [H|[[<-|H] Hl]]; auto.
  Qed.

  (** FindMissing of the decorator over a stable backend: a digest is reported
      missing exactly when it is missing under its name and all ancestors;
      the work-list loop terminates (no [Panic] from running out of fuel). *)
  Lemma hier_fm_honest ds :
    exists res asked, hier_fm honest_fm ds = (Ok res, asked) /\
      forall d, In d res <-> In d ds /\ forall a, In a (parents_of d) -> present a = false.
  Proof.
    unfold hier_fm. cbn [honest_fm].
    set (ms := canon (filter (fun d => negb (present d)) (canon ds))).
    destruct (classify ms [] []) as [work final] eqn:Ec.
    apply classify_spec in Ec as [H1 H2].
    assert (Hms : forall d, In d ms <-> In d ds /\ present d = false).
    { intros d. unfold ms. rewrite canon_In, filter_In, canon_In. rewrite negb_true_iff. tauto. }
    destruct (levels_spec (S (maxlen work)) 1%nat work final [canon ds]) as [res [asked [Hr Hres]]].
    - intros e He. apply H1 in He as [[]|[d [_ [Hl ->]]]]. cbn [snd].
      destruct (parents_of d) as [|a [|b l]]; cbn in Hl; try lia. discriminate.
    - lia.
    - exists res, asked. split; [exact Hr|]. intros d. rewrite Hres, H2. split.
      + intros [[[]|[Hd Hl]]|[e [He [Hre ->]]]].
        * apply Hms in Hd as [Hd Hp]. split; [exact Hd|]. intros a Ha.
          destruct (parents_of_last d) as [l El]. rewrite El in Ha, Hl.
          destruct l; [|rewrite app_length in Hl; cbn in Hl; lia].
          destruct Ha as [<-|[]]. exact Hp.
        * apply H1 in He as [[]|[d [Hd [Hl ->]]]]. cbn [fst]. apply Hms in Hd as [Hd Hp].
          split; [exact Hd|]. intros a Ha.
          destruct (parents_of_last d) as [l El]. rewrite El in Ha. unfold resolve in Hre. cbn [snd] in Hre.
          rewrite El, removelast_last in Hre. apply in_app_iff in Ha as [Ha|[<-|[]]]; [|exact Hp].
          rewrite forallb_forall in Hre. apply Hre in Ha. apply negb_true_iff in Ha. exact Ha.
      + intros [Hd Hall].
        assert (Hp : present d = false) by (apply Hall, parents_of_self).
        destruct (Nat.ltb 1 (length (parents_of d))) eqn:E.
        * apply Nat.ltb_lt in E. right. exists (d, removelast (parents_of d)). split; [|split; [|reflexivity]].
          -- apply H1. right. exists d. split; [apply Hms; auto|auto].
          -- unfold resolve. cbn [snd]. apply forallb_forall. intros a Ha. apply negb_true_iff, Hall.
             destruct (parents_of_last d) as [l El]. rewrite El, removelast_last in Ha. rewrite El. apply in_or_app. left. exact Ha.
        * apply Nat.ltb_ge in E. left. right. split; [apply Hms; auto|exact E].
  Qed.
End Honest.

(** ---- termination for ANY backend behaviour (errors, inconsistent answers) ---- *)
Lemma classify_nonempty : forall ms work final w f,
  classify ms work final = (w, f) -> (forall e, In e work -> snd e <> []) -> forall e, In e w -> snd e <> [].
Proof.
  induction ms as [|d ms IH]; intros work final w f H Hw; cbn [classify] in H.
  - injection H as <- <-. exact Hw.
  - destruct (Nat.ltb 1 (length (parents_of d))) eqn:E; [|eapply IH; eauto].
    eapply IH; [exact H|]. intros e He. apply in_app_iff in He as [He|[<-|[]]]; [apply Hw; exact He|].
    cbn [snd]. apply Nat.ltb_lt in E. destruct (parents_of d) as [|a [|b l]]; cbn in E; try lia. discriminate.
Qed.

Lemma levels_no_panic (fm : nat -> list digest -> outcome (list digest)) :
  (forall k q, fm k q <> Panic) ->
  forall fuel k work final asked,
    (forall e, In e work -> snd e <> []) -> (maxlen work < fuel)%nat ->
    fst (levels fm fuel k work final asked) <> Panic.
Proof.
  intros Hfm. induction fuel as [|fuel IH]; intros k work final asked Hne Hlen; [lia|].
  destruct work as [|e0 work0]; [cbn; discriminate|].
  remember (e0 :: work0) as work eqn:Ew.
  assert (Hlv : levels fm (S fuel) k work final asked =
          let q := canon (map last_parent work) in
          match fm k q with
          | Err e => (Err e, asked ++ [q])
          | Panic => (Panic, asked ++ [q])
          | Ok missing =>
              let '(work', final') := scan (length work) missing [] work final in
              levels fm fuel (S k) work' final' (asked ++ [q])
          end).
  { subst work. reflexivity. }
  rewrite Hlv. clear Hlv. cbv zeta.
  destruct (fm k (canon (map last_parent work))) as [missing|e|] eqn:Ef; [|cbn; discriminate|exfalso; eapply Hfm; exact Ef].
  destruct (scan (length work) missing [] work final) as [w' f'] eqn:Es.
  apply scan_spec in Es; [|apply Nat.le_refl]. destruct Es as [H1 _].
  assert (Hw' : forall x, In x w' -> exists e, In e work /\ more e = true /\ x = trim e).
  { intros x Hx. apply H1 in Hx as [[]|[e [He [_ [Hm Hx]]]]]. eauto. }
  apply IH.
  - intros x Hx. destruct (Hw' x Hx) as [e [He [Hm ->]]]. unfold trim, more in *. cbn [snd].
    apply Nat.ltb_lt in Hm. destruct (snd e) as [|a [|b l]]; cbn in Hm; try lia. discriminate.
  - assert (Hge : (1 <= maxlen work)%nat).
    { assert (Hin : In e0 work) by (subst work; left; reflexivity).
      pose proof (maxlen_ge work e0 Hin) as G. pose proof (Hne e0 Hin) as G2.
      destruct (snd e0); [congruence|]. cbn [length] in G. lia. }
    assert (maxlen w' <= pred (maxlen work))%nat; [|lia].
    apply maxlen_le. intros x Hx. destruct (Hw' x Hx) as [e [He [Hm ->]]].
    pose proof (maxlen_ge _ _ He). unfold trim, more in *. cbn [snd]. apply Nat.ltb_lt in Hm.
    assert (Hn : snd e <> []) by (destruct (snd e); [cbn in Hm; lia|discriminate]).
    pose proof (removelast_len (snd e) Hn). lia.
Qed.

(** whatever the backend answers (errors, answers changing between calls), the
    work-list loop of FindMissing terminates within the fuel *)
Lemma hier_fm_no_panic (fm : nat -> list digest -> outcome (list digest)) ds :
  (forall k q, fm k q <> Panic) -> fst (hier_fm fm ds) <> Panic.
Proof.
  intros Hfm. unfold hier_fm. destruct (fm O (canon ds)) as [m0|e|] eqn:E0; [|cbn; discriminate|exfalso; eapply Hfm; exact E0].
  destruct (classify (canon m0) [] []) as [work final] eqn:Ec.
  apply levels_no_panic; [exact Hfm| |unfold maxlen; lia].
  eapply classify_nonempty; [exact Ec|intros ? []].
Qed.
