(** C19 — strings, instance names as component lists, digests, canonical sets.
    Definitions only (lemmas: NamesProofs.v).

    A string is a list of bytes ([N]); an instance name is handled by the code
    both as a string ("a/b/c", the empty string for the empty name) and as its
    list of pathname components; [join] / [split] relate the two. *)
From Coq Require Import List ZArith NArith Bool Arith.
Import ListNotations.

Definition str := list N.
Definition comp := str.
Notation name := (list comp) (only parsing).
Definition slash : N := 47%N.

Fixpoint str_eqb (a b : str) : bool :=
  match a, b with
  | [], [] => true
  | x :: a', y :: b' => N.eqb x y && str_eqb a' b'
  | _, _ => false
  end.

Fixpoint name_eqb (a b : name) : bool :=
  match a, b with
  | [], [] => true
  | x :: a', y :: b' => str_eqb x y && name_eqb a' b'
  | _, _ => false
  end.

(** "a/b/c" from ["a";"b";"c"]; "" from []. *)
Fixpoint join (n : name) : str :=
  match n with
  | [] => []
  | [c] => c
  | c :: n' => c ++ slash :: join n'
  end.

(** The code's splitting (repeated [strings.IndexByte(in, '/')], the empty
    string being special-cased as "no components"): [split_aux cur s] scans [s]
    with [cur] the reversed bytes of the component being read. *)
Fixpoint split_aux (cur : str) (s : str) : name :=
  match s with
  | [] => [rev cur]
  | b :: s' => if N.eqb b slash then rev cur :: split_aux [] s' else split_aux (b :: cur) s'
  end.
Definition split (s : str) : name :=
  match s with [] => [] | _ => split_aux [] s end.

(** Well-formed instance names (what [digest.NewInstanceName] lets through, as
    far as routing is concerned): every component non-empty and slash-free. *)
Definition comp_ok (c : comp) : bool :=
  negb (match c with [] => true | _ => false end) && forallb (fun b => negb (N.eqb b slash)) c.
Definition name_ok (n : name) : bool := forallb comp_ok n.

(** Component-wise prefix. *)
Fixpoint is_prefix (p n : name) : bool :=
  match p, n with
  | [], _ => true
  | c :: p', d :: n' => str_eqb c d && is_prefix p' n'
  | _ :: _, [] => false
  end.

(** Byte-wise (string) prefix — what component-wise prefix must NOT be confused with. *)
Fixpoint str_prefix (p s : str) : bool :=
  match p, s with
  | [], _ => true
  | x :: p', y :: s' => N.eqb x y && str_prefix p' s'
  | _ :: _, [] => false
  end.

(** All prefixes of a name, shortest first: [] ; [a] ; [a;b] ; ... *)
Fixpoint prefixes (n : name) : list name :=
  match n with
  | [] => [[]]
  | c :: n' => [] :: map (cons c) (prefixes n')
  end.

(** Outcomes of operations: a value, a gRPC status code, or a Go panic. *)
Inductive outcome (A : Type) : Type :=
| Ok (a : A)
| Err (code : Z)
| Panic.
Arguments Ok {A} a.
Arguments Err {A} code.
Arguments Panic {A}.

Definition INVALID_ARGUMENT : Z := 3%Z.
Definition NOT_FOUND : Z := 5%Z.

(** A digest: instance name (as the string the code stores) and the identity
    of the blob (function, hash, size — opaque here; C20 covers the packing). *)
Definition digest := (str * N)%type.
Definition dg_eqb (a b : digest) : bool := str_eqb (fst a) (fst b) && N.eqb (snd a) (snd b).
Definition dg_mem (d : digest) (l : list digest) : bool := existsb (dg_eqb d) l.

(** Canonical form of a digest set (digest.Set is sorted and duplicate-free;
    the order itself is C20's business): sort by (blob, name bytes). *)
Fixpoint str_leb (a b : str) : bool :=
  match a, b with
  | [], _ => true
  | _ :: _, [] => false
  | x :: a', y :: b' => if N.ltb x y then true else if N.eqb x y then str_leb a' b' else false
  end.
Definition dg_leb (a b : digest) : bool :=
  if N.ltb (snd a) (snd b) then true
  else if N.eqb (snd a) (snd b) then str_leb (fst a) (fst b) else false.
Fixpoint dg_insert (d : digest) (l : list digest) : list digest :=
  match l with
  | [] => [d]
  | h :: t => if dg_eqb d h then l else if dg_leb d h then d :: l else h :: dg_insert d t
  end.
Definition canon (l : list digest) : list digest := fold_right dg_insert [] l.
