(** C19 — lemmas about strings, names, join/split, canonical digest sets. *)
From Coq Require Import List ZArith NArith Bool Arith Lia.
From BBS Require Import Routing.Names.
Import ListNotations.

Lemma str_eqb_eq a b : str_eqb a b = true <-> a = b.
Proof.
  revert b; induction a as [|x a IH]; destruct b as [|y b]; cbn; try (split; congruence).
  rewrite andb_true_iff, N.eqb_eq, IH. split; [intros [-> ->]; reflexivity|intros [= -> ->]; auto].
Qed.
Lemma str_eqb_refl a : str_eqb a a = true.
Proof. apply str_eqb_eq; reflexivity. Qed.
Lemma str_eqb_neq a b : str_eqb a b = false <-> a <> b.
Proof.
  split; intros H.
  - intros E. apply str_eqb_eq in E. congruence.
  - destruct (str_eqb a b) eqn:E; [apply str_eqb_eq in E; contradiction|reflexivity].
Qed.
Lemma str_eqb_sym a b : str_eqb a b = str_eqb b a.
Proof.
  destruct (str_eqb a b) eqn:E1, (str_eqb b a) eqn:E2; try reflexivity.
  - apply str_eqb_eq in E1. subst. rewrite str_eqb_refl in E2. discriminate.
  - apply str_eqb_eq in E2. subst. rewrite str_eqb_refl in E1. discriminate.
Qed.

Lemma name_eqb_eq a b : name_eqb a b = true <-> a = b.
Proof.
  revert b; induction a as [|x a IH]; destruct b as [|y b]; cbn; try (split; congruence).
  rewrite andb_true_iff, str_eqb_eq, IH. split; [intros [-> ->]; reflexivity|intros [= -> ->]; auto].
Qed.
Lemma name_eqb_refl a : name_eqb a a = true.
Proof. apply name_eqb_eq; reflexivity. Qed.
Lemma name_eqb_neq a b : name_eqb a b = false <-> a <> b.
Proof.
  split; intros H.
  - intros E. apply name_eqb_eq in E. congruence.
  - destruct (name_eqb a b) eqn:E; [apply name_eqb_eq in E; contradiction|reflexivity].
Qed.

Lemma dg_eqb_eq a b : dg_eqb a b = true <-> a = b.
Proof.
  destruct a as [a1 a2], b as [b1 b2]. unfold dg_eqb; cbn.
  rewrite andb_true_iff, str_eqb_eq, N.eqb_eq. split; [intros [-> ->]; reflexivity|intros [= -> ->]; auto].
Qed.
Lemma dg_eqb_refl a : dg_eqb a a = true.
Proof. apply dg_eqb_eq; reflexivity. Qed.
Lemma dg_mem_In d l : dg_mem d l = true <-> In d l.
Proof.
  unfold dg_mem. rewrite existsb_exists. split.
  - intros [x [Hx E]]. apply dg_eqb_eq in E. subst. exact Hx.
  - intros H. exists d. split; [exact H|apply dg_eqb_refl].
Qed.

(** ---- is_prefix ---- *)
Lemma is_prefix_app p r : is_prefix p (p ++ r) = true.
Proof. induction p; cbn; [reflexivity|]. rewrite str_eqb_refl. exact IHp. Qed.
Lemma is_prefix_iff p n : is_prefix p n = true <-> exists r, n = p ++ r.
Proof.
  revert n; induction p as [|c p IH]; intros n; cbn.
  - split; [intros _; exists n; reflexivity|reflexivity].
  - destruct n as [|d n]; [split; [discriminate|intros [r H]; discriminate]|].
    rewrite andb_true_iff, str_eqb_eq, IH. split.
    + intros [-> [r ->]]. exists r. reflexivity.
    + intros [r [= -> ->]]. split; [reflexivity|exists r; reflexivity].
Qed.

(** ---- join / split ---- *)
Lemma comp_ok_spec c : comp_ok c = true <-> c <> [] /\ ~ In slash c.
Proof.
  unfold comp_ok. rewrite andb_true_iff, forallb_forall. split.
  - intros [H1 H2]. split; [destruct c; [discriminate|congruence]|].
    intros Hin. apply H2 in Hin. rewrite N.eqb_refl in Hin. discriminate.
  - intros [H1 H2]. split; [destruct c; [congruence|reflexivity]|].
    intros x Hx. destruct (N.eqb x slash) eqn:E; [apply N.eqb_eq in E; subst; contradiction|reflexivity].
Qed.

Lemma split_aux_comp cur c s :
  ~ In slash c -> split_aux cur (c ++ s) = split_aux (rev c ++ cur) s.
Proof.
  revert cur; induction c as [|b c IH]; intros cur Hn; cbn; [reflexivity|].
  destruct (N.eqb b slash) eqn:E; [apply N.eqb_eq in E; subst; cbn in Hn; tauto|].
  rewrite IH by (cbn in Hn; tauto). rewrite <- app_assoc. reflexivity.
Qed.

Lemma split_aux_join c n :
  name_ok (c :: n) = true -> split_aux [] (join (c :: n)) = c :: n.
Proof.
  revert c; induction n as [|d n IH]; intros c H.
  - cbn [join]. cbn in H. rewrite andb_true_r in H. apply comp_ok_spec in H.
    rewrite <- (app_nil_r c) at 1. rewrite split_aux_comp by tauto. cbn. rewrite app_nil_r, rev_involutive. reflexivity.
  - change (join (c :: d :: n)) with (c ++ slash :: join (d :: n)).
    cbn [name_ok forallb] in H. apply andb_true_iff in H as [Hc Hr]. apply comp_ok_spec in Hc.
    rewrite split_aux_comp by tauto. cbn [split_aux]. rewrite N.eqb_refl, app_nil_r, rev_involutive.
    f_equal. apply IH. exact Hr.
Qed.

Lemma join_nil_iff n : name_ok n = true -> (join n = [] <-> n = []).
Proof.
  intros H. split; [|intros ->; reflexivity].
  destruct n as [|c n]; [reflexivity|]. cbn in H. apply andb_true_iff in H as [Hc _]. apply comp_ok_spec in Hc.
  destruct n; cbn; destruct c; try tauto; discriminate.
Qed.

(** splitting the string form of a well-formed name gives its components *)
Lemma split_join n : name_ok n = true -> split (join n) = n.
Proof.
  intros H. destruct n as [|c n]; [reflexivity|].
  unfold split. destruct (join (c :: n)) eqn:E.
  - apply join_nil_iff in E; [discriminate|exact H].
  - rewrite <- E. apply split_aux_join. exact H.
Qed.

Lemma name_ok_app a b : name_ok (a ++ b) = name_ok a && name_ok b.
Proof. unfold name_ok. apply forallb_app. Qed.

Lemma join_app_cons a c b : join (a ++ c :: b) = match a with [] => join (c :: b) | _ => join a ++ slash :: join (c :: b) end.
Proof.
  induction a as [|x a IH]; [reflexivity|].
  destruct a as [|y a].
  - reflexivity.
  - change (join ((x :: y :: a) ++ c :: b)) with (x ++ slash :: join ((y :: a) ++ c :: b)).
    rewrite IH. change (join (x :: y :: a)) with (x ++ slash :: join (y :: a)).
    rewrite <- app_assoc. reflexivity.
Qed.

(** ---- prefixes ---- *)
Lemma prefixes_In p n : In p (prefixes n) <-> is_prefix p n = true.
Proof.
  revert p; induction n as [|c n IH]; intros p; cbn.
  - destruct p; cbn; [tauto|]. split; [intros [H|[]]; discriminate|discriminate].
  - destruct p as [|d p]; cbn; [tauto|].
    rewrite in_map_iff, andb_true_iff, str_eqb_eq. split.
    + intros [H|[x [[= -> ->] Hx]]]; [discriminate|]. split; [reflexivity|apply IH; exact Hx].
    + intros [-> H]. right. exists p. split; [reflexivity|apply IH; exact H].
Qed.

(** ---- canon ---- *)
Lemma dg_insert_In x d l : In x (dg_insert d l) <-> x = d \/ In x l.
Proof.
  induction l as [|h t IH]; cbn; [intuition congruence|].
  destruct (dg_eqb d h) eqn:E.
  - apply dg_eqb_eq in E. subst. cbn. intuition congruence.
  - destruct (dg_leb d h); cbn; [intuition congruence|]. rewrite IH. intuition congruence.
Qed.
Lemma canon_In x l : In x (canon l) <-> In x l.
Proof.
  induction l as [|h t IH]; cbn; [tauto|]. rewrite dg_insert_In, IH. intuition congruence.
Qed.
