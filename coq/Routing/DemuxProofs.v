(** C19 — proofs about the demultiplexing composite model. *)
From Coq Require Import List ZArith NArith Bool Arith Lia.
From BBS Require Import Routing.Names Routing.NamesProofs Routing.Trie Routing.TrieProofs
  Routing.Patcher Routing.PatcherProofs Routing.Demux.
Import ListNotations.
Open Scope Z_scope.

(** configuration entries are well-formed instance names (NewInstanceName accepted them) *)
Definition cfg_ok (cfg : list centry) : Prop :=
  forall e, In e cfg -> exists o n, name_ok o = true /\ name_ok n = true /\ e = (join o, join n).

Lemma gval_empty p : gval empty_trie p = -1.
Proof. destruct p; reflexivity. Qed.

Lemma gval_build_from cfg : forall i t p,
  gval (build_from i cfg t) p = last_index_of i cfg p (gval t p).
Proof.
  induction cfg as [|e r IH]; intros i t p; cbn [build_from last_index_of]; [reflexivity|].
  rewrite IH, gval_set, norm_nonneg by lia. reflexivity.
Qed.
Lemma gval_build_trie cfg p : gval (build_trie cfg) p = last_index_of 0 cfg p (-1).
Proof. unfold build_trie. rewrite gval_build_from, gval_empty. reflexivity. Qed.

Lemma reach_build_from cfg : forall i t, reach t -> reach (build_from i cfg t).
Proof.
  induction cfg as [|e r IH]; intros i t H; cbn [build_from]; [exact H|]. apply IH. constructor; [exact H|lia].
Qed.

(** the trie lookup of the getter computes the specification-level owner *)
Lemma glp_owner cfg inst : get_longest_prefix (build_trie cfg) (split inst) = owner cfg inst.
Proof.
  unfold owner. rewrite glp_gval.
  - apply lpv_f_ext. intros p. apply gval_build_trie.
  - apply wf_tval, reach_wf, reach_build_from, reach_empty.
Qed.

Lemma last_index_of_spec cfg : forall i p cur,
  last_index_of i cfg p cur = cur \/
  exists k e, last_index_of i cfg p cur = Z.of_nat (i + k) /\ nth_error cfg k = Some e /\ split (fst e) = p.
Proof.
  induction cfg as [|e r IH]; intros i p cur; cbn [last_index_of]; [left; reflexivity|].
  destruct (IH (S i) p (if name_eqb (split (fst e)) p then Z.of_nat i else cur)) as [H|[k [e' [H1 [H2 H3]]]]].
  - rewrite H. destruct (name_eqb (split (fst e)) p) eqn:E; [|left; reflexivity].
    right. exists O, e. rewrite Nat.add_0_r. apply name_eqb_eq in E. auto.
  - right. exists (S k), e'. rewrite H1. split; [f_equal; lia|]. auto.
Qed.

Lemma owner_spec cfg inst :
  (owner cfg inst = -1 /\ forall q, is_prefix q (split inst) = true -> last_index_of 0 cfg q (-1) < 0)
  \/ exists k e, owner cfg inst = Z.of_nat k /\ nth_error cfg k = Some e /\
                 is_prefix (split (fst e)) (split inst) = true /\
                 last_index_of 0 cfg (split (fst e)) (-1) = Z.of_nat k.
Proof.
  unfold owner. destruct (lpv_f_spec (fun p => last_index_of 0 cfg p (-1)) (split inst))
    as [[p [Hp [Hv [He _]]]]|H]; [|left; exact H].
  right. destruct (last_index_of_spec cfg 0 p (-1)) as [H|[k [e [H1 [H2 H3]]]]]; [lia|].
  exists k, e. rewrite He, H1. cbn. subst p. auto.
Qed.

(** the getter on ANY string: never panics, fails only with InvalidArgument,
    and its answer is determined by the backend name (the matched prefix) *)
Lemma gb_cases cfg inst :
  (get_backend cfg inst = Err INVALID_ARGUMENT /\ owner cfg inst = -1)
  \/ exists k e, get_backend cfg inst = Ok (k, fst e, entry_patcher e) /\ nth_error cfg k = Some e /\
                 owner cfg inst = Z.of_nat k /\
                 last_index_of 0 cfg (split (fst e)) (-1) = Z.of_nat k.
Proof.
  unfold get_backend. rewrite glp_owner.
  destruct (owner_spec cfg inst) as [[Ho _]|[k [e [Ho [Hn [_ Hl]]]]]].
  - left. rewrite Ho. cbn. auto.
  - right. exists k, e. rewrite Ho.
    replace (Z.of_nat k <? 0) with false by (symmetry; apply Z.ltb_ge; lia).
    rewrite Nat2Z.id, Hn. auto.
Qed.
Lemma gb_det cfg x y i i' k p p' :
  get_backend cfg x = Ok (i, k, p) -> get_backend cfg y = Ok (i', k, p') -> i = i' /\ p = p'.
Proof.
  intros Hx Hy.
  destruct (gb_cases cfg x) as [[E _]|[k1 [e1 [E1 [Hn1 [_ Hl1]]]]]]; [congruence|].
  destruct (gb_cases cfg y) as [[E _]|[k2 [e2 [E2 [Hn2 [_ Hl2]]]]]]; [congruence|].
  rewrite E1 in Hx. rewrite E2 in Hy. injection Hx as <- <- <-. injection Hy as <- Hk <-.
  rewrite Hk in Hl2. assert (k2 = k1) by lia. subst k2. split; [reflexivity|]. congruence.
Qed.

(** The getter, on a well-formed name: either the name is unknown
    (InvalidArgument) or it yields the owner's index, name and patcher, and the
    name is the owner's prefix followed by some rest. *)
Lemma get_backend_spec cfg m : cfg_ok cfg -> name_ok m = true ->
  match get_backend cfg (join m) with
  | Err e => e = INVALID_ARGUMENT /\ owner cfg (join m) = -1
  | Ok (i, key, p) =>
      exists o n r, nth_error cfg i = Some (join o, join n) /\ name_ok o = true /\ name_ok n = true /\
                    name_ok r = true /\ m = o ++ r /\ key = join o /\ p = new_patcher (join o) (join n) /\
                    owner cfg (join m) = Z.of_nat i
  | Panic => False
  end.
Proof.
  intros Hcfg Hm. unfold get_backend. rewrite glp_owner.
  destruct (owner_spec cfg (join m)) as [[Ho _]|[k [e [Ho [Hn [Hp _]]]]]].
  - rewrite Ho. cbn. auto.
  - rewrite Ho. replace (Z.of_nat k <? 0) with false by (symmetry; apply Z.ltb_ge; lia).
    rewrite Nat2Z.id, Hn.
    destruct (Hcfg e (nth_error_In _ _ Hn)) as [o [n [Hok [Hnk ->]]]]. cbn [fst snd] in *.
    rewrite split_join in Hp by exact Hok. rewrite split_join in Hp by exact Hm.
    apply is_prefix_iff in Hp as [r ->].
    exists o, n, r. rewrite name_ok_app in Hm. apply andb_true_iff in Hm as [_ Hr].
    unfold entry_patcher. cbn [fst snd]. repeat split; auto.
Qed.

Section OpsProofs.
  Context {D : Type}.
  Variable cfg : list centry.
  Variable backends : list (backend D).
  Hypothesis Hcfg : cfg_ok cfg.

  (** unknown names are rejected with InvalidArgument, no backend is contacted *)
  Lemma demux_unknown m b : name_ok m = true -> owner cfg (join m) < 0 ->
    demux_get cfg backends (join m, b) = (Err INVALID_ARGUMENT, [])
    /\ (forall c, demux_gfc cfg backends (join m, b) c = (Err INVALID_ARGUMENT, []))
    /\ demux_put cfg backends (join m, b) = (Ok (INVALID_ARGUMENT, true), []).
  Proof.
    intros Hm Ho. pose proof (get_backend_spec cfg m Hcfg Hm) as H.
    unfold demux_get, demux_gfc, demux_put. cbn [fst].
    destruct (get_backend cfg (join m)) as [[[i key] p]|e|]; [|destruct H as [-> _]; auto|destruct H].
    destruct H as [o [n [r [_ [_ [_ [_ [_ [_ [_ H]]]]]]]]]]. lia.
  Qed.

  (** known names: exactly one call, to the owning backend, with the matched
      prefix replaced by the configured one; the result is that backend's *)
  Lemma demux_known m b : name_ok m = true -> 0 <= owner cfg (join m) ->
    exists i o n r, owner cfg (join m) = Z.of_nat i /\ nth_error cfg i = Some (join o, join n) /\ m = o ++ r /\
      forall bk, nth_error backends i = Some bk ->
        demux_get cfg backends (join m, b) = (b_get bk (join (n ++ r), b), [CGet i (join (n ++ r), b)])
        /\ demux_put cfg backends (join m, b) = (Ok (b_put bk (join (n ++ r), b), false), [CPut i (join (n ++ r), b)])
        /\ (forall cb, demux_gfc cfg backends (join m, b) (join m, cb)
                       = (b_gfc bk (join (n ++ r), b) (join (n ++ r), cb),
                          [CGfc i (join (n ++ r), b) (join (n ++ r), cb)])).
  Proof.
    intros Hm Ho. pose proof (get_backend_spec cfg m Hcfg Hm) as H.
    unfold demux_get, demux_gfc, demux_put. cbn [fst].
    destruct (get_backend cfg (join m)) as [[[i key] p]|e|]; [|destruct H as [_ H]; lia|destruct H].
    destruct H as [o [n [r [Hn [Hok [Hnk [Hr [-> [-> [-> Hi]]]]]]]]]].
    exists i, o, n, r. repeat split; auto. 
    all: unfold with_backend; rewrite H; unfold patch_digest; cbn [fst snd]; rewrite patch_name_spec by auto; reflexivity.
  Qed.
End OpsProofs.

(** ---- FindMissing ---- *)
Definition tag (pt : partition) : nat * str * patcher := (p_idx pt, p_key pt, p_patcher pt).

Lemma add_to_keys parts key d : map p_key (add_to parts key d) = map p_key parts.
Proof.
  induction parts as [|pt r IH]; [reflexivity|]. cbn [add_to]. destruct (str_eqb (p_key pt) key); cbn; [reflexivity|].
  rewrite IH. reflexivity.
Qed.
Lemma has_part_keys parts k : has_part parts k = existsb (fun x => str_eqb x k) (map p_key parts).
Proof. unfold has_part. induction parts as [|pt r IH]; [reflexivity|]. cbn. rewrite IH. reflexivity. Qed.
Lemma has_part_add_to parts key d k : has_part (add_to parts key d) k = has_part parts k.
Proof. rewrite !has_part_keys, add_to_keys. reflexivity. Qed.
Lemma has_part_false_notin parts k : has_part parts k = false -> ~ In k (map p_key parts).
Proof.
  rewrite has_part_keys. intros H Hin.
  assert (existsb (fun x => str_eqb x k) (map p_key parts) = true); [|congruence].
  apply existsb_exists. exists k. split; [exact Hin|apply str_eqb_refl].
Qed.
Lemma has_part_app parts pt k : has_part (parts ++ [pt]) k = has_part parts k || str_eqb (p_key pt) k.
Proof. unfold has_part. rewrite existsb_app. cbn. rewrite orb_false_r. reflexivity. Qed.

Lemma add_to_In parts key d pt' :
  NoDup (map p_key parts) -> In pt' (add_to parts key d) ->
  exists pt, In pt parts /\ tag pt' = tag pt /\
    ((p_key pt = key /\ p_digs pt' = p_digs pt ++ [patch_digest (p_patcher pt) d])
     \/ (p_key pt <> key /\ p_digs pt' = p_digs pt)).
Proof.
  induction parts as [|pt0 r IH]; [intros _ []|]. cbn [map]. intros Hnd. inversion Hnd as [|? ? Hk Hr]; subst.
  cbn [add_to]. destruct (str_eqb (p_key pt0) key) eqn:E.
  - apply str_eqb_eq in E. intros [<-|Hin].
    + exists pt0. split; [left; reflexivity|]. split; [reflexivity|]. left. auto.
    + exists pt'. split; [right; exact Hin|]. split; [reflexivity|]. right. split; [|reflexivity].
      intros Heq. apply Hk. rewrite E, <- Heq. apply in_map. exact Hin.
  - apply str_eqb_neq in E. intros [<-|Hin].
    + exists pt0. split; [left; reflexivity|]. split; [reflexivity|]. right. auto.
    + destruct (IH Hr Hin) as [pt [Hp Hrest]]. exists pt. split; [right; exact Hp|exact Hrest].
Qed.

Section FM.
  Context {D : Type}.
  Variable cfg : list centry.
  Variable backends : list (backend D).
  Notation gb := (get_backend cfg).

  Definition Inv (seen : list digest) (cache : list (str * str)) (parts : list partition) : Prop :=
    (forall inst key, cache_find cache inst = Some key ->
        (exists i p, gb inst = Ok (i, key, p)) /\ has_part parts key = true) /\
    (forall pt, In pt parts -> exists inst, gb inst = Ok (tag pt)) /\
    NoDup (map p_key parts) /\
    (forall pt, In pt parts -> forall x, In x (p_digs pt) <->
        exists d, In d seen /\ (exists i p, gb (fst d) = Ok (i, p_key pt, p)) /\ x = patch_digest (p_patcher pt) d) /\
    (forall d, In d seen -> exists i key p, gb (fst d) = Ok (i, key, p) /\ has_part parts key = true).

  Lemma Inv_init : Inv [] [] [].
  Proof.
    unfold Inv. split; [intros ? ? H; discriminate|]. split; [intros ? []|]. split; [constructor|].
    split; [intros ? []|intros ? []].
  Qed.

  Lemma tag_eq pt pt' : tag pt' = tag pt -> p_idx pt' = p_idx pt /\ p_key pt' = p_key pt /\ p_patcher pt' = p_patcher pt.
  Proof. unfold tag. intros [= -> -> ->]. auto. Qed.

  Lemma Inv_step seen cache parts d i key p cache' :
    Inv seen cache parts -> gb (fst d) = Ok (i, key, p) -> has_part parts key = true ->
    (cache' = cache \/ cache' = (fst d, key) :: cache) ->
    Inv (seen ++ [d]) cache' (add_to parts key d).
  Proof.
    intros [C1 [C2 [C3 [C4 C5]]]] Hg Hh Hc. unfold Inv. split; [|split; [|split; [|split]]].
    - intros inst k Hf. rewrite has_part_add_to. destruct Hc as [->| ->]; [apply C1; exact Hf|].
      cbn [cache_find] in Hf. destruct (str_eqb (fst d) inst) eqn:E; [|apply C1; exact Hf].
      apply str_eqb_eq in E. subst inst. injection Hf as <-. split; [eauto|exact Hh].
    - intros pt' Hin. destruct (add_to_In _ _ _ _ C3 Hin) as [pt [Hp [Ht _]]]. rewrite Ht. apply C2. exact Hp.
    - rewrite add_to_keys. exact C3.
    - intros pt' H x. destruct (add_to_In _ _ _ _ C3 H) as [pt [Hp [Ht Hd]]]. apply tag_eq in Ht as [_ [Hk Hpt]].
      rewrite Hk, Hpt. split.
      + destruct Hd as [[Hkey ->]|[Hkey ->]].
        * intros Hx. apply in_app_iff in Hx as [Hx|[<-|[]]].
          -- apply (C4 pt Hp) in Hx as [d' [Hd' Hr]]. exists d'. split; [apply in_or_app; left; exact Hd'|exact Hr].
          -- exists d. split; [apply in_or_app; right; left; reflexivity|]. split; [|reflexivity]. rewrite Hkey. eauto.
        * intros Hx. apply (C4 pt Hp) in Hx as [d' [Hd' Hr]]. exists d'. split; [apply in_or_app; left; exact Hd'|exact Hr].
      + intros [d' [Hd' [Hg' ->]]]. apply in_app_iff in Hd' as [Hd'|[<-|[]]].
        * destruct Hd as [[Hkey ->]|[Hkey ->]]; [apply in_or_app; left|]; apply (C4 pt Hp); exists d'; auto.
        * destruct Hd as [[Hkey ->]|[Hkey ->]]; [apply in_or_app; right; left; reflexivity|].
          destruct Hg' as [i' [p' Hg']]. rewrite Hg in Hg'. injection Hg' as _ Hk' _. congruence.
    - intros d' Hd'. apply in_app_iff in Hd' as [Hd'|[<-|[]]].
      + destruct (C5 d' Hd') as [i' [k' [p' [H1 H2]]]]. exists i', k', p'. rewrite has_part_add_to. auto.
      + exists i, key, p. rewrite has_part_add_to. auto.
  Qed.

  Lemma Inv_extend seen cache parts inst i key p :
    Inv seen cache parts -> has_part parts key = false -> gb inst = Ok (i, key, p) ->
    Inv seen cache (parts ++ [{| p_key := key; p_idx := i; p_patcher := p; p_digs := [] |}]).
  Proof.
    intros [C1 [C2 [C3 [C4 C5]]]] Hh Hg. unfold Inv. split; [|split; [|split; [|split]]].
    - intros inst0 k Hf. destruct (C1 _ _ Hf) as [H1 H2]. split; [exact H1|]. rewrite has_part_app, H2. reflexivity.
    - intros pt Hin. apply in_app_iff in Hin as [Hin|[<-|[]]]; [apply C2; exact Hin|]. exists inst. exact Hg.
    - rewrite map_app. cbn [map p_key].
      apply has_part_false_notin in Hh. clear -C3 Hh. induction (map p_key parts) as [|a l IH]; cbn.
      + constructor; [tauto|constructor].
      + inversion C3; subst. constructor.
        * rewrite in_app_iff. cbn. cbn in Hh. intuition congruence.
        * apply IH; [assumption|]. cbn in Hh. tauto.
    - intros pt H x. apply in_app_iff in H as [Hin|[<-|[]]]; [apply (C4 _ Hin)|]. cbn [p_digs p_key p_patcher]. split; [intros []|].
      intros [d [Hd [[i' [p' Hg']] _]]]. exfalso.
      destruct (C5 d Hd) as [i2 [k2 [p2 [H1 H2]]]]. rewrite Hg' in H1. injection H1 as _ <- _. congruence.
    - intros d Hd. destruct (C5 d Hd) as [i2 [k2 [p2 [H1 H2]]]]. exists i2, k2, p2. rewrite has_part_app, H2. auto.
  Qed.

  Lemma fm_partition_spec : forall ds seen cache parts,
    Inv seen cache parts ->
    (exists parts' cache', fm_partition cfg ds cache parts = Ok parts' /\ Inv (seen ++ ds) cache' parts'
                           /\ forall d, In d ds -> exists t, gb (fst d) = Ok t)
    \/ (fm_partition cfg ds cache parts = Err INVALID_ARGUMENT /\ exists d, In d ds /\ gb (fst d) = Err INVALID_ARGUMENT).
  Proof.
    induction ds as [|d r IH]; intros seen cache parts HI.
    - left. exists parts, cache. rewrite app_nil_r. cbn. split; [reflexivity|]. split; [exact HI|intros ? []].
    - cbn [fm_partition].
      assert (Hnext : forall cache' parts', Inv (seen ++ [d]) cache' parts' -> (exists t, gb (fst d) = Ok t) ->
                (exists parts'' cache'', fm_partition cfg r cache' parts' = Ok parts'' /\ Inv (seen ++ d :: r) cache'' parts''
                           /\ forall x, In x (d :: r) -> exists t, gb (fst x) = Ok t)
                \/ (fm_partition cfg r cache' parts' = Err INVALID_ARGUMENT /\ exists x, In x (d :: r) /\ gb (fst x) = Err INVALID_ARGUMENT)).
      { intros cache' parts' HI' Hd. destruct (IH _ _ _ HI') as [[p2 [c2 [H1 [H2 H3]]]]|[H1 [x [Hx1 Hx2]]]].
        - left. exists p2, c2. split; [exact H1|]. rewrite <- app_assoc in H2. split; [exact H2|].
          intros x [<-|Hx]; [exact Hd|apply H3; exact Hx].
        - right. split; [exact H1|]. exists x. split; [right; exact Hx1|exact Hx2]. }
      destruct (cache_find cache (fst d)) as [key|] eqn:Ec.
      + pose proof HI as [C1 _]. destruct (C1 _ _ Ec) as [[i [p Hg]] Hh].
        apply Hnext; [|eauto]. eapply Inv_step; [exact HI|exact Hg|exact Hh|left; reflexivity].
      + destruct (gb_cases cfg (fst d)) as [[E _]|[k [e [E _]]]]; rewrite E.
        * right. split; [reflexivity|]. exists d. split; [left; reflexivity|exact E].
        * apply Hnext; [|eauto]. destruct (has_part parts (fst e)) eqn:Eh.
          -- eapply Inv_step; [exact HI|exact E|exact Eh|right; reflexivity].
          -- eapply Inv_step; [eapply Inv_extend; [exact HI|exact Eh|exact E]|exact E| |right; reflexivity].
             rewrite has_part_app. cbn [p_key]. rewrite str_eqb_refl. apply orb_true_r.
  Qed.

  (** second loop over backends that answer FindMissing from a fixed content table *)
  Variable present : nat -> digest -> bool.
  Hypothesis Hhonest : forall i bk, nth_error backends i = Some bk ->
    forall q, b_fm bk q = Ok (filter (fun d => negb (present i d)) q).

  Lemma fm_calls_spec : forall parts acc calls,
    (forall pt, In pt parts -> exists bk, nth_error backends (p_idx pt) = Some bk) ->
    exists res, fm_calls backends parts acc calls
                = (Ok res, calls ++ map (fun pt => CFm (p_idx pt) (canon (p_digs pt))) parts) /\
      forall x, In x res <-> In x acc \/ exists pt y, In pt parts /\ In y (p_digs pt) /\
                                           present (p_idx pt) y = false /\ x = unpatch_digest (p_patcher pt) y.
  Proof.
    induction parts as [|pt r IH]; intros acc calls Hb.
    - cbn. exists (canon acc). rewrite app_nil_r. split; [reflexivity|]. intros x. rewrite canon_In.
      split; [auto|]. intros [H|[pt [y [[] _]]]]. exact H.
    - cbn [fm_calls]. destruct (Hb pt (or_introl eq_refl)) as [bk Hbk]. unfold with_backend. rewrite Hbk, (Hhonest _ _ Hbk).
      destruct (IH (acc ++ map (unpatch_digest (p_patcher pt)) (filter (fun d => negb (present (p_idx pt) d)) (canon (p_digs pt))))
                   (calls ++ [CFm (p_idx pt) (canon (p_digs pt))])) as [res [Hr Hres]].
      { intros pt' Hin. apply Hb. right. exact Hin. }
      exists res. rewrite Hr. cbn [map]. rewrite <- app_assoc. split; [reflexivity|].
      intros x. rewrite Hres, in_app_iff, in_map_iff. split.
      + intros [[H|[y [<- Hy]]]|[pt' [y [Hp Hrest]]]].
        * left. exact H.
        * apply filter_In in Hy as [Hy1 Hy2]. rewrite canon_In in Hy1. rewrite negb_true_iff in Hy2.
          right. exists pt, y. split; [left; reflexivity|auto].
        * right. exists pt', y. split; [right; exact Hp|exact Hrest].
      + intros [H|[pt' [y [[<-|Hp] [Hy [Hpr ->]]]]]].
        * left. left. exact H.
        * left. right. exists y. split; [reflexivity|]. apply filter_In. split; [rewrite canon_In; exact Hy|].
          rewrite Hpr. reflexivity.
        * right. exists pt', y. auto.
  Qed.
End FM.

Lemma gb_idx_det cfg x y i k k' p p' :
  get_backend cfg x = Ok (i, k, p) -> get_backend cfg y = Ok (i, k', p') -> k = k' /\ p = p'.
Proof.
  intros Hx Hy.
  destruct (gb_cases cfg x) as [[E _]|[k1 [e1 [E1 [Hn1 _]]]]]; [congruence|].
  destruct (gb_cases cfg y) as [[E _]|[k2 [e2 [E2 [Hn2 _]]]]]; [congruence|].
  rewrite E1 in Hx. rewrite E2 in Hy. injection Hx as <- <- <-. injection Hy as Hk <- <-. subst k2.
  rewrite Hn1 in Hn2. injection Hn2 as <-. auto.
Qed.
Lemma has_part_In parts key : has_part parts key = true -> exists pt, In pt parts /\ p_key pt = key.
Proof.
  unfold has_part. intros H. apply existsb_exists in H as [pt [Hin E]]. apply str_eqb_eq in E. eauto.
Qed.

Section FMTop.
  Context {D : Type}.
  Variable cfg : list centry.
  Variable backends : list (backend D).
  Variable present : nat -> digest -> bool.
  Hypothesis Hcfg : cfg_ok cfg.
  Hypothesis Hlen : length backends = length cfg.
  Hypothesis Hhonest : forall i bk, nth_error backends i = Some bk ->
    forall q, b_fm bk q = Ok (filter (fun d => negb (present i d)) q).

  Lemma unpatch_patch_owned d i key p :
    (exists m, name_ok m = true /\ fst d = join m) -> get_backend cfg (fst d) = Ok (i, key, p) ->
    unpatch_digest p (patch_digest p d) = d.
  Proof.
    intros [m [Hm Hd]] Hg. pose proof (get_backend_spec cfg m Hcfg Hm) as H. rewrite <- Hd, Hg in H.
    destruct H as [o [n [r [_ [Ho [Hn [Hr [-> [_ [-> _]]]]]]]]]].
    destruct d as [inst b]. cbn [fst] in Hd. subst inst. apply unpatch_patch_digest; auto.
  Qed.

  Lemma demux_fm_correct ds :
    (forall d, In d ds -> exists m, name_ok m = true /\ fst d = join m) ->
    ((exists d, In d ds /\ owner cfg (fst d) < 0) -> demux_fm cfg backends ds = (Err INVALID_ARGUMENT, []))
    /\ ((forall d, In d ds -> 0 <= owner cfg (fst d)) ->
        exists res calls, demux_fm cfg backends ds = (Ok res, calls) /\
          (forall d, In d res <-> In d ds /\ exists i key p, get_backend cfg (fst d) = Ok (i, key, p)
                                                         /\ present i (patch_digest p d) = false) /\
          (forall i q, In (CFm i q) calls ->
             forall x, In x q <-> exists d key p, In d ds /\ get_backend cfg (fst d) = Ok (i, key, p)
                                                  /\ x = patch_digest p d) /\
          (forall c, In c calls -> exists i q, c = CFm i q)).
  Proof.
    intros Hds. unfold demux_fm.
    destruct (fm_partition_spec cfg (canon ds) [] [] [] (Inv_init cfg))
      as [[parts [cache [Hp [HI Hok]]]]|[Hp [d0 [Hd0 Hg0]]]]; rewrite Hp.
    - cbn [app] in HI. destruct HI as [C1 [C2 [C3 [C4 C5]]]]. split.
      + intros [d [Hd Ho]]. exfalso. destruct (Hok d) as [t Ht]; [rewrite canon_In; exact Hd|].
        destruct (gb_cases cfg (fst d)) as [[E _]|[k [e [_ [_ [E _]]]]]]; [congruence|lia].
      + intros _.
        assert (Hbk : forall pt, In pt parts -> exists bk, nth_error backends (p_idx pt) = Some bk).
        { intros pt Hin. destruct (C2 pt Hin) as [inst Hi]. unfold tag in Hi.
          destruct (gb_cases cfg inst) as [[E _]|[k [e [E [Hn _]]]]]; [congruence|].
          rewrite E in Hi. injection Hi as -> _ _.
          destruct (nth_error backends (p_idx pt)) eqn:En; [eauto|].
          apply nth_error_None in En. assert (nth_error cfg (p_idx pt) <> None) by congruence.
          apply nth_error_Some in H. lia. }
        destruct (fm_calls_spec backends present Hhonest parts [] [] Hbk) as [res [Hr Hres]].
        exists res. eexists. split; [exact Hr|]. cbn [app]. split; [|split].
        * intros x. rewrite Hres. split.
          -- intros [[]|[pt [y [Hpt [Hy [Hpr ->]]]]]].
             apply (C4 pt Hpt) in Hy as [d [Hd [[i [p Hg]] ->]]].
             destruct (C2 pt Hpt) as [inst Hi]. unfold tag in Hi.
             destruct (gb_det _ _ _ _ _ _ _ _ Hg Hi) as [-> ->].
             rewrite canon_In in Hd. rewrite (unpatch_patch_owned d _ _ _ (Hds d Hd) Hg).
             split; [exact Hd|]. eauto.
          -- intros [Hd [i [key [p [Hg Hpr]]]]]. right.
             destruct (C5 x) as [i' [key' [p' [Hg' Hh]]]]; [rewrite canon_In; exact Hd|].
             rewrite Hg in Hg'. injection Hg' as <- <- <-.
             apply has_part_In in Hh as [pt [Hpt Hk]].
             destruct (C2 pt Hpt) as [inst Hi]. unfold tag in Hi. rewrite Hk in Hi.
             destruct (gb_det _ _ _ _ _ _ _ _ Hg Hi) as [Ei Ep].
             exists pt, (patch_digest p x). split; [exact Hpt|]. split; [|split].
             ++ apply (C4 pt Hpt). exists x. split; [rewrite canon_In; exact Hd|]. split; [rewrite Hk; eauto|].
                rewrite Ep. reflexivity.
             ++ rewrite <- Ei. exact Hpr.
             ++ rewrite <- Ep. symmetry. apply (unpatch_patch_owned x _ _ _ (Hds x Hd) Hg).
        * intros i q Hin x. apply in_map_iff in Hin as [pt [[= <- <-] Hpt]].
          rewrite canon_In, (C4 pt Hpt).
          destruct (C2 pt Hpt) as [inst Hi]. unfold tag in Hi. split.
          -- intros [d [Hd [[i [p Hg]] ->]]]. destruct (gb_det _ _ _ _ _ _ _ _ Hg Hi) as [-> ->].
             rewrite canon_In in Hd. exists d, (p_key pt), (p_patcher pt). auto.
          -- intros [d [key [p [Hd [Hg ->]]]]]. destruct (gb_idx_det _ _ _ _ _ _ _ _ Hg Hi) as [-> ->].
             exists d. split; [rewrite canon_In; exact Hd|]. split; [eauto|reflexivity].
        * intros c Hin. apply in_map_iff in Hin as [pt [<- _]]. eauto.
    - split; [reflexivity|]. intros Hall. exfalso. rewrite canon_In in Hd0. specialize (Hall d0 Hd0).
      destruct (gb_cases cfg (fst d0)) as [[_ E]|[k [e [E _]]]]; [lia|congruence].
  Qed.
End FMTop.
