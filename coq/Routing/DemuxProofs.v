(** C19 — proofs about the demultiplexing composite model. *)
From Coq Require Import List ZArith NArith Bool Arith Lia.
From BBS Require Import Routing.Names Routing.NamesProofs Routing.Trie Routing.TrieProofs
  Routing.Patcher Routing.PatcherProofs Routing.Demux.
Import ListNotations.
Open Scope Z_scope.

(** configuration entries are well-formed instance names (NewInstanceName accepted them) *)
Definition cfg_ok (cfg : list centry) : Prop :=
  forall e, In e cfg -> exists o n, name_ok o = true /\ name_ok n = true /\ e = (join o, join n).

Lemma gval_empty p : gval empty_trie p = -1.
Proof. destruct p; reflexivity. Qed.

Lemma gval_build_from cfg : forall i t p,
  gval (build_from i cfg t) p = last_index_of i cfg p (gval t p).
Proof.
  induction cfg as [|e r IH]; intros i t p; cbn [build_from last_index_of]; [reflexivity|].
  rewrite IH, gval_set, norm_nonneg by lia. reflexivity.
Qed.
Lemma gval_build_trie cfg p : gval (build_trie cfg) p = last_index_of 0 cfg p (-1).
Proof. unfold build_trie. rewrite gval_build_from, gval_empty. reflexivity. Qed.

Lemma reach_build_from cfg : forall i t, reach t -> reach (build_from i cfg t).
Proof.
  induction cfg as [|e r IH]; intros i t H; cbn [build_from]; [exact H|]. apply IH. constructor; [exact H|lia].
Qed.

(** the trie lookup of the getter computes the specification-level owner *)
Lemma glp_owner cfg inst : get_longest_prefix (build_trie cfg) (split inst) = owner cfg inst.
Proof.
  unfold owner. rewrite glp_gval.
  - apply lpv_f_ext. intros p. apply gval_build_trie.
  - apply wf_tval, reach_wf, reach_build_from, reach_empty.
Qed.

Lemma last_index_of_spec cfg : forall i p cur,
  last_index_of i cfg p cur = cur \/
  exists k e, last_index_of i cfg p cur = Z.of_nat (i + k) /\ nth_error cfg k = Some e /\ split (fst e) = p.
Proof.
  induction cfg as [|e r IH]; intros i p cur; cbn [last_index_of]; [left; reflexivity|].
  destruct (IH (S i) p (if name_eqb (split (fst e)) p then Z.of_nat i else cur)) as [H|[k [e' [H1 [H2 H3]]]]].
  - rewrite H. destruct (name_eqb (split (fst e)) p) eqn:E; [|left; reflexivity].
    right. exists O, e. rewrite Nat.add_0_r. apply name_eqb_eq in E. auto.
  - right. exists (S k), e'. rewrite H1. split; [f_equal; lia|]. auto.
Qed.

Lemma owner_spec cfg inst :
  (owner cfg inst = -1 /\ forall q, is_prefix q (split inst) = true -> last_index_of 0 cfg q (-1) < 0)
  \/ exists k e, owner cfg inst = Z.of_nat k /\ nth_error cfg k = Some e /\
                 is_prefix (split (fst e)) (split inst) = true.
Proof.
  unfold owner. destruct (lpv_f_spec (fun p => last_index_of 0 cfg p (-1)) (split inst))
    as [[p [Hp [Hv [He _]]]]|H]; [|left; exact H].
  right. destruct (last_index_of_spec cfg 0 p (-1)) as [H|[k [e [H1 [H2 H3]]]]]; [lia|].
  exists k, e. rewrite He, H1. cbn. subst p. auto.
Qed.

(** The getter, on a well-formed name: either the name is unknown
    (InvalidArgument) or it yields the owner's index, name and patcher, and the
    name is the owner's prefix followed by some rest. *)
Lemma get_backend_spec cfg m : cfg_ok cfg -> name_ok m = true ->
  match get_backend cfg (join m) with
  | Err e => e = INVALID_ARGUMENT /\ owner cfg (join m) = -1
  | Ok (i, key, p) =>
      exists o n r, nth_error cfg i = Some (join o, join n) /\ name_ok o = true /\ name_ok n = true /\
                    name_ok r = true /\ m = o ++ r /\ key = join o /\ p = new_patcher (join o) (join n) /\
                    owner cfg (join m) = Z.of_nat i
  | Panic => False
  end.
Proof.
  intros Hcfg Hm. unfold get_backend. rewrite glp_owner.
  destruct (owner_spec cfg (join m)) as [[Ho _]|[k [e [Ho [Hn Hp]]]]].
  - rewrite Ho. cbn. auto.
  - rewrite Ho. replace (Z.of_nat k <? 0) with false by (symmetry; apply Z.ltb_ge; lia).
    rewrite Nat2Z.id, Hn.
    destruct (Hcfg e (nth_error_In _ _ Hn)) as [o [n [Hok [Hnk ->]]]]. cbn [fst snd] in *.
    rewrite split_join in Hp by exact Hok. rewrite split_join in Hp by exact Hm.
    apply is_prefix_iff in Hp as [r ->].
    exists o, n, r. rewrite name_ok_app in Hm. apply andb_true_iff in Hm as [_ Hr].
    unfold entry_patcher. cbn [fst snd]. repeat split; auto.
Qed.

Section OpsProofs.
  Context {D : Type}.
  Variable cfg : list centry.
  Variable backends : list (backend D).
  Hypothesis Hcfg : cfg_ok cfg.

  (** unknown names are rejected with InvalidArgument, no backend is contacted *)
  Lemma demux_unknown m b : name_ok m = true -> owner cfg (join m) < 0 ->
    demux_get cfg backends (join m, b) = (Err INVALID_ARGUMENT, [])
    /\ (forall c, demux_gfc cfg backends (join m, b) c = (Err INVALID_ARGUMENT, []))
    /\ demux_put cfg backends (join m, b) = (Ok (INVALID_ARGUMENT, true), []).
  Proof.
    intros Hm Ho. pose proof (get_backend_spec cfg m Hcfg Hm) as H.
    unfold demux_get, demux_gfc, demux_put. cbn [fst].
    destruct (get_backend cfg (join m)) as [[[i key] p]|e|]; [|destruct H as [-> _]; auto|destruct H].
    destruct H as [o [n [r [_ [_ [_ [_ [_ [_ [_ H]]]]]]]]]]. lia.
  Qed.

  (** known names: exactly one call, to the owning backend, with the matched
      prefix replaced by the configured one; the result is that backend's *)
  Lemma demux_known m b : name_ok m = true -> 0 <= owner cfg (join m) ->
    exists i o n r, owner cfg (join m) = Z.of_nat i /\ nth_error cfg i = Some (join o, join n) /\ m = o ++ r /\
      forall bk, nth_error backends i = Some bk ->
        demux_get cfg backends (join m, b) = (b_get bk (join (n ++ r), b), [CGet i (join (n ++ r), b)])
        /\ demux_put cfg backends (join m, b) = (Ok (b_put bk (join (n ++ r), b), false), [CPut i (join (n ++ r), b)])
        /\ (forall cb, demux_gfc cfg backends (join m, b) (join m, cb)
                       = (b_gfc bk (join (n ++ r), b) (join (n ++ r), cb),
                          [CGfc i (join (n ++ r), b) (join (n ++ r), cb)])).
  Proof.
    intros Hm Ho. pose proof (get_backend_spec cfg m Hcfg Hm) as H.
    unfold demux_get, demux_gfc, demux_put. cbn [fst].
    destruct (get_backend cfg (join m)) as [[[i key] p]|e|]; [|destruct H as [_ H]; lia|destruct H].
    destruct H as [o [n [r [Hn [Hok [Hnk [Hr [-> [-> [-> Hi]]]]]]]]]].
    exists i, o, n, r. repeat split; auto. 
    all: unfold with_backend; rewrite H; unfold patch_digest; cbn [fst snd]; rewrite patch_name_spec by auto; reflexivity.
  Qed.
End OpsProofs.
