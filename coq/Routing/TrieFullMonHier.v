(** C19 — the hierarchical-decorator part of the monitor [mon19] is silent on
    the model's own output: for every backend description [b] (present set,
    error names, FindMissing faults) and every operation [op] (Get,
    GetFromComposite, FindMissing), clauses 11-14 hold of what the model
    answers.  No hypothesis on [b] or [op] is needed. *)
From Coq Require Import List ZArith NArith Bool Arith Lia.
From BBS Require Import Common.Sx Routing.Names Routing.NamesProofs Routing.HierNames Routing.HierProofs
  Run.R19.
Import ListNotations.
Open Scope Z_scope.

(** ---- encodings ---- *)
Lemma sx_eqb_refl : forall s, sx_eqb s s = true.
Proof.
  fix IH 1. intros [z|l].
  - cbn. apply Z.eqb_refl.
  - cbn. induction l as [|x l IHl]; [reflexivity|]. rewrite IH. exact IHl.
Qed.

Lemma sx_N_of_N n : sx_N (of_N n) = n.
Proof. unfold sx_N, of_N. cbn [sx_Z]. apply N2Z.id. Qed.
Lemma dec_enc_str s : dec_str (enc_str s) = s.
Proof.
  unfold dec_str, enc_str, sx_Ns, of_Ns. cbn [sx_list]. rewrite map_map.
  induction s as [|x s IH]; [reflexivity|]. cbn [map]. rewrite sx_N_of_N, IH. reflexivity.
Qed.
Lemma dec_enc_dg d : dec_dg (enc_dg d) = d.
Proof.
  destruct d as [i n]. unfold dec_dg, enc_dg. cbn [fst snd sx_nth sx_list nth].
  rewrite dec_enc_str, sx_N_of_N. reflexivity.
Qed.
Lemma dec_enc_dgs l : dec_dgs (enc_dgs l) = l.
Proof.
  unfold dec_dgs, enc_dgs. cbn [sx_list]. rewrite map_map.
  induction l as [|x l IH]; [reflexivity|]. cbn [map]. rewrite dec_enc_dg, IH. reflexivity.
Qed.

(** ---- the monitor's [ancestors] is the chain the decorator walks ---- *)
Lemma ancestors_rev d : ancestors d = rev (parents_of d).
Proof. unfold ancestors, parents_of. apply map_rev. Qed.

(** ---- the oracle never panics; a hit returns the digest asked for ---- *)
Lemma hb_get_no_panic b d : hb_get b d <> Panic.
Proof.
  unfold hb_get. destruct (negb _); [discriminate|]. destruct (dg_mem _ _); discriminate.
Qed.
Lemma hb_get_ok b d a : hb_get b d = Ok a -> a = d.
Proof.
  unfold hb_get. destruct (negb _); [discriminate|]. destruct (dg_mem _ _); [|discriminate].
  intros [= <-]. reflexivity.
Qed.
Lemma hb_fm_no_panic b k q : hb_fm b k q <> Panic.
Proof. unfold hb_fm. destruct (negb _); discriminate. Qed.

(** ---- Get (clause 11) ---- *)
Theorem mon_hier_get_silent b op :
  sx_Z (sx_nth op 0) = 0 -> mon_hier_op b op (run_hier_op b op) = [].
Proof.
  intros Hk. unfold mon_hier_op, run_hier_op. rewrite Hk.
  set (d := dec_dg (sx_nth op 1)).
  pose proof (hier_get_first_answer _ (hb_get b) d (hb_get_no_panic b)) as H.
  rewrite <- ancestors_rev in H.
  destruct (hier_get (hb_get b) d) as [r asked]. cbn [fst] in H. rewrite <- H.
  destruct r as [a|e|]; cbn [enc_hdata sx_nth sx_list nth sx_Z].
  - rewrite sx_eqb_refl. reflexivity.
  - rewrite Z.eqb_refl. reflexivity.
  - reflexivity.
Qed.

(** ---- GetFromComposite (clause 12) ---- *)
Lemma hier_gfc_chain_spec b x y : forall (ns : list (list comp)) asked, ns <> [] ->
  fst (hier_gfc_chain (hb_gfc b) (map (fun n => (join n, x)) ns) (map (fun n => (join n, y)) ns) asked) =
  match first_answer (hb_get b) (map (fun n => (join n, x)) ns) with
  | Ok a => Ok (fst a, y)
  | Err e => Err e
  | Panic => Panic
  end.
Proof.
  induction ns as [|n r IH]; intros asked Hne; [congruence|].
  cbn [map hier_gfc_chain first_answer]. unfold hb_gfc at 1.
  destruct (hb_get b (join n, x)) as [a|e|] eqn:Eg.
  - apply hb_get_ok in Eg. subst a. reflexivity.
  - destruct (e =? NOT_FOUND) eqn:Ee; cbn [negb]; [|reflexivity].
    destruct r as [|n' r].
    + cbn. apply Z.eqb_eq in Ee. subst e. reflexivity.
    + cbn [map]. cbn [map] in IH. apply IH. discriminate.
  - reflexivity.
Qed.

Lemma hier_gfc_first_answer b inst x y :
  fst (hier_gfc (hb_gfc b) (inst, x) (inst, y)) =
  match first_answer (hb_get b) (ancestors (inst, x)) with
  | Ok a => Ok (fst a, y)
  | Err e => Err e
  | Panic => Panic
  end.
Proof.
  unfold hier_gfc, ancestors, parents_of. cbn [fst snd]. rewrite <- !map_rev.
  apply hier_gfc_chain_spec.
  destruct (prefixes_last (split inst)) as [l ->]. rewrite rev_app_distr. discriminate.
Qed.

Theorem mon_hier_gfc_silent b op :
  sx_Z (sx_nth op 0) = 1 -> mon_hier_op b op (run_hier_op b op) = [].
Proof.
  intros Hk. unfold mon_hier_op, run_hier_op. rewrite Hk.
  set (inst := dec_str (sx_nth op 1)).
  pose proof (hier_gfc_first_answer b inst (sx_N (sx_nth op 2)) (sx_N (sx_nth op 3))) as H.
  destruct (hier_gfc (hb_gfc b) (inst, sx_N (sx_nth op 2)) (inst, sx_N (sx_nth op 3))) as [r asked].
  cbn [fst] in H. subst r.
  destruct (first_answer (hb_get b) (ancestors (inst, sx_N (sx_nth op 2)))) as [a|e|];
    cbn [enc_hdata sx_nth sx_list nth sx_Z].
  - rewrite sx_eqb_refl. reflexivity.
  - rewrite Z.eqb_refl. reflexivity.
  - reflexivity.
Qed.

(** ---- FindMissing (clauses 13, 14) ---- *)
From BBS Require Import Routing.TrieFullMonCanon.

Section FindMissing.
  Variable b : sx.
  Definition hb_present (d : digest) : bool := dg_mem d (dec_dgs (sx_nth b 0)).
  Definition hb_fault (k : nat) : Z := sx_Z (nth k (sx_list (sx_nth b 2)) (A 0)).

  (** the k-th call fails with the k-th fault code, or is answered honestly *)
  Lemma hb_fm_cases k q :
    (hb_fault k <> 0 /\ hb_fm b k q = Err (hb_fault k))
    \/ (hb_fault k = 0 /\ hb_fm b k q = honest_fm hb_present k q).
  Proof.
    unfold hb_fm. fold (hb_fault k). destruct (hb_fault k =? 0) eqn:E; cbn [negb].
    - right. apply Z.eqb_eq in E. split; [exact E|reflexivity].
    - left. apply Z.eqb_neq in E. split; [exact E|reflexivity].
  Qed.

  Lemma levels_S (fm : nat -> list digest -> outcome (list digest)) fuel k e0 work0 final asked :
    levels fm (S fuel) k (e0 :: work0) final asked =
    match fm k (canon (map last_parent (e0 :: work0))) with
    | Err e => (Err e, asked ++ [canon (map last_parent (e0 :: work0))])
    | Panic => (Panic, asked ++ [canon (map last_parent (e0 :: work0))])
    | Ok missing =>
        let '(work', final') := scan (length (e0 :: work0)) missing [] (e0 :: work0) final in
        levels fm fuel (S k) work' final' (asked ++ [canon (map last_parent (e0 :: work0))])
    end.
  Proof. reflexivity. Qed.
  Lemma levels_nil (fm : nat -> list digest -> outcome (list digest)) fuel k final asked :
    levels fm fuel k [] final asked = (Ok (canon final), asked).
  Proof. destruct fuel; reflexivity. Qed.
  Lemma levels_O (fm : nat -> list digest -> outcome (list digest)) k e0 work0 final asked :
    levels fm O k (e0 :: work0) final asked = (Panic, asked).
  Proof. reflexivity. Qed.

  (** Invariant of the work-list loop: [asked] holds one entry per backend call
      made so far (calls 0..k-1), all of which were fault-free.  A successful
      run made only fault-free calls and coincides with the run over the honest
      backend; a failing run returns a non-zero entry of the fault list. *)
  Lemma levels_sim : forall fuel k work final asked r asked',
    length asked = k -> (forall j, (j < k)%nat -> hb_fault j = 0) ->
    levels (hb_fm b) fuel k work final asked = (r, asked') ->
    match r with
    | Ok res => (forall j, (j < length asked')%nat -> hb_fault j = 0)
                /\ levels (honest_fm hb_present) fuel k work final asked = (Ok res, asked')
    | Err e => e <> 0 /\ exists j, hb_fault j = e
    | Panic => True
    end.
  Proof.
    induction fuel as [|fuel IH]; intros k work final asked r asked' Hlen Hok H.
    - destruct work as [|e0 work0].
      + rewrite levels_nil in H. injection H as <- <-. rewrite levels_nil. subst k. auto.
      + rewrite levels_O in H. injection H as <- <-. exact I.
    - destruct work as [|e0 work0].
      + rewrite levels_nil in H. injection H as <- <-. rewrite levels_nil. subst k. auto.
      + rewrite levels_S in H. remember (e0 :: work0) as work eqn:Ew.
        destruct (hb_fm_cases k (canon (map last_parent work))) as [[Hf E]|[Hf E]]; rewrite E in H.
        * injection H as <- <-. split; [exact Hf|]. exists k. reflexivity.
        * unfold honest_fm in H.
          destruct (scan (length work) _ [] work final) as [w' f'] eqn:Es.
          apply IH in H.
          -- destruct r as [res|e|]; [|exact H|exact I]. destruct H as [H1 H2]. split; [exact H1|].
             subst work. rewrite levels_S. unfold honest_fm at 1. rewrite Es. exact H2.
          -- rewrite app_length. cbn [length]. lia.
          -- intros j Hj. assert (Hc : (j < k)%nat \/ j = k) by lia.
             destruct Hc as [Hc| ->]; [apply Hok; exact Hc|exact Hf].
  Qed.

  Lemma hier_fm_honest_unfold (p : digest -> bool) ds :
    hier_fm (honest_fm p) ds =
    let '(work, final) := classify (canon (filter (fun d => negb (p d)) (canon ds))) [] [] in
    levels (honest_fm p) (S (fold_right Nat.max O (map (fun e => length (snd e)) work))) 1%nat work final [canon ds].
  Proof. reflexivity. Qed.

  Lemma hier_fm_sim ds r asked :
    hier_fm (hb_fm b) ds = (r, asked) ->
    match r with
    | Ok res => (forall j, (j < length asked)%nat -> hb_fault j = 0)
                /\ hier_fm (honest_fm hb_present) ds = (Ok res, asked)
    | Err e => e <> 0 /\ exists j, hb_fault j = e
    | Panic => True
    end.
  Proof.
    intros H. unfold hier_fm in H.
    destruct (hb_fm_cases O (canon ds)) as [[Hf E]|[Hf E]]; rewrite E in H.
    - injection H as <- <-. split; [exact Hf|]. exists O. reflexivity.
    - rewrite hier_fm_honest_unfold. unfold honest_fm in H.
      destruct (classify _ [] []) as [work final].
      apply levels_sim in H; [exact H|reflexivity|].
      intros j Hj. assert (j = O) by lia. subst j. exact Hf.
  Qed.

  (** the monitor's view of the fault list *)
  Lemma firstn_faults_ok : forall (l : list sx) n,
    (forall j, (j < n)%nat -> sx_Z (nth j l (A 0)) = 0) ->
    existsb (fun f => negb (f =? 0)) (firstn n (map sx_Z l)) = false.
  Proof.
    induction l as [|x l IH]; intros n H; [destruct n; reflexivity|].
    destruct n as [|n]; [reflexivity|]. cbn [map firstn existsb].
    assert (Hx : sx_Z x = 0) by (apply (H O); lia). rewrite Hx. cbn [Z.eqb negb orb]. apply IH.
    intros j Hj. apply (H (S j)). lia.
  Qed.
  Lemma fault_in_faults j e :
    hb_fault j = e -> e <> 0 -> existsb (fun f => f =? e) (map sx_Z (sx_list (sx_nth b 2))) = true.
  Proof.
    unfold hb_fault. intros H He. apply existsb_exists. exists e. split; [|apply Z.eqb_refl].
    destruct (Nat.lt_ge_cases j (length (sx_list (sx_nth b 2)))) as [Hj|Hj].
    - rewrite <- H. apply in_map, nth_In. exact Hj.
    - rewrite nth_overflow in H by exact Hj. cbn in H. congruence.
  Qed.

  Theorem mon_hier_fm_silent op :
    sx_Z (sx_nth op 0) <> 0 -> sx_Z (sx_nth op 0) <> 1 ->
    mon_hier_op b op (run_hier_op b op) = [].
  Proof.
    intros H0 H1. unfold mon_hier_op, run_hier_op.
    destruct (sx_Z (sx_nth op 0)) as [|[p|p|]|p] eqn:Ek; try congruence.
    all: set (ds := dec_dgs (sx_nth op 1)).
    all: pose proof (hier_fm_sim ds) as Hsim.
    all: pose proof (hier_fm_no_panic (hb_fm b) ds (hb_fm_no_panic b)) as Hnp.
    all: destruct (hier_fm (hb_fm b) ds) as [r asked].
    all: specialize (Hsim r asked eq_refl); cbn [fst] in Hnp.
    all: destruct r as [res|e|]; [| |congruence].
    all: cbn [sx_nth sx_list nth sx_Z].
    all: try (destruct Hsim as [He [j Hj]];
              destruct (e =? 0) eqn:Ee; [apply Z.eqb_eq in Ee; congruence|];
              rewrite (fault_in_faults j e Hj He); reflexivity).
    all: destruct Hsim as [Hfa Hh]; cbn [Z.eqb]; rewrite map_length.
    all: rewrite (firstn_faults_ok _ _ Hfa).
    all: destruct (hier_fm_honest hb_present ds) as [res' [asked' [Hh' Hspec]]].
    all: rewrite Hh in Hh'; injection Hh' as <- <-.
    all: unfold dgs_eqb; rewrite dec_enc_dgs.
    all: match goal with |- (if sx_eqb (enc_dgs ?x) (enc_dgs ?y) then _ else _) = _ =>
           replace x with y; [rewrite sx_eqb_refl; reflexivity|] end.
    all: apply canon_ext; intros d; rewrite Hspec, filter_In, forallb_forall.
    all: fold ds; rewrite ancestors_rev.
    all: split; intros [Hd Ha]; (split; [exact Hd|]); intros a Hin.
    all: try (apply negb_true_iff; apply Ha; apply in_rev; exact Hin).
    all: try (apply in_rev in Hin; apply Ha in Hin; apply negb_true_iff in Hin; exact Hin).
  Qed.
End FindMissing.

(** ---- every operation, every backend description ---- *)
Theorem mon_hier_op_silent : forall b op, mon_hier_op b op (run_hier_op b op) = [].
Proof.
  intros b op.
  destruct (Z.eq_dec (sx_Z (sx_nth op 0)) 0) as [H0|H0]; [apply mon_hier_get_silent; exact H0|].
  destruct (Z.eq_dec (sx_Z (sx_nth op 0)) 1) as [H1|H1]; [apply mon_hier_gfc_silent; exact H1|].
  apply mon_hier_fm_silent; assumption.
Qed.

Lemma mon_hier_ops_silent b : forall ops,
  concat (zip_with (mon_hier_op b) ops (map (run_hier_op b) ops)) = [].
Proof.
  induction ops as [|op ops IH]; [reflexivity|].
  cbn [map zip_with concat]. rewrite mon_hier_op_silent, IH. reflexivity.
Qed.

(** ---- input level: every input whose kind is none of 0 (trie), 1 (patcher),
    2 (demultiplexer) is treated as a hierarchical-decorator input ---- *)
Theorem mon19_silent_on_hier_model : forall inp,
  sx_Z (sx_nth inp 0) <> 0 -> sx_Z (sx_nth inp 0) <> 1 -> sx_Z (sx_nth inp 0) <> 2 ->
  mon19 inp (run19 inp) = [].
Proof.
  intros inp H0 H1 H2. unfold mon19, run19.
  destruct (sx_Z (sx_nth inp 0)) as [|[[p|p|]|[p|p|]|]|p]; try congruence;
    cbn [sx_list]; apply mon_hier_ops_silent.
Qed.

Corollary mon19_silent_on_hier_model_kind3 : forall inp,
  sx_Z (sx_nth inp 0) = 3 -> mon19 inp (run19 inp) = [].
Proof. intros inp H. apply mon19_silent_on_hier_model; rewrite H; discriminate. Qed.
