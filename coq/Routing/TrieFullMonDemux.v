(** C19 — the demultiplexer part of the monitor [mon19] is silent on the
    model's own output (input kind 2).

    The monitor speaks at specification level ([owner], [rw_dg], [bfault],
    [bpresent]); the model at code level (trie lookup, string patcher,
    partition list of FindMissing).  They agree under two hypotheses:
      - [op_wf op]: every digest of the operation carries a well-formed
        instance name, [name_ok (split inst) = true] (for GetFromComposite only
        when parent and child carry the same name: otherwise the monitor is
        silent by definition);
      - [length cfg <= length bsx]: every owner index has a backend.
    Both are necessary (counterexamples at the end of the file).  Nothing is
    assumed of the configuration strings ([cfg_ok] is not needed: the patcher
    lemmas are redone here for component lists of arbitrary strings, [comps]),
    nor of the fault codes (negative ones included), nor of the backends'
    contents.

    Main results: [mon_demux_get_silent], [mon_demux_gfc_silent],
    [mon_demux_put_silent] (clauses 6 7 8), [mon_demux_fm_silent] (clauses 6 8
    9 10), [mon_demux_op_silent], [mon19_silent_on_demux_model]. *)
From Coq Require Import List ZArith NArith Bool Arith Lia.
From BBS Require Import Common.Sx Routing.Names Routing.NamesProofs Routing.Trie Routing.TrieProofs
  Routing.Patcher Routing.PatcherProofs Routing.Demux Routing.DemuxProofs Routing.HierProofs
  Routing.TrieFullMonCanon Run.R19.
Import ListNotations.
Open Scope Z_scope.

(** ------------------------------------------------------------ encodings *)

Lemma sx_eqb_refl : forall x, sx_eqb x x = true.
Proof.
  fix IH 1. intros [z|l].
  - apply Z.eqb_refl.
  - cbn. induction l as [|a l IHl]; [reflexivity|]. rewrite IH. exact IHl.
Qed.

Lemma sx_Ns_of_Ns s : sx_Ns (of_Ns s) = s.
Proof.
  unfold sx_Ns, of_Ns. cbn [sx_list]. rewrite map_map.
  induction s as [|x s IH]; [reflexivity|]. cbn [map]. rewrite IH. f_equal.
  unfold sx_N, of_N. cbn [sx_Z]. apply N2Z.id.
Qed.
Lemma dec_enc_dg d : dec_dg (enc_dg d) = d.
Proof.
  destruct d as [s b]. unfold dec_dg, enc_dg, dec_str, enc_str. cbn [fst snd sx_nth sx_list nth].
  rewrite sx_Ns_of_Ns. unfold sx_N, of_N. cbn [sx_Z]. rewrite N2Z.id. reflexivity.
Qed.
Lemma dec_enc_dgs l : dec_dgs (enc_dgs l) = l.
Proof.
  unfold dec_dgs, enc_dgs. cbn [sx_list]. rewrite map_map.
  induction l as [|d l IH]; [reflexivity|]. cbn [map]. rewrite dec_enc_dg, IH. reflexivity.
Qed.
Lemma sx_nat_of_nat i : sx_nat (of_nat i) = i.
Proof. unfold sx_nat, of_nat. cbn [sx_Z]. apply Nat2Z.id. Qed.
Lemma dgs_eqb_refl l : dgs_eqb l l = true.
Proof. apply sx_eqb_refl. Qed.

Definition call_of (c : call) : nat * Z * list digest :=
  match c with
  | CGet i d => (i, 0, [d])
  | CGfc i p c => (i, 1, [p; c])
  | CPut i d => (i, 2, [d])
  | CFm i ds => (i, 3, ds)
  end.
Lemma call_enc c : call_idx (enc_call c) = fst (fst (call_of c))
  /\ call_kind (enc_call c) = snd (fst (call_of c)) /\ call_dgs (enc_call c) = snd (call_of c).
Proof.
  destruct c; unfold call_idx, call_kind, call_dgs, enc_call; cbn [sx_nth sx_list nth call_of fst snd];
    rewrite sx_nat_of_nat, dec_enc_dgs; auto.
Qed.

Lemma ob_code c d calls : sx_Z (sx_nth (enc_op3 c d calls) 0) = sx_Z c.
Proof. reflexivity. Qed.
Lemma ob_data c d calls : sx_nth (enc_op3 c d calls) 1 = d.
Proof. reflexivity. Qed.
Lemma ob_calls c d calls : sx_list (sx_nth (enc_op3 c d calls) 2) = map enc_call calls.
Proof. reflexivity. Qed.

(** the four-way match on the operation code *)
Definition kind4 (z : Z) : nat :=
  match z with 0 => 0%nat | 1 => 1%nat | 2 => 2%nat | _ => 3%nat end.
Lemma zmatch4 {T} z (a0 a1 a2 d : T) :
  match z with 0 => a0 | 1 => a1 | 2 => a2 | _ => d end =
  match kind4 z with 0%nat => a0 | 1%nat => a1 | 2%nat => a2 | _ => d end.
Proof.
  destruct z as [|p|p]; try reflexivity; do 2 (try (destruct p as [p|p|]; try reflexivity)).
Qed.

(** ------------------------------------------------------- well-formedness *)

Definition dg_wf (d : digest) : bool := name_ok (split (fst d)).
(** GetFromComposite is specified only when parent and child carry the same name *)
Definition op_wf (op : sx) : bool :=
  match kind4 (sx_Z (sx_nth op 0)) with
  | 0%nat | 2%nat => dg_wf (dec_dg (sx_nth op 1))
  | 1%nat => if str_eqb (fst (dec_dg (sx_nth op 1))) (fst (dec_dg (sx_nth op 2)))
             then dg_wf (dec_dg (sx_nth op 1)) else true
  | _ => forallb dg_wf (dec_dgs (sx_nth op 1))
  end.
(** --------------------------------------------------------- the backends *)

Lemma mk_backends_nth bsx : forall k i, (i < length bsx)%nat ->
  nth_error (mk_backends k bsx) i = Some (mk_backend (k + i) (nth i bsx (L []))).
Proof.
  induction bsx as [|s r IH]; intros k i Hi; [cbn in Hi; lia|].
  destruct i as [|i]; cbn [mk_backends nth_error nth].
  - rewrite Nat.add_0_r. reflexivity.
  - rewrite IH by (cbn in Hi; lia). replace (S k + i)%nat with (k + S i)%nat by lia. reflexivity.
Qed.
Lemma b_get_mk i bsx d : b_get (mk_backend i (nth i bsx (L []))) d =
  if negb (bfault bsx i =? 0) then Err (bfault bsx i)
  else if dg_mem d (bpresent bsx i) then Ok (i, d) else Err NOT_FOUND.
Proof. reflexivity. Qed.
Lemma b_gfc_mk i bsx p c : b_gfc (mk_backend i (nth i bsx (L []))) p c =
  if negb (bfault bsx i =? 0) then Err (bfault bsx i)
  else if dg_mem p (bpresent bsx i) then Ok (i, c) else Err NOT_FOUND.
Proof. reflexivity. Qed.
Lemma b_put_mk i bsx d : b_put (mk_backend i (nth i bsx (L []))) d = bfault bsx i.
Proof. reflexivity. Qed.
Lemma b_fm_mk i bsx q : b_fm (mk_backend i (nth i bsx (L []))) q =
  if negb (bfault bsx i =? 0) then Err (bfault bsx i)
  else Ok (filter (fun d => negb (dg_mem d (bpresent bsx i))) q).
Proof. reflexivity. Qed.

(** ------------------------------------- the getter versus the specification *)

Lemma skipn_length_app {T} (a b : list T) : skipn (length a) (a ++ b) = b.
Proof. induction a; [reflexivity|exact IHa]. Qed.

(** The patcher on component lists of arbitrary strings.  [comps n]: [n] is the
    component list of its own string form; true of every well-formed name and of
    [split s] for every string [s] (so nothing is assumed of the configuration). *)
Definition comps (n : list comp) : Prop := split (join n) = n.
Lemma comps_split s : comps (split s).
Proof. unfold comps. rewrite join_split. reflexivity. Qed.
Lemma comps_nil n : comps n -> join n = [] -> n = [].
Proof. intros H E. rewrite <- H, E. reflexivity. Qed.

Lemma with_slash_join_g new c r :
  comps new -> with_slash (join new) ++ join (c :: r) = join (new ++ c :: r).
Proof.
  intros H. rewrite join_app_cons. destruct new as [|x new]; [reflexivity|].
  unfold with_slash. destruct (join (x :: new)) eqn:E.
  - apply (comps_nil _ H) in E. discriminate.
  - rewrite <- app_assoc. reflexivity.
Qed.

Lemma patch_str_g old new r :
  comps old -> comps new -> name_ok r = true ->
  patch_str (join (old ++ r)) (length (with_slash (join old))) (with_slash (join new)) (join new)
  = join (new ++ r).
Proof.
  intros Ho Hn Hr. unfold patch_str. destruct r as [|c r].
  - rewrite !app_nil_r. rewrite with_slash_length.
    destruct (join old) as [|x l] eqn:E; [reflexivity|].
    replace (Nat.ltb (S (length (x :: l))) (length (x :: l))) with false; [reflexivity|].
    symmetry. apply Nat.ltb_ge. lia.
  - assert (Hc : comp_ok c = true) by (cbn in Hr; apply andb_true_iff in Hr; tauto).
    pose proof (join_cons_nonempty c r Hc) as Hne.
    rewrite <- (with_slash_join_g old c r Ho), <- (with_slash_join_g new c r Hn).
    rewrite app_length.
    replace (Nat.ltb (length (with_slash (join old))) (length (with_slash (join old)) + length (join (c :: r)))) with true.
    + f_equal. rewrite skipn_app, skipn_all, Nat.sub_diag. reflexivity.
    + symmetry. apply Nat.ltb_lt. destruct (join (c :: r)); [congruence|]. cbn [length]. lia.
Qed.

Lemma patch_name_g old new r :
  comps old -> comps new -> name_ok r = true ->
  patch_name (new_patcher (join old) (join new)) (join (old ++ r)) = join (new ++ r).
Proof.
  intros Ho Hn Hr. unfold new_patcher. destruct (str_eqb (join old) (join new)) eqn:E.
  - apply str_eqb_eq in E. assert (old = new) as ->; [|reflexivity].
    transitivity (split (join old)); [symmetry; exact Ho|]. rewrite E. exact Hn.
  - cbn [patch_name]. apply patch_str_g; auto.
Qed.

(** On a well-formed name the getter either rejects it (no owner) or returns
    the owner's index and a patcher that computes the specification-level
    rewriting and is undone by unpatching.  Whatever the configuration. *)
Lemma gb_wf cfg inst : name_ok (split inst) = true ->
  (get_backend cfg inst = Err INVALID_ARGUMENT /\ owner cfg inst = -1) \/
  exists i key p, get_backend cfg inst = Ok (i, key, p) /\ owner cfg inst = Z.of_nat i /\
    (i < length cfg)%nat /\ patch_name p inst = rewrite cfg i inst /\
    unpatch_name p (patch_name p inst) = inst.
Proof.
  intros Hm. destruct (gb_cases cfg inst) as [H|[k [e [Hg [Hn [Ho _]]]]]]; [left; exact H|]. right.
  exists k, (fst e), (entry_patcher e). split; [exact Hg|]. split; [exact Ho|].
  split; [apply nth_error_Some; congruence|].
  destruct (owner_spec cfg inst) as [[Ho' _]|[k' [e' [Ho' [Hn' [Hp _]]]]]]; [rewrite Ho in Ho'; lia|].
  rewrite Ho in Ho'. apply Nat2Z.inj in Ho'. subst k'. rewrite Hn in Hn'. injection Hn' as <-.
  apply is_prefix_iff in Hp as [r Hs].
  assert (Hr : name_ok r = true).
  { rewrite Hs, name_ok_app in Hm. apply andb_true_iff in Hm. tauto. }
  assert (Hinst : inst = join (split (fst e) ++ r)) by (rewrite <- Hs; symmetry; apply join_split).
  assert (Hpat : entry_patcher e = new_patcher (join (split (fst e))) (join (split (snd e))))
    by (rewrite !join_split; reflexivity).
  split.
  - unfold rewrite. rewrite Hn, Hs, skipn_length_app, Hpat, Hinst.
    apply patch_name_g; auto using comps_split.
  - rewrite Hpat, Hinst. rewrite patch_name_g, unpatch_name_swap, patch_name_g; auto using comps_split.
Qed.

(** --------------------------------------------------- single-digest operations *)

(** the monitor of Get / GetFromComposite / Put, with the observation taken apart *)
Definition mon_single (cfg : list centry) (bsx : list sx) (code : Z) (data : sx) (calls : list sx)
    (kind : Z) (d : digest) (others : list digest) : list Z :=
  let o := owner cfg (fst d) in
  if o <? 0 then (if (code =? INVALID_ARGUMENT) && is_nil calls then [] else [6])
  else
    let i := Z.to_nat o in
    let want := map (rw_dg cfg i) (d :: others) in
    let sent_ok := match calls with
                   | [c] => Nat.eqb (call_idx c) i && (call_kind c =? kind) && dgs_eqb (call_dgs c) want
                   | _ => false
                   end in
    (if sent_ok then [] else [7]) ++
    (let f := bfault bsx i in
     let has := dg_mem (rw_dg cfg i d) (bpresent bsx i) in
     match kind with
     | 2 => if code =? f then [] else [8]
     | _ =>
         if negb (f =? 0) then (if code =? f then [] else [8])
         else if has then
           (if (code =? 0) && sx_eqb data (let r := last want d in L [of_nat i; enc_str (fst r); of_N (snd r)])
            then [] else [8])
         else (if code =? NOT_FOUND then [] else [8])
     end).

Definition own (cfg : list centry) (d : digest) : nat := Z.to_nat (owner cfg (fst d)).
(** clause 10: every call is a FindMissing about rewritten digests its backend owns, at most one per backend *)
Definition c10 (cfg : list centry) (ds : list digest) (calls : list sx) : bool :=
  forallb (fun c => (call_kind c =? 3)
                    && subset (call_dgs c)
                              (map (rw_dg cfg (call_idx c))
                                   (filter (fun d => Nat.eqb (own cfg d) (call_idx c)) ds))) calls
  && nodup_nat (map call_idx calls).
Definition c8 (bsx : list sx) (code : Z) (owners : list nat) : bool :=
  existsb (fun i => (code =? bfault bsx i) && negb (code =? 0)) owners.
Definition c9 (cfg : list centry) (bsx : list sx) (code : Z) (data : sx) (calls : list sx) (ds : list digest) : bool :=
  (code =? 0)
  && dgs_eqb (canon (dec_dgs data))
       (canon (filter (fun d => negb (dg_mem (rw_dg cfg (own cfg d) d) (bpresent bsx (own cfg d)))) ds))
  && forallb (fun i => existsb (fun c => Nat.eqb (call_idx c) i) calls) (map (own cfg) ds).

(** the monitor of FindMissing, with the observation taken apart *)
Definition mon_fm (cfg : list centry) (bsx : list sx) (code : Z) (data : sx) (calls : list sx)
    (ds0 : list digest) : list Z :=
  let ds := canon ds0 in
  if existsb (fun d => owner cfg (fst d) <? 0) ds
  then (if (code =? INVALID_ARGUMENT) && is_nil calls then [] else [6])
  else
    (if c10 cfg ds calls then [] else [10]) ++
    (if existsb (fun i => negb (bfault bsx i =? 0)) (map (own cfg) ds) then
       (if c8 bsx code (map (own cfg) ds) then [] else [8])
     else
       (if c9 cfg bsx code data calls ds then [] else [9])).

Lemma mon_demux_op_eq cfg bsx op ob :
  mon_demux_op cfg bsx op ob =
  let code := sx_Z (sx_nth ob 0) in
  let data := sx_nth ob 1 in
  let calls := sx_list (sx_nth ob 2) in
  match kind4 (sx_Z (sx_nth op 0)) with
  | 0%nat => mon_single cfg bsx code data calls 0 (dec_dg (sx_nth op 1)) []
  | 1%nat => if str_eqb (fst (dec_dg (sx_nth op 1))) (fst (dec_dg (sx_nth op 2)))
             then mon_single cfg bsx code data calls 1 (dec_dg (sx_nth op 1)) [dec_dg (sx_nth op 2)] else []
  | 2%nat => mon_single cfg bsx code data calls 2 (dec_dg (sx_nth op 1)) []
  | _ => mon_fm cfg bsx code data calls (dec_dgs (sx_nth op 1))
  end.
Proof. unfold mon_demux_op. rewrite zmatch4. reflexivity. Qed.

Lemma run_demux_op_eq cfg bs op :
  run_demux_op cfg bs op =
  match kind4 (sx_Z (sx_nth op 0)) with
  | 0%nat => let '(r, calls) := demux_get cfg bs (dec_dg (sx_nth op 1)) in
             let '(c, d) := enc_data r in enc_op3 c d calls
  | 1%nat => let '(r, calls) := demux_gfc cfg bs (dec_dg (sx_nth op 1)) (dec_dg (sx_nth op 2)) in
             let '(c, d) := enc_data r in enc_op3 c d calls
  | 2%nat => let '(r, calls) := demux_put cfg bs (dec_dg (sx_nth op 1)) in
             match r with
             | Ok (code, discarded) => enc_op3 (A code) (L [A (if discarded then 2 else 1)]) calls
             | _ => enc_op3 (A (-1)) (L []) calls
             end
  | _ => let '(r, calls) := demux_fm cfg bs (dec_dgs (sx_nth op 1)) in
         match r with
         | Ok ms => enc_op3 (A 0) (enc_dgs ms) calls
         | Err e => enc_op3 (A e) (L []) calls
         | Panic => enc_op3 (A (-1)) (L []) calls
         end
  end.
Proof. unfold run_demux_op. rewrite zmatch4. reflexivity. Qed.

(** unknown name: InvalidArgument and no call *)
Lemma mon_single_unknown cfg bsx data kind d others :
  owner cfg (fst d) = -1 -> mon_single cfg bsx INVALID_ARGUMENT data [] kind d others = [].
Proof. intros H. unfold mon_single. rewrite H. reflexivity. Qed.

(** known name: what the monitor accepts *)
Lemma mon_single_known cfg bsx (code data : sx) c kind d others i :
  owner cfg (fst d) = Z.of_nat i ->
  call_of c = (i, kind, map (rw_dg cfg i) (d :: others)) ->
  (kind = 2 /\ code = A (bfault bsx i)
   \/ kind <> 2 /\
      (code, data) = enc_data (if negb (bfault bsx i =? 0) then Err (bfault bsx i)
                               else if dg_mem (rw_dg cfg i d) (bpresent bsx i)
                                    then Ok (i, last (map (rw_dg cfg i) (d :: others)) d) else Err NOT_FOUND)) ->
  mon_single cfg bsx (sx_Z code) data [enc_call c] kind d others = [].
Proof.
  intros Ho Hc Hr. unfold mon_single. rewrite Ho.
  replace (Z.of_nat i <? 0) with false by (symmetry; apply Z.ltb_ge; lia).
  rewrite Nat2Z.id. cbv zeta.
  destruct (call_enc c) as [E1 [E2 E3]]. rewrite E1, E2, E3, Hc. cbn [fst snd].
  rewrite Nat.eqb_refl, Z.eqb_refl, dgs_eqb_refl. cbn [andb app].
  destruct Hr as [[-> ->]|[Hk Hr]].
  - cbn [sx_Z]. rewrite Z.eqb_refl. reflexivity.
  - assert (Hgoal : (if negb (bfault bsx i =? 0) then (if sx_Z code =? bfault bsx i then [] else [8])
           else if dg_mem (rw_dg cfg i d) (bpresent bsx i) then
             (if (sx_Z code =? 0) && sx_eqb data (let r := last (map (rw_dg cfg i) (d :: others)) d in
                                            L [of_nat i; enc_str (fst r); of_N (snd r)])
              then [] else [8])
           else (if sx_Z code =? NOT_FOUND then [] else [8])) = @nil Z).
    { destruct (negb (bfault bsx i =? 0)).
      - injection Hr as -> ->. cbn [sx_Z]. rewrite Z.eqb_refl. reflexivity.
      - destruct (dg_mem (rw_dg cfg i d) (bpresent bsx i)).
        + injection Hr as -> ->. cbn [sx_Z fst snd]. cbv zeta. rewrite sx_eqb_refl. reflexivity.
        + injection Hr as -> ->. reflexivity. }
    destruct kind as [|p|p]; try exact Hgoal.
    destruct p as [p|p|]; try exact Hgoal. destruct p; try exact Hgoal. congruence.
Qed.

Section Single.
  Variable cfg : list centry.
  Variable bsx : list sx.
  Hypothesis Hlen : (length cfg <= length bsx)%nat.
  Notation bs := (mk_backends 0 bsx).

  Lemma bs_nth i : (i < length cfg)%nat -> nth_error bs i = Some (mk_backend i (nth i bsx (L []))).
  Proof. intros Hi. rewrite mk_backends_nth by lia. reflexivity. Qed.

  Lemma patch_rw p i (d c : digest) : patch_name p (fst d) = rewrite cfg i (fst d) -> fst c = fst d ->
    patch_digest p c = rw_dg cfg i c.
  Proof. intros H E. unfold patch_digest, rw_dg. rewrite E, H. reflexivity. Qed.

  Theorem mon_demux_get_silent op : kind4 (sx_Z (sx_nth op 0)) = 0%nat -> op_wf op = true ->
    mon_demux_op cfg bsx op (run_demux_op cfg bs op) = [].
  Proof.
    intros Hk Hwf. rewrite mon_demux_op_eq, run_demux_op_eq. unfold op_wf in Hwf. rewrite Hk in *.
    set (d := dec_dg (sx_nth op 1)) in *. unfold demux_get.
    destruct (gb_wf cfg (fst d) Hwf) as [[Hg Ho]|[i [key [p [Hg [Ho [Hi [Hp Hu]]]]]]]]; rewrite Hg.
    - cbn [enc_data]. cbv zeta. rewrite ob_code, ob_data, ob_calls. cbn [map sx_Z].
      apply mon_single_unknown. exact Ho.
    - unfold with_backend. rewrite (bs_nth i Hi), b_get_mk.
      rewrite (patch_rw p i d d Hp eq_refl).
      destruct (enc_data _) as [c dd] eqn:Ed. cbv zeta. rewrite ob_code, ob_data, ob_calls. cbn [map].
      apply mon_single_known with (i := i); [exact Ho|reflexivity|].
      right. split; [discriminate|]. rewrite <- Ed. reflexivity.
  Qed.

  Theorem mon_demux_put_silent op : kind4 (sx_Z (sx_nth op 0)) = 2%nat -> op_wf op = true ->
    mon_demux_op cfg bsx op (run_demux_op cfg bs op) = [].
  Proof.
    intros Hk Hwf. rewrite mon_demux_op_eq, run_demux_op_eq. unfold op_wf in Hwf. rewrite Hk in *.
    set (d := dec_dg (sx_nth op 1)) in *. unfold demux_put.
    destruct (gb_wf cfg (fst d) Hwf) as [[Hg Ho]|[i [key [p [Hg [Ho [Hi [Hp Hu]]]]]]]]; rewrite Hg.
    - cbv zeta. rewrite ob_code, ob_data, ob_calls. cbn [map sx_Z].
      apply mon_single_unknown. exact Ho.
    - unfold with_backend. rewrite (bs_nth i Hi), b_put_mk.
      rewrite (patch_rw p i d d Hp eq_refl).
      cbv zeta. rewrite ob_code, ob_data, ob_calls. cbn [map].
      apply mon_single_known with (i := i); [exact Ho|reflexivity|].
      left. split; reflexivity.
  Qed.

  Theorem mon_demux_gfc_silent op : kind4 (sx_Z (sx_nth op 0)) = 1%nat -> op_wf op = true ->
    mon_demux_op cfg bsx op (run_demux_op cfg bs op) = [].
  Proof.
    intros Hk Hwf. rewrite mon_demux_op_eq, run_demux_op_eq. unfold op_wf in Hwf. rewrite Hk in *.
    set (d := dec_dg (sx_nth op 1)) in *. set (cd := dec_dg (sx_nth op 2)) in *.
    cbv zeta. destruct (str_eqb (fst d) (fst cd)) eqn:En.
    2:{ destruct (demux_gfc cfg bs d cd) as [r calls]. destruct (enc_data r). reflexivity. }
    apply str_eqb_eq in En. unfold demux_gfc.
    destruct (gb_wf cfg (fst d) Hwf) as [[Hg Ho]|[i [key [p [Hg [Ho [Hi [Hp Hu]]]]]]]]; rewrite Hg.
    - cbn [enc_data]. cbv zeta. rewrite ob_code, ob_data, ob_calls. cbn [map sx_Z].
      apply mon_single_unknown. exact Ho.
    - unfold with_backend. rewrite (bs_nth i Hi), b_gfc_mk.
      rewrite (patch_rw p i d d Hp eq_refl), (patch_rw p i d cd Hp (eq_sym En)).
      destruct (enc_data _) as [c dd] eqn:Ed. cbv zeta. rewrite ob_code, ob_data, ob_calls. cbn [map].
      apply mon_single_known with (i := i); [exact Ho|reflexivity|].
      right. split; [discriminate|]. rewrite <- Ed. reflexivity.
  Qed.
End Single.

(** ------------------------------------------------------------ FindMissing *)

Lemma existsb_false {T} (f : T -> bool) l : existsb f l = false <-> forall x, In x l -> f x = false.
Proof.
  induction l as [|a l IH]; cbn; [split; [intros _ ? []|reflexivity]|].
  rewrite orb_false_iff, IH. split.
  - intros [Ha Hl] x [<-|Hx]; auto.
  - intros H. split; [apply H; left; reflexivity|intros x Hx; apply H; right; exact Hx].
Qed.
Lemma NoDup_map_inj2 {T U V} (f : T -> U) (g : T -> V) l :
  NoDup (map f l) -> (forall x y, In x l -> In y l -> g x = g y -> f x = f y) -> NoDup (map g l).
Proof.
  induction l as [|a l IH]; cbn [map]; intros Hnd Hinj; [constructor|].
  inversion Hnd as [|? ? Hn Hr]; subst. constructor.
  - intros Hin. apply in_map_iff in Hin as [y [Hy Hyl]]. apply Hn. apply in_map_iff. exists y. split; [|exact Hyl].
    apply Hinj; [right; exact Hyl|left; reflexivity|exact Hy].
  - apply IH; [exact Hr|]. intros x y Hx Hy. apply Hinj; right; assumption.
Qed.
Lemma NoDup_app_l {T} (a b : list T) : NoDup (a ++ b) -> NoDup a.
Proof.
  induction a as [|x a IH]; intros H; [constructor|]. cbn in H. inversion H as [|? ? Hn Hr]; subst. constructor.
  - intros Hin. apply Hn. apply in_or_app. left. exact Hin.
  - apply IH. exact Hr.
Qed.
Lemma nodup_nat_NoDup l : NoDup l -> nodup_nat l = true.
Proof.
  induction 1 as [|x l Hn Hnd IH]; [reflexivity|]. cbn [nodup_nat]. rewrite IH, andb_true_r.
  apply negb_true_iff, existsb_false. intros y Hy. apply Nat.eqb_neq. intros ->. contradiction.
Qed.
Lemma first_bad {T} (f : T -> Z) l : (exists x, In x l /\ f x <> 0) ->
  exists l1 x l2, l = l1 ++ x :: l2 /\ (forall y, In y l1 -> f y = 0) /\ f x <> 0.
Proof.
  induction l as [|a l IH]; intros [x [Hx Hf]]; [destruct Hx|].
  destruct (Z.eq_dec (f a) 0) as [Ea|Ea].
  - destruct IH as [l1 [y [l2 [-> [H1 H2]]]]].
    + destruct Hx as [<-|Hx]; [contradiction|eauto].
    + exists (a :: l1), y, l2. split; [reflexivity|]. split; [|exact H2]. intros z [<-|Hz]; auto.
  - exists [], a, l. split; [reflexivity|]. split; [intros ? []|exact Ea].
Qed.

(** every partition was opened for one of the digests seen so far *)
Definition Inv2 (cfg : list centry) (seen : list digest) (parts : list partition) : Prop :=
  forall pt, In pt parts -> exists d, In d seen /\ get_backend cfg (fst d) = Ok (tag pt).

Lemma add_to_tag parts key d pt' : In pt' (add_to parts key d) -> exists pt, In pt parts /\ tag pt' = tag pt.
Proof.
  induction parts as [|pt0 r IH]; [intros []|]. cbn [add_to]. destruct (str_eqb (p_key pt0) key).
  - intros [<-|Hin]; [exists pt0; split; [left; reflexivity|reflexivity]|exists pt'; split; [right; exact Hin|reflexivity]].
  - intros [<-|Hin]; [exists pt0; split; [left; reflexivity|reflexivity]|].
    destruct (IH Hin) as [pt [Hp Ht]]. exists pt. split; [right; exact Hp|exact Ht].
Qed.
Lemma Inv2_mono cfg seen l parts : Inv2 cfg seen parts -> Inv2 cfg (seen ++ l) parts.
Proof. intros H pt Hp. destruct (H pt Hp) as [d [Hd Hg]]. exists d. split; [apply in_or_app; left; exact Hd|exact Hg]. Qed.
Lemma Inv2_add_to cfg seen parts key d : Inv2 cfg seen parts -> Inv2 cfg seen (add_to parts key d).
Proof. intros H pt' Hp. destruct (add_to_tag _ _ _ _ Hp) as [pt [Hpt ->]]. apply H. exact Hpt. Qed.

Lemma fm_partition_inv2 cfg : forall ds seen cache parts parts',
  Inv2 cfg seen parts -> fm_partition cfg ds cache parts = Ok parts' -> Inv2 cfg (seen ++ ds) parts'.
Proof.
  induction ds as [|d r IH]; intros seen cache parts parts' HI Hf.
  - cbn in Hf. injection Hf as <-. rewrite app_nil_r. exact HI.
  - cbn [fm_partition] in Hf. replace (seen ++ d :: r) with ((seen ++ [d]) ++ r) by (rewrite <- app_assoc; reflexivity).
    destruct (cache_find cache (fst d)) as [key|].
    + eapply IH; [|exact Hf]. apply Inv2_add_to, Inv2_mono, HI.
    + destruct (get_backend cfg (fst d)) as [[[idx key] p]|e|] eqn:Eg; try discriminate.
      eapply IH; [|exact Hf]. apply Inv2_add_to.
      destruct (has_part parts key); [apply Inv2_mono, HI|].
      intros pt Hp. apply in_app_iff in Hp as [Hp|[<-|[]]].
      * apply (Inv2_mono cfg seen [d] parts HI). exact Hp.
      * exists d. split; [apply in_or_app; right; left; reflexivity|exact Eg].
Qed.

(** the second loop against the oracle backends *)
Definition fm_call_of (pt : partition) : call := CFm (p_idx pt) (canon (p_digs pt)).
Definition fm_answer (bsx : list sx) (pt : partition) : list digest :=
  map (unpatch_digest (p_patcher pt))
      (filter (fun d => negb (dg_mem d (bpresent bsx (p_idx pt)))) (canon (p_digs pt))).

Lemma fm_calls_ok bsx : forall parts acc calls,
  (forall pt, In pt parts -> (p_idx pt < length bsx)%nat /\ bfault bsx (p_idx pt) = 0) ->
  fm_calls (mk_backends 0 bsx) parts acc calls
  = (Ok (canon (acc ++ flat_map (fm_answer bsx) parts)), calls ++ map fm_call_of parts).
Proof.
  induction parts as [|pt r IH]; intros acc calls H.
  - cbn. rewrite !app_nil_r. reflexivity.
  - destruct (H pt (or_introl eq_refl)) as [Hi Hf].
    cbn [fm_calls]. cbv zeta. unfold with_backend. rewrite (mk_backends_nth bsx 0 _ Hi). cbn [Nat.add].
    rewrite b_fm_mk, Hf. cbn [Z.eqb negb].
    rewrite IH by (intros x Hx; apply H; right; exact Hx).
    cbn [flat_map map]. rewrite <- !app_assoc. reflexivity.
Qed.

Lemma fm_calls_fault bsx : forall p1 pt p2 acc calls,
  (forall x, In x (p1 ++ [pt]) -> (p_idx x < length bsx)%nat) ->
  (forall x, In x p1 -> bfault bsx (p_idx x) = 0) -> bfault bsx (p_idx pt) <> 0 ->
  fm_calls (mk_backends 0 bsx) (p1 ++ pt :: p2) acc calls
  = (Err (bfault bsx (p_idx pt)), calls ++ map fm_call_of (p1 ++ [pt])).
Proof.
  induction p1 as [|x r IH]; intros pt p2 acc calls Hi H0 Hf.
  - cbn [app fm_calls]. cbv zeta. unfold with_backend.
    rewrite (mk_backends_nth bsx 0 _ (Hi pt (or_introl eq_refl))). cbn [Nat.add].
    rewrite b_fm_mk. apply Z.eqb_neq in Hf. rewrite Hf. reflexivity.
  - cbn [app fm_calls]. cbv zeta. unfold with_backend.
    rewrite (mk_backends_nth bsx 0 _ (Hi x (or_introl eq_refl))). cbn [Nat.add].
    rewrite b_fm_mk, (H0 x (or_introl eq_refl)). cbn [Z.eqb negb].
    rewrite IH; [|intros y Hy; apply Hi; right; exact Hy|intros y Hy; apply H0; right; exact Hy|exact Hf].
    cbn [map]. rewrite <- !app_assoc. reflexivity.
Qed.

Lemma gb_own cfg d i key p : get_backend cfg (fst d) = Ok (i, key, p) -> own cfg d = i /\ (i < length cfg)%nat.
Proof.
  intros Hg. destruct (gb_cases cfg (fst d)) as [[E _]|[k [e [E [Hn [Ho _]]]]]]; [congruence|].
  rewrite E in Hg. injection Hg as <- _ _. unfold own. rewrite Ho, Nat2Z.id.
  split; [reflexivity|apply nth_error_Some; congruence].
Qed.

Lemma gb_wf_dg cfg d i key p : dg_wf d = true -> get_backend cfg (fst d) = Ok (i, key, p) ->
  patch_digest p d = rw_dg cfg i d /\ unpatch_digest p (rw_dg cfg i d) = d.
Proof.
  intros Hwf Hg. destruct (gb_wf cfg (fst d) Hwf) as [[E _]|[i' [key' [p' [E [_ [_ [Hp Hu]]]]]]]]; [congruence|].
  rewrite E in Hg. injection Hg as -> -> ->.
  assert (H : patch_digest p d = rw_dg cfg i d) by (apply (patch_rw cfg p i d d Hp eq_refl)).
  split; [exact H|]. rewrite <- H. unfold unpatch_digest, patch_digest. cbn [fst snd]. rewrite Hu.
  destruct d; reflexivity.
Qed.

(** what the partition list of a successful first loop looks like, in specification terms *)
Section Parts.
  Variable cfg : list centry.
  Variable ds : list digest.
  Variable cache : list (str * str).
  Variable parts : list partition.
  Hypothesis Hwf : forall d, In d ds -> dg_wf d = true.
  Hypothesis HI : Inv cfg ds cache parts.
  Hypothesis HI2 : Inv2 cfg ds parts.

  Lemma part_owner pt : In pt parts ->
    (p_idx pt < length cfg)%nat /\ exists d, In d ds /\ own cfg d = p_idx pt.
  Proof.
    intros Hp. destruct (HI2 pt Hp) as [d [Hd Hg]]. unfold tag in Hg.
    destruct (gb_own _ _ _ _ _ Hg) as [Ho Hi]. split; [exact Hi|]. exists d. auto.
  Qed.

  Lemma parts_nodup : NoDup (map p_idx parts).
  Proof.
    destruct HI as [_ [C2 [C3 _]]]. apply (NoDup_map_inj2 p_key p_idx parts C3).
    intros x y Hx Hy E. destruct (C2 x Hx) as [ix Hgx]. destruct (C2 y Hy) as [iy Hgy].
    unfold tag in *. rewrite E in Hgx. destruct (gb_idx_det _ _ _ _ _ _ _ _ Hgx Hgy) as [Hk _]. exact Hk.
  Qed.

  Lemma part_digs pt y : In pt parts -> In y (p_digs pt) ->
    exists d, In d ds /\ own cfg d = p_idx pt /\ y = rw_dg cfg (p_idx pt) d /\ unpatch_digest (p_patcher pt) y = d.
  Proof.
    intros Hp Hy. destruct HI as [_ [C2 [_ [C4 _]]]].
    apply (C4 pt Hp) in Hy as [d [Hd [[i [p Hg]] ->]]].
    destruct (C2 pt Hp) as [inst Hi]. unfold tag in Hi.
    destruct (gb_det _ _ _ _ _ _ _ _ Hg Hi) as [-> ->].
    destruct (gb_own _ _ _ _ _ Hg) as [Ho _].
    destruct (gb_wf_dg _ _ _ _ _ (Hwf d Hd) Hg) as [Hpd Hud].
    exists d. rewrite Hpd. auto.
  Qed.

  Lemma dig_part d : In d ds ->
    exists pt, In pt parts /\ p_idx pt = own cfg d /\ In (rw_dg cfg (own cfg d) d) (p_digs pt)
               /\ unpatch_digest (p_patcher pt) (rw_dg cfg (own cfg d) d) = d.
  Proof.
    intros Hd. destruct HI as [_ [C2 [_ [C4 C5]]]].
    destruct (C5 d Hd) as [i [key [p [Hg Hh]]]].
    apply has_part_In in Hh as [pt [Hp Hk]].
    destruct (C2 pt Hp) as [inst Hi]. unfold tag in Hi. rewrite Hk in Hi.
    destruct (gb_det _ _ _ _ _ _ _ _ Hg Hi) as [Ei Ep].
    destruct (gb_own _ _ _ _ _ Hg) as [Ho _].
    destruct (gb_wf_dg _ _ _ _ _ (Hwf d Hd) Hg) as [Hpd Hud].
    exists pt. rewrite Ho, <- Ei, <- Ep. split; [exact Hp|]. split; [reflexivity|]. split; [|exact Hud].
    apply (C4 pt Hp). exists d. split; [exact Hd|]. split; [rewrite Hk; eauto|]. rewrite <- Ep. symmetry. exact Hpd.
  Qed.

  (** clause 10 holds of the calls made for any duplicate-free selection of the partitions *)
  Lemma c10_ok q : (forall pt, In pt q -> In pt parts) -> NoDup (map p_idx q) ->
    c10 cfg ds (map enc_call (map fm_call_of q)) = true.
  Proof.
    intros Hq Hnd. unfold c10. apply andb_true_iff. split.
    - apply forallb_forall. intros c Hc. apply in_map_iff in Hc as [c' [<- Hc]].
      apply in_map_iff in Hc as [pt [<- Hp]].
      destruct (call_enc (fm_call_of pt)) as [E1 [E2 E3]]. rewrite E1, E2, E3.
      cbn [fm_call_of call_of fst snd]. rewrite Z.eqb_refl. cbn [andb].
      unfold subset. apply forallb_forall. intros y Hy. rewrite canon_In in Hy.
      destruct (part_digs pt y (Hq pt Hp) Hy) as [d [Hd [Ho [-> _]]]].
      apply dg_mem_In, in_map, filter_In. split; [exact Hd|apply Nat.eqb_eq; exact Ho].
    - apply nodup_nat_NoDup. rewrite !map_map.
      erewrite map_ext; [exact Hnd|]. intros pt. cbv beta.
      destruct (call_enc (fm_call_of pt)) as [E1 _]. rewrite E1. reflexivity.
  Qed.

  Lemma owners_called :
    forallb (fun i => existsb (fun c => Nat.eqb (call_idx c) i) (map enc_call (map fm_call_of parts)))
            (map (own cfg) ds) = true.
  Proof.
    apply forallb_forall. intros i Hi. apply in_map_iff in Hi as [d [<- Hd]].
    destruct (dig_part d Hd) as [pt [Hp [Hidx _]]].
    apply existsb_exists. exists (enc_call (fm_call_of pt)). split; [apply in_map, in_map; exact Hp|].
    destruct (call_enc (fm_call_of pt)) as [E1 _]. rewrite E1. cbn [fm_call_of call_of fst]. apply Nat.eqb_eq. exact Hidx.
  Qed.

  (** clause 9: the union of the honest answers, in the caller's names *)
  Lemma answers_spec bsx x :
    In x (canon (flat_map (fm_answer bsx) parts)) <->
    In x (filter (fun d => negb (dg_mem (rw_dg cfg (own cfg d) d) (bpresent bsx (own cfg d)))) ds).
  Proof.
    rewrite canon_In, in_flat_map, filter_In. split.
    - intros [pt [Hp Hx]]. unfold fm_answer in Hx. apply in_map_iff in Hx as [y [<- Hy]].
      apply filter_In in Hy as [Hy Hm]. rewrite canon_In in Hy.
      destruct (part_digs pt y Hp Hy) as [d [Hd [Ho [Hyd ->]]]].
      split; [exact Hd|]. rewrite Ho, <- Hyd. exact Hm.
    - intros [Hd Hm]. destruct (dig_part x Hd) as [pt [Hp [Hidx [Hin Hun]]]].
      exists pt. split; [exact Hp|]. unfold fm_answer. apply in_map_iff.
      exists (rw_dg cfg (own cfg x) x). split; [exact Hun|]. apply filter_In. split; [rewrite canon_In; exact Hin|].
      rewrite Hidx. exact Hm.
  Qed.
End Parts.

Lemma mon_fm_accept cfg bsx code data calls ds0 :
  existsb (fun d => owner cfg (fst d) <? 0) (canon ds0) = false ->
  c10 cfg (canon ds0) calls = true ->
  (if existsb (fun i => negb (bfault bsx i =? 0)) (map (own cfg) (canon ds0))
   then c8 bsx code (map (own cfg) (canon ds0)) = true
   else c9 cfg bsx code data calls (canon ds0) = true) ->
  mon_fm cfg bsx code data calls ds0 = [].
Proof.
  intros H6 H10 H. unfold mon_fm. cbv zeta. rewrite H6, H10.
  destruct (existsb (fun i => negb (bfault bsx i =? 0)) (map (own cfg) (canon ds0))); rewrite H; reflexivity.
Qed.

Section FindMissing.
  Variable cfg : list centry.
  Variable bsx : list sx.
  Hypothesis Hlen : (length cfg <= length bsx)%nat.
  Notation bs := (mk_backends 0 bsx).

  Theorem mon_demux_fm_silent op : kind4 (sx_Z (sx_nth op 0)) = 3%nat -> op_wf op = true ->
    mon_demux_op cfg bsx op (run_demux_op cfg bs op) = [].
  Proof.
    intros Hk Hwf. rewrite mon_demux_op_eq, run_demux_op_eq. unfold op_wf in Hwf. rewrite Hk in *.
    set (ds0 := dec_dgs (sx_nth op 1)) in *. unfold demux_fm.
    assert (Hwf' : forall d, In d (canon ds0) -> dg_wf d = true).
    { intros d Hd. rewrite canon_In in Hd. rewrite forallb_forall in Hwf. apply Hwf. exact Hd. }
    destruct (fm_partition_spec cfg (canon ds0) [] [] [] (Inv_init cfg))
      as [[parts [cache [Hp [HI Hok]]]]|[Hp [d0 [Hd0 Hg0]]]]; rewrite Hp.
    2:{ (* an unknown name *)
      cbv zeta. rewrite ob_code, ob_data, ob_calls. cbn [map sx_Z]. unfold mon_fm. cbv zeta.
      replace (existsb (fun d => owner cfg (fst d) <? 0) (canon ds0)) with true; [reflexivity|].
      symmetry. apply existsb_exists. exists d0. split; [exact Hd0|].
      destruct (gb_cases cfg (fst d0)) as [[_ E]|[k [e [E _]]]]; [rewrite E; reflexivity|congruence]. }
    cbn [app] in HI.
    pose proof (fm_partition_inv2 cfg (canon ds0) [] [] [] parts (fun pt (H : In pt []) => match H with end) Hp) as HI2.
    cbn [app] in HI2.
    assert (H6 : existsb (fun d => owner cfg (fst d) <? 0) (canon ds0) = false).
    { apply existsb_false. intros d Hd. destruct (Hok d Hd) as [t Ht].
      destruct (gb_cases cfg (fst d)) as [[E _]|[k [e [_ [_ [E _]]]]]]; [congruence|].
      rewrite E. apply Z.ltb_ge. lia. }
    assert (Hrange : forall pt, In pt parts -> (p_idx pt < length bsx)%nat).
    { intros pt Hpt. destruct (part_owner cfg _ parts HI2 pt Hpt) as [Hi _]. lia. }
    destruct (existsb (fun i => negb (bfault bsx i =? 0)) (map (own cfg) (canon ds0))) eqn:Ef.
    - (* some owner fails: the model stops at the first failing partition *)
      apply existsb_exists in Ef as [i [Hi Hf]]. apply in_map_iff in Hi as [d [<- Hd]].
      destruct (dig_part cfg _ cache parts Hwf' HI d Hd) as [pt [Hpt [Hidx _]]].
      destruct (first_bad (fun pt => bfault bsx (p_idx pt)) parts) as [p1 [x [p2 [Eparts [H1 Hx]]]]].
      { exists pt. split; [exact Hpt|]. rewrite Hidx. apply negb_true_iff, Z.eqb_neq in Hf. exact Hf. }
      assert (Hsub : forall y, In y (p1 ++ [x]) -> In y parts).
      { intros y Hy. rewrite Eparts. apply in_app_iff in Hy as [Hy|[<-|[]]]; apply in_or_app; [left; exact Hy|right; left; reflexivity]. }
      rewrite Eparts, fm_calls_fault; [|intros y Hy; apply Hrange, Hsub, Hy|exact H1|exact Hx].
      cbv zeta. rewrite ob_code, ob_data, ob_calls. cbn [sx_Z app].
      apply mon_fm_accept; [exact H6| |].
      + apply (c10_ok cfg _ cache parts Hwf' HI); [exact Hsub|].
        pose proof (parts_nodup cfg _ cache parts HI) as Hnd.
        rewrite Eparts in Hnd. replace (p1 ++ x :: p2) with ((p1 ++ [x]) ++ p2) in Hnd by (rewrite <- app_assoc; reflexivity).
        rewrite map_app in Hnd. apply NoDup_app_l in Hnd. exact Hnd.
      + replace (existsb (fun i => negb (bfault bsx i =? 0)) (map (own cfg) (canon ds0))) with true.
        * unfold c8. apply existsb_exists. exists (p_idx x).
          assert (Hxp : In x parts) by (apply Hsub, in_or_app; right; left; reflexivity).
          destruct (part_owner cfg _ parts HI2 x Hxp) as [_ [d' [Hd' Ho']]].
          split; [apply in_map_iff; exists d'; auto|].
          rewrite Z.eqb_refl. apply Z.eqb_neq in Hx. rewrite Hx. reflexivity.
        * symmetry. apply existsb_exists. exists (own cfg d). split; [apply in_map; exact Hd|exact Hf].
    - (* no owner fails *)
      assert (H0 : forall pt, In pt parts -> (p_idx pt < length bsx)%nat /\ bfault bsx (p_idx pt) = 0).
      { intros pt Hpt. split; [apply Hrange; exact Hpt|].
        destruct (part_owner cfg _ parts HI2 pt Hpt) as [_ [d [Hd Ho]]].
        pose proof (proj1 (existsb_false _ _) Ef (p_idx pt)) as H. cbv beta in H.
        apply negb_false_iff, Z.eqb_eq in H; [exact H|]. apply in_map_iff. exists d. auto. }
      rewrite (fm_calls_ok bsx parts [] [] H0).
      cbv zeta. rewrite ob_code, ob_data, ob_calls. cbn [sx_Z app].
      apply mon_fm_accept; [exact H6| |].
      + apply (c10_ok cfg _ cache parts Hwf' HI); [auto|]. apply (parts_nodup cfg _ cache parts HI).
      + rewrite Ef. unfold c9. rewrite dec_enc_dgs.
        rewrite (canon_ext _ _ (answers_spec cfg _ cache parts Hwf' HI bsx)).
        rewrite dgs_eqb_refl, (owners_called cfg _ cache parts Hwf' HI). reflexivity.
  Qed.
End FindMissing.

(** ------------------------------------------------------------ all operations *)

Theorem mon_demux_op_silent cfg bsx op :
  (length cfg <= length bsx)%nat -> op_wf op = true ->
  mon_demux_op cfg bsx op (run_demux_op cfg (mk_backends 0 bsx) op) = [].
Proof.
  intros Hlen Hwf. destruct (kind4 (sx_Z (sx_nth op 0))) as [|[|[|k]]] eqn:Hk.
  - apply mon_demux_get_silent; assumption.
  - apply mon_demux_gfc_silent; assumption.
  - apply mon_demux_put_silent; assumption.
  - assert (k = 0%nat) as ->.
    { unfold kind4 in Hk. destruct (sx_Z (sx_nth op 0)) as [|p|p]; try congruence.
      destruct p as [p|p|]; try congruence; destruct p; congruence. }
    apply mon_demux_fm_silent; assumption.
Qed.

Lemma concat_zip_nil {X Y} (f : X -> Y -> list Z) (g : X -> Y) l :
  (forall x, In x l -> f x (g x) = []) -> concat (zip_with f l (map g l)) = [].
Proof.
  induction l as [|x l IH]; intros H; [reflexivity|]. cbn [map zip_with concat].
  rewrite (H x (or_introl eq_refl)), IH; [reflexivity|]. intros y Hy. apply H. right. exact Hy.
Qed.

(** [mon19] on the model's own output, demultiplexer inputs *)
Theorem mon19_silent_on_demux_model : forall inp,
  sx_Z (sx_nth inp 0) = 2 ->
  (length (dec_cfg (sx_nth inp 1)) <= length (sx_list (sx_nth inp 2)))%nat ->
  forallb op_wf (sx_list (sx_nth inp 3)) = true ->
  mon19 inp (run19 inp) = [].
Proof.
  intros inp Hk Hlen Hops. unfold mon19, run19. rewrite Hk. cbv zeta. cbn [sx_list].
  apply concat_zip_nil. intros op Hop. rewrite forallb_forall in Hops.
  apply mon_demux_op_silent; auto.
Qed.

(** ------------------------------------------------- the hypotheses are needed *)

(** a name with a trailing slash ("a/", components ["a"; ""]) is routed to the
    owner of "a", but the string patcher yields "b" where the specification says
    "b/": clause 7 for Get / Put / GetFromComposite, clauses 10 and 9 for
    FindMissing (whose answer comes back under the name "a", not "a/") *)
Example name_wf_needed :
  let a := 97%N in let b := 98%N in
  let cfg := [([a], [b])] in
  let bsx := [L [L []; A 0]] in
  let t op := (op_wf op, mon_demux_op cfg bsx op (run_demux_op cfg (mk_backends 0 bsx) op)) in
  t (L [A 0; enc_dg ([a; slash], 1%N)]) = (false, [7])
  /\ t (L [A 2; enc_dg ([a; slash], 1%N)]) = (false, [7])
  /\ t (L [A 1; enc_dg ([a; slash], 1%N); enc_dg ([a; slash], 2%N)]) = (false, [7])
  /\ t (L [A 3; enc_dgs [([a; slash], 1%N)]]) = (false, [10; 9])
  /\ run_demux_op cfg (mk_backends 0 bsx) (L [A 3; enc_dgs [([a; slash], 1%N)]])
     = enc_op3 (A 0) (enc_dgs [([a], 1%N)]) [CFm 0 [([b], 1%N)]]
  (* ... whereas a child under another name is outside the specification *)
  /\ t (L [A 1; enc_dg ([a; slash], 1%N); enc_dg ([a], 2%N)]) = (true, []).
Proof. vm_compute. repeat split; reflexivity. Qed.

(** an owner without a backend: the model panics (index out of range) *)
Example backend_needed :
  let a := 97%N in let b := 98%N in
  let cfg := [([a], [b])] in
  let t op := (op_wf op, mon_demux_op cfg [] op (run_demux_op cfg (mk_backends 0 []) op)) in
  t (L [A 0; enc_dg ([a], 1%N)]) = (true, [7; 8])
  /\ t (L [A 3; enc_dgs [([a], 1%N)]]) = (true, [9]).
Proof. vm_compute. repeat split; reflexivity. Qed.
