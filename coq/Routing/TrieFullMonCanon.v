(** C19 — [canon] (insertion sort with de-duplication of digest lists) is a
    canonical form: lists with the same elements have the same [canon].
    Used by the monitor-silent-on-model theorems (the monitor compares
    canonical digest sets). *)
From Coq Require Import List ZArith NArith Bool Arith Lia.
From BBS Require Import Routing.Names Routing.NamesProofs.
Import ListNotations.

(** ---- the order on strings ---- *)
Lemma str_leb_total a : forall b, str_leb a b = false -> str_leb b a = true.
Proof.
  induction a as [|x a IH]; intros [|y b]; cbn; try discriminate; auto.
  intros H. destruct (N.ltb_spec x y); [discriminate|]. destruct (N.eqb_spec x y).
  - subst. rewrite N.ltb_irrefl, N.eqb_refl. apply IH. exact H.
  - destruct (N.ltb_spec y x); [reflexivity|exfalso; lia].
Qed.

Lemma str_leb_antisym a : forall b, str_leb a b = true -> str_leb b a = true -> a = b.
Proof.
  induction a as [|x a IH]; intros [|y b]; cbn; try discriminate; auto.
  intros H1 H2.
  destruct (N.ltb_spec x y), (N.ltb_spec y x), (N.eqb_spec x y), (N.eqb_spec y x);
    try discriminate; try (exfalso; lia).
  f_equal; [assumption|apply IH; assumption].
Qed.

Lemma str_leb_trans a : forall b c, str_leb a b = true -> str_leb b c = true -> str_leb a c = true.
Proof.
  induction a as [|x a IH]; intros [|y b] [|z c]; cbn; try discriminate; auto.
  intros H1 H2.
  destruct (N.ltb_spec x y), (N.ltb_spec y z), (N.ltb_spec x z),
           (N.eqb_spec x y), (N.eqb_spec y z), (N.eqb_spec x z);
    try discriminate; try reflexivity; try (exfalso; lia).
  eapply IH; eassumption.
Qed.

(** ---- the order on digests ---- *)
Lemma dg_leb_total a b : dg_leb a b = false -> dg_leb b a = true.
Proof.
  destruct a as [na ba], b as [nb bb]. unfold dg_leb. cbn [fst snd]. intros H.
  destruct (N.ltb_spec ba bb); [discriminate|]. destruct (N.eqb_spec ba bb).
  - subst. rewrite N.ltb_irrefl, N.eqb_refl. apply str_leb_total. exact H.
  - destruct (N.ltb_spec bb ba); [reflexivity|exfalso; lia].
Qed.

Lemma dg_leb_antisym a b : dg_leb a b = true -> dg_leb b a = true -> a = b.
Proof.
  destruct a as [na ba], b as [nb bb]. unfold dg_leb. cbn [fst snd]. intros H1 H2.
  destruct (N.ltb_spec ba bb), (N.ltb_spec bb ba), (N.eqb_spec ba bb), (N.eqb_spec bb ba);
    try discriminate; try (exfalso; lia).
  f_equal; [apply str_leb_antisym; assumption|assumption].
Qed.

Lemma dg_leb_trans a b c : dg_leb a b = true -> dg_leb b c = true -> dg_leb a c = true.
Proof.
  destruct a as [na ba], b as [nb bb], c as [nc bc]. unfold dg_leb. cbn [fst snd]. intros H1 H2.
  destruct (N.ltb_spec ba bb), (N.ltb_spec bb bc), (N.ltb_spec ba bc),
           (N.eqb_spec ba bb), (N.eqb_spec bb bc), (N.eqb_spec ba bc);
    try discriminate; try reflexivity; try (exfalso; lia).
  eapply str_leb_trans; eassumption.
Qed.

(** ---- strictly sorted lists ---- *)
Definition slt (a b : digest) : Prop := dg_leb a b = true /\ a <> b.

Fixpoint ssorted (l : list digest) : Prop :=
  match l with
  | [] => True
  | h :: t => (forall x, In x t -> slt h x) /\ ssorted t
  end.

Lemma slt_leb_trans d h x : dg_leb d h = true -> slt h x -> slt d x.
Proof.
  intros H1 [H2 Hne]. split; [eapply dg_leb_trans; eassumption|].
  intros ->. apply Hne. apply dg_leb_antisym; assumption.
Qed.

Lemma dg_insert_sorted d l : ssorted l -> ssorted (dg_insert d l).
Proof.
  induction l as [|h t IH]; cbn [dg_insert ssorted].
  - intros _. split; [intros x []|exact I].
  - intros [Hh Ht]. destruct (dg_eqb d h) eqn:E; [split; assumption|].
    assert (Hne : d <> h) by (intros ->; rewrite dg_eqb_refl in E; discriminate).
    destruct (dg_leb d h) eqn:El; cbn [ssorted].
    + split; [|split; assumption]. intros x [<-|Hx]; [split; assumption|].
      eapply slt_leb_trans; eauto.
    + split; [|apply IH; exact Ht]. intros x Hx. apply dg_insert_In in Hx as [->|Hx]; [|auto].
      split; [apply dg_leb_total; exact El|congruence].
Qed.

Lemma canon_sorted l : ssorted (canon l).
Proof. induction l as [|d l IH]; cbn; [exact I|apply dg_insert_sorted; exact IH]. Qed.

Lemma ssorted_unique l1 : forall l2, ssorted l1 -> ssorted l2 ->
  (forall x, In x l1 <-> In x l2) -> l1 = l2.
Proof.
  induction l1 as [|h1 t1 IH]; intros [|h2 t2] S1 S2 Hin.
  - reflexivity.
  - exfalso. apply (Hin h2). left; reflexivity.
  - exfalso. apply (Hin h1). left; reflexivity.
  - destruct S1 as [A1 S1], S2 as [A2 S2].
    assert (Hh : h1 = h2).
    { destruct (proj1 (Hin h1) (or_introl eq_refl)) as [E|I1]; [congruence|].
      destruct (proj2 (Hin h2) (or_introl eq_refl)) as [E|I2]; [congruence|].
      destruct (A2 _ I1) as [L21 N21], (A1 _ I2) as [L12 N12].
      exfalso. apply N12. apply dg_leb_antisym; assumption. }
    subst h2. f_equal. apply IH; try assumption. intros x. split; intros Hx.
    + destruct (proj1 (Hin x) (or_intror Hx)) as [E|I]; [|exact I].
      exfalso. destruct (A1 _ Hx) as [_ N]. congruence.
    + destruct (proj2 (Hin x) (or_intror Hx)) as [E|I]; [|exact I].
      exfalso. destruct (A2 _ Hx) as [_ N]. congruence.
Qed.

(** lists with the same elements have the same canonical form *)
Theorem canon_ext l1 l2 : (forall x, In x l1 <-> In x l2) -> canon l1 = canon l2.
Proof.
  intros H. apply ssorted_unique; try apply canon_sorted.
  intros x. rewrite !canon_In. apply H.
Qed.

Theorem canon_idem l : canon (canon l) = canon l.
Proof. apply canon_ext. intros x. apply canon_In. Qed.

(** a strictly sorted list is its own canonical form *)
Lemma canon_of_sorted l : ssorted l -> canon l = l.
Proof.
  intros H. apply ssorted_unique; [apply canon_sorted|exact H|]. intros x. apply canon_In.
Qed.

Lemma canon_nodup l : NoDup (canon l).
Proof.
  assert (H : forall l, ssorted l -> NoDup l).
  { induction l0 as [|h t IH]; [constructor|]. intros [A S]. constructor; [|apply IH; exact S].
    intros Hin. destruct (A _ Hin) as [_ N]. congruence. }
  apply H, canon_sorted.
Qed.
