(** C19 — proofs about the instance-name patcher model (string level). *)
From Coq Require Import List ZArith NArith Bool Arith Lia.
From BBS Require Import Routing.Names Routing.NamesProofs Routing.Patcher.
Import ListNotations.

Lemma join_cons_nonempty c r : comp_ok c = true -> join (c :: r) <> [].
Proof.
  intros H. apply comp_ok_spec in H as [H _]. destruct r; cbn; destruct c; try congruence; discriminate.
Qed.

Lemma with_slash_join new c r :
  name_ok new = true -> with_slash (join new) ++ join (c :: r) = join (new ++ c :: r).
Proof.
  intros H. rewrite join_app_cons. destruct new as [|x new]; [reflexivity|].
  unfold with_slash. destruct (join (x :: new)) eqn:E.
  - apply join_nil_iff in E; [discriminate|exact H].
  - rewrite <- app_assoc. reflexivity.
Qed.

Lemma with_slash_length s : length (with_slash s) = match s with [] => O | _ => S (length s) end.
Proof. destruct s; [reflexivity|]. unfold with_slash. rewrite app_length. cbn. lia. Qed.

Lemma patch_str_spec old new r :
  name_ok old = true -> name_ok new = true -> name_ok r = true ->
  patch_str (join (old ++ r)) (length (with_slash (join old))) (with_slash (join new)) (join new)
  = join (new ++ r).
Proof.
  intros Ho Hn Hr. unfold patch_str. destruct r as [|c r].
  - rewrite !app_nil_r. rewrite with_slash_length.
    destruct (join old) as [|x l] eqn:E; [reflexivity|].
    replace (Nat.ltb (S (length (x :: l))) (length (x :: l))) with false; [reflexivity|].
    symmetry. apply Nat.ltb_ge. lia.
  - assert (Hc : comp_ok c = true) by (cbn in Hr; apply andb_true_iff in Hr; tauto).
    pose proof (join_cons_nonempty c r Hc) as Hne.
    rewrite <- (with_slash_join old c r Ho), <- (with_slash_join new c r Hn).
    rewrite app_length.
    replace (Nat.ltb (length (with_slash (join old))) (length (with_slash (join old)) + length (join (c :: r)))) with true.
    + f_equal. rewrite skipn_app, skipn_all, Nat.sub_diag. reflexivity.
    + symmetry. apply Nat.ltb_lt. destruct (join (c :: r)); [congruence|]. cbn [length]. lia.
Qed.

Lemma join_inj a b : name_ok a = true -> name_ok b = true -> join a = join b -> a = b.
Proof. intros Ha Hb H. rewrite <- (split_join a Ha), <- (split_join b Hb), H. reflexivity. Qed.

(** PatchInstanceName: the old prefix is replaced by the new one, the rest is kept. *)
Lemma patch_name_spec old new r :
  name_ok old = true -> name_ok new = true -> name_ok r = true ->
  patch_name (new_patcher (join old) (join new)) (join (old ++ r)) = join (new ++ r).
Proof.
  intros Ho Hn Hr. unfold new_patcher. destruct (str_eqb (join old) (join new)) eqn:E.
  - apply str_eqb_eq in E. apply join_inj in E; auto. subst. reflexivity.
  - cbn [patch_name]. apply patch_str_spec; auto.
Qed.

(** Unpatching is patching with the roles of the prefixes exchanged. *)
Lemma unpatch_name_swap o n x : unpatch_name (new_patcher o n) x = patch_name (new_patcher n o) x.
Proof.
  unfold new_patcher. rewrite (str_eqb_sym n o). destruct (str_eqb o n); reflexivity.
Qed.

Lemma unpatch_name_spec old new r :
  name_ok old = true -> name_ok new = true -> name_ok r = true ->
  unpatch_name (new_patcher (join old) (join new)) (join (new ++ r)) = join (old ++ r).
Proof. intros. rewrite unpatch_name_swap. apply patch_name_spec; auto. Qed.

Lemma unpatch_patch_name old new r :
  name_ok old = true -> name_ok new = true -> name_ok r = true ->
  let p := new_patcher (join old) (join new) in
  unpatch_name p (patch_name p (join (old ++ r))) = join (old ++ r).
Proof. intros Ho Hn Hr p. unfold p. rewrite patch_name_spec, unpatch_name_spec; auto. Qed.

Lemma unpatch_patch_digest old new r b :
  name_ok old = true -> name_ok new = true -> name_ok r = true ->
  let p := new_patcher (join old) (join new) in
  unpatch_digest p (patch_digest p (join (old ++ r), b)) = (join (old ++ r), b).
Proof.
  intros Ho Hn Hr p. unfold unpatch_digest, patch_digest. cbn [fst snd].
  f_equal. apply unpatch_patch_name; auto.
Qed.
