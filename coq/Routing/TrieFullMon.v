(** C19 — the trie part of the monitor [mon19] is silent on the model's own
    output: for every trie history (kind 0 input) on which the model does not
    panic (no Remove of a name whose node does not exist), all three trie
    clauses (1 longest prefix, 2 exact lookup / membership, 3 Remove's "became
    empty" result) hold of what the model answers.  Needs the full Remove
    specification (TrieFull.v) for clause 3. *)
From Coq Require Import List ZArith NArith Bool Arith Lia.
From BBS Require Import Common.Sx Routing.Names Routing.NamesProofs Routing.Trie Routing.TrieProofs
  Routing.TrieFull Run.R19.
Import ListNotations.
Open Scope Z_scope.

(** the monitor's association list [m] and the model's trie [t] stand for the same map *)
Definition mrel (m : list (list comp * Z)) (t : trie) : Prop :=
  reach t /\ (forall k, assoc_get m k = assoc_get (to_map t) k) /\ Forall (fun e => 0 <= snd e) m.

Lemma mrel_init : mrel [] empty_trie.
Proof. split; [constructor|]. split; [intros k; destruct k; reflexivity|constructor]. Qed.

Lemma is_nil_iff (m : list (list comp * Z)) : Forall (fun e => 0 <= snd e) m ->
  (is_nil m = true <-> forall k, assoc_get m k = -1).
Proof.
  intros H. destruct m as [|[k v] r].
  - split; intros; reflexivity.
  - split; [discriminate|]. intros H'. exfalso. specialize (H' k). cbn in H'.
    rewrite name_eqb_refl in H'. inversion H; subst. cbn in *. lia.
Qed.

Lemma Forall_filter {T} (P : T -> Prop) f l : Forall P l -> Forall P (filter f l).
Proof.
  intros H. apply Forall_forall. intros x Hx. apply filter_In in Hx as [Hx _].
  rewrite Forall_forall in H. apply H. exact Hx.
Qed.

Lemma mrel_set m t n v : mrel m t -> 0 <= v -> mrel (assoc_set m n v) (set t n v).
Proof.
  intros (Hr & Hm & Hp) Hv. split; [constructor; assumption|]. split.
  - intros k. rewrite (set_to_map t n v Hr Hv k), !assoc_get_set, Hm. reflexivity.
  - unfold assoc_set. constructor; [exact Hv|apply Forall_filter; exact Hp].
Qed.

(** every successful Remove deletes exactly the name *)
Lemma remove_ok_gval t n t' b : remove t n = Ok (t', b) ->
  forall m, gval t' m = if name_eqb n m then -1 else gval t m.
Proof.
  destruct n as [|c n]; cbn [remove].
  - intros [= <- _]. intros [|d m]; reflexivity.
  - destruct (remove_ne t true c n) as [[t0|]|e|] eqn:Er; try discriminate. intros [= <- _].
    exact (proj2 (remove_ne_spec _ _ _ _ _ Er)).
Qed.

Lemma mrel_remove m t n t' b : mrel m t -> remove t n = Ok (t', b) ->
  mrel (assoc_remove m n) t' /\ Bool.eqb b (is_nil (assoc_remove m n)) = true.
Proof.
  intros (Hr & Hm & Hp) Hrm.
  assert (Hr' : reach t') by (econstructor; eauto).
  assert (Hm' : forall k, assoc_get (assoc_remove m n) k = assoc_get (to_map t') k).
  { intros k. rewrite assoc_get_remove, Hm, (to_map_gval k _ (reach_wf _ Hr')),
      (to_map_gval k _ (reach_wf _ Hr)). symmetry. apply (remove_ok_gval _ _ _ _ Hrm). }
  assert (Hp' : Forall (fun e => 0 <= snd e) (assoc_remove m n)) by (apply Forall_filter; exact Hp).
  split; [split; [exact Hr'|split; [exact Hm'|exact Hp']]|].
  pose proof (remove_ok_full t n t' b Hr Hrm) as Hb.
  pose proof (is_nil_iff _ Hp') as Hn.
  destruct b, (is_nil (assoc_remove m n)); try reflexivity; exfalso.
  - assert (false = true); [|discriminate]. apply Hn. intros k. rewrite Hm'. apply Hb. reflexivity.
  - assert (false = true); [|discriminate]. apply Hb. intros k. rewrite <- Hm'. apply Hn. reflexivity.
Qed.

(** the operation code of an op, and the two functions unfolded by it *)
Definition kind (z : Z) : nat :=
  match z with 0 => 0%nat | 1 => 1%nat | 2 => 2%nat | 3 => 3%nat | 4 => 4%nat | _ => 5%nat end.

Lemma zmatch {T} z (a0 a1 a2 a3 a4 d : T) :
  match z with 0 => a0 | 1 => a1 | 2 => a2 | 3 => a3 | 4 => a4 | _ => d end =
  match kind z with 0%nat => a0 | 1%nat => a1 | 2%nat => a2 | 3%nat => a3 | 4%nat => a4 | _ => d end.
Proof.
  destruct z as [|p|p]; try reflexivity;
    do 3 (try (destruct p as [p|p|]; try reflexivity)).
Qed.

Lemma option_map_cons_some {T} (x : T) o l : option_map (cons x) o = Some l ->
  exists xs, o = Some xs /\ l = x :: xs.
Proof. destruct o as [xs|]; cbn; [intros [= <-]; eauto|discriminate]. Qed.

Lemma sx_bool_of_bool b : sx_bool (of_bool b) = b.
Proof. destruct b; reflexivity. Qed.

Lemma mon_trie_silent ops : forall t m l, mrel m t -> run_trie ops t = Some l -> mon_trie ops l m = [].
Proof.
  induction ops as [|o r IH]; intros t m l Hrel Hrun; [reflexivity|].
  pose proof Hrel as (Hr & Hm & Hp).
  cbn [run_trie] in Hrun. cbv zeta in Hrun. rewrite zmatch in Hrun.
  destruct (kind (sx_Z (sx_nth o 0))) as [|[|[|[|[|k5]]]]] eqn:Ek.
  - (* Set *)
    apply option_map_cons_some in Hrun as (xs & Hrun & ->).
    cbn [mon_trie]. cbv zeta. rewrite zmatch, Ek.
    destruct (Z.ltb_spec (sx_Z (sx_nth o 2)) 0) as [Hneg|Hv]; [reflexivity|].
    eapply IH; [|exact Hrun]. apply mrel_set; assumption.
  - (* Remove *)
    destruct (remove t (split (dec_str (sx_nth o 1)))) as [[t' b]|e|] eqn:Hrm; try discriminate.
    apply option_map_cons_some in Hrun as (xs & Hrun & ->).
    cbn [mon_trie]. cbv zeta. rewrite zmatch, Ek.
    destruct (mrel_remove _ _ _ _ _ Hrel Hrm) as [Hrel' Hb].
    rewrite sx_bool_of_bool, Hb. cbn [app]. eapply IH; eauto.
  - (* GetExact *)
    apply option_map_cons_some in Hrun as (xs & Hrun & ->).
    cbn [mon_trie]. cbv zeta. rewrite zmatch, Ek. cbn [sx_Z].
    rewrite (get_exact_to_map t _ Hr), <- Hm, Z.eqb_refl. cbn [app]. eapply IH; eauto.
  - (* GetLongestPrefix *)
    apply option_map_cons_some in Hrun as (xs & Hrun & ->).
    cbn [mon_trie]. cbv zeta. rewrite zmatch, Ek. cbn [sx_Z].
    rewrite (glp_to_map t _ Hr). unfold longest_prefix_value.
    rewrite (lpv_f_ext (assoc_get m) (assoc_get (to_map t)) _ Hm), Z.eqb_refl. cbn [app]. eapply IH; eauto.
  - (* ContainsPrefix *)
    apply option_map_cons_some in Hrun as (xs & Hrun & ->).
    cbn [mon_trie]. cbv zeta. rewrite zmatch, Ek.
    rewrite sx_bool_of_bool, (contains_prefix_to_map t _ Hr). unfold has_prefix.
    rewrite (hasp_f_ext (assoc_get m) (assoc_get (to_map t)) _ Hm), Bool.eqb_reflx. cbn [app]. eapply IH; eauto.
  - (* ContainsExact *)
    apply option_map_cons_some in Hrun as (xs & Hrun & ->).
    cbn [mon_trie]. cbv zeta. rewrite zmatch, Ek.
    rewrite sx_bool_of_bool, (contains_exact_to_map t _ Hr), Hm, Bool.eqb_reflx. cbn [app]. eapply IH; eauto.
Qed.

(** [mon19] on the model's own output, trie histories *)
Theorem mon19_silent_on_trie_model : forall inp,
  sx_Z (sx_nth inp 0) = 0 ->
  run_trie (sx_list (sx_nth inp 1)) empty_trie <> None ->
  mon19 inp (run19 inp) = [].
Proof.
  intros inp Hk Hnp. unfold mon19, run19. rewrite Hk.
  destruct (run_trie (sx_list (sx_nth inp 1)) empty_trie) as [l|] eqn:Hrun; [|congruence].
  cbn [sx_list]. eapply mon_trie_silent; [apply mrel_init|exact Hrun].
Qed.

(** and the model panics only on a Remove of a name whose node does not exist:
    if every Remove in the history is of a currently registered name, no panic *)
Fixpoint removes_registered (ops : list sx) (m : list (list comp * Z)) : Prop :=
  match ops with
  | [] => True
  | o :: r =>
      let n := split (dec_str (sx_nth o 1)) in
      match kind (sx_Z (sx_nth o 0)) with
      | 0%nat => 0 <= sx_Z (sx_nth o 2) /\ removes_registered r (assoc_set m n (sx_Z (sx_nth o 2)))
      | 1%nat => 0 <= assoc_get m n /\ removes_registered r (assoc_remove m n)
      | _ => removes_registered r m
      end
  end.

Lemma run_trie_no_panic ops : forall t m, mrel m t -> removes_registered ops m -> run_trie ops t <> None.
Proof.
  induction ops as [|o r IH]; intros t m Hrel Hreg; [discriminate|].
  pose proof Hrel as (Hr & Hm & Hp).
  cbn [run_trie removes_registered] in *. cbv zeta in *. rewrite zmatch.
  destruct (kind (sx_Z (sx_nth o 0))) as [|[|[|[|[|k5]]]]] eqn:Ek.
  - destruct Hreg as [Hv Hreg]. specialize (IH _ _ (mrel_set _ _ _ _ Hrel Hv) Hreg).
    destruct (run_trie r _); [discriminate|congruence].
  - destruct Hreg as [Hn Hreg]. rewrite Hm in Hn.
    destruct (remove_to_map_full t _ Hr Hn) as (t' & b & Hrm & _). rewrite Hrm.
    destruct (mrel_remove _ _ _ _ _ Hrel Hrm) as [Hrel' _]. specialize (IH _ _ Hrel' Hreg).
    destruct (run_trie r t'); [discriminate|congruence].
  - specialize (IH _ _ Hrel Hreg). destruct (run_trie r t); [discriminate|congruence].
  - specialize (IH _ _ Hrel Hreg). destruct (run_trie r t); [discriminate|congruence].
  - specialize (IH _ _ Hrel Hreg). destruct (run_trie r t); [discriminate|congruence].
  - specialize (IH _ _ Hrel Hreg). destruct (run_trie r t); [discriminate|congruence].
Qed.

Theorem mon19_silent_on_trie_model_registered : forall inp,
  sx_Z (sx_nth inp 0) = 0 ->
  removes_registered (sx_list (sx_nth inp 1)) [] ->
  run_trie (sx_list (sx_nth inp 1)) empty_trie <> None /\ mon19 inp (run19 inp) = [].
Proof.
  intros inp Hk Hreg.
  pose proof (run_trie_no_panic _ _ _ mrel_init Hreg) as Hnp.
  split; [exact Hnp|apply mon19_silent_on_trie_model; assumption].
Qed.
