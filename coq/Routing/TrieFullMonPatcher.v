(** C19 — the patcher part of the monitor [mon19] (clauses 4, 5) is silent on
    the model's own output, for every input of kind 1 (no hypothesis: the
    monitor itself restricts its clauses to well-formed names with the old
    prefix a component-wise prefix of the instance name). *)
From Coq Require Import List ZArith NArith Bool Arith Lia.
From BBS Require Import Common.Sx Routing.Names Routing.NamesProofs Routing.Patcher Routing.PatcherProofs
  Routing.HierNames Routing.HierProofs Routing.TrieFullMonHier Run.R19.
Import ListNotations.
Open Scope Z_scope.

Lemma skipn_app_exact {T} (a b : list T) : skipn (length a) (a ++ b) = b.
Proof. induction a as [|x a IH]; [reflexivity|exact IH]. Qed.

Lemma mon_patcher_core old new r blob :
  name_ok old = true -> name_ok new = true -> name_ok r = true ->
  let p := new_patcher (join old) (join new) in
  let i := join (old ++ r) in
  let want := join (new ++ r) in
  str_eqb (patch_name p i) want && dg_eqb (patch_digest p (i, blob)) (want, blob) = true /\
  dg_eqb (unpatch_digest p (patch_digest p (i, blob))) (i, blob) = true.
Proof.
  intros Ho Hn Hr. cbv zeta.
  pose proof (unpatch_patch_digest old new r blob Ho Hn Hr) as Hu. cbv zeta in Hu. rewrite Hu.
  unfold patch_digest. cbn [fst snd]. rewrite (patch_name_spec old new r Ho Hn Hr).
  rewrite str_eqb_refl, !dg_eqb_refl. split; reflexivity.
Qed.

Theorem mon_patcher_silent inp : mon_patcher inp (run_patcher inp) = [].
Proof.
  unfold mon_patcher, run_patcher. cbv zeta.
  remember (dec_str (sx_nth inp 1)) as ostr eqn:Eos.
  remember (dec_str (sx_nth inp 2)) as nstr eqn:Ens.
  remember (dec_str (sx_nth inp 3)) as i eqn:Eis.
  remember (sx_N (sx_nth inp 4)) as blob eqn:Eb.
  clear Eos Ens Eis Eb.
  remember (split ostr) as old eqn:Eold. remember (split nstr) as new eqn:Enew.
  remember (split i) as ni eqn:Eni.
  destruct (name_ok old && name_ok new && name_ok ni && is_prefix old ni) eqn:Hc; [|reflexivity].
  apply andb_true_iff in Hc as [Hc Hpre]. apply andb_true_iff in Hc as [Hc Hi].
  apply andb_true_iff in Hc as [Ho Hn].
  apply is_prefix_iff in Hpre as [r ->]. rewrite name_ok_app in Hi. apply andb_true_iff in Hi as [_ Hr].
  assert (Eo : ostr = join old) by (rewrite Eold; symmetry; apply join_split).
  assert (En : nstr = join new) by (rewrite Enew; symmetry; apply join_split).
  assert (Ei : i = join (old ++ r)) by (rewrite Eni; symmetry; apply join_split).
  unfold sx_nth. cbn [sx_list nth]. rewrite dec_enc_str, !dec_enc_dg, skipn_app_exact.
  rewrite Eo, En, Ei.
  destruct (mon_patcher_core old new r blob Ho Hn Hr) as [H1 H2]. cbv zeta in H1, H2.
  rewrite H1, H2. reflexivity.
Qed.

Theorem mon19_silent_on_patcher_model : forall inp,
  sx_Z (sx_nth inp 0) = 1 -> mon19 inp (run19 inp) = [].
Proof.
  intros inp Hk. unfold mon19, run19. rewrite Hk. apply mon_patcher_silent.
Qed.
