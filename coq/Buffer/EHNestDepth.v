(** C16N — the monitor on the model WITHOUT the depth hypothesis of [dom16NF].

    [dom16NF] (Buffer/EHNestMoreTop.v) asks [tdepth (n_tree c) <= 64] of the
    decoded tree, because [tdepth (dec_tree 64 s) <= 64] is false: the decoder
    cuts a tree that is nested deeper than its fuel with [NB (BError 2)], a
    plain buffer of depth 1, so the honest bound is [tdepth (dec_tree k s) <= k + 1]
    ([dec_tree_depth]; [deep_tree_depth]: 65 is reached).  The hypothesis is not
    needed: the leaves at depth 65 are error buffers, an error buffer is observed
    as [OLeaf 0], and that is what the monitor's decoder [dec_ctree] makes of
    ANYTHING once it is out of fuel.  With depths that count an error buffer /
    a leaf observed with 0 closes as 0 ([tdepth0], [odepth0]):

      (a) [tdepth0 (dec_tree k s) <= k]                                     [dec_tree_depth0]
      (b) [odepth0 o <= n -> dec_ctree n (enc_otree o) = codes_of o]        [dec_enc_otree0]
      (c) [odepth0 (z_tree (run_tree H cfg fuel t m)) <= tdepth0 t]         [run_tree_depth0]
          every tree, method, fuel (the depth half of Buffer/EHNestMoreDone.v, refined)

    so [mon16N inp (run16N inp)] is the monitor on the model's decoded data for
    EVERY input ([mon16N_decoded0]), and the theorems of EHNestMoreTop.v hold on
    [dom16NG] = [dom16NF] without its depth conjunct. *)
From Coq Require Import List ZArith NArith Bool Lia.
From BBS Require Import Common.Sx Buffer.Source Buffer.Validate Buffer.Convert Buffer.ErrHandler
  Buffer.StreamProofs Buffer.ValidateProofs Buffer.PreserveProofs Buffer.ClosedOnceProofs
  Buffer.C09FullMonitor Buffer.C09FuelSuffices
  Buffer.EHNest Buffer.EHNestRules Buffer.EHNestMoreRet Buffer.EHNestMoreRoot Buffer.EHNestMoreMon
  Buffer.EHNestMoreFuel Buffer.EHNestMoreDone Buffer.EHNestMoreTop Run.R09 Run.R16 Run.R16N Run.R16NProofs.
Import ListNotations.
Open Scope nat_scope.

(** * Refined depths: an error buffer / a leaf observed with 0 closes counts 0 *)
Definition leaf_depth0 (b : bufscript) : nat := match b with BError _ => 0 | _ => 1 end.
Fixpoint tdepth0 (t : nbuf) : nat :=
  match t with
  | NB b => leaf_depth0 b
  | NW inner ans => S (Nat.max (tdepth0 inner) (adepth0 ans))
  end
with adepth0 (a : nanss) : nat :=
  match a with
  | ANil => 0
  | ARep b r => Nat.max (tdepth0 b) (adepth0 r)
  | AFail _ r => adepth0 r
  end.

Fixpoint odepth0 (o : otree) : nat :=
  match o with
  | OLeaf O => 0
  | OLeaf (S _) => 1
  | ONode _ _ kids => S (fold_right (fun k n => Nat.max (odepth0 k) n) 0 kids)
  end.

Lemma odepth0_leaf k : odepth0 (OLeaf k) <= 1.
Proof. destruct k; cbn [odepth0]; lia. Qed.

Lemma tdepth_tdepth0 :
  (forall t, tdepth t <= S (tdepth0 t)) /\ (forall a, adepth a <= S (adepth0 a)).
Proof.
  apply nbuf_nanss_ind; cbn [tdepth adepth tdepth0 adepth0]; intros; lia.
Qed.

(** * (a) the decoder *)
Definition dec_anss (f : nat) (anss : list sx) : nanss :=
  fold_right (fun a r => match a with
                         | L [A 0; b] => ARep (dec_tree f b) r
                         | L [A 1; A c] => AFail c r
                         | _ => AFail 2 r
                         end) ANil anss.

Lemma dec_tree_S_cases f s :
  (exists inner anss, dec_tree (S f) s = NW (dec_tree f inner) (dec_anss f anss)) \/
  dec_tree (S f) s = NB (dec_buf s).
Proof.
  destruct s as [z|l]; [right; reflexivity|].
  destruct l as [|a l]; [right; reflexivity|].
  destruct a as [z|l0]; [|right; reflexivity].
  destruct z as [|p|p]; try (right; reflexivity).
  destruct p as [p|p|]; try (right; reflexivity).
  destruct p as [p|p|]; try (right; reflexivity).
  destruct p as [p|p|]; try (right; reflexivity).
  destruct l as [|inner l]; [right; reflexivity|].
  destruct l as [|x l]; [right; reflexivity|].
  destruct x as [z|anss]; [right; reflexivity|].
  destruct l as [|y l]; [|right; reflexivity].
  left. exists inner, anss. reflexivity.
Qed.

Lemma leaf_depth0_le b : leaf_depth0 b <= 1.
Proof. destruct b; cbn; lia. Qed.

Lemma dec_tree_depth0 : forall k s, tdepth0 (dec_tree k s) <= k.
Proof.
  induction k as [|f IH]; intros s; [cbn; lia|].
  destruct (dec_tree_S_cases f s) as [(inner & anss & E)|E]; rewrite E; cbn [tdepth0].
  - assert (Ha : adepth0 (dec_anss f anss) <= f).
    { clear E. induction anss as [|a anss IHa]; [cbn; lia|]. unfold dec_anss. cbn [fold_right]. fold (dec_anss f anss).
      assert (Hdef : adepth0 (AFail 2 (dec_anss f anss)) <= f) by exact IHa.
      destruct a as [z|l]; [exact Hdef|].
      destruct l as [|a0 l]; [exact Hdef|].
      destruct a0 as [z|l0]; [|exact Hdef].
      destruct z as [|p|p]; try exact Hdef.
      - destruct l as [|b l]; [exact Hdef|]. destruct l; [|exact Hdef].
        cbn [adepth0]. pose proof (IH b). lia.
      - destruct p as [p|p|]; try exact Hdef.
        destruct l as [|b l]; [exact Hdef|]. destruct b as [c|lb]; [|exact Hdef]. destruct l; exact IHa. }
    pose proof (IH inner). lia.
  - pose proof (leaf_depth0_le (dec_buf s)). lia.
Qed.

(** the honest bound on the plain depth *)
Lemma dec_tree_depth k s : tdepth (dec_tree k s) <= k + 1.
Proof. pose proof (proj1 tdepth_tdepth0 (dec_tree k s)). pose proof (dec_tree_depth0 k s). lia. Qed.

Lemma dec_tree_depths k s : tdepth0 (dec_tree k s) <= k /\ tdepth (dec_tree k s) <= k + 1.
Proof. split; [apply dec_tree_depth0|apply dec_tree_depth]. Qed.

(** * (b) the monitor's decoder *)
Lemma dec_enc_otree0 : forall o n, odepth0 o <= n -> dec_ctree n (enc_otree o) = codes_of o.
Proof.
  induction o as [k|offs d kids IH] using otree_ind2; intros n Hn.
  - destruct n as [|n]; [|reflexivity]. destruct k as [|k]; [reflexivity|cbn in Hn; lia].
  - destruct n as [|n]; [cbn in Hn; lia|]. cbn [enc_otree dec_ctree codes_of]. unfold of_nat. cbn iota.
    f_equal.
    + unfold sx_Zs. cbn [sx_list]. rewrite map_map. apply map_ext. intros e. symmetry. apply code_of_eq.
    + cbn [odepth0] in Hn. apply le_S_n in Hn. rewrite map_map.
      induction kids as [|k kids IHk]; [reflexivity|]. cbn [map fold_right] in *.
      inversion IH as [|x l Hx Hl]; subst. f_equal.
      * apply Hx. lia.
      * apply IHk; [exact Hl|lia].
Qed.

(** * (c) the observed tree is no deeper than the input tree *)
Definition kids0 (n : nat) (kids : list otree) : Prop := Forall (fun o => odepth0 o <= n) kids.
Lemma kids0_snoc n kids o : kids0 n kids -> odepth0 o <= n -> kids0 n (kids ++ [o]).
Proof. intros A B. apply Forall_app. split; [exact A|repeat constructor; exact B]. Qed.
Lemma kids0_nil n : kids0 n [].
Proof. constructor. Qed.

Lemma fold_max0_le n kids : kids0 n kids -> fold_right (fun k m => Nat.max (odepth0 k) m) 0 kids <= n.
Proof. induction 1 as [|o l Ho Hl IH]; cbn [fold_right]; lia. Qed.

Lemma node0 n offs d kids : kids0 n kids -> odepth0 (ONode offs d kids) <= S n.
Proof. intros B. cbn [odepth0]. pose proof (fold_max0_le _ _ B). lia. Qed.

(** ** Chunk readers.  At bound 0 a plain reader is the reader of an error
    buffer: reads and Close leave it as it is, it has no source to close. *)
Definition uerr (u : ucr) : Prop := match u with UErr _ => True | _ => False end.

Fixpoint Q0 (n : nat) (r : ncr) : Prop :=
  match r with
  | CL u => match n with O => uerr u | S _ => True end
  | CE cur _ h =>
      match n with
      | O => False
      | S n' => hn_done h = 0 /\ kids0 n' (hn_dead h) /\ adepth0 (hn_ans h) <= n' /\ Q0 n' cur
      end
  end.

Lemma Q0_close : forall r n, Q0 n r -> odepth0 (nobs (nclose r)) <= n.
Proof.
  induction r as [u|cur IH off h]; intros n Hq; cbn [Q0] in Hq.
  - cbn [nclose nobs]. destruct n as [|n].
    + destruct u; try contradiction. cbn. lia.
    + pose proof (odepth0_leaf (sum_nat (ucr_closes (ucr_close u)))). lia.
  - destruct n as [|n]; [contradiction|]. destruct Hq as (Hd & Hk & _ & Hc). cbn [nclose nobs].
    unfold hn_obs, hn_finish. cbn [hn_off hn_done hn_dead].
    apply node0. apply kids0_snoc; [exact Hk|apply IH; exact Hc].
Qed.

Section Chunk.
  Variable ifuel : nat.
  Variable max : N.

  Lemma nopen_Q0 : forall t n off, tdepth0 t <= n -> Q0 n (nopen ifuel t off).
  Proof.
    induction t as [b|inner IH ans]; intros n off Hn; cbn [tdepth0 nopen] in *.
    - cbn [Q0]. destruct n; [|exact I]. destruct b; cbn in Hn; try lia. exact I.
    - destruct n as [|n]; [lia|]. cbn [Q0]. unfold hn_new. cbn [hn_done hn_dead hn_ans].
      rsplit; auto; [apply kids0_nil|lia|apply IH; lia].
  Qed.

  Lemma nread_Q0 : forall fuel n r c e r', Q0 n r -> nread ifuel fuel max r = ((c, e), r') -> Q0 n r'.
  Proof.
    induction fuel as [|f IH]; intros n r c e r' Hq Hr; cbn [nread] in Hr; [inv Hr; exact Hq|].
    destruct r as [u|cur off h].
    - destruct (ucr_read ifuel max u) as [x u'] eqn:Hu. inv Hr. cbn [Q0] in *.
      destruct n; [|exact I]. destruct u; try contradiction. cbn in Hu. inv Hu. exact I.
    - cbn [Q0] in Hq. destruct n as [|n]; [contradiction|]. destruct Hq as (Hd & Hk & Ha & Hc).
      destruct (nread ifuel f max cur) as [[chunk e0] cur'] eqn:Hu.
      pose proof (IH _ _ _ _ _ Hc Hu) as Hc'.
      assert (Hother : e0 <> ENone -> e0 <> EEof ->
        (let '(a, h') := hn_on_error h e0 in
         match a with
         | NFailWith c0 => (([], ECode c0), CE cur' off h')
         | NReplace t' => nread ifuel f max (CE (nopen ifuel t' off) off (hn_retire h' (nobs (nclose cur'))))
         end) = ((c, e), r') -> Q0 (S n) r').
      { intros _ _ Hx. unfold hn_on_error in Hx. destruct (hn_ans h) as [|t' r|c0 r] eqn:Ea; cbn [adepth0] in Ha.
        - inv Hx. cbn [Q0 hn_done hn_dead hn_ans adepth0]. rsplit; auto.
        - eapply IH; [|exact Hx]. cbn [Q0 hn_retire hn_done hn_dead hn_ans].
          pose proof (Q0_close _ _ Hc') as B.
          rsplit; auto; [apply kids0_snoc; assumption|lia|apply nopen_Q0; lia].
        - inv Hx. cbn [Q0 hn_done hn_dead hn_ans]. rsplit; auto. }
      destruct e0; try (apply Hother; [congruence|congruence|exact Hr]).
      + inv Hr. cbn [Q0]. rsplit; auto.
      + inv Hr. cbn [Q0]. rsplit; auto.
  Qed.
End Chunk.

(** ** Readers *)
Definition rerr (u : urd) : Prop := match u with RErr _ => True | _ => False end.

Fixpoint QR0 (n : nat) (r : nrd) : Prop :=
  match r with
  | RL u => match n with O => rerr u | S _ => True end
  | RE cur _ h =>
      match n with
      | O => False
      | S n' => hn_done h = 0 /\ kids0 n' (hn_dead h) /\ adepth0 (hn_ans h) <= n' /\ QR0 n' cur
      end
  end.

Lemma QR0_close : forall r n, QR0 n r -> odepth0 (nrobs (nrclose r)) <= n.
Proof.
  induction r as [u|cur IH off h]; intros n Hq; cbn [QR0] in Hq.
  - cbn [nrclose nrobs]. destruct n as [|n].
    + destruct u; try contradiction. cbn. lia.
    + pose proof (odepth0_leaf (sum_nat (urd_closes (urd_close u)))). lia.
  - destruct n as [|n]; [contradiction|]. destruct Hq as (Hd & Hk & _ & Hc). cbn [nrclose nrobs].
    unfold hn_obs, hn_finish. cbn [hn_off hn_done hn_dead].
    apply node0. apply kids0_snoc; [exact Hk|apply IH; exact Hc].
Qed.

Section Reader.
  Variable ifuel : nat.

  Lemma nropen_QR0 : forall t n off, tdepth0 t <= n -> QR0 n (nropen ifuel t off).
  Proof.
    induction t as [b|inner IH ans]; intros n off Hn; cbn [tdepth0 nropen] in *.
    - cbn [QR0]. destruct n; [|exact I]. destruct b; cbn in Hn; try lia. exact I.
    - destruct n as [|n]; [lia|]. cbn [QR0]. unfold hn_new. cbn [hn_done hn_dead hn_ans].
      rsplit; auto; [apply kids0_nil|lia|apply IH; lia].
  Qed.

  Lemma nrread_QR0 : forall r n cap c e r', QR0 n r -> nrread ifuel cap r = ((c, e), r') -> QR0 n r'.
  Proof.
    induction r as [u|cur IH off h]; intros n cap c e r' Hq Hr; cbn [nrread] in Hr.
    - destruct (urd_read ifuel cap u) as [x u'] eqn:Hu. inv Hr. cbn [QR0] in *.
      destruct n; [|exact I]. destruct u; try contradiction. cbn in Hu. inv Hu. exact I.
    - cbn [QR0] in Hq. destruct n as [|n]; [contradiction|]. destruct Hq as (Hd & Hk & Ha & Hc).
      destruct (nrread ifuel cap cur) as [[data e0] cur'] eqn:Hu.
      pose proof (IH _ _ _ _ _ Hc Hu) as Hc'.
      assert (Hother : e0 <> ENone -> e0 <> EEof ->
        (let '(a, h') := hn_on_error h e0 in
         match a with
         | NFailWith c0 => ((data, ECode c0), RE cur' (off + lenN data)%N h')
         | NReplace t' => ((data, ENone), RE (nropen ifuel t' (off + lenN data)%N) (off + lenN data)%N
                                            (hn_retire h' (nrobs (nrclose cur'))))
         end) = ((c, e), r') -> QR0 (S n) r').
      { intros _ _ Hx. unfold hn_on_error in Hx. destruct (hn_ans h) as [|t' r|c0 r] eqn:Ea; cbn [adepth0] in Ha.
        - inv Hx. cbn [QR0 hn_done hn_dead hn_ans adepth0]. rsplit; auto.
        - inv Hx. cbn [QR0 hn_retire hn_done hn_dead hn_ans].
          pose proof (QR0_close _ _ Hc') as B.
          rsplit; auto; [apply kids0_snoc; assumption|lia|apply nropen_QR0; lia].
        - inv Hx. cbn [QR0 hn_done hn_dead hn_ans]. rsplit; auto. }
      destruct e0; try (apply Hother; [congruence|congruence|exact Hr]).
      + inv Hr. cbn [QR0]. rsplit; auto.
      + inv Hr. cbn [QR0]. rsplit; auto.
  Qed.
End Reader.

(** ** Every method *)
Section Methods.
  Variable H : bytes -> bytes.
  Variable cfg : vcfg.
  Variable fuel : nat.

  (** an error buffer has no source: nothing is closed, whatever the method *)
  Lemma plain_leaf0 b m : odepth0 (OLeaf (o_closed (plain H cfg fuel b m))) <= leaf_depth0 b.
  Proof.
    destruct b as [evs|evs a|d|c]; cbn [leaf_depth0]; try apply odepth0_leaf.
    unfold plain, error_buffer. destruct m; cbn; lia.
  Qed.

  Lemma discard_depth0 : forall t, odepth0 (discard_tree H cfg fuel t) <= tdepth0 t.
  Proof.
    induction t as [b|inner IH ans]; cbn [discard_tree tdepth0].
    - apply plain_leaf0.
    - unfold hn_obs, hn_finish, hn_new. cbn [hn_off hn_done hn_dead app].
      apply node0. repeat constructor. lia.
  Qed.

  Lemma whole_depth0 m :
    (forall t, odepth0 (snd (whole H cfg fuel m t)) <= tdepth0 t) /\
    (forall ans n r offers dead cbs, adepth0 ans <= n -> odepth0 (snd r) <= n -> kids0 n dead ->
       odepth0 (snd (try_ans H cfg fuel m ans r offers dead cbs)) <= S n).
  Proof.
    apply nbuf_nanss_ind.
    - intros b. cbn [whole snd tdepth0]. apply plain_leaf0.
    - intros inner IHi ans IHa. cbn [whole tdepth0]. apply IHa; [lia| |apply kids0_nil].
      pose proof IHi. lia.
    - intros n r offers dead cbs Ha Ho Hk. destruct r as [[[d e] cb] o]. cbn [snd] in *. cbn [try_ans].
      pose proof (kids0_snoc _ _ _ Hk Ho) as Hk2.
      destruct e; cbn [snd]; apply node0; exact Hk2.
    - intros t' IHt rest IHr n r offers dead cbs Ha Ho Hk. destruct r as [[[d e] cb] o].
      cbn [snd adepth0] in *. cbn [try_ans].
      pose proof (kids0_snoc _ _ _ Hk Ho) as Hk2.
      assert (Hrec : odepth0 (snd (try_ans H cfg fuel m rest (whole H cfg fuel m t') (offers ++ [e]) (dead ++ [o]) (cbs ++ cb))) <= S n).
      { apply IHr; [lia| |exact Hk2]. pose proof IHt. lia. }
      destruct e; try exact Hrec; cbn [snd]; apply node0; exact Hk2.
    - intros c0 rest IHr n r offers dead cbs Ha Ho Hk. destruct r as [[[d e] cb] o]. cbn [snd] in *. cbn [try_ans].
      pose proof (kids0_snoc _ _ _ Hk Ho) as Hk2.
      destruct e; cbn [snd]; apply node0; exact Hk2.
  Qed.

  Theorem run_tree_depth0 t m : odepth0 (z_tree (run_tree H cfg fuel t m)) <= tdepth0 t.
  Proof.
    destruct t as [b|inner ans].
    - cbn [run_tree z_tree tdepth0]. apply plain_leaf0.
    - remember (NW inner ans) as t eqn:Et. set (n := tdepth0 t).
      assert (Hwhole : forall m', odepth0 (snd (whole H cfg fuel m' t)) <= n) by (intros m'; apply (proj1 (whole_depth0 m'))).
      pose (P0 := fun st : nv => Q0 n (v_u st)). pose (P1 := fun st : nv => odepth0 (nobs (v_u st)) <= n).
      assert (Hcl : forall st, P0 st -> P1 (nv_close st)) by (intros st Hq; apply Q0_close; exact Hq).
      assert (Hinit : P0 (vinit cfg (nopen fuel t 0%N))) by (apply nopen_Q0; unfold n; lia).
      destruct m; rewrite Et; cbn [run_tree]; rewrite <- Et.
      + destruct (whole H cfg fuel (MToByteSlice max) t) as [[[d e] cbs] o] eqn:Hw. cbn [z_tree].
        pose proof (Hwhole (MToByteSlice max)) as Hk. rewrite Hw in Hk. exact Hk.
      + assert (Hpres : forall s r s', nv_read H cfg fuel 65536 s = (r, s') -> P0 s -> P0 s').
        { intros s r s'. unfold nv_read, P0. apply vcr_read_pres. intros s0 [c0 e0] s1 Hr Hq. eapply nread_Q0; eassumption. }
        destruct (into_writer_cr (nv_read H cfg fuel 65536) nv_close fuel (vinit cfg (nopen fuel t 0%N)))
          as [[out e] st] eqn:Hi. cbn [z_tree].
        exact (into_writer_cr_ok _ _ _ P0 P1 Hpres Hcl _ _ _ _ Hi Hinit).
      + destruct (whole H cfg fuel (MReadAt plen off) t) as [[[d e] cbs] o] eqn:Hw. cbn [z_tree].
        pose proof (Hwhole (MReadAt plen off)) as Hk. rewrite Hw in Hk. exact Hk.
      + destruct (valid_offset (g_size cfg) off) eqn:Hv; [|cbn [z_tree]; apply discard_depth0].
        assert (Hpres : forall s r s', nv_read H cfg fuel max s = (r, s') -> P0 s -> P0 s').
        { intros s r s'. unfold nv_read, P0. apply vcr_read_pres. intros s0 [c0 e0] s1 Hr Hq. eapply nread_Q0; eassumption. }
        pose proof (offset_init_ok _ _ nv_close P0 P1 Hpres Hcl fuel off _ Hinit) as H0.
        destruct (drain _ fuel [] _) as [[out e] o] eqn:Hd.
        pose proof (offset_read_ok _ (nv_read H cfg fuel max) P0 P1 Hpres) as Hro.
        eapply (drain_pres _ _ _ Hro) in Hd; [|exact H0].
        destruct (extra_reads _ extra o) as [ex o2] eqn:He.
        eapply (extra_reads_pres _ _ _ Hro) in He; [|exact Hd].
        cbn [z_tree]. exact (offset_close_ok _ nv_close P0 P1 Hcl _ He).
      + pose (R0 := fun st : nrv => QR0 n (v_u st)).
        assert (Hpres : forall cap s r s', nrv_read H cfg fuel cap s = (r, s') -> R0 s -> R0 s').
        { intros cap s r s'. unfold nrv_read, R0. apply vr_read_pres. intros cap0 s0 [c0 e0] s1 Hr Hq. eapply nrread_QR0; eassumption. }
        destruct (rconsume _ fuel caps _ [] _) as [[out e] st] eqn:Hr.
        eapply (rconsume_pres _ _ _ Hpres) in Hr; [|apply nropen_QR0; unfold n; lia].
        destruct (rextra _ extra _ st) as [ex st2] eqn:He.
        eapply (rextra_pres _ _ _ Hpres) in He; [|exact Hr].
        cbn [z_tree v_set_u v_u]. apply QR0_close. exact He.
      + destruct (whole H cfg fuel (MToByteSlice max) t) as [[[d e] cbs] o] eqn:Hw. cbn [z_tree].
        pose proof (Hwhole (MToByteSlice max)) as Hk. rewrite Hw in Hk. exact Hk.
      + cbn [z_tree]. apply discard_depth0.
  Qed.
End Methods.

(** * The monitor on the model's observation is the monitor on the model's
    decoded data - EVERY input, no hypothesis *)
Lemma out16N_depth0 inp : odepth0 (z_tree (out16N inp)) <= tree_depth_bound.
Proof.
  rewrite (out16N_eq inp).
  eapply Nat.le_trans; [apply run_tree_depth0|]. apply (dec_tree_depth0 tree_depth_bound).
Qed.

Lemma mon16N_decoded0 inp :
  mon16N inp (run16N inp) =
  monN_data (n_tree (dec_case16N inp)) (n_meth (dec_case16N inp)) (n_obj (dec_case16N inp))
            (z_data (out16N inp)) (C09FullMonitor.code_of (z_err (out16N inp))) (codes_of (z_tree (out16N inp))).
Proof.
  unfold mon16N. unfold run16N.
  destruct (sx_nth_enc_outN (n_report (dec_case16N inp)) (out16N inp)) as (E0 & E1 & E5).
  rewrite E0, E1, E5, dec_bytes_of_Ns, (dec_enc_otree0 _ _ (out16N_depth0 inp)). unfold C09FullMonitor.code_of. reflexivity.
Qed.

(** * The domain without fuel AND without depth hypothesis *)
Definition dom16NG (inp : sx) : Prop :=
  let c := dec_case16N inp in
  tree_ok (n_obj c) (n_tree c) = true /\
  (match n_tree c with NW _ _ => True | NB _ => False end) /\
  good_param (n_meth c) = true /\
  nom3 (z_tree (out16N inp)) = true /\
  (forall x, z_err (out16N inp) = ECode x -> (0 < x)%Z).

Lemma dom16NF_dom16NG inp : dom16NF inp -> dom16NG inp.
Proof. intros (A & B & C & D & E & _). unfold dom16NG. auto. Qed.

(** all clauses but 2 *)
Theorem mon16N_on_model_nodepth inp : dom16NG inp -> forall c, In c (mon16N inp (run16N inp)) -> c = 2%Z.
Proof.
  intros (Hok & Hroot & Hg & Hm3 & Hpos) c Hin. destruct (out16N_no_fuel inp Hg) as [A B].
  rewrite (mon16N_decoded0 inp) in Hin.
  exact (monN_data_on_model' _ _ _ _ _ _ _ (out16N_eq inp) Hok Hroot (noEF_nofuel _ B Hm3) Hpos c Hin).
Qed.

(** every clause; ToReader: unless the run ends in the validator's own error code *)
Theorem mon16N_silent_on_model_nodepth inp :
  dom16NG inp ->
  (is_to_reader (n_meth (dec_case16N inp)) = true ->
   z_err (out16N inp) <> ECode (g_code (n_cfg (dec_case16N inp)))) ->
  mon16N inp (run16N inp) = [].
Proof.
  intros Hdom Htr.
  pose proof (mon16N_on_model_nodepth inp Hdom) as Hall.
  destruct Hdom as (Hok & Hroot & Hg & Hm3 & Hpos). destruct (out16N_no_fuel inp Hg) as [Hnf _].
  destruct (mon16N inp (run16N inp)) as [|k l] eqn:Hmon; [reflexivity|]. exfalso.
  assert (Hk : k = 2%Z) by (apply Hall; left; reflexivity). subst k.
  assert (Hin : In 2%Z (mon16N inp (run16N inp))) by (rewrite Hmon; left; reflexivity).
  rewrite (mon16N_decoded0 inp) in Hin.
  destruct (n_tree (dec_case16N inp)) as [b|inner ans] eqn:Et; [contradiction|].
  pose proof (out16N_eq inp) as Eo. rewrite Et in Eo.
  exact (clause2_core _ _ _ _ _ _ _ _ Eo Hnf Htr Hin).
Qed.

(** * Non-vacuity: a tree nested deeper than the decoder's fuel.  64 handlers
    (each answering its first error with 7) around a chunk-reader buffer: the
    decoder replaces what is below level 64 by an error buffer (code 2), the
    decoded tree has depth 65 - outside [dom16NF], inside [dom16NG]. *)
Fixpoint nest (n : nat) (s : sx) : sx :=
  match n with
  | O => s
  | S n' => L [A 4; nest n' s; L [L [A 1; A 7]]]
  end.
Definition deep_inp : sx :=
  L [A 0; L [A 2; L [A 0; A 0; A 0; A 1]; A 2];
     nest 64 (L [A 0; L [L [A 0; L [A 98; A 99]]; L [A 2]]]);
     L [A 3; A 0; A 2; A 1]; L []; L [A 98; A 99]].

Example deep_tree_depth :
  tdepth (n_tree (dec_case16N deep_inp)) = 65 /\ tdepth0 (n_tree (dec_case16N deep_inp)) = 64.
Proof. vm_compute. split; reflexivity. Qed.

Example deep_in_domain : dom16NG deep_inp.
Proof.
  unfold dom16NG. repeat match goal with |- _ /\ _ => split end.
  - vm_compute. reflexivity.
  - vm_compute. exact I.
  - vm_compute. reflexivity.
  - vm_compute. reflexivity.
  - intros x E. vm_compute in E. inversion E. lia.
Qed.
Example deep_not_in_old_domain : ~ dom16NF deep_inp.
Proof.
  intros (_ & _ & _ & _ & _ & Hd). cbv zeta in Hd. apply Nat.leb_le in Hd. vm_compute in Hd. discriminate.
Qed.
Example deep_monitor_silent : mon16N deep_inp (run16N deep_inp) = [].
Proof. vm_compute. reflexivity. Qed.
