(** C16N — monitor clause 2 on the model: when the last answer the OUTERMOST
    handler gave was an error, that error is the consumer's result.

    Method: a reader is TRACKED when every error it returns leaves it stuck
    with that error (it returns it again and does not change).  The validating
    readers are tracked (sticky error) and keep the invariant "if the root
    handler's last answer was the error x, the sticky error is x"; the offset
    reader, drain, the further reads and Close() keep both.

    For ToReader the statement is weaker, and necessarily so
    ([clause2_fires_on_the_model], Run/R16NMore.v): the casValidatingReader
    looks at the size of the data BEFORE the error that came with it, and
    io.ReadFull drops an error that comes with the byte it wanted, so data
    handed over together with the handler's error can turn the result into the
    validator's own error code. *)
From Coq Require Import List ZArith NArith Bool Lia.
From BBS Require Import Common.Sx Buffer.Source Buffer.Validate Buffer.Convert Buffer.ErrHandler
  Buffer.StreamProofs Buffer.ValidateProofs Buffer.EHNest Run.R09 Run.R16 Run.R16N.
Import ListNotations.
Open Scope N_scope.

(** * The script of a handler against the number of offers it has received *)
Inductive Al : nanss -> nat -> nanss -> Prop :=
| Al_nil ans : Al ans O ans
| Al_rep t r n rem : Al r n rem -> Al (ARep t r) (S n) rem.

Lemma Al_snoc ans n t r : Al ans n (ARep t r) -> Al ans (S n) r.
Proof.
  intros Ha. remember (ARep t r) as rem eqn:Er. revert Er.
  induction Ha as [ans|t0 r0 n rem Ha IH]; intros ->.
  - constructor. constructor.
  - constructor. apply IH. reflexivity.
Qed.
Lemma Al_ret_none ans n rem : Al ans n rem -> returnedN ans n = None.
Proof.
  induction 1 as [ans|t r n rem Ha IH]; [reflexivity|].
  destruct n as [|n]; [reflexivity|]. exact IH.
Qed.
Lemma Al_ret_next ans n rem : Al ans n rem ->
  returnedN ans (S n) = match rem with ANil => Some 10%Z | AFail c _ => Some c | ARep _ _ => None end.
Proof.
  induction 1 as [ans|t r n rem Ha IH]; [destruct ans; reflexivity|]. exact IH.
Qed.

(** * Tracked readers *)
Section Tracked.
  Context {S : Type}.
  Variable stuck : err -> S -> Prop.

  Definition tlaw (rd : S -> (bytes * err) * S) (J : S -> Prop) : Prop :=
    forall s c e s', J s -> rd s = ((c, e), s') ->
      J s' /\ (e <> ENone -> stuck e s') /\ (forall e0, stuck e0 s -> s' = s /\ e = e0).
  Definition rtlaw (rd : N -> S -> (bytes * err) * S) (J : S -> Prop) : Prop :=
    forall cap s c e s', J s -> rd cap s = ((c, e), s') ->
      J s' /\ (e <> ENone -> stuck e s') /\ (forall e0, stuck e0 s -> s' = s /\ e = e0).

  Lemma drain_tracked rd J : tlaw rd J -> forall f out s o e s',
    J s -> drain rd f out s = ((o, e), s') -> J s' /\ (e = EFuel \/ stuck e s').
  Proof.
    intros T. induction f as [|f IH]; intros out s o e s' Hj Hd; cbn [drain] in Hd.
    - inv Hd. auto.
    - destruct (rd s) as [[c e1] s1] eqn:Hr. destruct (T _ _ _ _ Hj Hr) as (A & B & _).
      destruct e1; try (inv Hd; split; [exact A|right; apply B; congruence]).
      eapply IH; eassumption.
  Qed.
  Lemma extra_reads_stuck rd J : tlaw rd J -> forall k s ex s' e0,
    J s -> stuck e0 s -> extra_reads rd k s = (ex, s') -> s' = s.
  Proof.
    intros T. induction k as [|k IH]; intros s ex s' e0 Hj Hs He; cbn [extra_reads] in He; [inv He; reflexivity|].
    destruct (rd s) as [[c e] s1] eqn:Hr. destruct (extra_reads rd k s1) as [l s2] eqn:He2. inv He.
    destruct (T _ _ _ _ Hj Hr) as (_ & _ & C). destruct (C _ Hs) as (-> & _). eapply IH; eassumption.
  Qed.
  Lemma rconsume_tracked rd J : rtlaw rd J -> forall f caps lc out s o e s',
    J s -> rconsume rd f caps lc out s = ((o, e), s') -> J s' /\ (e = EFuel \/ stuck e s').
  Proof.
    intros T. induction f as [|f IH]; intros caps lc out s o e s' Hj Hd; cbn [rconsume] in Hd.
    - inv Hd. auto.
    - destruct (rd (hd lc caps) s) as [[c e1] s1] eqn:Hr. destruct (T _ _ _ _ _ Hj Hr) as (A & B & _).
      destruct e1; try (inv Hd; split; [exact A|right; apply B; congruence]).
      eapply IH; eassumption.
  Qed.
  Lemma rextra_stuck rd J : rtlaw rd J -> forall k cap s ex s' e0,
    J s -> stuck e0 s -> rextra rd k cap s = (ex, s') -> s' = s.
  Proof.
    intros T. induction k as [|k IH]; intros cap s ex s' e0 Hj Hs He; cbn [rextra] in He; [inv He; reflexivity|].
    destruct (rd cap s) as [[c e] s1] eqn:Hr. destruct (rextra rd k cap s1) as [l s2] eqn:He2. inv He.
    destruct (T _ _ _ _ _ Hj Hr) as (_ & _ & C). destruct (C _ Hs) as (-> & _). eapply IH; eassumption.
  Qed.

  (** the offset reader over a tracked reader is tracked *)
  Variable rd : S -> (bytes * err) * S.
  Variable cl : S -> S.
  Variable J : S -> Prop.
  Hypothesis T : tlaw rd J.
  Hypothesis Jcl : forall s, J s -> J (cl s).
  Hypothesis stuck_cl : forall e s, stuck e s -> stuck e (cl s).

  Definition stuck_o (e : err) (o : ost S) : Prop :=
    (o_fixed o = e /\ e <> ENone /\ (e <> EFuel -> stuck e (o_u o))) \/
    (o_fixed o = ENone /\ o_prefix o = [] /\ stuck e (o_u o)).
  Definition J_o (o : ost S) : Prop :=
    J (o_u o) /\ (o_fixed o <> ENone -> (o_fixed o <> EFuel -> stuck (o_fixed o) (o_u o)) /\ o_prefix o = []).

  Lemma discard_tracked : forall f off s p e s', J s ->
    discard_from_chunk_reader rd f off s = ((p, e), s') -> J s' /\ (e <> ENone -> e <> EFuel -> stuck e s').
  Proof.
    induction f as [|f IH]; intros off s p e s' Hj Hd; cbn [discard_from_chunk_reader] in Hd.
    - destruct (off =? 0); inv Hd; split; auto; congruence.
    - destruct (off =? 0). { inv Hd. split; auto; congruence. }
      destruct (rd s) as [[c e1] s1] eqn:Hr. destruct (T _ _ _ _ Hj Hr) as (A & B & _).
      destruct e1; try (inv Hd; split; [exact A|intros; apply B; congruence]).
      destruct (off <? lenN c); [inv Hd; split; auto; congruence|]. eapply IH; eassumption.
  Qed.

  Lemma offset_init_tracked f off s : (0 <= off)%Z -> J s -> J_o (offset_init rd cl f off s).
  Proof.
    intros Hoff Hj. unfold offset_init. destruct (off <? 0)%Z eqn:E; [apply Z.ltb_lt in E; lia|].
    destruct (discard_from_chunk_reader rd f (Z.to_N off) s) as [[p e] s'] eqn:Hd.
    destruct (discard_tracked _ _ _ _ _ _ Hj Hd) as (A & B).
    destruct e; unfold J_o; cbn [o_u o_fixed o_prefix]; (split; [auto|]); try congruence;
      intros _; (split; [|reflexivity]); intros Hnf; apply stuck_cl, B; congruence.
  Qed.

  Lemma offset_read_tracked : forall o c e o', J_o o -> offset_read rd o = ((c, e), o') ->
    J_o o' /\ (e <> ENone -> stuck_o e o') /\ (forall e0, stuck_o e0 o -> o' = o /\ e = e0).
  Proof.
    intros o c e o' (Hj & Hf) Hr. unfold offset_read in Hr.
    destruct (o_fixed o) eqn:Ef;
      try (inv Hr; (split; [split; [exact Hj|rewrite Ef; exact Hf]|]); split;
      [intros _; left; rewrite Ef; destruct (Hf ltac:(congruence)) as (X & _);
       rsplit; auto; try congruence; try (intros; congruence)
      |intros e0 [(X & _)|(X & _)]; [split; [reflexivity|rewrite Ef in X; auto]|rewrite Ef in X; congruence]]; fail).
    destruct (is_nil (o_prefix o)) eqn:En.
      - destruct (rd (o_u o)) as [[c1 e1] u'] eqn:Hr1. inv Hr.
        destruct (T _ _ _ _ Hj Hr1) as (A & B & C).
        split; [split; cbn [o_u o_fixed o_prefix]; [exact A|congruence]|]. split.
        + intros Hne. right. cbn [o_u o_fixed o_prefix]. auto.
        + intros e0 [(X & Y & _)|(_ & Hp & Hs)]; [rewrite Ef in X; congruence|].
          destruct (C _ Hs) as (-> & ->). split; [|reflexivity].
          destruct o as [u p fx]. cbn in *. subst. reflexivity.
      - inv Hr. split; [split; cbn [o_u o_fixed o_prefix]; [exact Hj|congruence]|]. split; [congruence|].
        intros e0 [(X & Y & _)|(_ & Hp & _)]; [rewrite Ef in X; congruence|].
        rewrite Hp in En. discriminate.
  Qed.

  Lemma offset_close_tracked o e : J_o o -> stuck_o e o -> e <> EFuel ->
    J (o_u (offset_close cl o)) /\ stuck e (o_u (offset_close cl o)).
  Proof.
    intros (Hj & Hf) Hs Hne. unfold offset_close.
    destruct Hs as [(X & Y & Z)|(X & _ & Z)].
    - rewrite X. destruct e; try congruence; cbn [o_u]; auto.
    - rewrite X. cbn [o_u]. auto.
  Qed.
End Tracked.

(** * The validating readers over a reader whose errors say what the root
    handler returned *)
Section ValidatorTracked.
  Variable H : bytes -> bytes.
  Variable cfg : vcfg.
  Context {S : Type}.
  Variable ret : S -> option Z.
  Variable P0 : S -> Prop.
  Hypothesis P0_ret : forall s, P0 s -> ret s = None.

  Definition told (e : err) (s : S) : Prop :=
    match e with ECode x => ret s = Some x | EUnexp => False | _ => P0 s end.
  Definition vstuck (e : err) (st : vst S) : Prop := v_err st = e /\ e <> ENone.

  Lemma told_W e s x : told e s -> ret s = Some x -> e = ECode x.
  Proof.
    destruct e; cbn [told]; intros Ht Hr; try (rewrite (P0_ret _ Ht) in Hr; discriminate); try contradiction.
    rewrite Ht in Hr. inv Hr. reflexivity.
  Qed.
  Lemma told_P0 e s : told e s -> e = ENone \/ e = EEof -> P0 s.
  Proof. intros Ht [->| ->]; exact Ht. Qed.

  (** ** casValidatingChunkReader: the root's error is the sticky error *)
  Section Chunk.
    Variable rd : S -> (bytes * err) * S.
    Hypothesis rd_told : forall s c e s', P0 s -> rd s = ((c, e), s') -> told e s'.

    Definition Jvc (st : vst S) : Prop :=
      (v_err st = ENone -> P0 (v_u st)) /\ (forall x, ret (v_u st) = Some x -> v_err st = ECode x).

    Lemma finalize_loop_told : forall f (st : vst S) e st',
      finalize_loop H cfg rd f st = (e, st') -> P0 (v_u st) ->
      e <> ENone /\ (forall x, ret (v_u st') = Some x -> e = ECode x) /\ v_err st' = v_err st.
    Proof.
      induction f as [|f IH]; intros st e st' Hf Hp; cbn [finalize_loop] in Hf.
      - inv Hf. split; [congruence|]. split; [|reflexivity]. intros x Hx. rewrite (P0_ret _ Hp) in Hx. discriminate.
      - destruct (rd (v_u st)) as [[chunk e0] u'] eqn:Hr. pose proof (rd_told _ _ _ _ Hp Hr) as Ht.
        assert (HW : forall x, ret u' = Some x -> e0 = ECode x) by (intros x; apply told_W; exact Ht).
        assert (HN : e0 = ENone \/ e0 = EEof -> forall x e1, ret u' = Some x -> e1 = ECode x).
        { intros He x e1 Hx. rewrite (P0_ret _ (told_P0 _ _ Ht He)) in Hx. discriminate. }
        destruct e0; cbn in Hf.
        + destruct (v_rem st <? lenN chunk).
          * inv Hf. cbn. split; [congruence|]. split; [|reflexivity]. intros x. apply HN. auto.
          * apply IH in Hf; [|cbn; apply (told_P0 _ _ Ht); auto]. cbn in Hf. exact Hf.
        + destruct (bytes_eqb _ _); inv Hf; cbn; (split; [congruence|]); (split; [|reflexivity]); intros x; apply HN; auto.
        + contradiction.
        + inv Hf. cbn. split; [congruence|]. split; [exact HW|reflexivity].
        + inv Hf. cbn. split; [congruence|]. split; [|reflexivity]. intros x Hx. discriminate (HW x Hx).
    Qed.
    Lemma maybe_finalize_told f (st : vst S) e st' :
      maybe_finalize H cfg rd f st = (e, st') -> P0 (v_u st) ->
      (e = ENone -> st' = st) /\ (e <> ENone -> forall x, ret (v_u st') = Some x -> e = ECode x) /\
      v_err st' = v_err st.
    Proof.
      unfold maybe_finalize. intros Hm Hp. destruct (0 <? v_rem st).
      - inv Hm. rsplit; auto. congruence.
      - destruct (finalize_loop_told _ _ _ _ Hm Hp) as (A & B & C). rsplit; auto. congruence.
    Qed.

    Lemma vcr_read_tracked f : tlaw vstuck (vcr_read H cfg rd f) Jvc.
    Proof.
      intros st c e st' (Hj0 & Hjr) Hr. unfold vcr_read in Hr.
      assert (Hsticky : v_err st <> ENone -> c = [] /\ e = v_err st /\ st' = st).
      { intros Hne. destruct (v_err st) eqn:Ev; try congruence; inv Hr; auto. }
      assert (Hcase : v_err st = ENone \/ v_err st <> ENone) by (destruct (v_err st); [left|right..]; congruence).
      destruct Hcase as [Eerr|Hne].
      2:{ destruct (Hsticky Hne) as (-> & -> & ->).
          split; [split; [intros X; congruence|exact Hjr]|].
          split; [intros _; split; [reflexivity|exact Hne]|].
          intros e0 (X & _). split; [reflexivity|exact X]. }
      clear Hsticky. specialize (Hj0 Eerr). rewrite Eerr in Hr.
      assert (Hgoal : forall e1 (st1 : vst S), e1 <> ENone -> v_err st1 = e1 ->
                (forall x, ret (v_u st1) = Some x -> e1 = ECode x) ->
                Jvc st1 /\ (e1 <> ENone -> vstuck e1 st1) /\ (forall e0, vstuck e0 st -> st1 = st /\ e1 = e0)).
      { intros e1 st1 Hne Hv Hx. split; [split; [congruence|intros x Hr'; rewrite Hv; apply Hx; exact Hr']|].
        split; [intros _; split; assumption|]. intros e0 (X & Y). congruence. }
      destruct (vcr_do_read H cfg rd f st) as [[chunk e1] st1] eqn:Hd.
      unfold vcr_do_read in Hd.
      destruct (maybe_finalize H cfg rd f st) as [e0 st0] eqn:Hm.
      destruct (maybe_finalize_told _ _ _ _ Hm Hj0) as (Hsame & Htold0 & Hv0).
      destruct e0; try (inv Hd; inv Hr; apply Hgoal; [congruence|reflexivity|cbn; apply Htold0; congruence]).
      rewrite (Hsame eq_refl) in *. clear Hsame Hm st0 Htold0 Hv0.
      destruct (rd (v_u st)) as [[c1 er] u'] eqn:Hrd. pose proof (rd_told _ _ _ _ Hj0 Hrd) as Ht.
      assert (HW : forall x, ret u' = Some x -> er = ECode x) by (intros x; apply told_W; exact Ht).
      assert (HN : er = ENone \/ er = EEof -> forall x e2, ret u' = Some x -> e2 = ECode x).
      { intros He x e2 Hx. rewrite (P0_ret _ (told_P0 _ _ Ht He)) in Hx. discriminate. }
      cbn [v_set_u v_rem v_u v_acc v_err v_cbs] in Hd.
      destruct er.
      - destruct (v_rem st <? lenN c1).
        + unfold v_fail in Hd. inv Hd. inv Hr. apply Hgoal; [congruence|reflexivity|]. cbn. intros x. apply HN. auto.
        + inv Hd.
          match type of Hr with context [maybe_finalize H cfg rd f ?s0] =>
            destruct (maybe_finalize H cfg rd f s0) as [e2 st2] eqn:Hm2;
            destruct (maybe_finalize_told _ _ _ _ Hm2 ltac:(cbn; exact Ht)) as (Hsame2 & Htold2 & Hv2) end.
          destruct e2; try (inv Hr; apply Hgoal; [congruence|reflexivity|cbn; apply Htold2; congruence]).
          * inv Hr. rewrite (Hsame2 eq_refl). cbn.
            split; [split; cbn; [intros _; exact Ht|intros x Hx; rewrite (P0_ret _ Ht) in Hx; discriminate]|].
            split; [congruence|]. intros e0 (X & Y). congruence.
          * inv Hr. cbn.
            split; [split; cbn; [congruence|intros x Hx; discriminate (Htold2 ltac:(congruence) x Hx)]|].
            split; [congruence|]. intros e0 (X & Y). congruence.
      - unfold v_fail in Hd. inv Hd. inv Hr. apply Hgoal; [congruence|reflexivity|]. cbn. intros x. apply HN. auto.
      - contradiction.
      - inv Hd. inv Hr. apply Hgoal; [congruence|reflexivity|]. cbn. exact HW.
      - inv Hd. inv Hr. apply Hgoal; [congruence|reflexivity|]. cbn. exact HW.
    Qed.
  End Chunk.

  (** ** casValidatingReader: ... or the validator's own error code *)
  Section Reader.
    Variable rd : N -> S -> (bytes * err) * S.
    Hypothesis rd_told : forall cap s c e s', P0 s -> rd cap s = ((c, e), s') -> told e s'.

    Definition okr (x : Z) (e : err) : Prop := e = ECode x \/ e = ECode (g_code cfg).
    Definition Jvr (st : vst S) : Prop :=
      (v_err st = ENone -> P0 (v_u st)) /\ (forall x, ret (v_u st) = Some x -> okr x (v_err st)).

    Lemma read_full_loop_told : forall f want got s g fe s',
      read_full_loop rd f want got s = ((g, fe), s') -> P0 s ->
      (fe = ENone -> (want <= lenN g)%N) /\
      (fe <> ENone -> forall x, ret s' = Some x -> fe = ECode x).
    Proof.
      induction f as [|f IH]; intros want got s g fe s' Hr Hp; cbn [read_full_loop] in Hr.
      - destruct (want <=? lenN got) eqn:Ew; inv Hr.
        + split; [intros _; apply N.leb_le; exact Ew|congruence].
        + split; [congruence|]. intros _ x Hx. rewrite (P0_ret _ Hp) in Hx. discriminate.
      - destruct (want <=? lenN got) eqn:Ew.
        { inv Hr. split; [intros _; apply N.leb_le; exact Ew|congruence]. }
        destruct (rd (want - lenN got) s) as [[c e] s1] eqn:Hrd. pose proof (rd_told _ _ _ _ _ Hp Hrd) as Ht.
        assert (HW : forall x, ret s1 = Some x -> e = ECode x) by (intros x; apply told_W; exact Ht).
        destruct e; try (eapply IH; [exact Hr|exact Ht]).
        + destruct (want <=? lenN (got ++ c)) eqn:Ew2; inv Hr.
          * split; [intros _; apply N.leb_le; exact Ew2|congruence].
          * split; [destruct (is_nil (got ++ c)); congruence|].
            intros _ x Hx. rewrite (P0_ret _ Ht) in Hx. discriminate.
        + contradiction.
        + destruct (want <=? lenN (got ++ c)) eqn:Ew2; inv Hr.
          * split; [intros _; apply N.leb_le; exact Ew2|congruence].
          * split; [congruence|]. intros _. exact HW.
        + destruct (want <=? lenN (got ++ c)) eqn:Ew2; inv Hr.
          * split; [intros _; apply N.leb_le; exact Ew2|congruence].
          * split; [congruence|]. intros _. exact HW.
    Qed.

    Lemma vr_read_tracked f : rtlaw vstuck (vr_read H cfg rd f) Jvr.
    Proof.
      intros cap st c e st' (Hj0 & Hjr) Hr. unfold vr_read in Hr.
      assert (Hsticky : v_err st <> ENone -> c = [] /\ e = v_err st /\ st' = st).
      { intros Hne. destruct (v_err st) eqn:Ev; try congruence; inv Hr; auto. }
      assert (Hcase : v_err st = ENone \/ v_err st <> ENone) by (destruct (v_err st); [left|right..]; congruence).
      destruct Hcase as [Eerr|Hne].
      2:{ destruct (Hsticky Hne) as (-> & -> & ->).
          split; [split; [intros X; congruence|exact Hjr]|].
          split; [intros _; split; [reflexivity|exact Hne]|].
          intros e0 (X & _). split; [reflexivity|exact X]. }
      clear Hsticky. specialize (Hj0 Eerr). rewrite Eerr in Hr.
      destruct (vr_do_read H cfg rd f cap st) as [[d0 e0] st0] eqn:Hdo. inv Hr.
      assert (Hgoal : forall (st1 : vst S),
                (e = ENone -> P0 (v_u st1)) -> (forall x, ret (v_u st1) = Some x -> okr x e) ->
                Jvr (v_set_err st1 e) /\ (e <> ENone -> vstuck e (v_set_err st1 e)) /\
                (forall e1, vstuck e1 st -> v_set_err st1 e = st /\ e = e1)).
      { intros st1 Hp Hx. split; [split; cbn; assumption|].
        split; [intros Hne; split; [reflexivity|exact Hne]|]. intros e1 (X & Y). congruence. }
      assert (Hmain : (e = ENone -> P0 (v_u st0)) /\ (forall x, ret (v_u st0) = Some x -> okr x e)).
      2:{ destruct Hmain. apply Hgoal; assumption. }
      clear Hgoal.
      unfold vr_do_read in Hdo. destruct (rd cap (v_u st)) as [[data re] u'] eqn:Hrd.
      pose proof (rd_told _ _ _ _ _ Hj0 Hrd) as Ht.
      assert (HW : forall x, ret u' = Some x -> re = ECode x) by (intros x; apply told_W; exact Ht).
      assert (HN : re = ENone \/ re = EEof -> forall x, ret u' = Some x -> False)
        by (intros He x Hx; rewrite (P0_ret _ (told_P0 _ _ Ht He)) in Hx; discriminate).
      cbn [v_set_u v_rem v_u v_acc v_err v_cbs] in Hdo.
      destruct (v_rem st <? lenN data).
      { unfold v_fail in Hdo; inv Hdo; cbn; split; [congruence|intros x _; right; reflexivity]. }
      destruct re; cbn [v_rem v_u v_acc v_err v_cbs] in Hdo.
      - destruct (v_rem st - lenN data =? 0) eqn:Ez.
        + destruct (read_full rd f 1 u') as [[fin0 fe] u''] eqn:Hf. unfold read_full in Hf.
          destruct (read_full_loop_told _ _ _ _ _ _ _ Hf Ht) as (Hlen & Htold).
          cbn [v_set_u v_rem v_u v_acc v_err v_cbs] in Hdo. apply N.eqb_eq in Ez.
          destruct fe.
          * destruct (v_rem st - lenN data <? lenN fin0) eqn:El.
            -- unfold v_fail in Hdo; inv Hdo; cbn; split; [congruence|intros x _; right; reflexivity].
            -- exfalso. specialize (Hlen eq_refl). apply N.ltb_ge in El. unfold lenN in *. lia.
          * destruct (v_rem st - lenN data <? lenN fin0).
            -- unfold v_fail in Hdo; inv Hdo; cbn; split; [congruence|intros x _; right; reflexivity].
            -- unfold vr_compare in Hdo. cbn in Hdo. destruct (bytes_eqb _ _); unfold v_fail in Hdo; inv Hdo; cbn.
               ++ split; [congruence|]. intros x Hx. discriminate (Htold ltac:(congruence) x Hx).
               ++ split; [congruence|intros x _; right; reflexivity].
          * destruct (v_rem st - lenN data <? lenN fin0).
            -- unfold v_fail in Hdo; inv Hdo; cbn; split; [congruence|intros x _; right; reflexivity].
            -- unfold vr_compare in Hdo. cbn in Hdo. destruct (bytes_eqb _ _); unfold v_fail in Hdo; inv Hdo; cbn.
               ++ split; [congruence|]. intros x Hx. discriminate (Htold ltac:(congruence) x Hx).
               ++ split; [congruence|intros x _; right; reflexivity].
          * inv Hdo; cbn. split; [congruence|]. intros x Hx. left. apply Htold; [congruence|exact Hx].
          * inv Hdo; cbn. split; [congruence|]. intros x Hx. left. apply Htold; [congruence|exact Hx].
        + inv Hdo; cbn. split; [intros _; exact Ht|]. intros x Hx. exfalso. eapply HN; eauto.
      - destruct (negb (v_rem st - lenN data =? 0)).
        + unfold v_fail in Hdo; inv Hdo; cbn; split; [congruence|intros x _; right; reflexivity].
        + unfold vr_compare in Hdo. cbn in Hdo. destruct (bytes_eqb _ _); unfold v_fail in Hdo; inv Hdo; cbn.
          * split; [congruence|]. intros x Hx. exfalso. eapply HN; eauto.
          * split; [congruence|intros x _; right; reflexivity].
      - contradiction.
      - inv Hdo; cbn. split; [congruence|]. intros x Hx. left. apply HW. exact Hx.
      - inv Hdo; cbn. split; [congruence|]. intros x Hx. left. apply HW. exact Hx.
    Qed.
  End Reader.
End ValidatorTracked.
