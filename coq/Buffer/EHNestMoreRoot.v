(** C16N — clause 2 on the model, every method: if the last answer of the
    outermost handler of a wrapped tree was an error [x], the consumer's result
    is [ECode x] - for ToReader: or the validator's own error code (data handed
    over together with the handler's error is checked against the digest's size
    first).  Hypothesis: the run did not end in the out-of-fuel marker. *)
From Coq Require Import List ZArith NArith Bool Lia.
From BBS Require Import Common.Sx Buffer.Source Buffer.Validate Buffer.Convert Buffer.ErrHandler
  Buffer.StreamProofs Buffer.ValidateProofs Buffer.EHNest Buffer.EHNestMoreRet Run.R09 Run.R16 Run.R16N.
Import ListNotations.
Open Scope N_scope.

Lemma len_snoc {A} (l : list A) x : length (l ++ [x]) = Datatypes.S (length l).
Proof. rewrite app_length. cbn. apply Nat.add_1_r. Qed.

Section Root.
  Variable ans : nanss.       (* the script of the outermost handler *)

  Definition retN (r : ncr) : option Z :=
    match r with CE _ _ h => returnedN ans (length (hn_off h)) | CL _ => None end.
  Definition P0N (r : ncr) : Prop :=
    match r with CE _ _ h => Al ans (length (hn_off h)) (hn_ans h) | CL _ => False end.
  Lemma P0N_ret r : P0N r -> retN r = None.
  Proof. destruct r as [u|cur off h]; [contradiction|]. apply Al_ret_none. Qed.

  Lemma nread_told ifuel max : forall fuel r c e r',
    P0N r -> nread ifuel fuel max r = ((c, e), r') -> told retN P0N e r'.
  Proof.
    induction fuel as [|f IH]; intros r c e r' Hp Hr; cbn [nread] in Hr.
    - inv Hr. exact Hp.
    - destruct r as [u|cur off h]; [contradiction|]. cbn [P0N] in Hp.
      destruct (nread ifuel f max cur) as [[chunk e0] cur'] eqn:Hu.
      assert (Hother : e0 <> ENone -> e0 <> EEof ->
        (let '(a, h') := hn_on_error h e0 in
         match a with
         | NFailWith c0 => (([], ECode c0), CE cur' off h')
         | NReplace t' => nread ifuel f max (CE (nopen ifuel t' off) off (hn_retire h' (nobs (nclose cur'))))
         end) = ((c, e), r') -> told retN P0N e r').
      { intros _ _ Hx. unfold hn_on_error in Hx. destruct (hn_ans h) as [|t' r|c0 r] eqn:Ea.
        - inv Hx. cbn [told retN hn_off]. rewrite len_snoc, (Al_ret_next _ _ _ Hp). reflexivity.
        - eapply IH; [|exact Hx]. cbn [P0N hn_retire hn_off hn_ans]. rewrite len_snoc. eapply Al_snoc. exact Hp.
        - inv Hx. cbn [told retN hn_off]. rewrite len_snoc, (Al_ret_next _ _ _ Hp). reflexivity. }
      destruct e0; try (apply Hother; [congruence|congruence|exact Hr]).
      + inv Hr. exact Hp.
      + inv Hr. exact Hp.
  Qed.

  Definition retR (r : nrd) : option Z :=
    match r with RE _ _ h => returnedN ans (length (hn_off h)) | RL _ => None end.
  Definition P0R (r : nrd) : Prop :=
    match r with RE _ _ h => Al ans (length (hn_off h)) (hn_ans h) | RL _ => False end.
  Lemma P0R_ret r : P0R r -> retR r = None.
  Proof. destruct r as [u|cur off h]; [contradiction|]. apply Al_ret_none. Qed.

  Lemma nrread_told ifuel cap r c e r' :
    P0R r -> nrread ifuel cap r = ((c, e), r') -> told retR P0R e r'.
  Proof.
    intros Hp Hr. destruct r as [u|cur off h]; [contradiction|]. cbn [P0R] in Hp. cbn [nrread] in Hr.
    destruct (nrread ifuel cap cur) as [[data e0] cur'] eqn:Hu.
    assert (Hother : e0 <> ENone -> e0 <> EEof ->
      (let '(a, h') := hn_on_error h e0 in
       match a with
       | NFailWith c0 => ((data, ECode c0), RE cur' (off + lenN data) h')
       | NReplace t' => ((data, ENone), RE (nropen ifuel t' (off + lenN data)) (off + lenN data)
                                          (hn_retire h' (nrobs (nrclose cur'))))
       end) = ((c, e), r') -> told retR P0R e r').
    { intros _ _ Hx. unfold hn_on_error in Hx. destruct (hn_ans h) as [|t' r|c0 r] eqn:Ea.
      - inv Hx. cbn [told retR hn_off]. rewrite len_snoc, (Al_ret_next _ _ _ Hp). reflexivity.
      - inv Hx. cbn [told P0R hn_retire hn_off hn_ans]. rewrite len_snoc. eapply Al_snoc. exact Hp.
      - inv Hx. cbn [told retR hn_off]. rewrite len_snoc, (Al_ret_next _ _ _ Hp). reflexivity. }
    destruct e0; try (apply Hother; [congruence|congruence|exact Hr]).
    - inv Hr. exact Hp.
    - inv Hr. exact Hp.
  Qed.
End Root.

Section Methods.
  Variable H : bytes -> bytes.
  Variable cfg : vcfg.
  Variable fuel : nat.

  (** whole-operation retries *)
  Lemma try_ans_ret m ans0 : forall rem r offers dead cbs d e cbs' o,
    Al ans0 (length offers) rem -> try_ans H cfg fuel m rem r offers dead cbs = ((d, e, cbs'), o) ->
    match o with
    | ONode offs _ _ => forall x, returnedN ans0 (length offs) = Some x -> e = ECode x
    | OLeaf _ => True
    end.
  Proof.
    induction rem as [|t' rest IH|c0 rest IH]; intros r offers dead cbs d e cbs' o Ha Ht;
      destruct r as [[[d1 e1] cb] o1]; cbn [try_ans] in Ht.
    - destruct e1; inv Ht; try (intros x Hx; rewrite (Al_ret_none _ _ _ Ha) in Hx; discriminate).
      all: intros x Hx; rewrite len_snoc, (Al_ret_next _ _ _ Ha) in Hx; congruence.
    - destruct e1; try (inv Ht; intros x Hx; rewrite (Al_ret_none _ _ _ Ha) in Hx; discriminate).
      all: eapply IH; [|exact Ht]; rewrite len_snoc; eapply Al_snoc; exact Ha.
    - destruct e1; inv Ht; try (intros x Hx; rewrite (Al_ret_none _ _ _ Ha) in Hx; discriminate).
      all: intros x Hx; rewrite len_snoc, (Al_ret_next _ _ _ Ha) in Hx; congruence.
  Qed.

  Lemma whole_ret m inner ans d e cbs o :
    whole H cfg fuel m (NW inner ans) = ((d, e, cbs), o) ->
    match o with
    | ONode offs _ _ => forall x, returnedN ans (length offs) = Some x -> e = ECode x
    | OLeaf _ => True
    end.
  Proof. cbn [whole]. apply try_ans_ret. constructor. Qed.

  Definition is_to_reader (m : meth) : bool := match m with MToReader _ _ => true | _ => false end.

  Lemma nclose_ret ans r : retN ans (nclose r) = retN ans r.
  Proof. destruct r; reflexivity. Qed.
  Lemma nclose_P0 ans r : P0N ans r -> P0N ans (nclose r).
  Proof. destruct r; cbn; auto. Qed.

  Lemma nobs_ret ans r : match nobs r with
                         | ONode offs _ _ => returnedN ans (length offs) = retN ans r
                         | OLeaf _ => True
                         end.
  Proof. destruct r as [u|cur off h]; cbn; [exact I|reflexivity]. Qed.
  Lemma nrobs_ret ans r : match nrobs r with
                          | ONode offs _ _ => returnedN ans (length offs) = retR ans r
                          | OLeaf _ => True
                          end.
  Proof. destruct r as [u|cur off h]; cbn; [exact I|reflexivity]. Qed.
  Lemma nrclose_ret ans r : retR ans (nrclose r) = retR ans r.
  Proof. destruct r; reflexivity. Qed.

  Notation JC ans := (Jvc (retN ans) (P0N ans)).

  Lemma nv_read_tracked ans max : tlaw vstuck (nv_read H cfg fuel max) (JC ans).
  Proof.
    unfold nv_read. apply vcr_read_tracked; [apply P0N_ret|].
    intros s c e s' Hp Hr. eapply nread_told; eassumption.
  Qed.
  Lemma nv_close_J ans st : JC ans st -> JC ans (nv_close st).
  Proof.
    intros (A & B). unfold nv_close, Jvc. cbn [v_set_u v_u v_err]. split.
    - intros E. apply nclose_P0. auto.
    - intros x. rewrite nclose_ret. apply B.
  Qed.
  Lemma nv_close_stuck e (st : nv) : vstuck e st -> vstuck e (nv_close st).
  Proof. unfold vstuck, nv_close. cbn. auto. Qed.

  (** the final step: a stuck validator state whose record says the root returned [x] *)
  Lemma final_chunk ans (st : nv) e :
    JC ans st -> vstuck e st ->
    match nobs (v_u st) with
    | ONode offs _ _ => forall x, returnedN ans (length offs) = Some x -> e = ECode x
    | OLeaf _ => True
    end.
  Proof.
    intros (_ & B) (V & _). pose proof (nobs_ret ans (v_u st)) as Hn.
    destruct (nobs (v_u st)) as [|offs dn kids]; [exact I|]. intros x Hx. rewrite Hn in Hx.
    rewrite <- V. apply B. exact Hx.
  Qed.

  Theorem run_tree_clause2 inner ans m :
    z_err (run_tree H cfg fuel (NW inner ans) m) <> EFuel ->
    match z_tree (run_tree H cfg fuel (NW inner ans) m) with
    | ONode offs _ _ =>
        forall x, returnedN ans (length offs) = Some x ->
          z_err (run_tree H cfg fuel (NW inner ans) m) = ECode x \/
          (is_to_reader m = true /\ z_err (run_tree H cfg fuel (NW inner ans) m) = ECode (g_code cfg))
    | OLeaf _ => True
    end.
  Proof.
    remember (NW inner ans) as t eqn:Et.
    assert (Hinit : JC ans (vinit cfg (nopen fuel t 0))).
    { subst t. split; cbn; [intros _; constructor|intros x Hx; discriminate]. }
    assert (Hdisc : match discard_tree H cfg fuel t with
                    | ONode offs _ _ => forall x, returnedN ans (length offs) = Some x -> False
                    | OLeaf _ => True end).
    { subst t. cbn. intros x Hx. discriminate. }
    destruct m; rewrite Et; cbn [run_tree is_to_reader]; rewrite <- Et.
    - (* ToByteSlice *)
      destruct (whole H cfg fuel (MToByteSlice max) t) as [[[d e] cbs] o] eqn:Hw. cbn [z_err z_tree]. intros _.
      subst t. pose proof (whole_ret _ _ _ _ _ _ _ Hw) as Hr. destruct o; [exact I|]. intros x Hx. left. auto.
    - (* IntoWriter *)
      unfold into_writer_cr.
      destruct (drain (nv_read H cfg fuel 65536) fuel [] (vinit cfg (nopen fuel t 0))) as [[out e] st] eqn:Hd.
      cbn [z_err z_tree]. intros Hnf.
      destruct (drain_tracked _ _ _ (nv_read_tracked ans 65536) _ _ _ _ _ _ Hinit Hd) as (A & [->|B]);
        [exfalso; apply Hnf; reflexivity|].
      pose proof (final_chunk ans _ e (nv_close_J _ _ A) (nv_close_stuck _ _ B)) as Hf.
      destruct (nobs (v_u (nv_close st))); [exact I|]. intros x Hx. left. rewrite (Hf x Hx). reflexivity.
    - (* ReadAt *)
      destruct (whole H cfg fuel (MReadAt plen off) t) as [[[d e] cbs] o] eqn:Hw. cbn [z_err z_tree]. intros _.
      subst t. pose proof (whole_ret _ _ _ _ _ _ _ Hw) as Hr. destruct o; [exact I|]. intros x Hx. left. auto.
    - (* ToChunkReader *)
      destruct (valid_offset (g_size cfg) off) eqn:Hv.
      2:{ cbn [z_err z_tree]. intros _. destruct (discard_tree H cfg fuel t); [exact I|].
          intros x Hx. exfalso. eapply Hdisc; eauto. }
      assert (Hoff : (0 <= off)%Z).
      { unfold valid_offset in Hv. apply andb_true_iff in Hv. destruct Hv as (Hv & _). apply Z.leb_le. exact Hv. }
      pose proof (nv_read_tracked ans max) as T.
      pose proof (offset_init_tracked vstuck _ nv_close _ T (nv_close_J ans) nv_close_stuck fuel off _ Hoff Hinit) as J0.
      set (o0 := offset_init (nv_read H cfg fuel max) nv_close fuel off (vinit cfg (nopen fuel t 0))) in *.
      assert (TO : tlaw (stuck_o vstuck) (offset_read (nv_read H cfg fuel max)) (J_o vstuck (JC ans))).
      { intros o c e o' Hj Hr. eapply offset_read_tracked; eauto. }
      destruct (drain (offset_read (nv_read H cfg fuel max)) fuel [] o0) as [[out e] o1] eqn:Hd.
      destruct (extra_reads (offset_read (nv_read H cfg fuel max)) extra o1) as [ex o2] eqn:He.
      cbn [z_err z_tree]. intros Hnf.
      destruct (drain_tracked _ _ _ TO _ _ _ _ _ _ J0 Hd) as (A & [->|B]); [exfalso; apply Hnf; reflexivity|].
      pose proof (extra_reads_stuck _ _ _ TO _ _ _ _ _ A B He) as ->.
      destruct (offset_close_tracked vstuck nv_close (JC ans) (nv_close_J ans) nv_close_stuck _ _ A B Hnf) as (A2 & B2).
      destruct (nobs (v_u (o_u (offset_close nv_close o1)))) as [|offs dn kids] eqn:En; [exact I|].
      intros x Hx. left. pose proof (final_chunk ans _ e A2 B2) as Hf.
      match type of Hf with match ?X with _ => _ end => assert (EX : X = ONode offs dn kids) by exact En; rewrite EX in Hf end.
      apply Hf. exact Hx.
    - (* ToReader *)
      assert (TR : rtlaw vstuck (nrv_read H cfg fuel) (Jvr cfg (retR ans) (P0R ans))).
      { unfold nrv_read. apply vr_read_tracked; [apply P0R_ret|].
        intros cap s c e s' Hp Hr. eapply nrread_told; eassumption. }
      assert (HinitR : Jvr cfg (retR ans) (P0R ans) (vinit cfg (nropen fuel t 0))).
      { subst t. split; cbn; [intros _; constructor|intros x Hx; discriminate]. }
      destruct (rconsume (nrv_read H cfg fuel) fuel caps (last_cap caps) [] (vinit cfg (nropen fuel t 0)))
        as [[out e] st] eqn:Hrc.
      destruct (rextra (nrv_read H cfg fuel) extra (last_cap caps) st) as [ex st2] eqn:He.
      cbn [z_err z_tree]. intros Hnf.
      destruct (rconsume_tracked _ _ _ TR _ _ _ _ _ _ _ _ HinitR Hrc) as (A & [->|B]);
        [exfalso; apply Hnf; reflexivity|].
      pose proof (rextra_stuck _ _ _ TR _ _ _ _ _ _ A B He) as ->.
      cbn [v_set_u v_u].
      pose proof (nrobs_ret ans (nrclose (v_u st))) as Hn. rewrite nrclose_ret in Hn.
      destruct (nrobs (nrclose (v_u st))) as [|offs dn kids]; [exact I|]. intros x Hx. rewrite Hn in Hx.
      destruct A as (_ & A). destruct B as (V & _). destruct (A x Hx) as [E|E]; rewrite V in E; auto.
    - (* CloneCopy *)
      destruct (whole H cfg fuel (MToByteSlice max) t) as [[[d e] cbs] o] eqn:Hw. cbn [z_err z_tree]. intros _.
      subst t. pose proof (whole_ret _ _ _ _ _ _ _ Hw) as Hr. destruct o; [exact I|]. intros x Hx. left. auto.
    - (* Discard *)
      cbn [z_err z_tree]. intros _. destruct (discard_tree H cfg fuel t); [exact I|].
      intros x Hx. exfalso. eapply Hdisc; eauto.
  Qed.
End Methods.
