(** C09 (completion) — casValidatingReader over ANY underlying io.Reader with
    content function [cont]: where a failure comes from ([rorigin]), hence
    which error it is ([expected_err]); the Go io helpers around the
    validated reader report the validator's own sticky error. *)
From Coq Require Import List ZArith NArith Bool Lia.
From BBS Require Import Buffer.Source Buffer.Validate Buffer.Convert Buffer.StreamProofs Buffer.ValidateProofs
  Buffer.ValidateReaderProofs Buffer.C09FullValidate.
Import ListNotations.
Open Scope N_scope.

Section VrOrigin.
  Variable H : bytes -> bytes.
  Variable cfg : vcfg.
  Variable S : Type.
  Variable rd : N -> S -> (bytes * err) * S.
  Variable fuel : nat.
  Variable cont : S -> bytes * err.
  Hypothesis rd_spec : forall cap s c e s', rd cap s = ((c, e), s') ->
    match e with
    | ENone => cont s = (c ++ fst (cont s'), snd (cont s'))
    | _ => cont s = (c, e)
    end.
  Hypothesis rd_no_unexp : forall cap s c e s', rd cap s = ((c, e), s') -> e <> EUnexp.

  Notation vrd := (vr_read H cfg rd fuel).
  Notation RInv := (RInv H cfg S cont).

  Definition rorigin (s0 : S) (e : err) : Prop :=
    e = EFuel \/
    (e = ECode (g_code cfg) /\ ~ valid_reader H cfg cont s0 /\
     (g_size cfg < lenN (fst (cont s0)) \/ snd (cont s0) = EEof)) \/
    (e = snd (cont s0) /\ e <> EEof /\ lenN (fst (cont s0)) <= g_size cfg).

  Lemma rorigin_expected s0 e :
    rorigin s0 e -> e <> EFuel -> e = expected_err cfg (fst (cont s0)) (snd (cont s0)).
  Proof.
    unfold expected_err. intros [->|[(-> & _ & [Hl|Ht])|(-> & Hne & Hl)]] Hnf; [congruence| | |].
    - replace (g_size cfg <? lenN (fst (cont s0))) with true by (symmetry; apply N.ltb_lt; exact Hl). reflexivity.
    - rewrite Ht. destruct (g_size cfg <? lenN (fst (cont s0))); reflexivity.
    - replace (g_size cfg <? lenN (fst (cont s0))) with false by (symmetry; apply N.ltb_ge; exact Hl).
      destruct (snd (cont s0)); congruence.
  Qed.

  (** io.ReadFull(r, p[:1]): also what an error says about the content *)
  Lemma read_full_one2 f : forall s fin fe s',
    read_full_loop rd f 1 [] s = ((fin, fe), s') ->
    (exists rest, fst (cont s) = fin ++ rest) /\
    match fe with
    | ENone => fin <> []
    | EEof => fin = [] /\ cont s = ([], EEof)
    | EUnexp => False
    | ECode x => fin = [] /\ cont s = ([], ECode x)
    | EFuel => True
    end.
  Proof.
    induction f as [|f IH]; intros s fin fe s' Hr; cbn [read_full_loop] in Hr;
      change (1 <=? lenN []) with false in Hr; cbn iota in Hr.
    - inv Hr. split; [eexists; cbn [app]; reflexivity|exact I].
    - change (1 - lenN []) with 1 in Hr.
      destruct (rd 1 s) as [[c e] s1] eqn:Hrd. pose proof (rd_spec _ _ _ _ _ Hrd) as Hs.
      pose proof (rd_no_unexp _ _ _ _ _ Hrd) as Hnu. cbn [app] in Hr.
      destruct c as [|x c].
      + change (1 <=? lenN []) with false in Hr. cbn [is_nil] in Hr.
        destruct e; try congruence.
        * destruct (IH _ _ _ _ Hr) as ((rest & Hrest) & Hm). split.
          -- exists rest. rewrite Hs. cbn. exact Hrest.
          -- destruct fe; auto.
             ++ destruct Hm as (-> & Hc). split; [reflexivity|]. rewrite Hs, Hc. reflexivity.
             ++ destruct Hm as (-> & Hc). split; [reflexivity|]. rewrite Hs, Hc. reflexivity.
        * inv Hr. split; [exists []; rewrite Hs; reflexivity|auto].
        * inv Hr. split; [exists []; rewrite Hs; reflexivity|auto].
        * inv Hr. split; [exists []; rewrite Hs; reflexivity|exact I].
      + assert (Hle : (1 <=? lenN (x :: c)) = true) by (apply N.leb_le; rewrite lenN_cons; lia).
        assert (Hpre : exists rest, fst (cont s) = (x :: c) ++ rest).
        { destruct e; rewrite Hs; cbn [fst]; try (exists []; now rewrite app_nil_r). eexists; reflexivity. }
        destruct e.
        * destruct f; cbn [read_full_loop] in Hr; rewrite Hle in Hr; inv Hr; (split; [exact Hpre|discriminate]).
        * rewrite Hle in Hr. inv Hr. split; [exact Hpre|discriminate].
        * congruence.
        * rewrite Hle in Hr. inv Hr. split; [exact Hpre|discriminate].
        * rewrite Hle in Hr. inv Hr. split; [exact Hpre|discriminate].
  Qed.

  (** the error of a read is what the state remembers *)
  Lemma vr_read_err cap st d e st' : vrd cap st = ((d, e), st') -> v_err st' = e.
  Proof.
    unfold vr_read. destruct (v_err st) eqn:Herr; try (intros Hr; inv Hr; assumption).
    destruct (vr_do_read H cfg rd fuel cap st) as [[d1 e1] st1]. intros Hr. inv Hr. reflexivity.
  Qed.

  Lemma vr_origin_step s0 st out cap d e st' :
    RInv s0 st out -> v_err st = ENone -> vrd cap st = ((d, e), st') ->
    e <> ENone -> e <> EEof -> rorigin s0 e.
  Proof.
    intros [Hc Hi] Herr Hr Hn1 Hn2. unfold vr_read in Hr. rewrite Herr in Hr, Hi.
    destruct (vr_do_read H cfg rd fuel cap st) as [[d1 e1] st1] eqn:Hdo.
    assert (Hde : d1 = d /\ e1 = e) by (inv Hr; auto). destruct Hde as [-> ->].
    clear Hr st'. rename Hdo into Hr. rename st1 into st'.
    destruct Hi as (Hfst & Hsnd & <- & Hl & Hpos).
    unfold vr_do_read in Hr.
    destruct (rd cap (v_u st)) as [[d0 re] u'] eqn:Hrd. pose proof (rd_spec _ _ _ _ _ Hrd) as Hs.
    pose proof (rd_no_unexp _ _ _ _ _ Hrd) as Hnu.
    cbn [v_set_u v_rem v_u v_acc v_err v_cbs] in Hr.
    assert (Hpre : exists rest, fst (cont s0) = (v_acc st ++ d0) ++ rest).
    { destruct re; rewrite Hfst, Hs; cbn [fst]; try (exists []; now rewrite app_nil_r).
      exists (fst (cont u')). now rewrite app_assoc. }
    destruct Hpre as (rest0 & Hpre).
    assert (Hhash : forall x, fst (cont s0) = x -> bytes_eqb (g_hash cfg) (H x) = false ->
               ~ valid_reader H cfg cont s0).
    { intros x Hx Hb (_ & _ & Hh). rewrite Hx in Hh. rewrite <- Hh in Hb.
      rewrite (proj2 (bytes_eqb_eq _ _) eq_refl) in Hb. discriminate. }
    destruct (v_rem st <? lenN d0) eqn:Hbig.
    { apply N.ltb_lt in Hbig. cbn in Hr. inv Hr. right. left. split; [reflexivity|]. split.
      - eapply too_long_invalid_r; [exact Hpre|]. rewrite lenN_app. lia.
      - left. rewrite Hpre, !lenN_app. lia. }
    apply N.ltb_ge in Hbig.
    destruct re; try congruence; cbn [v_set_u v_rem v_u v_acc v_err v_cbs] in Hr.
    - (* more may follow *)
      destruct (v_rem st - lenN d0 =? 0) eqn:Hz.
      + apply N.eqb_eq in Hz.
        destruct (read_full rd fuel 1 u') as [[fin fe] u''] eqn:Hrf. unfold read_full in Hrf.
        destruct (read_full_one2 _ _ _ _ _ Hrf) as ((rest & Hrest) & Hm).
        cbn [v_set_u v_rem v_u v_acc v_err v_cbs] in Hr. rewrite Hz in Hr.
        assert (Hcont_fst : fst (cont s0) = v_acc st ++ d0 ++ fin ++ rest).
        { rewrite Hfst, Hs. cbn [fst]. rewrite Hrest. reflexivity. }
        assert (Hcont_snd : snd (cont s0) = snd (cont u')).
        { rewrite Hsnd, Hs. reflexivity. }
        assert (Hfinish :
          (if 0 <? lenN fin then let '(e', st'0) := v_fail cfg (mkVst u'' 0 (v_acc st ++ d0) (v_err st) (v_cbs st)) in (([], e'), st'0)
           else let '(e', st'0) := vr_compare H cfg (mkVst u'' 0 (v_acc st ++ d0) (v_err st) (v_cbs st)) in
                match e' with ENone => ((d0, EEof), v_notify st'0 true) | _ => (([], e'), st'0) end)
          = ((d, e), st') -> (fin = [] -> cont u' = ([], EEof)) -> rorigin s0 e).
        { intros Hx Hfin. destruct (0 <? lenN fin) eqn:Hf.
          - apply N.ltb_lt in Hf. cbn in Hx. inv Hx. right. left. split; [reflexivity|]. split.
            + apply (too_long_invalid_r H cfg S cont s0 (v_acc st ++ d0 ++ fin) rest).
              * rewrite Hcont_fst, <- !app_assoc. reflexivity.
              * rewrite !lenN_app. lia.
            + left. rewrite Hcont_fst, !lenN_app. lia.
          - apply N.ltb_ge in Hf. assert (fin = []) by (apply lenN_zero; lia). subst fin.
            pose proof (Hfin eq_refl) as Hc0.
            unfold vr_compare in Hx. cbn [v_acc] in Hx.
            destruct (bytes_eqb (g_hash cfg) (H (v_acc st ++ d0))) eqn:Hb; [inv Hx; congruence|].
            cbn in Hx. inv Hx. right. left. split; [reflexivity|]. split.
            + apply (Hhash (v_acc st ++ d0)); [|exact Hb]. rewrite Hfst, Hs. cbn [fst]. rewrite Hc0. cbn [fst].
              now rewrite app_nil_r.
            + right. rewrite Hcont_snd, Hc0. reflexivity. }
        destruct fe; try contradiction.
        * apply Hfinish; [exact Hr|]. intros ->. congruence.
        * apply Hfinish; [exact Hr|]. intros _. destruct Hm as (_ & Hc0). exact Hc0.
        * inv Hr. destruct Hm as (-> & Hc0). right. right. rewrite Hcont_snd, Hc0. cbn [snd].
          rsplit; [reflexivity|congruence|]. rewrite Hcont_fst. cbn [app] in Hrest.
          rewrite Hc0 in Hrest. cbn [fst] in Hrest. subst rest. rewrite !app_nil_r, lenN_app. lia.
        * inv Hr. left. reflexivity.
      + inv Hr. congruence.
    - (* EOF together with the data *)
      assert (Ht : snd (cont s0) = EEof) by (rewrite Hsnd, Hs; reflexivity).
      assert (Hf0 : fst (cont s0) = v_acc st ++ d0) by (rewrite Hfst, Hs; reflexivity).
      destruct (negb (v_rem st - lenN d0 =? 0)) eqn:Hz.
      + cbn in Hr. inv Hr. right. left. rsplit; auto.
        apply negb_true_iff, N.eqb_neq in Hz.
        intros (_ & Hlen & _). rewrite Hf0, lenN_app in Hlen. lia.
      + unfold vr_compare in Hr. cbn [v_acc] in Hr.
        destruct (bytes_eqb (g_hash cfg) (H (v_acc st ++ d0))) eqn:Hb; [inv Hr; congruence|].
        cbn in Hr. inv Hr. right. left. rsplit; auto. exact (Hhash _ Hf0 Hb).
    - inv Hr. right. right. rewrite Hsnd, Hs. cbn [snd]. rsplit; [reflexivity|congruence|].
      rewrite Hfst, Hs. cbn [fst]. rewrite lenN_app. lia.
    - inv Hr. left. reflexivity.
  Qed.

  (** RInv2 plus the origin of the sticky error *)
  Definition RInv3 (s0 : S) (st : vst S) (out : bytes) : Prop :=
    RInv2 H cfg S cont s0 st out /\
    match v_err st with ENone | EEof => True | e => rorigin s0 e end.

  Lemma RInv3_init u0 : RInv3 u0 (vinit cfg u0) [].
  Proof. split; [apply RInv2_init|exact I]. Qed.

  Hypothesis rd_cap : forall cap s c e s', rd cap s = ((c, e), s') -> lenN c <= cap.

  Lemma vr_step3 s0 st out cap d e st' :
    RInv3 s0 st out -> vrd cap st = ((d, e), st') -> RInv3 s0 st' (out ++ d).
  Proof.
    intros [Hi Ho] Hr.
    destruct (vr_step2 H cfg S rd fuel cont rd_spec rd_no_unexp rd_cap _ _ _ _ _ _ _ Hi Hr) as (Hi' & He & _).
    split; [exact Hi'|]. rewrite He.
    destruct (v_err st) eqn:Herr.
    - destruct e; auto; eapply vr_origin_step; try eassumption; try congruence; apply Hi.
    - unfold vr_read in Hr. rewrite Herr in Hr. inv Hr. exact I.
    - unfold vr_read in Hr. rewrite Herr in Hr. inv Hr. exact Ho.
    - unfold vr_read in Hr. rewrite Herr in Hr. inv Hr. exact Ho.
    - unfold vr_read in Hr. rewrite Herr in Hr. inv Hr. exact Ho.
  Qed.

  Definition RInvE (s0 : S) (st : vst S) : Prop := exists out, RInv3 s0 st out.
  Lemma RInvE_step s0 cap st r st' : RInvE s0 st -> vrd cap st = (r, st') -> RInvE s0 st'.
  Proof. intros (out & Hi) Hr. destruct r as [d e]. exists (out ++ d). eapply vr_step3; eassumption. Qed.

  (** an invariant state of an invalid stream *)
  Lemma RInv3_invalid s0 st out :
    RInv3 s0 st out -> ~ valid_reader H cfg cont s0 ->
    (lenN out < g_size cfg \/ out = []) /\ v_err st <> EEof /\
    (v_err st <> ENone -> v_err st <> EFuel ->
       v_err st = expected_err cfg (fst (cont s0)) (snd (cont s0))).
  Proof.
    intros [[[_ Hi] _] Ho] Hnv. destruct (v_err st).
    - destruct Hi as (_ & _ & _ & Hl & [Hpos|Hn]); (split; [|split; congruence]); [left; lia|right; assumption].
    - exfalso. apply Hnv. destruct Hi as (Hc & Hl & Hh). unfold valid_reader. rewrite Hc. auto.
    - rsplit; auto; [congruence|]. intros _ Hnf. apply rorigin_expected; assumption.
    - rsplit; auto; [congruence|]. intros _ Hnf. apply rorigin_expected; assumption.
    - rsplit; auto; congruence.
  Qed.

  (** an invariant state of a valid stream has not failed (unless out of fuel) *)
  Lemma RInv3_valid s0 st out :
    RInv3 s0 st out -> valid_reader H cfg cont s0 ->
    v_err st = ENone \/ v_err st = EEof \/ v_err st = EFuel.
  Proof.
    intros [_ Ho] Hv. destruct (v_err st) eqn:He; auto; exfalso.
    - destruct Ho as [Ho|[(_ & Hnv & _)|(Ht & Hne & _)]]; [discriminate|exact (Hnv Hv)|].
      destruct Hv as (Hv & _). congruence.
    - destruct Ho as [Ho|[(_ & Hnv & _)|(Ht & Hne & _)]]; [discriminate|exact (Hnv Hv)|].
      destruct Hv as (Hv & _). congruence.
  Qed.

  (** ** the Go io helpers report the validator's sticky error *)
  Lemma read_full_err : forall f want got st res e st',
    read_full_loop vrd f want got st = ((res, e), st') -> e <> ENone -> e <> EFuel ->
    (e = EUnexp /\ v_err st' = EEof) \/ v_err st' = e.
  Proof.
    induction f as [|f IH]; intros want got st res e st' Hr Hn Hf; cbn [read_full_loop] in Hr;
      destruct (want <=? lenN got); try (inv Hr; congruence).
    destruct (vrd (want - lenN got) st) as [[c e0] s1] eqn:Hv. pose proof (vr_read_err _ _ _ _ _ Hv) as He.
    destruct e0; try (destruct (want <=? lenN (got ++ c)); [inv Hr; congruence|]).
    - eapply IH; eassumption.
    - destruct (is_nil (got ++ c)); inv Hr; auto.
    - inv Hr. auto.
    - inv Hr. auto.
    - inv Hr. auto.
  Qed.

  Lemma copy_n_err : forall f left st e st',
    copy_n_loop vrd f left st = (e, st') -> e <> ENone -> e <> EFuel -> v_err st' = e.
  Proof.
    induction f as [|f IH]; intros left st e st' Hr Hn Hf; cbn [copy_n_loop] in Hr;
      destruct (left =? 0); try (inv Hr; congruence).
    destruct (vrd (N.min discard_buf left) st) as [[c e0] s1] eqn:Hv. pose proof (vr_read_err _ _ _ _ _ Hv) as He.
    destruct e0; try (destruct (left - lenN c =? 0); inv Hr; congruence).
    eapply IH; eassumption.
  Qed.

  Lemma copy_err : forall f cap w st w' e st',
    copy_loop vrd f cap w st = ((w', e), st') -> e <> ENone -> e <> EFuel -> v_err st' = e.
  Proof.
    induction f as [|f IH]; intros cap w st w' e st' Hr Hn Hf; cbn [copy_loop] in Hr; [inv Hr; congruence|].
    destruct (vrd cap st) as [[c e0] s1] eqn:Hv. pose proof (vr_read_err _ _ _ _ _ Hv) as He.
    destruct e0; try (inv Hr; congruence). eapply IH; eassumption.
  Qed.

  Lemma rconsume_err : forall f caps lc out st out' e st',
    rconsume vrd f caps lc out st = ((out', e), st') -> e <> EFuel -> v_err st' = e.
  Proof.
    induction f as [|f IH]; intros caps lc out st out' e st' Hr Hf; cbn [rconsume] in Hr; [inv Hr; congruence|].
    destruct (vrd (hd lc caps) st) as [[c e0] s1] eqn:Hv. pose proof (vr_read_err _ _ _ _ _ Hv) as He.
    destruct e0; try (inv Hr; congruence). eapply IH; eassumption.
  Qed.
End VrOrigin.
