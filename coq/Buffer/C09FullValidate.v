(** C09 (completion) — the validating chunk reader over ANY underlying chunk
    reader with a sharper account of where a failure comes from than
    [ValidateProofs.origin]: the Source's code is produced only when the
    stream is too long or has ended with io.EOF, and an I/O error of the
    stream is passed through only when at most [size] bytes preceded it.
    Together with the stream's complete reading this DETERMINES the error
    ([expected_err]): size is checked before the hash, an earlier I/O error
    wins over a later mismatch. *)
From Coq Require Import List ZArith NArith Bool Lia.
From BBS Require Import Buffer.Source Buffer.Validate Buffer.StreamProofs Buffer.ValidateProofs.
Import ListNotations.
Open Scope N_scope.

(** The error a consumer must see for a stream whose complete reading is
    [c] followed by [t] (io.EOF = [EEof]), when it is not valid:
    too long => the Source's code (whatever follows); otherwise an I/O error
    is passed through; a clean end (short content or wrong hash) => the
    Source's code. *)
Definition expected_err (cfg : vcfg) (c : bytes) (t : err) : err :=
  if g_size cfg <? lenN c then ECode (g_code cfg)
  else match t with EEof => ECode (g_code cfg) | _ => t end.

Lemma expected_err_too_long cfg c t : g_size cfg < lenN c -> expected_err cfg c t = ECode (g_code cfg).
Proof. intros Hl. unfold expected_err. apply N.ltb_lt in Hl. now rewrite Hl. Qed.
Lemma expected_err_io_first cfg c x : lenN c <= g_size cfg -> expected_err cfg c (ECode x) = ECode x.
Proof. intros Hl. unfold expected_err. apply N.ltb_ge in Hl. now rewrite Hl. Qed.
Lemma expected_err_clean_end cfg c : expected_err cfg c EEof = ECode (g_code cfg).
Proof. unfold expected_err. destruct (g_size cfg <? lenN c); reflexivity. Qed.

Section Vcr2.
  Variable H : bytes -> bytes.
  Variable cfg : vcfg.
  Variable S : Type.
  Variable rd : S -> (bytes * err) * S.
  Variable fuel : nat.

  Notation vrd := (vcr_read H cfg rd fuel).
  Notation valid_stream := (valid_stream H cfg rd).
  Notation cb_ok := (cb_ok H cfg rd).

  Definition too_long (s0 : S) : Prop := exists bs u, pulls rd s0 bs u /\ g_size cfg < lenN bs.
  Definition ends_eof (s0 : S) : Prop := exists bs u, drains rd s0 bs EEof u.

  Definition origin2 (s0 : S) (e : err) : Prop :=
    e = EFuel \/
    (e = ECode (g_code cfg) /\ ~ valid_stream s0 /\ (too_long s0 \/ ends_eof s0)) \/
    (e <> EEof /\ exists bs u', drains rd s0 bs e u' /\ lenN bs <= g_size cfg).

  Lemma origin2_origin s0 e : origin2 s0 e -> origin H cfg rd s0 e.
  Proof.
    intros [->|[(-> & Hnv & _)|(Hne & bs & u' & Hd & _)]]; [left; reflexivity|right; left; auto|].
    right. right. split; [assumption|eauto].
  Qed.

  (** the failure is determined by the stream's complete reading *)
  Lemma origin2_expected s0 e c t uend :
    origin2 s0 e -> e <> EFuel -> drains rd s0 c t uend -> e = expected_err cfg c t.
  Proof.
    intros Ho Hnf Hfull. unfold expected_err.
    destruct Ho as [->|[(-> & Hnv & [(bs & u & Hp & Hl)|(bs & u & Hd)])|(Hne & bs & u' & Hd & Hl)]]; [congruence| | |].
    - destruct (pulls_prefix_drains _ _ _ _ _ _ _ _ Hp Hfull) as (rest & -> & _).
      replace (g_size cfg <? lenN (bs ++ rest)) with true; [reflexivity|].
      symmetry. apply N.ltb_lt. rewrite lenN_app. lia.
    - destruct (drains_det _ _ _ _ _ _ _ _ _ Hd Hfull) as (<- & <- & _).
      destruct (g_size cfg <? lenN bs); reflexivity.
    - destruct (drains_det _ _ _ _ _ _ _ _ _ Hd Hfull) as (<- & <- & _).
      replace (g_size cfg <? lenN bs) with false by (symmetry; apply N.ltb_ge; lia).
      pose proof (drains_not_none _ _ _ _ _ _ Hd). destruct e; congruence.
  Qed.

  Lemma finalize_loop_spec2 s0 : forall f st e st',
    finalize_loop H cfg rd f st = (e, st') ->
    pulls rd s0 (v_acc st) (v_u st) -> lenN (v_acc st) = g_size cfg -> v_rem st = 0 ->
    cb_ok s0 (v_cbs st) ->
    e <> ENone /\ v_acc st' = v_acc st /\ v_rem st' = v_rem st /\ v_err st' = v_err st /\
    cb_ok s0 (v_cbs st') /\
    (e = EEof -> drains rd s0 (v_acc st) EEof (v_u st') /\ g_hash cfg = H (v_acc st)) /\
    (e <> EEof -> origin2 s0 e).
  Proof.
    induction f as [|f IH]; intros st e st' Hf Hp Hl Hr Hc; cbn [finalize_loop] in Hf.
    - inv Hf. rsplit; auto; try congruence. intros _. left. reflexivity.
    - destruct (rd (v_u st)) as [[chunk e0] u'] eqn:Hrd.
      assert (Hpass : e0 <> ENone -> e0 <> EEof -> origin2 s0 e0).
      { intros Hn1 Hn2. right. right. split; [assumption|]. exists (v_acc st ++ []), u'. split.
        - eapply pulls_drains; [eassumption|]. eapply drains_end; eassumption.
        - rewrite app_nil_r. lia. }
      destruct e0.
      + (* another chunk *)
        cbn [v_set_u v_rem] in Hf. rewrite Hr in Hf.
        destruct (0 <? lenN chunk) eqn:Hlt.
        * apply N.ltb_lt in Hlt. unfold v_fail in Hf. inv Hf. cbn.
          assert (Hlong : too_long s0).
          { exists (v_acc st ++ chunk), u'. split; [eapply pulls_snoc; eassumption|]. rewrite lenN_app. lia. }
          assert (Hnv : ~ valid_stream s0).
          { eapply too_long_invalid; [eapply pulls_snoc; eassumption|]. rewrite lenN_app. lia. }
          rsplit; auto; try congruence.
          -- apply cb_ok_false; assumption.
          -- intros _. right. left. auto.
        * apply N.ltb_ge in Hlt. assert (chunk = []) by (apply lenN_zero; lia). subst chunk.
          apply IH in Hf; cbn; auto.
          rewrite <- (app_nil_r (v_acc st)). eapply pulls_snoc; eassumption.
      + (* EOF: compare checksums *)
        assert (Hd : drains rd s0 (v_acc st) EEof u').
        { rewrite <- (app_nil_r (v_acc st)). eapply pulls_drains; [eassumption|].
          eapply drains_end; [eassumption|congruence]. }
        cbn [v_set_u v_acc] in Hf.
        destruct (bytes_eqb (g_hash cfg) (H (v_acc st))) eqn:Hh.
        * apply bytes_eqb_eq in Hh. inv Hf. cbn. rsplit; auto; try congruence.
          apply cb_ok_true; [assumption|]. exists (v_acc st), u'. auto.
        * unfold v_fail in Hf. inv Hf. cbn.
          assert (Hnv : ~ valid_stream s0).
          { intros (full & s' & Hd' & _ & Hh').
            destruct (drains_det _ _ _ _ _ _ _ _ _ Hd Hd') as (<- & _).
            apply bytes_eqb_eq in Hh'. congruence. }
          rsplit; auto; try congruence.
          -- apply cb_ok_false; assumption.
          -- intros _. right. left. rsplit; auto. right. exists (v_acc st), u'. exact Hd.
      + inv Hf. cbn. rsplit; auto; try congruence. intros _. apply Hpass; congruence.
      + inv Hf. cbn. rsplit; auto; try congruence. intros _. apply Hpass; congruence.
      + inv Hf. cbn. rsplit; auto; try congruence. intros _. left. reflexivity.
  Qed.

  Definition Inv2 (s0 : S) (st : vst S) (out : bytes) : Prop :=
    cb_ok s0 (v_cbs st) /\
    match v_err st with
    | ENone => pulls rd s0 out (v_u st) /\ v_acc st = out /\
               v_rem st + lenN out = g_size cfg /\ (0 < v_rem st \/ out = [])
    | EEof => (exists u, drains rd s0 out EEof u) /\ lenN out = g_size cfg /\ g_hash cfg = H out
    | e => (lenN out < g_size cfg \/ out = []) /\ origin2 s0 e
    end.

  Lemma Inv2_Inv s0 st out : Inv2 s0 st out -> Inv H cfg S rd s0 st out.
  Proof.
    intros [Hc Hi]. split; [exact Hc|]. destruct (v_err st); auto;
      destruct Hi as [Hb Ho]; split; auto using origin2_origin.
  Qed.

  Lemma Inv2_init u0 : Inv2 u0 (vinit cfg u0) [].
  Proof.
    split; [split; intros []|]. cbn. rsplit; auto; [apply pulls_nil|unfold lenN; cbn; lia].
  Qed.

  Lemma maybe_finalize_spec2 s0 st e st' :
    maybe_finalize H cfg rd fuel st = (e, st') ->
    pulls rd s0 (v_acc st) (v_u st) -> v_rem st + lenN (v_acc st) = g_size cfg ->
    cb_ok s0 (v_cbs st) ->
    v_acc st' = v_acc st /\ v_rem st' = v_rem st /\ v_err st' = v_err st /\ cb_ok s0 (v_cbs st') /\
    match e with
    | ENone => st' = st /\ 0 < v_rem st
    | EEof => v_rem st = 0 /\ drains rd s0 (v_acc st) EEof (v_u st') /\ g_hash cfg = H (v_acc st)
    | _ => v_rem st = 0 /\ origin2 s0 e
    end.
  Proof.
    unfold maybe_finalize. intros Hf Hp Hl Hc.
    destruct (0 <? v_rem st) eqn:Hlt.
    - inv Hf. apply N.ltb_lt in Hlt. rsplit; auto.
    - apply N.ltb_ge in Hlt. assert (Hr : v_rem st = 0) by lia.
      destruct (finalize_loop_spec2 s0 _ _ _ _ Hf Hp) as (Hne & Ha & Hr' & He & Hc' & Heof & Hor); auto; [lia|].
      rsplit; auto.
      destruct e; try congruence; try (split; [assumption|apply Hor; congruence]).
      destruct Heof; auto.
  Qed.

  Lemma vcr_read_step2 s0 st out c e st' :
    Inv2 s0 st out -> vrd st = ((c, e), st') ->
    match e with
    | ENone => Inv2 s0 st' (out ++ c)
    | _ => c = [] /\ v_err st' = e /\ Inv2 s0 st' out
    end.
  Proof.
    intros [Hc Hi] Hr. unfold vcr_read in Hr.
    destruct (v_err st) eqn:Herr;
      try (inv Hr; rsplit; auto; unfold Inv2; rewrite Herr; auto).
    destruct Hi as (Hp0 & <- & Hl0 & Hpos).
    unfold vcr_do_read in Hr.
    destruct (maybe_finalize H cfg rd fuel st) as [e0 st0] eqn:Hmf.
    destruct (maybe_finalize_spec2 s0 _ _ _ Hmf Hp0 Hl0 Hc) as (Ha0 & Hr0 & He0 & Hc0 & Hm).
    assert (Hbound : lenN (v_acc st) < g_size cfg \/ v_acc st = [])
      by (destruct Hpos; [left; lia|right; assumption]).
    destruct e0.
    - (* no finalization yet: read the next chunk *)
      destruct Hm as (-> & Hrem).
      destruct (rd (v_u st)) as [[chunk e1] u'] eqn:Hrd.
      assert (Hpass : e1 <> ENone -> e1 <> EEof -> origin2 s0 e1).
      { intros Hn1 Hn2. right. right. split; [assumption|]. exists (v_acc st ++ []), u'. split.
        - eapply pulls_drains; [eassumption|]. eapply drains_end; eassumption.
        - rewrite app_nil_r. lia. }
      destruct e1.
      + cbn [v_set_u v_rem v_u v_acc v_err v_cbs] in Hr.
        destruct (v_rem st <? lenN chunk) eqn:Hlt.
        * (* too big *)
          apply N.ltb_lt in Hlt. cbn in Hr. inv Hr. cbn.
          assert (Hlong : too_long s0).
          { exists (v_acc st ++ chunk), u'. split; [eapply pulls_snoc; eassumption|]. rewrite lenN_app. lia. }
          assert (Hnv : ~ valid_stream s0).
          { eapply too_long_invalid; [eapply pulls_snoc; eassumption|]. rewrite lenN_app. lia. }
          rsplit; auto. split; [apply cb_ok_false; assumption|]. cbn.
          split; [assumption|]. right. left. auto.
        * apply N.ltb_ge in Hlt.
          set (st1 := mkVst u' (v_rem st - lenN chunk) (v_acc st ++ chunk) (v_err st) (v_cbs st)) in *.
          destruct (maybe_finalize H cfg rd fuel st1) as [e2 st2] eqn:Hmf2.
          assert (Hp1 : pulls rd s0 (v_acc st1) (v_u st1)).
          { subst st1. cbn. eapply pulls_snoc; eassumption. }
          assert (Hl1 : v_rem st1 + lenN (v_acc st1) = g_size cfg).
          { subst st1. cbn. rewrite lenN_app. lia. }
          assert (Hc1 : cb_ok s0 (v_cbs st1)) by (subst st1; exact Hc).
          destruct (maybe_finalize_spec2 s0 _ _ _ Hmf2 Hp1 Hl1 Hc1) as (Ha2 & Hr2 & He2 & Hc2 & Hm2).
          assert (Eacc : v_acc st1 = v_acc st ++ chunk) by reflexivity.
          assert (Erem : v_rem st1 = v_rem st - lenN chunk) by reflexivity.
          assert (Eerr : v_err st1 = ENone) by exact Herr.
          clearbody st1.
          destruct e2; inv Hr.
          -- destruct Hm2 as (-> & Hpos2). split; [exact Hc1|].
             cbn [v_set_err v_err v_u v_acc v_rem].
             rewrite <- Eacc. rsplit; auto.
          -- destruct Hm2 as (Hz & Hd & Hh). split; [exact Hc2|]. cbn [v_set_err v_err].
             rewrite Eacc in *. split; [eauto|]. split; [|assumption]. rewrite lenN_app in *. lia.
          -- destruct Hm2 as (Hz & Hor). rsplit; auto. split; [exact Hc2|]. cbn [v_set_err v_err]. auto.
          -- destruct Hm2 as (Hz & Hor). rsplit; auto. split; [exact Hc2|]. cbn [v_set_err v_err]. auto.
          -- destruct Hm2 as (Hz & Hor). rsplit; auto. split; [exact Hc2|]. cbn [v_set_err v_err]. auto.
      + (* premature EOF *)
        cbn in Hr. inv Hr. cbn.
        assert (Hd : drains rd s0 (v_acc st) EEof u').
        { rewrite <- (app_nil_r (v_acc st)). eapply pulls_drains; [eassumption|].
          eapply drains_end; [eassumption|congruence]. }
        assert (Hnv : ~ valid_stream s0).
        { intros (full & s' & Hd' & Hs' & _).
          destruct (drains_det _ _ _ _ _ _ _ _ _ Hd Hd') as (<- & _). lia. }
        rsplit; auto. split; [apply cb_ok_false; assumption|]. cbn.
        split; [assumption|]. right. left. rsplit; auto. right. exists (v_acc st), u'. exact Hd.
      + inv Hr. cbn. rsplit; auto. split; [assumption|]. cbn. split; [assumption|]. apply Hpass; congruence.
      + inv Hr. cbn. rsplit; auto. split; [assumption|]. cbn. split; [assumption|]. apply Hpass; congruence.
      + inv Hr. cbn. rsplit; auto. split; [assumption|]. cbn. split; [assumption|].
        left. reflexivity.
    - (* finalized at once: an empty blob *)
      destruct Hm as (Hz & Hd & Hh). inv Hr. cbn. rsplit; auto.
      split; [assumption|]. cbn. split; [eauto|]. split; [lia|assumption].
    - destruct Hm as (Hz & Hor). inv Hr. cbn. rsplit; auto. split; [assumption|]. cbn. auto.
    - destruct Hm as (Hz & Hor). inv Hr. cbn. rsplit; auto. split; [assumption|]. cbn. auto.
    - destruct Hm as (Hz & Hor). inv Hr. cbn. rsplit; auto. split; [assumption|]. cbn. auto.
  Qed.

  Lemma vcr_pulls2 s0 st out bs st' :
    Inv2 s0 st out -> pulls vrd st bs st' -> Inv2 s0 st' (out ++ bs).
  Proof.
    intros Hi Hp. revert out Hi. induction Hp as [st|st c st1 bs st2 Hr _ IH]; intros out Hi.
    - now rewrite app_nil_r.
    - rewrite app_assoc. apply IH. exact (vcr_read_step2 _ _ _ _ _ _ Hi Hr).
  Qed.

  Lemma vcr_drains2 s0 st out bs e st' :
    Inv2 s0 st out -> drains vrd st bs e st' -> Inv2 s0 st' (out ++ bs) /\ v_err st' = e.
  Proof.
    intros Hi Hd. revert out Hi. induction Hd as [st c e st1 Hr Hne|st c st1 bs e st2 Hr _ IH]; intros out Hi.
    - pose proof (vcr_read_step2 _ _ _ _ _ _ Hi Hr) as Hs. rewrite app_nil_r.
      destruct e; try congruence; destruct Hs as (_ & He & Hi'); auto.
    - rewrite app_assoc. apply IH. exact (vcr_read_step2 _ _ _ _ _ _ Hi Hr).
  Qed.

  (** any read keeps the invariant (for some received prefix) *)
  Definition InvE (s0 : S) (st : vst S) : Prop := exists out, Inv2 s0 st out.
  Lemma InvE_step s0 st r st' : InvE s0 st -> vrd st = (r, st') -> InvE s0 st'.
  Proof.
    intros (out & Hi) Hr. destruct r as [c e]. pose proof (vcr_read_step2 _ _ _ _ _ _ Hi Hr) as Hs.
    destruct e; [exists (out ++ c); exact Hs|..]; exists out; apply Hs.
  Qed.

  (** what an invariant state says when the stream is invalid *)
  Lemma Inv2_invalid s0 st out :
    Inv2 s0 st out -> ~ valid_stream s0 ->
    (lenN out < g_size cfg \/ out = []) /\ v_err st <> EEof /\
    (v_err st <> ENone -> origin2 s0 (v_err st)).
  Proof.
    intros [_ Hi] Hnv. destruct (v_err st).
    - destruct Hi as (_ & _ & Hl & [Hpos|Hn]); (split; [|split; congruence]); [left; lia|right; assumption].
    - destruct Hi as ((u & Hd) & Hl & Hh). exfalso. apply Hnv. exists out, u. auto.
    - destruct Hi as [Hb Ho]. rsplit; auto. congruence.
    - destruct Hi as [Hb Ho]. rsplit; auto. congruence.
    - destruct Hi as [Hb Ho]. rsplit; auto. congruence.
  Qed.
End Vcr2.
