(** C09 — the reader decorators of pkg/blobstore/buffer (offset, normalizing,
    reader-backed chunk reader, chunk-reader-backed reader, byte-slice
    readers), the conversions of common_conversions.go, and the three CAS
    buffer constructors with their consumption methods.  Definitions only. *)
From Coq Require Import List ZArith NArith Bool.
From BBS Require Import Buffer.Source Buffer.Validate.
Import ListNotations.
Open Scope N_scope.

(** * Decorators over an arbitrary ChunkReader *)
Section OverChunkReader.
  Variable S : Type.
  Variable rd : S -> (bytes * err) * S.
  Variable cl : S -> S.

  (** newOffsetChunkReader.  [o_fixed <> ENone]: construction failed, the
      underlying reader was closed and an errorChunkReader is returned. *)
  Record ost := mkOst { o_u : S; o_prefix : bytes; o_fixed : err }.
  Definition offset_init (fuel : nat) (off : Z) (s : S) : ost :=
    if (off <? 0)%Z then mkOst (cl s) [] (ECode 3) else
    let '((prefix, e), s') := discard_from_chunk_reader rd fuel (Z.to_N off) s in
    match e with
    | ENone => mkOst s' prefix ENone
    | _ => mkOst (cl s') [] e
    end.
  Definition offset_read (o : ost) : (bytes * err) * ost :=
    match o_fixed o with
    | ENone =>
        if is_nil (o_prefix o) then
          let '(r, u') := rd (o_u o) in (r, mkOst u' [] ENone)
        else ((o_prefix o, ENone), mkOst (o_u o) [] ENone)
    | e => (([], e), o)
    end.
  Definition offset_close (o : ost) : ost :=
    match o_fixed o with
    | ENone => mkOst (cl (o_u o)) (o_prefix o) ENone
    | _ => o
    end.

  (** newNormalizingChunkReader *)
  Record nst := mkNst { n_u : S; n_last : bytes }.
  Fixpoint norm_read (fuel : nat) (max : N) (n : nst) : (bytes * err) * nst :=
    if negb (is_nil (n_last n)) then
      if max <? lenN (n_last n)
      then ((takeN max (n_last n), ENone), mkNst (n_u n) (dropN max (n_last n)))
      else ((n_last n, ENone), mkNst (n_u n) [])
    else
      match fuel with
      | O => (([], EFuel), n)
      | Datatypes.S f =>
          let '((c, e), u') := rd (n_u n) in
          match e with
          | ENone => norm_read f max (mkNst u' c)
          | _ => (([], e), mkNst u' [])
          end
      end.
  Definition norm_close (n : nst) : nst := mkNst (cl (n_u n)) (n_last n).

  (** newChunkReaderBackedReader *)
  Record cbst := mkCbst { cb_u : S; cb_last : bytes }.
  Fixpoint cb_loop (fuel : nat) (left : N) (got : bytes) (st : cbst) : (bytes * err) * cbst :=
    if left =? 0 then ((got, ENone), st) else
    match fuel with
    | O => ((got, EFuel), st)
    | Datatypes.S f =>
        let '((c, e), u') := rd (cb_u st) in
        match e with
        | ENone =>
            let part := takeN left c in
            cb_loop f (left - lenN part) (got ++ part) (mkCbst u' (dropN left c))
        | _ => ((got, e), mkCbst u' (cb_last st))
        end
    end.
  Definition cb_read (fuel : nat) (cap : N) (st : cbst) : (bytes * err) * cbst :=
    let first := takeN cap (cb_last st) in
    cb_loop fuel (cap - lenN first) first (mkCbst (cb_u st) (dropN cap (cb_last st))).
  Definition cb_close (st : cbst) : cbst := mkCbst (cl (cb_u st)) (cb_last st).

  (** intoWriterViaChunkReader (a writer that never fails); closes. *)
  Definition into_writer_cr (fuel : nat) (s : S) : (bytes * err) * S :=
    let '((out, e), s') := drain rd fuel [] s in
    ((out, match e with EEof => ENone | _ => e end), cl s').

  (** toByteSliceViaChunkReader; closes. *)
  Definition to_byte_slice_cr (fuel : nat) (size max : N) (s : S) : (bytes * err) * S :=
    if max <? size then (([], ECode 3), cl s) else
    let '((out, e), s') := drain rd fuel [] s in
    (match e with EEof => (out, ENone) | _ => ([], e) end, cl s').
End OverChunkReader.
Arguments mkOst {S}. Arguments o_u {S}. Arguments o_prefix {S}. Arguments o_fixed {S}.
Arguments offset_init {S}. Arguments offset_read {S}. Arguments offset_close {S}.
Arguments mkNst {S}. Arguments n_u {S}. Arguments n_last {S}. Arguments norm_read {S}. Arguments norm_close {S}.
Arguments mkCbst {S}. Arguments cb_u {S}. Arguments cb_last {S}. Arguments cb_loop {S}. Arguments cb_read {S}.
Arguments cb_close {S}. Arguments into_writer_cr {S}. Arguments to_byte_slice_cr {S}.

(** readAtViaChunkReader: offset reader, fill [p], then drain. *)
Section ReadAtCR.
  Variable S : Type.
  Variable rd : S -> (bytes * err) * S.
  Variable cl : S -> S.
  Fixpoint read_at_fill (fuel : nat) (left : N) (got : bytes) (o : ost S) : (bytes * err) * ost S :=
    if left =? 0 then ((got, ENone), o) else
    match fuel with
    | O => ((got, EFuel), o)
    | Datatypes.S f =>
        let '((c, e), o') := offset_read rd o in
        match e with
        | ENone => let part := takeN left c in read_at_fill f (left - lenN part) (got ++ part) o'
        | _ => ((got, e), o')
        end
    end.
  Definition read_at_cr (fuel : nat) (plen : N) (off : Z) (s : S) : (bytes * err) * ost S :=
    let o := offset_init rd cl fuel off s in
    let '((got, e), o) := read_at_fill fuel plen [] o in
    match e with
    | EEof => ((got, EEof), offset_close cl o)
    | ENone =>
        let '((_, e2), o) := drain (offset_read rd) fuel [] o in
        (match e2 with EEof => (got, ENone) | _ => ([], e2) end, offset_close cl o)
    | _ => (([], e), offset_close cl o)
    end.
End ReadAtCR.
Arguments read_at_fill {S}. Arguments read_at_cr {S}.

(** * Decorators and consumers over an arbitrary io.Reader *)
Section OverReader.
  Variable S : Type.
  Variable rd : N -> S -> (bytes * err) * S.

  (** newReaderBackedChunkReader *)
  Record rbst := mkRbst { rb_u : S; rb_err : err }.
  Definition rb_read (fuel : nat) (max : N) (st : rbst) : (bytes * err) * rbst :=
    match rb_err st with
    | ENone =>
        let '((data, e), u') := read_full rd fuel max (rb_u st) in
        let e' := match e with EUnexp => EEof | _ => e end in
        if negb (is_nil data) then ((data, ENone), mkRbst u' e') else (([], e'), mkRbst u' e')
    | e => (([], e), st)
    end.

  (** A consumer of an io.Reader: read with the given buffer sizes (the last
      one repeated) until an error (io.EOF included); data that comes with
      the error counts as received. *)
  Fixpoint rconsume (fuel : nat) (caps : list N) (lastcap : N) (out : bytes) (s : S) : (bytes * err) * S :=
    match fuel with
    | O => ((out, EFuel), s)
    | Datatypes.S f =>
        let '((c, e), s') := rd (hd lastcap caps) s in
        match e with
        | ENone => rconsume f (tl caps) lastcap (out ++ c) s'
        | _ => ((out ++ c, e), s')
        end
    end.
  Fixpoint rextra (k : nat) (cap : N) (s : S) : list (bytes * err) * S :=
    match k with
    | O => ([], s)
    | Datatypes.S k' =>
        let '(r, s') := rd cap s in
        let '(l, s'') := rextra k' cap s' in (r :: l, s'')
    end.
End OverReader.
Arguments mkRbst {S}. Arguments rb_u {S}. Arguments rb_err {S}. Arguments rb_read {S}.
Arguments rconsume {S}. Arguments rextra {S}.

(** byteSliceChunkReader and bytes.Buffer *)
Definition bs_read (max : N) (data : bytes) : (bytes * err) * bytes :=
  if is_nil data then (([], EEof), data)
  else if lenN data <=? max then ((data, ENone), [])
  else ((takeN max data, ENone), dropN max data).
Definition bb_read (cap : N) (data : bytes) : (bytes * err) * bytes :=
  if is_nil data then (([], if cap =? 0 then ENone else EEof), data)
  else ((takeN cap data, ENone), dropN cap data).

(** validateReaderOffset *)
Definition valid_offset (size : N) (off : Z) : bool := (0 <=? off)%Z && (Z.to_N off <=? size).

(** * Buffers and methods *)
Inductive meth :=
| MToByteSlice (max : N)
| MIntoWriter
| MReadAt (plen : N) (off : Z)
| MToChunkReader (off : Z) (max : N) (extra : nat)
| MToReader (caps : list N) (extra : nat)
| MCloneCopy (max : N)
| MDiscard.

Record outcome := mkOut {
  o_data : bytes;            (* bytes the consumer received *)
  o_err : err;               (* error of the call / the error that ended the stream *)
  o_extra : list err;        (* errors of further reads after the end *)
  o_cbs : list bool;         (* DataIntegrityCallback verdicts *)
  o_closed : nat;            (* Close() calls on the source *)
  o_aux : bytes              (* second copy (CloneCopy) / data of further reads *)
}.

Definition last_cap (caps : list N) : N := last caps 1.
Definition errs_of (l : list (bytes * err)) : list err := map snd l.
Definition datas_of (l : list (bytes * err)) : bytes := concat (map fst l).

Section Buffers.
  Variable H : bytes -> bytes.
  Variable cfg : vcfg.
  Variable fuel : nat.
  Let size := g_size cfg.

  (** ** errorBuffer *)
  Definition error_buffer (e : err) (cbs : list bool) (closed : nat) (m : meth) : outcome :=
    match m with
    | MToChunkReader _ _ k => mkOut [] e (repeat e k) cbs closed []
    | MToReader _ k => mkOut [] e (repeat e k) cbs closed []
    | MCloneCopy _ => mkOut [] e [e] cbs closed []
    | MDiscard => mkOut [] ENone [] cbs closed []
    | _ => mkOut [] e [] cbs closed []
    end.

  (** ** validatedByteSliceBuffer *)
  Definition byte_slice_buffer (data : bytes) (cbs : list bool) (closed : nat) (m : meth) : outcome :=
    match m with
    | MToByteSlice max =>
        if max <? lenN data then mkOut [] (ECode 3) [] cbs closed [] else mkOut data ENone [] cbs closed []
    | MIntoWriter => mkOut data ENone [] cbs closed []
    | MReadAt plen off =>
        if (off <? 0)%Z then mkOut [] (ECode 3) [] cbs closed []
        else if lenN data <? Z.to_N off then mkOut [] EEof [] cbs closed []
        else let got := takeN plen (dropN (Z.to_N off) data) in
             mkOut got (if lenN got <? plen then EEof else ENone) [] cbs closed []
    | MToChunkReader off max k =>
        if valid_offset (lenN data) off then
          let '((out, e), s) := drain (bs_read max) fuel [] (dropN (Z.to_N off) data) in
          let '(ex, _) := extra_reads (bs_read max) k s in
          mkOut out e (errs_of ex) cbs closed (datas_of ex)
        else mkOut [] (ECode 3) (repeat (ECode 3) k) cbs closed []
    | MToReader caps k =>
        let '((out, e), s) := rconsume bb_read fuel caps (last_cap caps) [] data in
        let '(ex, _) := rextra bb_read k (last_cap caps) s in
        mkOut out e (errs_of ex) cbs closed (datas_of ex)
    | MCloneCopy max =>
        if max <? lenN data then mkOut [] (ECode 3) [ECode 3] cbs closed []
        else mkOut data ENone [ENone] cbs closed data
    | MDiscard => mkOut [] ENone [] cbs closed []
    end.

  (** ** NewCASBufferFromByteSlice: eager validation *)
  Definition cas_byte_slice (data : bytes) (m : meth) : outcome :=
    if negb (size =? lenN data) then error_buffer (ECode (g_code cfg)) [false] 0 m
    else if negb (bytes_eqb (g_hash cfg) (H data)) then error_buffer (ECode (g_code cfg)) [false] 0 m
    else byte_slice_buffer data [true] 0 m.

  (** cloneCopyViaByteSlice + ToByteSlice(max) on both copies *)
  Definition clone_copy_of (r : bytes * err) (cbs : list bool) (closed : nat) : outcome :=
    match snd r with
    | ENone => mkOut (fst r) ENone [ENone] cbs closed (fst r)
    | e => mkOut [] e [e] cbs closed []
    end.

  (** ** NewCASBufferFromChunkReader *)
  Definition cvs := vst csrc.
  Definition cv_read : cvs -> (bytes * err) * cvs := vcr_read H cfg csrc_read fuel.
  Definition cv_close (st : cvs) : cvs := v_set_u st (csrc_close (v_u st)).
  Definition cv_init (evs : list ev) : cvs := vinit cfg (mkCsrc evs 0).
  Definition cv_out (data : bytes) (e : err) (extra : list err) (aux : bytes) (st : cvs) : outcome :=
    mkOut data e extra (v_cbs st) (c_closed (v_u st)) aux.

  Definition cas_chunk_reader (evs : list ev) (m : meth) : outcome :=
    let st0 := cv_init evs in
    match m with
    | MToByteSlice max =>
        let '((out, e), st) := to_byte_slice_cr cv_read cv_close fuel size max st0 in
        cv_out out e [] [] st
    | MIntoWriter =>
        let '((out, e), st) := into_writer_cr cv_read cv_close fuel st0 in
        cv_out out e [] [] st
    | MReadAt plen off =>
        let '((out, e), o) := read_at_cr cv_read cv_close fuel plen off st0 in
        cv_out out e [] [] (o_u o)
    | MToChunkReader off max k =>
        if valid_offset size off then
          let n0 := mkNst (offset_init cv_read cv_close fuel off st0) [] in
          let rdn := norm_read (offset_read cv_read) fuel max in
          let '((out, e), n) := drain rdn fuel [] n0 in
          let '(ex, n) := extra_reads rdn k n in
          let n := norm_close (offset_close cv_close) n in
          cv_out out e (errs_of ex) (datas_of ex) (o_u (n_u n))
        else cv_out [] (ECode 3) (repeat (ECode 3) k) [] (cv_close st0)
    | MToReader caps k =>
        let rdr := cb_read cv_read fuel in
        let '((out, e), s) := rconsume rdr fuel caps (last_cap caps) [] (mkCbst st0 []) in
        let '(ex, s) := rextra rdr k (last_cap caps) s in
        let s := cb_close cv_close s in
        cv_out out e (errs_of ex) (datas_of ex) (cb_u s)
    | MCloneCopy max =>
        let '(r, st) := to_byte_slice_cr cv_read cv_close fuel size max st0 in
        clone_copy_of r (v_cbs st) (c_closed (v_u st))
    | MDiscard => cv_out [] ENone [] [] (cv_close st0)
    end.

  (** ** NewCASBufferFromReader *)
  Definition rvs := vst rsrc.
  Definition rv_read : N -> rvs -> (bytes * err) * rvs := vr_read H cfg rsrc_read fuel.
  Definition rv_close (st : rvs) : rvs := v_set_u st (rsrc_close (v_u st)).
  Definition rv_init (evs : list ev) (attach : bool) : rvs := vinit cfg (mkRsrc evs attach 0).
  Definition rv_out (data : bytes) (e : err) (extra : list err) (aux : bytes) (st : rvs) : outcome :=
    mkOut data e extra (v_cbs st) (r_closed (v_u st)) aux.

  Definition to_byte_slice_r (max : N) (st0 : rvs) : (bytes * err) * rvs :=
    if max <? size then (([], ECode 3), rv_close st0)
    else if 0 <? size then
      let '((data, e), st) := read_full rv_read fuel size st0 in
      (match e with ENone => (data, ENone) | _ => ([], e) end, rv_close st)
    else
      let '((_, e), st) := rv_read 0 st0 in
      (([], match e with ENone | EEof => ENone | _ => e end), rv_close st).

  Definition cas_reader (evs : list ev) (attach : bool) (m : meth) : outcome :=
    let st0 := rv_init evs attach in
    match m with
    | MToByteSlice max =>
        let '((out, e), st) := to_byte_slice_r max st0 in rv_out out e [] [] st
    | MIntoWriter =>
        let '((out, e), st) := copy rv_read fuel st0 in rv_out out e [] [] (rv_close st)
    | MReadAt plen off =>
        let '(e0, st) := discard_from_reader rv_read fuel off st0 in
        match e0 with
        | ENone =>
            let '((got, e), st) := read_full rv_read fuel plen st in
            match e with
            | EEof | EUnexp => rv_out got EEof [] [] (rv_close st)
            | ENone =>
                let '((_, e2), st) := copy rv_read fuel st in
                match e2 with
                | ENone => rv_out got ENone [] [] (rv_close st)
                | _ => rv_out [] e2 [] [] (rv_close st)
                end
            | _ => rv_out [] e [] [] (rv_close st)
            end
        | _ => rv_out [] e0 [] [] (rv_close st)
        end
    | MToChunkReader off max k =>
        if valid_offset size off then
          let '(e0, st) := discard_from_reader rv_read fuel off st0 in
          match e0 with
          | ENone =>
              let rdc := rb_read rv_read fuel max in
              let '((out, e), s) := drain rdc fuel [] (mkRbst st ENone) in
              let '(ex, s) := extra_reads rdc k s in
              rv_out out e (errs_of ex) (datas_of ex) (rv_close (rb_u s))
          | _ => rv_out [] e0 (repeat e0 k) [] (rv_close st)
          end
        else rv_out [] (ECode 3) (repeat (ECode 3) k) [] (rv_close st0)
    | MToReader caps k =>
        let '((out, e), st) := rconsume rv_read fuel caps (last_cap caps) [] st0 in
        let '(ex, st) := rextra rv_read k (last_cap caps) st in
        rv_out out e (errs_of ex) (datas_of ex) (rv_close st)
    | MCloneCopy max =>
        let '(r, st) := to_byte_slice_r max st0 in
        clone_copy_of r (v_cbs st) (r_closed (v_u st))
    | MDiscard => rv_out [] ENone [] [] (rv_close st0)
    end.
End Buffers.
