(** C15, model M1: the full "same sequence" theorem.

    A second invariant of the multiplexer LTS, independent of [MuxProofs.Inv]:
    the quantity  reads still to issue + results received (+ 1 while parked
    in Read)  of every consumer never changes, and a consumer that has closed
    has no reads left.  Together with [Inv] (every consumer holds a prefix of
    the source output) this pins the exact position of every consumer in the
    shared log: in every reachable state a consumer with program Read^k has
    completed exactly  k - reads - [parked]  Reads and their results are the
    first that many results of the underlying source. *)
From Coq Require Import List ZArith NArith Bool Arith Lia.
From BBS Require Import Buffer.Mux Buffer.MuxProofs.
Import ListNotations.

(** Number of Read calls a program issues. *)
Definition prog_reads (p : nat * bool * N) : nat :=
  let '(r, d, _) := p in if d then 0 else r.

(** Read calls of consumer [c] that have returned, given that its program
    issues [k]: those not yet issued and the one it is parked in do not count. *)
Definition completed (k : nat) (c : cons) : nat :=
  k - reads c - b2n (is_st CWaitRead c).

Lemma map_eq_pointwise {A B C} (f : A -> C) (g : B -> C) :
  forall (l1 : list A) (l2 : list B), length l1 = length l2 ->
  (forall i a b, nth_error l1 i = Some a -> nth_error l2 i = Some b -> f a = g b) ->
  map f l1 = map g l2.
Proof.
  induction l1 as [|a l1 IH]; intros [|b l2] Hl H; cbn in Hl; try discriminate; [reflexivity|].
  cbn. f_equal.
  - apply (H 0); reflexivity.
  - apply IH; [lia|]. intros i a' b' Ha Hb. apply (H (S i)); assumption.
Qed.

Section S.
  Variable nchunks : nat.
  Variable term : Z.
  Notation items := (items nchunks term).
  Notation item_at := (item_at nchunks term).
  Notation step := (step nchunks term).
  Notation run := (run nchunks term).
  Notation run_skip := (run_skip nchunks term).

  (** the conserved quantity *)
  Definition total (c : cons) : nat := reads c + length (got c) + b2n (is_st CWaitRead c).
  Definition done_ok (c : cons) : Prop := st c = CDone -> reads c = 0.

  Definition Seq (tot : list nat) (s : mst) : Prop :=
    map total (cs s) = tot /\ Forall done_ok (cs s).

  Lemma map_upd_same {A B} (f : A -> B) (l : list A) : forall i c c',
    nth_error l i = Some c -> f c' = f c -> map f (upd i c' l) = map f l.
  Proof.
    induction l as [|h t IH]; intros [|i] c c' H E; cbn in H; try discriminate; cbn [upd map].
    - inversion H; subst. rewrite E. reflexivity.
    - f_equal. eapply IH; eassumption.
  Qed.

  Lemma Forall_upd {A} (P : A -> Prop) (l : list A) : forall i x,
    Forall P l -> P x -> Forall P (upd i x l).
  Proof.
    induction l as [|h t IH]; intros [|i] x Hl Hx; cbn [upd]; try constructor;
      inversion Hl; subst; auto.
  Qed.

  Lemma Forall_map_pres {A} (P : A -> Prop) (f : A -> A) (l : list A) :
    (forall c, P c -> P (f c)) -> Forall P l -> Forall P (map f l).
  Proof. intros Hf Hl. induction Hl; cbn; constructor; auto. Qed.

  Lemma total_wake_reg l : map total (wake_reg l) = map total l.
  Proof.
    unfold wake_reg. rewrite map_map. apply map_ext. intros c.
    unfold is_st at 1. destruct (st c) eqn:E; try reflexivity.
    unfold total, is_st. cbn. rewrite E. reflexivity.
  Qed.

  Lemma total_wake_read it l : map total (wake_read it l) = map total l.
  Proof.
    unfold wake_read. rewrite map_map. apply map_ext. intros c.
    unfold is_st at 1. destruct (st c) eqn:E; try reflexivity.
    unfold total, is_st. cbn. rewrite E, app_length. cbn. lia.
  Qed.

  Lemma done_wake_reg l : Forall done_ok l -> Forall done_ok (wake_reg l).
  Proof.
    apply Forall_map_pres. intros c Hc. destruct (is_st CWaitReg c); [|exact Hc].
    unfold done_ok. cbn. discriminate.
  Qed.

  Lemma done_wake_read it l : Forall done_ok l -> Forall done_ok (wake_read it l).
  Proof.
    apply Forall_map_pres. intros c Hc. destruct (is_st CWaitRead c); [|exact Hc].
    unfold done_ok. cbn. discriminate.
  Qed.

  Lemma nth_wake_reg_other l i c : nth_error l i = Some c -> st c <> CWaitReg ->
    nth_error (wake_reg l) i = Some c.
  Proof.
    intros H Hs. unfold wake_reg. rewrite (nth_error_map_some _ _ _ _ H).
    unfold is_st. destruct (st c); try reflexivity. contradiction.
  Qed.

  Lemma nth_wake_read_other it l i c : nth_error l i = Some c -> st c <> CWaitRead ->
    nth_error (wake_read it l) i = Some c.
  Proof.
    intros H Hs. unfold wake_read. rewrite (nth_error_map_some _ _ _ _ H).
    unfold is_st. destruct (st c); try reflexivity. contradiction.
  Qed.

  Lemma step_seq tot s i s' : Seq tot s -> step s i = Some s' -> Seq tot s'.
  Proof.
    intros [Ht Hd] Hs. unfold Seq. unfold Mux.step in Hs.
    destruct (panicked s); [discriminate|].
    destruct (nth_error (cs s) i) as [c|] eqn:Hn; [|discriminate].
    destruct (st c) eqn:Hst; try discriminate; inversion Hs; subst s'; clear Hs.
    - (* register *)
      unfold do_register. destruct (remaining s) as [|[|r]]; cbn [cs panic].
      + split; assumption.
      + split.
        * rewrite (map_upd_same total _ i c).
          -- rewrite total_wake_reg. exact Ht.
          -- apply nth_wake_reg_other; [exact Hn|rewrite Hst; discriminate].
          -- unfold total, is_st. cbn. rewrite Hst. reflexivity.
        * apply Forall_upd; [apply done_wake_reg; exact Hd|]. unfold done_ok; cbn; discriminate.
      + split.
        * rewrite (map_upd_same total _ i c); [exact Ht|exact Hn|].
          unfold total, is_st. cbn. rewrite Hst. reflexivity.
        * apply Forall_upd; [exact Hd|]. unfold done_ok; cbn; discriminate.
    - (* read or close *)
      destruct (reads c) as [|k] eqn:Hreads.
      + unfold do_close. destruct (pending s) as [|[|p]]; cbn [cs panic].
        * split; assumption.
        * assert (T : map total (upd i (set_st c CDone) (cs s)) = tot).
          { rewrite (map_upd_same total _ i c); [exact Ht|exact Hn|].
            unfold total, is_st. cbn. rewrite Hst. reflexivity. }
          assert (F : Forall done_ok (upd i (set_st c CDone) (cs s))).
          { apply Forall_upd; [exact Hd|]. unfold done_ok; cbn. intros _; exact Hreads. }
          destruct (waiting s); cbn [cs].
          -- split; assumption.
          -- split; [rewrite total_wake_read; exact T|apply done_wake_read; exact F].
        * split.
          -- rewrite (map_upd_same total _ i c); [exact Ht|exact Hn|].
             unfold total, is_st. cbn. rewrite Hst. reflexivity.
          -- apply Forall_upd; [exact Hd|]. unfold done_ok; cbn. intros _; exact Hreads.
      + unfold do_read. destruct (pending s) as [|[|p]]; cbn [cs panic].
        * split; assumption.
        * split.
          -- rewrite (map_upd_same total _ i c).
             ++ rewrite total_wake_read. exact Ht.
             ++ apply nth_wake_read_other; [exact Hn|rewrite Hst; discriminate].
             ++ unfold total, is_st. cbn. rewrite Hst, Hreads, app_length. cbn. lia.
          -- apply Forall_upd; [apply done_wake_read; exact Hd|]. unfold done_ok; cbn; discriminate.
        * split.
          -- rewrite (map_upd_same total _ i c); [exact Ht|exact Hn|].
             unfold total, is_st. cbn. rewrite Hst, Hreads. cbn. lia.
          -- apply Forall_upd; [exact Hd|]. unfold done_ok; cbn; discriminate.
  Qed.

  Lemma run_seq tot sched : forall s s', Seq tot s -> run s sched = Some s' -> Seq tot s'.
  Proof.
    induction sched as [|i rest IH]; intros s s' HI H; cbn in H.
    - inversion H; subst; exact HI.
    - destruct (step s i) as [s1|] eqn:E; [|discriminate]. eapply IH; [|exact H]. eapply step_seq; eassumption.
  Qed.

  Lemma init_seq progs : Seq (map prog_reads progs) (init progs).
  Proof.
    unfold Seq, init. cbn [cs]. split.
    - rewrite map_map. apply map_ext. intros [[r d] z]. unfold total, is_st. cbn. lia.
    - apply Forall_forall. intros c Hin. apply in_map_iff in Hin.
      destruct Hin as ([[r d] z] & <- & _). unfold done_ok. cbn. discriminate.
  Qed.

  Lemma items_length k : length (items k) = k.
  Proof. unfold Mux.items. rewrite map_length, seq_length. reflexivity. Qed.

  Lemma items_nth k j : j < k -> nth_error (items k) j = Some (item_at j).
  Proof.
    intros H. unfold Mux.items. rewrite nth_error_map.
    rewrite (nth_error_nth' (seq 0 k) 0) by (rewrite seq_length; exact H).
    rewrite seq_nth by exact H. reflexivity.
  Qed.

  (** The position of every consumer in the shared log, in any state that
      satisfies both invariants. *)
  Theorem position s progs i c p : Inv nchunks term s -> Seq (map prog_reads progs) s ->
    nth_error (cs s) i = Some c -> nth_error progs i = Some p ->
    let k := prog_reads p in
    reads c + b2n (is_st CWaitRead c) <= k /\
    got c = items (completed k c) /\
    completed k c <= srcpos s /\
    (st c <> CDone -> completed k c = srcpos s) /\
    (st c = CDone -> got c = items k).
  Proof.
    intros HI [Ht Hd] Hn Hp k.
    assert (Hin : In c (cs s)) by (eapply nth_error_In; exact Hn).
    assert (Htot : total c = k).
    { pose proof (map_nth_error total _ _ Hn) as H1. rewrite Ht in H1.
      rewrite (map_nth_error prog_reads _ _ Hp) in H1. inversion H1. reflexivity. }
    destruct (same_sequence nchunks term s c HI Hin) as [(k' & Hk' & Hg) Hnd].
    assert (Hlen : length (got c) = k') by (rewrite Hg; apply items_length).
    assert (Hcomp : completed k c = k') by (unfold completed; unfold total in Htot; lia).
    rewrite Hcomp. repeat split.
    - unfold total in Htot. lia.
    - exact Hg.
    - exact Hk'.
    - intros Hs. specialize (Hnd Hs). rewrite Hnd, items_length in Hlen. lia.
    - intros Hs. rewrite Forall_forall in Hd. pose proof (Hd c Hin Hs) as Hr.
      unfold completed in Hcomp. unfold is_st in Hcomp. rewrite Hs in Hcomp. cbn in Hcomp.
      rewrite Hg. f_equal. lia.
  Qed.

  Lemma seq_length_cs s progs : Seq (map prog_reads progs) s -> length (cs s) = length progs.
  Proof. intros [Ht _]. rewrite <- (map_length total), Ht, map_length. reflexivity. Qed.

  (** Full strength: for any number n >= 1 of consumers, any programs, any
      source script and any schedule, in every reachable state every consumer
      has completed exactly [completed k c] of its k Reads and their results
      are, in order, the first results the underlying source produced. *)
  Theorem same_sequence_full progs sched s :
    progs <> [] -> run (init progs) sched = Some s ->
    length (cs s) = length progs /\
    forall i c p, nth_error (cs s) i = Some c -> nth_error progs i = Some p ->
      let k := prog_reads p in
      reads c + b2n (is_st CWaitRead c) <= k /\
      got c = items (completed k c) /\
      completed k c <= srcpos s /\
      (st c <> CDone -> completed k c = srcpos s) /\
      (st c = CDone -> got c = items k).
  Proof.
    intros Hne Hr.
    pose proof (run_inv nchunks term sched _ _ (init_inv nchunks term progs Hne) Hr) as HI.
    pose proof (run_seq _ sched _ _ (init_seq progs) Hr) as HS.
    split; [apply seq_length_cs; exact HS|].
    intros i c p Hn Hp. exact (position s progs i c p HI HS Hn Hp).
  Qed.

  (** The same, result by result: the j-th Read result of every consumer is
      the j-th result the source produced (a chunk, the error, or EOF), for
      every j below the number of Reads it has completed, and it holds no
      other results. *)
  Theorem same_sequence_pointwise progs sched s i c p :
    progs <> [] -> run (init progs) sched = Some s ->
    nth_error (cs s) i = Some c -> nth_error progs i = Some p ->
    length (got c) = completed (prog_reads p) c /\
    completed (prog_reads p) c <= srcpos s /\
    forall j, j < completed (prog_reads p) c -> nth_error (got c) j = Some (item_at j).
  Proof.
    intros Hne Hr Hn Hp.
    destruct (same_sequence_full progs sched s Hne Hr) as [_ H].
    destruct (H i c p Hn Hp) as (_ & Hg & Hle & _).
    split; [rewrite Hg at 1; apply items_length|]. split; [exact Hle|].
    intros j Hj. rewrite Hg. apply items_nth. exact Hj.
  Qed.

  (** When everybody has finished (the only maximal runs, by [no_stuck] and
      the ranking), consumer i holds exactly the first k_i source results. *)
  Theorem final_results progs sched s :
    progs <> [] -> run (init progs) sched = Some s -> all_done s = true ->
    map got (cs s) = map (fun p => items (prog_reads p)) progs.
  Proof.
    intros Hne Hr Hd. destruct (same_sequence_full progs sched s Hne Hr) as [Hl H].
    apply map_eq_pointwise; [exact Hl|]. intros i c p Hc Hp.
    destruct (H i c p Hc Hp) as (_ & _ & _ & _ & Hdone). apply Hdone.
    unfold all_done in Hd. rewrite forallb_forall in Hd.
    pose proof (Hd c (nth_error_In _ _ Hc)) as X. unfold is_st in X. destruct (st c); try discriminate; reflexivity.
  Qed.

  (** ---- the lenient executor used by the harness ---- *)

  Lemma run_skip_pres (P : mst -> Prop) :
    (forall s i s', P s -> step s i = Some s' -> P s') ->
    forall sched s, P s -> P (run_skip s sched).
  Proof.
    intros Hstep. induction sched as [|i rest IH]; intros s Hs; cbn; [exact Hs|].
    apply IH. destruct (step s i) eqn:E; [eapply Hstep; eassumption|exact Hs].
  Qed.

  Lemma run_skip_inv sched s : Inv nchunks term s -> Inv nchunks term (run_skip s sched).
  Proof. apply run_skip_pres. intros s0 i s' H E. eapply step_inv; eassumption. Qed.

  Lemma run_skip_seq tot sched s : Seq tot s -> Seq tot (run_skip s sched).
  Proof. apply run_skip_pres. intros s0 i s' H E. eapply step_seq; eassumption. Qed.
End S.
