(** C16 — the stitched stream in closed form: for well-formed buffers (a reader
    that attaches EOF to data has a script of chunks and at most one final Eof
    event — what the harness generates) and as long as the model does not run
    out of fuel, the relation [stitched] / [rstitched] IS the monitor's
    specification function [stitch] (Run/R16.v): what one buffer delivers from
    offset k is [piece_of b k], for every buffer kind, on the chunk-reader path
    and on the io.Reader path. *)
From Coq Require Import List ZArith NArith Bool Lia.
From BBS Require Import Common.Sx Buffer.Source Buffer.Validate Buffer.Convert Buffer.ErrHandler
  Buffer.StreamProofs Buffer.ValidateProofs Buffer.ValidateReaderProofs Buffer.ConvertProofs
  Buffer.ReaderBufferProofs Buffer.ConvertProofs2 Buffer.ErrHandlerProofs
  Buffer.EHFullCarry Buffer.EHFullReader Run.R09 Run.R16.
Import ListNotations.
Open Scope N_scope.

Definition wf_buf (b : bufscript) : Prop :=
  match b with BReader evs true => clean_script evs | _ => True end.
Definition wf_ans (a : answer) : Prop := match a with Replace b => wf_buf b | Fail _ => True end.

(** * The scripted io.Reader, exactly *)
Definition wfR (s : rsrc) : Prop := r_attach s = true -> clean_script (r_rest s).

Lemma clean_tail_nil bs r : clean_script (Chunk bs :: r) -> clean_script r.
Proof. cbn. auto. Qed.

(** an error that comes with data: the script is exhausted and it is io.EOF *)
Lemma rsrc_exact cap s c e s' :
  rsrc_read cap s = ((c, e), s') -> wfR s ->
  wfR s' /\
  match e with
  | ENone => rcont s = (c ++ fst (rcont s'), snd (rcont s'))
  | _ => rcont s = (c, e) /\ (c <> [] -> e = EEof /\ rcont s' = ([], EEof))
  end.
Proof.
  intros Hr Hw. pose proof (rsrc_spec _ _ _ _ _ Hr) as Hs. pose proof (rsrc_attach _ _ _ _ _ Hr) as Ha.
  unfold rsrc_read in Hr. unfold wfR in *. rewrite Ha.
  destruct (r_rest s) as [|[bs|x|] r] eqn:Er.
  - inv Hr. split; [rewrite Er; auto|]. split; [exact Hs|congruence].
  - destruct (is_nil (dropN cap bs)) eqn:En; cbn [negb] in Hr.
    + destruct (r_attach s) eqn:Eat.
      * specialize (Hw eq_refl). cbn in Hw.
        destruct r as [|[bs2|x2|] r2]; inv Hr; cbn [r_rest]; try contradiction.
        -- split; [auto|]. split; [exact Hs|]. intros _. split; reflexivity.
        -- split; [intros _; exact Hw|exact Hs].
        -- cbn in Hw. subst r2. split; [intros _; exact Logic.I|]. split; [exact Hs|]. intros _. split; reflexivity.
      * inv Hr. split; [intros; congruence|exact Hs].
    + inv Hr. cbn [r_rest]. split; [|exact Hs]. intros E. specialize (Hw E). exact Hw.
  - inv Hr. split; [|split; [exact Hs|congruence]]. cbn [r_rest]. intros E. specialize (Hw E). cbn in Hw. contradiction.
  - inv Hr. split; [|split; [exact Hs|congruence]]. cbn [r_rest]. intros E. specialize (Hw E). cbn in Hw. subst r. exact Logic.I.
Qed.

Lemma rdrains_rcont s p t s' : rdrains rsrc_read s p t s' -> rcont s = (p, t).
Proof.
  induction 1 as [cap s c e s1 Hr Hne|cap s c s1 bs e s2 Hr _ IH].
  - pose proof (rsrc_spec _ _ _ _ _ Hr) as Hs. destruct e; congruence.
  - pose proof (rsrc_spec _ _ _ _ _ Hr) as Hs. cbn in Hs. rewrite Hs, IH. reflexivity.
Qed.

(** io.ReadFull over it *)
Lemma read_full_exact : forall f want got s res e s',
  read_full_loop rsrc_read f want got s = ((res, e), s') -> wfR s -> e <> EFuel ->
  exists d, res = got ++ d /\ wfR s' /\
    match e with
    | ENone => rcont s = (d ++ fst (rcont s'), snd (rcont s'))
    | EEof | EUnexp => rcont s = (d, EEof)
    | _ => rcont s = (d, e)
    end.
Proof.
  induction f as [|f IH]; intros want got s res e s' Hr Hw Hnf; cbn [read_full_loop] in Hr;
    destruct (want <=? lenN got) eqn:Ew.
  - inv Hr. exists []. rewrite app_nil_r. rsplit; auto. cbn. destruct (rcont s'); reflexivity.
  - inv Hr. congruence.
  - inv Hr. exists []. rewrite app_nil_r. rsplit; auto. cbn. destruct (rcont s'); reflexivity.
  - apply N.leb_gt in Ew. destruct (rsrc_read (want - lenN got) s) as [[c e0] s1] eqn:Hrd.
    destruct (rsrc_exact _ _ _ _ _ Hrd Hw) as (Hw1 & Hx).
    pose proof (rsrc_no_unexp _ _ _ _ _ Hrd) as Hnu.
    assert (Herr : e0 <> ENone -> rcont s = (c, e0) /\ (c <> [] -> e0 = EEof /\ rcont s1 = ([], EEof)) ->
      (if want <=? lenN (got ++ c) then ((got ++ c, ENone), s1)
       else match e0 with
            | EEof => ((got ++ c, if is_nil (got ++ c) then EEof else EUnexp), s1)
            | _ => ((got ++ c, e0), s1)
            end) = ((res, e), s') ->
      exists d, res = got ++ d /\ wfR s' /\
        match e with
        | ENone => rcont s = (d ++ fst (rcont s'), snd (rcont s'))
        | EEof | EUnexp => rcont s = (d, EEof)
        | _ => rcont s = (d, e)
        end).
    { intros Hne (Hc & Hd) Hy. destruct (want <=? lenN (got ++ c)) eqn:Ew2.
      - apply N.leb_le in Ew2. inv Hy. exists c. rsplit; auto.
        assert (Hcn : c <> []) by (intros ->; rewrite app_nil_r in Ew2; lia).
        destruct (Hd Hcn) as (-> & Hs1). rewrite Hc, Hs1. cbn. now rewrite app_nil_r.
      - destruct e0; try congruence.
        + inv Hy. exists c. rsplit; auto. destruct (is_nil (got ++ c)); exact Hc.
        + inv Hy. exists c. rsplit; auto. }
    destruct e0; try (apply Herr; [congruence|exact Hx|exact Hr]).
    destruct (IH _ _ _ _ _ _ Hr Hw1 Hnf) as (d & -> & Hw' & Hm).
    exists (c ++ d). rewrite <- app_assoc. rsplit; auto. rewrite Hx.
    destruct e; try congruence; rewrite Hm; cbn; rewrite <- ?app_assoc; reflexivity.
Qed.

(** io.CopyN(io.Discard, r, left) *)
Lemma copy_n_exact : forall f left s e s',
  copy_n_loop rsrc_read f left s = (e, s') -> wfR s -> e <> EFuel ->
  match e with
  | ENone => left <= lenN (fst (rcont s)) /\ wfR s' /\
             rcont s' = (dropN left (fst (rcont s)), snd (rcont s))
  | _ => lenN (fst (rcont s)) < left /\ e = snd (rcont s)
  end.
Proof.
  induction f as [|f IH]; intros left s e s' Hr Hw Hnf; cbn [copy_n_loop] in Hr;
    destruct (left =? 0) eqn:E0.
  - apply N.eqb_eq in E0. subst. inv Hr. rsplit; auto; [lia|]. rewrite dropN_0. destruct (rcont s'); reflexivity.
  - inv Hr. congruence.
  - apply N.eqb_eq in E0. subst. inv Hr. rsplit; auto; [lia|]. rewrite dropN_0. destruct (rcont s'); reflexivity.
  - apply N.eqb_neq in E0. destruct (rsrc_read (N.min discard_buf left) s) as [[c e0] s1] eqn:Hrd.
    destruct (rsrc_exact _ _ _ _ _ Hrd Hw) as (Hw1 & Hx).
    pose proof (rsrc_cap _ _ _ _ _ Hrd) as Hcap. assert (Hcl : lenN c <= left) by lia.
    assert (Herr : e0 <> ENone -> rcont s = (c, e0) /\ (c <> [] -> e0 = EEof /\ rcont s1 = ([], EEof)) ->
      (if left - lenN c =? 0 then ENone else e0, s1) = (e, s') ->
      match e with
      | ENone => left <= lenN (fst (rcont s)) /\ wfR s' /\ rcont s' = (dropN left (fst (rcont s)), snd (rcont s))
      | _ => lenN (fst (rcont s)) < left /\ e = snd (rcont s)
      end).
    { intros Hne (Hc & Hd) Hy. destruct (left - lenN c =? 0) eqn:Ez.
      - apply N.eqb_eq in Ez. inv Hy. assert (Hcn : c <> []) by (intros ->; rewrite lenN_nil in Ez; lia).
        destruct (Hd Hcn) as (-> & Hs1). rewrite Hc, Hs1. cbn [fst snd]. rsplit; auto; [lia|].
        rewrite dropN_all by lia. reflexivity.
      - apply N.eqb_neq in Ez. inv Hy. rewrite Hc. cbn [fst snd]. destruct e; try congruence; split; auto; lia. }
    destruct e0; try (apply Herr; [congruence|exact Hx|exact Hr]).
    specialize (IH _ _ _ _ Hr Hw1 Hnf). rewrite Hx. cbn [fst snd].
    destruct e; try congruence.
    + destruct IH as (Hl & Hw' & Hc'). rewrite lenN_app. rsplit; auto; [lia|].
      rewrite Hc', dropN_app_ge by assumption. reflexivity.
    + destruct IH as (Hl & ->). rewrite lenN_app. split; [lia|reflexivity].
    + destruct IH as (Hl & He). rewrite lenN_app. split; [lia|exact He].
    + destruct IH as (Hl & He). rewrite lenN_app. split; [lia|exact He].
Qed.

(** the reader-backed chunk reader: its pending error is part of what is left *)
Definition rb_cont (r : rbst rsrc) : bytes * err :=
  match rb_err r with ENone => rcont (rb_u r) | e => ([], e) end.
Definition rb_ok (r : rbst rsrc) : Prop :=
  rb_err r <> EUnexp /\ (rb_err r = ENone -> wfR (rb_u r)).

Lemma rb_drains_exact ifuel max r p t r' :
  drains (rb_read rsrc_read ifuel max) r p t r' -> rb_ok r -> t <> EFuel -> rb_cont r = (p, t).
Proof.
  induction 1 as [r c e r1 Hr Hne|r c r1 bs e r2 Hr Hrest IH]; intros (Hnu & Hw) Hnf; unfold rb_read in Hr.
  - unfold rb_cont. destruct (rb_err r) eqn:Ee; try (inv Hr; reflexivity).
    destruct (read_full rsrc_read ifuel max (rb_u r)) as [[data e0] u'] eqn:Hf. unfold read_full in Hf.
    destruct (is_nil data) eqn:En; cbn [negb] in Hr; [|inv Hr; congruence].
    apply is_nil_true in En. subst data. inv Hr.
    assert (He0 : e0 <> EFuel) by (destruct e0; congruence).
    destruct (read_full_exact _ _ _ _ _ _ _ Hf (Hw eq_refl) He0) as (d & E & _ & Hm). cbn in E. subst d.
    destruct e0; try congruence; exact Hm.
  - unfold rb_cont. destruct (rb_err r) eqn:Ee; try (inv Hr; fail).
    destruct (read_full rsrc_read ifuel max (rb_u r)) as [[data e0] u'] eqn:Hf. unfold read_full in Hf.
    assert (Hshape : c = data /\ r1 = mkRbst u' (match e0 with EUnexp => EEof | _ => e0 end)).
    { destruct (is_nil data) eqn:En; cbn [negb] in Hr.
      - apply is_nil_true in En. inv Hr. auto.
      - inv Hr. auto. }
    destruct Hshape as (-> & ->). clear Hr.
    assert (Hok1 : rb_ok (mkRbst u' (match e0 with EUnexp => EEof | _ => e0 end)) -> e0 <> EFuel ->
                   rcont (rb_u r) = (data ++ bs, e)).
    { intros Hok He0. specialize (IH Hok Hnf). unfold rb_cont in IH. cbn [rb_err rb_u] in IH.
      destruct (read_full_exact _ _ _ _ _ _ _ Hf (Hw eq_refl) He0) as (d & E & Hw' & Hm). cbn in E. subst d.
      destruct e0; try congruence.
      - rewrite Hm, IH. reflexivity.
      - inv IH. rewrite Hm, app_nil_r. reflexivity.
      - inv IH. rewrite Hm, app_nil_r. reflexivity.
      - inv IH. rewrite Hm, app_nil_r. reflexivity. }
    (* a pending EFuel would be the end of the stream *)
    assert (He0 : e0 <> EFuel).
    { intros ->. inversion Hrest as [? ? ? ? H0 ?|? ? ? ? ? ? H0 ?]; subst.
      - unfold rb_read in H0. cbn in H0. inv H0. congruence.
      - unfold rb_read in H0. cbn in H0. inv H0. }
    apply Hok1; [|exact He0]. split; cbn.
    + destruct e0; congruence.
    + intros E. destruct (read_full_exact _ _ _ _ _ _ _ Hf (Hw eq_refl) He0) as (d & _ & Hw' & _).
      destruct e0; try discriminate. exact Hw'.
Qed.

(** * What each buffer kind delivers from offset [k], exactly *)
Lemma piece_of_chunk evs k :
  piece_of (BChunk evs) k =
  if k <=? lenN (fst (content evs)) then (dropN k (fst (content evs)), snd (content evs))
  else ([], snd (content evs)).
Proof. unfold piece_of, ucontent. destruct (content evs); reflexivity. Qed.

Section ExactPieces.
  Variable ifuel : nat.
  Variable max : N.

  Lemma urb_drains cur p t cur' :
    drains (ucr_read ifuel max) cur p t cur' -> forall r, cur = URb r ->
    exists r', cur' = URb r' /\ drains (rb_read rsrc_read ifuel max) r p t r'.
  Proof.
    induction 1 as [cur c e cur1 Hr Hne|cur c cur1 bs e cur2 Hr _ IH]; intros r ->; cbn in Hr;
      destruct (rb_read rsrc_read ifuel max r) as [x r1] eqn:Hn; inv Hr.
    - exists r1. split; [reflexivity|]. eapply drains_end; eassumption.
    - destruct (IH _ eq_refl) as (r' & -> & Hd). exists r'. split; [reflexivity|].
      eapply drains_step; eassumption.
  Qed.
  Lemma ufail_drains x s p t cur' : drains (ucr_read ifuel max) (UFail x s) p t cur' -> p = [] /\ t = x.
  Proof.
    intros Hd. remember (UFail x s) as u eqn:Eu. revert Eu.
    induction Hd as [u c e u1 Hr Hne|u c u1 bs e u2 Hr _ IH]; intros ->; cbn in Hr; inv Hr; [auto|].
    destruct (IH eq_refl) as (-> & ->). auto.
  Qed.
  Lemma uerr_drains_any x p t cur' : drains (ucr_read ifuel max) (UErr x) p t cur' -> p = [] /\ t = x.
  Proof.
    intros Hd. remember (UErr x) as u eqn:Eu. revert Eu.
    induction Hd as [u c e u1 Hr Hne|u c u1 bs e u2 Hr _ IH]; intros ->; cbn in Hr; inv Hr; [auto|].
    destruct (IH eq_refl) as (-> & ->). auto.
  Qed.

  Theorem piece_exact b k p t cur' :
    drains (ucr_read ifuel max) (ucr_open ifuel b k) p t cur' -> t <> EFuel -> wf_buf b ->
    piece_of b k = (p, t).
  Proof.
    intros Hd Hnf Hwf. destruct b as [evs|evs a|d|x].
    - rewrite piece_of_chunk.
      destruct (piece_chunk _ _ _ _ _ _ _ Hd Hnf) as (-> & [[Hle ->]|[Hlt ->]]).
      + apply N.leb_le in Hle. rewrite Hle. reflexivity.
      + apply N.leb_gt in Hlt. rewrite Hlt. reflexivity.
    - cbn [ucr_open] in Hd. unfold discard_from_reader in Hd.
      destruct (Z.of_N k <? 0)%Z eqn:Hneg; [apply Z.ltb_lt in Hneg; lia|]. rewrite N2Z.id in Hd.
      destruct (copy_n_loop rsrc_read ifuel k (mkRsrc evs a 0)) as [e s] eqn:Hc.
      assert (Hw0 : wfR (mkRsrc evs a 0)) by (unfold wfR; cbn; intros ->; exact Hwf).
      assert (Hfail : e <> ENone -> drains (ucr_read ifuel max) (UFail e (rsrc_close s)) p t cur' ->
                      piece_of (BReader evs a) k = (p, t)).
      { intros Hne Hd'. destruct (ufail_drains _ _ _ _ _ Hd') as (-> & ->).
        pose proof (copy_n_exact _ _ _ _ _ Hc Hw0 Hnf) as Hx. unfold rcont in Hx. cbn [r_rest] in Hx.
        unfold piece_of, ucontent. destruct (content evs) as [c0 t0]. cbn [fst snd] in Hx.
        destruct e; try congruence; destruct Hx as (Hlt & ->); apply N.leb_gt in Hlt; rewrite Hlt; reflexivity. }
      destruct e; try (apply Hfail; [congruence|exact Hd]).
      destruct (urb_drains _ _ _ _ Hd _ eq_refl) as (r' & _ & Hdr).
      pose proof (copy_n_exact _ _ _ _ _ Hc Hw0 ltac:(congruence)) as (Hle & Hw & Hcont).
      assert (Hok : rb_ok (mkRbst s ENone)) by (split; cbn; [congruence|auto]).
      pose proof (rb_drains_exact _ _ _ _ _ _ Hdr Hok Hnf) as Hx. unfold rb_cont in Hx. cbn [rb_err rb_u] in Hx.
      rewrite Hcont in Hx. unfold rcont in Hx, Hle. cbn [r_rest] in Hx, Hle.
      unfold piece_of, ucontent. destruct (content evs) as [c0 t0]. cbn [fst snd] in *.
      apply N.leb_le in Hle. rewrite Hle. exact Hx.
    - cbn [ucr_open] in Hd. unfold piece_of, ucontent. destruct (k <=? lenN d) eqn:E.
      + destruct (ubs_drains _ _ _ _ _ _ Hd _ eq_refl) as (d' & _ & Hdb).
        destruct (bs_read_drains _ _ _ _ _ Hdb) as (-> & ->). reflexivity.
      + destruct (uerr_drains_any _ _ _ _ Hd) as (-> & ->). reflexivity.
    - cbn [ucr_open] in Hd. destruct (uerr_drains_any _ _ _ _ Hd) as (-> & ->).
      unfold piece_of, ucontent. cbn. destruct (k <=? 0) eqn:E; [|reflexivity].
      apply N.leb_le in E. assert (k = 0) by lia. subst. reflexivity.
  Qed.

  (** the stitched stream is the specification function [stitch] *)
  Theorem stitched_is_stitch : forall cur k ans out e offs,
    stitched ifuel max cur k ans out e offs ->
    forall b, cur = ucr_open ifuel b k -> wf_buf b -> Forall wf_ans ans ->
    ~ In EFuel offs -> stitch b k ans = (out, e, offs).
  Proof.
    induction 1 as [cur k ans p cur' Hd|cur k ans p t cur' c Hd Hne Ho|cur k b1 rest p t cur' p2 e offs Hd Hne _ IH];
      intros b -> Hwf Hall Hnf.
    - destruct ans; cbn [stitch]; rewrite (piece_exact _ _ _ _ _ Hd ltac:(congruence) Hwf); reflexivity.
    - assert (Ht : t <> EFuel) by (intros ->; apply Hnf; left; reflexivity).
      pose proof (drains_not_none _ _ _ _ _ _ Hd) as Hnn.
      unfold on_error in Ho. cbn in Ho.
      destruct ans as [|[b'|c'] rest]; cbn [stitch]; rewrite (piece_exact _ _ _ _ _ Hd Ht Hwf);
        cbn in Ho; try discriminate; inv Ho; destruct t; try congruence; reflexivity.
    - assert (Ht : t <> EFuel) by (intros ->; apply Hnf; left; reflexivity).
      pose proof (drains_not_none _ _ _ _ _ _ Hd) as Hnn.
      inversion Hall as [|a l Hb1 Hrest]; subst.
      cbn [stitch]. rewrite (piece_exact _ _ _ _ _ Hd Ht Hwf).
      rewrite (IH _ eq_refl Hb1 Hrest ltac:(intros Hin; apply Hnf; right; exact Hin)).
      destruct t; try congruence; reflexivity.
  Qed.
End ExactPieces.

(** The stream of the error-handling chunk reader in closed form. *)
Theorem ehc_stream_is_stitch ifuel fuel max b h out e r' :
  drains (ehc_read ifuel fuel max) (ehc_init ifuel b h) out e r' ->
  wf_buf b -> Forall wf_ans (h_answers h) ->
  e <> EFuel -> ~ In (HOnError EFuel) (h_log (ec_h r')) ->
  exists offered, stitch b 0 (h_answers h) = (out, e, offered) /\
                  h_log (ec_h r') = h_log h ++ map HOnError offered.
Proof.
  intros Hd Hwf Hall Hne Hlog.
  destruct (ehc_stitched _ _ _ _ _ _ _ Hd Hne) as (offs & Hs & Hl & _). cbn [ehc_init ec_cur ec_off ec_h] in *.
  exists offs. split; [|exact Hl].
  eapply stitched_is_stitch; [exact Hs|reflexivity|exact Hwf|exact Hall|].
  intros Hin. apply Hlog. rewrite Hl. apply in_or_app. right. apply in_map. exact Hin.
Qed.

(** * The io.Reader path ([ToReader]) *)
Lemma offset_chunk_exact fuel evs k p t o' :
  drains (offset_read csrc_read) (offset_init csrc_read csrc_close fuel (Z.of_N k) (mkCsrc evs 0)) p t o' ->
  t <> EFuel -> piece_of (BChunk evs) k = (p, t).
Proof.
  intros Hdo Hnf. rewrite piece_of_chunk.
  unfold offset_init in Hdo. destruct (Z.of_N k <? 0)%Z eqn:Hneg; [apply Z.ltb_lt in Hneg; lia|].
  rewrite N2Z.id in Hdo.
  destruct (csrc_drains evs 0) as (send & Hsrc).
  destruct (discard_from_chunk_reader csrc_read fuel k (mkCsrc evs 0)) as [[prefix e] s'] eqn:Hdis.
  assert (Hfail : e <> ENone -> drains (offset_read csrc_read) (mkOst (csrc_close s') [] e) p t o' ->
            (if k <=? lenN (fst (content evs)) then (dropN k (fst (content evs)), snd (content evs))
             else ([], snd (content evs))) = (p, t)).
  { intros Hne Hdo'. destruct (offset_fixed_drains _ _ _ _ _ _ Hdo') as (Ee & ->); [exact Hne|]. cbn in Ee. subst e.
    destruct (discard_fails _ _ _ _ _ _ _ _ Hdis Hne Hnf) as (bs0 & Hd0 & Hl0).
    destruct (drains_det _ _ _ _ _ _ _ _ _ Hsrc Hd0) as (<- & <- & _).
    apply N.leb_gt in Hl0. rewrite Hl0. reflexivity. }
  destruct e; try (apply Hfail; [congruence|exact Hdo]).
  destruct (discard_pulls _ _ _ _ _ _ _ Hdis) as (bs0 & Hp0 & -> & Hle).
  destruct (offset_drains _ _ _ _ _ _ _ Hdo) as (bs2 & -> & Hd2).
  pose proof (pulls_drains _ _ _ _ _ _ _ _ Hp0 Hd2) as Hall.
  destruct (drains_det _ _ _ _ _ _ _ _ _ Hsrc Hall) as (Ec & <- & _).
  rewrite Ec, lenN_app. assert (Hk : k <=? lenN bs0 + lenN bs2 = true) by (apply N.leb_le; lia).
  rewrite Hk, dropN_app by assumption. reflexivity.
Qed.

Lemma bb_rdrains d p t d' : rdrains bb_read d p t d' -> p = d /\ t = EEof.
Proof.
  induction 1 as [cap d c e d1 Hr Hne|cap d c d1 bs e d2 Hr _ IH]; unfold bb_read in Hr.
  - destruct (is_nil d) eqn:En; [|inv Hr; congruence]. apply is_nil_true in En. subst d.
    destruct (cap =? 0); inv Hr; [congruence|auto].
  - destruct IH as (-> & ->). destruct (is_nil d) eqn:En.
    + apply is_nil_true in En. subst d. destruct (cap =? 0); inv Hr. auto.
    + inv Hr. rewrite takeN_dropN. auto.
Qed.

Section ExactReaderPieces.
  Variable fuel : nat.

  Lemma rcb_rdrains cur p t cur' :
    rdrains (urd_read fuel) cur p t cur' -> forall c, cur = RCb c ->
    exists c', cur' = RCb c' /\ rdrains (cb_read (offset_read csrc_read) fuel) c p t c'.
  Proof.
    induction 1 as [cap cur c e cur1 Hr Hne|cap cur c cur1 bs e cur2 Hr _ IH]; intros cb ->; cbn in Hr;
      destruct (cb_read (offset_read csrc_read) fuel cap cb) as [x cb1] eqn:Hn; inv Hr.
    - exists cb1. split; [reflexivity|]. eapply rdrains_end; eassumption.
    - destruct (IH _ eq_refl) as (c' & -> & Hd). exists c'. split; [reflexivity|]. eapply rdrains_step; eassumption.
  Qed.
  Lemma rraw_rdrains cur p t cur' :
    rdrains (urd_read fuel) cur p t cur' -> forall s, cur = RRaw s ->
    exists s', cur' = RRaw s' /\ rdrains rsrc_read s p t s'.
  Proof.
    induction 1 as [cap cur c e cur1 Hr Hne|cap cur c cur1 bs e cur2 Hr _ IH]; intros s ->; cbn in Hr;
      destruct (rsrc_read cap s) as [x s1] eqn:Hn; inv Hr.
    - exists s1. split; [reflexivity|]. eapply rdrains_end; eassumption.
    - destruct (IH _ eq_refl) as (s' & -> & Hd). exists s'. split; [reflexivity|]. eapply rdrains_step; eassumption.
  Qed.
  Lemma rbb_rdrains cur p t cur' :
    rdrains (urd_read fuel) cur p t cur' -> forall d, cur = RBb d ->
    exists d', cur' = RBb d' /\ rdrains bb_read d p t d'.
  Proof.
    induction 1 as [cap cur c e cur1 Hr Hne|cap cur c cur1 bs e cur2 Hr _ IH]; intros d ->; cbn in Hr;
      destruct (bb_read cap d) as [x d1] eqn:Hn; inv Hr.
    - exists d1. split; [reflexivity|]. eapply rdrains_end; eassumption.
    - destruct (IH _ eq_refl) as (d' & -> & Hd). exists d'. split; [reflexivity|]. eapply rdrains_step; eassumption.
  Qed.
  Lemma rerr_rdrains u p t cur' :
    rdrains (urd_read fuel) u p t cur' -> forall x, (u = RErr x \/ exists s, u = RFail x s) -> p = [] /\ t = x.
  Proof.
    induction 1 as [cap u c e u1 Hr Hne|cap u c u1 bs e u2 Hr _ IH]; intros x Hu.
    - destruct Hu as [->|(s & ->)]; cbn in Hr; inv Hr; auto.
    - destruct Hu as [->|(s & ->)]; cbn in Hr; inv Hr.
      + destruct (IH _ (or_introl eq_refl)) as (-> & ->). auto.
      + destruct (IH _ (or_intror (ex_intro _ s eq_refl))) as (-> & ->). auto.
  Qed.

  Theorem rpiece_exact b k p t cur' :
    rdrains (urd_read fuel) (urd_open fuel b k) p t cur' -> t <> EFuel -> wf_buf b ->
    piece_of b k = (p, t).
  Proof.
    intros Hd Hnf Hwf. destruct b as [evs|evs a|d|x].
    - cbn [urd_open] in Hd. destruct (rcb_rdrains _ _ _ _ Hd _ eq_refl) as (c' & _ & Hdc).
      destruct (cb_rdrains _ _ _ _ _ _ _ Hdc Hnf) as (bs & Hdo & ->). cbn [cb_u cb_last app] in *.
      eapply offset_chunk_exact; eassumption.
    - cbn [urd_open] in Hd. unfold discard_from_reader in Hd.
      destruct (Z.of_N k <? 0)%Z eqn:Hneg; [apply Z.ltb_lt in Hneg; lia|]. rewrite N2Z.id in Hd.
      destruct (copy_n_loop rsrc_read fuel k (mkRsrc evs a 0)) as [e s] eqn:Hc.
      assert (Hw0 : wfR (mkRsrc evs a 0)) by (unfold wfR; cbn; intros ->; exact Hwf).
      assert (Hfail : e <> ENone -> rdrains (urd_read fuel) (RFail e (rsrc_close s)) p t cur' ->
                      piece_of (BReader evs a) k = (p, t)).
      { intros Hne Hd'. destruct (rerr_rdrains _ _ _ _ Hd' e (or_intror (ex_intro _ _ eq_refl))) as (-> & ->).
        pose proof (copy_n_exact _ _ _ _ _ Hc Hw0 Hnf) as Hx. unfold rcont in Hx. cbn [r_rest] in Hx.
        unfold piece_of, ucontent. destruct (content evs) as [c0 t0]. cbn [fst snd] in Hx.
        destruct e; try congruence; destruct Hx as (Hlt & ->); apply N.leb_gt in Hlt; rewrite Hlt; reflexivity. }
      destruct e; try (apply Hfail; [congruence|exact Hd]).
      destruct (rraw_rdrains _ _ _ _ Hd _ eq_refl) as (s' & _ & Hdr).
      pose proof (copy_n_exact _ _ _ _ _ Hc Hw0 ltac:(congruence)) as (Hle & Hw & Hcont).
      pose proof (rdrains_rcont _ _ _ _ Hdr) as Hx. rewrite Hcont in Hx. unfold rcont in Hx, Hle. cbn [r_rest] in Hx, Hle.
      unfold piece_of, ucontent. destruct (content evs) as [c0 t0]. cbn [fst snd] in *.
      apply N.leb_le in Hle. rewrite Hle. exact Hx.
    - cbn [urd_open] in Hd. unfold piece_of, ucontent. destruct (k <=? lenN d) eqn:E.
      + destruct (rbb_rdrains _ _ _ _ Hd _ eq_refl) as (d' & _ & Hdb).
        destruct (bb_rdrains _ _ _ _ Hdb) as (-> & ->). reflexivity.
      + destruct (rerr_rdrains _ _ _ _ Hd _ (or_introl eq_refl)) as (-> & ->). reflexivity.
    - cbn [urd_open] in Hd. destruct (rerr_rdrains _ _ _ _ Hd _ (or_introl eq_refl)) as (-> & ->).
      unfold piece_of, ucontent. cbn. destruct (k <=? 0) eqn:E; [|reflexivity].
      apply N.leb_le in E. assert (k = 0) by lia. subst. reflexivity.
  Qed.

  Theorem rstitched_is_stitch : forall cur k ans out e offs,
    rstitched fuel cur k ans out e offs ->
    forall b, cur = urd_open fuel b k -> wf_buf b -> Forall wf_ans ans ->
    ~ In EFuel offs -> stitch b k ans = (out, e, offs).
  Proof.
    induction 1 as [cur k ans p cur' Hd|cur k ans p t cur' c Hd Hne Ho|cur k b1 rest p t cur' p2 e offs Hd Hne _ IH];
      intros b -> Hwf Hall Hnf.
    - destruct ans; cbn [stitch]; rewrite (rpiece_exact _ _ _ _ _ Hd ltac:(congruence) Hwf); reflexivity.
    - assert (Ht : t <> EFuel) by (intros ->; apply Hnf; left; reflexivity).
      pose proof (rdrains_not_none _ _ _ _ _ _ Hd) as Hnn.
      unfold on_error in Ho. cbn in Ho.
      destruct ans as [|[b'|c'] rest]; cbn [stitch]; rewrite (rpiece_exact _ _ _ _ _ Hd Ht Hwf);
        cbn in Ho; try discriminate; inv Ho; destruct t; try congruence; reflexivity.
    - assert (Ht : t <> EFuel) by (intros ->; apply Hnf; left; reflexivity).
      pose proof (rdrains_not_none _ _ _ _ _ _ Hd) as Hnn.
      inversion Hall as [|a l Hb1 Hrest]; subst.
      cbn [stitch]. rewrite (rpiece_exact _ _ _ _ _ Hd Ht Hwf).
      rewrite (IH _ eq_refl Hb1 Hrest ltac:(intros Hin; apply Hnf; right; exact Hin)).
      destruct t; try congruence; reflexivity.
  Qed.
End ExactReaderPieces.

(** The stream of the error-handling reader ([ToReader]) in closed form. *)
Theorem ehr_stream_is_stitch fuel b h out e r' :
  rdrains (ehr_read fuel) (ehr_init fuel b h) out e r' ->
  wf_buf b -> Forall wf_ans (h_answers h) ->
  ~ In (HOnError EFuel) (h_log (er_h r')) ->
  exists offered, stitch b 0 (h_answers h) = (out, e, offered) /\
                  h_log (er_h r') = h_log h ++ map HOnError offered.
Proof.
  intros Hd Hwf Hall Hlog.
  destruct (ehr_stitched _ _ _ _ _ Hd) as (offs & Hs & Hl & _). cbn [ehr_init er_cur er_off er_h] in *.
  exists offs. split; [|exact Hl].
  eapply rstitched_is_stitch; [exact Hs|reflexivity|exact Hwf|exact Hall|].
  intros Hin. apply Hlog. rewrite Hl. apply in_or_app. right. apply in_map. exact Hin.
Qed.
