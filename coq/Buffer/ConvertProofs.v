(** C09 — streams of the decorators (offset, normalizing) in terms of the
    stream they wrap, the stream of a scripted source, and the buffer-level
    theorems for NewCASBufferFromChunkReader and NewCASBufferFromByteSlice. *)
From Coq Require Import List ZArith NArith Bool Lia.
From BBS Require Import Buffer.Source Buffer.Validate Buffer.Convert Buffer.StreamProofs Buffer.ValidateProofs.
Import ListNotations.
Open Scope N_scope.

(** * The scripted chunk source delivers its [content]. *)
Lemma csrc_drains evs k :
  exists s', drains csrc_read (mkCsrc evs k) (fst (content evs)) (snd (content evs)) s'.
Proof.
  induction evs as [|[bs|c|] r IH]; cbn [content].
  - cbn. eexists. eapply drains_end; [reflexivity|congruence].
  - destruct IH as (s' & IH). destruct (content r) as [c e]. cbn [fst snd] in *.
    exists s'. eapply drains_step; [reflexivity|exact IH].
  - cbn. eexists. eapply drains_end; [reflexivity|congruence].
  - cbn. eexists. eapply drains_end; [reflexivity|congruence].
Qed.

Section Decorators.
  Variable S : Type.
  Variable rd : S -> (bytes * err) * S.
  Variable cl : S -> S.

  (** discardFromChunkReader *)
  Lemma discard_pulls fuel : forall off s prefix s',
    discard_from_chunk_reader rd fuel off s = ((prefix, ENone), s') ->
    exists bs, pulls rd s bs s' /\ prefix = dropN off bs /\ off <= lenN bs.
  Proof.
    induction fuel as [|f IH]; intros off s prefix s' Hd; cbn [discard_from_chunk_reader] in Hd;
      destruct (off =? 0) eqn:E0.
    - apply N.eqb_eq in E0. subst. inv Hd. exists []. split; [constructor|]. split; [reflexivity|]. rewrite lenN_nil. lia.
    - discriminate.
    - apply N.eqb_eq in E0. subst. inv Hd. exists []. split; [constructor|]. split; [reflexivity|]. rewrite lenN_nil. lia.
    - apply N.eqb_neq in E0. destruct (rd s) as [[c e] s1] eqn:Hr.
      destruct e; try discriminate.
      destruct (off <? lenN c) eqn:Hlt.
      + apply N.ltb_lt in Hlt. inv Hd. exists (c ++ []). split; [econstructor; [eassumption|constructor]|].
        rewrite app_nil_r. split; [reflexivity|lia].
      + apply N.ltb_ge in Hlt. destruct (IH _ _ _ _ Hd) as (bs & Hp & -> & Hle).
        exists (c ++ bs). split; [econstructor; eassumption|].
        rewrite dropN_app_ge by assumption. split; [reflexivity|]. rewrite lenN_app. lia.
  Qed.

  (** offset reader whose prefix has been handed out: the wrapped stream *)
  Lemma offset_drains_plain o out e o' :
    drains (offset_read rd) o out e o' -> o_prefix o = [] -> o_fixed o = ENone ->
    drains rd (o_u o) out e (o_u o').
  Proof.
    induction 1 as [o c e o1 Hr Hne|o c o1 bs e o2 Hr _ IH]; intros Hp Hf;
      unfold offset_read in Hr; rewrite Hf, Hp in Hr; cbn [is_nil] in Hr;
      destruct (rd (o_u o)) as [r u'] eqn:Hrd; inv Hr.
    - eapply drains_end; eassumption.
    - eapply drains_step; [eassumption|]. apply IH; reflexivity.
  Qed.

  Lemma offset_drains u prefix out e o' :
    drains (offset_read rd) (mkOst u prefix ENone) out e o' ->
    exists bs, out = prefix ++ bs /\ drains rd u bs e (o_u o').
  Proof.
    intros Hd. destruct prefix as [|x p].
    - exists out. split; [reflexivity|]. exact (offset_drains_plain _ _ _ _ Hd eq_refl eq_refl).
    - inversion Hd; subst; unfold offset_read in H; cbn in H; inv H.
      + congruence.
      + exists bs. split; [reflexivity|]. exact (offset_drains_plain _ _ _ _ H0 eq_refl eq_refl).
  Qed.

  (** one read of the normalizing reader *)
  Lemma norm_read_spec max fuel : forall n c e n',
    norm_read rd fuel max n = ((c, e), n') ->
    match e with
    | ENone => exists bs, pulls rd (n_u n) bs (n_u n') /\ n_last n ++ bs = c ++ n_last n'
    | EFuel => True
    | _ => n_last n = [] /\ c = [] /\ n_last n' = [] /\ drains rd (n_u n) [] e (n_u n')
    end.
  Proof.
    induction fuel as [|f IH]; intros n c e n' Hn; cbn [norm_read] in Hn.
    - destruct (is_nil (n_last n)) eqn:En; cbn [negb] in Hn.
      + inv Hn. exact I.
      + destruct (max <? lenN (n_last n)); inv Hn; exists []; cbn; (split; [constructor|]).
        * now rewrite app_nil_r, takeN_dropN.
        * reflexivity.
    - destruct (is_nil (n_last n)) eqn:En; cbn [negb] in Hn.
      + apply is_nil_true in En.
        destruct (rd (n_u n)) as [[c0 e0] u'] eqn:Hr.
        destruct e0.
        * apply IH in Hn. cbn [n_u n_last] in Hn. destruct e; auto.
          -- destruct Hn as (bs & Hp & Hb). exists (c0 ++ bs). split; [econstructor; eassumption|].
             rewrite En. cbn. exact Hb.
          -- destruct Hn as (Hc0 & -> & Hl & Hd). cbn in Hc0. subst c0. rsplit; auto.
             change (@nil N) with ([] ++ @nil N). eapply drains_step; eassumption.
          -- destruct Hn as (Hc0 & -> & Hl & Hd). cbn in Hc0. subst c0. rsplit; auto.
             change (@nil N) with ([] ++ @nil N). eapply drains_step; eassumption.
          -- destruct Hn as (Hc0 & -> & Hl & Hd). cbn in Hc0. subst c0. rsplit; auto.
             change (@nil N) with ([] ++ @nil N). eapply drains_step; eassumption.
        * inv Hn. cbn. rsplit; auto. eapply drains_end; [eassumption|congruence].
        * inv Hn. cbn. rsplit; auto. eapply drains_end; [eassumption|congruence].
        * inv Hn. cbn. rsplit; auto. eapply drains_end; [eassumption|congruence].
        * inv Hn. exact I.
      + destruct (max <? lenN (n_last n)); inv Hn; exists []; cbn; (split; [constructor|]).
        * now rewrite app_nil_r, takeN_dropN.
        * reflexivity.
  Qed.

  Lemma norm_drains max fuel n out e n' :
    drains (norm_read rd fuel max) n out e n' -> e <> EFuel ->
    exists bs, n_last n ++ bs = out /\ drains rd (n_u n) bs e (n_u n').
  Proof.
    induction 1 as [n c e n1 Hr Hne|n c n1 bs e n2 Hr _ IH]; intros Hf.
    - apply norm_read_spec in Hr. destruct e; try congruence;
        destruct Hr as (-> & -> & _ & Hd); exists []; auto.
    - apply norm_read_spec in Hr. destruct Hr as (bs0 & Hp & Hb).
      destruct (IH Hf) as (bs1 & <- & Hd).
      exists (bs0 ++ bs1). split; [rewrite !app_assoc, Hb; reflexivity|].
      eapply pulls_drains; eassumption.
  Qed.
End Decorators.

Section Decorators2.
  Variable S : Type.
  Variable rd : S -> (bytes * err) * S.

  (** discardFromChunkReader fails with the stream's own error, before [off] *)
  Lemma discard_fails fuel : forall off s c e s',
    discard_from_chunk_reader rd fuel off s = ((c, e), s') -> e <> ENone -> e <> EFuel ->
    exists bs, drains rd s bs e s' /\ lenN bs < off.
  Proof.
    induction fuel as [|f IH]; intros off s c e s' Hd Hne Hnf; cbn [discard_from_chunk_reader] in Hd;
      destruct (off =? 0) eqn:E0; try (inv Hd; congruence).
    apply N.eqb_neq in E0. destruct (rd s) as [[c0 e0] s1] eqn:Hr.
    destruct e0; try (inv Hd; exists []; split; [eapply drains_end; [eassumption|congruence]|rewrite lenN_nil; lia]).
    destruct (off <? lenN c0) eqn:Hlt; [inv Hd; congruence|]. apply N.ltb_ge in Hlt.
    destruct (IH _ _ _ _ _ Hd Hne Hnf) as (bs & Hds & Hl).
    exists (c0 ++ bs). split; [eapply drains_step; eassumption|]. rewrite lenN_app. lia.
  Qed.

  Lemma offset_fixed_drains o bs e o' :
    drains (offset_read rd) o bs e o' -> o_fixed o <> ENone -> e = o_fixed o /\ bs = [].
  Proof.
    intros Hd Hf. inversion Hd; subst; unfold offset_read in H; destruct (o_fixed o); try congruence; inv H; auto.
  Qed.
End Decorators2.

(** * Specification-level vocabulary *)
Definition completed (m : meth) (e : err) : bool :=
  match m with
  | MReadAt _ _ => is_none e || err_eqb e EEof
  | MToChunkReader _ _ _ | MToReader _ _ => err_eqb e EEof
  | _ => is_none e
  end.
Definition expected_slice (m : meth) (c : bytes) : bytes :=
  match m with
  | MReadAt plen off => takeN plen (dropN (Z.to_N off) c)
  | MToChunkReader off _ _ => dropN (Z.to_N off) c
  | MDiscard => []
  | _ => c
  end.

Section BufferTheorems.
  Variable H : bytes -> bytes.
  Variable cfg : vcfg.
  Variable fuel : nat.

  (** the script's content ends with io.EOF and has the digest's size and hash *)
  Definition valid_script (evs : list ev) : Prop :=
    snd (content evs) = EEof /\ lenN (fst (content evs)) = g_size cfg /\ g_hash cfg = H (fst (content evs)).

  Lemma valid_stream_script evs k :
    valid_stream H cfg csrc_read (mkCsrc evs k) <-> valid_script evs.
  Proof.
    destruct (csrc_drains evs k) as (s' & Hd). split.
    - intros (bs & s2 & Hd2 & Hl & Hh).
      destruct (drains_det _ _ _ _ _ _ _ _ _ Hd Hd2) as (E1 & E2 & _).
      unfold valid_script. rewrite E1, E2. auto.
    - intros (He & Hl & Hh). rewrite He in Hd. exists (fst (content evs)), s'. auto.
  Qed.

  Lemma cv_complete evs out st' :
    drains (cv_read H cfg fuel) (cv_init cfg evs) out EEof st' ->
    valid_script evs /\ out = fst (content evs).
  Proof.
    intros Hd. destruct (vcr_complete_implies_valid _ _ _ _ _ _ _ _ Hd) as ((u & Hdu) & Hl & Hh).
    destruct (csrc_drains evs 0) as (s' & Hds).
    destruct (drains_det _ _ _ _ _ _ _ _ _ Hds Hdu) as (E1 & E2 & _).
    unfold valid_script. rewrite E1, E2. auto.
  Qed.

  Lemma chunk_to_byte_slice evs max r st :
    to_byte_slice_cr (cv_read H cfg fuel) cv_close fuel (g_size cfg) max (cv_init cfg evs) = (r, st) ->
    snd r = ENone -> valid_script evs /\ fst r = fst (content evs).
  Proof.
    unfold to_byte_slice_cr. destruct (max <? g_size cfg); [intros Hr; inv Hr; discriminate|].
    destruct (drain _ fuel [] _) as [[out e] s'] eqn:Hd. intros Hr He. inv Hr.
    destruct e; cbn [fst snd] in *; try discriminate.
    - exfalso. destruct (drain_drains _ _ _ _ _ _ _ _ Hd) as (bs & _ & Hds); [congruence|].
      exact (drains_not_none _ _ _ _ _ _ Hds eq_refl).
    - destruct (drain_drains _ _ _ _ _ _ _ _ Hd) as (bs & -> & Hds); [congruence|].
      exact (cv_complete _ _ _ Hds).
  Qed.

  Theorem chunk_reader_complete_implies_valid_partial evs m o :
    match m with MToByteSlice _ | MIntoWriter | MCloneCopy _ | MToChunkReader _ _ _ => True | _ => False end ->
    cas_chunk_reader H cfg fuel evs m = o -> completed m (o_err o) = true ->
    valid_script evs /\ o_data o = expected_slice m (fst (content evs)).
  Proof.
    intros Hm Ho Hc. destruct m; try contradiction; cbn [cas_chunk_reader] in Ho; cbn [completed expected_slice] in *.
    - (* ToByteSlice *)
      destruct (to_byte_slice_cr _ _ _ _ _ _) as [[out e] st] eqn:Ht. subst o. cbn in Hc.
      destruct e; try discriminate. exact (chunk_to_byte_slice _ _ _ _ Ht eq_refl).
    - (* IntoWriter *)
      unfold into_writer_cr in Ho. destruct (drain _ fuel [] _) as [[out e] s'] eqn:Hd. subst o. cbn in Hc.
      destruct e; try discriminate; cbn.
      + exfalso. destruct (drain_drains _ _ _ _ _ _ _ _ Hd) as (bs & _ & Hds); [congruence|].
        exact (drains_not_none _ _ _ _ _ _ Hds eq_refl).
      + destruct (drain_drains _ _ _ _ _ _ _ _ Hd) as (bs & -> & Hds); [congruence|].
        exact (cv_complete _ _ _ Hds).
    - (* ToChunkReader *)
      destruct (valid_offset (g_size cfg) off) eqn:Hv; [|subst o; discriminate].
      unfold valid_offset in Hv. apply andb_true_iff in Hv. destruct Hv as [Hv0 Hv1].
      apply Z.leb_le in Hv0. apply N.leb_le in Hv1.
      destruct (drain _ fuel [] _) as [[out e] n] eqn:Hd.
      destruct (extra_reads _ extra n) as [ex n2]. subst o. cbn in Hc. cbn [o_data cv_out].
      destruct e; try discriminate.
      destruct (drain_drains _ _ _ _ _ _ _ _ Hd) as (bs & -> & Hds); [congruence|]. cbn [app].
      apply norm_drains in Hds; [|congruence]. destruct Hds as (bs1 & E & Hdo). cbn in E, Hdo. subst bs1.
      unfold offset_init in Hdo. destruct (off <? 0)%Z eqn:Hneg; [apply Z.ltb_lt in Hneg; lia|].
      destruct (discard_from_chunk_reader _ fuel (Z.to_N off) _) as [[prefix e] s'] eqn:Hdis.
      assert (Hbad : e <> ENone -> False).
      { intros Hne.
        assert (Hdo' : drains (offset_read (cv_read H cfg fuel)) (mkOst (cv_close s') [] e) bs EEof (n_u n))
          by (destruct e; try congruence; exact Hdo).
        destruct (offset_fixed_drains _ _ _ _ _ _ Hdo') as (Ee & _); [exact Hne|]. cbn in Ee. subst e.
        destruct (discard_fails _ _ _ _ _ _ _ _ Hdis) as (bs0 & Hd0 & Hl0); try congruence.
        destruct (cv_complete _ _ _ Hd0) as ((_ & Hl & _) & ->). lia. }
      destruct e; try (exfalso; apply Hbad; congruence).
      destruct (discard_pulls _ _ _ _ _ _ _ Hdis) as (bs0 & Hp0 & -> & Hle).
      destruct (offset_drains _ _ _ _ _ _ _ Hdo) as (bs2 & -> & Hd2).
      pose proof (pulls_drains _ _ _ _ _ _ _ _ Hp0 Hd2) as Hall.
      destruct (cv_complete _ _ _ Hall) as (Hval & <-). split; [exact Hval|].
      now rewrite dropN_app.
    - (* CloneCopy *)
      destruct (to_byte_slice_cr _ _ _ _ _ _) as [r st] eqn:Ht. subst o.
      unfold clone_copy_of in Hc |- *. destruct (snd r) eqn:Hs; cbn in Hc; try discriminate. cbn.
      exact (chunk_to_byte_slice _ _ _ _ Ht Hs).
  Qed.
End BufferTheorems.

(** * NewCASBufferFromByteSlice *)
Lemma bs_read_drains max d out e d' :
  drains (bs_read max) d out e d' -> out = d /\ e = EEof.
Proof.
  induction 1 as [d c e d1 Hr Hne|d c d1 bs e d2 Hr _ IH]; unfold bs_read in Hr.
  - destruct (is_nil d) eqn:En; [apply is_nil_true in En; inv Hr; auto|].
    destruct (lenN d <=? max); inv Hr; congruence.
  - destruct (is_nil d) eqn:En; [inv Hr|].
    destruct IH as (-> & ->). destruct (lenN d <=? max); inv Hr.
    + now rewrite app_nil_r.
    + now rewrite takeN_dropN.
Qed.

Lemma bb_rconsume fuel : forall caps lastcap out d out' e d',
  rconsume bb_read fuel caps lastcap out d = ((out', e), d') -> e <> EFuel -> out' = out ++ d.
Proof.
  induction fuel as [|f IH]; intros caps lastcap out d out' e d' Hr Hne; cbn [rconsume] in Hr.
  - inv Hr. congruence.
  - unfold bb_read in Hr at 1. destruct (is_nil d) eqn:En.
    + apply is_nil_true in En. subst d.
      destruct (hd lastcap caps =? 0).
      * apply IH in Hr; [|assumption]. now rewrite app_nil_r in Hr.
      * inv Hr. reflexivity.
    + apply IH in Hr; [|assumption]. now rewrite Hr, <- app_assoc, takeN_dropN.
Qed.

Section ByteSliceTheorems.
  Variable H : bytes -> bytes.
  Variable cfg : vcfg.
  Variable fuel : nat.

  Lemma error_buffer_never_completes c cbs closed m :
    m <> MDiscard -> completed m (o_err (error_buffer (ECode c) cbs closed m)) = false.
  Proof. destruct m; cbn; congruence. Qed.

  Lemma byte_slice_buffer_expected data cbs closed m :
    completed m (o_err (byte_slice_buffer fuel data cbs closed m)) = true ->
    o_data (byte_slice_buffer fuel data cbs closed m) = expected_slice m data.
  Proof.
    destruct m; cbn [byte_slice_buffer expected_slice completed].
    - destruct (max <? lenN data); cbn; [discriminate|reflexivity].
    - reflexivity.
    - destruct (off <? 0)%Z; [cbn; discriminate|].
      destruct (lenN data <? Z.to_N off) eqn:E.
      + apply N.ltb_lt in E. cbn. intros _. rewrite dropN_all by lia. destruct plen; reflexivity.
      + destruct (lenN _ <? plen); reflexivity.
    - destruct (valid_offset (lenN data) off); [|cbn; discriminate].
      destruct (drain _ fuel [] _) as [[out e] s] eqn:Hd. destruct (extra_reads _ extra s) as [ex s2].
      cbn. destruct e; try discriminate. intros _.
      destruct (drain_drains _ _ _ _ _ _ _ _ Hd) as (bs & -> & Hds); [congruence|].
      now destruct (bs_read_drains _ _ _ _ _ Hds) as (-> & _).
    - destruct (rconsume _ fuel caps _ [] data) as [[out e] s] eqn:Hr. destruct (rextra _ extra _ s) as [ex s2].
      cbn. destruct e; try discriminate. intros _.
      apply bb_rconsume in Hr; [exact Hr|congruence].
    - destruct (max <? lenN data); cbn; [discriminate|reflexivity].
    - reflexivity.
  Qed.

  Theorem byte_slice_complete_implies_valid data m :
    m <> MDiscard ->
    completed m (o_err (cas_byte_slice H cfg fuel data m)) = true ->
    lenN data = g_size cfg /\ g_hash cfg = H data /\
    o_data (cas_byte_slice H cfg fuel data m) = expected_slice m data.
  Proof.
    intros Hm. unfold cas_byte_slice.
    destruct (g_size cfg =? lenN data) eqn:Es; cbn [negb].
    - destruct (bytes_eqb (g_hash cfg) (H data)) eqn:Eh; cbn [negb].
      + intros Hc. apply N.eqb_eq in Es. apply bytes_eqb_eq in Eh. rsplit; auto.
        exact (byte_slice_buffer_expected _ _ _ _ Hc).
      + rewrite error_buffer_never_completes by assumption. discriminate.
    - rewrite error_buffer_never_completes by assumption. discriminate.
  Qed.

  (** eager validation: the callback verdict is the validity of the slice *)
  Theorem byte_slice_callback data m :
    o_cbs (cas_byte_slice H cfg fuel data m) =
      [(g_size cfg =? lenN data) && bytes_eqb (g_hash cfg) (H data)].
  Proof.
    unfold cas_byte_slice.
    destruct (g_size cfg =? lenN data); cbn [negb andb];
      [destruct (bytes_eqb (g_hash cfg) (H data)); cbn [negb]|].
    - unfold byte_slice_buffer. destruct m; cbn;
        repeat match goal with |- context [if ?c then _ else _] => destruct c; cbn end;
        repeat match goal with |- context [let '(_, _) := ?c in _] => destruct c as [[? ?] ?]; cbn end;
        try reflexivity.
      all: repeat match goal with |- context [let '(_, _) := ?c in _] => destruct c; cbn end; reflexivity.
    - destruct m; reflexivity.
    - destruct m; reflexivity.
  Qed.
End ByteSliceTheorems.
