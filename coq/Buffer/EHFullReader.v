(** C16 — the [ToReader] path: [errorHandlingReader] stitches the streams of
    the unvalidated io.Readers of its underlying buffers, each opened at the
    number of bytes delivered so far (data that arrives together with an I/O
    error counts as delivered); every I/O error is offered to the handler once,
    in order; the validating reader above completes only on the stitched
    stream; no duplicated and no skipped range. *)
From Coq Require Import List ZArith NArith Bool Lia.
From BBS Require Import Buffer.Source Buffer.Validate Buffer.Convert Buffer.ErrHandler
  Buffer.StreamProofs Buffer.ValidateProofs Buffer.ValidateReaderProofs Buffer.ReaderBufferProofs
  Buffer.ErrHandlerProofs Buffer.EHFullCarry.
Import ListNotations.
Open Scope N_scope.

Section ReaderStreamLemmas.
  Variable S : Type.
  Variable rd : N -> S -> (bytes * err) * S.
  Lemma rpulls_rdrains s a s' b e s'' : rpulls rd s a s' -> rdrains rd s' b e s'' -> rdrains rd s (a ++ b) e s''.
  Proof.
    induction 1; intros Hd; [exact Hd|]. rewrite <- app_assoc. eapply rdrains_step; eauto.
  Qed.
  Lemma rpulls_one cap s c s' : rd cap s = ((c, ENone), s') -> rpulls rd s c s'.
  Proof. intros Hr. rewrite <- (app_nil_r c). eapply rpulls_step; [eassumption|constructor]. Qed.

  (** io.ReadFull that reports io.EOF: nothing was read, the reader said EOF *)
  Lemma read_full_eof : forall f want got s res s',
    read_full_loop rd f want got s = ((res, EEof), s') -> res = [] /\ got = [] /\ rdrains rd s [] EEof s'.
  Proof.
    induction f as [|f IH]; intros want got s res s' Hr; cbn [read_full_loop] in Hr;
      destruct (want <=? lenN got); try (inv Hr; fail).
    destruct (rd (want - lenN got) s) as [[c e0] s1] eqn:Hrd.
    destruct e0.
    - destruct (IH _ _ _ _ _ Hr) as (-> & Hg & Hd). apply app_eq_nil in Hg. destruct Hg as (-> & ->).
      rsplit; auto. change (@nil N) with (@nil N ++ []). eapply rdrains_step; eassumption.
    - destruct (want <=? lenN (got ++ c)); [inv Hr|].
      destruct (is_nil (got ++ c)) eqn:En; inv Hr. apply is_nil_true in En.
      apply app_eq_nil in En. destruct En as (-> & ->). rsplit; auto.
      eapply rdrains_end; [eassumption|congruence].
    - destruct (want <=? lenN (got ++ c)); inv Hr.
    - destruct (want <=? lenN (got ++ c)); inv Hr.
    - destruct (want <=? lenN (got ++ c)); inv Hr.
  Qed.
  (** ... nil: it has what it wanted; io.ErrUnexpectedEOF: it has something *)
  Lemma read_full_none : forall f want got s res s',
    read_full_loop rd f want got s = ((res, ENone), s') -> want <= lenN res.
  Proof.
    induction f as [|f IH]; intros want got s res s' Hr; cbn [read_full_loop] in Hr;
      destruct (want <=? lenN got) eqn:Ew; try (inv Hr; apply N.leb_le in Ew; assumption); try (inv Hr; fail).
    destruct (rd (want - lenN got) s) as [[c e0] s1] eqn:Hrd.
    destruct e0; try (eapply IH; eassumption);
      destruct (want <=? lenN (got ++ c)) eqn:Ew2; try (inv Hr; apply N.leb_le in Ew2; assumption);
      try (inv Hr; fail).
    destruct (is_nil (got ++ c)); inv Hr.
  Qed.
  (** [P]: an invariant of the reader states under which no read says io.ErrUnexpectedEOF *)
  Variable P : S -> Prop.
  Hypothesis rd_P : forall cap s c e s', P s -> rd cap s = ((c, e), s') -> e <> EUnexp /\ (e = ENone -> P s').
  Lemma read_full_unexp : forall f want got s res s',
    read_full_loop rd f want got s = ((res, EUnexp), s') -> P s -> res <> [].
  Proof.
    induction f as [|f IH]; intros want got s res s' Hr Hp; cbn [read_full_loop] in Hr;
      destruct (want <=? lenN got) eqn:Ew; try (inv Hr; fail).
    destruct (rd (want - lenN got) s) as [[c e0] s1] eqn:Hrd.
    destruct (rd_P _ _ _ _ _ Hp Hrd) as (Hnu & Hn).
    destruct e0; try (eapply IH; [eassumption|auto]);
      destruct (want <=? lenN (got ++ c)) eqn:Ew2; try (inv Hr; fail).
    - destruct (is_nil (got ++ c)) eqn:En; inv Hr. intros E. rewrite E in En. discriminate.
    - inv Hr. congruence.
  Qed.
End ReaderStreamLemmas.

(** * casValidatingReader over ANY io.Reader that never says ErrUnexpectedEOF:
    the validated stream completes only on what the reader underneath
    delivered up to ITS io.EOF, which has the digest's size and hash. *)
Section VrUnder.
  Variable H : bytes -> bytes.
  Variable cfg : vcfg.
  Variable S : Type.
  Variable rd : N -> S -> (bytes * err) * S.
  Variable fuel : nat.
  Variable P : S -> Prop.
  Hypothesis rd_P : forall cap s c e s', P s -> rd cap s = ((c, e), s') -> e <> EUnexp /\ (e = ENone -> P s').
  Notation vrd := (vr_read H cfg rd fuel).

  Definition UInv (st : vst S) (out : bytes) : Prop :=
    v_err st = ENone /\ v_acc st = out /\ v_rem st + lenN out = g_size cfg /\ P (v_u st).

  Lemma vr_compare_code (st : vst S) e st' :
    vr_compare H cfg st = (e, st') -> e = ENone \/ e = ECode (g_code cfg).
  Proof. unfold vr_compare, v_fail. destruct (bytes_eqb _ _); intros X; inv X; auto. Qed.
  Lemma vr_compare_ok (st : vst S) st' : vr_compare H cfg st = (ENone, st') -> g_hash cfg = H (v_acc st).
  Proof.
    unfold vr_compare. destruct (bytes_eqb (g_hash cfg) (H (v_acc st))) eqn:E; [|unfold v_fail; intros X; inv X].
    intros _. now apply bytes_eqb_eq.
  Qed.

  Lemma vr_read_under cap st out d e st' :
    vrd cap st = ((d, e), st') -> UInv st out ->
    (e = ENone -> rpulls rd (v_u st) d (v_u st') /\ UInv st' (out ++ d)) /\
    (e = EEof -> rdrains rd (v_u st) d EEof (v_u st') /\
                 lenN (out ++ d) = g_size cfg /\ g_hash cfg = H (out ++ d)).
  Proof.
    intros Hr (Herr & Hacc & Hrem & Hp). unfold vr_read in Hr. rewrite Herr in Hr.
    destruct (vr_do_read H cfg rd fuel cap st) as [[d0 e0] st0] eqn:Hdo. inv Hr.
    unfold vr_do_read in Hdo. destruct (rd cap (v_u st)) as [[data re] u'] eqn:Hrd.
    destruct (rd_P _ _ _ _ _ Hp Hrd) as (_ & Hp').
    cbn [v_set_u v_rem v_u v_acc v_err v_cbs] in Hdo.
    destruct (v_rem st <? lenN data) eqn:Hlt; [unfold v_fail in Hdo; inv Hdo; split; intros; congruence|].
    apply N.ltb_ge in Hlt.
    destruct re; cbn [v_rem v_u v_acc v_err v_cbs] in Hdo.
    - destruct (v_rem st - lenN data =? 0) eqn:Hz.
      + apply N.eqb_eq in Hz.
        destruct (read_full rd fuel 1 u') as [[fin fe] u''] eqn:Hf. cbn [v_set_u v_rem v_u v_acc v_err v_cbs] in Hdo.
        assert (Hfin : (fe = ENone \/ fe = EEof \/ fe = EUnexp) ->
          (if v_rem st - lenN data <? lenN fin
           then let '(e', st'0) := v_fail cfg (mkVst u'' (v_rem st - lenN data) (v_acc st ++ data) (v_err st) (v_cbs st)) in
                (([], e'), st'0)
           else let '(e', st'0) := vr_compare H cfg (mkVst u'' (v_rem st - lenN data) (v_acc st ++ data) (v_err st) (v_cbs st)) in
                match e' with
                | ENone => ((data, EEof), v_notify st'0 true)
                | _ => (([], e'), st'0)
                end) = ((d, e), st0) ->
          (e = ENone -> rpulls rd (v_u st) d (v_u (v_set_err st0 e)) /\ UInv (v_set_err st0 e) (v_acc st ++ d)) /\
          (e = EEof -> rdrains rd (v_u st) d EEof (v_u (v_set_err st0 e)) /\
                       lenN (v_acc st ++ d) = g_size cfg /\ g_hash cfg = H (v_acc st ++ d))).
        { intros Hfe. destruct (v_rem st - lenN data <? lenN fin) eqn:Hlt2;
            [unfold v_fail; intros Hx; inv Hx; split; intros; congruence|].
          apply N.ltb_ge in Hlt2. assert (Hnil : fin = []) by (apply lenN_zero; lia).
          destruct (vr_compare H cfg _) as [e' st1] eqn:Hcmp.
          destruct (vr_compare_code _ _ _ Hcmp) as [-> | ->]; [|intros Hx; inv Hx; split; intros; congruence].
          intros Hx.
          pose proof (vr_compare_ok _ _ Hcmp) as Hh. cbn [v_acc] in Hh.
          assert (Hst1 : v_u st1 = u'').
          { unfold vr_compare in Hcmp. destruct (bytes_eqb _ _); inv Hcmp. reflexivity. }
          inv Hx. split; [intros; congruence|]. intros _. cbn [v_set_err v_notify v_u]. try rewrite Hst1.
          unfold read_full in Hf. split.
          - destruct Hfe as [-> | [-> | ->]].
            + apply read_full_none in Hf. rewrite lenN_nil in Hf. lia.
            + destruct (read_full_eof _ _ _ _ _ _ _ _ Hf) as (_ & _ & Hd).
              rewrite <- (app_nil_r d). eapply rdrains_step; eassumption.
            + exfalso. exact (read_full_unexp _ _ _ rd_P _ _ _ _ _ _ Hf (Hp' eq_refl) eq_refl).
          - rewrite lenN_app. split; [lia|exact Hh]. }
        destruct fe; try (apply Hfin; [tauto|exact Hdo]); inv Hdo; split; intros; congruence.
      + apply N.eqb_neq in Hz. inv Hdo. split; [|intros; congruence]. intros _.
        cbn [v_set_err v_u]. split; [eapply rpulls_one; eassumption|].
        unfold UInv. cbn. rewrite lenN_app. rsplit; auto. lia.
    - destruct (negb (v_rem st - lenN data =? 0)) eqn:Hz; [unfold v_fail in Hdo; inv Hdo; split; intros; congruence|].
      apply negb_false_iff, N.eqb_eq in Hz. revert Hdo.
      destruct (vr_compare H cfg _) as [e' st1] eqn:Hcmp.
      destruct (vr_compare_code _ _ _ Hcmp) as [-> | ->]; [|intros Hdo; inv Hdo; split; intros; congruence].
      intros Hdo.
      pose proof (vr_compare_ok _ _ Hcmp) as Hh. cbn [v_acc] in Hh.
      assert (Hst1 : v_u st1 = u').
      { unfold vr_compare in Hcmp. destruct (bytes_eqb _ _); inv Hcmp. reflexivity. }
      inv Hdo. split; [intros; congruence|]. intros _. cbn [v_set_err v_notify v_u]. try rewrite Hst1.
      split; [eapply rdrains_end; [eassumption|congruence]|]. rewrite lenN_app. split; [lia|exact Hh].
    - inv Hdo. split; intros; congruence.
    - inv Hdo. split; intros; congruence.
    - inv Hdo. split; intros; congruence.
  Qed.

  Theorem vr_complete_under st out bs st' :
    rdrains vrd st bs EEof st' -> UInv st out ->
    rdrains rd (v_u st) bs EEof (v_u st') /\ lenN (out ++ bs) = g_size cfg /\ g_hash cfg = H (out ++ bs).
  Proof.
    intros Hd. remember EEof as e eqn:He. revert out.
    induction Hd as [cap st c e st1 Hr Hne|cap st c st1 bs e st2 Hr _ IH]; intros out Hi; subst e.
    - exact (proj2 (vr_read_under _ _ _ _ _ _ Hr Hi) eq_refl).
    - destruct (proj1 (vr_read_under _ _ _ _ _ _ Hr Hi) eq_refl) as (Hp & Hi').
      destruct (IH eq_refl _ Hi') as (Hd' & Hl & Hh). rewrite <- app_assoc in Hl, Hh.
      split; [eapply rpulls_rdrains; eassumption|auto].
  Qed.

  Corollary vr_complete_under_init u0 bs st' :
    P u0 -> rdrains vrd (vinit cfg u0) bs EEof st' ->
    rdrains rd u0 bs EEof (v_u st') /\ lenN bs = g_size cfg /\ g_hash cfg = H bs.
  Proof.
    intros Hp Hd. apply (vr_complete_under _ [] _ _ Hd). unfold UInv. cbn. rsplit; auto. unfold lenN. cbn. lia.
  Qed.
End VrUnder.

(** * The stitched stream of errorHandlingReader *)
Section RStitch.
  Variable fuel : nat.
  Notation urdr := (urd_read fuel).

  (** [rstitched cur k answers out e offered]: from the current underlying
      io.Reader [cur], with [k] bytes delivered so far, the consumer receives
      [out] and then [e] (whatever buffer sizes it reads with); [offered] are
      the errors passed to OnError.  A piece [p] includes the data that came
      together with the error that ended it. *)
  Inductive rstitched : urd -> N -> list answer -> bytes -> err -> list err -> Prop :=
  | rs_eof cur k ans p cur' :
      rdrains urdr cur p EEof cur' -> rstitched cur k ans p EEof []
  | rs_fail cur k ans p t cur' c :
      rdrains urdr cur p t cur' -> t <> EEof ->
      fst (on_error (mkHst ans []) t) = Fail c -> rstitched cur k ans p (ECode c) [t]
  | rs_replace cur k b rest p t cur' p2 e offs :
      rdrains urdr cur p t cur' -> t <> EEof ->
      rstitched (urd_open fuel b (k + lenN p)) (k + lenN p) rest p2 e offs ->
      rstitched cur k (Replace b :: rest) (p ++ p2) e (t :: offs).

  Lemma rstitched_cons cap cur c cur' k ans out e offs :
    urdr cap cur = ((c, ENone), cur') -> rstitched cur' (k + lenN c) ans out e offs ->
    rstitched cur k ans (c ++ out) e offs.
  Proof.
    intros Hr Hs. inversion Hs; subst.
    - eapply rs_eof. eapply rdrains_step; eassumption.
    - eapply rs_fail; [eapply rdrains_step; eassumption|assumption|assumption].
    - rewrite app_assoc. eapply rs_replace; [eapply rdrains_step; eassumption|assumption|].
      rewrite lenN_app, N.add_assoc. assumption.
  Qed.

  (** The stitching theorem of the ToReader path. *)
  Theorem ehr_stitched r out e r' :
    rdrains (ehr_read fuel) r out e r' ->
    exists offs,
      rstitched (er_cur r) (er_off r) (h_answers (er_h r)) out e offs /\
      h_log (er_h r') = h_log (er_h r) ++ map HOnError offs /\
      er_off r' = er_off r + lenN out.
  Proof.
    induction 1 as [cap r c e r1 Hr Hne|cap r c r1 bs e r2 Hr _ IH]; unfold ehr_read in Hr;
      destruct (urd_read fuel cap (er_cur r)) as [[data t] cur'] eqn:Hu.
    - assert (Hother : t <> ENone -> t <> EEof ->
        (let '(a, h') := on_error (er_h r) t in
         match a with
         | Fail c0 => ((data, ECode c0), mkEhr cur' (er_off r + lenN data) h')
         | Replace b => ((data, ENone), mkEhr (urd_open fuel b (er_off r + lenN data)) (er_off r + lenN data) h')
         end) = ((c, e), r1) ->
        exists offs, rstitched (er_cur r) (er_off r) (h_answers (er_h r)) c e offs /\
                     h_log (er_h r1) = h_log (er_h r) ++ map HOnError offs /\ er_off r1 = er_off r + lenN c).
      { intros Hn He Hx. pose proof (on_error_log (er_h r) t) as Hl. pose proof (on_error_answer (er_h r) t) as Ha.
        destruct (on_error (er_h r) t) as [a h'] eqn:Ho. cbn [fst snd] in *. destruct a as [b|c0]; inv Hx; [congruence|].
        exists [t]. split; [|cbn; auto].
        eapply rs_fail; [eapply rdrains_end; eassumption|assumption|symmetry; exact Ha]. }
      destruct t; try (apply Hother; [congruence|congruence|exact Hr]).
      + inv Hr. congruence.
      + inv Hr. exists []. cbn. rewrite app_nil_r. split; [|auto].
        eapply rs_eof. eapply rdrains_end; [eassumption|congruence].
    - destruct IH as (offs & Hs & Hl & Ho).
      assert (Hother : t <> ENone -> t <> EEof ->
        (let '(a, h') := on_error (er_h r) t in
         match a with
         | Fail c0 => ((data, ECode c0), mkEhr cur' (er_off r + lenN data) h')
         | Replace b => ((data, ENone), mkEhr (urd_open fuel b (er_off r + lenN data)) (er_off r + lenN data) h')
         end) = ((c, ENone), r1) ->
        exists offs0, rstitched (er_cur r) (er_off r) (h_answers (er_h r)) (c ++ bs) e offs0 /\
                      h_log (er_h r2) = h_log (er_h r) ++ map HOnError offs0 /\
                      er_off r2 = er_off r + lenN (c ++ bs)).
      { intros Hn He Hx. pose proof (on_error_log (er_h r) t) as Hlg.
        destruct (on_error (er_h r) t) as [a h'] eqn:Hoe. cbn [snd] in Hlg. destruct a as [b|c0]; inv Hx.
        cbn [er_cur er_off er_h] in *. exists (t :: offs). rewrite (on_error_replace _ _ _ _ Hoe). split.
        - eapply rs_replace; [eapply rdrains_end; eassumption|assumption|exact Hs].
        - rewrite Hl, Hlg, Ho, lenN_app. cbn [map]. rewrite <- app_assoc. split; [reflexivity|lia]. }
      destruct t; try (apply Hother; [congruence|congruence|exact Hr]).
      + inv Hr. cbn [er_cur er_off er_h] in *. exists offs. split; [eapply rstitched_cons; eassumption|].
        rewrite Hl, Ho, lenN_app. split; [reflexivity|lia].
      + inv Hr.
  Qed.

  Lemma rpiece_spec_full C b k p t cur' :
    carries_full C b -> k <= lenN C ->
    rdrains urdr (urd_open fuel b k) p t cur' ->
    k + lenN p <= lenN C /\ dropN k C = p ++ dropN (k + lenN p) C /\ (t = EEof -> p = dropN k C).
  Proof.
    intros Hc Hk Hd.
    destruct (rlaw_rdrains _ _ _ (urd_rlaw fuel) _ _ _ _ Hd _ (urd_open_carries fuel _ _ _ Hc Hk)) as (C' & E & He).
    destruct (piece_arith _ _ _ _ Hk E) as (A & B & X). auto.
  Qed.

  Theorem rstitched_no_dup_no_skip C : forall cur k ans out e offs,
    rstitched cur k ans out e offs -> e = EEof ->
    forall b, cur = urd_open fuel b k -> carries_full C b -> Forall (ans_carries C) ans ->
    k <= lenN C -> out = dropN k C.
  Proof.
    induction 1 as [cur k ans p cur' Hd|cur k ans p t cur' c Hd Hne Ho|cur k b1 rest p t cur' p2 e offs Hd Hne _ IH];
      intros He b -> Hc Hall Hk.
    - destruct (rpiece_spec_full _ _ _ _ _ _ Hc Hk Hd) as (_ & _ & Hp). auto.
    - discriminate.
    - inversion Hall as [|a l Hb1 Hrest]; subst.
      destruct (rpiece_spec_full _ _ _ _ _ _ Hc Hk Hd) as (Hk' & Hsplit & _).
      rewrite Hsplit. f_equal. eapply IH; eauto.
  Qed.

  Theorem rstitched_prefix C : forall cur k ans out e offs,
    rstitched cur k ans out e offs ->
    forall b, cur = urd_open fuel b k -> carries_full C b -> Forall (ans_carries C) ans ->
    k <= lenN C -> exists rest, dropN k C = out ++ rest.
  Proof.
    induction 1 as [cur k ans p cur' Hd|cur k ans p t cur' c Hd Hne Ho|cur k b1 rest p t cur' p2 e offs Hd Hne _ IH];
      intros b -> Hc Hall Hk.
    - destruct (rpiece_spec_full _ _ _ _ _ _ Hc Hk Hd) as (_ & Hs & _). eauto.
    - destruct (rpiece_spec_full _ _ _ _ _ _ Hc Hk Hd) as (_ & Hs & _). eauto.
    - inversion Hall as [|a l Hb1 Hrest]; subst.
      destruct (rpiece_spec_full _ _ _ _ _ _ Hc Hk Hd) as (Hk' & Hsplit & _).
      destruct (IH _ eq_refl Hb1 Hrest Hk') as (r & Hr). exists r. rewrite Hsplit, Hr, app_assoc. reflexivity.
  Qed.

  Lemma rstitched_result cur k ans out e offs :
    rstitched cur k ans out e offs ->
    e = EEof \/
    exists c pre t, e = ECode c /\ offs = pre ++ [t] /\
                    fst (on_error (mkHst (skipn (length pre) ans) []) t) = Fail c.
  Proof.
    induction 1 as [cur k ans p cur' Hd|cur k ans p t cur' c Hd Hne Ho|cur k b1 rest p t cur' p2 e offs Hd Hne _ IH].
    - left. reflexivity.
    - right. exists c, [], t. auto.
    - destruct IH as [->|(c & pre & t' & -> & -> & Ho)]; [left; reflexivity|].
      right. exists c, (t :: pre), t'. auto.
  Qed.
End RStitch.

(** the unvalidated readers never say io.ErrUnexpectedEOF themselves *)
Lemma csrc_no_unexp s c e s' : csrc_read s = ((c, e), s') -> e <> EUnexp.
Proof. unfold csrc_read. destruct (c_rest s) as [|[bs|x|] r]; intros Hr; inv Hr; congruence. Qed.
