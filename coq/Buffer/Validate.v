(** C09 — casValidatingChunkReader and casValidatingReader as state machines
    over an arbitrary underlying reader (state type [S], read function [rd]).
    The running hash is the list of bytes written to the hasher so far;
    [hasher.Sum] is [H] of that list.  Definitions only. *)
From Coq Require Import List ZArith NArith Bool.
From BBS Require Import Buffer.Source.
Import ListNotations.
Open Scope N_scope.

(** What the validators know of the digest and the Source. *)
Record vcfg := mkVcfg {
  g_hash : bytes;      (* digest.GetHashBytes() *)
  g_size : N;          (* digest.GetSizeBytes() *)
  g_code : Z           (* source.errorCode: 3 UserProvided, 13 BackendProvided *)
}.

Section Validators.
  Variable H : bytes -> bytes.
  Variable cfg : vcfg.

  (** * casValidatingChunkReader *)
  Section ChunkReader.
    Variable S : Type.
    Variable rd : S -> (bytes * err) * S.

    Record vst := mkVst {
      v_u : S;                (* embedded ChunkReader *)
      v_rem : N;              (* bytesRemaining *)
      v_acc : bytes;          (* bytes written to the hasher *)
      v_err : err;            (* sticky r.err *)
      v_cbs : list bool       (* DataIntegrityCallback invocations, oldest first *)
    }.
    Definition vinit (u : S) : vst := mkVst u (g_size cfg) [] ENone [].

    Definition v_set_u (st : vst) (u : S) := mkVst u (v_rem st) (v_acc st) (v_err st) (v_cbs st).
    Definition v_set_err (st : vst) (e : err) := mkVst (v_u st) (v_rem st) (v_acc st) e (v_cbs st).
    Definition v_notify (st : vst) (b : bool) := mkVst (v_u st) (v_rem st) (v_acc st) (v_err st) (v_cbs st ++ [b]).
    (** notifyCASTooBig / notifyCASSizeMismatch / notifyCASHashMismatch *)
    Definition v_fail (st : vst) : err * vst := (ECode (g_code cfg), v_notify st false).

    (** the loop and the checksum comparison of maybeFinalize (bytesRemaining = 0) *)
    Fixpoint finalize_loop (fuel : nat) (st : vst) : err * vst :=
      match fuel with
      | O => (EFuel, st)
      | Datatypes.S f =>
          let '((chunk, e), u') := rd (v_u st) in
          let st := v_set_u st u' in
          match e with
          | EEof =>
              if bytes_eqb (g_hash cfg) (H (v_acc st)) then (EEof, v_notify st true)
              else v_fail st
          | ENone =>
              if v_rem st <? lenN chunk then v_fail st else finalize_loop f st
          | _ => (e, st)
          end
      end.
    Definition maybe_finalize (fuel : nat) (st : vst) : err * vst :=
      if 0 <? v_rem st then (ENone, st) else finalize_loop fuel st.

    Definition vcr_do_read (fuel : nat) (st : vst) : (bytes * err) * vst :=
      let '(e0, st) := maybe_finalize fuel st in
      match e0 with
      | ENone =>
          let '((chunk, e), u') := rd (v_u st) in
          let st := v_set_u st u' in
          match e with
          | EEof => let '(e', st') := v_fail st in (([], e'), st')     (* premature EOF *)
          | ENone =>
              if v_rem st <? lenN chunk then let '(e', st') := v_fail st in (([], e'), st')
              else ((chunk, ENone),
                    mkVst (v_u st) (v_rem st - lenN chunk) (v_acc st ++ chunk) (v_err st) (v_cbs st))
          | _ => (([], e), st)
          end
      | _ => (([], e0), st)
      end.

    Definition vcr_read (fuel : nat) (st : vst) : (bytes * err) * vst :=
      match v_err st with
      | ENone =>
          let '((chunk, e), st) := vcr_do_read fuel st in
          match e with
          | ENone =>
              let '(e2, st) := maybe_finalize fuel st in
              let st := v_set_err st e2 in
              match e2 with
              | ENone | EEof => ((chunk, ENone), st)
              | _ => (([], e2), st)
              end
          | _ => (([], e), v_set_err st e)
          end
      | e => (([], e), st)
      end.
  End ChunkReader.
  Arguments mkVst {S}. Arguments v_u {S}. Arguments v_rem {S}. Arguments v_acc {S}.
  Arguments v_err {S}. Arguments v_cbs {S}. Arguments vinit {S}. Arguments v_set_u {S}.
  Arguments v_set_err {S}. Arguments v_notify {S}. Arguments v_fail {S}.
  Arguments finalize_loop {S}. Arguments maybe_finalize {S}. Arguments vcr_do_read {S}.
  Arguments vcr_read {S}.

  (** * casValidatingReader *)
  Section Reader.
    Variable S : Type.
    Variable rd : N -> S -> (bytes * err) * S.

    Definition vr_compare (st : vst S) : err * vst S :=
      if bytes_eqb (g_hash cfg) (H (v_acc st)) then (ENone, st) else v_fail st.

    Definition vr_do_read (fuel : nat) (cap : N) (st : vst S) : (bytes * err) * vst S :=
      let '((data, re), u') := rd cap (v_u st) in
      let st := v_set_u st u' in
      if v_rem st <? lenN data then let '(e', st') := v_fail st in (([], e'), st') else
      let st := mkVst (v_u st) (v_rem st - lenN data) (v_acc st ++ data) (v_err st) (v_cbs st) in
      match re with
      | EEof =>
          if negb (v_rem st =? 0) then let '(e', st') := v_fail st in (([], e'), st') else
          let '(e', st') := vr_compare st in
          match e' with
          | ENone => ((data, EEof), v_notify st' true)
          | _ => (([], e'), st')
          end
      | ENone =>
          if v_rem st =? 0 then
            (* No more data expected: io.ReadFull(r, p[:1]) must observe EOF. *)
            let '((fin, fe), u'') := read_full rd fuel 1 (v_u st) in
            let st := v_set_u st u'' in
            match fe with
            | ENone | EEof | EUnexp =>
                if v_rem st <? lenN fin then let '(e', st') := v_fail st in (([], e'), st') else
                let '(e', st') := vr_compare st in
                match e' with
                | ENone => ((data, EEof), v_notify st' true)
                | _ => (([], e'), st')
                end
            | _ => (([], fe), st)
            end
          else ((data, ENone), st)
      | _ => (([], re), st)
      end.

    Definition vr_read (fuel : nat) (cap : N) (st : vst S) : (bytes * err) * vst S :=
      match v_err st with
      | ENone => let '((data, e), st) := vr_do_read fuel cap st in ((data, e), v_set_err st e)
      | e => (([], e), st)
      end.
  End Reader.
End Validators.
Arguments mkVst {S}. Arguments v_u {S}. Arguments v_rem {S}. Arguments v_acc {S}.
Arguments v_err {S}. Arguments v_cbs {S}. Arguments vinit cfg {S}. Arguments v_set_u {S}.
Arguments v_set_err {S}. Arguments v_notify {S}. Arguments v_fail cfg {S}.
Arguments finalize_loop H cfg {S}. Arguments maybe_finalize H cfg {S}. Arguments vcr_do_read H cfg {S}.
Arguments vcr_read H cfg {S}. Arguments vr_compare H cfg {S}. Arguments vr_do_read H cfg {S}.
Arguments vr_read H cfg {S}.
