(** C16 — completed streaming runs of a stack in closed form, at the level of
    the model's outcome ([run_stack]): if IntoWriter / ToChunkReader / ToReader
    completes, the stitched stream [st] of the level-wise specification
    [stitch_stack (piece_of b0 0) anss] ends with io.EOF, has the digest's size
    and hash, the consumer holds exactly the expected slice of it, and every
    handler has been offered exactly the errors the specification lists —
    what the monitor's clauses 3 and 4 demand of an implementation run. *)
From Coq Require Import List ZArith NArith Bool Lia.
From BBS Require Import Common.Sx Buffer.Source Buffer.Validate Buffer.Convert Buffer.ErrHandler
  Buffer.StreamProofs Buffer.ValidateProofs Buffer.ValidateReaderProofs Buffer.ConvertProofs
  Buffer.ReaderBufferProofs Buffer.ConvertProofs2 Buffer.ErrHandlerProofs Buffer.C09FullExtras
  Buffer.EHFullCarry Buffer.EHFullReader Buffer.EHFullMethods Buffer.EHFullStack Buffer.EHFullExact
  Buffer.EHFullPrefix Buffer.EHFullStackExact Buffer.EHFullStacking Run.R09 Run.R16.
Import ListNotations.
Open Scope N_scope.

(** * casValidatingChunkReader: a completed stream is the stream underneath,
    and the reader underneath is left where its io.EOF left it *)
Section VcrUnder.
  Variable H : bytes -> bytes.
  Variable cfg : vcfg.
  Variable S : Type.
  Variable rd : S -> (bytes * err) * S.
  Variable fuel : nat.
  Notation vrd := (vcr_read H cfg rd fuel).

  Lemma finalize_loop_under : forall f (st : vst S) st',
    finalize_loop H cfg rd f st = (EEof, st') -> v_rem st = 0 ->
    drains rd (v_u st) [] EEof (v_u st') /\ v_err st' = v_err st.
  Proof.
    induction f as [|f IH]; intros st st' Hf Hrem; cbn [finalize_loop] in Hf; [inv Hf|].
    destruct (rd (v_u st)) as [[chunk e0] u'] eqn:Hr.
    destruct e0; cbn [v_set_u v_rem v_u v_acc v_err v_cbs] in Hf.
    - destruct (v_rem st <? lenN chunk) eqn:Hlt; [unfold v_fail in Hf; inv Hf|].
      apply N.ltb_ge in Hlt. assert (chunk = []) by (apply lenN_zero; lia). subst chunk.
      destruct (IH _ _ Hf ltac:(cbn; exact Hrem)) as (Hd & He). cbn in Hd, He. split; [|exact He].
      change (@nil N) with (@nil N ++ []). eapply drains_step; eassumption.
    - destruct (bytes_eqb _ _); [|unfold v_fail in Hf; inv Hf]. inv Hf. cbn. split; [|reflexivity].
      eapply drains_end; [eassumption|congruence].
    - inv Hf.
    - inv Hf.
    - inv Hf.
  Qed.

  Lemma maybe_finalize_under (st : vst S) e st' :
    maybe_finalize H cfg rd fuel st = (e, st') ->
    (e = ENone -> st' = st) /\ (e = EEof -> drains rd (v_u st) [] EEof (v_u st') /\ v_err st' = v_err st).
  Proof.
    unfold maybe_finalize. intros Hm. destruct (0 <? v_rem st) eqn:Hpos.
    - inv Hm. split; [reflexivity|congruence].
    - apply N.ltb_ge in Hpos. split.
      + intros ->. exfalso. clear -Hm. revert st st' Hm. induction fuel as [|f IH]; intros st st' Hm; cbn [finalize_loop] in Hm; [inv Hm|].
        destruct (rd (v_u st)) as [[chunk e0] u']. destruct e0; cbn [v_set_u v_rem] in Hm; try (inv Hm; fail).
        * destruct (v_rem st <? lenN chunk); [unfold v_fail in Hm; inv Hm|]. eapply IH; eassumption.
        * destruct (bytes_eqb _ _); [inv Hm|unfold v_fail in Hm; inv Hm].
      + intros ->. apply finalize_loop_under in Hm; [exact Hm|lia].
  Qed.

  (** one read of a validator that has not finished *)
  Lemma vcr_read_under (st : vst S) c e st' :
    vrd st = ((c, e), st') -> v_err st = ENone ->
    (e = ENone -> (pulls rd (v_u st) c (v_u st') /\ v_err st' = ENone) \/
                  (drains rd (v_u st) c EEof (v_u st') /\ v_err st' = EEof)) /\
    (e = EEof -> c = [] /\ drains rd (v_u st) [] EEof (v_u st') /\ v_err st' = EEof).
  Proof.
    intros Hr Herr. unfold vcr_read in Hr. rewrite Herr in Hr.
    destruct (vcr_do_read H cfg rd fuel st) as [[chunk e1] st1] eqn:Hd. unfold vcr_do_read in Hd.
    destruct (maybe_finalize H cfg rd fuel st) as [e0 st0] eqn:Hm.
    destruct (maybe_finalize_under _ _ _ Hm) as (Hsame & Heof).
    destruct e0.
    - rewrite (Hsame eq_refl) in *. clear Hsame Heof Hm st0.
      destruct (rd (v_u st)) as [[ch e2] u'] eqn:Hrd. cbn [v_set_u v_rem v_u v_acc v_err v_cbs] in Hd.
      destruct e2.
      + destruct (v_rem st <? lenN ch); [unfold v_fail in Hd; inv Hd; inv Hr; split; intros; congruence|].
        inv Hd. destruct (maybe_finalize H cfg rd fuel _) as [e3 st3] eqn:Hm2.
        destruct (maybe_finalize_under _ _ _ Hm2) as (Hsame2 & Heof2). cbn [v_u v_err] in *.
        destruct e3; inv Hr; try (split; intros; congruence).
        * rewrite (Hsame2 eq_refl). cbn. split; [|congruence]. intros _. left. split; [|reflexivity].
          match goal with |- pulls _ _ ?x _ => rewrite <- (app_nil_r x) end. eapply pulls_step; [eassumption|constructor].
        * cbn. split; [|congruence]. intros _. right. destruct (Heof2 eq_refl) as (Hdr & _). split; [|reflexivity].
          match goal with |- drains _ _ ?x _ _ => rewrite <- (app_nil_r x) end. eapply drains_step; eassumption.
      + unfold v_fail in Hd. inv Hd. inv Hr. split; intros; congruence.
      + inv Hd. inv Hr. split; intros; congruence.
      + inv Hd. inv Hr. split; intros; congruence.
      + inv Hd. inv Hr. split; intros; congruence.
    - inv Hd. inv Hr. split; [congruence|]. intros _. destruct (Heof eq_refl) as (Hdr & _). cbn. auto.
    - inv Hd. inv Hr. split; intros; congruence.
    - inv Hd. inv Hr. split; intros; congruence.
    - inv Hd. inv Hr. split; intros; congruence.
  Qed.

  Theorem vcr_complete_under st out st' :
    drains vrd st out EEof st' ->
    (v_err st = ENone -> drains rd (v_u st) out EEof (v_u st')) /\
    (v_err st = EEof -> out = [] /\ v_u st' = v_u st).
  Proof.
    intros Hd. remember EEof as e eqn:He.
    induction Hd as [st c e st1 Hr Hne|st c st1 bs e st2 Hr _ IH]; subst e.
    - split.
      + intros Herr. destruct (proj2 (vcr_read_under _ _ _ _ Hr Herr) eq_refl) as (_ & Hd & _). exact Hd.
      + intros Herr. unfold vcr_read in Hr. rewrite Herr in Hr. inv Hr. auto.
    - destruct (IH eq_refl) as (IH1 & IH2). split.
      + intros Herr. destruct (proj1 (vcr_read_under _ _ _ _ Hr Herr) eq_refl) as [(Hp & He1)|(Hdr & He1)].
        * eapply pulls_drains; [exact Hp|exact (IH1 He1)].
        * destruct (IH2 He1) as (-> & Hu). rewrite app_nil_r, Hu. exact Hdr.
      + intros Herr. unfold vcr_read in Hr. rewrite Herr in Hr. inv Hr.
  Qed.
End VcrUnder.

Definition oell (log : list hev) : list err :=
  flat_map (fun x => match x with HOnError e => [e] | HDone => [] end) log.
Lemma map_oell_logs hs : map oell (map h_log hs) = map oel hs.
Proof. rewrite map_map. reflexivity. Qed.

Lemma oews_sch_closed r : map oell (logs_of (sc_w (sch_close r))) = oews (sc_w r).
Proof.
  unfold sch_close, logs_of, oews, lv, retire, all_done. cbn [sc_w w_dn w_act]. rewrite app_nil_r, map_oell_logs.
  rewrite !map_app, map_oel_done. reflexivity.
Qed.
Lemma oews_shr_closed r : map oell (logs_of (sr_w (shr_close r))) = oews (sr_w r).
Proof.
  unfold shr_close, logs_of, oews, lv, retire, all_done. cbn [sr_w w_dn w_act]. rewrite app_nil_r, map_oell_logs.
  rewrite !map_app, map_oel_done. reflexivity.
Qed.

Lemma offset_drains_fixed {S} (rd : S -> (bytes * err) * S) o out e o' :
  drains (offset_read rd) o out e o' -> o_fixed o = ENone -> o_fixed o' = ENone.
Proof.
  induction 1 as [o c e o1 Hr Hne|o c o1 bs e o2 Hr _ IH]; intros Hf; unfold offset_read in Hr; rewrite Hf in Hr.
  - destruct (is_nil (o_prefix o)); [destruct (rd (o_u o)) as [x u']|]; inv Hr; reflexivity.
  - apply IH. destruct (is_nil (o_prefix o)); [destruct (rd (o_u o)) as [x u']|]; inv Hr; reflexivity.
Qed.

Section CompletedStreams.
  Variable H : bytes -> bytes.
  Variable cfg : vcfg.
  Variable fuel : nat.

  Definition no_fuel_offered (logs : list (list hev)) : Prop := Forall (fun l => ~ In EFuel (oell l)) logs.

  Lemma no_fuel_lv logs hs : map oell logs = map oel hs -> no_fuel_offered logs -> Forall (fun h => ~ In EFuel (oel h)) hs.
  Proof.
    intros E Hn. unfold no_fuel_offered in Hn.
    assert (Hm : Forall (fun l => ~ In EFuel l) (map oell logs)) by (rewrite Forall_map; exact Hn).
    rewrite E, Forall_map in Hm. exact Hm.
  Qed.

  Definition spec_of (b : bufscript) (scripts : list (list answer)) :=
    let '(p, t) := piece_of b 0 in stitch_stack p t scripts.

  Theorem ehs_completed_streaming b w m :
    EHFullPrefix.streaming m ->
    completed m (y_err (ehs_method H cfg fuel b w m)) = true ->
    wf_buf b -> hs_wf (w_act w) -> w_act w <> [] ->
    no_fuel_offered (y_logs (ehs_method H cfg fuel b w m)) ->
    exists st offss,
      spec_of b (map h_answers (w_act w)) = (st, EEof, offss) /\
      lenN st = g_size cfg /\ g_hash cfg = H st /\
      y_data (ehs_method H cfg fuel b w m) = expected_slice m st /\
      map oell (y_logs (ehs_method H cfg fuel b w m)) = map oel (w_dn w) ++ zipo (map oel (w_act w)) offss.
  Proof.
    intros Hm. destruct m; try contradiction; cbn [ehs_method].
    - (* IntoWriter *)
      unfold into_writer_cr. destruct (drain _ fuel [] _) as [[out e] st1] eqn:Hd.
      cbn [y_err y_data y_logs expected_slice]. intros Hcomp Hwf Hw Hnn Hnf.
      assert (He : e = EEof).
      { destruct e; try discriminate; [|reflexivity]. exfalso.
        destruct (drain_drains _ _ _ _ _ _ _ _ Hd) as (bs & _ & Hds); [congruence|].
        exact (drains_not_none _ _ _ _ _ _ Hds eq_refl). }
      subst e. destruct (drain_drains _ _ _ _ _ _ _ _ Hd) as (bs & -> & Hds); [congruence|]. cbn [app].
      unfold shv_read in Hds.
      destruct (vcr_complete_implies_valid _ _ _ _ _ _ _ _ Hds) as (_ & Hl & Hh).
      pose proof (proj1 (vcr_complete_under _ _ _ _ _ _ _ _ Hds) eq_refl) as Hu. cbn [vinit v_u] in Hu.
      cbn [shv_close v_set_u v_u] in *. rewrite oews_sch_closed in *.
      pose proof (no_fuel_lv _ _ (oews_sch_closed (v_u st1)) Hnf) as Hnf'.
      destruct (stack_chunk_stream_is_stitch_stack _ _ _ _ _ _ _ _ Hu Hwf Hw Hnn ltac:(congruence) Hnf') as (offss & Hss & Ho & _).
      exists bs, offss. unfold spec_of. rsplit; auto.
    - (* ToChunkReader *)
      destruct (valid_offset (g_size cfg) off) eqn:Hv; [|cbn; discriminate].
      destruct (drain _ fuel [] _) as [[out e] o1] eqn:Hd.
      destruct (extra_reads _ extra o1) as [ex o2] eqn:Hex.
      cbn [y_err y_data y_logs expected_slice completed]. intros Hcomp Hwf Hw Hnn Hnf.
      destruct e; try discriminate.
      destruct (drain_drains _ _ _ _ _ _ _ _ Hd) as (bs & -> & Hds); [congruence|]. cbn [app].
      (* further reads leave the state alone *)
      assert (Hst : sticky _ (offset_read (shv_read H cfg fuel max))).
      { intros s c e s' Hr Hne Hnf0. eapply offset_read_sticky; [|exact Hr|exact Hne|exact Hnf0].
        intros s0 c0 e0 s0' Hr0 Hne0 _. unfold shv_read in *. exact (proj2 (vcr_sticky _ _ _ _ _ _ _ _ _ Hr0 Hne0)). }
      rewrite (drain_then_extra _ _ _ _ _ _ _ _ extra Hst Hd ltac:(congruence)) in Hex. inv Hex.
      unfold valid_offset in Hv. apply andb_true_iff in Hv. destruct Hv as (Hpos & Hsz).
      apply Z.leb_le in Hpos. apply N.leb_le in Hsz.
      (* the offset reader *)
      unfold offset_init in Hds. destruct (off <? 0)%Z eqn:Hneg; [apply Z.ltb_lt in Hneg; lia|].
      destruct (discard_from_chunk_reader (shv_read H cfg fuel max) fuel (Z.to_N off) _) as [[prefix e] s'] eqn:Hdis.
      assert (Hfail : e <> ENone -> drains (offset_read (shv_read H cfg fuel max)) (mkOst (shv_close s') [] e) bs EEof o2 -> False).
      { intros Hne Hdo'. destruct (offset_fixed_drains _ _ _ _ _ _ Hdo') as (Ee & ->); [exact Hne|]. cbn in Ee. subst e.
        destruct (discard_fails _ _ _ _ _ _ _ _ Hdis) as (bs0 & Hd0 & Hl0); try congruence.
        unfold shv_read in Hd0. destruct (vcr_complete_implies_valid _ _ _ _ _ _ _ _ Hd0) as (_ & Hl & _). lia. }
      destruct e; try (exfalso; apply Hfail; [congruence|exact Hds]).
      destruct (discard_pulls _ _ _ _ _ _ _ Hdis) as (bs0 & Hp0 & -> & Hle).
      pose proof (offset_drains_fixed _ _ _ _ _ Hds eq_refl) as Hfx.
      destruct (offset_drains _ _ _ _ _ _ _ Hds) as (bs2 & -> & Hd2).
      pose proof (pulls_drains _ _ _ _ _ _ _ _ Hp0 Hd2) as Hall. unfold shv_read in Hall.
      destruct (vcr_complete_implies_valid _ _ _ _ _ _ _ _ Hall) as (_ & Hl & Hh).
      pose proof (proj1 (vcr_complete_under _ _ _ _ _ _ _ _ Hall) eq_refl) as Hu. cbn [vinit v_u] in Hu.
      unfold offset_close in *. rewrite Hfx in *. cbn [o_u shv_close v_set_u v_u] in *. rewrite oews_sch_closed in *.
      pose proof (no_fuel_lv _ _ (oews_sch_closed (v_u (o_u o2))) Hnf) as Hnf'.
      destruct (stack_chunk_stream_is_stitch_stack _ _ _ _ _ _ _ _ Hu Hwf Hw Hnn ltac:(congruence) Hnf') as (offss & Hss & Ho & _).
      exists (bs0 ++ bs2), offss. unfold spec_of. rsplit; auto. now rewrite dropN_app.
    - (* ToReader *)
      destruct (rconsume _ fuel caps _ [] _) as [[out e] st1] eqn:Hr.
      destruct (rextra _ extra _ st1) as [ex st2] eqn:Hex.
      cbn [y_err y_data y_logs expected_slice completed]. intros Hcomp Hwf Hw Hnn Hnf.
      destruct e; try discriminate.
      destruct (rconsume_rdrains _ _ _ _ _ _ _ _ _ _ Hr) as (bs & -> & Hds); [congruence|]. cbn [app].
      assert (Hst2 : st2 = st1).
      { destruct (rconsume_last _ _ _ _ _ _ _ _ _ _ Hr ltac:(congruence)) as (cap & s1 & c & Hrd & Hne).
        unfold shrv_read in *.
        pose proof (vr_sticky _ _ _ _ _ _ _ _ _ _ Hrd Hne (last_cap caps)) as Hsk.
        pose proof (rextra_nodata _ _ (last_cap caps) extra st1 (ex_intro _ _ Hsk)) as (_ & Hs).
        rewrite Hex in Hs. exact Hs. }
      subst st2. unfold shrv_read in Hds.
      assert (HP : forall cap s c e s', urd_nu (sr_cur s) -> shr_read fuel cap s = ((c, e), s') ->
                     e <> EUnexp /\ (e = ENone -> urd_nu (sr_cur s')))
        by (intros; eapply shr_read_nu; eauto).
      destruct (vr_complete_under_init H cfg _ (shr_read fuel) fuel (fun s => urd_nu (sr_cur s)) HP (shr_init fuel b w) _ _
                  (urd_open_nu fuel b 0) Hds) as (Hu & Hl & Hh).
      cbn [v_set_u v_u] in *. rewrite oews_shr_closed in *.
      pose proof (no_fuel_lv _ _ (oews_shr_closed (v_u st1)) Hnf) as Hnf'.
      destruct (stack_reader_stream_is_stitch_stack _ _ _ _ _ _ Hu Hwf Hw Hnn ltac:(congruence) Hnf') as (offss & Hss & Ho & _).
      exists bs, offss. unfold spec_of. rsplit; auto.
  Qed.
End CompletedStreams.

(** * The whole stack *)
Definition replacements (anss : list (list answer)) : list bufscript :=
  flat_map (fun a => match a with Replace b => [b] | _ => [] end) (concat anss).

Lemma weh_origin : forall n b h r h',
  with_error_handler n b h = (r, h') ->
  let b' := match r with inl x | inr x => x end in
  b' = b \/ In (Replace b') (h_answers h) \/ match b' with BError _ => True | _ => False end.
Proof.
  induction n as [|n IH]; intros b h r h' Hw; destruct b; cbn [with_error_handler] in Hw; try (inv Hw; auto; fail).
  - destruct (on_error h (ECode c)) as [a h1] eqn:Ho. destruct a; inv Hw; cbn; auto.
  - destruct (on_error h (ECode c)) as [a h1] eqn:Ho. destruct a as [b1|c1]; [|inv Hw; cbn; auto].
    rewrite (on_error_replace _ _ _ _ Ho). destruct (IH _ _ _ _ Hw) as [->|[Hin|Hk]]; cbn; auto.
Qed.

Lemma stack_handlers_origin : forall hs b w b' w',
  stack_handlers b w hs = (b', w') ->
  b' = b \/ (exists h, In h hs /\ In (Replace b') (h_answers h)) \/ match b' with BError _ => True | _ => False end.
Proof.
  induction hs as [|h rest IH]; intros b w b' w' Hs; cbn [stack_handlers] in Hs; [inv Hs; auto|].
  destruct (w_act w).
  - destruct (with_error_handler _ b h) as [r h'] eqn:Hw. pose proof (weh_origin _ _ _ _ _ Hw) as Ho.
    assert (Hgen : forall b1 w1, stack_handlers b1 w1 rest = (b', w') ->
              (b1 = b \/ In (Replace b1) (h_answers h) \/ match b1 with BError _ => True | _ => False end) ->
              b' = b \/ (exists hx, In hx (h :: rest) /\ In (Replace b') (h_answers hx)) \/
              match b' with BError _ => True | _ => False end).
    { intros b1 w1 Hs1 Hb1. destruct (IH _ _ _ _ Hs1) as [->|[(hx & Hin & Hr)|Hk]].
      - destruct Hb1 as [->|[Hin|Hk]]; auto. right. left. exists h. split; [left; reflexivity|exact Hin].
      - right. left. exists hx. split; [right; exact Hin|exact Hr].
      - auto. }
    destruct r as [b1|b1]; eapply Hgen; eauto.
  - destruct (IH _ _ _ _ Hs) as [->|[(hx & Hin & Hr)|Hk]]; auto.
    right. left. exists hx. split; [right; exact Hin|exact Hr].
Qed.

Section WholeCompleted.
  Variable H : bytes -> bytes.
  Variable cfg : vcfg.
  Variable fuel : nat.

  Definition valid_bytes (d : bytes) : Prop := lenN d = g_size cfg /\ g_hash cfg = H d.
  (** the byte slices among the buffers of a case hold valid content *)
  Definition bytes_trusted (b0 : bufscript) (anss : list (list answer)) : Prop :=
    forall d, In (BBytes d) (b0 :: replacements anss) -> valid_bytes d.

  Theorem run_stack_completed_streaming b0 anss m :
    streaming m -> anss <> [] ->
    completed m (y_err (run_stack H cfg fuel b0 anss m)) = true ->
    wf_case b0 anss -> no_fuel_offered (y_logs (run_stack H cfg fuel b0 anss m)) ->
    exists st,
      (let '(p0, t0) := piece_of b0 0 in stitch_stack p0 t0 anss)
        = (st, EEof, map oell (y_logs (run_stack H cfg fuel b0 anss m))) /\
      y_data (run_stack H cfg fuel b0 anss m) = expected_slice m st /\
      (bytes_trusted b0 anss -> valid_bytes st).
  Proof.
    intros Hm Hne. unfold run_stack.
    destruct (stack_handlers b0 _ _) as [b w] eqn:Hs. intros Hcomp Hwf Hnf.
    destruct (stacked_spec _ _ _ _ Hs Hwf) as (Hb & Hw & Hspec).
    destruct (w_act w) as [|a act] eqn:Ea.
    - (* a buffer in a known state *)
      cbn [y_err y_data y_logs] in *.
      assert (Hk : match b with BBytes _ | BError _ => True | _ => False end).
      { eapply stack_handlers_known; [exact Hs| |reflexivity|exact Ea]. destruct anss; [congruence|discriminate]. }
      destruct b as [evs|evs a0|d|x]; try contradiction; cbn [plain] in *.
      + exists d. pose proof (piece0_known (BBytes d)) as Hpk. unfold piece0 in Hpk.
        rewrite Hpk in Hspec. cbn [map stitch_stack zipo] in Hspec.
        rewrite app_nil_r in Hspec. rsplit.
        * rewrite Hspec. unfold logs_of. rewrite Ea, map_oell_logs, app_nil_r. reflexivity.
        * apply byte_slice_buffer_expected. exact Hcomp.
        * intros Ht. apply Ht.
          destruct (stack_handlers_origin _ _ _ _ _ Hs) as [->|[(h0 & Hin & Hr)|Hk']]; [left; reflexivity| |contradiction].
          right. unfold replacements. apply in_flat_map. exists (Replace (BBytes d)). split; [|left; reflexivity].
          apply in_concat. apply in_map_iff in Hin. destruct Hin as (a1 & <- & Hin). exists a1. split; [exact Hin|exact Hr].
      + rewrite error_buffer_never_completes in Hcomp by (destruct m; try contradiction; congruence). discriminate.
    - assert (Hnn : w_act w <> []) by (rewrite Ea; discriminate). rewrite <- Ea in *.
      destruct (ehs_completed_streaming H cfg fuel b w m Hm Hcomp Hb Hw Hnn Hnf) as (st & offss & Hss & Hl & Hh & Hd & Hlog).
      exists st. unfold spec_of in Hss. rewrite Hss in Hspec. rsplit.
      + rewrite Hspec, Hlog. reflexivity.
      + exact Hd.
      + intros _. split; assumption.
  Qed.
End WholeCompleted.
