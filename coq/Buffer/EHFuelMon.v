(** C16 (fuel) — the theorems of EHFullCompleted.v / EHFullRuns.v /
    EHFullMonR.v with their out-of-fuel hypotheses ([y_err o <> EFuel],
    [no_fuel_offered (y_logs o)]) discharged: they follow from
    [stack_fuel b0 anss <= fuel] and [good_param m = true] (EHFuelSuffices.v).
    The monitor theorem needs [good_param] of the decoded method only, because
    [run16] runs the model on [stack_fuel] of the decoded case. *)
From Coq Require Import List ZArith NArith Bool Lia.
From BBS Require Import Common.Sx Buffer.Source Buffer.Validate Buffer.Convert Buffer.ErrHandler
  Buffer.StreamProofs Buffer.ValidateProofs Buffer.ConvertProofs Buffer.C09FullMonitor Buffer.C09FuelSuffices
  Buffer.EHFullCarry Buffer.EHFullExact Buffer.EHFullPrefix Buffer.EHFullStackExact Buffer.EHFullStacking
  Buffer.EHFullCompleted Buffer.EHFullPartial Buffer.EHFullTrace Buffer.EHFullRuns Buffer.EHFullRetry
  Buffer.EHFullMon Buffer.EHFullMon3 Buffer.EHFullMonS Buffer.EHFullMonR
  Buffer.EHFuelLaws Buffer.EHFuelSuffices Run.R09 Run.R16.
Import ListNotations.
Open Scope Z_scope.

Lemma clean_logs_no_fuel logs : clean_logs logs -> no_fuel_offered logs.
Proof.
  unfold clean_logs, no_fuel_offered. intros Hc. eapply Forall_impl; [|exact Hc].
  intros l Hl Hin. apply Hl. unfold oell in Hin. apply in_flat_map in Hin.
  destruct Hin as (x & Hx & Hin). destruct x as [e|]; [|contradiction].
  destruct Hin as [->|[]]. exact Hx.
Qed.

(** [stack_fuel] suffices, in the vocabulary of the C16 theorems *)
Theorem run_stack_no_fuel H cfg fuel b0 anss m :
  (stack_fuel b0 anss <= fuel)%nat -> good_param m = true ->
  y_err (run_stack H cfg fuel b0 anss m) <> EFuel /\
  no_fuel_offered (y_logs (run_stack H cfg fuel b0 anss m)).
Proof.
  intros Hf Hg. destruct (stack_fuel_suffices H cfg fuel b0 anss m Hf Hg) as [A B].
  split; [exact A|apply clean_logs_no_fuel; exact B].
Qed.

Theorem out16_no_fuel inp : good_param (q_meth (dec_case16 inp)) = true ->
  y_err (out16 inp) <> EFuel /\ no_fuel_offered (y_logs (out16 inp)).
Proof. intros Hg. unfold out16. cbv zeta. apply run_stack_no_fuel; [apply le_n|exact Hg]. Qed.

Section FuelFree.
  Variable H : bytes -> bytes.
  Variable cfg : vcfg.
  Variable fuel : nat.

  Theorem run_stack_completed_streaming_fuel b0 anss m :
    streaming m -> anss <> [] ->
    completed m (y_err (run_stack H cfg fuel b0 anss m)) = true ->
    wf_case b0 anss -> (stack_fuel b0 anss <= fuel)%nat -> good_param m = true ->
    exists st,
      (let '(p0, t0) := piece_of b0 0 in stitch_stack p0 t0 anss)
        = (st, EEof, map oell (y_logs (run_stack H cfg fuel b0 anss m))) /\
      y_data (run_stack H cfg fuel b0 anss m) = expected_slice m st /\
      (bytes_trusted H cfg b0 anss -> valid_bytes H cfg st).
  Proof.
    intros Hs Hne Hc Hwf Hf Hg. apply run_stack_completed_streaming; try assumption.
    exact (proj2 (run_stack_no_fuel H cfg fuel b0 anss m Hf Hg)).
  Qed.

  Theorem run_stack_streaming_facts_fuel b0 anss m :
    streaming m -> anss <> [] -> bad_param (g_size cfg) m = false ->
    wf_case b0 anss -> (stack_fuel b0 anss <= fuel)%nat -> good_param m = true ->
    let o := run_stack H cfg fuel b0 anss m in
    let '(st, term, offss) := (let '(p0, t0) := piece_of b0 0 in stitch_stack p0 t0 anss) in
    Forall2 lpre (map oell (y_logs o)) offss /\
    ((y_err o = ECode 3 /\ y_data o = [] /\ term = EEof /\ map oell (y_logs o) = offss) \/
     (exists out e rest,
        e <> ENone /\ st = out ++ rest /\ y_data o = dropN (Z.to_N (m_off m)) out /\
        y_err o = method_err m e /\ (e <> EEof -> out = [] \/ (lenN out < g_size cfg)%N) /\
        ended_run cfg e st term (map oell (y_logs o)) offss)).
  Proof.
    intros Hs Hne Hbp Hwf Hf Hg. destruct (run_stack_no_fuel H cfg fuel b0 anss m Hf Hg) as [A B].
    exact (run_stack_streaming_facts H cfg fuel b0 anss m Hs Hne Hbp Hwf A B).
  Qed.

  Theorem run_stack_retry_facts_fuel b0 anss m :
    retrying m -> anss <> [] -> (stack_fuel b0 anss <= fuel)%nat ->
    retry_facts H cfg b0 anss m (run_stack H cfg fuel b0 anss m).
  Proof.
    intros Hr Hne Hf. apply run_stack_retry_facts; try assumption.
    apply run_stack_no_fuel; [exact Hf|]. destruct m; try contradiction; reflexivity.
  Qed.
End FuelFree.

(** * The monitor is silent on the model, without a fuel hypothesis.
    The domain: at least one handler; well-formed buffers; parameters the
    method accepts; positive loop parameters; a positive final error code. *)
Definition dom16F (inp : sx) : Prop :=
  let c := dec_case16 inp in
  q_anss c <> [] /\ wf_case (q_b0 c) (q_anss c) /\
  bad_param (g_size (q_cfg c)) (q_meth c) = false /\
  good_param (q_meth c) = true /\
  (forall x, y_err (out16 inp) = ECode x -> 0 < x).

Lemma dom16F_dom16all inp : dom16F inp -> dom16all inp.
Proof.
  intros (Hne & Hwf & Hbp & Hg & Hpos). destruct (out16_no_fuel inp Hg) as [A B].
  unfold dom16all, dom16. rsplit; assumption.
Qed.

Theorem mon16_silent_on_model_fuel : forall inp, dom16F inp -> mon16 inp (run16 inp) = [].
Proof. intros inp Hd. apply mon16_silent_on_model. apply dom16F_dom16all. exact Hd. Qed.

(** clause 3 alone does not need the parameter conditions *)
Theorem clause_3_silent_on_model_fuel : forall inp,
  q_anss (dec_case16 inp) <> [] -> wf_case (q_b0 (dec_case16 inp)) (q_anss (dec_case16 inp)) ->
  good_param (q_meth (dec_case16 inp)) = true ->
  (forall x, y_err (out16 inp) = ECode x -> 0 < x) ->
  ~ In 3 (mon16 inp (run16 inp)).
Proof.
  intros inp Hne Hwf Hg Hpos. apply clause_3_silent_on_model. unfold dom16. rsplit; try assumption.
  exact (proj2 (out16_no_fuel inp Hg)).
Qed.
