(** C16 — a property of the underlying reader's state that every read
    preserves is preserved by the validators, decorators and consumers built on
    top of it (used for: reading never reports Done to the error handler). *)
From Coq Require Import List ZArith NArith Bool Lia.
From BBS Require Import Buffer.Source Buffer.Validate Buffer.Convert Buffer.StreamProofs Buffer.ValidateProofs.
Import ListNotations.
Open Scope N_scope.

Section OverChunk.
  Variable S : Type.
  Variable rd : S -> (bytes * err) * S.
  Variable P : S -> Prop.
  Hypothesis rd_pres : forall s r s', rd s = (r, s') -> P s -> P s'.

  Lemma drain_pres fuel : forall out s r s', drain rd fuel out s = (r, s') -> P s -> P s'.
  Proof.
    induction fuel as [|f IH]; intros out s r s' Hd Hp; cbn in Hd; [inv Hd; assumption|].
    destruct (rd s) as [[c e] s1] eqn:Hr. apply rd_pres in Hr; [|assumption].
    destruct e; try (inv Hd; assumption). eapply IH; eassumption.
  Qed.
  Lemma extra_reads_pres k : forall s l s', extra_reads rd k s = (l, s') -> P s -> P s'.
  Proof.
    induction k as [|k IH]; intros s l s' He Hp; cbn in He; [inv He; assumption|].
    destruct (rd s) as [r s1] eqn:Hr. apply rd_pres in Hr; [|assumption].
    destruct (extra_reads rd k s1) as [l' s2] eqn:He2. inv He. eapply IH; eassumption.
  Qed.
  Lemma discard_pres fuel : forall off s r s',
    discard_from_chunk_reader rd fuel off s = (r, s') -> P s -> P s'.
  Proof.
    induction fuel as [|f IH]; intros off s r s' Hd Hp; cbn in Hd; destruct (off =? 0);
      try (inv Hd; assumption).
    destruct (rd s) as [[c e] s1] eqn:Hr. apply rd_pres in Hr; [|assumption].
    destruct e; try (inv Hd; assumption).
    destruct (off <? lenN c); [inv Hd; assumption|]. eapply IH; eassumption.
  Qed.

  Variable H : bytes -> bytes.
  Variable cfg : vcfg.
  Lemma finalize_loop_pres f : forall st e st',
    finalize_loop H cfg rd f st = (e, st') -> P (v_u st) -> P (v_u st').
  Proof.
    induction f as [|f IH]; intros st e st' Hf Hp; cbn [finalize_loop] in Hf; [inv Hf; assumption|].
    destruct (rd (v_u st)) as [[c e0] u'] eqn:Hr. apply rd_pres in Hr; [|assumption].
    destruct e0; cbn in Hf.
    - destruct (v_rem st <? lenN c); [inv Hf; assumption|]. apply IH in Hf; assumption.
    - destruct (bytes_eqb _ _); inv Hf; assumption.
    - inv Hf; assumption.
    - inv Hf; assumption.
    - inv Hf; assumption.
  Qed.
  Lemma maybe_finalize_pres f st e st' :
    maybe_finalize H cfg rd f st = (e, st') -> P (v_u st) -> P (v_u st').
  Proof.
    unfold maybe_finalize. destruct (0 <? v_rem st); [intros E; inv E; auto|apply finalize_loop_pres].
  Qed.
  Lemma vcr_read_pres f st r st' :
    vcr_read H cfg rd f st = (r, st') -> P (v_u st) -> P (v_u st').
  Proof.
    unfold vcr_read, vcr_do_read. intros Hr Hp.
    destruct (v_err st); try (inv Hr; assumption).
    destruct (maybe_finalize H cfg rd f st) as [e0 st0] eqn:Hm. apply maybe_finalize_pres in Hm; [|assumption].
    destruct e0; try (inv Hr; assumption).
    destruct (rd (v_u st0)) as [[c e1] u'] eqn:Hrd. apply rd_pres in Hrd; [|assumption].
    destruct e1; cbn in Hr; try (inv Hr; assumption).
    destruct (v_rem st0 <? lenN c); cbn in Hr; [inv Hr; assumption|].
    match type of Hr with context [maybe_finalize H cfg rd f ?s] =>
      destruct (maybe_finalize H cfg rd f s) as [e2 st2] eqn:Hm2; apply maybe_finalize_pres in Hm2; [|exact Hrd] end.
    destruct e2; inv Hr; assumption.
  Qed.
End OverChunk.

Section OverReaderP.
  Variable S : Type.
  Variable rd : N -> S -> (bytes * err) * S.
  Variable P : S -> Prop.
  Hypothesis rd_pres : forall cap s r s', rd cap s = (r, s') -> P s -> P s'.

  Lemma read_full_loop_pres fuel : forall want got s r s',
    read_full_loop rd fuel want got s = (r, s') -> P s -> P s'.
  Proof.
    induction fuel as [|f IH]; intros want got s r s' Hd Hp; cbn in Hd; destruct (want <=? lenN got);
      try (inv Hd; assumption).
    destruct (rd (want - lenN got) s) as [[c e] s1] eqn:Hr. apply rd_pres in Hr; [|assumption].
    destruct e; try (destruct (want <=? lenN (got ++ c)); inv Hd; assumption).
    eapply IH; eassumption.
  Qed.
  Lemma rconsume_pres fuel : forall caps lc out s r s', rconsume rd fuel caps lc out s = (r, s') -> P s -> P s'.
  Proof.
    induction fuel as [|f IH]; intros caps lc out s r s' Hd Hp; cbn in Hd; [inv Hd; assumption|].
    destruct (rd (hd lc caps) s) as [[c e] s1] eqn:Hr. apply rd_pres in Hr; [|assumption].
    destruct e; try (inv Hd; assumption). eapply IH; eassumption.
  Qed.
  Lemma rextra_pres k : forall cap s l s', rextra rd k cap s = (l, s') -> P s -> P s'.
  Proof.
    induction k as [|k IH]; intros cap s l s' He Hp; cbn in He; [inv He; assumption|].
    destruct (rd cap s) as [r s1] eqn:Hr. apply rd_pres in Hr; [|assumption].
    destruct (rextra rd k cap s1) as [l' s2] eqn:He2. inv He. eapply IH; eassumption.
  Qed.

  Variable H : bytes -> bytes.
  Variable cfg : vcfg.
  Lemma vr_read_pres f cap st r st' :
    vr_read H cfg rd f cap st = (r, st') -> P (v_u st) -> P (v_u st').
  Proof.
    unfold vr_read, vr_do_read. intros Hr Hp.
    destruct (v_err st); try (inv Hr; assumption).
    destruct (rd cap (v_u st)) as [[data re] u'] eqn:Hrd. apply rd_pres in Hrd; [|assumption].
    cbn [v_set_u v_rem v_u v_acc v_err v_cbs] in Hr.
    destruct (v_rem st <? lenN data); [cbn in Hr; inv Hr; assumption|].
    destruct re; cbn [v_rem v_u] in Hr.
    - destruct (v_rem st - lenN data =? 0).
      + destruct (read_full rd f 1 u') as [[fin fe] u''] eqn:Hrf.
        unfold read_full in Hrf. apply read_full_loop_pres in Hrf; [|assumption].
        destruct fe; cbn in Hr;
          try (destruct (_ <? lenN fin); [inv Hr; assumption|];
               unfold vr_compare in Hr; cbn in Hr; destruct (bytes_eqb _ _); inv Hr; assumption);
          inv Hr; assumption.
      + inv Hr; assumption.
    - cbn in Hr. destruct (negb _); [inv Hr; assumption|].
      unfold vr_compare in Hr. cbn in Hr. destruct (bytes_eqb _ _); inv Hr; assumption.
    - inv Hr; assumption.
    - inv Hr; assumption.
    - inv Hr; assumption.
  Qed.
End OverReaderP.
