(** C09 (fuel) — the constructor-level theorems of C09Full*.v with their
    out-of-fuel hypothesis ([o_err o <> EFuel]) discharged: it follows from
    [script_fuel evs <= fuel] and [good_param m = true] (C09FuelSuffices.v).
    The monitor theorem needs [good_param] of the decoded method only, because
    [run09] runs the model on [script_fuel] of the decoded script. *)
From Coq Require Import List ZArith NArith Bool Lia.
From BBS Require Import Common.Sx Buffer.Source Buffer.Validate Buffer.Convert Buffer.StreamProofs
  Buffer.ValidateProofs Buffer.ValidateReaderProofs Buffer.ConvertProofs Buffer.ReaderBufferProofs
  Buffer.ConvertProofs2 Buffer.C09FullValidate Buffer.C09FullCombinators Buffer.C09FullReader
  Buffer.C09FullChunk Buffer.C09FullReaderBuf Buffer.C09FullComplete Buffer.C09FullMonitor
  Buffer.C09FullExtras Buffer.C09FuelLoops Buffer.C09FuelSuffices Run.R09.
Import ListNotations.
Open Scope N_scope.

Section FuelProps.
  Variable H : bytes -> bytes.
  Variable cfg : vcfg.
  Variable fuel : nat.

  Theorem chunk_otherwise_fuel evs m o :
    m <> MDiscard -> cas_chunk_reader H cfg fuel evs m = o ->
    (script_fuel evs <= fuel)%nat -> good_param m = true ->
    ~ valid_script H cfg evs -> bad_param (g_size cfg) m = false ->
    o_err o = expected_err cfg (fst (content evs)) (snd (content evs)) /\
    (o_data o = [] \/ Z.to_N (m_off m) + lenN (o_data o) < g_size cfg) /\
    (streams m = false -> o_data o = []).
  Proof.
    intros Hm Ho Hf Hg Hv Hbp. apply (chunk_otherwise H cfg fuel evs m o Hm Ho); [|exact Hv|exact Hbp].
    subst o. apply chunk_fuel_suffices; assumption.
  Qed.

  Theorem reader_otherwise_fuel evs attach m o :
    m <> MDiscard -> cas_reader H cfg fuel evs attach m = o ->
    (script_fuel evs <= fuel)%nat -> good_param m = true ->
    ~ valid_script H cfg evs -> bad_param (g_size cfg) m = false ->
    o_err o = expected_err cfg (fst (content evs)) (snd (content evs)) /\
    (o_data o = [] \/ Z.to_N (m_off m) + lenN (o_data o) < g_size cfg) /\
    (streams m = false -> o_data o = []).
  Proof.
    intros Hm Ho Hf Hg Hv Hbp. apply (reader_otherwise H cfg fuel evs attach m o Hm Ho); [|exact Hv|exact Hbp].
    subst o. apply reader_fuel_suffices; assumption.
  Qed.

  (** a rejected parameter: no condition on the loop parameters is needed
      (an invalid ToChunkReader offset is rejected before the chunk size matters) *)
  Theorem chunk_bad_param_fuel evs m o :
    cas_chunk_reader H cfg fuel evs m = o -> (script_fuel evs <= fuel)%nat ->
    bad_param (g_size cfg) m = true ->
    o_err o = ECode 3 /\ o_data o = [] /\ o_cbs o = [] /\ o_aux o = [].
  Proof.
    intros Ho Hf Hbp. apply (chunk_bad_param H cfg fuel evs m o Ho); [|exact Hbp].
    subst o. destruct m; cbn [bad_param] in Hbp; try discriminate;
      try (apply chunk_fuel_suffices; [exact Hf|reflexivity]).
    cbn [cas_chunk_reader]. apply negb_true_iff in Hbp. rewrite Hbp. cbn. congruence.
  Qed.

  Theorem chunk_valid_completes_fuel evs m o :
    m <> MDiscard -> cas_chunk_reader H cfg fuel evs m = o ->
    (script_fuel evs <= fuel)%nat -> good_param m = true ->
    valid_script H cfg evs -> bad_param (g_size cfg) m = false ->
    completed m (o_err o) = true.
  Proof.
    intros Hm Ho Hf Hg Hv Hbp. apply (chunk_valid_completes H cfg fuel evs m o Hm Ho); [|exact Hv|exact Hbp].
    subst o. apply chunk_fuel_suffices; assumption.
  Qed.

  Theorem reader_valid_completes_fuel evs attach m o :
    m <> MDiscard -> cas_reader H cfg fuel evs attach m = o ->
    (script_fuel evs <= fuel)%nat -> good_param m = true ->
    valid_script H cfg evs -> bad_param (g_size cfg) m = false ->
    completed m (o_err o) = true.
  Proof.
    intros Hm Ho Hf Hg Hv Hbp. apply (reader_valid_completes H cfg fuel evs attach m o Hm Ho); [|exact Hv|exact Hbp].
    subst o. apply reader_fuel_suffices; assumption.
  Qed.

  Theorem chunk_to_chunk_reader_extras_fuel evs off max k :
    let o := cas_chunk_reader H cfg fuel evs (MToChunkReader off max k) in
    (script_fuel evs <= fuel)%nat -> good_param (MToChunkReader off max k) = true ->
    o_extra o = repeat (o_err o) k /\ o_aux o = [].
  Proof.
    intros o Hf Hg. apply (chunk_to_chunk_reader_extras H cfg fuel evs off max k).
    apply chunk_fuel_suffices; assumption.
  Qed.

  Theorem reader_to_chunk_reader_extras_fuel evs attach off max k :
    let o := cas_reader H cfg fuel evs attach (MToChunkReader off max k) in
    (script_fuel evs <= fuel)%nat -> good_param (MToChunkReader off max k) = true ->
    o_extra o = repeat (o_err o) k /\ o_aux o = [].
  Proof.
    intros o Hf Hg. apply (reader_to_chunk_reader_extras H cfg fuel evs attach off max k).
    apply reader_fuel_suffices; assumption.
  Qed.

  Theorem chunk_to_reader_extras_fuel evs caps k :
    let o := cas_chunk_reader H cfg fuel evs (MToReader caps k) in
    (script_fuel evs <= fuel)%nat -> good_param (MToReader caps k) = true -> o_aux o = [].
  Proof.
    intros o Hf Hg. apply (chunk_to_reader_extras H cfg fuel evs caps k).
    apply chunk_fuel_suffices; assumption.
  Qed.

  Theorem reader_to_reader_extras_fuel evs attach caps k :
    let o := cas_reader H cfg fuel evs attach (MToReader caps k) in
    (script_fuel evs <= fuel)%nat -> good_param (MToReader caps k) = true -> o_aux o = [].
  Proof.
    intros o Hf Hg. apply (reader_to_reader_extras H cfg fuel evs attach caps k).
    apply reader_fuel_suffices; assumption.
  Qed.
End FuelProps.

(** * The model never runs out of fuel on a decoded input with positive loop
    parameters, so the monitor is silent on the model without a fuel hypothesis. *)
Theorem out09_not_fuel inp : good_param (k_meth (dec_case inp)) = true -> o_err (out09 inp) <> EFuel.
Proof.
  intros Hg. unfold out09. cbv zeta. set (c := dec_case inp) in *.
  destruct (k_kind c) as [|[p|p|]|p]; cbv beta iota.
  - apply byte_slice_script_fuel_suffices; [apply le_n|exact Hg].
  - apply chunk_fuel_suffices; [apply le_n|exact Hg].
  - apply chunk_fuel_suffices; [apply le_n|exact Hg].
  - apply reader_fuel_suffices; [apply le_n|exact Hg].
  - apply chunk_fuel_suffices; [apply le_n|exact Hg].
Qed.

Theorem mon09_silent_on_model_good inp :
  (forall x, In (Err x) (k_evs (dec_case inp)) -> (0 < x)%Z) ->
  good_param (k_meth (dec_case inp)) = true ->
  mon09 inp (run09 inp) = [].
Proof.
  intros Hpos Hg. apply mon09_silent_on_model; [exact Hpos|]. apply out09_not_fuel. exact Hg.
Qed.
