(** C16 — "... or an error": whatever the outcome of a streaming method
    (IntoWriter, ToChunkReader, ToReader) on a stack of error handlers whose
    buffers all carry the object [C], the bytes the consumer has received are a
    PREFIX of the expected slice of [C]: nothing duplicated, nothing skipped,
    nothing foreign, also when the stream later fails (validation failure,
    handler error, out of fuel).

    The validating readers satisfy the carrier law themselves: they hand out
    what the reader underneath handed out (possibly withholding the last
    chunk), and say io.EOF only when the reader underneath did. *)
From Coq Require Import List ZArith NArith Bool Lia.
From BBS Require Import Buffer.Source Buffer.Validate Buffer.Convert Buffer.ErrHandler
  Buffer.StreamProofs Buffer.ValidateProofs Buffer.ValidateReaderProofs Buffer.ConvertProofs
  Buffer.ReaderBufferProofs Buffer.ConvertProofs2 Buffer.ErrHandlerProofs
  Buffer.EHFullCarry Buffer.EHFullReader Buffer.EHFullMethods Buffer.EHFullStack.
Import ListNotations.
Open Scope N_scope.

(** * casValidatingChunkReader over a chunk reader with the carrier law *)
Section VcrLaw.
  Variable H : bytes -> bytes.
  Variable cfg : vcfg.
  Variable S : Type.
  Variable rd : S -> (bytes * err) * S.
  Variable fuel : nat.
  Variable I : bytes -> S -> Prop.
  Hypothesis Hlaw : claw rd I.

  Definition I_v (C : bytes) (st : vst S) : Prop :=
    match v_err st with
    | ENone => I C (v_u st)
    | EEof => C = []
    | _ => True
    end.

  Lemma finalize_loop_law : forall f (st : vst S) e st' C,
    finalize_loop H cfg rd f st = (e, st') -> I C (v_u st) -> v_rem st = 0 ->
    e <> ENone /\ (e = EEof -> C = []).
  Proof.
    induction f as [|f IH]; intros st e st' C Hf Hi Hrem; cbn [finalize_loop] in Hf.
    - inv Hf. split; congruence.
    - destruct (rd (v_u st)) as [[chunk e0] u'] eqn:Hr.
      destruct (Hlaw _ _ _ _ _ Hr Hi) as (C' & -> & Hn & He & Hc).
      destruct e0.
      + cbn [v_set_u v_rem] in Hf. destruct (v_rem st <? lenN chunk) eqn:Hlt.
        * unfold v_fail in Hf. inv Hf. split; congruence.
        * apply N.ltb_ge in Hlt. assert (chunk = []) by (apply lenN_zero; lia). subst chunk. cbn [app].
          eapply IH; [exact Hf|cbn; auto|cbn; exact Hrem].
      + rewrite (Hc ltac:(congruence)), (He eq_refl).
        destruct (bytes_eqb _ _); [inv Hf; split; [congruence|reflexivity]|unfold v_fail in Hf; inv Hf; split; congruence].
      + inv Hf. split; congruence.
      + inv Hf. split; congruence.
      + inv Hf. split; congruence.
  Qed.

  Lemma maybe_finalize_law (st : vst S) e st' C :
    maybe_finalize H cfg rd fuel st = (e, st') -> I C (v_u st) ->
    (e = ENone -> st' = st) /\ (e = EEof -> C = []).
  Proof.
    unfold maybe_finalize. intros Hm Hi. destruct (0 <? v_rem st) eqn:Hpos.
    - inv Hm. split; [reflexivity|congruence].
    - apply N.ltb_ge in Hpos. destruct (finalize_loop_law _ _ _ _ _ Hm Hi ltac:(lia)) as (Hne & He).
      split; [congruence|exact He].
  Qed.

  Lemma vcr_do_read_law (st : vst S) c e st' C :
    vcr_do_read H cfg rd fuel st = ((c, e), st') -> I C (v_u st) ->
    exists C', C = c ++ C' /\ (e = ENone -> I C' (v_u st') /\ v_err st' = v_err st) /\
               (e = EEof -> C' = []) /\ (e <> ENone -> c = []).
  Proof.
    unfold vcr_do_read. intros Hd Hi.
    destruct (maybe_finalize H cfg rd fuel st) as [e0 st1] eqn:Hm.
    destruct (maybe_finalize_law _ _ _ _ Hm Hi) as (Hsame & Heof).
    destruct e0; try (inv Hd; exists C; rsplit; auto; congruence).
    rewrite (Hsame eq_refl) in *. clear Hsame Hm st1.
    destruct (rd (v_u st)) as [[chunk e1] u'] eqn:Hr.
    destruct (Hlaw _ _ _ _ _ Hr Hi) as (C' & -> & Hn & He & Hc).
    cbn [v_set_u v_rem v_u v_acc v_err v_cbs] in Hd.
    destruct e1.
    - destruct (v_rem st <? lenN chunk).
      + unfold v_fail in Hd. inv Hd. eexists. rsplit; [reflexivity|..]; congruence.
      + inv Hd. exists C'. rsplit; auto; try congruence.
    - unfold v_fail in Hd. inv Hd. eexists. rsplit; [reflexivity|..]; congruence.
    - inv Hd. eexists. rsplit; [reflexivity|..]; congruence.
    - inv Hd. eexists. rsplit; [reflexivity|..]; congruence.
    - inv Hd. eexists. rsplit; [reflexivity|..]; congruence.
  Qed.

  Lemma vcr_claw : claw (vcr_read H cfg rd fuel) I_v.
  Proof.
    intros st c e st' C Hr Hi. unfold vcr_read in Hr. unfold I_v in Hi.
    destruct (v_err st) eqn:Herr;
      try (inv Hr; eexists; rsplit; [reflexivity|..]; auto; try congruence;
           intros _; unfold I_v; rewrite Herr; exact Hi).
    destruct (vcr_do_read H cfg rd fuel st) as [[chunk e1] st1] eqn:Hd.
    destruct (vcr_do_read_law _ _ _ _ _ Hd Hi) as (C' & -> & Hn & He & Hc).
    destruct e1; try (inv Hr; rewrite (Hc ltac:(congruence)); exists C'; rsplit; auto; congruence).
    destruct (Hn eq_refl) as (Hi1 & Herr1).
    destruct (maybe_finalize H cfg rd fuel st1) as [e2 st2] eqn:Hm.
    destruct (maybe_finalize_law _ _ _ _ Hm Hi1) as (Hsame & Heof).
    destruct e2.
    - inv Hr. rewrite (Hsame eq_refl). exists C'. rsplit; auto; try congruence;
        try (intros _; unfold I_v; cbn; exact Hi1).
    - inv Hr. exists C'. rsplit; auto; try congruence; try (intros _; unfold I_v; cbn; exact (Heof eq_refl)).
    - inv Hr. eexists. rsplit; [reflexivity|..]; congruence.
    - inv Hr. eexists. rsplit; [reflexivity|..]; congruence.
    - inv Hr. eexists. rsplit; [reflexivity|..]; congruence.
  Qed.

  Lemma I_v_init C u : I C u -> I_v C (vinit cfg u).
  Proof. intros Hi. unfold I_v. cbn. exact Hi. Qed.
End VcrLaw.

(** * casValidatingReader over an io.Reader with the (weak) carrier law *)
Section VrLaw.
  Variable H : bytes -> bytes.
  Variable cfg : vcfg.
  Variable S : Type.
  Variable rd : N -> S -> (bytes * err) * S.
  Variable fuel : nat.
  Variable I : bytes -> S -> Prop.
  Hypothesis Hlaw : rlaw rd I.
  Variable P : S -> Prop.
  Hypothesis rd_P : forall cap s c e s', P s -> rd cap s = ((c, e), s') -> e <> EUnexp /\ (e = ENone -> P s').

  Definition I_vr (C : bytes) (st : vst S) : Prop :=
    match v_err st with
    | ENone => I C (v_u st) /\ P (v_u st)
    | EEof => C = []
    | _ => True
    end.

  Lemma vr_rlaw : rlaw (vr_read H cfg rd fuel) I_vr.
  Proof.
    intros cap st c e st' C Hr Hi. unfold vr_read in Hr. unfold I_vr in Hi.
    destruct (v_err st) eqn:Herr;
      try (inv Hr; eexists; rsplit; [reflexivity|..]; auto; try congruence;
           intros _; unfold I_vr; rewrite Herr; exact Hi).
    destruct Hi as (Hi & Hp).
    destruct (vr_do_read H cfg rd fuel cap st) as [[d0 e0] st0] eqn:Hdo. inv Hr.
    unfold vr_do_read in Hdo. destruct (rd cap (v_u st)) as [[data re] u'] eqn:Hrd.
    destruct (Hlaw _ _ _ _ _ _ Hrd Hi) as (C1 & -> & Hn & He).
    destruct (rd_P _ _ _ _ _ Hp Hrd) as (Hnu & Hp').
    cbn [v_set_u v_rem v_u v_acc v_err v_cbs] in Hdo.
    assert (Htriv : forall x (stx : vst S), x <> ENone -> x <> EEof ->
              exists C', data ++ C1 = [] ++ C' /\ (x = ENone -> I_vr C' (v_set_err stx x)) /\ (x = EEof -> C' = []))
      by (intros x stx A B; eexists; rsplit; [reflexivity|..]; congruence).
    destruct (v_rem st <? lenN data) eqn:Hlt; [unfold v_fail in Hdo; inv Hdo; apply Htriv; congruence|].
    destruct re; cbn [v_rem v_u v_acc v_err v_cbs] in Hdo.
    - destruct (v_rem st - lenN data =? 0) eqn:Hz.
      + apply N.eqb_eq in Hz.
        destruct (read_full rd fuel 1 u') as [[fin fe] u''] eqn:Hf. cbn [v_set_u v_rem v_u v_acc v_err v_cbs] in Hdo.
        assert (Hfin : (fe = ENone \/ fe = EEof \/ fe = EUnexp) ->
          (if v_rem st - lenN data <? lenN fin
           then let '(e', st'0) := v_fail cfg (mkVst u'' (v_rem st - lenN data) (v_acc st ++ data) (v_err st) (v_cbs st)) in
                (([], e'), st'0)
           else let '(e', st'0) := vr_compare H cfg (mkVst u'' (v_rem st - lenN data) (v_acc st ++ data) (v_err st) (v_cbs st)) in
                match e' with
                | ENone => ((data, EEof), v_notify st'0 true)
                | _ => (([], e'), st'0)
                end) = ((c, e), st0) ->
          exists C', data ++ C1 = c ++ C' /\ (e = ENone -> I_vr C' (v_set_err st0 e)) /\ (e = EEof -> C' = [])).
        { intros Hfe. destruct (v_rem st - lenN data <? lenN fin) eqn:Hlt2;
            [unfold v_fail; intros Hx; inv Hx; apply Htriv; congruence|].
          apply N.ltb_ge in Hlt2. assert (Hnil : fin = []) by (apply lenN_zero; lia).
          destruct (vr_compare H cfg _) as [e' st1] eqn:Hcmp.
          destruct (vr_compare_code _ _ _ _ _ _ Hcmp) as [-> | ->]; [|intros Hx; inv Hx; apply Htriv; congruence].
          intros Hx. inv Hx. exists C1. rsplit; auto; try congruence. intros _.
          unfold read_full in Hf. destruct Hfe as [-> | [-> | ->]].
          - apply read_full_none in Hf. rewrite lenN_nil in Hf. lia.
          - destruct (read_full_eof _ _ _ _ _ _ _ _ Hf) as (_ & _ & Hd).
            destruct (rlaw_rdrains _ _ _ Hlaw _ _ _ _ Hd _ (Hn eq_refl)) as (C2 & -> & He2). exact (He2 eq_refl).
          - exfalso. exact (read_full_unexp _ _ _ rd_P _ _ _ _ _ _ Hf (Hp' eq_refl) eq_refl). }
        destruct fe; try (apply Hfin; [tauto|exact Hdo]); inv Hdo; apply Htriv; congruence.
      + inv Hdo. exists C1. rsplit; auto; try congruence; try (intros _; unfold I_vr; cbn; auto).
    - destruct (negb (v_rem st - lenN data =? 0)); [unfold v_fail in Hdo; inv Hdo; apply Htriv; congruence|].
      revert Hdo. destruct (vr_compare H cfg _) as [e' st1] eqn:Hcmp.
      destruct (vr_compare_code _ _ _ _ _ _ Hcmp) as [-> | ->]; [|intros Hdo; inv Hdo; apply Htriv; congruence].
      intros Hdo. inv Hdo. exists C1. rsplit; auto; try congruence.
    - congruence.
    - inv Hdo. apply Htriv; congruence.
    - inv Hdo. apply Htriv; congruence.
  Qed.

  Lemma I_vr_init C u : I C u -> P u -> I_vr C (vinit cfg u).
  Proof. intros Hi Hp. unfold I_vr. cbn. auto. Qed.
End VrLaw.

(** * Consumers *)
Section ConsumerLaws.
  Variable S : Type.
  Lemma drain_law (rd : S -> (bytes * err) * S) I : claw rd I ->
    forall f out0 s out e s' C, drain rd f out0 s = ((out, e), s') -> I C s ->
    exists d C', out = out0 ++ d /\ C = d ++ C'.
  Proof.
    intros Hlaw. induction f as [|f IH]; intros out0 s out e s' C Hd Hi; cbn [drain] in Hd.
    - inv Hd. exists [], C. rewrite app_nil_r. auto.
    - destruct (rd s) as [[c e0] s1] eqn:Hr. destruct (Hlaw _ _ _ _ _ Hr Hi) as (C1 & -> & Hn & _ & _).
      destruct e0; try (inv Hd; exists [], (c ++ C1); rewrite app_nil_r; auto; fail).
      destruct (IH _ _ _ _ _ _ Hd (Hn eq_refl)) as (d & C' & -> & ->).
      exists (c ++ d), C'. rewrite <- !app_assoc. auto.
  Qed.
  Lemma rconsume_law (rd : N -> S -> (bytes * err) * S) I : rlaw rd I ->
    forall f caps lc out0 s out e s' C, rconsume rd f caps lc out0 s = ((out, e), s') -> I C s ->
    exists d C', out = out0 ++ d /\ C = d ++ C'.
  Proof.
    intros Hlaw. induction f as [|f IH]; intros caps lc out0 s out e s' C Hd Hi; cbn [rconsume] in Hd.
    - inv Hd. exists [], C. rewrite app_nil_r. auto.
    - destruct (rd (hd lc caps) s) as [[c e0] s1] eqn:Hr. destruct (Hlaw _ _ _ _ _ _ Hr Hi) as (C1 & -> & Hn & _).
      destruct e0; try (inv Hd; exists c, C1; auto; fail).
      destruct (IH _ _ _ _ _ _ _ _ Hd (Hn eq_refl)) as (d & C' & -> & ->).
      exists (c ++ d), C'. rewrite <- !app_assoc. auto.
  Qed.
End ConsumerLaws.

(** newOffsetChunkReader at ANY offset (beyond the end as well) *)
Section OffsetAny.
  Variable S : Type.
  Variable rd : S -> (bytes * err) * S.
  Variable cl : S -> S.
  Variable I : bytes -> S -> Prop.
  Hypothesis Hlaw : claw rd I.

  Definition I_off2 (C : bytes) (o : ost S) : Prop :=
    match o_fixed o with
    | ENone => exists C1, C = o_prefix o ++ C1 /\ I C1 (o_u o)
    | EEof => C = []
    | _ => True
    end.

  Lemma offset_claw2 : claw (offset_read rd) I_off2.
  Proof.
    intros o c e o' C Hr Hi. unfold offset_read in Hr. unfold I_off2 in Hi.
    destruct (o_fixed o) eqn:Ef;
      try (inv Hr; eexists; rsplit; [reflexivity|..]; auto; try congruence;
           intros _; unfold I_off2; rewrite Ef; exact Hi).
    destruct Hi as (C1 & -> & Hi). destruct (is_nil (o_prefix o)) eqn:En.
    - apply is_nil_true in En. rewrite En. cbn [app].
      destruct (rd (o_u o)) as [[c0 e0] u'] eqn:Hrd. inv Hr.
      destruct (Hlaw _ _ _ _ _ Hrd Hi) as (C' & -> & Hn & He & Hc). exists C'. rsplit; auto.
      intros E. unfold I_off2. cbn. exists C'. auto.
    - inv Hr. exists C1. rsplit; auto; try congruence. intros _. unfold I_off2. cbn. exists C1. auto.
  Qed.

  Lemma discard_law2 fuel : forall off s prefix e s' C,
    discard_from_chunk_reader rd fuel off s = ((prefix, e), s') -> I C s ->
    match e with
    | ENone => exists C1, dropN off C = prefix ++ C1 /\ I C1 s'
    | EEof => dropN off C = []
    | _ => True
    end.
  Proof.
    induction fuel as [|f IH]; intros off s prefix e s' C Hd Hi; cbn [discard_from_chunk_reader] in Hd;
      destruct (off =? 0) eqn:E0.
    - apply N.eqb_eq in E0. subst. inv Hd. exists C. rewrite dropN_0. auto.
    - inv Hd. exact Logic.I.
    - apply N.eqb_eq in E0. subst. inv Hd. exists C. rewrite dropN_0. auto.
    - apply N.eqb_neq in E0. destruct (rd s) as [[c e0] s1] eqn:Hr.
      destruct (Hlaw _ _ _ _ _ Hr Hi) as (C' & -> & Hn & He & Hc).
      destruct e0.
      + destruct (off <? lenN c) eqn:Hlt.
        * apply N.ltb_lt in Hlt. inv Hd. exists C'. rewrite dropN_app by lia. auto.
        * apply N.ltb_ge in Hlt. specialize (IH _ _ _ _ _ _ Hd (Hn eq_refl)).
          rewrite dropN_app_ge by assumption. exact IH.
      + inv Hd. rewrite (Hc ltac:(congruence)), (He eq_refl). cbn. destruct (off =? 0); reflexivity.
      + inv Hd. exact Logic.I.
      + inv Hd. exact Logic.I.
      + inv Hd. exact Logic.I.
  Qed.

  Lemma offset_init_law2 fuel off s C :
    I C s -> (0 <= off)%Z -> I_off2 (dropN (Z.to_N off) C) (offset_init rd cl fuel off s).
  Proof.
    intros Hi Hle. unfold offset_init. destruct (off <? 0)%Z eqn:Hneg; [apply Z.ltb_lt in Hneg; lia|].
    destruct (discard_from_chunk_reader rd fuel (Z.to_N off) s) as [[prefix e] s'] eqn:Hd.
    pose proof (discard_law2 _ _ _ _ _ _ _ Hd Hi) as Hx.
    destruct e; unfold I_off2; cbn; try exact Logic.I; exact Hx.
  Qed.
End OffsetAny.

(** * Buffers in a known state *)
Lemma byte_slice_stream_prefix fuel data cbs closed m :
  match m with MIntoWriter | MToChunkReader _ _ _ | MToReader _ _ => True | _ => False end ->
  exists rest, expected_slice m data = o_data (byte_slice_buffer fuel data cbs closed m) ++ rest.
Proof.
  destruct m; try contradiction; intros _; cbn [byte_slice_buffer expected_slice].
  - exists []. cbn. now rewrite app_nil_r.
  - destruct (valid_offset (lenN data) off) eqn:Hv; [|cbn; eauto].
    destruct (drain (bs_read max) fuel [] (dropN (Z.to_N off) data)) as [[out e] s] eqn:Hd.
    destruct (extra_reads (bs_read max) extra s) as [ex s2]. cbn [o_data].
    destruct (drain_law _ _ _ (bs_claw max) _ _ _ _ _ _ _ Hd eq_refl) as (d & C' & -> & E). cbn [app]. eauto.
  - destruct (rconsume bb_read fuel caps (last_cap caps) [] data) as [[out e] s] eqn:Hr.
    destruct (rextra bb_read extra (last_cap caps) s) as [ex s2]. cbn [o_data].
    destruct (rconsume_law _ _ _ bb_rlaw _ _ _ _ _ _ _ _ _ Hr eq_refl) as (d & C' & -> & E). cbn [app]. eauto.
Qed.

Lemma weh_inr_known : forall n b h b' h',
  with_error_handler n b h = (inr b', h') -> match b' with BBytes _ | BError _ => True | _ => False end.
Proof.
  induction n as [|n IH]; intros b h b' h' Hw; destruct b; cbn [with_error_handler] in Hw; try (inv Hw; exact Logic.I).
  - destruct (on_error h (ECode c)) as [a h1]. destruct a; inv Hw; exact Logic.I.
  - destruct (on_error h (ECode c)) as [a h1]. destruct a; [eapply IH; eassumption|inv Hw; exact Logic.I].
Qed.

Section PrefixMethods.
  Variable H : bytes -> bytes.
  Variable cfg : vcfg.
  Variable fuel : nat.
  Variable C : bytes.

  Definition streaming (m : meth) : Prop :=
    match m with MIntoWriter | MToChunkReader _ _ _ | MToReader _ _ => True | _ => False end.

  Theorem ehs_method_prefix b w m :
    carries_full C b -> hs_carry C (w_act w) -> streaming m ->
    exists rest, expected_slice m C = y_data (ehs_method H cfg fuel b w m) ++ rest.
  Proof.
    intros Hc Hh Hm. destruct m; try contradiction; cbn [ehs_method expected_slice].
    - (* IntoWriter *)
      unfold into_writer_cr. destruct (drain _ fuel [] _) as [[out e] st] eqn:Hd. cbn [y_data].
      unfold shv_read in Hd.
      destruct (drain_law _ _ _ (vcr_claw H cfg _ _ fuel _ (sch_claw C fuel 65536 fuel)) _ _ _ _ _ _ _ Hd
                  (I_v_init cfg _ _ _ _ (sch_init_carries fuel C _ _ Hc Hh))) as (d & C' & -> & E).
      cbn [app]. eauto.
    - (* ToChunkReader *)
      destruct (valid_offset (g_size cfg) off) eqn:Hv; [|cbn; eauto].
      destruct (drain _ fuel [] _) as [[out e] o] eqn:Hd.
      destruct (extra_reads _ extra o) as [ex o2]. cbn [y_data].
      unfold valid_offset in Hv. apply andb_true_iff in Hv. destruct Hv as (Hpos & _). apply Z.leb_le in Hpos.
      unfold shv_read in Hd.
      pose proof (vcr_claw H cfg _ _ fuel _ (sch_claw C fuel max fuel)) as Hcl.
      destruct (drain_law _ _ _ (offset_claw2 _ _ _ Hcl) _ _ _ _ _ _ _ Hd
                  (offset_init_law2 _ _ shv_close _ Hcl fuel off _ _
                     (I_v_init cfg _ _ _ _ (sch_init_carries fuel C _ _ Hc Hh)) Hpos)) as (d & C' & -> & E).
      cbn [app]. eauto.
    - (* ToReader *)
      destruct (rconsume _ fuel caps _ [] _) as [[out e] st] eqn:Hr.
      destruct (rextra _ extra _ st) as [ex st2]. cbn [y_data].
      unfold shrv_read in Hr.
      assert (HP : forall cap s c e s', urd_nu (sr_cur s) -> shr_read fuel cap s = ((c, e), s') ->
                     e <> EUnexp /\ (e = ENone -> urd_nu (sr_cur s')))
        by (intros; eapply shr_read_nu; eauto).
      destruct (rconsume_law _ _ _ (vr_rlaw H cfg _ _ fuel _ (shr_rlaw C fuel) _ HP) _ _ _ _ _ _ _ _ _ Hr
                  (I_vr_init cfg _ _ _ _ _ (shr_init_carries fuel C _ _ Hc Hh) (urd_open_nu fuel b 0)))
        as (d & C' & -> & E).
      cbn [app]. eauto.
  Qed.

  Lemma stack_active_stays : forall rest w0 b0 b2 w2,
    w_act w0 <> [] -> stack_handlers b0 w0 rest = (b2, w2) -> w_act w2 <> [].
  Proof.
    induction rest as [|h2 rest IH]; intros w0 b0 b2 w2 Hn Hs; cbn [stack_handlers] in Hs.
    - inv Hs. exact Hn.
    - destruct (w_act w0) as [|a0 act0] eqn:Ea; [congruence|].
      eapply IH; [|exact Hs]. cbn. discriminate.
  Qed.

  Lemma stack_handlers_known : forall hs b w b' w',
    stack_handlers b w hs = (b', w') -> hs <> [] -> w_act w = [] -> w_act w' = [] ->
    match b' with BBytes _ | BError _ => True | _ => False end.
  Proof.
    induction hs as [|h rest IH]; intros b w b' w' Hs Hne Hw Hw'; [congruence|].
    cbn [stack_handlers] in Hs. rewrite Hw in Hs.
    destruct (with_error_handler _ b h) as [r h'] eqn:Hweh. destruct r as [b1|b1].
    - exfalso. eapply stack_active_stays; [|exact Hs|exact Hw']. cbn. discriminate.
    - destruct rest as [|h2 rest2].
      + cbn [stack_handlers] in Hs. inv Hs. eapply weh_inr_known; eassumption.
      + eapply IH; [exact Hs|discriminate|reflexivity|exact Hw'].
  Qed.

  (** The bytes handed out by a streaming method are a prefix of the expected
      slice of the object, whatever the outcome. *)
  Theorem run_stack_delivered_prefix b0 anss m :
    carries_full C b0 -> Forall (Forall (ans_carries C)) anss -> anss <> [] -> streaming m ->
    exists rest, expected_slice m C = y_data (run_stack H cfg fuel b0 anss m) ++ rest.
  Proof.
    intros Hc Hall Hne Hm. unfold run_stack.
    destruct (stack_handlers b0 _ _) as [b w] eqn:Hs.
    assert (Hhs : hs_carry C (map (fun a => mkHst a []) anss)).
    { unfold hs_carry, h_carry. rewrite Forall_map. cbn. exact Hall. }
    destruct (stack_handlers_carry C _ _ _ _ _ Hs Hc ltac:(constructor) Hhs) as (Hc' & Hw').
    destruct (w_act w) as [|a act] eqn:Ea.
    - cbn [y_data].
      assert (Hk : match b with BBytes _ | BError _ => True | _ => False end).
      { eapply stack_handlers_known; [exact Hs| |reflexivity|exact Ea]. destruct anss; [congruence|discriminate]. }
      destruct b as [evs|evs a0|d|x]; try contradiction; cbn [plain].
      + cbn in Hc'. subst d. apply byte_slice_stream_prefix. destruct m; try contradiction; exact Logic.I.
      + exists (expected_slice m C). destruct m; reflexivity.
    - apply ehs_method_prefix; try assumption. rewrite Ea. exact Hw'.
  Qed.
End PrefixMethods.
