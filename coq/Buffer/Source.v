(** C09/C16 — scripted sources and the parts of Go's [io] package the buffer
    layer relies on.  Definitions only.

    Go multi-value returns are products: a reader returns [(data, err)] and
    both may be non-trivial.  Consumers in pkg/blobstore/buffer look at the
    error first.  Loops that the Go code runs until the source says stop take
    fuel; running out of fuel is the explicit error [EFuel], which no theorem
    counts as completion. *)
From Coq Require Import List ZArith NArith Bool.
Import ListNotations.
Open Scope N_scope.

Definition bytes := list N.

(** [error] values that matter: nil, io.EOF, io.ErrUnexpectedEOF, a gRPC
    status with a code, and the model's out-of-fuel marker. *)
Inductive err := ENone | EEof | EUnexp | ECode (c : Z) | EFuel.

Definition err_eqb (a b : err) : bool :=
  match a, b with
  | ENone, ENone | EEof, EEof | EUnexp, EUnexp | EFuel, EFuel => true
  | ECode x, ECode y => Z.eqb x y
  | _, _ => false
  end.
Definition is_none (e : err) : bool := match e with ENone => true | _ => false end.

Definition lenN (l : bytes) : N := N.of_nat (length l).

Fixpoint takeN (n : N) (l : bytes) : bytes :=
  match l with
  | [] => []
  | x :: t => if n =? 0 then [] else x :: takeN (N.pred n) t
  end.
Fixpoint dropN (n : N) (l : bytes) : bytes :=
  match l with
  | [] => []
  | x :: t => if n =? 0 then l else dropN (N.pred n) t
  end.

Fixpoint bytes_eqb (a b : bytes) : bool :=
  match a, b with
  | [], [] => true
  | x :: a', y :: b' => (x =? y) && bytes_eqb a' b'
  | _, _ => false
  end.

Definition is_nil (l : bytes) : bool := match l with [] => true | _ => false end.

(** Script events of a source. *)
Inductive ev := Chunk (bs : bytes) | Err (c : Z) | Eof.

(** The content of a script: the chunks before the first event that is not a
    chunk, and that event as an error value (an exhausted script says EOF). *)
Fixpoint content (evs : list ev) : bytes * err :=
  match evs with
  | [] => ([], EEof)
  | Chunk bs :: r => let '(c, e) := content r in (bs ++ c, e)
  | Err c :: _ => ([], ECode c)
  | Eof :: _ => ([], EEof)
  end.

(** * Scripted ChunkReader *)
Record csrc := mkCsrc { c_rest : list ev; c_closed : nat }.

Definition csrc_read (s : csrc) : (bytes * err) * csrc :=
  match c_rest s with
  | [] => (([], EEof), s)
  | Chunk bs :: r => ((bs, ENone), mkCsrc r (c_closed s))
  | Err c :: r => (([], ECode c), mkCsrc r (c_closed s))
  | Eof :: r => (([], EEof), mkCsrc r (c_closed s))
  end.
Definition csrc_close (s : csrc) : csrc := mkCsrc (c_rest s) (S (c_closed s)).

(** * Scripted io.ReadCloser
    [Read(p)] hands out at most [len p] bytes of the current chunk.  With
    [r_attach] the EOF or error that follows a chunk is returned together
    with the chunk's last bytes; without it, on a call of its own. *)
Record rsrc := mkRsrc { r_rest : list ev; r_attach : bool; r_closed : nat }.

Definition rsrc_read (cap : N) (s : rsrc) : (bytes * err) * rsrc :=
  let mk r := mkRsrc r (r_attach s) (r_closed s) in
  match r_rest s with
  | [] => (([], EEof), s)
  | Eof :: r => (([], EEof), mk r)
  | Err c :: r => (([], ECode c), mk r)
  | Chunk bs :: r =>
      let out := takeN cap bs in
      let bs' := dropN cap bs in
      if negb (is_nil bs') then ((out, ENone), mk (Chunk bs' :: r))
      else if r_attach s then
        match r with
        | [] => ((out, EEof), mk [])
        | Eof :: r' => ((out, EEof), mk r')
        | Err c :: r' => ((out, ECode c), mk r')
        | Chunk _ :: _ => ((out, ENone), mk r)
        end
      else ((out, ENone), mk r)
  end.
Definition rsrc_close (s : rsrc) : rsrc := mkRsrc (r_rest s) (r_attach s) (S (r_closed s)).

(** * io.ReadFull, io.Copy, io.CopyN(io.Discard, ..) over any reader *)
Section GoStd.
  Variable S : Type.
  Variable rd : N -> S -> (bytes * err) * S.

  (** io.ReadAtLeast(r, buf, len(buf)):
      [for n < min && err == nil { nn, err = r.Read(buf[n:]); n += nn }]
      then [n >= min -> nil], [n > 0 && err == EOF -> ErrUnexpectedEOF]. *)
  Fixpoint read_full_loop (fuel : nat) (want : N) (got : bytes) (s : S) : (bytes * err) * S :=
    if want <=? lenN got then ((got, ENone), s) else
    match fuel with
    | O => ((got, EFuel), s)
    | Datatypes.S f =>
        let '((c, e), s') := rd (want - lenN got) s in
        let got' := got ++ c in
        match e with
        | ENone => read_full_loop f want got' s'
        | _ =>
            if want <=? lenN got' then ((got', ENone), s')
            else match e with
                 | EEof => ((got', if is_nil got' then EEof else EUnexp), s')
                 | _ => ((got', e), s')
                 end
        end
    end.
  Definition read_full (fuel : nat) (want : N) (s : S) := read_full_loop fuel want [] s.

  (** io.Copy(w, r) for a writer that never fails and implements neither
      ReaderFrom nor is [r] a WriterTo: 32 KiB reads; data returned together
      with an error is written before the error is looked at. *)
  Definition copy_buf : N := 32768.
  Fixpoint copy_loop (fuel : nat) (cap : N) (written : bytes) (s : S) : (bytes * err) * S :=
    match fuel with
    | O => ((written, EFuel), s)
    | Datatypes.S f =>
        let '((c, e), s') := rd cap s in
        let written' := written ++ c in
        match e with
        | ENone => copy_loop f cap written' s'
        | EEof => ((written', ENone), s')
        | _ => ((written', e), s')
        end
    end.
  Definition copy (fuel : nat) (s : S) := copy_loop fuel copy_buf [] s.

  (** io.CopyN(io.Discard, r, n): io.Discard's ReadFrom reads 8 KiB at a time
      through an io.LimitedReader; [written == n -> nil] whatever the last
      read's error was, [written < n && err == nil -> EOF]. *)
  Definition discard_buf : N := 8192.
  Fixpoint copy_n_loop (fuel : nat) (left : N) (s : S) : err * S :=
    if left =? 0 then (ENone, s) else
    match fuel with
    | O => (EFuel, s)
    | Datatypes.S f =>
        let '((c, e), s') := rd (N.min discard_buf left) s in
        let left' := left - lenN c in
        match e with
        | ENone => copy_n_loop f left' s'
        | EEof => (if left' =? 0 then ENone else EEof, s')
        | _ => (if left' =? 0 then ENone else e, s')
        end
    end.

  (** discardFromReader *)
  Definition discard_from_reader (fuel : nat) (off : Z) (s : S) : err * S :=
    if (off <? 0)%Z then (ECode 3, s) else copy_n_loop fuel (Z.to_N off) s.
End GoStd.
Arguments read_full_loop {S}. Arguments read_full {S}. Arguments copy_loop {S}. Arguments copy {S}.
Arguments copy_n_loop {S}. Arguments discard_from_reader {S}.

(** Generic chunk-reader consumers. *)
Section ChunkConsumers.
  Variable S : Type.
  Variable rd : S -> (bytes * err) * S.

  (** read chunks until the first error (io.EOF included) *)
  Fixpoint drain (fuel : nat) (out : bytes) (s : S) : (bytes * err) * S :=
    match fuel with
    | O => ((out, EFuel), s)
    | Datatypes.S f =>
        let '((c, e), s') := rd s in
        match e with
        | ENone => drain f (out ++ c) s'
        | _ => ((out, e), s')
        end
    end.

  (** [k] further reads after the stream ended: their errors *)
  Fixpoint extra_reads (k : nat) (s : S) : list (bytes * err) * S :=
    match k with
    | O => ([], s)
    | Datatypes.S k' =>
        let '(r, s') := rd s in
        let '(l, s'') := extra_reads k' s' in
        (r :: l, s'')
    end.

  (** discardFromChunkReader: the rest of the chunk that straddles [off]. *)
  Fixpoint discard_from_chunk_reader (fuel : nat) (off : N) (s : S) : (bytes * err) * S :=
    if off =? 0 then (([], ENone), s) else
    match fuel with
    | O => (([], EFuel), s)
    | Datatypes.S f =>
        let '((c, e), s') := rd s in
        match e with
        | ENone => if off <? lenN c then ((dropN off c, ENone), s')
                   else discard_from_chunk_reader f (off - lenN c) s'
        | _ => (([], e), s')
        end
    end.
End ChunkConsumers.
Arguments drain {S}. Arguments extra_reads {S}. Arguments discard_from_chunk_reader {S}.
