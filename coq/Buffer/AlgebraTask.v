(** C15, model M2: background tasks — exactly when the task's error is
    reported, and completion never before the task, for every method, every
    node and every program of any depth. *)
From Coq Require Import List ZArith NArith Bool Lia.
From BBS Require Import Buffer.Algebra Buffer.AlgebraProofs.
Import ListNotations.
Open Scope Z_scope.

(** Trivially cloneable kinds: WithTask runs the task in the foreground. *)
Definition is_plain (n : node) : bool :=
  match n with NBytes | NProto | NReaderAt => true | _ => false end.

(** Ok or ReadAt's (n, io.EOF). *)
Definition success (r : res) : Prop :=
  match r with Ok _ | Eof _ => True | _ => False end.

Section T.
  Variable D : list Z.
  Variable flt : fault.
  Notation eval := (eval D flt).
  Notation wf := (wf D).

  (** ---- the exact result of every method on a buffer with a failed task ---- *)

  (** For EVERY node (well-formed or not) and every completing method: a
      trivially cloneable buffer is replaced by the task's error; any other
      buffer reports its own result unless that is [Ok], which becomes the
      task's error. *)
  Theorem withTask_exact n id terr m : terr <> 0 -> completing m ->
    eval (withTask id terr n) m =
      if is_plain n then Err terr
      else match eval n m with Ok _ => Err terr | r => r end.
  Proof.
    intros Ht [H1 H2]. apply Z.eqb_neq in Ht.
    destruct n; cbn [withTask is_plain node_dg node_src]; rewrite ?Ht;
      try (destruct m; cbn; congruence);
      (destruct m; cbn [Algebra.eval]; try congruence;
       match goal with |- match ?e with _ => _ end = _ => destruct e; rewrite ?Ht; reflexivity end).
  Qed.

  (** With a task that succeeded nothing changes. *)
  Theorem withTask_ok_exact n id m : completing m ->
    eval (withTask id 0 n) m = eval n m.
  Proof.
    intros [H1 H2].
    destruct n; cbn [withTask is_plain node_dg node_src Z.eqb]; try reflexivity;
      (destruct m; cbn [Algebra.eval]; try congruence;
       match goal with |- match ?e with _ => _ end = _ => destruct e; reflexivity end).
  Qed.

  (** [Eof] is produced by ReadAt only. *)
  Lemma readat_pure_cases len off :
    (exists b, readat_pure D len off = Ok b) \/ (exists b, readat_pure D len off = Eof b).
  Proof. unfold readat_pure. destruct (Nat.ltb _ _); [right|left]; eexists; reflexivity. Qed.

  Lemma to_res_not_eof s x b : to_res s x <> Eof b.
  Proof. destruct s; cbn; discriminate. Qed.

  Lemma eof_only_readat n : forall m b, eval n m = Eof b -> exists len off, m = MReadAt len off.
  Proof.
    assert (Hplain : forall m b, plain D m = Eof b -> exists len off, m = MReadAt len off).
    { intros m b H. destruct m; cbn [plain] in H; try discriminate; try (eexists; eexists; reflexivity);
        destruct (Nat.ltb _ _); discriminate. }
    assert (Hstream : forall dg src m b, streamkind D flt dg src m = Eof b -> exists len off, m = MReadAt len off).
    { intros dg src m b H. destruct m; cbn [streamkind] in H; try (eexists; eexists; reflexivity);
        try (exfalso; eapply to_res_not_eof; exact H); try discriminate.
      - destruct dg; discriminate.
      - destruct dg; [|discriminate]. destruct (Nat.ltb _ _); [discriminate|]. exfalso; eapply to_res_not_eof; exact H.
      - destruct dg; [|discriminate]. destruct (Nat.ltb _ _); [discriminate|]. exfalso; eapply to_res_not_eof; exact H.
      - destruct dg; [|discriminate]. destruct (Nat.ltb _ _); [discriminate|]. exfalso; eapply to_res_not_eof; exact H. }
    induction n; intros m b H.
    - eapply Hplain; exact H.
    - eapply Hplain; exact H.
    - destruct m; cbn in H; discriminate.
    - eapply Hplain; exact H.
    - eapply Hstream; exact H.
    - eapply Hstream; exact H.
    - (* NCloned *)
      assert (H0 : forall b', eval n (MChunks 0) <> Eof b').
      { intros b' E. destruct (IHn _ _ E) as (l & o & X). discriminate. }
      destruct m; cbn [Algebra.eval] in H; try (eexists; eexists; reflexivity);
        try (exfalso; eapply H0; exact H); try discriminate.
      + destruct dg; discriminate.
      + destruct dg; [|discriminate]. destruct (Nat.ltb _ _); [discriminate|]. exfalso; eapply H0; exact H.
      + destruct dg; [|discriminate]. destruct (Nat.ltb _ _); [discriminate|]. exfalso; eapply H0; exact H.
      + destruct (eval n (MChunks 0)) eqn:E; try discriminate. exfalso; eapply H0; reflexivity.
    - (* NTask *)
      assert (Hgen : forall m', match eval n m' with Ok x => if Z.eqb terr 0 then Ok x else Err terr | r => r end = Eof b ->
                                 exists len off, m' = MReadAt len off).
      { intros m' H'. destruct (eval n m') eqn:E; try discriminate.
        - destruct (Z.eqb terr 0); discriminate.
        - eapply IHn; exact E. }
      destruct m; cbn [Algebra.eval] in H; try (eapply Hgen; exact H).
      + destruct dg; discriminate.
      + destruct (eval n MDiscard); discriminate.
    - (* NEH *)
      assert (Hgen : forall m', match eval n m' with Err c => Err (tr h c) | r => r end = Eof b ->
                                 exists len off, m' = MReadAt len off).
      { intros m' H'. destruct (eval n m') eqn:E; try discriminate. eapply IHn; exact E. }
      destruct m; cbn [Algebra.eval] in H; try (eapply Hgen; exact H);
        try (exfalso; eapply to_res_not_eof; exact H).
      + destruct dg; discriminate.
      + destruct dg; [|discriminate]. destruct (Nat.ltb _ _); [discriminate|]. exfalso; eapply to_res_not_eof; exact H.
      + destruct (to_res _ D) eqn:E; try discriminate.
        * destruct (Z.eqb _ 0); discriminate.
        * exfalso; eapply to_res_not_eof; exact E.
      + eapply IHn; exact H.
  Qed.

  (** The one exception: the data is fine, the method is ReadAt, the buffer is
      not trivially cloneable and the read hits end-of-file. *)
  Definition eof_exception (n : node) (m : meth) : Prop :=
    is_plain n = false /\ exists b, eval n m = Eof b.

  (** "Reports the task's error if the data itself was fine", with the
      exception explicit: *)
  Theorem task_error_reported_unless_eof n id terr m :
    terr <> 0 -> completing m -> success (eval n m) -> ~ eof_exception n m ->
    eval (withTask id terr n) m = Err terr.
  Proof.
    intros Ht Hc Hs Hx. rewrite (withTask_exact n id terr m Ht Hc).
    destruct (is_plain n) eqn:Ep; [reflexivity|].
    destruct (eval n m) eqn:E; cbn in Hs; try contradiction; [reflexivity|].
    exfalso. apply Hx. split; [exact Ep|eexists; exact E].
  Qed.

  (** ... and in the exceptional case the task's error is dropped: the caller
      gets the bytes and io.EOF as if the task had succeeded. *)
  Theorem task_error_dropped_at_readat_eof n id terr m :
    terr <> 0 -> eof_exception n m ->
    exists len off b, m = MReadAt len off /\ eval n m = Eof b /\
                      eval (withTask id terr n) m = Eof b.
  Proof.
    intros Ht [Ep [b E]]. destruct (eof_only_readat n m b E) as (len & off & ->).
    exists len, off, b. split; [reflexivity|]. split; [exact E|].
    rewrite (withTask_exact n id terr _ Ht); [|split; discriminate].
    rewrite Ep, E. reflexivity.
  Qed.

  (** Exact characterisation, all results: the task's error is what the
      caller sees iff the buffer was trivially cloneable, or the data was fine
      ([Ok]), or the data error happens to be the same code. *)
  Theorem task_error_reported_iff n id terr m :
    terr <> 0 -> completing m ->
    (eval (withTask id terr n) m = Err terr <->
     is_plain n = true \/ (exists x, eval n m = Ok x) \/ eval n m = Err terr).
  Proof.
    intros Ht Hc. rewrite (withTask_exact n id terr m Ht Hc).
    destruct (is_plain n); [split; [left; reflexivity|reflexivity]|].
    destruct (eval n m) eqn:E; split; intros H; try discriminate; try reflexivity.
    - destruct H as [H|[[x H]|H]]; discriminate.
    - right; left; eexists; reflexivity.
    - destruct H as [H|[[x H]|H]]; discriminate.
    - right; right; exact H.
    - destruct H as [H|[[x H]|H]]; try discriminate; exact H.
  Qed.

  (** A data error takes precedence (any node that is not trivially cloneable). *)
  Theorem data_error_first n id terr m c :
    terr <> 0 -> completing m -> is_plain n = false -> eval n m = Err c ->
    eval (withTask id terr n) m = Err c.
  Proof. intros Ht Hc Ep E. rewrite (withTask_exact n id terr m Ht Hc), Ep, E. reflexivity. Qed.

  (** ---- the streams used by an error-handling wrapper around the task ---- *)

  Theorem withTask_ustream n id terr : is_plain n = false -> (forall c, n <> NErr c) ->
    ustream D flt (withTask id terr n) ChunkMode =
      (match fst (ustream D flt n ChunkMode) with
       | SData v => if Z.eqb terr 0 then SData v else SErr terr | s => s end, 0) /\
    ustream D flt (withTask id terr n) ReaderMode =
      (fst (ustream D flt n ReaderMode),
       if Z.eqb (snd (ustream D flt n ReaderMode)) 0 then terr else snd (ustream D flt n ReaderMode)).
  Proof.
    intros Ep Hne. destruct n; cbn in Ep; try discriminate; try (exfalso; eapply Hne; reflexivity);
      split; reflexivity.
  Qed.

  (** ---- any depth: no handle derived from a buffer with a failed task ever
           reports plain success ---- *)

  Definition never_ok (n : node) : Prop :=
    forall m, completing m -> forall x, eval n m <> Ok x.

  Lemma never_ok_withTask_failing n id terr : terr <> 0 -> never_ok (withTask id terr n).
  Proof.
    intros Ht m Hc x. rewrite (withTask_exact n id terr m Ht Hc).
    destruct (is_plain n); [discriminate|]. destruct (eval n m); discriminate.
  Qed.

  Lemma never_ok_NTask b dg src id terr : never_ok b -> never_ok (NTask b dg src id terr).
  Proof.
    intros Hb m Hc x. pose proof (Hb m Hc) as H. destruct Hc as [H1 H2].
    destruct m; cbn [Algebra.eval]; try congruence;
      match goal with |- match ?e with _ => _ end <> _ => destruct e eqn:E; try discriminate; exfalso; eapply H; reflexivity end.
  Qed.

  Lemma never_ok_NTask_failing b dg src id terr : terr <> 0 -> never_ok (NTask b dg src id terr).
  Proof.
    intros Ht m [H1 H2] x. apply Z.eqb_neq in Ht.
    destruct m; cbn [Algebra.eval]; try congruence;
      match goal with |- match ?e with _ => _ end <> _ => destruct e; rewrite ?Ht; discriminate end.
  Qed.

  Lemma never_ok_NTask_inv b dg src id : never_ok (NTask b dg src id 0) -> never_ok b.
  Proof.
    intros H m Hc x E. apply (H m Hc x). destruct Hc as [H1 H2].
    destruct m; cbn [Algebra.eval]; try congruence; rewrite E; reflexivity.
  Qed.

  Lemma never_ok_NCloned b dg src nv : never_ok b -> never_ok (NCloned b dg src nv).
  Proof.
    intros Hb m [H1 H2] x. pose proof (Hb (MChunks 0) completing_chunks0) as H0.
    destruct m; cbn [Algebra.eval]; try congruence; try apply H0.
    - destruct (eval b (MChunks 0)) eqn:E; try discriminate. exfalso; eapply H0; reflexivity.
    - destruct dg; [|discriminate]. destruct (Nat.ltb _ _); [discriminate|apply H0].
    - destruct dg; [|discriminate]. destruct (Nat.ltb _ _); [discriminate|apply H0].
    - destruct (eval b (MChunks 0)) eqn:E; try discriminate. exfalso; eapply H0; reflexivity.
  Qed.

  Lemma never_ok_NCloned_inv b dg src nv nv' : never_ok (NCloned b dg src nv) -> never_ok (NCloned b dg src nv').
  Proof. intros H m Hc x. exact (H m Hc x). Qed.

  Lemma never_ok_NErr c : never_ok (NErr c).
  Proof. intros m Hc x. apply eval_NErr_not_ok. exact Hc. Qed.

  Lemma never_ok_task_cases b dg src id terr :
    never_ok (NTask b dg src id terr) -> terr <> 0 \/ never_ok b.
  Proof.
    intros H. destruct (Z.eq_dec terr 0) as [->|Hne]; [right|left; exact Hne].
    eapply never_ok_NTask_inv; exact H.
  Qed.

  Theorem never_ok_cloneStream fixed sv n : never_ok n -> never_ok (cloneStream fixed sv n).
  Proof.
    induction n; intros H; cbn [cloneStream]; try exact H.
    - apply never_ok_NCloned; exact H.
    - apply never_ok_NCloned; exact H.
    - unfold decorate.
      destruct (never_ok_task_cases _ _ _ _ _ H) as [Hne|Hb].
      + destruct fixed; apply never_ok_NTask_failing; exact Hne.
      + destruct fixed; apply never_ok_NTask; apply IHn; exact Hb.
    - apply never_ok_NCloned; exact H.
  Qed.

  Lemma never_ok_copy_generic max n r : never_ok n ->
    match eval n (MSlice max) with
    | Ok _ | Eof _ => BNode NBytes
    | Err c => BNode (NErr c)
    | Panic => BPanic
    end = BNode r -> never_ok r.
  Proof.
    intros H E. assert (Hc : completing (MSlice max)) by (split; discriminate).
    destruct (eval n (MSlice max)) eqn:Ev; try discriminate.
    - exfalso; eapply H; [exact Hc|exact Ev].
    - destruct (eof_only_readat _ _ _ Ev) as (l & o & X); discriminate.
    - inversion E. apply never_ok_NErr.
  Qed.

  Theorem never_ok_cloneCopy fixed max n r :
    never_ok n -> cloneCopy D flt fixed max n = BNode r -> never_ok r.
  Proof.
    revert r. induction n; intros r H E; cbn [cloneCopy] in E;
      try (inversion E; subst; exact H);
      try (eapply never_ok_copy_generic; [exact H|exact E]).
    destruct (cloneCopy D flt fixed max n) as [|r'] eqn:Ec; [discriminate|].
    inversion E; subst r. unfold decorate.
    destruct (never_ok_task_cases _ _ _ _ _ H) as [Hne|Hb].
    - destruct fixed; apply never_ok_NTask_failing; exact Hne.
    - destruct fixed; apply never_ok_NTask; apply (IHn r' Hb eq_refl).
  Qed.

  Theorem never_ok_withTask n id terr : never_ok n -> never_ok (withTask id terr n).
  Proof.
    intros H. destruct n; cbn [withTask]; try exact H;
      try (exfalso; refine (H MWriter _ D _); [split; discriminate|reflexivity]);
      apply never_ok_NTask; exact H.
  Qed.

  (** ---- completion never before the task, at any depth ---- *)

  (** Tasks whose completion the copying performed by CloneCopy has itself
      waited for (those of a consumed stream); tasks of a task-decorated buffer
      stay attached to the copy. *)
  Fixpoint copy_waited (max : nat) (n : node) : list nat :=
    match n with
    | NBytes | NProto | NErr _ | NReaderAt => []
    | NTask b _ _ _ _ => copy_waited max b
    | _ => waits n (MSlice max)
    end.

  (** Ids of all tasks attached along a program. *)
  Fixpoint prog_tasks (p : prog) : list nat :=
    match p with
    | Base _ => []
    | CloneStreamL q _ | CloneStreamR q _ | CloneCopyL q _ _ | CloneCopyR q _ _ | WithEH q _ => prog_tasks q
    | WithTask q id _ => id :: prog_tasks q
    end.

  (** Tasks that have finished when the constructors of the program have
      returned: those run in the foreground by WithTask on a trivially
      cloneable or error buffer, and those a CloneCopy waited for. *)
  Fixpoint finished_at_build (p : prog) : list nat :=
    match p with
    | Base _ => []
    | CloneStreamL q _ | CloneStreamR q _ | WithEH q _ => finished_at_build q
    | CloneCopyL q max _ | CloneCopyR q max _ =>
        finished_at_build q ++
        match build D flt true q with BNode n => copy_waited max n | BPanic => [] end
    | WithTask q id _ =>
        finished_at_build q ++
        match build D flt true q with
        | BNode (NBytes | NProto | NReaderAt | NErr _) => [id]
        | _ => []
        end
    end.

  Lemma tasks_cloneCopy max n r : cloneCopy D flt true max n = BNode r ->
    incl (tasks n) (copy_waited max n ++ tasks r).
  Proof.
    assert (Hc : completing (MSlice max)) by (split; discriminate).
    revert r. induction n; intros r E; cbn [cloneCopy] in E;
      try (inversion E; subst; cbn; apply incl_refl);
      try (apply incl_appl; apply tasks_waited; exact Hc).
    destruct (cloneCopy D flt true max n) as [|r'] eqn:Ec; [discriminate|].
    inversion E; subst r. cbn [tasks copy_waited decorate].
    specialize (IHn r' eq_refl). intros a [<-|Ha].
    - apply in_or_app. right. left. reflexivity.
    - apply IHn in Ha. apply in_app_or in Ha. apply in_or_app.
      destruct Ha as [Ha|Ha]; [left; exact Ha|right; right; exact Ha].
  Qed.

  Lemma tasks_withEH h n : tasks (withEH h n) = tasks n.
  Proof. destruct n; reflexivity. Qed.

  (** Every task attached anywhere along the program has either finished
      before the constructors returned or is still attached to the result. *)
  Theorem prog_tasks_accounted p n : build D flt true p = BNode n ->
    incl (prog_tasks p) (finished_at_build p ++ tasks n).
  Proof.
    revert n. induction p; intros n H; cbn [build] in H; cbn [prog_tasks finished_at_build].
    - intros a [].
    - destruct (build D flt true p) as [|n0]; [discriminate|]. cbn in H. inversion H; subst n.
      intros a Ha. apply (IHp n0 eq_refl) in Ha. apply in_app_or in Ha. apply in_or_app.
      destruct Ha as [Ha|Ha]; [left; exact Ha|right; apply task_kept_by_cloneStream; exact Ha].
    - destruct (build D flt true p) as [|n0]; [discriminate|]. cbn in H. inversion H; subst n.
      intros a Ha. apply (IHp n0 eq_refl) in Ha. apply in_app_or in Ha. apply in_or_app.
      destruct Ha as [Ha|Ha]; [left; exact Ha|right; apply task_kept_by_cloneStream; exact Ha].
    - destruct (build D flt true p) as [|n0]; [discriminate|]. cbn [bbind] in H.
      intros a Ha. apply (IHp n0 eq_refl) in Ha. rewrite <- app_assoc. apply in_app_or in Ha. apply in_or_app.
      destruct Ha as [Ha|Ha]; [left; exact Ha|right; apply (tasks_cloneCopy _ _ _ H); exact Ha].
    - destruct (build D flt true p) as [|n0]; [discriminate|]. cbn [bbind] in H.
      intros a Ha. apply (IHp n0 eq_refl) in Ha. rewrite <- app_assoc. apply in_app_or in Ha. apply in_or_app.
      destruct Ha as [Ha|Ha]; [left; exact Ha|right; apply (tasks_cloneCopy _ _ _ H); exact Ha].
    - destruct (build D flt true p) as [|n0]; [discriminate|]. cbn in H. inversion H; subst n.
      specialize (IHp n0 eq_refl). rewrite <- app_assoc.
      intros a [<-|Ha].
      + apply in_or_app. right. destruct n0; cbn [withTask]; try destruct (Z.eqb terr 0);
          cbn; auto.
      + apply IHp in Ha. apply in_app_or in Ha. apply in_or_app.
        destruct Ha as [Ha|Ha]; [left; exact Ha|right]. apply in_or_app. right.
        destruct n0; cbn [withTask]; try destruct (Z.eqb terr 0); cbn in Ha |- *; auto.
    - destruct (build D flt true p) as [|n0]; [discriminate|]. cbn in H. inversion H; subst n.
      rewrite tasks_withEH. apply IHp. reflexivity.
  Qed.

  (** Completion is never reported before the tasks have finished: for every
      program of any depth (clones of clones of ... a buffer with tasks), on
      the object it builds, a completing method — whatever its result, in
      particular a successful one — returns only after every task attached
      anywhere along the program has finished. *)
  Theorem completion_not_before_task p n m :
    build D flt true p = BNode n -> completing m ->
    incl (prog_tasks p) (finished_at_build p ++ waits n m).
  Proof.
    intros H Hc a Ha. apply (prog_tasks_accounted p n H) in Ha.
    apply in_app_or in Ha. apply in_or_app. destruct Ha as [Ha|Ha]; [left; exact Ha|right].
    apply (tasks_waited n m Hc). exact Ha.
  Qed.

  (** The handles given to sibling consumers are objects built by
      sub-programs, so the theorem above covers them as well. *)
  Inductive subprog : prog -> prog -> Prop :=
  | sub_refl p : subprog p p
  | sub_csl q p sib : subprog q p -> subprog q (CloneStreamL p sib)
  | sub_csr q p sib : subprog q p -> subprog q (CloneStreamR p sib)
  | sub_ccl q p max sib : subprog q p -> subprog q (CloneCopyL p max sib)
  | sub_ccr q p max sib : subprog q p -> subprog q (CloneCopyR p max sib)
  | sub_task q p id terr : subprog q p -> subprog q (WithTask p id terr)
  | sub_eh q p h : subprog q p -> subprog q (WithEH p h).

  Theorem siblings_are_subprograms p h : In h (siblings D flt true p) ->
    exists q, subprog q p /\ fst h = build D flt true q.
  Proof.
    induction p; cbn [siblings]; intros Hin; try contradiction;
      try (apply in_app_or in Hin; destruct Hin as [Hin|[<-|[]]];
           [destruct (IHp Hin) as (q & Hs & Hq); exists q; split; [constructor; exact Hs|exact Hq]
           |eexists; split; [apply sub_refl|reflexivity]]);
      destruct (IHp Hin) as (q & Hs & Hq); exists q; (split; [constructor; exact Hs|exact Hq]).
  Qed.

  Theorem completion_not_before_task_siblings p h n :
    In h (siblings D flt true p) -> fst h = BNode n -> completing (snd h) ->
    exists q, subprog q p /\ incl (prog_tasks q) (finished_at_build q ++ waits n (snd h)).
  Proof.
    intros Hin Hn Hc. destruct (siblings_are_subprograms p h Hin) as (q & Hs & Hq).
    exists q. split; [exact Hs|]. apply completion_not_before_task; [rewrite <- Hq; exact Hn|exact Hc].
  Qed.
End T.

(** The exception exists: a CAS reader buffer with a failed task, ReadAt of 5
    bytes at offset 0 of a 3-byte object. *)
Example readat_eof_drops_task_error :
  let n := NReader (Some 3%nat) (Some 13) in
  eval [1; 2; 3] FNone n (MReadAt 5 0) = Eof [1; 2; 3] /\
  eval [1; 2; 3] FNone (withTask 0 14 n) (MReadAt 5 0) = Eof [1; 2; 3] /\
  eval [1; 2; 3] FNone (withTask 0 14 n) (MReadAt 3 0) = Err 14 /\
  run [1; 2; 3] FNone true (WithTask (Base KReader) 0 14) (MReadAt 5 0) = Eof [1; 2; 3].
Proof. vm_compute. repeat split; reflexivity. Qed.
