(** C09 (completion) — NewCASBufferFromChunkReader, the "otherwise" half for
    EVERY consumption method: callback verdicts are sound in every case (no
    fuel hypothesis); for invalid content the error is [expected_err], and
    fewer than [size] bytes (counted from the method's offset) are handed out;
    a bad parameter is rejected with INVALID_ARGUMENT before anything is read. *)
From Coq Require Import List ZArith NArith Bool Lia.
From BBS Require Import Common.Sx Buffer.Source Buffer.Validate Buffer.Convert Buffer.StreamProofs
  Buffer.ValidateProofs Buffer.ValidateReaderProofs Buffer.ConvertProofs Buffer.ReaderBufferProofs
  Buffer.ConvertProofs2 Buffer.C09FullValidate Buffer.C09FullCombinators Run.R09.
Import ListNotations.
Open Scope N_scope.

(** methods through which data reaches the consumer before the stream's end is known *)
Definition streams (m : meth) : bool :=
  match m with MIntoWriter | MToChunkReader _ _ _ | MToReader _ _ => true | _ => false end.

Lemma content_term evs : snd (content evs) = EEof \/ exists c, snd (content evs) = ECode c.
Proof.
  induction evs as [|[bs|c|] r IH]; cbn [content]; auto.
  - destruct (content r) as [c e]. exact IH.
  - right. eexists. reflexivity.
Qed.

Lemma expected_not_done cfg evs :
  let e := expected_err cfg (fst (content evs)) (snd (content evs)) in
  e <> ENone /\ e <> EEof /\ e <> EUnexp /\ e <> EFuel.
Proof.
  unfold expected_err. destruct (g_size cfg <? lenN (fst (content evs))); [rsplit; congruence|].
  destruct (content_term evs) as [->|(c & ->)]; rsplit; congruence.
Qed.

Lemma lenN_dropN n l : n <= lenN l -> lenN (dropN n l) = lenN l - n.
Proof.
  intros Hn. pose proof (takeN_dropN n l) as E. apply (f_equal lenN) in E.
  rewrite lenN_app, lenN_takeN in E. lia.
Qed.

(** * Close() does not disturb the invariant of a scripted source *)
Lemma csrc_read_close s : csrc_read (csrc_close s) = (fst (csrc_read s), csrc_close (snd (csrc_read s))).
Proof. destruct s as [rest k]. unfold csrc_read, csrc_close. cbn. destruct rest as [|[bs|c|] r]; reflexivity. Qed.

Lemma pulls_close s bs s' : pulls csrc_read s bs s' -> pulls csrc_read (csrc_close s) bs (csrc_close s').
Proof.
  induction 1 as [s|s c s1 bs s2 Hr _ IH]; [constructor|].
  econstructor; [|exact IH]. rewrite csrc_read_close, Hr. reflexivity.
Qed.
Lemma drains_close s bs e s' : drains csrc_read s bs e s' -> drains csrc_read (csrc_close s) bs e (csrc_close s').
Proof.
  induction 1 as [s c e s1 Hr Hne|s c s1 bs e s2 Hr _ IH].
  - eapply drains_end; [|exact Hne]. rewrite csrc_read_close, Hr. reflexivity.
  - eapply drains_step; [|exact IH]. rewrite csrc_read_close, Hr. reflexivity.
Qed.

Section ChunkOtherwise.
  Variable H : bytes -> bytes.
  Variable cfg : vcfg.
  Variable fuel : nat.

  Notation I2 := (Inv2 H cfg csrc csrc_read).
  Notation rdv := (cv_read H cfg fuel).

  Lemma valid_stream_shift evs k k' :
    valid_stream H cfg csrc_read (mkCsrc evs k) <-> valid_stream H cfg csrc_read (mkCsrc evs k').
  Proof. rewrite !valid_stream_script. reflexivity. Qed.

  Lemma origin2_close evs k e :
    origin2 H cfg csrc csrc_read (mkCsrc evs k) e -> origin2 H cfg csrc csrc_read (mkCsrc evs (S k)) e.
  Proof.
    intros [->|[(-> & Hnv & Hw)|(Hne & bs & u' & Hd & Hl)]]; [left; reflexivity|right; left|right; right].
    - rsplit; auto.
      + intros Hv. apply Hnv. apply (valid_stream_shift evs k (S k)). exact Hv.
      + destruct Hw as [(bs & u & Hp & Hl)|(bs & u & Hd)].
        * left. exists bs, (csrc_close u). split; [exact (pulls_close _ _ _ Hp)|exact Hl].
        * right. exists bs, (csrc_close u). exact (drains_close _ _ _ _ Hd).
    - split; [exact Hne|]. exists bs, (csrc_close u'). split; [exact (drains_close _ _ _ _ Hd)|exact Hl].
  Qed.

  Lemma Inv2_close evs k st out : I2 (mkCsrc evs k) st out -> I2 (mkCsrc evs (S k)) (cv_close st) out.
  Proof.
    intros [[Ht Hf] Hi]. split.
    - split; intros Hin.
      + apply (valid_stream_shift evs k (S k)). apply Ht. exact Hin.
      + intros Hv. apply (Hf Hin). apply (valid_stream_shift evs k (S k)). exact Hv.
    - change (v_err (cv_close st)) with (v_err st). destruct (v_err st).
      + destruct Hi as (Hp & Ha & Hl & Hpos). rsplit; auto. exact (pulls_close _ _ _ Hp).
      + destruct Hi as ((u & Hd) & Hl & Hh). rsplit; auto. exists (csrc_close u). exact (drains_close _ _ _ _ Hd).
      + destruct Hi as [Hb Ho]. split; [exact Hb|exact (origin2_close _ _ _ Ho)].
      + destruct Hi as [Hb Ho]. split; [exact Hb|exact (origin2_close _ _ _ Ho)].
      + destruct Hi as [Hb Ho]. split; [exact Hb|exact (origin2_close _ _ _ Ho)].
  Qed.

  (** the set of validator states no consumption method leaves *)
  Definition Pv (evs : list ev) (st : cvs) : Prop := exists k out, I2 (mkCsrc evs k) st out.

  Lemma Pv_init evs : Pv evs (cv_init cfg evs).
  Proof. exists 0%nat, []. apply Inv2_init. Qed.
  Lemma Pv_close evs st : Pv evs st -> Pv evs (cv_close st).
  Proof. intros (k & out & Hi). exists (S k), out. exact (Inv2_close _ _ _ _ Hi). Qed.
  Lemma Pv_read evs : agree (Pv evs) rdv rdv.
  Proof.
    intros st (k & out & Hi). split; [reflexivity|].
    destruct (rdv st) as [[c e] st'] eqn:Hr. cbn [snd]. unfold cv_read in Hr.
    pose proof (vcr_read_step2 _ _ _ _ _ _ _ _ _ _ _ Hi Hr) as Hs.
    destruct e; [exists k, (out ++ c); exact Hs|..]; exists k, out; apply Hs.
  Qed.
  Lemma Pv_cbs evs st : Pv evs st ->
    (In true (v_cbs st) -> valid_script H cfg evs) /\ (In false (v_cbs st) -> ~ valid_script H cfg evs).
  Proof.
    intros (k & out & [[Ht Hf] _]). split; intros Hin.
    - apply (valid_stream_script H cfg evs k). apply Ht. exact Hin.
    - intros Hv. apply (Hf Hin). apply (valid_stream_script H cfg evs k). exact Hv.
  Qed.
End ChunkOtherwise.

(** * Every method depends on the validated reader only through its reads *)
Section ChunkAgree.
  Variables H1 H2 : bytes -> bytes.
  Variable cfg : vcfg.
  Variable fuel : nat.
  Variable P : cvs -> Prop.
  Hypothesis Hag : agree P (cv_read H1 cfg fuel) (cv_read H2 cfg fuel).
  Hypothesis Hcl : forall s, P s -> P (cv_close s).

  Lemma cas_chunk_reader_agree evs m : P (cv_init cfg evs) ->
    cas_chunk_reader H1 cfg fuel evs m = cas_chunk_reader H2 cfg fuel evs m /\
    exists stf, P stf /\ o_cbs (cas_chunk_reader H1 cfg fuel evs m) = v_cbs stf.
  Proof.
    intros H0. destruct m; cbn [cas_chunk_reader].
    - destruct (to_byte_slice_cr_agree _ P _ _ cv_close Hag Hcl fuel (g_size cfg) max _ H0) as [E Hp]. rewrite <- E.
      destruct (to_byte_slice_cr (cv_read H1 cfg fuel) cv_close fuel (g_size cfg) max (cv_init cfg evs)) as [[out e] st].
      split; [reflexivity|]. exists st. split; [exact Hp|reflexivity].
    - destruct (into_writer_cr_agree _ P _ _ cv_close Hag Hcl fuel _ H0) as [E Hp]. rewrite <- E.
      destruct (into_writer_cr (cv_read H1 cfg fuel) cv_close fuel (cv_init cfg evs)) as [[out e] st].
      split; [reflexivity|]. exists st. split; [exact Hp|reflexivity].
    - destruct (read_at_cr_agree _ P _ _ cv_close Hag Hcl fuel plen off _ H0) as [E Hp]. rewrite <- E.
      destruct (read_at_cr (cv_read H1 cfg fuel) cv_close fuel plen off (cv_init cfg evs)) as [[out e] o].
      split; [reflexivity|]. exists (o_u o). split; [exact Hp|reflexivity].
    - destruct (valid_offset (g_size cfg) off).
      + destruct (offset_init_agree _ P _ _ cv_close Hag Hcl fuel off _ H0) as [E Ho]. rewrite <- E.
        set (o0 := offset_init (cv_read H1 cfg fuel) cv_close fuel off (cv_init cfg evs)) in *.
        pose proof (norm_read_agree _ (Po _ P) _ _ (offset_read_agree _ P _ _ Hag) max fuel) as Hagn.
        destruct (drain_agree _ _ _ _ Hagn fuel [] (mkNst o0 []) Ho) as [E2 Hn]. rewrite <- E2.
        destruct (drain (norm_read (offset_read (cv_read H1 cfg fuel)) fuel max) fuel [] (mkNst o0 [])) as [[out e] n].
        cbn [snd] in Hn.
        destruct (extra_reads_agree _ _ _ _ Hagn extra n Hn) as [E3 Hn2]. rewrite <- E3.
        destruct (extra_reads (norm_read (offset_read (cv_read H1 cfg fuel)) fuel max) extra n) as [ex n2].
        cbn [snd] in Hn2. split; [reflexivity|].
        exists (o_u (n_u (norm_close (offset_close cv_close) n2))). split; [|reflexivity].
        apply (norm_close_P _ (Po _ P) (offset_close cv_close) (offset_close_P _ P cv_close Hcl)). exact Hn2.
      + split; [reflexivity|]. exists (cv_close (cv_init cfg evs)). split; [apply Hcl; exact H0|reflexivity].
    - pose proof (cb_read_agree _ P _ _ Hag fuel) as Hagc.
      destruct (rconsume_agree _ _ _ _ Hagc fuel caps (last_cap caps) [] (mkCbst (cv_init cfg evs) []) H0) as [E Hs].
      rewrite <- E.
      destruct (rconsume (cb_read (cv_read H1 cfg fuel) fuel) fuel caps (last_cap caps) [] (mkCbst (cv_init cfg evs) [])) as [[out e] s].
      cbn [snd] in Hs.
      destruct (rextra_agree _ _ _ _ Hagc extra (last_cap caps) s Hs) as [E2 Hs2]. rewrite <- E2.
      destruct (rextra (cb_read (cv_read H1 cfg fuel) fuel) extra (last_cap caps) s) as [ex s2]. cbn [snd] in Hs2.
      split; [reflexivity|]. exists (cb_u (cb_close cv_close s2)). split; [|reflexivity].
      apply (cb_close_P _ P cv_close Hcl). exact Hs2.
    - destruct (to_byte_slice_cr_agree _ P _ _ cv_close Hag Hcl fuel (g_size cfg) max _ H0) as [E Hp]. rewrite <- E.
      destruct (to_byte_slice_cr (cv_read H1 cfg fuel) cv_close fuel (g_size cfg) max (cv_init cfg evs)) as [r st].
      split; [reflexivity|]. exists st. split; [exact Hp|].
      unfold clone_copy_of. destruct (snd r); reflexivity.
    - split; [reflexivity|]. exists (cv_close (cv_init cfg evs)). split; [apply Hcl; exact H0|reflexivity].
  Qed.
End ChunkAgree.

Section ChunkTheorems.
  Variable H : bytes -> bytes.
  Variable cfg : vcfg.
  Variable fuel : nat.
  Notation rdv := (cv_read H cfg fuel).
  Notation expected evs := (expected_err cfg (fst (content evs)) (snd (content evs))).

  (** ** callbacks: every method, every script, no hypothesis *)
  Theorem chunk_callbacks_sound evs m :
    (In true (o_cbs (cas_chunk_reader H cfg fuel evs m)) -> valid_script H cfg evs) /\
    (In false (o_cbs (cas_chunk_reader H cfg fuel evs m)) -> ~ valid_script H cfg evs).
  Proof.
    destruct (cas_chunk_reader_agree H H cfg fuel (Pv H cfg evs) (Pv_read H cfg fuel evs) (Pv_close H cfg evs) evs m
                (Pv_init H cfg evs)) as (_ & stf & Hp & ->).
    exact (Pv_cbs H cfg evs stf Hp).
  Qed.

  (** ** the end of the validated stream of an invalid script *)
  Lemma cv_terminal evs bs e st' :
    drains rdv (cv_init cfg evs) bs e st' -> ~ valid_script H cfg evs -> e <> EFuel ->
    e = expected evs /\ (lenN bs < g_size cfg \/ bs = []).
  Proof.
    intros Hd Hnv Hnf. unfold cv_read, cv_init in Hd.
    pose proof (Inv2_init H cfg csrc csrc_read (mkCsrc evs 0)) as Hi0.
    destruct (vcr_drains2 _ _ _ _ _ _ _ _ _ _ _ Hi0 Hd) as [Hi He]. cbn [app] in Hi.
    assert (Hnvs : ~ valid_stream H cfg csrc_read (mkCsrc evs 0))
      by (intros Hv; apply Hnv, (valid_stream_script H cfg evs 0), Hv).
    destruct (Inv2_invalid _ _ _ _ _ _ _ Hi Hnvs) as (Hb & _ & Ho). rewrite He in Ho.
    split; [|exact Hb]. destruct (csrc_drains evs 0) as (send & Hsrc).
    eapply origin2_expected; [apply Ho; exact (drains_not_none _ _ _ _ _ _ Hd)|exact Hnf|exact Hsrc].
  Qed.

  Lemma cv_terminal_not_eof evs bs st' :
    drains rdv (cv_init cfg evs) bs EEof st' -> ~ valid_script H cfg evs -> False.
  Proof. intros Hd Hnv. apply Hnv. exact (proj1 (cv_complete _ _ _ _ _ _ Hd)). Qed.

  (** the same behind newOffsetChunkReader(.., off) *)
  Lemma cv_offset_terminal evs off bs e o' :
    drains (offset_read rdv) (offset_init rdv cv_close fuel off (cv_init cfg evs)) bs e o' ->
    (0 <= off)%Z -> e <> EFuel -> ~ valid_script H cfg evs ->
    e = expected evs /\ (bs = [] \/ Z.to_N off + lenN bs < g_size cfg).
  Proof.
    unfold offset_init. intros Hdo Hoff Hnf Hnv.
    destruct (off <? 0)%Z eqn:Hneg; [apply Z.ltb_lt in Hneg; lia|].
    destruct (discard_from_chunk_reader rdv fuel (Z.to_N off) (cv_init cfg evs)) as [[prefix e0] s'] eqn:Hdis.
    assert (Hfail : e0 <> ENone ->
              drains (offset_read rdv) (mkOst (cv_close s') [] e0) bs e o' ->
              e = expected evs /\ (bs = [] \/ Z.to_N off + lenN bs < g_size cfg)).
    { intros Hne Hdo'.
      destruct (offset_fixed_drains _ _ _ _ _ _ Hdo') as (Ee & ->); [exact Hne|]. cbn in Ee. subst e0.
      destruct (discard_fails _ _ _ _ _ _ _ _ Hdis Hne Hnf) as (bs0 & Hd0 & Hl0).
      split; [|left; reflexivity]. exact (proj1 (cv_terminal _ _ _ _ Hd0 Hnv Hnf)). }
    destruct e0; try (apply Hfail; [congruence|exact Hdo]).
    destruct (discard_pulls _ _ _ _ _ _ _ Hdis) as (bs0 & Hp0 & -> & Hle).
    destruct (offset_drains _ _ _ _ _ _ _ Hdo) as (bs2 & -> & Hd2).
    pose proof (pulls_drains _ _ _ _ _ _ _ _ Hp0 Hd2) as Hall.
    destruct (cv_terminal _ _ _ _ Hall Hnv Hnf) as (He & Hb). split; [exact He|].
    destruct Hb as [Hb|Hb].
    - right. rewrite lenN_app in *. rewrite lenN_dropN by exact Hle. lia.
    - apply app_eq_nil in Hb. destruct Hb as [-> ->]. left. reflexivity.
  Qed.

  (** ** invalid content, sane parameters: the error and the withheld tail *)
  Theorem chunk_otherwise evs m o :
    m <> MDiscard -> cas_chunk_reader H cfg fuel evs m = o -> o_err o <> EFuel ->
    ~ valid_script H cfg evs -> bad_param (g_size cfg) m = false ->
    o_err o = expected evs /\
    (o_data o = [] \/ Z.to_N (m_off m) + lenN (o_data o) < g_size cfg) /\
    (streams m = false -> o_data o = []).
  Proof.
    intros Hm Ho Hnf Hnv Hbp.
    destruct (expected_not_done cfg evs) as (Hx1 & Hx2 & Hx3 & Hx4).
    destruct m; try congruence; cbn [cas_chunk_reader] in Ho; cbn [bad_param m_off streams] in *.
    - (* ToByteSlice *)
      unfold to_byte_slice_cr in Ho. rewrite Hbp in Ho.
      destruct (drain rdv fuel [] (cv_init cfg evs)) as [[out e] s'] eqn:Hd. subst o. cbn [o_err o_data cv_out] in *.
      assert (Hne : e <> EFuel) by (destruct e; cbn in Hnf; congruence).
      destruct (drain_drains _ _ _ _ _ _ _ _ Hd Hne) as (bs & -> & Hds).
      destruct (cv_terminal _ _ _ _ Hds Hnv Hne) as (He & Hb).
      destruct e; try congruence; cbn; auto.
    - (* IntoWriter *)
      unfold into_writer_cr in Ho.
      destruct (drain rdv fuel [] (cv_init cfg evs)) as [[out e] s'] eqn:Hd. subst o. cbn [o_err o_data cv_out] in *.
      assert (Hne : e <> EFuel) by (destruct e; cbn in Hnf; congruence).
      destruct (drain_drains _ _ _ _ _ _ _ _ Hd Hne) as (bs & -> & Hds). cbn [app].
      destruct (cv_terminal _ _ _ _ Hds Hnv Hne) as (He & Hb).
      destruct e; try congruence; cbn; (rsplit; [assumption| |discriminate]);
        (destruct Hb as [Hb|Hb]; [right; cbn; lia|left; exact Hb]).
    - (* ReadAt *)
      apply Z.ltb_ge in Hbp. unfold read_at_cr in Ho.
      set (o0 := offset_init rdv cv_close fuel off (cv_init cfg evs)) in *.
      assert (Hterm : forall bs e o', drains (offset_read rdv) o0 bs e o' -> e <> EFuel -> e = expected evs).
      { intros bs e o' Hd Hne. exact (proj1 (cv_offset_terminal _ _ _ _ _ Hd Hbp Hne Hnv)). }
      destruct (read_at_fill rdv fuel plen [] o0) as [[got e] o1] eqn:Hfill.
      destruct (read_at_fill_spec _ _ _ _ _ _ _ _ _ Hfill) as [Hok Hko]. cbn [app] in *.
      assert (Hdirect : e <> ENone -> e <> EFuel -> e = expected evs).
      { intros Hn1 Hn2. destruct (Hko Hn1 Hn2) as (bs & Hd & _). exact (Hterm _ _ _ Hd Hn2). }
      destruct e.
      + destruct (Hok eq_refl) as (bs1 & Hp1 & -> & Hle).
        destruct (drain (offset_read rdv) fuel [] o1) as [[out2 e2] o2] eqn:Hdr. subst o.
        cbn [o_err o_data cv_out fst snd] in *.
        assert (Hne : e2 <> EFuel) by (destruct e2; cbn in Hnf; congruence).
        destruct (drain_drains _ _ _ _ _ _ _ _ Hdr Hne) as (bs2 & _ & Hd2).
        pose proof (Hterm _ _ _ (pulls_drains _ _ _ _ _ _ _ _ Hp1 Hd2) Hne) as He.
        destruct e2; try congruence; cbn; auto.
      + exfalso. apply Hx2. symmetry. apply Hdirect; congruence.
      + subst o. cbn [o_err o_data cv_out]. rsplit; auto. apply Hdirect; congruence.
      + subst o. cbn [o_err o_data cv_out]. rsplit; auto. apply Hdirect; congruence.
      + subst o. cbn in Hnf. congruence.
    - (* ToChunkReader *)
      apply negb_false_iff in Hbp. rewrite Hbp in Ho.
      unfold valid_offset in Hbp. apply andb_true_iff in Hbp. destruct Hbp as [Hv0 Hv1]. apply Z.leb_le in Hv0.
      set (o0 := offset_init rdv cv_close fuel off (cv_init cfg evs)) in *.
      destruct (drain (norm_read (offset_read rdv) fuel max) fuel [] (mkNst o0 [])) as [[out e] n] eqn:Hd.
      destruct (extra_reads (norm_read (offset_read rdv) fuel max) extra n) as [ex n2]. subst o.
      cbn [o_err o_data cv_out] in *.
      destruct (drain_drains _ _ _ _ _ _ _ _ Hd Hnf) as (bs & -> & Hds). cbn [app].
      apply norm_drains in Hds; [|exact Hnf]. destruct Hds as (bs1 & E & Hdo). cbn [n_last n_u app] in E, Hdo. subst bs1.
      destruct (cv_offset_terminal _ _ _ _ _ Hdo Hv0 Hnf Hnv) as (He & Hb).
      rsplit; [exact He|exact Hb|discriminate].
    - (* ToReader *)
      destruct (rconsume (cb_read rdv fuel) fuel caps (last_cap caps) [] (mkCbst (cv_init cfg evs) [])) as [[out e] s] eqn:Hrc.
      destruct (rextra (cb_read rdv fuel) extra (last_cap caps) s) as [ex s2]. subst o.
      cbn [o_err o_data cv_out] in *.
      destruct (rconsume_rdrains _ _ _ _ _ _ _ _ _ _ Hrc Hnf) as (bs & -> & Hd). cbn [app].
      destruct (cb_rdrains _ _ _ _ _ _ _ Hd Hnf) as (bs2 & Hd2 & ->). cbn [cb_u cb_last app] in *.
      destruct (cv_terminal _ _ _ _ Hd2 Hnv Hnf) as (He & Hb).
      rsplit; [exact He| |discriminate]. destruct Hb as [Hb|Hb]; [right; cbn; lia|left; exact Hb].
    - (* CloneCopy *)
      unfold to_byte_slice_cr in Ho. rewrite Hbp in Ho.
      destruct (drain rdv fuel [] (cv_init cfg evs)) as [[out e] s'] eqn:Hd. subst o.
      assert (Hne : e <> EFuel) by (destruct e; cbn in Hnf; congruence).
      destruct (drain_drains _ _ _ _ _ _ _ _ Hd Hne) as (bs & -> & Hds).
      destruct (cv_terminal _ _ _ _ Hds Hnv Hne) as (He & Hb).
      destruct e; try congruence; cbn; auto.
  Qed.

  (** ** a bad parameter is rejected with INVALID_ARGUMENT, nothing is read *)
  Theorem chunk_bad_param evs m o :
    cas_chunk_reader H cfg fuel evs m = o -> o_err o <> EFuel -> bad_param (g_size cfg) m = true ->
    o_err o = ECode 3 /\ o_data o = [] /\ o_cbs o = [] /\ o_aux o = [].
  Proof.
    intros Ho Hnf Hbp. destruct m; cbn [bad_param] in Hbp; try discriminate; cbn [cas_chunk_reader] in Ho.
    - unfold to_byte_slice_cr in Ho. rewrite Hbp in Ho. subst o. cbn. auto.
    - unfold read_at_cr, offset_init in Ho. rewrite Hbp in Ho.
      set (o0 := mkOst (cv_close (cv_init cfg evs)) [] (ECode 3)) in *.
      assert (Hfix : forall bs e o', drains (offset_read rdv) o0 bs e o' -> e = ECode 3 /\ o' = o0).
      { intros bs e o' Hd. inversion Hd; subst; unfold offset_read in H0; cbn in H0; inv H0; auto. }
      destruct (read_at_fill rdv fuel plen [] o0) as [[got e] o1] eqn:Hfill.
      destruct (read_at_fill_spec _ _ _ _ _ _ _ _ _ Hfill) as [Hok Hko]. cbn [app] in *.
      assert (Hdirect : e <> ENone -> e <> EFuel -> e = ECode 3 /\ o1 = o0).
      { intros Hn1 Hn2. destruct (Hko Hn1 Hn2) as (bs & Hd & _). exact (Hfix _ _ _ Hd). }
      destruct e.
      + destruct (Hok eq_refl) as (bs1 & Hp1 & -> & Hle).
        assert (o1 = o0 /\ bs1 = []) as [-> ->].
        { inversion Hp1; subst; auto. unfold offset_read in H0. cbn in H0. inv H0. }
        destruct (drain (offset_read rdv) fuel [] o0) as [[out2 e2] o2] eqn:Hdr. subst o.
        cbn [o_err o_data o_cbs o_aux cv_out fst snd] in *.
        assert (Hne : e2 <> EFuel) by (destruct e2; cbn in Hnf; congruence).
        destruct (drain_drains _ _ _ _ _ _ _ _ Hdr Hne) as (bs2 & _ & Hd2).
        destruct (Hfix _ _ _ Hd2) as (-> & ->). cbn. auto.
      + destruct Hdirect; congruence.
      + destruct Hdirect; congruence.
      + destruct Hdirect as [Hc ->]; try congruence. subst o. cbn. rewrite Hc. auto.
      + subst o. cbn in Hnf. congruence.
    - apply negb_true_iff in Hbp. rewrite Hbp in Ho. subst o. cbn. auto.
    - unfold to_byte_slice_cr in Ho. rewrite Hbp in Ho. subst o. cbn. auto.
  Qed.
End ChunkTheorems.
