(** C16 — buffer.WithErrorHandler: the error handler as a scripted oracle,
    immediate application on error / byte-slice buffers, casErrorHandlingBuffer
    (tryRepeatedly, errorHandlingChunkReader, errorHandlingReader with the
    delivered offset), validation layered above the stitched stream.
    Definitions only; builds on the C09 model. *)
From Coq Require Import List ZArith NArith Bool.
From BBS Require Import Buffer.Source Buffer.Validate Buffer.Convert.
Import ListNotations.
Open Scope N_scope.

(** A buffer the harness can hand to WithErrorHandler or return from OnError.
    All CAS buffers of one case share the digest and the Source. *)
Inductive bufscript :=
| BChunk (evs : list ev)                    (* NewCASBufferFromChunkReader *)
| BReader (evs : list ev) (attach : bool)   (* NewCASBufferFromReader *)
| BBytes (data : bytes)                     (* NewValidatedBufferFromByteSlice *)
| BError (c : Z).                           (* NewBufferFromError *)

Inductive answer := Replace (b : bufscript) | Fail (c : Z).
Inductive hev := HOnError (e : err) | HDone.

(** the handler: remaining answers and the calls it has received *)
Record hst := mkHst { h_answers : list answer; h_log : list hev }.
Definition on_error (h : hst) (e : err) : answer * hst :=
  match h_answers h with
  | [] => (Fail 10, mkHst [] (h_log h ++ [HOnError e]))
  | a :: r => (a, mkHst r (h_log h ++ [HOnError e]))
  end.
Definition done (h : hst) : hst := mkHst (h_answers h) (h_log h ++ [HDone]).

(** * toUnvalidatedChunkReader(off, max) of each buffer kind *)
Inductive ucr :=
| UNorm (n : nst (ost csrc))
| URb (r : rbst rsrc)
| UBs (data : bytes)
| UErr (e : err).

Definition ucr_open (fuel : nat) (b : bufscript) (off : N) : ucr :=
  match b with
  | BChunk evs => UNorm (mkNst (offset_init csrc_read csrc_close fuel (Z.of_N off) (mkCsrc evs 0)) [])
  | BReader evs attach =>
      let '(e, s) := discard_from_reader rsrc_read fuel (Z.of_N off) (mkRsrc evs attach 0) in
      match e with ENone => URb (mkRbst s ENone) | _ => UErr e end
  | BBytes data => if off <=? lenN data then UBs (dropN off data) else UErr (ECode 3)
  | BError c => UErr (ECode c)
  end.
Definition ucr_read (fuel : nat) (max : N) (u : ucr) : (bytes * err) * ucr :=
  match u with
  | UNorm n => let '(r, n') := norm_read (offset_read csrc_read) fuel max n in (r, UNorm n')
  | URb r => let '(x, r') := rb_read rsrc_read fuel max r in (x, URb r')
  | UBs d => let '(x, d') := bs_read max d in (x, UBs d')
  | UErr e => (([], e), u)
  end.

(** * errorHandlingChunkReader *)
Record ehc := mkEhc { ec_cur : ucr; ec_off : N; ec_h : hst }.
Definition ehc_init (ifuel : nat) (b : bufscript) (h : hst) : ehc := mkEhc (ucr_open ifuel b 0) 0 h.
(** [ifuel] bounds the loops of the readers underneath, [fuel] the number of
    replacements tried within one Read. *)
Fixpoint ehc_read (ifuel fuel : nat) (max : N) (r : ehc) : (bytes * err) * ehc :=
  match fuel with
  | O => (([], EFuel), r)
  | Datatypes.S f =>
      let '((chunk, e), cur') := ucr_read ifuel max (ec_cur r) in
      match e with
      | ENone => ((chunk, ENone), mkEhc cur' (ec_off r + lenN chunk) (ec_h r))
      | EEof => (([], EEof), mkEhc cur' (ec_off r) (ec_h r))
      | _ =>
          let '(a, h') := on_error (ec_h r) e in
          match a with
          | Fail c => (([], ECode c), mkEhc cur' (ec_off r) h')
          | Replace b => ehc_read ifuel f max (mkEhc (ucr_open ifuel b (ec_off r)) (ec_off r) h')
          end
      end
  end.
Definition ehc_close (r : ehc) : ehc := mkEhc (ec_cur r) (ec_off r) (done (ec_h r)).

(** * toUnvalidatedReader(off) of each buffer kind, errorHandlingReader *)
Inductive urd :=
| RCb (c : cbst (ost csrc))
| RRaw (s : rsrc)
| RBb (data : bytes)
| RErr (e : err).
Definition urd_open (fuel : nat) (b : bufscript) (off : N) : urd :=
  match b with
  | BChunk evs => RCb (mkCbst (offset_init csrc_read csrc_close fuel (Z.of_N off) (mkCsrc evs 0)) [])
  | BReader evs attach =>
      let '(e, s) := discard_from_reader rsrc_read fuel (Z.of_N off) (mkRsrc evs attach 0) in
      match e with ENone => RRaw s | _ => RErr e end
  | BBytes data => if off <=? lenN data then RBb (dropN off data) else RErr (ECode 3)
  | BError c => RErr (ECode c)
  end.
Definition urd_read (fuel : nat) (cap : N) (u : urd) : (bytes * err) * urd :=
  match u with
  | RCb c => let '(x, c') := cb_read (offset_read csrc_read) fuel cap c in (x, RCb c')
  | RRaw s => let '(x, s') := rsrc_read cap s in (x, RRaw s')
  | RBb d => let '(x, d') := bb_read cap d in (x, RBb d')
  | RErr e => (([], e), u)
  end.

Record ehr := mkEhr { er_cur : urd; er_off : N; er_h : hst }.
Definition ehr_init (fuel : nat) (b : bufscript) (h : hst) : ehr := mkEhr (urd_open fuel b 0) 0 h.
Definition ehr_read (fuel : nat) (cap : N) (r : ehr) : (bytes * err) * ehr :=
  let '((data, e), cur') := urd_read fuel cap (er_cur r) in
  let off' := er_off r + lenN data in
  match e with
  | ENone | EEof => ((data, e), mkEhr cur' off' (er_h r))
  | _ =>
      let '(a, h') := on_error (er_h r) e in
      match a with
      | Fail c => ((data, ECode c), mkEhr cur' off' h')
      | Replace b => ((data, ENone), mkEhr (urd_open fuel b off') off' h')
      end
  end.
Definition ehr_close (r : ehr) : ehr := mkEhr (er_cur r) (er_off r) (done (er_h r)).

(** * Outcome of one case *)
Record outcome16 := mkOut16 {
  x_data : bytes; x_err : err; x_extra : list err; x_cbs : list bool; x_log : list hev; x_aux : bytes
}.

Section ErrorHandling.
  Variable H : bytes -> bytes.
  Variable cfg : vcfg.
  Variable fuel : nat.
  Let size := g_size cfg.

  (** a method applied to a buffer without error handler (C09) *)
  Definition plain (b : bufscript) (m : meth) : outcome :=
    match b with
    | BChunk evs => cas_chunk_reader H cfg fuel evs m
    | BReader evs attach => cas_reader H cfg fuel evs attach m
    | BBytes data => byte_slice_buffer fuel data [] 0 m
    | BError c => error_buffer (ECode c) [] 0 m
    end.

  (** WithErrorHandler: [inl] a stream buffer wrapped into a
      casErrorHandlingBuffer, [inr] a buffer in a known state (Done called). *)
  Fixpoint with_error_handler (n : nat) (b : bufscript) (h : hst) : (bufscript + bufscript) * hst :=
    match b with
    | BChunk _ | BReader _ _ => (inl b, h)
    | BBytes _ => (inr b, done h)
    | BError c =>
        let '(a, h') := on_error h (ECode c) in
        match a with
        | Fail c' => (inr (BError c'), done h')
        | Replace b' =>
            match n with
            | O => (inr (BError 2), h')     (* out of fuel: never with n > number of answers *)
            | Datatypes.S n' => with_error_handler n' b' h'
            end
        end
    end.

  (** tryRepeatedly for ToByteSlice / ReadAt *)
  Fixpoint try_repeatedly (n : nat) (m : meth) (b : bufscript) (h : hst) (cbs : list bool)
    : bytes * err * list bool * hst :=
    let o := plain b m in
    let cbs := cbs ++ o_cbs o in
    match o_err o with
    | ENone | EEof => (o_data o, o_err o, cbs, done h)
    | e =>
        let '(a, h') := on_error h e in
        match a with
        | Fail c => ([], ECode c, cbs, done h')
        | Replace b' =>
            match n with
            | O => ([], EFuel, cbs, h')
            | Datatypes.S n' => try_repeatedly n' m b' h' cbs
            end
        end
    end.

  Definition ehv := vst ehc.
  Definition ehv_read (max : N) : ehv -> (bytes * err) * ehv := vcr_read H cfg (ehc_read fuel fuel max) fuel.
  Definition ehv_close (st : ehv) : ehv := v_set_u st (ehc_close (v_u st)).

  Definition ehrv := vst ehr.
  Definition ehrv_read : N -> ehrv -> (bytes * err) * ehrv := vr_read H cfg (ehr_read fuel) fuel.

  Definition eh_method (b : bufscript) (h : hst) (m : meth) : outcome16 :=
    let n := Datatypes.S (length (h_answers h)) in
    match m with
    | MToByteSlice _ | MReadAt _ _ =>
        let '(d, e, cbs, h') := try_repeatedly n m b h [] in mkOut16 d e [] cbs (h_log h') []
    | MCloneCopy max =>
        let '(d, e, cbs, h') := try_repeatedly n (MToByteSlice max) b h [] in
        match e with
        | ENone => mkOut16 d ENone [ENone] cbs (h_log h') d
        | _ => mkOut16 [] e [e] cbs (h_log h') []
        end
    | MIntoWriter =>
        let '((out, e), st) := into_writer_cr (ehv_read 65536) ehv_close fuel (vinit cfg (ehc_init fuel b h)) in
        mkOut16 out e [] (v_cbs st) (h_log (ec_h (v_u st))) []
    | MToChunkReader off max k =>
        if valid_offset size off then
          let o0 := offset_init (ehv_read max) ehv_close fuel off (vinit cfg (ehc_init fuel b h)) in
          let '((out, e), o) := drain (offset_read (ehv_read max)) fuel [] o0 in
          let '(ex, o) := extra_reads (offset_read (ehv_read max)) k o in
          let o := offset_close ehv_close o in
          mkOut16 out e (errs_of ex) (v_cbs (o_u o)) (h_log (ec_h (v_u (o_u o)))) (datas_of ex)
        else mkOut16 [] (ECode 3) (repeat (ECode 3) k) [] (h_log (done h)) []
    | MToReader caps k =>
        let '((out, e), st) := rconsume ehrv_read fuel caps (last_cap caps) [] (vinit cfg (ehr_init fuel b h)) in
        let '(ex, st) := rextra ehrv_read k (last_cap caps) st in
        let st := v_set_u st (ehr_close (v_u st)) in
        mkOut16 out e (errs_of ex) (v_cbs st) (h_log (er_h (v_u st))) (datas_of ex)
    | MDiscard => mkOut16 [] ENone [] [] (h_log (done h)) []
    end.

  Definition run_case (b0 : bufscript) (answers : list answer) (m : meth) : outcome16 :=
    let '(w, h) := with_error_handler (Datatypes.S (length answers)) b0 (mkHst answers []) in
    match w with
    | inl b => eh_method b h m
    | inr b =>
        let o := plain b m in
        mkOut16 (o_data o) (o_err o) (o_extra o) (o_cbs o) (h_log h) (o_aux o)
    end.
End ErrorHandling.
