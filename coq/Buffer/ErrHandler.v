(** C16 — buffer.WithErrorHandler: the error handler as a scripted oracle,
    immediate application on error / byte-slice buffers, casErrorHandlingBuffer
    (tryRepeatedly, errorHandlingChunkReader, errorHandlingReader with the
    delivered offset), validation layered above the stitched stream.
    Definitions only; builds on the C09 model. *)
From Coq Require Import List ZArith NArith Bool.
From BBS Require Import Buffer.Source Buffer.Validate Buffer.Convert.
Import ListNotations.
Open Scope N_scope.

(** A buffer the harness can hand to WithErrorHandler or return from OnError.
    All CAS buffers of one case share the digest and the Source. *)
Inductive bufscript :=
| BChunk (evs : list ev)                    (* NewCASBufferFromChunkReader *)
| BReader (evs : list ev) (attach : bool)   (* NewCASBufferFromReader *)
| BBytes (data : bytes)                     (* NewValidatedBufferFromByteSlice *)
| BError (c : Z).                           (* NewBufferFromError *)

Inductive answer := Replace (b : bufscript) | Fail (c : Z).
Inductive hev := HOnError (e : err) | HDone.

(** the handler: remaining answers and the calls it has received *)
Record hst := mkHst { h_answers : list answer; h_log : list hev }.
Definition on_error (h : hst) (e : err) : answer * hst :=
  match h_answers h with
  | [] => (Fail 10, mkHst [] (h_log h ++ [HOnError e]))
  | a :: r => (a, mkHst r (h_log h ++ [HOnError e]))
  end.
Definition done (h : hst) : hst := mkHst (h_answers h) (h_log h ++ [HDone]).

(** * toUnvalidatedChunkReader(off, max) of each buffer kind *)
Inductive ucr :=
| UNorm (n : nst (ost csrc))
| URb (r : rbst rsrc)
| UBs (data : bytes)
| UErr (e : err)
| UFail (e : err) (s : rsrc).  (* casReaderBuffer: discardFromReader failed, the source was
                                 closed, an errorChunkReader is returned *)

Definition ucr_open (fuel : nat) (b : bufscript) (off : N) : ucr :=
  match b with
  | BChunk evs => UNorm (mkNst (offset_init csrc_read csrc_close fuel (Z.of_N off) (mkCsrc evs 0)) [])
  | BReader evs attach =>
      let '(e, s) := discard_from_reader rsrc_read fuel (Z.of_N off) (mkRsrc evs attach 0) in
      match e with ENone => URb (mkRbst s ENone) | _ => UFail e (rsrc_close s) end
  | BBytes data => if off <=? lenN data then UBs (dropN off data) else UErr (ECode 3)
  | BError c => UErr (ECode c)
  end.
Definition ucr_read (fuel : nat) (max : N) (u : ucr) : (bytes * err) * ucr :=
  match u with
  | UNorm n => let '(r, n') := norm_read (offset_read csrc_read) fuel max n in (r, UNorm n')
  | URb r => let '(x, r') := rb_read rsrc_read fuel max r in (x, URb r')
  | UBs d => let '(x, d') := bs_read max d in (x, UBs d')
  | UErr e | UFail e _ => (([], e), u)
  end.
(** Close() of the unvalidated chunk reader, and the Close() count of the
    scripted source underneath (none for byte slices and error buffers). *)
Definition ucr_close (u : ucr) : ucr :=
  match u with
  | UNorm n => UNorm (norm_close (offset_close csrc_close) n)
  | URb r => URb (mkRbst (rsrc_close (rb_u r)) (rb_err r))
  | _ => u
  end.
Definition ucr_closes (u : ucr) : list nat :=
  match u with
  | UNorm n => [c_closed (o_u (n_u n))]
  | URb r => [r_closed (rb_u r)]
  | UFail _ s => [r_closed s]
  | _ => []
  end.

(** * errorHandlingChunkReader *)
Record ehc := mkEhc { ec_cur : ucr; ec_off : N; ec_h : hst }.
Definition ehc_init (ifuel : nat) (b : bufscript) (h : hst) : ehc := mkEhc (ucr_open ifuel b 0) 0 h.
(** [ifuel] bounds the loops of the readers underneath, [fuel] the number of
    replacements tried within one Read. *)
Fixpoint ehc_read (ifuel fuel : nat) (max : N) (r : ehc) : (bytes * err) * ehc :=
  match fuel with
  | O => (([], EFuel), r)
  | Datatypes.S f =>
      let '((chunk, e), cur') := ucr_read ifuel max (ec_cur r) in
      match e with
      | ENone => ((chunk, ENone), mkEhc cur' (ec_off r + lenN chunk) (ec_h r))
      | EEof => (([], EEof), mkEhc cur' (ec_off r) (ec_h r))
      | _ =>
          let '(a, h') := on_error (ec_h r) e in
          match a with
          | Fail c => (([], ECode c), mkEhc cur' (ec_off r) h')
          | Replace b => ehc_read ifuel f max (mkEhc (ucr_open ifuel b (ec_off r)) (ec_off r) h')
          end
      end
  end.
Definition ehc_close (r : ehc) : ehc := mkEhc (ec_cur r) (ec_off r) (done (ec_h r)).

(** * toUnvalidatedReader(off) of each buffer kind, errorHandlingReader *)
Inductive urd :=
| RCb (c : cbst (ost csrc))
| RRaw (s : rsrc)
| RBb (data : bytes)
| RErr (e : err)
| RFail (e : err) (s : rsrc).
Definition urd_open (fuel : nat) (b : bufscript) (off : N) : urd :=
  match b with
  | BChunk evs => RCb (mkCbst (offset_init csrc_read csrc_close fuel (Z.of_N off) (mkCsrc evs 0)) [])
  | BReader evs attach =>
      let '(e, s) := discard_from_reader rsrc_read fuel (Z.of_N off) (mkRsrc evs attach 0) in
      match e with ENone => RRaw s | _ => RFail e (rsrc_close s) end
  | BBytes data => if off <=? lenN data then RBb (dropN off data) else RErr (ECode 3)
  | BError c => RErr (ECode c)
  end.
Definition urd_read (fuel : nat) (cap : N) (u : urd) : (bytes * err) * urd :=
  match u with
  | RCb c => let '(x, c') := cb_read (offset_read csrc_read) fuel cap c in (x, RCb c')
  | RRaw s => let '(x, s') := rsrc_read cap s in (x, RRaw s')
  | RBb d => let '(x, d') := bb_read cap d in (x, RBb d')
  | RErr e | RFail e _ => (([], e), u)
  end.
Definition urd_close (u : urd) : urd :=
  match u with
  | RCb c => RCb (cb_close (offset_close csrc_close) c)
  | RRaw s => RRaw (rsrc_close s)
  | _ => u
  end.
Definition urd_closes (u : urd) : list nat :=
  match u with
  | RCb c => [c_closed (o_u (cb_u c))]
  | RRaw s => [r_closed s]
  | RFail _ s => [r_closed s]
  | _ => []
  end.

Record ehr := mkEhr { er_cur : urd; er_off : N; er_h : hst }.
Definition ehr_init (fuel : nat) (b : bufscript) (h : hst) : ehr := mkEhr (urd_open fuel b 0) 0 h.
Definition ehr_read (fuel : nat) (cap : N) (r : ehr) : (bytes * err) * ehr :=
  let '((data, e), cur') := urd_read fuel cap (er_cur r) in
  let off' := er_off r + lenN data in
  match e with
  | ENone | EEof => ((data, e), mkEhr cur' off' (er_h r))
  | _ =>
      let '(a, h') := on_error (er_h r) e in
      match a with
      | Fail c => ((data, ECode c), mkEhr cur' off' h')
      | Replace b => ((data, ENone), mkEhr (urd_open fuel b off') off' h')
      end
  end.
Definition ehr_close (r : ehr) : ehr := mkEhr (er_cur r) (er_off r) (done (er_h r)).

(** * Outcome of one case *)
Record outcome16 := mkOut16 {
  x_data : bytes; x_err : err; x_extra : list err; x_cbs : list bool; x_log : list hev; x_aux : bytes
}.

Section ErrorHandling.
  Variable H : bytes -> bytes.
  Variable cfg : vcfg.
  Variable fuel : nat.
  Let size := g_size cfg.

  (** a method applied to a buffer without error handler (C09) *)
  Definition plain (b : bufscript) (m : meth) : outcome :=
    match b with
    | BChunk evs => cas_chunk_reader H cfg fuel evs m
    | BReader evs attach => cas_reader H cfg fuel evs attach m
    | BBytes data => byte_slice_buffer fuel data [] 0 m
    | BError c => error_buffer (ECode c) [] 0 m
    end.

  (** WithErrorHandler: [inl] a stream buffer wrapped into a
      casErrorHandlingBuffer, [inr] a buffer in a known state (Done called). *)
  Fixpoint with_error_handler (n : nat) (b : bufscript) (h : hst) : (bufscript + bufscript) * hst :=
    match b with
    | BChunk _ | BReader _ _ => (inl b, h)
    | BBytes _ => (inr b, done h)
    | BError c =>
        let '(a, h') := on_error h (ECode c) in
        match a with
        | Fail c' => (inr (BError c'), done h')
        | Replace b' =>
            match n with
            | O => (inr (BError 2), h')     (* out of fuel: never with n > number of answers *)
            | Datatypes.S n' => with_error_handler n' b' h'
            end
        end
    end.

  (** tryRepeatedly for ToByteSlice / ReadAt *)
  Fixpoint try_repeatedly (n : nat) (m : meth) (b : bufscript) (h : hst) (cbs : list bool)
    : bytes * err * list bool * hst :=
    let o := plain b m in
    let cbs := cbs ++ o_cbs o in
    match o_err o with
    | ENone | EEof => (o_data o, o_err o, cbs, done h)
    | e =>
        let '(a, h') := on_error h e in
        match a with
        | Fail c => ([], ECode c, cbs, done h')
        | Replace b' =>
            match n with
            | O => ([], EFuel, cbs, h')
            | Datatypes.S n' => try_repeatedly n' m b' h' cbs
            end
        end
    end.

  Definition ehv := vst ehc.
  Definition ehv_read (max : N) : ehv -> (bytes * err) * ehv := vcr_read H cfg (ehc_read fuel fuel max) fuel.
  Definition ehv_close (st : ehv) : ehv := v_set_u st (ehc_close (v_u st)).

  Definition ehrv := vst ehr.
  Definition ehrv_read : N -> ehrv -> (bytes * err) * ehrv := vr_read H cfg (ehr_read fuel) fuel.

  Definition eh_method (b : bufscript) (h : hst) (m : meth) : outcome16 :=
    let n := Datatypes.S (length (h_answers h)) in
    match m with
    | MToByteSlice _ | MReadAt _ _ =>
        let '(d, e, cbs, h') := try_repeatedly n m b h [] in mkOut16 d e [] cbs (h_log h') []
    | MCloneCopy max =>
        let '(d, e, cbs, h') := try_repeatedly n (MToByteSlice max) b h [] in
        match e with
        | ENone => mkOut16 d ENone [ENone] cbs (h_log h') d
        | _ => mkOut16 [] e [e] cbs (h_log h') []
        end
    | MIntoWriter =>
        let '((out, e), st) := into_writer_cr (ehv_read 65536) ehv_close fuel (vinit cfg (ehc_init fuel b h)) in
        mkOut16 out e [] (v_cbs st) (h_log (ec_h (v_u st))) []
    | MToChunkReader off max k =>
        if valid_offset size off then
          let o0 := offset_init (ehv_read max) ehv_close fuel off (vinit cfg (ehc_init fuel b h)) in
          let '((out, e), o) := drain (offset_read (ehv_read max)) fuel [] o0 in
          let '(ex, o) := extra_reads (offset_read (ehv_read max)) k o in
          let o := offset_close ehv_close o in
          mkOut16 out e (errs_of ex) (v_cbs (o_u o)) (h_log (ec_h (v_u (o_u o)))) (datas_of ex)
        else mkOut16 [] (ECode 3) (repeat (ECode 3) k) [] (h_log (done h)) []
    | MToReader caps k =>
        let '((out, e), st) := rconsume ehrv_read fuel caps (last_cap caps) [] (vinit cfg (ehr_init fuel b h)) in
        let '(ex, st) := rextra ehrv_read k (last_cap caps) st in
        let st := v_set_u st (ehr_close (v_u st)) in
        mkOut16 out e (errs_of ex) (v_cbs st) (h_log (er_h (v_u st))) (datas_of ex)
    | MDiscard => mkOut16 [] ENone [] [] (h_log (done h)) []
    end.

  Definition run_case (b0 : bufscript) (answers : list answer) (m : meth) : outcome16 :=
    let '(w, h) := with_error_handler (Datatypes.S (length answers)) b0 (mkHst answers []) in
    match w with
    | inl b => eh_method b h m
    | inr b =>
        let o := plain b m in
        mkOut16 (o_data o) (o_err o) (o_extra o) (o_cbs o) (h_log h) (o_aux o)
    end.
End ErrorHandling.

(** * Stacks of error handlers

    [WithErrorHandler(WithErrorHandler(b0, h0), h1) ...]: a
    casErrorHandlingBuffer is itself stream-backed, so applying a further
    handler wraps it again (casErrorHandlingBuffer.applyErrorHandler).  The
    readers nest in the same way: the errorHandlingChunkReader of level l+1
    reads from the errorHandlingChunkReader of level l, which reads from the
    unvalidated reader of a plain buffer.

    What the nesting does, flattened.  Handlers are numbered from the innermost
    one.  At any time the levels [lo ..] are "active" (their reader objects
    exist, nested in that order, above ONE reader of a plain buffer) and the
    levels below [lo] are finished (Done reported):
    - an I/O error of the plain reader is offered to level [lo]; an error
      answer of level l is what level l+1 is offered, the error answer of the
      outermost level is what the consumer gets ([escalate]);
    - a replacement buffer returned by level l is opened at the delivered
      offset in place of l's underlying reader, which is closed: that reports
      Done to the levels below l and closes the plain reader underneath;
    - every chunk passes through all active levels unchanged, so all of them
      hold the same delivered offset;
    - Close() of the outermost reader reports Done to every active level and
      closes the plain reader.
    Replacement buffers are plain buffers ([bufscript]).

    [w_closed]: the Close() counts of the scripted sources of the stream-backed
    plain buffers that are no longer in use, in the order in which the buffers
    were created; the count is taken from the source itself ([c_closed],
    [r_closed]) when the reader that owns it is given up. *)
Record world := mkW {
  w_dn : list hst;          (* finished levels, innermost first *)
  w_act : list hst;         (* active levels, innermost first *)
  w_closed : list nat
}.
Definition all_done (w : world) : world := mkW (w_dn w ++ map done (w_act w)) [] (w_closed w).
Definition retire (w : world) (c : list nat) : world := mkW (w_dn w) (w_act w) (w_closed w ++ c).

(** Offer [e] to the active levels in turn.  [(Some b, _), passed, rest]: the
    levels [passed] answered with errors and the head of [rest] with the
    replacement [b]; [(None, e'), passed, []]: every level answered with an
    error, [e'] is the answer of the outermost one. *)
Fixpoint escalate (e : err) (act : list hst) : (option bufscript * err) * list hst * list hst :=
  match act with
  | [] => ((None, e), [], [])
  | h :: rest =>
      let '(a, h') := on_error h e in
      match a with
      | Replace b => ((Some b, e), [], h' :: rest)
      | Fail c => let '(r, passed, act') := escalate (ECode c) rest in (r, h' :: passed, act')
      end
  end.
(** the world after [escalate]: a replacement finishes the levels passed *)
Definition after_replace (w : world) (passed act' : list hst) (c : list nat) : world :=
  mkW (w_dn w ++ map done passed) act' (w_closed w ++ c).
Definition after_failure (w : world) (passed : list hst) : world := mkW (w_dn w) passed (w_closed w).

(** nested errorHandlingChunkReaders *)
Record sch := mkSch { sc_cur : ucr; sc_off : N; sc_w : world }.
Definition sch_init (ifuel : nat) (b : bufscript) (w : world) : sch := mkSch (ucr_open ifuel b 0) 0 w.
Fixpoint sch_read (ifuel fuel : nat) (max : N) (r : sch) : (bytes * err) * sch :=
  match fuel with
  | O => (([], EFuel), r)
  | Datatypes.S f =>
      let '((chunk, e), cur') := ucr_read ifuel max (sc_cur r) in
      match e with
      | ENone => ((chunk, ENone), mkSch cur' (sc_off r + lenN chunk) (sc_w r))
      | EEof => (([], EEof), mkSch cur' (sc_off r) (sc_w r))
      | _ =>
          let '((ob, e'), passed, act') := escalate e (w_act (sc_w r)) in
          match ob with
          | None => (([], e'), mkSch cur' (sc_off r) (after_failure (sc_w r) passed))
          | Some b =>
              sch_read ifuel f max
                (mkSch (ucr_open ifuel b (sc_off r)) (sc_off r)
                       (after_replace (sc_w r) passed act' (ucr_closes (ucr_close cur'))))
          end
      end
  end.
Definition sch_close (r : sch) : sch :=
  mkSch (ucr_close (sc_cur r)) (sc_off r) (retire (all_done (sc_w r)) (ucr_closes (ucr_close (sc_cur r)))).

(** nested errorHandlingReaders *)
Record shr := mkShr { sr_cur : urd; sr_off : N; sr_w : world }.
Definition shr_init (fuel : nat) (b : bufscript) (w : world) : shr := mkShr (urd_open fuel b 0) 0 w.
Definition shr_read (fuel : nat) (cap : N) (r : shr) : (bytes * err) * shr :=
  let '((data, e), cur') := urd_read fuel cap (sr_cur r) in
  let off' := sr_off r + lenN data in
  match e with
  | ENone | EEof => ((data, e), mkShr cur' off' (sr_w r))
  | _ =>
      let '((ob, e'), passed, act') := escalate e (w_act (sr_w r)) in
      match ob with
      | None => ((data, e'), mkShr cur' off' (after_failure (sr_w r) passed))
      | Some b => ((data, ENone), mkShr (urd_open fuel b off') off'
                                        (after_replace (sr_w r) passed act' (urd_closes (urd_close cur'))))
      end
  end.
Definition shr_close (r : shr) : shr :=
  mkShr (urd_close (sr_cur r)) (sr_off r) (retire (all_done (sr_w r)) (urd_closes (urd_close (sr_cur r)))).

Record outcome16s := mkOut16s {
  y_data : bytes; y_err : err; y_extra : list err; y_cbs : list bool;
  y_logs : list (list hev);      (* calls received by each handler, innermost first *)
  y_closes : list nat;           (* Close() count of each stream-backed plain buffer, creation order *)
  y_aux : bytes
}.
Definition logs_of (w : world) : list (list hev) := map h_log (w_dn w ++ w_act w).

Section Stack.
  Variable H : bytes -> bytes.
  Variable cfg : vcfg.
  Variable fuel : nat.
  Let size := g_size cfg.

  (** the Close() count of the source of [b] after the whole operation [o] on it *)
  Definition closes_of (b : bufscript) (o : outcome) : list nat :=
    match b with BChunk _ | BReader _ _ => [o_closed o] | _ => [] end.

  (** Applying the handlers one after the other, innermost first. *)
  Fixpoint stack_handlers (b : bufscript) (w : world) (hs : list hst) : bufscript * world :=
    match hs with
    | [] => (b, w)
    | h :: rest =>
        match w_act w with
        | _ :: _ => stack_handlers b (mkW (w_dn w) (w_act w ++ [h]) (w_closed w)) rest
        | [] =>
            let '(r, h') := with_error_handler (Datatypes.S (length (h_answers h))) b h in
            match r with
            | inl b' => stack_handlers b' (mkW (w_dn w) [h'] (w_closed w)) rest
            | inr b' => stack_handlers b' (mkW (w_dn w ++ [h']) [] (w_closed w)) rest
            end
        end
    end.

  (** nested tryRepeatedly: the operation is applied to the plain buffer in
      use; its error is offered upwards; a replacement is tried by the level
      that supplied it (the levels below have returned: deferred Done) *)
  Fixpoint try_stack (n : nat) (m : meth) (b : bufscript) (w : world) (cbs : list bool)
    : bytes * err * list bool * world :=
    let o := plain H cfg fuel b m in
    let cbs := cbs ++ o_cbs o in
    let w := retire w (closes_of b o) in
    match o_err o with
    | ENone | EEof => (o_data o, o_err o, cbs, all_done w)
    | e =>
        let '((ob, e'), passed, act') := escalate e (w_act w) in
        match ob with
        | None => ([], e', cbs, all_done (after_failure w passed))
        | Some b' =>
            match n with
            | O => ([], EFuel, cbs, w)
            | Datatypes.S n' => try_stack n' m b' (after_replace w passed act' []) cbs
            end
        end
    end.

  Definition shv := vst sch.
  Definition shv_read (max : N) : shv -> (bytes * err) * shv := vcr_read H cfg (sch_read fuel fuel max) fuel.
  Definition shv_close (st : shv) : shv := v_set_u st (sch_close (v_u st)).
  Definition shrv := vst shr.
  Definition shrv_read : N -> shrv -> (bytes * err) * shrv := vr_read H cfg (shr_read fuel) fuel.

  Definition discarded (b : bufscript) (w : world) : world :=
    retire (all_done w) (closes_of b (plain H cfg fuel b MDiscard)).

  (** more retries than there are answers left *)
  Definition answers_left (act : list hst) : nat := fold_right (fun h n => (length (h_answers h) + n)%nat) O act.

  Definition ehs_method (b : bufscript) (w : world) (m : meth) : outcome16s :=
    let n := Datatypes.S (answers_left (w_act w)) in
    match m with
    | MToByteSlice _ | MReadAt _ _ =>
        let '(d, e, cbs, w') := try_stack n m b w [] in mkOut16s d e [] cbs (logs_of w') (w_closed w') []
    | MCloneCopy max =>
        let '(d, e, cbs, w') := try_stack n (MToByteSlice max) b w [] in
        match e with
        | ENone => mkOut16s d ENone [ENone] cbs (logs_of w') (w_closed w') d
        | _ => mkOut16s [] e [e] cbs (logs_of w') (w_closed w') []
        end
    | MIntoWriter =>
        let '((out, e), st) := into_writer_cr (shv_read 65536) shv_close fuel (vinit cfg (sch_init fuel b w)) in
        let w' := sc_w (v_u st) in
        mkOut16s out e [] (v_cbs st) (logs_of w') (w_closed w') []
    | MToChunkReader off max k =>
        if valid_offset size off then
          let o0 := offset_init (shv_read max) shv_close fuel off (vinit cfg (sch_init fuel b w)) in
          let '((out, e), o) := drain (offset_read (shv_read max)) fuel [] o0 in
          let '(ex, o) := extra_reads (offset_read (shv_read max)) k o in
          let o := offset_close shv_close o in
          let w' := sc_w (v_u (o_u o)) in
          mkOut16s out e (errs_of ex) (v_cbs (o_u o)) (logs_of w') (w_closed w') (datas_of ex)
        else
          let w' := discarded b w in
          mkOut16s [] (ECode 3) (repeat (ECode 3) k) [] (logs_of w') (w_closed w') []
    | MToReader caps k =>
        let '((out, e), st) := rconsume shrv_read fuel caps (last_cap caps) [] (vinit cfg (shr_init fuel b w)) in
        let '(ex, st) := rextra shrv_read k (last_cap caps) st in
        let st := v_set_u st (shr_close (v_u st)) in
        let w' := sr_w (v_u st) in
        mkOut16s out e (errs_of ex) (v_cbs st) (logs_of w') (w_closed w') (datas_of ex)
    | MDiscard =>
        let w' := discarded b w in mkOut16s [] ENone [] [] (logs_of w') (w_closed w') []
    end.

  (** [anss]: the script of each handler, innermost first. *)
  Definition run_stack (b0 : bufscript) (anss : list (list answer)) (m : meth) : outcome16s :=
    let '(b, w) := stack_handlers b0 (mkW [] [] []) (map (fun a => mkHst a []) anss) in
    match w_act w with
    | [] =>
        let o := plain H cfg fuel b m in
        mkOut16s (o_data o) (o_err o) (o_extra o) (o_cbs o) (logs_of w) (w_closed w ++ closes_of b o) (o_aux o)
    | _ :: _ => ehs_method b w m
    end.
End Stack.
