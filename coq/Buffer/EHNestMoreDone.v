(** C16N — Done() exactly once to every handler that exists, INDEPENDENTLY of
    the offering rule: every tree (no well-formedness condition on the
    scripts), every method, any fuel.  The same invariant bounds the depth of
    the observed tree by the depth of the input tree, which discharges the
    decoder's depth hypothesis of [dom16N] for trees of depth <= 64.

    [Q n r]: every error-handling reader nested in [r] has not been told Done
    yet, every buffer it has given up was closed with Done = 1 everywhere and
    has depth <= the remaining bound, and so have the replacements still in its
    script.  Any read keeps [Q n] (no stickiness needed), Close() turns it into
    "Done = 1 everywhere". *)
From Coq Require Import List ZArith NArith Bool Lia.
From BBS Require Import Common.Sx Buffer.Source Buffer.Validate Buffer.Convert Buffer.ErrHandler
  Buffer.StreamProofs Buffer.ValidateProofs Buffer.PreserveProofs Buffer.ClosedOnceProofs
  Buffer.EHNest Buffer.EHNestRules Run.R09 Run.R16 Run.R16N Run.R16NProofs.
Import ListNotations.
Open Scope nat_scope.

Fixpoint tdepth (t : nbuf) : nat :=
  match t with
  | NB _ => 1
  | NW inner ans => S (Nat.max (tdepth inner) (adepth ans))
  end
with adepth (a : nanss) : nat :=
  match a with
  | ANil => 0
  | ARep b r => Nat.max (tdepth b) (adepth r)
  | AFail _ r => adepth r
  end.

Definition kids_ok (n : nat) (kids : list otree) : Prop :=
  forallb od1 kids = true /\ Forall (fun o => odepth o <= n) kids.
Lemma kids_ok_snoc n kids o : kids_ok n kids -> od1 o = true -> odepth o <= n -> kids_ok n (kids ++ [o]).
Proof.
  intros (A & B) C D. split.
  - rewrite forallb_app, A. cbn. rewrite C. reflexivity.
  - apply Forall_app. split; [exact B|repeat constructor; exact D].
Qed.
Lemma kids_ok_nil n : kids_ok n [].
Proof. split; [reflexivity|constructor]. Qed.

Lemma fold_max_le n kids : Forall (fun o => odepth o <= n) kids ->
  fold_right (fun k m => Nat.max (odepth k) m) 0 kids <= n.
Proof. induction 1 as [|o l Ho Hl IH]; cbn [fold_right]; lia. Qed.

(** the record of a handler that has been told Done once *)
Lemma node_ok n offs kids : kids_ok n kids -> od1 (ONode offs 1 kids) = true /\ odepth (ONode offs 1 kids) <= S n.
Proof.
  intros (A & B). cbn [od1 odepth]. rewrite A. split; [reflexivity|]. pose proof (fold_max_le _ _ B). lia.
Qed.

Definition Qc (n : nat) (o : otree) : Prop := od1 o = true /\ odepth o <= n.

(** * Chunk readers *)
Fixpoint Q (n : nat) (r : ncr) : Prop :=
  match n with
  | O => False
  | S n' =>
      match r with
      | CL _ => True
      | CE cur _ h => hn_done h = 0 /\ kids_ok n' (hn_dead h) /\ adepth (hn_ans h) <= n' /\ Q n' cur
      end
  end.

Lemma Q_close : forall n r, Q n r -> Qc n (nobs (nclose r)).
Proof.
  induction n as [|n IH]; intros r Hq; [contradiction|]. destruct r as [u|cur off h]; cbn [Q] in Hq.
  - split; cbn; [reflexivity|lia].
  - destruct Hq as (Hd & Hk & _ & Hc). cbn [nclose nobs]. unfold hn_obs, hn_finish. cbn [hn_off hn_done hn_dead].
    rewrite Hd. destruct (IH _ Hc) as (A & B). apply node_ok. apply kids_ok_snoc; assumption.
Qed.

Section Chunk.
  Variable ifuel : nat.
  Variable max : N.

  Lemma nopen_Q : forall t n off, tdepth t <= n -> Q n (nopen ifuel t off).
  Proof.
    induction t as [b|inner IH ans]; intros n off Hn; cbn [tdepth nopen] in *.
    - destruct n; [lia|exact I].
    - destruct n as [|n]; [lia|]. cbn [Q]. unfold hn_new. cbn [hn_done hn_dead hn_ans].
      rsplit; auto; [apply kids_ok_nil|lia|apply IH; lia].
  Qed.

  Lemma nread_Q : forall fuel n r c e r', Q n r -> nread ifuel fuel max r = ((c, e), r') -> Q n r'.
  Proof.
    induction fuel as [|f IH]; intros n r c e r' Hq Hr; cbn [nread] in Hr; [inv Hr; exact Hq|].
    destruct n as [|n]; [contradiction|]. destruct r as [u|cur off h].
    - destruct (ucr_read ifuel max u) as [x u']. inv Hr. exact I.
    - cbn [Q] in Hq. destruct Hq as (Hd & Hk & Ha & Hc).
      destruct (nread ifuel f max cur) as [[chunk e0] cur'] eqn:Hu.
      pose proof (IH _ _ _ _ _ Hc Hu) as Hc'.
      assert (Hother : e0 <> ENone -> e0 <> EEof ->
        (let '(a, h') := hn_on_error h e0 in
         match a with
         | NFailWith c0 => (([], ECode c0), CE cur' off h')
         | NReplace t' => nread ifuel f max (CE (nopen ifuel t' off) off (hn_retire h' (nobs (nclose cur'))))
         end) = ((c, e), r') -> Q (S n) r').
      { intros _ _ Hx. unfold hn_on_error in Hx. destruct (hn_ans h) as [|t' r|c0 r] eqn:Ea; cbn [adepth] in Ha.
        - inv Hx. cbn [Q hn_done hn_dead hn_ans adepth]. rsplit; auto.
        - eapply IH; [|exact Hx]. cbn [Q hn_retire hn_done hn_dead hn_ans].
          destruct (Q_close _ _ Hc') as (A & B).
          rsplit; auto; [apply kids_ok_snoc; assumption|lia|apply nopen_Q; lia].
        - inv Hx. cbn [Q hn_done hn_dead hn_ans]. rsplit; auto. }
      destruct e0; try (apply Hother; [congruence|congruence|exact Hr]).
      + inv Hr. cbn [Q]. rsplit; auto.
      + inv Hr. cbn [Q]. rsplit; auto.
  Qed.
End Chunk.

(** * Readers *)
Fixpoint QR (n : nat) (r : nrd) : Prop :=
  match n with
  | O => False
  | S n' =>
      match r with
      | RL _ => True
      | RE cur _ h => hn_done h = 0 /\ kids_ok n' (hn_dead h) /\ adepth (hn_ans h) <= n' /\ QR n' cur
      end
  end.

Lemma QR_close : forall n r, QR n r -> Qc n (nrobs (nrclose r)).
Proof.
  induction n as [|n IH]; intros r Hq; [contradiction|]. destruct r as [u|cur off h]; cbn [QR] in Hq.
  - split; cbn; [reflexivity|lia].
  - destruct Hq as (Hd & Hk & _ & Hc). cbn [nrclose nrobs]. unfold hn_obs, hn_finish. cbn [hn_off hn_done hn_dead].
    rewrite Hd. destruct (IH _ Hc) as (A & B). apply node_ok. apply kids_ok_snoc; assumption.
Qed.

Section Reader.
  Variable ifuel : nat.

  Lemma nropen_QR : forall t n off, tdepth t <= n -> QR n (nropen ifuel t off).
  Proof.
    induction t as [b|inner IH ans]; intros n off Hn; cbn [tdepth nropen] in *.
    - destruct n; [lia|exact I].
    - destruct n as [|n]; [lia|]. cbn [QR]. unfold hn_new. cbn [hn_done hn_dead hn_ans].
      rsplit; auto; [apply kids_ok_nil|lia|apply IH; lia].
  Qed.

  Lemma nrread_QR : forall r n cap c e r', QR n r -> nrread ifuel cap r = ((c, e), r') -> QR n r'.
  Proof.
    induction r as [u|cur IH off h]; intros n cap c e r' Hq Hr; cbn [nrread] in Hr;
      (destruct n as [|n]; [contradiction|]).
    - destruct (urd_read ifuel cap u) as [x u']. inv Hr. exact I.
    - cbn [QR] in Hq. destruct Hq as (Hd & Hk & Ha & Hc).
      destruct (nrread ifuel cap cur) as [[data e0] cur'] eqn:Hu.
      pose proof (IH _ _ _ _ _ Hc Hu) as Hc'.
      assert (Hother : e0 <> ENone -> e0 <> EEof ->
        (let '(a, h') := hn_on_error h e0 in
         match a with
         | NFailWith c0 => ((data, ECode c0), RE cur' (off + lenN data)%N h')
         | NReplace t' => ((data, ENone), RE (nropen ifuel t' (off + lenN data)%N) (off + lenN data)%N
                                            (hn_retire h' (nrobs (nrclose cur'))))
         end) = ((c, e), r') -> QR (S n) r').
      { intros _ _ Hx. unfold hn_on_error in Hx. destruct (hn_ans h) as [|t' r|c0 r] eqn:Ea; cbn [adepth] in Ha.
        - inv Hx. cbn [QR hn_done hn_dead hn_ans adepth]. rsplit; auto.
        - inv Hx. cbn [QR hn_retire hn_done hn_dead hn_ans].
          destruct (QR_close _ _ Hc') as (A & B).
          rsplit; auto; [apply kids_ok_snoc; assumption|lia|apply nropen_QR; lia].
        - inv Hx. cbn [QR hn_done hn_dead hn_ans]. rsplit; auto. }
      destruct e0; try (apply Hother; [congruence|congruence|exact Hr]).
      + inv Hr. cbn [QR]. rsplit; auto.
      + inv Hr. cbn [QR]. rsplit; auto.
  Qed.
End Reader.

(** * Every method *)
Section Methods.
  Variable H : bytes -> bytes.
  Variable cfg : vcfg.
  Variable fuel : nat.

  Lemma discard_Qc : forall t, Qc (tdepth t) (discard_tree H cfg fuel t).
  Proof.
    induction t as [b|inner IH ans]; cbn [discard_tree tdepth].
    - split; cbn; [reflexivity|lia].
    - unfold hn_obs, hn_finish, hn_new. cbn [hn_off hn_done hn_dead app]. destruct IH as (A & B).
      destruct (node_ok (Nat.max (tdepth inner) (adepth ans)) [] [discard_tree H cfg fuel inner]) as (C & D).
      { split; [cbn; rewrite A; reflexivity|repeat constructor; lia]. }
      split; assumption.
  Qed.

  Lemma whole_Qc m :
    (forall t, Qc (tdepth t) (snd (whole H cfg fuel m t))) /\
    (forall ans n r offers dead cbs, adepth ans <= n -> Qc n (snd r) -> kids_ok n dead ->
       Qc (S n) (snd (try_ans H cfg fuel m ans r offers dead cbs))).
  Proof.
    apply nbuf_nanss_ind.
    - intros b. cbn [whole snd tdepth]. split; cbn; [reflexivity|lia].
    - intros inner IHi ans IHa. cbn [whole tdepth]. apply IHa; [lia| |apply kids_ok_nil].
      destruct (IHi) as (A & B). split; [exact A|lia].
    - intros n r offers dead cbs Ha (Ho1 & Ho2) Hk. destruct r as [[[d e] cb] o]. cbn [snd] in *. cbn [try_ans].
      pose proof (kids_ok_snoc _ _ _ Hk Ho1 Ho2) as Hk2.
      destruct e; cbn [snd]; apply node_ok; exact Hk2.
    - intros t' IHt rest IHr n r offers dead cbs Ha (Ho1 & Ho2) Hk. destruct r as [[[d e] cb] o].
      cbn [snd adepth] in *. cbn [try_ans].
      pose proof (kids_ok_snoc _ _ _ Hk Ho1 Ho2) as Hk2.
      assert (Hrec : Qc (S n) (snd (try_ans H cfg fuel m rest (whole H cfg fuel m t') (offers ++ [e]) (dead ++ [o]) (cbs ++ cb)))).
      { apply IHr; [lia| |exact Hk2]. destruct IHt as (A & B). split; [exact A|lia]. }
      destruct e; try exact Hrec; cbn [snd]; apply node_ok; exact Hk2.
    - intros c0 rest IHr n r offers dead cbs Ha (Ho1 & Ho2) Hk. destruct r as [[[d e] cb] o]. cbn [snd] in *. cbn [try_ans].
      pose proof (kids_ok_snoc _ _ _ Hk Ho1 Ho2) as Hk2.
      destruct e; cbn [snd]; apply node_ok; exact Hk2.
  Qed.

  Theorem run_tree_done_once t m :
    od1 (z_tree (run_tree H cfg fuel t m)) = true /\ odepth (z_tree (run_tree H cfg fuel t m)) <= tdepth t.
  Proof.
    change (Qc (tdepth t) (z_tree (run_tree H cfg fuel t m))).
    destruct t as [b|inner ans].
    - cbn [run_tree z_tree tdepth]. split; cbn; [reflexivity|lia].
    - remember (NW inner ans) as t eqn:Et. set (n := tdepth t).
      assert (Hwhole : forall m', Qc n (snd (whole H cfg fuel m' t))) by (intros m'; apply (proj1 (whole_Qc m'))).
      pose (P0 := fun st : nv => Q n (v_u st)). pose (P1 := fun st : nv => Qc n (nobs (v_u st))).
      assert (Hcl : forall st, P0 st -> P1 (nv_close st)) by (intros st Hq; apply Q_close; exact Hq).
      assert (Hinit : P0 (vinit cfg (nopen fuel t 0%N))) by (apply nopen_Q; unfold n; lia).
      destruct m; rewrite Et; cbn [run_tree]; rewrite <- Et.
      + destruct (whole H cfg fuel (MToByteSlice max) t) as [[[d e] cbs] o] eqn:Hw. cbn [z_tree].
        pose proof (Hwhole (MToByteSlice max)) as Hk. rewrite Hw in Hk. exact Hk.
      + assert (Hpres : forall s r s', nv_read H cfg fuel 65536 s = (r, s') -> P0 s -> P0 s').
        { intros s r s'. unfold nv_read, P0. apply vcr_read_pres. intros s0 [c0 e0] s1 Hr Hq. eapply nread_Q; eassumption. }
        destruct (into_writer_cr (nv_read H cfg fuel 65536) nv_close fuel (vinit cfg (nopen fuel t 0%N)))
          as [[out e] st] eqn:Hi. cbn [z_tree].
        exact (into_writer_cr_ok _ _ _ P0 P1 Hpres Hcl _ _ _ _ Hi Hinit).
      + destruct (whole H cfg fuel (MReadAt plen off) t) as [[[d e] cbs] o] eqn:Hw. cbn [z_tree].
        pose proof (Hwhole (MReadAt plen off)) as Hk. rewrite Hw in Hk. exact Hk.
      + destruct (valid_offset (g_size cfg) off) eqn:Hv; [|cbn [z_tree]; apply discard_Qc].
        assert (Hpres : forall s r s', nv_read H cfg fuel max s = (r, s') -> P0 s -> P0 s').
        { intros s r s'. unfold nv_read, P0. apply vcr_read_pres. intros s0 [c0 e0] s1 Hr Hq. eapply nread_Q; eassumption. }
        pose proof (offset_init_ok _ _ nv_close P0 P1 Hpres Hcl fuel off _ Hinit) as H0.
        destruct (drain _ fuel [] _) as [[out e] o] eqn:Hd.
        pose proof (offset_read_ok _ (nv_read H cfg fuel max) P0 P1 Hpres) as Hro.
        eapply (drain_pres _ _ _ Hro) in Hd; [|exact H0].
        destruct (extra_reads _ extra o) as [ex o2] eqn:He.
        eapply (extra_reads_pres _ _ _ Hro) in He; [|exact Hd].
        cbn [z_tree]. exact (offset_close_ok _ nv_close P0 P1 Hcl _ He).
      + pose (R0 := fun st : nrv => QR n (v_u st)).
        assert (Hpres : forall cap s r s', nrv_read H cfg fuel cap s = (r, s') -> R0 s -> R0 s').
        { intros cap s r s'. unfold nrv_read, R0. apply vr_read_pres. intros cap0 s0 [c0 e0] s1 Hr Hq. eapply nrread_QR; eassumption. }
        destruct (rconsume _ fuel caps _ [] _) as [[out e] st] eqn:Hr.
        eapply (rconsume_pres _ _ _ Hpres) in Hr; [|apply nropen_QR; unfold n; lia].
        destruct (rextra _ extra _ st) as [ex st2] eqn:He.
        eapply (rextra_pres _ _ _ Hpres) in He; [|exact Hr].
        cbn [z_tree v_set_u v_u]. apply QR_close. exact He.
      + destruct (whole H cfg fuel (MToByteSlice max) t) as [[[d e] cbs] o] eqn:Hw. cbn [z_tree].
        pose proof (Hwhole (MToByteSlice max)) as Hk. rewrite Hw in Hk. exact Hk.
      + cbn [z_tree]. apply discard_Qc.
  Qed.
End Methods.

