(** C16N — the monitor on the model without fuel hypotheses: [out16N] runs the
    model on [16 + tree_fuel t], which suffices (EHNestMoreFuel.v), so no
    handler at any depth is offered the out-of-fuel marker and the run does not
    end in it.  The monitor sees error CODES; the marker's code is -3, so the
    hypothesis "no -3 among the offers" of [dom16N] becomes "no handler is
    offered the gRPC code -3" ([nom3], a code no script of the harness uses). *)
From Coq Require Import List ZArith NArith Bool Lia.
From BBS Require Import Common.Sx Buffer.Source Buffer.Validate Buffer.Convert Buffer.ErrHandler
  Buffer.StreamProofs Buffer.ValidateProofs Buffer.C09FullMonitor Buffer.C09FuelSuffices
  Buffer.EHNest Buffer.EHNestRules Buffer.EHNestMoreRet Buffer.EHNestMoreRoot Buffer.EHNestMoreMon
  Buffer.EHNestMoreFuel Buffer.EHNestMoreDone Run.R09 Run.R16 Run.R16N Run.R16NProofs.
Import ListNotations.
Open Scope Z_scope.

Definition nm3 (e : err) : bool := negb (err_eqb e (ECode (-3))).
Fixpoint nom3 (o : otree) : bool :=
  match o with
  | OLeaf _ => true
  | ONode offs _ kids => forallb nm3 offs && forallb nom3 kids
  end.

Lemma code_not_m3 e : nef e = true -> nm3 e = true -> negb (R16.code_of e =? -3) = true.
Proof.
  destruct e as [| | |c|]; cbn; intros A B; try reflexivity; try discriminate.
  unfold nm3 in B. cbn in B. exact B.
Qed.

Lemma noEF_nofuel : forall o, noEF o = true -> nom3 o = true -> nofuel (codes_of o) = true.
Proof.
  induction o as [k|offs d kids IH] using otree_ind2; intros Hn Hm; [reflexivity|].
  cbn [noEF nom3 codes_of nofuel] in *.
  apply andb_true_iff in Hn. destruct Hn as (Hn1 & Hn2). apply andb_true_iff in Hm. destruct Hm as (Hm1 & Hm2).
  apply andb_true_iff. split.
  - clear -Hn1 Hm1. induction offs as [|e offs IHo]; [reflexivity|]. cbn [map forallb] in *.
    apply andb_true_iff in Hn1. destruct Hn1 as (A1 & A2). apply andb_true_iff in Hm1. destruct Hm1 as (B1 & B2).
    rewrite (code_not_m3 e A1 B1). cbn [andb]. apply IHo; assumption.
  - clear -IH Hn2 Hm2. induction kids as [|k kids IHk]; [reflexivity|]. cbn [map forallb] in *.
    inversion IH as [|x l Hx Hl]; subst.
    apply andb_true_iff in Hn2. destruct Hn2 as (A1 & A2). apply andb_true_iff in Hm2. destruct Hm2 as (B1 & B2).
    rewrite (Hx A1 B1). cbn [andb]. apply IHk; assumption.
Qed.

Theorem out16N_no_fuel inp : good_param (n_meth (dec_case16N inp)) = true ->
  z_err (out16N inp) <> EFuel /\ noEF (z_tree (out16N inp)) = true.
Proof. intros Hg. unfold out16N. cbv zeta. apply tree_fuel_suffices; [apply le_n|exact Hg]. Qed.

(** the domain without a hypothesis on fuel *)
Definition dom16NF (inp : sx) : Prop :=
  let c := dec_case16N inp in
  tree_ok (n_obj c) (n_tree c) = true /\
  (match n_tree c with NW _ _ => True | NB _ => False end) /\
  good_param (n_meth c) = true /\
  nom3 (z_tree (out16N inp)) = true /\
  (forall x, z_err (out16N inp) = ECode x -> 0 < x) /\
  (tdepth (n_tree c) <= tree_depth_bound)%nat.

Lemma out16N_depth inp : (odepth (z_tree (out16N inp)) <= tdepth (n_tree (dec_case16N inp)))%nat.
Proof. rewrite (out16N_eq inp). apply run_tree_done_once. Qed.

Lemma dom16NF_dom16N inp : dom16NF inp -> dom16N inp /\ z_err (out16N inp) <> EFuel.
Proof.
  intros (Hok & Hroot & Hg & Hm3 & Hpos & Hd). destruct (out16N_no_fuel inp Hg) as [A B].
  split; [|exact A]. unfold dom16N. rsplit; auto; [apply noEF_nofuel; assumption|].
  pose proof (out16N_depth inp). cbv zeta in Hd. lia.
Qed.

(** all clauses but 2, no fuel hypothesis *)
Theorem mon16N_on_model_fuel inp : dom16NF inp -> forall c, In c (mon16N inp (run16N inp)) -> c = 2.
Proof. intros Hd. apply mon16N_on_model. apply (dom16NF_dom16N inp Hd). Qed.

(** every clause; ToReader: unless the run ends in the validator's own error
    code (see [clause2_fires_on_the_model]) *)
Theorem mon16N_silent_on_model_fuel inp :
  dom16NF inp ->
  (is_to_reader (n_meth (dec_case16N inp)) = true ->
   z_err (out16N inp) <> ECode (g_code (n_cfg (dec_case16N inp)))) ->
  mon16N inp (run16N inp) = [].
Proof.
  intros Hd Htr. destruct (dom16NF_dom16N inp Hd) as [A B].
  apply mon16N_silent_on_model. unfold dom16N2. auto.
Qed.
