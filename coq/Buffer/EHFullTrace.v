(** C16 — what a validating reader has done to the reader underneath when its
    own stream has ended, however it ended: it has pulled some bytes [bs], of
    which the consumer's data is a prefix, and either the reader underneath
    ended ([drains]) with the error passed on (or with io.EOF and a validation
    failure), or the validator stopped by itself because more than the digest's
    size had arrived ([pulls], "too long"). *)
From Coq Require Import List ZArith NArith Bool Lia.
From BBS Require Import Buffer.Source Buffer.Validate Buffer.StreamProofs Buffer.ValidateProofs
  Buffer.ValidateReaderProofs Buffer.EHFullReader.
Import ListNotations.
Open Scope N_scope.

Section VcrTrace.
  Variable H : bytes -> bytes.
  Variable cfg : vcfg.
  Variable S : Type.
  Variable rd : S -> (bytes * err) * S.
  Variable fuel : nat.
  Variable u0 : S.
  Notation vrd := (vcr_read H cfg rd fuel).
  Notation gc := (ECode (g_code cfg)).

  Definition ended (bs : bytes) (u : S) (e : err) : Prop :=
    (exists t, drains rd u0 bs t u /\ (e = t \/ (t = EEof /\ e = gc))) \/
    (pulls rd u0 bs u /\ e = gc /\ g_size cfg < lenN bs).

  Definition T (st : vst S) (out : bytes) : Prop :=
    match v_err st with
    | ENone => pulls rd u0 out (v_u st) /\ v_acc st = out /\ v_rem st + lenN out = g_size cfg
    | e => exists bs r, bs = out ++ r /\ ended bs (v_u st) e
    end.

  Lemma T_init : T (vinit cfg u0) [].
  Proof. unfold T. cbn. rsplit; [constructor|reflexivity|unfold lenN; cbn; lia]. Qed.

  Lemma finalize_trace : forall f (st : vst S) e st',
    finalize_loop H cfg rd f st = (e, st') -> e <> EFuel ->
    pulls rd u0 (v_acc st) (v_u st) -> lenN (v_acc st) = g_size cfg -> v_rem st = 0 ->
    e <> ENone /\ v_err st' = v_err st /\ exists r, ended (v_acc st ++ r) (v_u st') e.
  Proof.
    induction f as [|f IH]; intros st e st' Hf Hnf Hp Hl Hrem; cbn [finalize_loop] in Hf; [inv Hf; congruence|].
    destruct (rd (v_u st)) as [[chunk e0] u'] eqn:Hr.
    destruct e0; cbn [v_set_u v_rem v_u v_acc v_err v_cbs] in Hf.
    - destruct (v_rem st <? lenN chunk) eqn:Hlt.
      + apply N.ltb_lt in Hlt. unfold v_fail in Hf. inv Hf. cbn. rsplit; [congruence|reflexivity|].
        exists chunk. right. rsplit; [eapply pulls_snoc; eassumption|reflexivity|rewrite lenN_app; lia].
      + apply N.ltb_ge in Hlt. assert (chunk = []) by (apply lenN_zero; lia). subst chunk.
        apply (IH _ _ _ Hf Hnf); cbn; auto.
        rewrite <- (app_nil_r (v_acc st)). eapply pulls_snoc; eassumption.
    - assert (Hd : drains rd u0 (v_acc st) EEof u').
      { rewrite <- (app_nil_r (v_acc st)). eapply pulls_drains; [exact Hp|]. eapply drains_end; [eassumption|congruence]. }
      destruct (bytes_eqb _ _).
      + inv Hf. cbn. rsplit; [congruence|reflexivity|]. exists []. rewrite app_nil_r. left. exists EEof. auto.
      + unfold v_fail in Hf. inv Hf. cbn. rsplit; [congruence|reflexivity|]. exists []. rewrite app_nil_r. left. exists EEof. auto.
    - inv Hf. cbn. rsplit; [congruence|reflexivity|]. exists []. rewrite app_nil_r. left. exists EUnexp. split; [|auto].
      rewrite <- (app_nil_r (v_acc st)). eapply pulls_drains; [exact Hp|]. eapply drains_end; [eassumption|congruence].
    - inv Hf. cbn. rsplit; [congruence|reflexivity|]. exists []. rewrite app_nil_r. left. exists (ECode c). split; [|auto].
      rewrite <- (app_nil_r (v_acc st)). eapply pulls_drains; [exact Hp|]. eapply drains_end; [eassumption|congruence].
    - inv Hf. congruence.
  Qed.

  Lemma maybe_finalize_trace (st : vst S) e st' :
    maybe_finalize H cfg rd fuel st = (e, st') -> e <> EFuel ->
    pulls rd u0 (v_acc st) (v_u st) -> v_rem st + lenN (v_acc st) = g_size cfg ->
    (e = ENone /\ st' = st /\ 0 < v_rem st) \/
    (e <> ENone /\ v_err st' = v_err st /\ exists r, ended (v_acc st ++ r) (v_u st') e).
  Proof.
    unfold maybe_finalize. intros Hm Hnf Hp Hl. destruct (0 <? v_rem st) eqn:Hpos.
    - apply N.ltb_lt in Hpos. inv Hm. left. auto.
    - apply N.ltb_ge in Hpos. right. apply (finalize_trace _ _ _ _ Hm Hnf Hp); lia.
  Qed.

  (** one read of a validator that has not finished *)
  Lemma vcr_read_trace (st : vst S) out c e st' :
    vrd st = ((c, e), st') -> e <> EFuel -> T st out -> v_err st = ENone ->
    T st' (out ++ c) /\ (e <> ENone -> v_err st' = e) /\ (e = ENone -> v_err st' = ENone \/ v_err st' = EEof).
  Proof.
    intros Hr Hnf Ht Herr. unfold T in Ht. rewrite Herr in Ht. destruct Ht as (Hp & Hacc & Hrem). subst out.
    unfold vcr_read in Hr. rewrite Herr in Hr.
    destruct (vcr_do_read H cfg rd fuel st) as [[chunk e1] st1] eqn:Hd. unfold vcr_do_read in Hd.
    destruct (maybe_finalize H cfg rd fuel st) as [e0 st0] eqn:Hm.
    (* a failure (of any kind) with nothing handed out *)
    assert (Hend : forall (sx : vst S) x r, x <> ENone -> ended (v_acc st ++ r) (v_u sx) x ->
              T (v_set_err sx x) (v_acc st ++ []) /\ (x <> ENone -> v_err (v_set_err sx x) = x) /\
              (x = ENone -> v_err (v_set_err sx x) = ENone \/ v_err (v_set_err sx x) = EEof)).
    { intros sx x r Hx He. rewrite app_nil_r. split; [|split; [auto|congruence]].
      unfold T. cbn [v_set_err v_err v_u]. destruct x; try congruence; exists (v_acc st ++ r), r; auto. }
    assert (Hm0 : e0 <> EFuel -> (e0 = ENone /\ st0 = st /\ 0 < v_rem st) \/
                  (e0 <> ENone /\ v_err st0 = v_err st /\ exists r, ended (v_acc st ++ r) (v_u st0) e0)).
    { intros Hn0. apply (maybe_finalize_trace _ _ _ Hm Hn0); [exact Hp|exact Hrem]. }
    destruct e0.
    - destruct (Hm0 ltac:(congruence)) as [(_ & -> & Hpos)|(Hc & _)]; [|congruence].
      destruct (rd (v_u st)) as [[ch e2] u'] eqn:Hrd. cbn [v_set_u v_rem v_u v_acc v_err v_cbs] in Hd.
      destruct e2.
      + destruct (v_rem st <? lenN ch) eqn:Hlt.
        * apply N.ltb_lt in Hlt. unfold v_fail in Hd. injection Hd as <- <- <-. injection Hr as <- <- <-. apply (Hend _ _ ch); [congruence|].
          right. split; [eapply pulls_snoc; eassumption|]. split; [reflexivity|]. rewrite lenN_app. lia.
        * apply N.ltb_ge in Hlt. injection Hd as <- <- <-.
          set (st1 := mkVst u' (v_rem st - lenN ch) (v_acc st ++ ch) (v_err st) (v_cbs st)) in *.
          assert (Hp1 : pulls rd u0 (v_acc st1) (v_u st1)) by (cbn; eapply pulls_snoc; eassumption).
          assert (Hl1 : v_rem st1 + lenN (v_acc st1) = g_size cfg) by (cbn; rewrite lenN_app; lia).
          destruct (maybe_finalize H cfg rd fuel st1) as [e3 st3] eqn:Hm2.
          assert (Hm3 : e3 <> EFuel -> (e3 = ENone /\ st3 = st1 /\ 0 < v_rem st1) \/
                        (e3 <> ENone /\ v_err st3 = v_err st1 /\ exists r, ended (v_acc st1 ++ r) (v_u st3) e3))
            by (intros Hn3; apply (maybe_finalize_trace _ _ _ Hm2 Hn3 Hp1 Hl1)).
          destruct e3.
          -- injection Hr as <- <- <-. destruct (Hm3 ltac:(congruence)) as [(_ & -> & Hpos1)|(Hc & _)]; [|congruence].
             unfold T. cbn. rsplit; auto; try (rewrite lenN_app; lia); try congruence; try (rewrite Herr; auto).
          -- injection Hr as <- <- <-. destruct (Hm3 ltac:(congruence)) as [(Hc & _)|(_ & _ & r & He)]; [congruence|].
             split; [|split; [congruence|auto]].
             unfold T. cbn [v_set_err v_err v_u]. exists (v_acc st1 ++ r), r. cbn [v_acc st1]. auto.
          -- injection Hr as <- <- <-. destruct (Hm3 ltac:(congruence)) as [(Hc & _)|(_ & _ & r & He)]; [congruence|].
             apply (Hend st3 EUnexp (ch ++ r)); [congruence|]. cbn [v_acc st1] in He. rewrite <- app_assoc in He. exact He.
          -- injection Hr as <- <- <-. destruct (Hm3 ltac:(congruence)) as [(Hc & _)|(_ & _ & r & He)]; [congruence|].
             apply (Hend st3 (ECode c0) (ch ++ r)); [congruence|]. cbn [v_acc st1] in He. rewrite <- app_assoc in He. exact He.
          -- injection Hr as <- <- <-. congruence.
      + unfold v_fail in Hd. injection Hd as <- <- <-. injection Hr as <- <- <-. apply (Hend _ _ []); [congruence|]. rewrite app_nil_r. cbn.
        left. exists EEof. split; [|right; auto].
        rewrite <- (app_nil_r (v_acc st)). eapply pulls_drains; [exact Hp|]. eapply drains_end; [eassumption|congruence].
      + injection Hd as <- <- <-. injection Hr as <- <- <-. apply (Hend _ _ []); [congruence|]. rewrite app_nil_r. cbn. left. exists EUnexp. split; [|auto].
        rewrite <- (app_nil_r (v_acc st)). eapply pulls_drains; [exact Hp|]. eapply drains_end; [eassumption|congruence].
      + injection Hd as <- <- <-. injection Hr as <- <- <-. apply (Hend _ _ []); [congruence|]. rewrite app_nil_r. cbn. left. exists (ECode c0). split; [|auto].
        rewrite <- (app_nil_r (v_acc st)). eapply pulls_drains; [exact Hp|]. eapply drains_end; [eassumption|congruence].
      + injection Hd as <- <- <-. injection Hr as <- <- <-. congruence.
    - injection Hd as <- <- <-. injection Hr as <- <- <-. destruct (Hm0 ltac:(congruence)) as [(Hc & _)|(_ & _ & r & He)]; [congruence|].
      apply (Hend st0 EEof r); [congruence|exact He].
    - injection Hd as <- <- <-. injection Hr as <- <- <-. destruct (Hm0 ltac:(congruence)) as [(Hc & _)|(_ & _ & r & He)]; [congruence|].
      apply (Hend st0 EUnexp r); [congruence|exact He].
    - injection Hd as <- <- <-. injection Hr as <- <- <-. destruct (Hm0 ltac:(congruence)) as [(Hc & _)|(_ & _ & r & He)]; [congruence|].
      apply (Hend st0 (ECode c0) r); [congruence|exact He].
    - injection Hd as <- <- <-. injection Hr as <- <- <-. congruence.
  Qed.

  Lemma vcr_read_sticky_state (st : vst S) c e st' :
    vrd st = ((c, e), st') -> v_err st <> ENone -> c = [] /\ e = v_err st /\ st' = st.
  Proof. unfold vcr_read. intros Hr Hne. destruct (v_err st); try congruence; inv Hr; auto. Qed.

  Theorem vcr_trace st out bs e st' :
    drains vrd st bs e st' -> e <> EFuel -> T st out -> T st' (out ++ bs) /\ v_err st' = e.
  Proof.
    intros Hd Hnf. revert out. induction Hd as [st c e st1 Hr Hne|st c st1 bs e st2 Hr _ IH]; intros out Ht.
    - destruct (v_err st) eqn:Herr.
      + destruct (vcr_read_trace _ _ _ _ _ Hr Hnf Ht Herr) as (Ht' & He & _). rewrite app_nil_r in *.
        (* a failing read hands out nothing *)
        assert (c = []) by (destruct (vcr_sticky _ _ _ _ _ _ _ _ _ Hr Hne) as (-> & _); reflexivity). subst c.
        rewrite app_nil_r in Ht'. auto.
      + destruct (vcr_read_sticky_state _ _ _ _ Hr ltac:(congruence)) as (-> & -> & ->). rewrite app_nil_r. auto.
      + destruct (vcr_read_sticky_state _ _ _ _ Hr ltac:(congruence)) as (-> & -> & ->). rewrite app_nil_r. auto.
      + destruct (vcr_read_sticky_state _ _ _ _ Hr ltac:(congruence)) as (-> & -> & ->). rewrite app_nil_r. auto.
      + destruct (vcr_read_sticky_state _ _ _ _ Hr ltac:(congruence)) as (-> & -> & ->). rewrite app_nil_r. auto.
    - destruct (v_err st) eqn:Herr; try (destruct (vcr_read_sticky_state _ _ _ _ Hr ltac:(congruence)) as (_ & Hx & _); congruence).
      destruct (vcr_read_trace _ _ _ _ _ Hr ltac:(congruence) Ht Herr) as (Ht' & _ & _).
      rewrite app_assoc. apply IH; assumption.
  Qed.
End VcrTrace.

(** * The same for casValidatingReader *)
Section ReadFullTrace.
  Variable S : Type.
  Variable rd : N -> S -> (bytes * err) * S.
  Lemma read_full_trace : forall f want got s res fe s',
    read_full_loop rd f want got s = ((res, fe), s') -> fe <> EFuel ->
    exists d, res = got ++ d /\
      ((fe = ENone /\ rpulls rd s d s') \/
       (exists t, rdrains rd s d t s' /\
                  (fe = ENone \/ fe = t \/ (t = EEof /\ (fe = EEof \/ fe = EUnexp))))).
  Proof.
    induction f as [|f IH]; intros want got s res fe s' Hr Hnf; cbn [read_full_loop] in Hr;
      destruct (want <=? lenN got).
    - inv Hr. exists []. rewrite app_nil_r. split; [reflexivity|]. left. split; [reflexivity|constructor].
    - inv Hr. congruence.
    - inv Hr. exists []. rewrite app_nil_r. split; [reflexivity|]. left. split; [reflexivity|constructor].
    - destruct (rd (want - lenN got) s) as [[c e0] s1] eqn:Hrd.
      assert (Herr : e0 <> ENone ->
        (if want <=? lenN (got ++ c) then ((got ++ c, ENone), s1)
         else match e0 with
              | EEof => ((got ++ c, if is_nil (got ++ c) then EEof else EUnexp), s1)
              | _ => ((got ++ c, e0), s1)
              end) = ((res, fe), s') ->
        exists d, res = got ++ d /\
          ((fe = ENone /\ rpulls rd s d s') \/
           (exists t, rdrains rd s d t s' /\
                      (fe = ENone \/ fe = t \/ (t = EEof /\ (fe = EEof \/ fe = EUnexp)))))).
      { intros Hne Hx. exists c. assert (Hd : rdrains rd s c e0 s1) by (eapply rdrains_end; eassumption).
        destruct (want <=? lenN (got ++ c)).
        - inv Hx. split; [reflexivity|]. right. exists e0. auto.
        - destruct e0; try congruence.
          + inv Hx. split; [reflexivity|]. right. exists EEof. split; [exact Hd|]. right. right.
            split; [reflexivity|]. destruct (is_nil (got ++ c)); auto.
          + inv Hx. split; [reflexivity|]. right. exists EUnexp. auto.
          + inv Hx. split; [reflexivity|]. right. exists (ECode c0). auto. }
      destruct e0; try (apply Herr; [congruence|exact Hr]).
      destruct (IH _ _ _ _ _ _ Hr Hnf) as (d & -> & Hc). exists (c ++ d). rewrite <- app_assoc. split; [reflexivity|].
      destruct Hc as [(-> & Hp)|(t & Hd & Hc)].
      + left. split; [reflexivity|]. eapply rpulls_step; eassumption.
      + right. exists t. split; [eapply rdrains_step; eassumption|exact Hc].
  Qed.
End ReadFullTrace.

Section VrTrace.
  Variable H : bytes -> bytes.
  Variable cfg : vcfg.
  Variable S : Type.
  Variable rd : N -> S -> (bytes * err) * S.
  Variable fuel : nat.
  Variable u0 : S.
  Variable P : S -> Prop.
  Hypothesis rd_P : forall cap s c e s', P s -> rd cap s = ((c, e), s') -> e <> EUnexp /\ (e = ENone -> P s').
  Notation vrd := (vr_read H cfg rd fuel).
  Notation gc := (ECode (g_code cfg)).

  Definition endedr (bs : bytes) (u : S) (e : err) : Prop :=
    (exists t, rdrains rd u0 bs t u /\ (e = t \/ (t = EEof /\ e = gc) \/ (e = gc /\ g_size cfg < lenN bs))) \/
    (rpulls rd u0 bs u /\ e = gc /\ g_size cfg < lenN bs).

  Definition Tr (st : vst S) (out : bytes) : Prop :=
    match v_err st with
    | ENone => rpulls rd u0 out (v_u st) /\ v_acc st = out /\ v_rem st + lenN out = g_size cfg /\ P (v_u st)
    | e => exists bs r, bs = out ++ r /\ endedr bs (v_u st) e
    end.

  Lemma Tr_init : P u0 -> Tr (vinit cfg u0) [].
  Proof. intros Hp. unfold Tr. cbn. rsplit; [constructor|reflexivity|unfold lenN; cbn; lia|exact Hp]. Qed.

  Lemma rpulls_snoc s a s' cap c s'' : rpulls rd s a s' -> rd cap s' = ((c, ENone), s'') -> rpulls rd s (a ++ c) s''.
  Proof.
    induction 1 as [s|cap0 s c0 s1 bs s2 Hr _ IH]; intros Hc.
    - cbn. rewrite <- (app_nil_r c). eapply rpulls_step; [eassumption|constructor].
    - rewrite <- app_assoc. eapply rpulls_step; [eassumption|]. now apply IH.
  Qed.
  Lemma rpulls_trans s a s' b s'' : rpulls rd s a s' -> rpulls rd s' b s'' -> rpulls rd s (a ++ b) s''.
  Proof. induction 1; intros Hb; [exact Hb|]. rewrite <- app_assoc. eapply rpulls_step; eauto. Qed.

  Lemma vr_read_trace cap (st : vst S) out c e st' :
    vrd cap st = ((c, e), st') -> e <> EFuel -> Tr st out -> v_err st = ENone ->
    Tr st' (out ++ c) /\ v_err st' = e.
  Proof.
    intros Hr Hnf Ht Herr. unfold Tr in Ht. rewrite Herr in Ht. destruct Ht as (Hp & Hacc & Hrem & HP). subst out.
    unfold vr_read in Hr. rewrite Herr in Hr.
    destruct (vr_do_read H cfg rd fuel cap st) as [[d0 e0] st0] eqn:Hdo. injection Hr as <- <- <-.
    split; [|reflexivity].
    unfold vr_do_read in Hdo. destruct (rd cap (v_u st)) as [[data re] u'] eqn:Hrd.
    destruct (rd_P _ _ _ _ _ HP Hrd) as (Hnu & HP').
    cbn [v_set_u v_rem v_u v_acc v_err v_cbs] in Hdo.
    (* a failure with nothing handed out, [x] the bytes pulled in this call *)
    assert (Hend : forall (sx : vst S) y x, y <> ENone -> endedr (v_acc st ++ x) (v_u sx) y ->
              Tr (v_set_err sx y) (v_acc st ++ [])).
    { intros sx y x Hy He. rewrite app_nil_r. unfold Tr. cbn [v_set_err v_err v_u].
      destruct y; try congruence; exists (v_acc st ++ x), x; auto. }
    assert (Hone : re = ENone -> rpulls rd u0 (v_acc st ++ data) u') by (intros ->; eapply rpulls_snoc; eassumption).
    assert (Hdr : re <> ENone -> rdrains rd u0 (v_acc st ++ data) re u')
      by (intros Hne; eapply rpulls_rdrains; [exact Hp|]; eapply rdrains_end; eassumption).
    destruct (v_rem st <? lenN data) eqn:Hlt.
    { apply N.ltb_lt in Hlt. unfold v_fail in Hdo. injection Hdo as <- <- <-. apply (Hend _ _ data); [congruence|]. cbn.
      assert (Hlen : g_size cfg < lenN (v_acc st ++ data)) by (rewrite lenN_app; lia).
      destruct re; [right; auto| | | | ]; left; eexists; (split; [apply Hdr; congruence|auto]). }
    apply N.ltb_ge in Hlt.
    destruct re; cbn [v_rem v_u v_acc v_err v_cbs] in Hdo.
    - destruct (v_rem st - lenN data =? 0) eqn:Hz.
      + apply N.eqb_eq in Hz.
        destruct (read_full rd fuel 1 u') as [[fin fe] u''] eqn:Hf. cbn [v_set_u v_rem v_u v_acc v_err v_cbs] in Hdo.
        unfold read_full in Hf.
        assert (Hfin : (fe = ENone \/ fe = EEof \/ fe = EUnexp) ->
          (if v_rem st - lenN data <? lenN fin
           then let '(e', st'0) := v_fail cfg (mkVst u'' (v_rem st - lenN data) (v_acc st ++ data) (v_err st) (v_cbs st)) in
                (([], e'), st'0)
           else let '(e', st'0) := vr_compare H cfg (mkVst u'' (v_rem st - lenN data) (v_acc st ++ data) (v_err st) (v_cbs st)) in
                match e' with
                | ENone => ((data, EEof), v_notify st'0 true)
                | _ => (([], e'), st'0)
                end) = ((d0, e0), st0) ->
          Tr (v_set_err st0 e0) (v_acc st ++ d0)).
        { intros Hfe. destruct (read_full_trace _ _ _ _ _ _ _ _ _ Hf ltac:(destruct Hfe as [-> | [-> | ->]]; congruence))
            as (d & Ed & Htr). cbn in Ed. subst d.
          assert (Hall : exists t, rdrains rd u0 ((v_acc st ++ data) ++ fin) t u'' /\
                           (fe = ENone \/ fe = t \/ (t = EEof /\ (fe = EEof \/ fe = EUnexp))) \/
                         (fe = ENone /\ rpulls rd u0 ((v_acc st ++ data) ++ fin) u'')).
          { destruct Htr as [(-> & Hpf)|(t & Hdf & Hc)].
            - exists ENone. right. split; [reflexivity|]. eapply rpulls_trans; [apply Hone; reflexivity|exact Hpf].
            - exists t. left. split; [eapply rpulls_rdrains; [apply Hone; reflexivity|exact Hdf]|exact Hc]. }
          destruct (v_rem st - lenN data <? lenN fin) eqn:Hlt2.
          - apply N.ltb_lt in Hlt2. unfold v_fail. intros Hx. injection Hx as <- <- <-.
            apply (Hend _ _ (data ++ fin)); [congruence|]. cbn. rewrite app_assoc.
            assert (Hlen : g_size cfg < lenN ((v_acc st ++ data) ++ fin)) by (rewrite !lenN_app; lia).
            destruct Hall as (t & [(Hd & _)|(_ & Hpl)]); [left; exists t; auto|right; auto].
          - apply N.ltb_ge in Hlt2. assert (Hnil : fin = []) by (apply lenN_zero; lia). subst fin.
            rewrite app_nil_r in Hall.
            assert (Heof : rdrains rd u0 (v_acc st ++ data) EEof u'').
            { destruct Hfe as [-> | [-> | ->]].
              - apply read_full_none in Hf. rewrite lenN_nil in Hf. lia.
              - destruct (read_full_eof _ _ _ _ _ _ _ _ Hf) as (_ & _ & Hd).
                rewrite <- (app_nil_r (v_acc st ++ data)). eapply rpulls_rdrains; [apply Hone; reflexivity|exact Hd].
              - exfalso. exact (read_full_unexp _ _ _ rd_P _ _ _ _ _ _ Hf (HP' eq_refl) eq_refl). }
            destruct (vr_compare H cfg _) as [e' st1] eqn:Hcmp.
            assert (Hst1 : v_u st1 = u'') by (unfold vr_compare in Hcmp; destruct (bytes_eqb _ _); inv Hcmp; reflexivity).
            destruct (vr_compare_code _ _ _ _ _ _ Hcmp) as [-> | ->]; intros Hx; injection Hx as <- <- <-.
            + unfold Tr. cbn [v_set_err v_notify v_err v_u]. exists (v_acc st ++ data), []. rewrite app_nil_r, Hst1.
              split; [reflexivity|]. left. exists EEof. auto.
            + apply (Hend _ _ data); [congruence|]. rewrite Hst1. left. exists EEof. auto. }
        destruct fe; try (apply Hfin; [tauto|exact Hdo]).
        * injection Hdo as <- <- <-.
          destruct (read_full_trace _ _ _ _ _ _ _ _ _ Hf ltac:(congruence)) as (d & Ed & Htr). cbn in Ed. subst d.
          apply (Hend _ _ (data ++ fin)); [congruence|].
          cbn [v_u]. destruct Htr as [(Hc & _)|(t & Hdf & Hc)]; [congruence|].
          destruct Hc as [Hc|[Hc|(_ & [Hc|Hc])]]; try congruence. subst t.
          rewrite app_assoc. left. exists (ECode c). split; [eapply rpulls_rdrains; [apply Hone; reflexivity|exact Hdf]|auto].
        * congruence.
      + apply N.eqb_neq in Hz. injection Hdo as <- <- <-. unfold Tr. cbn [v_set_err v_err v_u v_acc v_rem].
        rsplit; auto; [rewrite lenN_app; lia].
    - destruct (negb (v_rem st - lenN data =? 0)) eqn:Hz.
      + unfold v_fail in Hdo. injection Hdo as <- <- <-. apply (Hend _ _ data); [congruence|]. cbn. left. exists EEof.
        split; [apply Hdr; congruence|auto].
      + revert Hdo. destruct (vr_compare H cfg _) as [e' st1] eqn:Hcmp.
        assert (Hst1 : v_u st1 = u') by (unfold vr_compare in Hcmp; destruct (bytes_eqb _ _); inv Hcmp; reflexivity).
        destruct (vr_compare_code _ _ _ _ _ _ Hcmp) as [-> | ->]; intros Hx; injection Hx as <- <- <-.
        * unfold Tr. cbn [v_set_err v_notify v_err v_u]. exists (v_acc st ++ data), []. rewrite app_nil_r, Hst1.
          split; [reflexivity|]. left. exists EEof. split; [apply Hdr; congruence|auto].
        * apply (Hend _ _ data); [congruence|]. rewrite Hst1. left. exists EEof. split; [apply Hdr; congruence|auto].
    - congruence.
    - injection Hdo as <- <- <-. apply (Hend _ _ data); [congruence|]. cbn. left. exists (ECode c). split; [apply Hdr; congruence|auto].
    - injection Hdo as <- <- <-. congruence.
  Qed.

  Lemma vr_read_sticky_state cap (st : vst S) c e st' :
    vrd cap st = ((c, e), st') -> v_err st <> ENone -> c = [] /\ e = v_err st /\ st' = st.
  Proof. unfold vr_read. intros Hr Hne. destruct (v_err st); try congruence; inv Hr; auto. Qed.

  Theorem vr_trace st out bs e st' :
    rdrains vrd st bs e st' -> e <> EFuel -> Tr st out -> Tr st' (out ++ bs) /\ v_err st' = e.
  Proof.
    intros Hd Hnf. revert out. induction Hd as [cap st c e st1 Hr Hne|cap st c st1 bs e st2 Hr _ IH]; intros out Ht.
    - destruct (v_err st) eqn:Herr;
        try (destruct (vr_read_sticky_state _ _ _ _ _ Hr ltac:(congruence)) as (-> & -> & ->); rewrite app_nil_r; auto; fail).
      exact (vr_read_trace _ _ _ _ _ _ Hr Hnf Ht Herr).
    - destruct (v_err st) eqn:Herr;
        try (destruct (vr_read_sticky_state _ _ _ _ _ Hr ltac:(congruence)) as (_ & Hx & _); congruence).
      destruct (vr_read_trace _ _ _ _ _ _ Hr ltac:(congruence) Ht Herr) as (Ht' & _).
      rewrite app_assoc. apply IH; assumption.
  Qed.
End VrTrace.
