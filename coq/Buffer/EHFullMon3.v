(** C16 — monitor clause 3 (a streaming method completed => the stitched
    stream of the specification is valid and the consumer holds exactly its
    expected slice) never fires on the model's own observation, for inputs in
    the harness's domain on which the model does not run out of fuel. *)
From Coq Require Import List ZArith NArith Bool Lia.
From BBS Require Import Common.Sx Buffer.Source Buffer.Validate Buffer.Convert Buffer.ErrHandler
  Buffer.StreamProofs Buffer.ConvertProofs Buffer.C09FullMonitor
  Buffer.EHFullCarry Buffer.EHFullExact Buffer.EHFullPrefix Buffer.EHFullStacking Buffer.EHFullCompleted
  Run.R09 Run.R16.
Import ListNotations.
Open Scope Z_scope.

Definition out16 (inp : sx) : outcome16s :=
  let c := dec_case16 inp in
  run_stack (lookup (q_tbl c)) (q_cfg c) (stack_fuel (q_b0 c) (q_anss c)) (q_b0 c) (q_anss c) (q_meth c).

Lemma run16_out16 inp : run16 inp = enc_out16s (q_report (dec_case16 inp)) (out16 inp).
Proof. reflexivity. Qed.

Lemma sx_Z_enc_err e : sx_Z (enc_err e) = R16.code_of e.
Proof. destruct e; reflexivity. Qed.

Lemma In_single {A} (x y : A) : In x [y] -> x = y.
Proof. intros [E|[]]; auto. Qed.

(** the hypotheses: the harness's domain, and a model run without fuel exhaustion *)
Definition dom16 (inp : sx) : Prop :=
  let c := dec_case16 inp in
  q_anss c <> [] /\ wf_case (q_b0 c) (q_anss c) /\
  no_fuel_offered (y_logs (out16 inp)) /\
  (forall x, y_err (out16 inp) = ECode x -> 0 < x).

Lemma trusted_bytes H cfg b0 anss :
  all_bytes_trusted (fun d => (lenN d =? g_size cfg)%N && bytes_eqb (g_hash cfg) (H d)) b0 anss = true ->
  bytes_trusted H cfg b0 anss.
Proof.
  unfold all_bytes_trusted, bytes_trusted, replacements. intros Hall d Hin.
  rewrite forallb_forall in Hall. specialize (Hall _ Hin). cbn in Hall.
  apply andb_true_iff in Hall. destruct Hall as (Hl & Hh). apply N.eqb_eq in Hl. apply bytes_eqb_eq in Hh.
  split; assumption.
Qed.

Theorem clause_3_silent_on_model : forall inp, dom16 inp -> ~ In 3 (mon16 inp (run16 inp)).
Proof.
  intros inp (Hne & Hwf & Hnf & Hpos) Hin. rewrite run16_out16 in Hin. unfold mon16 in Hin.
  set (c := dec_case16 inp) in *. set (o := out16 inp) in *.
  pose proof (run_stack_completed_streaming (lookup (q_tbl c)) (q_cfg c) (stack_fuel (q_b0 c) (q_anss c))
                (q_b0 c) (q_anss c) (q_meth c)) as Hthm. fold o in Hthm. cbv zeta in Hthm.
  destruct (piece_of (q_b0 c) 0) as [p0 t0].
  destruct (stitch_stack p0 t0 (q_anss c)) as [[st term] offss].
  cbv zeta in Hin.
  repeat (apply in_app_or in Hin; destruct Hin as [Hin|Hin]);
    try (match type of Hin with In _ (if ?x then _ else _) => destruct x end; try contradiction;
         apply In_single in Hin; discriminate).
  destruct (is_discard (q_meth c)); [contradiction|].
  repeat (apply in_app_or in Hin; destruct Hin as [Hin|Hin]).
  - destruct (returned _ _); [|contradiction].
    match type of Hin with In _ (if ?x then _ else _) => destruct x end; [contradiction|].
    apply In_single in Hin; discriminate.
  - assert (Hstream : EHFullPrefix.streaming (q_meth c) \/
                      match q_meth c with MIntoWriter | MToChunkReader _ _ _ | MToReader _ _ => False | _ => True end)
      by (destruct (q_meth c); cbn; auto).
    destruct Hstream as [Hs|Hns].
    + assert (Hsb : match q_meth c with MIntoWriter | MToChunkReader _ _ _ | MToReader _ _ => true | _ => false end = true)
        by (destruct (q_meth c); try contradiction; reflexivity).
      rewrite Hsb in Hin.
      repeat (apply in_app_or in Hin; destruct Hin as [Hin|Hin]);
        try (match type of Hin with In _ (if ?x then _ else _) => destruct x end; try contradiction;
             apply In_single in Hin; discriminate).
      (* clause 3 itself *)
      match type of Hin with In _ (if ?x then _ else _) => destruct x eqn:Hc3 end; [|contradiction].
      apply andb_true_iff in Hc3. destruct Hc3 as (Hc3 & Hbad). apply andb_true_iff in Hc3. destruct Hc3 as (Hdone & Htr).
      unfold enc_out16s, sx_nth in Hdone, Hbad. cbn [sx_list nth] in Hdone, Hbad.
      rewrite sx_Z_enc_err in Hdone. rewrite (completes_completed _ _ Hpos) in Hdone.
      destruct (Hthm Hs Hne Hdone Hwf Hnf) as (st' & Hspec & Hdata & Hval).
      inversion Hspec; subst st' term. clear Hspec.
      destruct (Hval (trusted_bytes _ _ _ _ Htr)) as (Hl & Hh).
      change (y_data o = expected_slice (q_meth c) st) in Hdata.
      rewrite dec_bytes_of_Ns in Hbad. rewrite Hdata in Hbad. change (expected (q_meth c) st) with (expected_slice (q_meth c) st) in Hbad. rewrite bytes_eqb_refl in Hbad.
      cbn [err_eqb] in Hbad. rewrite Hl, N.eqb_refl in Hbad.
      assert (Hhb : bytes_eqb (g_hash (q_cfg c)) (lookup (q_tbl c) st) = true) by (apply bytes_eqb_eq; exact Hh).
      rewrite Hhb in Hbad. discriminate.
    + assert (Hsb : match q_meth c with MIntoWriter | MToChunkReader _ _ _ | MToReader _ _ => true | _ => false end = false)
        by (destruct (q_meth c); try contradiction; reflexivity).
      rewrite Hsb in Hin.
      match type of Hin with In _ (if ?x then _ else _) => destruct x end; [|contradiction].
      destruct (buffer_in_use _ _ _) as [b|]; [|apply In_single in Hin; discriminate].
      destruct (ucontent b) as [cont t].
      match type of Hin with In _ (if ?x then _ else _) => destruct x end; [contradiction|].
      apply In_single in Hin; discriminate.
Qed.
