(** C09 (completion) — the monitor [mon09] is silent on the model's own output:
    for every input whose script error codes are genuine gRPC error codes
    (positive) and on which the model did not run out of fuel,
    [mon09 inp (run09 inp) = []].

    Both hypotheses are necessary in the sx encoding: a script error with code
    0 / -1 is indistinguishable from nil / io.EOF in an observation, and
    out-of-fuel (code -3) is no source error (e.g. ToChunkReader with maximum
    chunk size 0 never ends); see the counterexamples at the end. *)
From Coq Require Import List ZArith NArith Bool Lia.
From BBS Require Import Common.Sx Buffer.Source Buffer.Validate Buffer.Convert Buffer.StreamProofs
  Buffer.ValidateProofs Buffer.ValidateReaderProofs Buffer.ConvertProofs Buffer.ReaderBufferProofs
  Buffer.ConvertProofs2 Buffer.C09FullValidate Buffer.C09FullCombinators Buffer.C09FullReader
  Buffer.C09FullChunk Buffer.C09FullReaderBuf Buffer.C09FullComplete Run.R09.
Import ListNotations.
Open Scope N_scope.

(** * Decoding an encoded outcome *)
Definition code_of (e : err) : Z := sx_Z (enc_err e).

Lemma dec_bytes_of_Ns l : dec_bytes (of_Ns l) = l.
Proof.
  unfold dec_bytes, of_Ns, sx_Ns. cbn [sx_list]. rewrite map_map.
  induction l as [|x l IH]; cbn [map]; [reflexivity|]. rewrite IH. f_equal.
  unfold sx_N, of_N. cbn [sx_Z]. apply N2Z.id.
Qed.
Lemma sx_bools_of_bools l : map sx_bool (map of_bool l) = l.
Proof. induction l as [|[|] l IH]; cbn [map]; rewrite ?IH; reflexivity. Qed.

(** the model's outcome before encoding *)
Definition out09 (inp : sx) : outcome :=
  let c := dec_case inp in
  let H := lookup (k_tbl c) in
  let fuel := script_fuel (k_evs c) in
  match k_kind c with
  | 0%Z => cas_byte_slice H (k_cfg c) fuel (fst (content (k_evs c))) (k_meth c)
  | 1%Z => cas_reader H (k_cfg c) fuel (k_evs c) (k_attach c) (k_meth c)
  | _ => cas_chunk_reader H (k_cfg c) fuel (k_evs c) (k_meth c)
  end.
Lemma run09_out09 inp : run09 inp = enc_out (k_report (dec_case inp)) (out09 inp).
Proof. reflexivity. Qed.

(** * The seven clauses of the monitor on decoded values *)
Definition mon_clauses (gcode : Z) (size : N) (cont : bytes) (term : err) (valid : bool) (m : meth)
    (delivered : bytes) (code : Z) (cbs : list bool) (aux : bytes) : list Z :=
  let done := completes m code in
  if is_discard m then [] else
  (if done && negb valid then [1%Z] else []) ++
  (if done && valid && negb (bytes_eqb delivered (expected m cont)
        && match m with MCloneCopy _ => bytes_eqb aux cont | _ => true end) then [2%Z] else []) ++
  (if negb done &&
      negb ((negb valid && (err_eqb term EEof || (size <? lenN cont)) && (code =? gcode)%Z)
            || err_eqb term (ECode code)
            || (bad_param size m && (code =? 3)%Z))
   then [3%Z] else []) ++
  (if negb valid && err_eqb term EEof && negb (bad_param size m) && negb (code =? gcode)%Z
   then [4%Z] else []) ++
  (if negb valid && negb (is_nil delivered) && negb (m_off m + Z.of_N (lenN delivered) <? Z.of_N size)%Z
   then [5%Z] else []) ++
  (if existsb (fun b => b) cbs && negb valid then [6%Z] else []) ++
  (if existsb negb cbs && valid then [7%Z] else []).

Definition term09 (c : case09) : err := if (k_kind c =? 0)%Z then EEof else snd (content (k_evs c)).
Definition valid09 (c : case09) : bool :=
  err_eqb (term09 c) EEof && (lenN (fst (content (k_evs c))) =? g_size (k_cfg c))
  && bytes_eqb (g_hash (k_cfg c)) (lookup (k_tbl c) (fst (content (k_evs c)))).

Lemma mon09_clauses inp r o :
  mon09 inp (enc_out r o) =
  let c := dec_case inp in
  mon_clauses (g_code (k_cfg c)) (g_size (k_cfg c)) (fst (content (k_evs c))) (term09 c) (valid09 c) (k_meth c)
    (o_data o) (code_of (o_err o)) (if r then o_cbs o else []) (o_aux o).
Proof.
  unfold mon09, mon_clauses, enc_out, valid09, term09, code_of. cbn [sx_nth sx_list nth].
  destruct (content (k_evs (dec_case inp))) as [cont term]. cbn [fst snd].
  rewrite !dec_bytes_of_Ns. destruct r; [rewrite sx_bools_of_bools|]; reflexivity.
Qed.

Lemma bytes_eqb_refl a : bytes_eqb a a = true.
Proof. apply bytes_eqb_eq. reflexivity. Qed.

Lemma existsb_id_In cbs : existsb (fun b : bool => b) cbs = true -> In true cbs.
Proof. intros Hx. apply existsb_exists in Hx. destruct Hx as (b & Hin & Hb). now subst b. Qed.
Lemma existsb_negb_In cbs : existsb negb cbs = true -> In false cbs.
Proof. intros Hx. apply existsb_exists in Hx. destruct Hx as ([|] & Hin & Hb); [discriminate|exact Hin]. Qed.

(** the monitor is silent when the property's clauses hold *)
Lemma mon_clauses_nil gcode size cont term valid m delivered code cbs aux :
  (valid = false -> completes m code = false) ->
  (valid = true -> completes m code = true ->
     delivered = expected m cont /\ (forall mx, m = MCloneCopy mx -> aux = cont)) ->
  (completes m code = false ->
     (valid = false /\ (term = EEof \/ size < lenN cont) /\ code = gcode) \/ term = ECode code \/
     (bad_param size m = true /\ code = 3%Z)) ->
  (valid = false -> term = EEof -> bad_param size m = false -> code = gcode) ->
  (valid = false -> delivered = [] \/ (m_off m + Z.of_N (lenN delivered) < Z.of_N size)%Z) ->
  (In true cbs -> valid = true) -> (In false cbs -> valid = false) ->
  mon_clauses gcode size cont term valid m delivered code cbs aux = [].
Proof.
  intros F1 F2 F3 F4 F5 F6 F7. unfold mon_clauses. destruct (is_discard m); [reflexivity|].
  assert (E1 : completes m code && negb valid = false).
  { destruct valid; [apply andb_false_r|]. rewrite (F1 eq_refl). reflexivity. }
  assert (E2 : completes m code && valid && negb (bytes_eqb delivered (expected m cont)
                 && match m with MCloneCopy _ => bytes_eqb aux cont | _ => true end) = false).
  { destruct (completes m code) eqn:Ed; [|reflexivity]. destruct valid; [|reflexivity].
    destruct (F2 eq_refl eq_refl) as (-> & Ha). rewrite bytes_eqb_refl.
    destruct m; try reflexivity. rewrite (Ha _ eq_refl), bytes_eqb_refl. reflexivity. }
  assert (E3 : negb (completes m code) &&
      negb ((negb valid && (err_eqb term EEof || (size <? lenN cont)) && (code =? gcode)%Z)
            || err_eqb term (ECode code) || (bad_param size m && (code =? 3)%Z)) = false).
  { destruct (completes m code) eqn:Ed; [reflexivity|]. cbn [negb andb]. apply negb_false_iff.
    destruct (F3 eq_refl) as [(-> & Hw & ->)|[->|(-> & ->)]].
    - cbn [negb andb]. rewrite Z.eqb_refl. destruct Hw as [->|Hl]; [reflexivity|].
      apply N.ltb_lt in Hl. rewrite Hl, orb_true_r. reflexivity.
    - cbn [err_eqb]. rewrite Z.eqb_refl, orb_true_r. reflexivity.
    - cbn. apply orb_true_r. }
  assert (E4 : negb valid && err_eqb term EEof && negb (bad_param size m) && negb (code =? gcode)%Z = false).
  { destruct valid; [reflexivity|]. destruct (err_eqb term EEof) eqn:Et; [|reflexivity].
    destruct (bad_param size m) eqn:Eb; [reflexivity|]. cbn [negb andb].
    assert (term = EEof) by (destruct term; try discriminate; reflexivity).
    rewrite (F4 eq_refl H eq_refl), Z.eqb_refl. reflexivity. }
  assert (E5 : negb valid && negb (is_nil delivered) && negb (m_off m + Z.of_N (lenN delivered) <? Z.of_N size)%Z = false).
  { destruct valid; [reflexivity|]. destruct (F5 eq_refl) as [->|Hl]; [reflexivity|].
    apply Z.ltb_lt in Hl. rewrite Hl. apply andb_false_r. }
  assert (E6 : existsb (fun b : bool => b) cbs && negb valid = false).
  { destruct (existsb (fun b : bool => b) cbs) eqn:Ex; [|reflexivity]. rewrite (F6 (existsb_id_In _ Ex)). reflexivity. }
  assert (E7 : existsb negb cbs && valid = false).
  { destruct (existsb negb cbs) eqn:Ex; [|reflexivity]. rewrite (F7 (existsb_negb_In _ Ex)). reflexivity. }
  cbv zeta. rewrite E1, E2, E3, E4, E5, E6, E7. reflexivity.
Qed.

(** * Vocabulary links *)
Lemma expected_eq m c : expected m c = expected_slice m c.
Proof. destruct m; reflexivity. Qed.

Lemma completes_completed m e :
  (forall x, e = ECode x -> (0 < x)%Z) -> completes m (code_of e) = completed m e.
Proof.
  intros Hpos. destruct e; try (destruct m; reflexivity).
  specialize (Hpos c eq_refl). unfold code_of. cbn [enc_err sx_Z].
  assert ((c =? 0)%Z = false) by (apply Z.eqb_neq; lia).
  assert ((c =? -1)%Z = false) by (apply Z.eqb_neq; lia).
  destruct m; cbn [completes completed is_none err_eqb orb]; rewrite ?H, ?H0; reflexivity.
Qed.

Lemma completed_not_code m x : completed m (ECode x) = false.
Proof. destruct m; reflexivity. Qed.

Lemma content_err_in evs x : snd (content evs) = ECode x -> In (Err x) evs.
Proof.
  induction evs as [|[bs|c|] r IH]; cbn [content]; try discriminate.
  - destruct (content r) as [c e]. cbn [snd] in *. intros Hx. right. exact (IH Hx).
  - cbn [snd]. intros Hx. inv Hx. left. reflexivity.
Qed.

Lemma validb_spec H cfg evs :
  err_eqb (snd (content evs)) EEof && (lenN (fst (content evs)) =? g_size cfg)
  && bytes_eqb (g_hash cfg) (H (fst (content evs))) = true <-> valid_script H cfg evs.
Proof.
  unfold valid_script. rewrite !andb_true_iff, N.eqb_eq, bytes_eqb_eq. split.
  - intros ((He & Hl) & Hh). rsplit; auto. destruct (snd (content evs)); try discriminate. reflexivity.
  - intros (He & Hl & Hh). rewrite He. auto.
Qed.

Lemma m_off_nonneg size m : bad_param size m = false -> (0 <= m_off m)%Z.
Proof.
  destruct m; cbn [bad_param m_off]; try lia.
  intros Hx. apply negb_false_iff in Hx. unfold valid_offset in Hx. apply andb_true_iff in Hx.
    destruct Hx as [Hx _]. apply Z.leb_le in Hx. exact Hx.
Qed.

Lemma expected_positive cfg evs x :
  (0 < g_code cfg)%Z -> (forall y, In (Err y) evs -> (0 < y)%Z) ->
  expected_err cfg (fst (content evs)) (snd (content evs)) = ECode x -> (0 < x)%Z.
Proof.
  intros Hgpos Hpos. unfold expected_err.
  destruct (g_size cfg <? lenN (fst (content evs))); [intros Hx; inv Hx; exact Hgpos|].
  destruct (snd (content evs)) eqn:Et; try discriminate; intros Hx; inv Hx; [exact Hgpos|].
  apply Hpos, content_err_in. exact Et.
Qed.

(** * The clauses hold of a stream constructor's outcome *)
Section StreamFacts.
  Variable H : bytes -> bytes.
  Variable cfg : vcfg.
  Variable evs : list ev.
  Variable m : meth.
  Variable o : outcome.
  Hypothesis Hgpos : (0 < g_code cfg)%Z.
  Hypothesis Hpos : forall x, In (Err x) evs -> (0 < x)%Z.
  Hypothesis Hm : m <> MDiscard.
  Hypothesis Hnf : o_err o <> EFuel.
  (** what the constructor-level theorems say, for either constructor *)
  Hypothesis Tcomplete : completed m (o_err o) = true ->
    valid_script H cfg evs /\ o_data o = expected_slice m (fst (content evs)).
  Hypothesis Tclone : forall mx, m = MCloneCopy mx -> o_err o = ENone -> o_aux o = o_data o.
  Hypothesis Tcbs : (In true (o_cbs o) -> valid_script H cfg evs) /\ (In false (o_cbs o) -> ~ valid_script H cfg evs).
  Hypothesis Totherwise : ~ valid_script H cfg evs -> bad_param (g_size cfg) m = false ->
    o_err o = expected_err cfg (fst (content evs)) (snd (content evs)) /\
    (o_data o = [] \/ Z.to_N (m_off m) + lenN (o_data o) < g_size cfg).
  Hypothesis Tbad : bad_param (g_size cfg) m = true -> o_err o = ECode 3 /\ o_data o = [] /\ o_cbs o = [].
  Hypothesis Tvalid : valid_script H cfg evs -> bad_param (g_size cfg) m = false -> completed m (o_err o) = true.

  Let validb := err_eqb (snd (content evs)) EEof && (lenN (fst (content evs)) =? g_size cfg)
                && bytes_eqb (g_hash cfg) (H (fst (content evs))).

  Lemma err_positive x : o_err o = ECode x -> (0 < x)%Z.
  Proof.
    intros Hx. destruct (bad_param (g_size cfg) m) eqn:Eb.
    - destruct (Tbad eq_refl) as (He & _). rewrite He in Hx. inv Hx. lia.
    - destruct validb eqn:Ev.
      + apply validb_spec in Ev. pose proof (Tvalid Ev eq_refl) as Hc. rewrite Hx, completed_not_code in Hc. discriminate.
      + assert (Hnv : ~ valid_script H cfg evs) by (intros Hv; apply validb_spec in Hv; unfold validb in Ev; congruence).
        destruct (Totherwise Hnv eq_refl) as (He & _). rewrite He in Hx. exact (expected_positive _ _ _ Hgpos Hpos Hx).
  Qed.

  Lemma stream_silent (r : bool) :
    mon_clauses (g_code cfg) (g_size cfg) (fst (content evs)) (snd (content evs)) validb m
      (o_data o) (code_of (o_err o)) (if r then o_cbs o else []) (o_aux o) = [].
  Proof.
    pose proof (completes_completed m (o_err o) err_positive) as Hcc.
    assert (Hvt : validb = true -> valid_script H cfg evs) by (intros Hv; apply validb_spec; exact Hv).
    assert (Hvf : validb = false -> ~ valid_script H cfg evs).
    { intros Hv Hs. apply validb_spec in Hs. unfold validb in Hv. congruence. }
    assert (Hcbs : forall b, In b (if r then o_cbs o else []) -> In b (o_cbs o)) by (destruct r; [auto|intros b []]).
    apply mon_clauses_nil.
    - (* 1 *) intros Hv. rewrite Hcc. destruct (completed m (o_err o)) eqn:Hc; [|reflexivity].
      exfalso. exact (Hvf Hv (proj1 (Tcomplete eq_refl))).
    - (* 2 *) intros Hv Hd. rewrite Hcc in Hd. destruct (Tcomplete Hd) as (_ & Hdata). rewrite expected_eq. split; [exact Hdata|].
      intros mx ->. cbn [completed] in Hd. rewrite (Tclone mx eq_refl); [exact Hdata|].
      destruct (o_err o); try discriminate; reflexivity.
    - (* 3 *) intros Hd. rewrite Hcc in Hd.
      destruct (bad_param (g_size cfg) m) eqn:Eb.
      + right. right. destruct (Tbad eq_refl) as (He & _). rewrite He. auto.
      + destruct validb eqn:Ev; [rewrite (Tvalid (Hvt eq_refl) eq_refl) in Hd; discriminate|].
        destruct (Totherwise (Hvf eq_refl) eq_refl) as (He & _). rewrite He. unfold expected_err.
        destruct (g_size cfg <? lenN (fst (content evs))) eqn:Hl.
        * left. apply N.ltb_lt in Hl. auto.
        * destruct (content_term evs) as [Ht|(x & Ht)]; rewrite Ht; [left; auto|right; left; reflexivity].
    - (* 4 *) intros Hv Ht Eb. destruct (Totherwise (Hvf Hv) Eb) as (He & _). rewrite He, Ht, expected_err_clean_end. reflexivity.
    - (* 5 *) intros Hv. destruct (bad_param (g_size cfg) m) eqn:Eb.
      + left. exact (proj1 (proj2 (Tbad eq_refl))).
      + destruct (Totherwise (Hvf Hv) eq_refl) as (_ & [Hd|Hd]); [left; exact Hd|right].
        pose proof (m_off_nonneg _ _ Eb). lia.
    - (* 6 *) intros Hin. destruct validb eqn:Ev; [reflexivity|]. exfalso. exact (Hvf eq_refl (proj1 Tcbs (Hcbs _ Hin))).
    - (* 7 *) intros Hin. destruct validb eqn:Ev; [|reflexivity]. exfalso. exact (proj2 Tcbs (Hcbs _ Hin) (Hvt eq_refl)).
  Qed.
End StreamFacts.

(** CloneCopy: the second copy is the first *)
Lemma chunk_clone_aux H cfg fuel evs mx :
  o_err (cas_chunk_reader H cfg fuel evs (MCloneCopy mx)) = ENone ->
  o_aux (cas_chunk_reader H cfg fuel evs (MCloneCopy mx)) = o_data (cas_chunk_reader H cfg fuel evs (MCloneCopy mx)).
Proof.
  cbn [cas_chunk_reader]. destruct (to_byte_slice_cr _ _ _ _ _ _) as [r st]. unfold clone_copy_of.
  destruct (snd r); cbn; congruence.
Qed.
Lemma reader_clone_aux H cfg fuel evs attach mx :
  o_err (cas_reader H cfg fuel evs attach (MCloneCopy mx)) = ENone ->
  o_aux (cas_reader H cfg fuel evs attach (MCloneCopy mx)) = o_data (cas_reader H cfg fuel evs attach (MCloneCopy mx)).
Proof.
  cbn [cas_reader]. destruct (to_byte_slice_r _ _ _ _ _) as [r st]. unfold clone_copy_of.
  destruct (snd r); cbn; congruence.
Qed.

(** * NewCASBufferFromByteSlice *)
Lemma bb_rconsume_end fuel : forall caps lastcap out d out' e d',
  rconsume bb_read fuel caps lastcap out d = ((out', e), d') -> e = EEof \/ e = EFuel.
Proof.
  induction fuel as [|f IH]; intros caps lastcap out d out' e d' Hr; cbn [rconsume] in Hr; [inv Hr; auto|].
  unfold bb_read in Hr at 1. destruct (is_nil d).
  - destruct (hd lastcap caps =? 0); [eapply IH; eassumption|inv Hr; auto].
  - eapply IH; eassumption.
Qed.

Lemma byte_slice_buffer_fails fuel data cbs closed m :
  m <> MDiscard ->
  o_err (byte_slice_buffer fuel data cbs closed m) <> EFuel ->
  completed m (o_err (byte_slice_buffer fuel data cbs closed m)) = false ->
  bad_param (lenN data) m = true /\ o_err (byte_slice_buffer fuel data cbs closed m) = ECode 3.
Proof.
  intros Hm. destruct m; try congruence; cbn [byte_slice_buffer bad_param completed].
  - destruct (max <? lenN data); cbn; [auto|discriminate].
  - cbn. discriminate.
  - destruct (off <? 0)%Z; [cbn; auto|]. destruct (lenN data <? Z.to_N off); [cbn; discriminate|].
    destruct (lenN _ <? plen); cbn; discriminate.
  - destruct (valid_offset (lenN data) off); [|cbn; auto].
    destruct (drain (bs_read max) fuel [] _) as [[out e] s] eqn:Hd. destruct (extra_reads _ extra s) as [ex s2].
    cbn [o_err]. intros Hnf Hc. exfalso.
    destruct (drain_drains _ _ _ _ _ _ _ _ Hd Hnf) as (bs & _ & Hds).
    destruct (bs_read_drains _ _ _ _ _ Hds) as (_ & ->). discriminate.
  - destruct (rconsume bb_read fuel caps (last_cap caps) [] data) as [[out e] s] eqn:Hr.
    destruct (rextra _ extra _ s) as [ex s2]. cbn [o_err]. intros Hnf Hc. exfalso.
    destruct (bb_rconsume_end _ _ _ _ _ _ _ _ Hr) as [->| ->]; [discriminate|congruence].
  - destruct (max <? lenN data); cbn; [auto|discriminate].
Qed.

Lemma byte_slice_buffer_clone_aux fuel data cbs closed mx :
  o_err (byte_slice_buffer fuel data cbs closed (MCloneCopy mx)) = ENone ->
  o_aux (byte_slice_buffer fuel data cbs closed (MCloneCopy mx)) = data.
Proof. cbn [byte_slice_buffer]. destruct (mx <? lenN data); cbn; [discriminate|reflexivity]. Qed.

Lemma byte_slice_buffer_cbs fuel data cbs closed m : o_cbs (byte_slice_buffer fuel data cbs closed m) = cbs.
Proof.
  destruct m; cbn [byte_slice_buffer];
    repeat match goal with
           | |- context [if ?c then _ else _] => destruct c
           | |- context [let '(_, _) := ?c in _] => destruct c as [[? ?] ?] || destruct c
           end; reflexivity.
Qed.

Lemma byte_slice_silent H cfg fuel data m (r : bool) :
  (0 < g_code cfg)%Z -> o_err (cas_byte_slice H cfg fuel data m) <> EFuel ->
  let o := cas_byte_slice H cfg fuel data m in
  mon_clauses (g_code cfg) (g_size cfg) data EEof
    (err_eqb EEof EEof && (lenN data =? g_size cfg) && bytes_eqb (g_hash cfg) (H data)) m
    (o_data o) (code_of (o_err o)) (if r then o_cbs o else []) (o_aux o) = [].
Proof.
  intros Hgpos Hnf o. destruct (is_discard m) eqn:Hdis; [unfold mon_clauses; rewrite Hdis; reflexivity|].
  assert (Hm : m <> MDiscard) by (intros ->; discriminate).
  cbn [err_eqb andb]. subst o. unfold cas_byte_slice in *. rewrite (N.eqb_sym (lenN data)).
  assert (Hcg : forall mm, completes mm (g_code cfg) = false).
  { intros mm. assert ((g_code cfg =? 0)%Z = false) by (apply Z.eqb_neq; lia).
    assert ((g_code cfg =? -1)%Z = false) by (apply Z.eqb_neq; lia).
    destruct mm; cbn [completes]; rewrite ?H0, ?H1; reflexivity. }
  assert (Hinvalid : forall valid, valid = false ->
            mon_clauses (g_code cfg) (g_size cfg) data EEof valid m
              (o_data (error_buffer (ECode (g_code cfg)) [false] 0 m))
              (code_of (o_err (error_buffer (ECode (g_code cfg)) [false] 0 m)))
              (if r then o_cbs (error_buffer (ECode (g_code cfg)) [false] 0 m) else [])
              (o_aux (error_buffer (ECode (g_code cfg)) [false] 0 m)) = []).
  { intros valid ->.
    assert (He : o_err (error_buffer (ECode (g_code cfg)) [false] 0 m) = ECode (g_code cfg)) by (destruct m; try congruence; reflexivity).
    assert (Hd : o_data (error_buffer (ECode (g_code cfg)) [false] 0 m) = []) by (destruct m; reflexivity).
    assert (Hc : o_cbs (error_buffer (ECode (g_code cfg)) [false] 0 m) = [false]) by (destruct m; reflexivity).
    rewrite He, Hd, Hc. unfold code_of. cbn [enc_err sx_Z].
    apply mon_clauses_nil; auto; try discriminate.
    destruct r; [intros [Hx|[]]; discriminate|intros []]. }
  destruct (g_size cfg =? lenN data) eqn:Es; cbn [negb andb]; [|apply Hinvalid; reflexivity].
  destruct (bytes_eqb (g_hash cfg) (H data)) eqn:Eh; cbn [negb]; [|apply Hinvalid; reflexivity].
  apply N.eqb_eq in Es.
  set (o := byte_slice_buffer fuel data [true] 0 m) in *.
  assert (Hpos : forall x, o_err o = ECode x -> (0 < x)%Z).
  { intros x Hx. destruct (completed m (o_err o)) eqn:Hc; [rewrite Hx, completed_not_code in Hc; discriminate|].
    destruct (byte_slice_buffer_fails fuel data [true] 0 m Hm Hnf Hc) as (_ & He). fold o in He. rewrite He in Hx. inv Hx. lia. }
  pose proof (completes_completed m (o_err o) Hpos) as Hcc.
  assert (Hcbs : o_cbs o = [true]) by apply byte_slice_buffer_cbs.
  apply mon_clauses_nil; try discriminate.
  - intros _ Hd. rewrite Hcc in Hd. rewrite expected_eq. split; [exact (byte_slice_buffer_expected _ _ _ _ _ Hd)|].
    intros mx ->. apply byte_slice_buffer_clone_aux. cbn [completed] in Hd. destruct (o_err o) eqn:Ee; try discriminate.
    exact Ee.
  - intros Hd. rewrite Hcc in Hd. right. right.
    destruct (byte_slice_buffer_fails fuel data [true] 0 m Hm Hnf Hd) as (Hb & He). fold o in He.
    rewrite Es, He. auto.
  - reflexivity.
  - rewrite Hcbs. destruct r; [intros [Hx|[]]; discriminate|intros []].
Qed.

(** * The theorem *)
Theorem mon09_silent_on_model inp :
  (forall x, In (Err x) (k_evs (dec_case inp)) -> (0 < x)%Z) ->
  o_err (out09 inp) <> EFuel ->
  mon09 inp (run09 inp) = [].
Proof.
  intros Hpos Hnf. rewrite run09_out09, mon09_clauses. cbv zeta.
  set (c := dec_case inp) in *.
  assert (Hgpos : (0 < g_code (k_cfg c))%Z).
  { subst c. unfold dec_case. cbn [k_cfg g_code]. destruct (sx_bool (sx_nth inp 1)); lia. }
  destruct (is_discard (k_meth c)) eqn:Hdis; [unfold mon_clauses; rewrite Hdis; reflexivity|].
  assert (Hm : k_meth c <> MDiscard) by (intros Hx; rewrite Hx in Hdis; discriminate).
  unfold out09 in *. fold c in Hnf |- *. unfold valid09, term09.
  set (H := lookup (k_tbl c)) in *. set (fuel := script_fuel (k_evs c)) in *.
  destruct (k_kind c) as [|[p|p|]|p] eqn:Hk; cbn [Z.eqb Pos.eqb].
  - (* byte slice *)
    exact (byte_slice_silent H (k_cfg c) fuel (fst (content (k_evs c))) (k_meth c) (k_report c) Hgpos Hnf).
  - (* other kinds: chunk reader *)
    apply (stream_silent H (k_cfg c) (k_evs c) (k_meth c) _ Hgpos Hpos Hm Hnf).
    + intros Hc. eapply chunk_reader_complete_implies_valid; [exact Hm|reflexivity|exact Hc].
    + intros mx Hmx. rewrite Hmx. apply chunk_clone_aux.
    + apply chunk_callbacks_sound.
    + intros Hnv Hb. destruct (chunk_otherwise H (k_cfg c) fuel (k_evs c) (k_meth c) _ Hm eq_refl Hnf Hnv Hb) as (A & B & _). auto.
    + intros Hb. destruct (chunk_bad_param H (k_cfg c) fuel (k_evs c) (k_meth c) _ eq_refl Hnf Hb) as (A & B & C & _). auto.
    + intros Hv Hb. exact (chunk_valid_completes H (k_cfg c) fuel (k_evs c) (k_meth c) _ Hm eq_refl Hnf Hv Hb).
  - apply (stream_silent H (k_cfg c) (k_evs c) (k_meth c) _ Hgpos Hpos Hm Hnf).
    + intros Hc. eapply chunk_reader_complete_implies_valid; [exact Hm|reflexivity|exact Hc].
    + intros mx Hmx. rewrite Hmx. apply chunk_clone_aux.
    + apply chunk_callbacks_sound.
    + intros Hnv Hb. destruct (chunk_otherwise H (k_cfg c) fuel (k_evs c) (k_meth c) _ Hm eq_refl Hnf Hnv Hb) as (A & B & _). auto.
    + intros Hb. destruct (chunk_bad_param H (k_cfg c) fuel (k_evs c) (k_meth c) _ eq_refl Hnf Hb) as (A & B & C & _). auto.
    + intros Hv Hb. exact (chunk_valid_completes H (k_cfg c) fuel (k_evs c) (k_meth c) _ Hm eq_refl Hnf Hv Hb).
  - (* reader *)
    apply (stream_silent H (k_cfg c) (k_evs c) (k_meth c) _ Hgpos Hpos Hm Hnf).
    + intros Hc. eapply ReaderBufferProofs.reader_complete_implies_valid; [exact Hm|reflexivity|exact Hc].
    + intros mx Hmx. rewrite Hmx. apply reader_clone_aux.
    + apply reader_callbacks_sound.
    + intros Hnv Hb. destruct (reader_otherwise H (k_cfg c) fuel (k_evs c) (k_attach c) (k_meth c) _ Hm eq_refl Hnf Hnv Hb) as (A & B & _). auto.
    + intros Hb. destruct (reader_bad_param H (k_cfg c) fuel (k_evs c) (k_attach c) (k_meth c) _ eq_refl Hb) as (A & B & C & _). auto.
    + intros Hv Hb. exact (reader_valid_completes H (k_cfg c) fuel (k_evs c) (k_attach c) (k_meth c) _ Hm eq_refl Hnf Hv Hb).
  - apply (stream_silent H (k_cfg c) (k_evs c) (k_meth c) _ Hgpos Hpos Hm Hnf).
    + intros Hc. eapply chunk_reader_complete_implies_valid; [exact Hm|reflexivity|exact Hc].
    + intros mx Hmx. rewrite Hmx. apply chunk_clone_aux.
    + apply chunk_callbacks_sound.
    + intros Hnv Hb. destruct (chunk_otherwise H (k_cfg c) fuel (k_evs c) (k_meth c) _ Hm eq_refl Hnf Hnv Hb) as (A & B & _). auto.
    + intros Hb. destruct (chunk_bad_param H (k_cfg c) fuel (k_evs c) (k_meth c) _ eq_refl Hnf Hb) as (A & B & C & _). auto.
    + intros Hv Hb. exact (chunk_valid_completes H (k_cfg c) fuel (k_evs c) (k_meth c) _ Hm eq_refl Hnf Hv Hb).
Qed.
