(** C16N (fuel) — [16 + tree_fuel t] suffices: for every tree, every digest and
    hash function and every method whose loop parameters are positive
    ([good_param]) the model of nested error handling ([run_tree]) with at least
    that much fuel never ends in [EFuel] and never offers [EFuel] to a handler
    at any depth ([noEF] of the observed tree).  Monotone in the fuel.

    The cost of a tree: a plain buffer costs [bcost] (EHFuelLaws.v), a wrapper
    1 + its base + its answers, a replacement answer 1 + its tree, an error
    answer 1; [tree_fuel t = 4 * tcost t].  The measure of a nested reader: a
    plain reader its C16 measure, an error-handling reader 1 + its current
    reader + the answers its handler has left.  [nread]'s fuel pays 1 per level
    on the way down and 1 per replacement. *)
From Coq Require Import List ZArith NArith Bool Lia.
From BBS Require Import Common.Sx Buffer.Source Buffer.Validate Buffer.Convert Buffer.ErrHandler
  Buffer.StreamProofs Buffer.ValidateProofs Buffer.C09FuelLoops Buffer.C09FuelSuffices
  Buffer.EHFuelLaws Buffer.EHFuelSuffices Buffer.EHNest Run.R09 Run.R16 Run.R16N.
Import ListNotations.
Open Scope nat_scope.

(** * Costs *)
Fixpoint tcost (t : nbuf) : nat :=
  match t with
  | NB b => bcost b
  | NW inner ans => S (tcost inner + acostN ans)
  end
with acostN (a : nanss) : nat :=
  match a with
  | ANil => 0
  | ARep b r => S (tcost b + acostN r)
  | AFail _ r => S (acostN r)
  end.

Lemma tree_fuel_tcost : (forall t, tree_fuel t = 4 * tcost t) /\ (forall a, ans_fuelN a = 4 * acostN a).
Proof.
  apply nbuf_nanss_ind; cbn [tree_fuel ans_fuelN tcost acostN]; intros; rewrite ?buf_fuel_bcost; lia.
Qed.
Lemma tcost_pos t : 1 <= tcost t.
Proof. destruct t; cbn [tcost]; [apply bcost_pos|lia]. Qed.

(** * Observed trees without an out-of-fuel offer *)
Definition nef (e : err) : bool := negb (err_eqb e EFuel).
Fixpoint noEF (o : otree) : bool :=
  match o with
  | OLeaf _ => true
  | ONode offs _ kids => forallb nef offs && forallb noEF kids
  end.
Lemma nef_true e : e <> EFuel -> nef e = true.
Proof. destruct e; cbn; congruence. Qed.
Lemma forallb_snoc {A} (f : A -> bool) l x : forallb f l = true -> f x = true -> forallb f (l ++ [x]) = true.
Proof. intros A1 A2. rewrite forallb_app, A1. cbn. rewrite A2. reflexivity. Qed.

Definition hclean (h : hnd) : Prop := forallb nef (hn_off h) = true /\ forallb noEF (hn_dead h) = true.

(** * Nested errorHandlingChunkReaders *)
Fixpoint Incr (fuel : nat) (r : ncr) : Prop :=
  match r with
  | CL u => Iucr fuel u
  | CE cur _ h => Incr fuel cur /\ hclean h
  end.
Fixpoint mun (r : ncr) : nat :=
  match r with
  | CL u => mucr u
  | CE cur _ h => S (mun cur + acostN (hn_ans h))
  end.

Lemma Incr_noEF fuel : forall r, Incr fuel r -> noEF (nobs r) = true.
Proof.
  induction r as [u|cur IH off h]; cbn [Incr nobs]; [reflexivity|].
  intros (Hc & Ho & Hd). unfold hn_obs. cbn [noEF]. rewrite Ho. cbn [andb].
  apply forallb_snoc; [exact Hd|apply IH; exact Hc].
Qed.
Lemma nclose_fuel fuel : forall r, Incr fuel r -> Incr fuel (nclose r) /\ mun (nclose r) <= mun r.
Proof.
  induction r as [u|cur IH off h]; cbn [Incr nclose mun].
  - apply ucr_close_fuel.
  - intros (Hc & Hh). destruct (IH Hc) as [A B]. unfold hn_finish, hclean in *. cbn [hn_ans hn_off hn_dead].
    rsplit; auto; try tauto. lia.
Qed.
Lemma nopen_fuel fuel : forall t off, tcost t <= fuel ->
  Incr fuel (nopen fuel t off) /\ S (mun (nopen fuel t off)) <= tcost t.
Proof.
  induction t as [b|inner IH ans]; intros off Hf; cbn [nopen Incr mun tcost] in *.
  - apply ucr_open_fuel. exact Hf.
  - destruct (IH off ltac:(lia)) as [A B]. unfold hn_new, hclean. cbn [hn_ans hn_off hn_dead forallb].
    rsplit; auto. lia.
Qed.

Lemma nread_fuel fuel max : (1 <= max)%N -> forall f r c e r',
  Incr fuel r -> mun r < f -> mun r < fuel -> nread fuel f max r = ((c, e), r') ->
  e <> EFuel /\ Incr fuel r' /\ mun r' <= mun r /\ (e = ENone -> mun r' < mun r).
Proof.
  intros Hmax. induction f as [|f IH]; intros r c e r' Hi Hm Hlt Hr; [lia|].
  cbn [nread] in Hr. destruct r as [u|cur off h]; cbn [Incr mun] in *.
  - destruct (ucr_read fuel max u) as [x u'] eqn:Hu. destruct x as [c0 e0]. inv Hr.
    destruct (ucr_read_prog fuel max Hmax _ _ _ _ Hi Hu) as (A & B & C & D). cbn [Incr mun].
    rsplit; auto. intros X. specialize (D X). lia.
  - destruct Hi as (Hc & Hh).
    destruct (nread fuel f max cur) as [[chunk e0] cur'] eqn:Hu.
    destruct (IH _ _ _ _ Hc ltac:(lia) ltac:(lia) Hu) as (A & B & C & D).
    assert (Hother : e0 <> ENone -> e0 <> EEof ->
      (let '(a, h') := hn_on_error h e0 in
       match a with
       | NFailWith c0 => (([], ECode c0), CE cur' off h')
       | NReplace t' => nread fuel f max (CE (nopen fuel t' off) off (hn_retire h' (nobs (nclose cur'))))
       end) = ((c, e), r') ->
      e <> EFuel /\ Incr fuel r' /\ mun r' <= S (mun cur + acostN (hn_ans h)) /\
      (e = ENone -> mun r' < S (mun cur + acostN (hn_ans h)))).
    { intros _ _ Hx. destruct Hh as (Ho & Hd).
      assert (Ho' : forallb nef (hn_off h ++ [e0]) = true) by (apply forallb_snoc; [exact Ho|apply nef_true; exact A]).
      unfold hn_on_error in Hx. destruct (hn_ans h) as [|t' r|c0 r] eqn:Ea; cbn [acostN] in *.
      - inv Hx. cbn [Incr mun hn_ans]. unfold hclean. cbn [hn_off hn_dead acostN].
        rsplit; auto; try congruence; try lia.
      - destruct (nopen_fuel fuel t' off ltac:(lia)) as [O1 O2].
        destruct (nclose_fuel fuel _ B) as [N1 _].
        apply IH in Hx.
        + cbn [mun hn_retire hn_ans] in Hx. destruct Hx as (X1 & X2 & X3 & X4).
          rsplit; auto; try lia.
        + cbn [Incr hn_retire]. unfold hclean. cbn [hn_off hn_dead]. rsplit; auto.
          apply forallb_snoc; [exact Hd|apply (Incr_noEF fuel); exact N1].
        + cbn [mun hn_retire hn_ans]. lia.
        + cbn [mun hn_retire hn_ans]. lia.
      - inv Hx. cbn [Incr mun hn_ans]. unfold hclean. cbn [hn_off hn_dead acostN].
        rsplit; auto; try congruence; try lia. }
    destruct e0; try (apply Hother; [congruence|congruence|exact Hr]).
    + inv Hr. cbn [Incr mun]. specialize (D eq_refl). rsplit; auto; try congruence; try lia.
    + inv Hr. cbn [Incr mun]. rsplit; auto; try congruence; try lia.
Qed.

Definition Jn (fuel : nat) (r : ncr) : Prop := Incr fuel r /\ mun r < fuel.
Lemma nread_prog fuel max : (1 <= max)%N -> cprog (fun _ => 0) (nread fuel fuel max) (Jn fuel) mun.
Proof.
  intros Hmax r c e r' (Hi & Hm) Hr.
  destruct (nread_fuel fuel max Hmax fuel r c e r' Hi Hm Hm Hr) as (A & B & C & D).
  unfold Jn. rsplit; auto; try lia. intros X. specialize (D X). lia.
Qed.

(** * Nested errorHandlingReaders *)
Fixpoint Inrd (fuel : nat) (r : nrd) : Prop :=
  match r with
  | RL u => Iurd fuel u
  | RE cur _ h => Inrd fuel cur /\ hclean h
  end.
Fixpoint murn (r : nrd) : nat :=
  match r with
  | RL u => murd u
  | RE cur _ h => S (murn cur + acostN (hn_ans h))
  end.

Lemma Inrd_noEF fuel : forall r, Inrd fuel r -> noEF (nrobs r) = true.
Proof.
  induction r as [u|cur IH off h]; cbn [Inrd nrobs]; [reflexivity|].
  intros (Hc & Ho & Hd). unfold hn_obs. cbn [noEF]. rewrite Ho. cbn [andb].
  apply forallb_snoc; [exact Hd|apply IH; exact Hc].
Qed.
Lemma nrclose_fuel fuel : forall r, Inrd fuel r -> Inrd fuel (nrclose r) /\ murn (nrclose r) <= murn r.
Proof.
  induction r as [u|cur IH off h]; cbn [Inrd nrclose murn].
  - apply urd_close_fuel.
  - intros (Hc & Hh). destruct (IH Hc) as [A B]. unfold hn_finish, hclean in *. cbn [hn_ans hn_off hn_dead].
    rsplit; auto; try tauto. lia.
Qed.
Lemma nropen_fuel fuel : forall t off, tcost t <= fuel ->
  Inrd fuel (nropen fuel t off) /\ S (murn (nropen fuel t off)) <= tcost t.
Proof.
  induction t as [b|inner IH ans]; intros off Hf; cbn [nropen Inrd murn tcost] in *.
  - apply urd_open_fuel. exact Hf.
  - destruct (IH off ltac:(lia)) as [A B]. unfold hn_new, hclean. cbn [hn_ans hn_off hn_dead forallb].
    rsplit; auto. lia.
Qed.

Lemma nrread_fuel fuel : forall r cap c e r',
  Inrd fuel r -> murn r < fuel -> nrread fuel cap r = ((c, e), r') ->
  e <> EFuel /\ Inrd fuel r' /\ murn r' <= murn r /\
  ((1 <= cap)%N -> e = ENone \/ c <> [] -> murn r' < murn r).
Proof.
  induction r as [u|cur IH off h]; intros cap c e r' Hi Hlt Hr; cbn [nrread] in Hr; cbn [Inrd murn] in *.
  - destruct (urd_read fuel cap u) as [x u'] eqn:Hu. destruct x as [c0 e0]. inv Hr.
    destruct (urd_read_prog fuel _ _ _ _ _ Hi Hu) as (A & B & C & D). cbn [Inrd murn]. auto.
  - destruct Hi as (Hc & Hh).
    destruct (nrread fuel cap cur) as [[data e0] cur'] eqn:Hu.
    destruct (IH _ _ _ _ Hc ltac:(lia) Hu) as (A & B & C & D).
    assert (Hother : e0 <> ENone -> e0 <> EEof ->
      (let '(a, h') := hn_on_error h e0 in
       match a with
       | NFailWith c0 => ((data, ECode c0), RE cur' (off + lenN data)%N h')
       | NReplace t' => ((data, ENone), RE (nropen fuel t' (off + lenN data)%N) (off + lenN data)%N
                                          (hn_retire h' (nrobs (nrclose cur'))))
       end) = ((c, e), r') ->
      e <> EFuel /\ Inrd fuel r' /\ murn r' <= S (murn cur + acostN (hn_ans h)) /\
      ((1 <= cap)%N -> e = ENone \/ c <> [] -> murn r' < S (murn cur + acostN (hn_ans h)))).
    { intros N1 N2 Hx. destruct Hh as (Ho & Hd).
      assert (Ho' : forallb nef (hn_off h ++ [e0]) = true) by (apply forallb_snoc; [exact Ho|apply nef_true; exact A]).
      unfold hn_on_error in Hx. destruct (hn_ans h) as [|t' r|c0 r] eqn:Ea; cbn [acostN] in *.
      - inv Hx. cbn [Inrd murn hn_ans]. unfold hclean. cbn [hn_off hn_dead acostN].
        rsplit; auto; try congruence; try lia.
        intros Hcap [X|X]; [congruence|]. specialize (D Hcap (or_intror X)). lia.
      - destruct (nropen_fuel fuel t' (off + lenN data)%N ltac:(lia)) as [O1 O2].
        destruct (nrclose_fuel fuel _ B) as [N3 _].
        inv Hx. cbn [Inrd murn hn_retire hn_ans]. unfold hclean. cbn [hn_off hn_dead].
        rsplit; auto; try congruence; try lia.
        apply forallb_snoc; [exact Hd|apply (Inrd_noEF fuel); exact N3].
      - inv Hx. cbn [Inrd murn hn_ans]. unfold hclean. cbn [hn_off hn_dead acostN].
        rsplit; auto; try congruence; try lia. }
    destruct e0; try (apply Hother; [congruence|congruence|exact Hr]).
    + inv Hr. cbn [Inrd murn]. rsplit; auto; try congruence; try lia.
      intros Hcap X. specialize (D Hcap X). lia.
    + inv Hr. cbn [Inrd murn]. rsplit; auto; try congruence; try lia.
      intros Hcap X. specialize (D Hcap X). lia.
Qed.

Definition Jrn (fuel : nat) (r : nrd) : Prop := Inrd fuel r /\ murn r < fuel.
Lemma nrread_prog fuel : rprog (nrread fuel) (Jrn fuel) murn.
Proof.
  intros cap r c e r' (Hi & Hm) Hr.
  destruct (nrread_fuel fuel r cap c e r' Hi Hm Hr) as (A & B & C & D).
  unfold Jrn. rsplit; auto; try lia.
Qed.

(** * Every method *)
Section Methods.
  Variable H : bytes -> bytes.
  Variable cfg : vcfg.
  Variable fuel : nat.

  Definition wok (r : wres) : Prop := snd (fst (fst r)) <> EFuel /\ noEF (snd r) = true.

  Lemma whole_fuel m : good_param m = true ->
    (forall t, 4 * tcost t <= fuel -> wok (whole H cfg fuel m t)) /\
    (forall ans r offers dead cbs, 4 * acostN ans <= fuel -> wok r ->
       forallb nef offers = true -> forallb noEF dead = true ->
       wok (try_ans H cfg fuel m ans r offers dead cbs)).
  Proof.
    intros Hg. apply nbuf_nanss_ind.
    - intros b Hf. cbn [whole tcost] in *. split; cbn [fst snd noEF]; [|reflexivity].
      apply plain_fuel; assumption.
    - intros inner IHi ans IHa Hf. cbn [whole tcost] in *. apply IHa; [lia|apply IHi; lia|reflexivity|reflexivity].
    - intros r offers dead cbs Hf (He & Ho) Hoff Hdead. destruct r as [[[d e] cb] o]. cbn [fst snd] in *.
      cbn [try_ans].
      assert (Hk : forallb noEF (dead ++ [o]) = true) by (apply forallb_snoc; assumption).
      assert (Ho2 : forallb nef (offers ++ [e]) = true) by (apply forallb_snoc; [assumption|apply nef_true; exact He]).
      destruct e; split; cbn [fst snd noEF]; try congruence; rewrite ?Hk, ?Ho2, ?Hoff; reflexivity.
    - intros t' IHt rest IHr r offers dead cbs Hf (He & Ho) Hoff Hdead. destruct r as [[[d e] cb] o].
      cbn [fst snd acostN] in *. cbn [try_ans].
      assert (Hk : forallb noEF (dead ++ [o]) = true) by (apply forallb_snoc; assumption).
      assert (Ho2 : forallb nef (offers ++ [e]) = true) by (apply forallb_snoc; [assumption|apply nef_true; exact He]).
      assert (Hrec : wok (try_ans H cfg fuel m rest (whole H cfg fuel m t') (offers ++ [e]) (dead ++ [o]) (cbs ++ cb))).
      { apply IHr; [lia|apply IHt; lia|exact Ho2|exact Hk]. }
      destruct e; try exact Hrec; split; cbn [fst snd noEF]; try congruence; rewrite ?Hk, ?Hoff; reflexivity.
    - intros c0 rest IHr r offers dead cbs Hf (He & Ho) Hoff Hdead. destruct r as [[[d e] cb] o].
      cbn [fst snd] in *. cbn [try_ans].
      assert (Hk : forallb noEF (dead ++ [o]) = true) by (apply forallb_snoc; assumption).
      assert (Ho2 : forallb nef (offers ++ [e]) = true) by (apply forallb_snoc; [assumption|apply nef_true; exact He]).
      destruct e; split; cbn [fst snd noEF]; try congruence; rewrite ?Hk, ?Ho2, ?Hoff; reflexivity.
  Qed.

  Lemma discard_noEF : forall t, noEF (discard_tree H cfg fuel t) = true.
  Proof. induction t as [b|inner IH ans]; cbn; [reflexivity|]. rewrite IH. reflexivity. Qed.

  Notation IV := (Iv (Jn fuel) mun fuel).
  Notation MV := (muv mun).
  Notation IR := (Iv (Jrn fuel) murn fuel).
  Notation MR := (muv murn).

  Lemma nv_read_prog max : (1 <= max)%N -> cprog (fun _ => 0) (nv_read H cfg fuel max) IV MV.
  Proof. intros Hmax. exact (vcr_read_prog _ _ _ _ H cfg fuel (nread_prog fuel max Hmax)). Qed.
  Lemma nv_close_inv s : IV s -> IV (nv_close s) /\ MV (nv_close s) <= MV s.
  Proof.
    unfold Iv, muv, nv_close, Jn. intros ((A & A') & B & C). vsimp.
    destruct (nclose_fuel fuel _ A) as [A1 A2]. rsplit; auto; lia.
  Qed.
  Lemma nv_init_inv t : 4 * tcost t <= fuel ->
    IV (vinit cfg (nopen fuel t 0%N)) /\ MV (vinit cfg (nopen fuel t 0%N)) < fuel.
  Proof.
    intros Hf. pose proof (tcost_pos t). destruct (nopen_fuel fuel t 0%N ltac:(lia)) as [A B].
    unfold Iv, muv, vinit, Jn. vsimp. rsplit; auto; try congruence; try lia.
  Qed.
  Lemma nrv_read_prog : rprog (nrv_read H cfg fuel) IR MR.
  Proof. exact (vr_read_prog _ _ _ H cfg fuel (nrread_prog fuel)). Qed.
  Lemma nrv_init_inv t : 4 * tcost t <= fuel ->
    IR (vinit cfg (nropen fuel t 0%N)) /\ MR (vinit cfg (nropen fuel t 0%N)) < fuel.
  Proof.
    intros Hf. pose proof (tcost_pos t). destruct (nropen_fuel fuel t 0%N ltac:(lia)) as [A B].
    unfold Iv, muv, vinit, Jrn. vsimp. rsplit; auto; try congruence; try lia.
  Qed.
  Lemma IV_noEF s : IV s -> noEF (nobs (v_u s)) = true.
  Proof. intros ((A & _) & _). apply (Incr_noEF fuel). exact A. Qed.

  Theorem run_tree_fuel t m : good_param m = true -> 4 * tcost t <= fuel ->
    z_err (run_tree H cfg fuel t m) <> EFuel /\ noEF (z_tree (run_tree H cfg fuel t m)) = true.
  Proof.
    intros Hg Hf. destruct t as [b|inner ans].
    - cbn [run_tree z_err z_tree noEF tcost] in *. split; [apply plain_fuel; assumption|reflexivity].
    - remember (NW inner ans) as t eqn:Et.
      assert (Hwhole : forall m', good_param m' = true -> wok (whole H cfg fuel m' t))
        by (intros m' Hg'; apply (proj1 (whole_fuel m' Hg')); exact Hf).
      destruct m; rewrite Et; cbn [run_tree good_param] in *; rewrite <- Et.
      + destruct (whole H cfg fuel (MToByteSlice max) t) as [[[d e] cbs] o] eqn:Hw.
        pose proof (Hwhole (MToByteSlice max) eq_refl) as Hk. rewrite Hw in Hk. exact Hk.
      + unfold into_writer_cr. destruct (nv_init_inv t Hf) as [I0 M0].
        destruct (drain _ fuel [] _) as [[out e] st] eqn:Hd. cbn [z_err z_tree].
        destruct (drain_fuel _ _ _ _ (nv_read_prog 65536%N ltac:(lia)) fuel _ _ _ _ _ I0 M0 Hd) as (A & B & C).
        split; [destruct e; congruence|]. apply IV_noEF. apply nv_close_inv. exact B.
      + destruct (whole H cfg fuel (MReadAt plen off) t) as [[[d e] cbs] o] eqn:Hw.
        pose proof (Hwhole (MReadAt plen off) eq_refl) as Hk. rewrite Hw in Hk. exact Hk.
      + apply N.leb_le in Hg.
        destruct (valid_offset (g_size cfg) off); [|cbn [z_err z_tree]; split; [congruence|apply discard_noEF]].
        destruct (nv_init_inv t Hf) as [I0 M0].
        pose proof (nv_read_prog max Hg) as PV.
        destruct (offset_init_fuel0 _ _ nv_close _ _ PV nv_close_inv fuel off _ I0 M0) as [Io0 Mo0].
        set (o0 := offset_init (nv_read H cfg fuel max) nv_close fuel off (vinit cfg (nopen fuel t 0%N))) in *.
        pose proof (offset_read_prog0 _ _ _ _ PV) as PO.
        destruct (drain (offset_read (nv_read H cfg fuel max)) fuel [] o0) as [[out e] o] eqn:Hd.
        destruct (drain_fuel _ _ _ _ PO fuel _ _ _ _ _ Io0 ltac:(lia) Hd) as (A & B & C).
        destruct (extra_reads (offset_read (nv_read H cfg fuel max)) extra o) as [ex o2] eqn:He.
        cbn [z_err z_tree].
        pose proof (extra_reads_inv _ _ _ _ PO _ _ _ _ B He) as B2.
        split; [exact A|]. apply IV_noEF.
        exact (proj1 (proj1 (offset_close_inv0 nv_close _ _ nv_close_inv _ B2))).
      + destruct (caps_good _ Hg) as [Hcaps Hlast].
        destruct (nrv_init_inv t Hf) as [I0 M0].
        destruct (rconsume _ fuel caps (last_cap caps) [] _) as [[out e] st] eqn:Hrc.
        destruct (rconsume_fuel _ _ _ nrv_read_prog fuel _ _ _ _ _ _ _ Hcaps Hlast I0 M0 Hrc) as (A & B & C).
        destruct (rextra _ extra (last_cap caps) st) as [ex st2] eqn:He.
        cbn [z_err z_tree].
        pose proof (rextra_inv _ _ _ nrv_read_prog _ _ _ _ _ B He) as B2.
        split; [exact A|]. vsimp. destruct B2 as ((B2 & _) & _).
        apply (Inrd_noEF fuel). exact (proj1 (nrclose_fuel fuel _ B2)).
      + destruct (whole H cfg fuel (MToByteSlice max) t) as [[[d e] cbs] o] eqn:Hw.
        pose proof (Hwhole (MToByteSlice max) eq_refl) as Hk. rewrite Hw in Hk. exact Hk.
      + cbn [z_err z_tree]. split; [congruence|apply discard_noEF].
  Qed.
End Methods.

(** [16 + tree_fuel t], the fuel [out16N] uses, suffices (and so does any larger fuel). *)
Theorem tree_fuel_suffices H cfg fuel t m :
  16 + tree_fuel t <= fuel -> good_param m = true ->
  z_err (run_tree H cfg fuel t m) <> EFuel /\ noEF (z_tree (run_tree H cfg fuel t m)) = true.
Proof.
  intros Hf Hg. apply run_tree_fuel; [exact Hg|]. rewrite (proj1 tree_fuel_tcost) in Hf. lia.
Qed.
